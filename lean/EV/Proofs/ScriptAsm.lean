/-
  EV.Proofs.ScriptAsm — helper lemmas for the asm theorems of C16 (EV.Model.ScriptAsm): the loop of `fmt_asm`
  and the `Instructions` iterator both factor through one header reader (`hdr`), a cleanly decoding script is
  the concatenation of its raw instructions (`rounds`), its asm text is the concatenation of their texts, and
  that text determines the raw instructions.
-/
import EV.Proofs.ScriptAsmText
import EV.Proofs.ScriptIter
namespace EV.Proofs.ScriptAsm
open EV EV.Script EV.Gen EV.Opcodes EV.Proofs.Opcodes EV.Proofs.CodecPrim EV.Proofs.ScriptAsmText

/-! ## the header reader shared by `fmt_asm` and `Instructions::next` -/

/-- number of length bytes after the opcode -/
def lfLen (b : UInt8) : Nat :=
  if b = opPushdata1 then 1 else if b = opPushdata2 then 2 else if b = opPushdata4 then 4 else 0

/-- number of data bytes announced by opcode `b` with length field `lf` (`leNat [] = 0` for non-pushes) -/
def dataLenOf (b : UInt8) (lf : Bytes) : Nat := if b ≤ opPushbytes75 then b.toNat else leNat lf

/-- (number of length bytes, announced data length), `none` if the length field is cut off -/
def hdr (b : UInt8) (tl : Bytes) : Option (Nat × Nat) :=
  if tl.length < lfLen b then none else some (lfLen b, dataLenOf b (tl.take (lfLen b)))

theorem lfLen_cases : ∀ b : UInt8,
    (b ≤ opPushbytes75 ∧ lfLen b = 0) ∨ (b = opPushdata1 ∧ lfLen b = 1) ∨ (b = opPushdata2 ∧ lfLen b = 2) ∨
    (b = opPushdata4 ∧ lfLen b = 4) ∨ (opPushdata4 < b ∧ lfLen b = 0) := by decide +kernel

theorem lfLen_le (b : UInt8) : lfLen b ≤ 8 := by
  rcases lfLen_cases b with ⟨_, h⟩ | ⟨_, h⟩ | ⟨_, h⟩ | ⟨_, h⟩ | ⟨_, h⟩ <;> omega

theorem not_le75_of_lf {b : UInt8} (h : 0 < lfLen b) : ¬ b ≤ opPushbytes75 := by
  intro hle
  have e1 : ¬ opPushdata1 ≤ opPushbytes75 := by decide
  have e2 : ¬ opPushdata2 ≤ opPushbytes75 := by decide
  have e4 : ¬ opPushdata4 ≤ opPushbytes75 := by decide
  rcases lfLen_cases b with ⟨_, h'⟩ | ⟨rfl, _⟩ | ⟨rfl, _⟩ | ⟨rfl, _⟩ | ⟨_, h'⟩
  · omega
  · exact e1 hle
  · exact e2 hle
  · exact e4 hle
  · omega

private theorem readUint_ok (tl : Bytes) (k : Nat) (hk : k ≤ 8) (hl : ¬ tl.length < k) :
    readUint tl k = .ok (leNat (tl.take k)) := by
  unfold readUint
  have h2 : ¬ k > 8 := by omega
  simp [hl, h2]

theorem pushdataLen_eq (tl : Bytes) (k : Nat) (hk : k ≤ 8) :
    pushdataLen tl k = if tl.length < k then .unexpectedEnd else .len (leNat (tl.take k)) k := by
  unfold pushdataLen
  split
  · rfl
  · next h => rw [readUint_ok tl k hk h]

/-- what `dataLen` is once `classify(Legacy)` is known not to be `PushBytes` -/
theorem dataLen_other {b : UInt8} (tl : Bytes) (h1 : (classify .legacy b).isSome = true)
    (h2 : isPushBytes (classify .legacy b) = false) :
    dataLen b tl = if b == opPushdata1 then some (pushdataLen tl 1) else if b == opPushdata2 then some (pushdataLen tl 2)
      else if b == opPushdata4 then some (pushdataLen tl 4) else some (.len 0 0) := by
  obtain ⟨c, hc⟩ := Option.isSome_iff_exists.mp h1
  rw [hc] at h2
  cases c with
  | pushBytes n => simp [isPushBytes] at h2
  | _ => simp [dataLen, hc]

/-- H1: the `data_len` computation of `fmt_asm` through `hdr` (in particular `<bad length>` is unreachable and
    `classify(Legacy)` does not panic) -/
theorem dataLen_eq (b : UInt8) (tl : Bytes) :
    dataLen b tl = some (match hdr b tl with
      | some (k, n) => .len n k
      | none => .unexpectedEnd) := by
  have hpb := classify_of_tableAll (pushBytes_pass .legacy) b
  have htot := classify_of_tableAll legacy_total_pass b
  simp only [B_toNat] at hpb
  by_cases h75 : b ≤ opPushbytes75
  · simp only [h75, if_true, beq_iff_eq] at hpb
    have hl : lfLen b = 0 := by
      rcases Nat.eq_zero_or_pos (lfLen b) with h | h
      · exact h
      · exact absurd h75 (not_le75_of_lf h)
    simp [dataLen, hpb, hdr, hl, dataLenOf, h75]
  · simp only [h75, if_false, Bool.not_eq_true'] at hpb
    rw [dataLen_other tl htot hpb]
    have n12 : (opPushdata2 == opPushdata1) = false := by decide
    have n14 : (opPushdata4 == opPushdata1) = false := by decide
    have n24 : (opPushdata4 == opPushdata2) = false := by decide
    rcases lfLen_cases b with ⟨h, _⟩ | ⟨h, hl⟩ | ⟨h, hl⟩ | ⟨h, hl⟩ | ⟨h, hl⟩
    · exact absurd h h75
    · subst h
      simp only [beq_self_eq_true, if_true, pushdataLen_eq _ 1 (by omega), hdr, hl, dataLenOf, h75, if_false]
      by_cases c : tl.length < 1 <;> simp [c]
    · subst h
      simp only [n12, beq_self_eq_true, if_true, pushdataLen_eq _ 2 (by omega), hdr, hl, dataLenOf, h75, if_false]
      by_cases c : tl.length < 2 <;> simp [c]
    · subst h
      simp only [n14, n24, beq_self_eq_true, if_true, pushdataLen_eq _ 4 (by omega), hdr, hl, dataLenOf, h75, if_false]
      by_cases c : tl.length < 4 <;> simp [c]
    · have b1 : (b == opPushdata1) = false := by
        have : opPushdata1 < opPushdata4 := by decide
        exact beq_false_of_ne (fun e => by subst e; exact UInt8.lt_asymm h this)
      have b2 : (b == opPushdata2) = false := by
        have : opPushdata2 < opPushdata4 := by decide
        exact beq_false_of_ne (fun e => by subst e; exact UInt8.lt_asymm h this)
      have b4 : (b == opPushdata4) = false := beq_false_of_ne (fun e => by subst e; exact UInt8.lt_irrefl _ h)
      simp [b1, b2, b4, hdr, hl, dataLenOf, h75, leNat]

/-- H2: one step of the (non-minimal) iterator through `hdr` -/
theorem next_cons (b : UInt8) (tl : Bytes) :
    next false (b :: tl) = match hdr b tl with
      | none => .fail .earlyEnd
      | some (k, n) =>
        if (tl.drop k).length < n then .fail .earlyEnd
        else .item (if b ≤ opPushdata4 then .push ((tl.drop k).take n) else .op b) ((tl.drop k).drop n) := by
  have n12 : (opPushdata2 == opPushdata1) = false := by decide
  have n14 : (opPushdata4 == opPushdata1) = false := by decide
  have n24 : (opPushdata4 == opPushdata2) = false := by decide
  have e1 : ¬ opPushdata1 ≤ opPushbytes75 := by decide
  have e2 : ¬ opPushdata2 ≤ opPushbytes75 := by decide
  have e4 : ¬ opPushdata4 ≤ opPushbytes75 := by decide
  have l1 : opPushdata1 ≤ opPushdata4 := by decide
  have l2 : opPushdata2 ≤ opPushdata4 := by decide
  have l4 : opPushdata4 ≤ opPushdata4 := by decide
  rcases lfLen_cases b with ⟨h, hl⟩ | ⟨h, hl⟩ | ⟨h, hl⟩ | ⟨h, hl⟩ | ⟨h, hl⟩
  · have h4 : b ≤ opPushdata4 := UInt8.le_trans h (by decide)
    simp only [next, h, if_true, hdr, hl, dataLenOf, Nat.not_lt_zero, if_false, List.drop_zero, h4,
      Bool.false_and, Bool.false_eq_true, List.length_cons]
    by_cases c : tl.length < b.toNat
    · have : tl.length + 1 < b.toNat + 1 := by omega
      simp [c, this]
    · have : ¬ tl.length + 1 < b.toNat + 1 := by omega
      simp [c, this]
  · subst h
    simp only [next, e1, if_false, beq_self_eq_true, if_true, hdr, hl, dataLenOf, l1, List.length_cons,
      Bool.false_and, Bool.false_eq_true]
    by_cases c : tl.length < 1
    · have : tl.length + 1 < 2 := by omega
      simp [c, this]
    · have c2 : ¬ tl.length + 1 < 2 := by omega
      simp only [c, c2, if_false, readUint_ok tl 1 (by omega) c, List.length_drop]
      by_cases d : tl.length - 1 < leNat (tl.take 1)
      · have : tl.length + 1 < leNat (tl.take 1) + 2 := by omega
        simp [d, this]
      · have : ¬ tl.length + 1 < leNat (tl.take 1) + 2 := by omega
        simp [d, this, Nat.add_comm]
  · subst h
    simp only [next, e2, if_false, n12, beq_self_eq_true, if_true, hdr, hl, dataLenOf, l2, List.length_cons,
      Bool.false_and, Bool.false_eq_true]
    by_cases c : tl.length < 2
    · have : tl.length + 1 < 3 := by omega
      simp [c, this]
    · have c2 : ¬ tl.length + 1 < 3 := by omega
      simp only [c, c2, if_false, readUint_ok tl 2 (by omega) c, List.length_drop]
      by_cases d : tl.length - 2 < leNat (tl.take 2)
      · have : tl.length + 1 < leNat (tl.take 2) + 3 := by omega
        simp [d, this]
      · have : ¬ tl.length + 1 < leNat (tl.take 2) + 3 := by omega
        simp [d, this, Nat.add_comm]
  · subst h
    simp only [next, e4, if_false, n14, n24, beq_self_eq_true, if_true, hdr, hl, dataLenOf, l4, List.length_cons,
      Bool.false_and, Bool.false_eq_true]
    by_cases c : tl.length < 4
    · have : tl.length + 1 < 5 := by omega
      simp [c, this]
    · have c2 : ¬ tl.length + 1 < 5 := by omega
      simp only [c, c2, if_false, readUint_ok tl 4 (by omega) c, List.length_drop]
      by_cases d : tl.length - 4 < leNat (tl.take 4)
      · have : tl.length + 1 < leNat (tl.take 4) + 5 := by omega
        simp [d, this]
      · have : ¬ tl.length + 1 < leNat (tl.take 4) + 5 := by omega
        simp [d, this, Nat.add_comm]
  · have h75 : ¬ b ≤ opPushbytes75 := by
      have : opPushbytes75 < opPushdata4 := by decide
      exact fun hle => absurd (UInt8.lt_of_le_of_lt hle this) (UInt8.lt_asymm h)
    have h4 : ¬ b ≤ opPushdata4 := UInt8.not_le.mpr h
    have b1 : (b == opPushdata1) = false := by
      have : opPushdata1 < opPushdata4 := by decide
      exact beq_false_of_ne (fun e => by subst e; exact UInt8.lt_asymm h this)
    have b2 : (b == opPushdata2) = false := by
      have : opPushdata2 < opPushdata4 := by decide
      exact beq_false_of_ne (fun e => by subst e; exact UInt8.lt_irrefl _ (UInt8.lt_trans h this))
    have b4 : (b == opPushdata4) = false := beq_false_of_ne (fun e => by subst e; exact UInt8.lt_irrefl _ h)
    simp [next, h75, b1, b2, b4, hdr, hl, dataLenOf, h4, leNat]

/-! ## raw instructions of a cleanly decoding script -/

/-- opcode byte, length field, data -/
structure Raw where
  op : UInt8
  lf : Bytes
  data : Bytes
  deriving DecidableEq

def Raw.bytes (r : Raw) : Bytes := r.op :: (r.lf ++ r.data)

/-- the length field has the width the opcode demands and announces exactly the data -/
def Raw.ok (r : Raw) : Prop := r.lf.length = lfLen r.op ∧ r.data.length = dataLenOf r.op r.lf

/-- split a script into raw instructions; `none` as soon as a header or its data is cut off -/
def rounds : Nat → Bytes → Option (List Raw)
  | 0, _ => some []
  | _ + 1, [] => some []
  | f + 1, b :: tl =>
    match hdr b tl with
    | none => none
    | some (k, n) =>
      if (tl.drop k).length < n then none
      else (rounds f ((tl.drop k).drop n)).map (⟨b, tl.take k, (tl.drop k).take n⟩ :: ·)

theorem hdr_some {b : UInt8} {tl : Bytes} {k n : Nat} (h : hdr b tl = some (k, n)) :
    k = lfLen b ∧ n = dataLenOf b (tl.take k) ∧ k ≤ tl.length := by
  unfold hdr at h
  split at h
  · cases h
  · next hl =>
    cases h
    exact ⟨rfl, rfl, by omega⟩

/-- the iterator has no error exactly when the script splits into raw instructions -/
theorem collect_clean_iff (f : Nat) : ∀ s : Bytes, (collect false f s).2 = none ↔ (rounds f s).isSome = true := by
  induction f with
  | zero => intro s; simp [collect, rounds]
  | succ f ih =>
    intro s
    cases s with
    | nil => simp [collect, rounds, next]
    | cons b tl =>
      simp only [collect, rounds, next_cons]
      cases hh : hdr b tl with
      | none => simp
      | some kn =>
        obtain ⟨k, n⟩ := kn
        simp only
        by_cases c : (tl.drop k).length < n
        · simp only [c, if_true]; simp
        · simp only [c, if_false]
          rw [ih]
          simp

theorem rounds_ok (f : Nat) : ∀ (s : Bytes) (rs : List Raw), s.length ≤ f → rounds f s = some rs →
    s = rs.flatMap Raw.bytes ∧ ∀ r ∈ rs, r.ok := by
  induction f with
  | zero =>
    intro s rs hl h
    have : s = [] := List.eq_nil_of_length_eq_zero (by omega)
    subst this
    simp only [rounds] at h
    cases h
    simp
  | succ f ih =>
    intro s rs hl h
    cases s with
    | nil => simp only [rounds] at h; cases h; simp
    | cons b tl =>
      simp only [rounds] at h
      cases hh : hdr b tl with
      | none => rw [hh] at h; cases h
      | some kn =>
        obtain ⟨k, n⟩ := kn
        rw [hh] at h
        simp only at h
        obtain ⟨hk, hn, hkl⟩ := hdr_some hh
        by_cases c : (tl.drop k).length < n
        · rw [if_pos c] at h; cases h
        · simp only [c, if_false, Option.map_eq_some_iff] at h
          obtain ⟨rs', hr, rfl⟩ := h
          have hlen : ((tl.drop k).drop n).length ≤ f := by
            simp only [List.length_drop, List.length_cons] at hl ⊢; omega
          obtain ⟨e, hok⟩ := ih _ _ hlen hr
          constructor
          · simp only [List.flatMap_cons, Raw.bytes, ← e, List.cons_append, List.append_assoc, List.take_append_drop]
          · intro r hr'
            rcases List.mem_cons.mp hr' with rfl | hr'
            · refine ⟨?_, ?_⟩
              · simp only [List.length_take]; omega
              · simp only [List.length_take, List.length_drop] at c ⊢
                rw [← hn]; omega
            · exact hok r hr'

/-! ## the asm text of raw instructions -/

/-- the text of one round when a separator is written: ` OPCODE` or ` OPCODE hex` -/
def rawBody (r : Raw) : List Char :=
  asmOpcode r.op ++ (if r.data.length > 0 then ' ' :: Text.hexStr r.data else [])

def tailText (rs : List Raw) : List Char := rs.flatMap fun r => ' ' :: rawBody r

/-- text of a whole script: the first round has no separator unless length bytes were skipped -/
def topText : List Raw → List Char
  | [] => []
  | r :: rest => (if r.lf = [] then rawBody r else ' ' :: rawBody r) ++ tailText rest

/-- the loop of `fmt_asm` from a position `index ≥ 1`: one ` body` per raw instruction -/
theorem asmLoop_tail (f : Nat) : ∀ (index : Nat) (s : Bytes) (rs : List Raw), 1 ≤ index → rounds f s = some rs →
    asmLoop f index s = some (tailText rs) := by
  induction f with
  | zero => intro index s rs _ h; simp only [rounds] at h; cases h; simp [asmLoop, tailText]
  | succ f ih =>
    intro index s rs hi h
    cases s with
    | nil => simp only [rounds] at h; cases h; simp [asmLoop, tailText]
    | cons b tl =>
      simp only [rounds] at h
      cases hh : hdr b tl with
      | none => rw [hh] at h; cases h
      | some kn =>
        obtain ⟨k, n⟩ := kn
        rw [hh] at h
        simp only at h
        by_cases c : (tl.drop k).length < n
        · rw [if_pos c] at h; cases h
        · simp only [c, if_false, Option.map_eq_some_iff] at h
          obtain ⟨rs', hr, rfl⟩ := h
          have hidx : index + 1 + k > 1 := by omega
          simp only [asmLoop, dataLen_eq, hh, hidx, if_true]
          by_cases hn : n > 0
          · have hle : n ≤ (tl.drop k).length := by omega
            have hdl : ((tl.drop k).take n).length > 0 := by simp only [List.length_take]; omega
            have ih' := ih (index + 1 + k + n) _ _ (by omega) hr
            simp only [hn, hle, if_true, ih', Option.map_some, tailText, List.flatMap_cons, rawBody, hdl]
            simp
          · have hn0 : n = 0 := by omega
            subst hn0
            have ih' := ih (index + 1 + k) _ _ (by omega) hr
            simp only [List.drop_zero] at ih'
            simp only [Nat.lt_irrefl, if_false, ih', Option.map_some, tailText,
              List.flatMap_cons, rawBody, List.take_zero, List.length_nil]
            simp

/-- the loop of `fmt_asm` from the start -/
theorem asmLoop_top (f : Nat) (s : Bytes) (rs : List Raw) (h : rounds f s = some rs) :
    asmLoop f 0 s = some (topText rs) := by
  cases f with
  | zero => simp only [rounds] at h; cases h; simp [asmLoop, topText]
  | succ f =>
    cases s with
    | nil => simp only [rounds] at h; cases h; simp [asmLoop, topText]
    | cons b tl =>
      simp only [rounds] at h
      cases hh : hdr b tl with
      | none => rw [hh] at h; cases h
      | some kn =>
        obtain ⟨k, n⟩ := kn
        rw [hh] at h
        simp only at h
        obtain ⟨_, _, hkl⟩ := hdr_some hh
        by_cases c : (tl.drop k).length < n
        · rw [if_pos c] at h; cases h
        · simp only [c, if_false, Option.map_eq_some_iff] at h
          obtain ⟨rs', hr, rfl⟩ := h
          have hlf : (tl.take k = []) ↔ ¬ (0 + 1 + k > 1) := by
            constructor
            · intro e
              have := congrArg List.length e
              simp only [List.length_take, List.length_nil] at this
              omega
            · intro e
              have : k = 0 := by omega
              subst this; simp
          simp only [asmLoop, dataLen_eq, hh]
          by_cases hn : n > 0
          · have hle : n ≤ (tl.drop k).length := by omega
            have hdl : ((tl.drop k).take n).length > 0 := by simp only [List.length_take]; omega
            have ih' := asmLoop_tail f (0 + 1 + k + n) _ _ (by omega) hr
            simp only [hn, hle, if_true, ih', Option.map_some, topText, rawBody, hdl]
            by_cases hk : 0 + 1 + k > 1
            · have : ¬ tl.take k = [] := fun e => (hlf.mp e) hk
              simp [hk, this]
            · have : tl.take k = [] := hlf.mpr hk
              simp [hk, this]
          · have hn0 : n = 0 := by omega
            subst hn0
            have ih' := asmLoop_tail f (0 + 1 + k) _ _ (by omega) hr
            simp only [List.drop_zero] at ih'
            simp only [Nat.lt_irrefl, if_false, ih', Option.map_some, topText,
              rawBody, List.take_zero, List.length_nil]
            by_cases hk : 0 + 1 + k > 1
            · have : ¬ tl.take k = [] := fun e => (hlf.mp e) hk
              simp [hk, this]
            · have : tl.take k = [] := hlf.mpr hk
              simp [hk, this]

/-! ## the text determines the raw instructions -/

theorem tailText_Sp (rs : List Raw) : Sp (tailText rs) := by
  cases rs with
  | nil => exact Sp_nil
  | cons r rest => exact Sp_cons _

theorem tailText_cons (r : Raw) (rest : List Raw) : tailText (r :: rest) = ' ' :: (rawBody r ++ tailText rest) := by
  simp [tailText]

theorem lf_eq_of_ok {r r' : Raw} (h : r.ok) (h' : r'.ok) (eo : r.op = r'.op) (ed : r.data = r'.data) : r.lf = r'.lf := by
  have hl : r.lf.length = r'.lf.length := by rw [h.1, h'.1, eo]
  by_cases c : r.op ≤ opPushbytes75
  · have z : lfLen r.op = 0 := by
      rcases Nat.eq_zero_or_pos (lfLen r.op) with z | z
      · exact z
      · exact absurd c (not_le75_of_lf z)
    have a : r.lf = [] := List.eq_nil_of_length_eq_zero (by rw [h.1, z])
    have b : r'.lf = [] := List.eq_nil_of_length_eq_zero (by rw [← hl, h.1, z])
    rw [a, b]
  · have c' : ¬ r'.op ≤ opPushbytes75 := by rw [← eo]; exact c
    have e1 : r.data.length = leNat r.lf := by rw [h.2, dataLenOf, if_neg c]
    have e2 : r'.data.length = leNat r'.lf := by rw [h'.2, dataLenOf, if_neg c']
    have e : leNat r.lf = leNat r'.lf := by rw [← e1, ← e2, ed]
    rw [← leBytes_leNat r.lf, ← leBytes_leNat r'.lf, hl, e]

/-- a hex word cannot stand where the next opcode text is expected -/
theorem hex_ne_tail {d : Bytes} (hd : 0 < d.length) (t : List Char) (rs : List Raw) :
    Text.hexStr d ++ t ≠ tailText rs := by
  cases hx : Text.hexStr d with
  | nil => exact absurd hx (hexStr_ne_nil hd)
  | cons c hs =>
    have hc : c ∈ Text.hexStr d := by rw [hx]; simp
    have hsp := (hexStr_shape d c hc).1
    cases rs with
    | nil => simp [tailText]
    | cons r rest =>
      rw [tailText_cons]
      intro e
      simp only [List.cons_append] at e
      injection e with e1 _
      exact hsp e1

theorem body_split {r r' : Raw} {rest rest' : List Raw} (h : r.ok) (h' : r'.ok)
    (e : rawBody r ++ tailText rest = rawBody r' ++ tailText rest') : r = r' ∧ tailText rest = tailText rest' := by
  have sp : ∀ (x : Raw) (xs : List Raw), Sp ((if x.data.length > 0 then ' ' :: Text.hexStr x.data else []) ++ tailText xs) := by
    intro x xs
    by_cases c : x.data.length > 0
    · simp only [c, if_true, List.cons_append]; exact Sp_cons _
    · simp only [c, if_false, List.nil_append]; exact tailText_Sp xs
  simp only [rawBody, List.append_assoc] at e
  obtain ⟨e1, e2⟩ := word_split _ _ _ _ (asmOpcode_shape r.op).2.1 (asmOpcode_shape r'.op).2.1 (sp r rest) (sp r' rest') e
  have eo : r.op = r'.op := asmOpcode_injective e1
  have fin : r.data = r'.data → tailText rest = tailText rest' → r = r' ∧ tailText rest = tailText rest' := by
    intro ed et
    have el := lf_eq_of_ok h h' eo ed
    refine ⟨?_, et⟩
    cases r; cases r'; simp_all
  by_cases c : r.data.length > 0 <;> by_cases c' : r'.data.length > 0
  · simp only [c, c', if_true, List.cons_append] at e2
    injection e2 with _ e3
    have hs : ∀ d : Bytes, ' ' ∉ Text.hexStr d := fun d m => (hexStr_shape d _ m).1 rfl
    obtain ⟨e4, e5⟩ := word_split _ _ _ _ (hs _) (hs _) (tailText_Sp rest) (tailText_Sp rest') e3
    exact fin (hexStr_injective e4) e5
  · simp only [c, c', if_true, if_false, List.cons_append, List.nil_append] at e2
    cases rest' with
    | nil => simp [tailText] at e2
    | cons r2 rest2 =>
      rw [tailText_cons] at e2
      injection e2 with _ e3
      obtain ⟨t, ht⟩ := (asmOpcode_shape r2.op).1
      cases hx : Text.hexStr r.data with
      | nil => exact absurd hx (hexStr_ne_nil c)
      | cons ch hs =>
        have hc : ch ∈ Text.hexStr r.data := by rw [hx]; simp
        rw [hx, rawBody, ht] at e3
        simp only [List.cons_append] at e3
        injection e3 with e4 _
        exact absurd e4 (hexStr_shape _ _ hc).2.1
  · simp only [c, c', if_true, if_false, List.cons_append, List.nil_append] at e2
    cases rest with
    | nil => simp [tailText] at e2
    | cons r2 rest2 =>
      rw [tailText_cons] at e2
      injection e2 with _ e3
      obtain ⟨t, ht⟩ := (asmOpcode_shape r2.op).1
      cases hx : Text.hexStr r'.data with
      | nil => exact absurd hx (hexStr_ne_nil c')
      | cons ch hs =>
        have hc : ch ∈ Text.hexStr r'.data := by rw [hx]; simp
        rw [hx, rawBody, ht] at e3
        simp only [List.cons_append] at e3
        injection e3 with e4 _
        exact absurd e4.symm (hexStr_shape _ _ hc).2.1
  · simp only [c, c', if_false, List.nil_append] at e2
    have d0 : r.data = [] := List.eq_nil_of_length_eq_zero (by omega)
    have d0' : r'.data = [] := List.eq_nil_of_length_eq_zero (by omega)
    exact fin (by rw [d0, d0']) e2

theorem tailText_injective : ∀ (rs rs' : List Raw), (∀ r ∈ rs, r.ok) → (∀ r ∈ rs', r.ok) →
    tailText rs = tailText rs' → rs = rs' := by
  intro rs
  induction rs with
  | nil =>
    intro rs' _ _ e
    cases rs' with
    | nil => rfl
    | cons r rest => simp [tailText] at e
  | cons r rest ih =>
    intro rs' h h' e
    cases rs' with
    | nil => simp [tailText] at e
    | cons r' rest' =>
      rw [tailText_cons, tailText_cons] at e
      injection e with _ e1
      obtain ⟨e2, e3⟩ := body_split (h r (by simp)) (h' r' (by simp)) e1
      rw [e2, ih rest' (fun x hx => h x (by simp [hx])) (fun x hx => h' x (by simp [hx])) e3]

theorem rawBody_head (r : Raw) : ∃ t, rawBody r = 'O' :: t := by
  obtain ⟨t, ht⟩ := (asmOpcode_shape r.op).1
  exact ⟨t ++ _, by rw [rawBody, ht]; rfl⟩

theorem topText_injective (rs rs' : List Raw) (h : ∀ r ∈ rs, r.ok) (h' : ∀ r ∈ rs', r.ok)
    (e : topText rs = topText rs') : rs = rs' := by
  apply tailText_injective rs rs' h h'
  cases rs with
  | nil =>
    cases rs' with
    | nil => rfl
    | cons r' rest' =>
      obtain ⟨t, ht⟩ := rawBody_head r'
      simp only [topText] at e
      split at e <;> simp [ht] at e
  | cons r rest =>
    cases rs' with
    | nil =>
      obtain ⟨t, ht⟩ := rawBody_head r
      simp only [topText] at e
      split at e <;> simp [ht] at e
    | cons r' rest' =>
      obtain ⟨t, ht⟩ := rawBody_head r
      obtain ⟨t', ht'⟩ := rawBody_head r'
      rw [tailText_cons, tailText_cons]
      simp only [topText] at e
      by_cases c : r.lf = [] <;> by_cases c' : r'.lf = []
      · simp only [c, c', if_true] at e; rw [e]
      · simp only [c, c', if_true, if_false, ht, List.cons_append] at e
        injection e with e1 _
        exact absurd e1 (by decide)
      · simp only [c, c', if_true, if_false, ht', List.cons_append] at e
        injection e with e1 _
        exact absurd e1 (by decide)
      · simp only [c, c', if_false, List.cons_append] at e
        exact e

/-! ## clean scripts: asm through `rounds` -/

theorem asm_of_rounds {s : Bytes} {rs : List Raw} (h : rounds s.length s = some rs) : asm s = some (topText rs) :=
  asmLoop_top _ _ _ h

theorem clean_rounds {s : Bytes} (h : (instructions s).2 = none) : ∃ rs, rounds s.length s = some rs :=
  Option.isSome_iff_exists.mp ((collect_clean_iff s.length s).mp h)

theorem asm_injective_clean (s t : Bytes) (hs : (instructions s).2 = none) (ht : (instructions t).2 = none)
    (h : asm s = asm t) : s = t := by
  obtain ⟨rs, hrs⟩ := clean_rounds hs
  obtain ⟨rt, hrt⟩ := clean_rounds ht
  rw [asm_of_rounds hrs, asm_of_rounds hrt] at h
  obtain ⟨es, oks⟩ := rounds_ok _ _ _ (Nat.le_refl _) hrs
  obtain ⟨et, okt⟩ := rounds_ok _ _ _ (Nat.le_refl _) hrt
  have := topText_injective rs rt oks okt (Option.some.inj h)
  rw [es, et, this]

/-! ## error markers -/

theorem rawBody_no_lt (r : Raw) : '<' ∉ rawBody r := by
  intro m
  simp only [rawBody, List.mem_append] at m
  rcases m with m | m
  · exact (asmOpcode_shape r.op).2.2 m
  · split at m
    · rcases List.mem_cons.mp m with m | m
      · exact absurd m (by decide)
      · exact (hexStr_shape _ _ m).2.2 rfl
    · cases m

theorem tailText_no_lt (rs : List Raw) : '<' ∉ tailText rs := by
  intro m
  simp only [tailText, List.mem_flatMap] at m
  obtain ⟨r, _, m⟩ := m
  rcases List.mem_cons.mp m with m | m
  · exact absurd m (by decide)
  · exact rawBody_no_lt r m

theorem topText_no_lt (rs : List Raw) : '<' ∉ topText rs := by
  cases rs with
  | nil => simp [topText]
  | cons r rest =>
    intro m
    simp only [topText, List.mem_append] at m
    rcases m with m | m
    · split at m
      · exact rawBody_no_lt r m
      · rcases List.mem_cons.mp m with m | m
        · exact absurd m (by decide)
        · exact rawBody_no_lt r m
    · exact tailText_no_lt rest m

/-- a script that does not split into raw instructions still formats, and the text ends in a marker -/
theorem asmLoop_error (f : Nat) : ∀ (index : Nat) (s : Bytes), rounds f s = none →
    ∃ cs, asmLoop f index s = some cs ∧ '<' ∈ cs := by
  have m1 : '<' ∈ asmUnexpectedEnd := by decide
  have m2 : '<' ∈ asmPushPastEnd := by decide
  induction f with
  | zero => intro index s h; simp [rounds] at h
  | succ f ih =>
    intro index s h
    cases s with
    | nil => simp [rounds] at h
    | cons b tl =>
      simp only [rounds] at h
      cases hh : hdr b tl with
      | none => exact ⟨_, by simp only [asmLoop, dataLen_eq, hh], m1⟩
      | some kn =>
        obtain ⟨k, n⟩ := kn
        rw [hh] at h
        simp only at h
        by_cases c : (tl.drop k).length < n
        · have hn : n > 0 := by omega
          have hle : ¬ n ≤ (tl.drop k).length := by omega
          refine ⟨_, by simp only [asmLoop, dataLen_eq, hh, hn, hle, if_true, if_false]; rfl, ?_⟩
          simp [m2]
        · rw [if_neg c] at h
          have hr : rounds f ((tl.drop k).drop n) = none := by
            cases hx : rounds f ((tl.drop k).drop n) with
            | none => rfl
            | some x => rw [hx] at h; cases h
          by_cases hn : n > 0
          · have hle : n ≤ (tl.drop k).length := by omega
            obtain ⟨cs, hcs, hm⟩ := ih (index + 1 + k + n) _ hr
            refine ⟨_, by simp only [asmLoop, dataLen_eq, hh, hn, hle, if_true, hcs, Option.map_some]; rfl, ?_⟩
            simp [hm]
          · have hn0 : n = 0 := by omega
            subst hn0
            simp only [List.drop_zero] at hr
            obtain ⟨cs, hcs, hm⟩ := ih (index + 1 + k) _ hr
            refine ⟨_, by simp only [asmLoop, dataLen_eq, hh, Nat.lt_irrefl, if_false, hcs, Option.map_some]; rfl, ?_⟩
            simp [hm]

theorem asm_total (s : Bytes) : ∃ cs, asm s = some cs := by
  cases h : rounds s.length s with
  | none => obtain ⟨cs, hcs, _⟩ := asmLoop_error s.length 0 s h; exact ⟨cs, hcs⟩
  | some rs => exact ⟨_, asm_of_rounds h⟩

theorem asm_marker_iff (s : Bytes) : (instructions s).2 = none ↔ ∃ cs, asm s = some cs ∧ '<' ∉ cs := by
  constructor
  · intro h
    obtain ⟨rs, hrs⟩ := clean_rounds h
    exact ⟨_, asm_of_rounds hrs, topText_no_lt rs⟩
  · rintro ⟨cs, hcs, hn⟩
    apply (collect_clean_iff s.length s).mpr
    cases h : rounds s.length s with
    | some rs => rfl
    | none =>
      obtain ⟨cs', hcs', hm⟩ := asmLoop_error s.length 0 s h
      have : cs = cs' := Option.some.inj (hcs.symm.trans hcs')
      exact absurd (this ▸ hm) hn

/-! ## canonically encoded instruction lists -/

theorem pushOpcodeOf_cases (n : Nat) (h : n < 2 ^ 32) :
    (n < 76 ∧ pushOpcodeOf n = UInt8.ofNat n) ∨ (76 ≤ n ∧ (pushOpcodeOf n = opPushdata1 ∨ pushOpcodeOf n = opPushdata2 ∨
      pushOpcodeOf n = opPushdata4)) := by
  rcases ScriptIter.pushHeader_cases n with ⟨h1, e⟩ | ⟨h1, _, e⟩ | ⟨h1, _, e⟩ | ⟨h1, _, e⟩ | ⟨h1, _⟩
  · exact Or.inl ⟨h1, by simp [pushOpcodeOf, e]⟩
  · exact Or.inr ⟨h1, Or.inl (by simp [pushOpcodeOf, e])⟩
  · exact Or.inr ⟨by omega, Or.inr (Or.inl (by simp [pushOpcodeOf, e]))⟩
  · exact Or.inr ⟨by omega, Or.inr (Or.inr (by simp [pushOpcodeOf, e]))⟩
  · omega

/-- first byte of the canonical encoding -/
def headOp : Instr → UInt8
  | .push d => pushOpcodeOf d.length
  | .op c => c

theorem encInstr_head (i : Instr) (h : i.wf) : ∃ tl, encInstr i = headOp i :: tl := by
  cases i with
  | op c => exact ⟨[], rfl⟩
  | push d =>
    obtain ⟨hd, e, hne⟩ := ScriptIter.pushHeader_some (n := d.length) h
    cases hd with
    | nil => exact absurd rfl hne
    | cons x xs => exact ⟨xs ++ d, by simp [encInstr, pushOpcodeOf, headOp, e]⟩

/-- one canonically encoded instruction is one raw instruction with the expected text -/
theorem rounds_enc (f : Nat) (i : Instr) (rest : Bytes) (hwf : i.wf) :
    ∃ r : Raw, rounds (f + 1) (encInstr i ++ rest) = (rounds f rest).map (r :: ·) ∧ rawBody r = asmItem i ∧
      ((r.lf = [] → asmLead [i] = []) ∧ (r.lf ≠ [] → asmLead [i] = [' '])) := by
  obtain ⟨tl0, htl⟩ := encInstr_head i hwf
  have hn := ScriptIter.next_enc false i rest hwf (by simp)
  rw [htl] at hn
  simp only [List.cons_append] at hn
  rw [next_cons] at hn
  rw [htl]
  simp only [List.cons_append, rounds]
  cases hh : hdr (headOp i) (tl0 ++ rest) with
  | none => rw [hh] at hn; cases hn
  | some kn =>
    obtain ⟨k, n⟩ := kn
    rw [hh] at hn
    simp only at hn ⊢
    obtain ⟨hk, _, hkl⟩ := hdr_some hh
    by_cases c : ((tl0 ++ rest).drop k).length < n
    · rw [if_pos c] at hn; cases hn
    · rw [if_neg c] at hn ⊢
      injection hn with hi hr
      refine ⟨_, by rw [hr], ?_, ?_⟩
      · cases i with
        | op c0 =>
          replace hi : (if c0 ≤ opPushdata4 then Instr.push (((tl0 ++ rest).drop k).take n) else Instr.op c0) = Instr.op c0 := hi
          replace hh : hdr c0 (tl0 ++ rest) = some (k, n) := hh
          by_cases q : c0 ≤ opPushdata4
          · rw [if_pos q] at hi; cases hi
          · simp only [rawBody, asmItem, headOp]
            have h4 : opPushdata4 < c0 := hwf
            have : lfLen c0 = 0 := by
              rcases lfLen_cases c0 with ⟨_, z⟩ | ⟨e, _⟩ | ⟨e, _⟩ | ⟨e, _⟩ | ⟨_, z⟩
              · exact z
              · subst e; exact absurd h4 (by decide)
              · subst e; exact absurd h4 (by decide)
              · subst e; exact absurd h4 (by decide)
              · exact z
            have h75 : ¬ c0 ≤ opPushbytes75 := by
              have : opPushbytes75 < opPushdata4 := by decide
              exact fun hle => absurd (UInt8.lt_of_le_of_lt hle this) (UInt8.lt_asymm h4)
            have hn0 : n = 0 := by
              obtain ⟨hk', hn', _⟩ := hdr_some hh
              rw [hn', dataLenOf, if_neg h75, hk', this]; simp [leNat]
            subst hn0
            simp
        | push d =>
          replace hi : (if pushOpcodeOf d.length ≤ opPushdata4 then Instr.push (((tl0 ++ rest).drop k).take n)
              else Instr.op (pushOpcodeOf d.length)) = Instr.push d := hi
          by_cases q : pushOpcodeOf d.length ≤ opPushdata4
          · rw [if_pos q] at hi
            injection hi with hd
            simp only [rawBody, asmItem, hd, headOp]
          · rw [if_neg q] at hi; cases hi
      · cases i with
        | op c0 =>
          have h4 : opPushdata4 < c0 := hwf
          have : lfLen c0 = 0 := by
            rcases lfLen_cases c0 with ⟨_, z⟩ | ⟨e, _⟩ | ⟨e, _⟩ | ⟨e, _⟩ | ⟨_, z⟩
            · exact z
            · subst e; exact absurd h4 (by decide)
            · subst e; exact absurd h4 (by decide)
            · subst e; exact absurd h4 (by decide)
            · exact z
          simp only [headOp] at hk
          have k0 : k = 0 := by rw [hk, this]
          subst k0
          simp [asmLead]
        | push d =>
          simp only [headOp] at hk
          have hlt : d.length < 2 ^ 32 := hwf
          rcases pushOpcodeOf_cases d.length hlt with ⟨h76, e⟩ | ⟨h76, e⟩
          · have : lfLen (pushOpcodeOf d.length) = 0 := by
              rcases Nat.eq_zero_or_pos (lfLen (pushOpcodeOf d.length)) with z | z
              · exact z
              · exfalso
                apply not_le75_of_lf z
                rw [e]
                apply UInt8.le_iff_toNat_le.mpr
                rw [ScriptIter.ofNat_toNat_lt (by omega)]
                have : opPushbytes75.toNat = 75 := by decide
                omega
            have k0 : k = 0 := by rw [hk, this]
            subst k0
            have : ¬ 76 ≤ d.length := by omega
            simp [asmLead, this]
          · have : 0 < lfLen (pushOpcodeOf d.length) := by
              rcases e with e | e | e <;> rw [e] <;> decide
            have kpos : 0 < k := by rw [hk]; exact this
            have hne : (tl0 ++ rest).take k ≠ [] := by
              intro e0
              have := congrArg List.length e0
              simp only [List.length_take, List.length_nil] at this
              omega
            simp [asmLead, h76, hne]

theorem tailText_serialize (is : List Instr) (hwf : ∀ i ∈ is, i.wf) : ∀ f, (serialize is).length ≤ f →
    ∃ rs, rounds f (serialize is) = some rs ∧ tailText rs = is.flatMap (fun i => ' ' :: asmItem i) ∧
      (topText rs = asmLead is ++ (is.flatMap (fun i => ' ' :: asmItem i)).drop 1) := by
  induction is with
  | nil =>
    intro f _
    refine ⟨[], ?_, rfl, rfl⟩
    cases f <;> simp [serialize, rounds]
  | cons i is ih =>
    intro f hf
    have hi : i.wf := hwf i (by simp)
    have hne := ScriptIter.encInstr_ne_nil i hi
    have hlen : 0 < (encInstr i).length := List.length_pos_iff.mpr hne
    simp only [serialize, List.length_append] at hf
    cases f with
    | zero => omega
    | succ f =>
      obtain ⟨rs, hrs, ht, _⟩ := ih (fun j hj => hwf j (by simp [hj])) f (by omega)
      obtain ⟨r, hr, hb, hl1, hl2⟩ := rounds_enc f i (serialize is) hi
      refine ⟨r :: rs, by rw [serialize, hr, hrs]; rfl, by rw [tailText_cons, hb, ht]; simp, ?_⟩
      simp only [topText, hb, ht, List.flatMap_cons, List.cons_append, List.drop_succ_cons, List.drop_zero]
      have ha : asmLead (i :: is) = asmLead [i] := by cases i <;> rfl
      rw [ha]
      by_cases c : r.lf = []
      · simp [c, hl1 c]
      · simp [c, hl2 c]

theorem intercalate_space {α} (f : α → List Char) (xs : List α) :
    [' '].intercalate (xs.map f) = (xs.flatMap (fun x => ' ' :: f x)).drop 1 := by
  induction xs with
  | nil => rfl
  | cons x rest ih =>
    cases rest with
    | nil => simp [List.intercalate]
    | cons y ys =>
      have e : [' '].intercalate ((x :: y :: ys).map f) = f x ++ ' ' :: [' '].intercalate ((y :: ys).map f) := by
        simp [List.intercalate]
      rw [e, ih]
      simp

/-- asm of a canonically encoded instruction list: its items, separated by single spaces -/
theorem asm_serialize (is : List Instr) (hwf : ∀ i ∈ is, i.wf) : asm (serialize is) = some (asmItems is) := by
  obtain ⟨rs, hrs, _, ht⟩ := tailText_serialize is hwf _ (Nat.le_refl _)
  rw [asm_of_rounds hrs, ht, asmItems, intercalate_space]

/-! ## hex forms parse back -/

theorem nib_digitUpper : ∀ n : Fin 16, Hex.nib (digitUpper n.val) = some n.val := by decide

theorem decodeChars_upperHex (bs : Bytes) : Hex.decodeChars (upperHex bs) = some bs := by
  induction bs with
  | nil => rfl
  | cons b rest ih =>
    have h1 : b.toNat / 16 < 16 := by have := b.toNat_lt; omega
    have h2 : b.toNat % 16 < 16 := Nat.mod_lt _ (by decide)
    have hb : UInt8.ofNat (b.toNat / 16 * 16 + b.toNat % 16) = b := by
      have : b.toNat / 16 * 16 + b.toNat % 16 = b.toNat := by omega
      rw [this]; exact UInt8.ofNat_toNat
    simp only [upperHex, List.flatMap_cons, List.cons_append, List.nil_append] at ih ⊢
    simp only [Hex.decodeChars, nib_digitUpper ⟨_, h1⟩, nib_digitUpper ⟨_, h2⟩, ih, hb]

end EV.Proofs.ScriptAsm
