/-
  EV.Proofs.PsetExtract — `extract_tx` is a function of a fixed list of PSET fields (`TxEq`):
  two PSETs that agree on them extract the same transaction (or the same error); each field of the
  extracted transaction is the stated function of the PSET fields; when and how extraction fails.
-/
import EV.Model.Pset
import EV.Proofs.PsetId
import EV.Proofs.PsetRoundTrip
namespace EV
open Codec

/-- the input fields read by `extract_tx` -/
structure PsetInput.TxEq (x y : PsetInput) : Prop where
  previousTxid : x.previousTxid = y.previousTxid
  previousOutputIndex : x.previousOutputIndex = y.previousOutputIndex
  sequence : x.sequence = y.sequence
  finalScriptSig : x.finalScriptSig = y.finalScriptSig
  finalScriptWitness : x.finalScriptWitness = y.finalScriptWitness
  requiredTimeLocktime : x.requiredTimeLocktime = y.requiredTimeLocktime
  requiredHeightLocktime : x.requiredHeightLocktime = y.requiredHeightLocktime
  issuanceValueAmount : x.issuanceValueAmount = y.issuanceValueAmount
  issuanceValueComm : x.issuanceValueComm = y.issuanceValueComm
  issuanceInflationKeys : x.issuanceInflationKeys = y.issuanceInflationKeys
  issuanceInflationKeysComm : x.issuanceInflationKeysComm = y.issuanceInflationKeysComm
  issuanceBlindingNonce : x.issuanceBlindingNonce = y.issuanceBlindingNonce
  issuanceAssetEntropy : x.issuanceAssetEntropy = y.issuanceAssetEntropy
  issuanceValueRangeproof : x.issuanceValueRangeproof = y.issuanceValueRangeproof
  issuanceKeysRangeproof : x.issuanceKeysRangeproof = y.issuanceKeysRangeproof
  peginWitness : x.peginWitness = y.peginWitness

/-- the output fields read by `extract_tx` -/
structure PsetOutput.TxEq (x y : PsetOutput) : Prop where
  amount : x.amount = y.amount
  amountComm : x.amountComm = y.amountComm
  scriptPubkey : x.scriptPubkey = y.scriptPubkey
  asset : x.asset = y.asset
  assetComm : x.assetComm = y.assetComm
  ecdhPubkey : x.ecdhPubkey = y.ecdhPubkey
  valueRangeproof : x.valueRangeproof = y.valueRangeproof
  assetSurjectionProof : x.assetSurjectionProof = y.assetSurjectionProof

structure Pset.TxEq (a b : Pset) : Prop where
  global : PsetGlobal.IdEq a.global b.global
  inputs : ListRel PsetInput.TxEq a.inputs b.inputs
  outputs : ListRel PsetOutput.TxEq a.outputs b.outputs

namespace Proofs.PsetExtract
open EV.Proofs.PsetId

theorem toTxIn_congr {x y : PsetInput} (h : PsetInput.TxEq x y) : x.toTxIn = y.toTxIn := by
  obtain ⟨h1, h2, h3, h4, h5, _, _, h8, h9, h10, h11, h12, h13, h14, h15, h16⟩ := h
  simp only [PsetInput.toTxIn, PsetInput.plainIndex, PsetInput.isPegin, PsetInput.assetIssuance,
    h1, h2, h3, h4, h5, h8, h9, h10, h11, h12, h13, h14, h15, h16]

theorem extract_congr {x y : PsetOutput} (h : PsetOutput.TxEq x y) : x.extract = y.extract := by
  obtain ⟨h1, h2, h3, h4, h5, h6, h7, h8⟩ := h
  simp only [PsetOutput.extract, h1, h2, h3, h4, h5, h6, h7, h8]

theorem extractOutputs_congr : ∀ {a b : List PsetOutput}, ListRel PsetOutput.TxEq a b →
    Pset.extractOutputs a = Pset.extractOutputs b
  | [], [], _ => rfl
  | x :: xs, y :: ys, h => by
    simp only [Pset.extractOutputs, extract_congr h.1, extractOutputs_congr (a := xs) (b := ys) h.2]
  | [], _ :: _, h => h.elim
  | _ :: _, [], h => h.elim

/-- **`extract_tx` depends on the listed fields only** -/
theorem extractTx_congr {a b : Pset} (h : Pset.TxEq a b) : a.extractTx = b.extractTx := by
  obtain ⟨⟨g1, g2, g3, g4⟩, hi, ho⟩ := h
  have hl : a.lockReqs = b.lockReqs :=
    ListRel.map_eq (fun x y hxy => by rw [hxy.requiredTimeLocktime, hxy.requiredHeightLocktime]) hi
  have hm : a.inputs.map PsetInput.toTxIn = b.inputs.map PsetInput.toTxIn :=
    ListRel.map_eq (fun x y hxy => toTxIn_congr hxy) hi
  simp only [Pset.extractTx, Pset.sanityCheck, Pset.nInputs, Pset.nOutputs, Pset.locktime, g1, g2, g3, g4,
    hi.length_eq, ho.length_eq, hl, extractOutputs_congr ho, hm]
  rfl

/-- each field of an extracted input, as a function of the PSET input fields -/
theorem toTxIn_fields (x : PsetInput) :
    x.toTxIn.previousOutput.txid = x.previousTxid ∧
    x.toTxIn.previousOutput.vout =
      (if x.previousOutputIndex = 0xffffffff then x.previousOutputIndex else x.previousOutputIndex % 2^30) ∧
    x.toTxIn.isPegin = (x.previousOutputIndex != 0xffffffff && x.previousOutputIndex.testBit 30) ∧
    x.toTxIn.scriptSig = x.finalScriptSig.getD [] ∧
    x.toTxIn.sequence = x.sequence.getD 0xffffffff ∧
    x.toTxIn.assetIssuance.nonce = x.issuanceBlindingNonce.getD zero32 ∧
    x.toTxIn.assetIssuance.entropy = x.issuanceAssetEntropy.getD zero32 ∧
    x.toTxIn.assetIssuance.amount = PsetInput.pairValue x.issuanceValueAmount x.issuanceValueComm ∧
    x.toTxIn.assetIssuance.inflationKeys = PsetInput.pairValue x.issuanceInflationKeys x.issuanceInflationKeysComm ∧
    x.toTxIn.witness.amountRangeproof = x.issuanceValueRangeproof ∧
    x.toTxIn.witness.inflationKeysRangeproof = x.issuanceKeysRangeproof ∧
    x.toTxIn.witness.scriptWitness = x.finalScriptWitness.getD [] ∧
    x.toTxIn.witness.peginWitness = x.peginWitness.getD [] :=
  ⟨rfl, rfl, rfl, rfl, rfl, rfl, rfl, rfl, rfl, rfl, rfl, rfl, rfl⟩

/-- each field of an extracted output -/
theorem extract_fields (o : PsetOutput) (t : TxOut) (h : o.extract = .ok t) :
    t.asset = PsetOutput.pairAsset o.asset o.assetComm ∧ t.asset ≠ .null ∧
    t.value = PsetInput.pairValue o.amount o.amountComm ∧ t.value ≠ .null ∧
    t.nonce = PsetOutput.nonceOf o.ecdhPubkey ∧
    t.scriptPubkey = o.scriptPubkey ∧
    t.witness.surjectionProof = o.assetSurjectionProof ∧ t.witness.rangeproof = o.valueRangeproof := by
  simp only [PsetOutput.extract] at h
  cases ha : o.assetComm <;> cases hb : o.asset <;> cases hc : o.amountComm <;> cases hd : o.amount <;>
    simp only [ha, hb, hc, hd, reduceCtorEq, Res.ok.injEq] at h <;> subst h <;>
    simp [PsetOutput.pairAsset, PsetInput.pairValue]

/-- an output fails exactly when it has neither form of the asset (`MissingOutputValue`, checked
    first) or neither form of the value (`MissingOutputAsset`) -/
theorem extract_err_iff (o : PsetOutput) :
    (o.extract = .err "MissingOutputValue" ↔ (o.assetComm = none ∧ o.asset = none)) ∧
    (o.extract = .err "MissingOutputAsset" ↔ (¬ (o.assetComm = none ∧ o.asset = none) ∧ o.amountComm = none ∧ o.amount = none)) := by
  simp only [PsetOutput.extract]
  cases o.assetComm <;> cases o.asset <;> cases o.amountComm <;> cases o.amount <;> simp

theorem extractOutputs_ok_iff (l : List PsetOutput) (ts : List TxOut) :
    Pset.extractOutputs l = .ok ts ↔ l.map PsetOutput.extract = ts.map Res.ok := by
  induction l generalizing ts with
  | nil =>
    simp only [Pset.extractOutputs, Res.ok.injEq, List.map_nil]
    constructor
    · intro h; subst h; rfl
    · intro h; cases ts with
      | nil => rfl
      | cons _ _ => simp at h
  | cons o r ih =>
    simp only [Pset.extractOutputs, List.map_cons]
    cases ho : o.extract with
    | ok t =>
      simp only
      cases hr : Pset.extractOutputs r with
      | ok rs =>
        simp only [Res.ok.injEq]
        constructor
        · intro h; subst h
          simp only [List.map_cons, (ih rs).1 hr]
        · intro h
          cases ts with
          | nil => simp at h
          | cons t' ts' =>
            simp only [List.map_cons, List.cons.injEq, Res.ok.injEq] at h
            obtain ⟨h1, h2⟩ := h
            have := (ih ts').2 h2
            rw [hr] at this
            simp only [Res.ok.injEq] at this
            rw [h1, this]
      | err e =>
        simp only [reduceCtorEq, false_iff]
        intro h
        cases ts with
        | nil => simp at h
        | cons t' ts' =>
          simp only [List.map_cons, List.cons.injEq] at h
          have := (ih ts').2 h.2
          rw [hr] at this; cases this
      | panic s =>
        simp only [reduceCtorEq, false_iff]
        intro h
        cases ts with
        | nil => simp at h
        | cons t' ts' =>
          simp only [List.map_cons, List.cons.injEq] at h
          have := (ih ts').2 h.2
          rw [hr] at this; cases this
    | err e =>
      simp only [reduceCtorEq, false_iff]
      intro h
      cases ts with
      | nil => simp at h
      | cons t' ts' => simp at h
    | panic s =>
      simp only [reduceCtorEq, false_iff]
      intro h
      cases ts with
      | nil => simp at h
      | cons t' ts' => simp at h

/-- **`extract_tx` succeeds exactly when the counts match, a lock time exists and every output has
    an asset and a value; the result is then field by field the stated function of the PSET** -/
theorem extractTx_ok_iff (p : Pset) (t : Tx) :
    p.extractTx = .ok t ↔
      (p.global.inputCount = p.inputs.length ∧ p.global.outputCount = p.outputs.length ∧
       t.version = p.global.txVersion ∧ p.locktime = .ok t.lockTime ∧
       t.input = p.inputs.map PsetInput.toTxIn ∧ p.outputs.map PsetOutput.extract = t.output.map Res.ok) := by
  simp only [Pset.extractTx, Pset.sanityCheck, Pset.nInputs, Pset.nOutputs]
  by_cases h1 : p.global.inputCount = p.inputs.length
  · by_cases h2 : p.global.outputCount = p.outputs.length
    · simp only [h1, h2, ne_eq, not_true_eq_false, if_false, true_and]
      cases hl : p.locktime with
      | ok lt =>
        simp only [Res.ok.injEq]
        cases ho : Pset.extractOutputs p.outputs with
        | ok outs =>
          simp only [Res.ok.injEq]
          constructor
          · intro h; subst h
            exact ⟨rfl, rfl, rfl, (extractOutputs_ok_iff _ _).1 ho⟩
          · rintro ⟨hv, hlt, hi, hout⟩
            have := (extractOutputs_ok_iff _ _).2 hout
            rw [ho] at this
            simp only [Res.ok.injEq] at this
            cases t
            simp only at hv hlt hi this
            subst hv; subst hlt; subst hi; subst this
            rfl
        | err e =>
          simp only [reduceCtorEq, false_iff]
          rintro ⟨_, _, _, hout⟩
          have := (extractOutputs_ok_iff _ _).2 hout
          rw [ho] at this; cases this
        | panic s =>
          simp only [reduceCtorEq, false_iff]
          rintro ⟨_, _, _, hout⟩
          have := (extractOutputs_ok_iff _ _).2 hout
          rw [ho] at this; cases this
      | err e => simp
      | panic s => simp
    · constructor
      · intro h
        simp only [h1, h2, ne_eq, not_true_eq_false, not_false_eq_true, if_false, if_true, reduceCtorEq] at h
      · rintro ⟨_, h, _⟩; exact absurd h h2
  · constructor
    · intro h
      simp only [h1, ne_eq, not_false_eq_true, if_true, reduceCtorEq] at h
    · rintro ⟨h, _⟩; exact absurd h h1

/-- errors in the order the code checks them -/
theorem extractTx_err (p : Pset) :
    (p.global.inputCount ≠ p.inputs.length → p.extractTx = .err "InputCountMismatch") ∧
    (p.global.inputCount = p.inputs.length → p.global.outputCount ≠ p.outputs.length →
      p.extractTx = .err "OutputCountMismatch") ∧
    (p.global.inputCount = p.inputs.length → p.global.outputCount = p.outputs.length →
      ∀ e, p.locktime = .err e → p.extractTx = .err e) := by
  simp only [Pset.extractTx, Pset.sanityCheck, Pset.nInputs, Pset.nOutputs]
  refine ⟨?_, ?_, ?_⟩
  · intro h; simp only [h, ne_eq, not_false_eq_true, if_true]
  · intro h1 h2; simp only [h1, h2, ne_eq, not_true_eq_false, not_false_eq_true, if_false, if_true]
  · intro h1 h2 e he; simp only [h1, h2, ne_eq, not_true_eq_false, if_false, he]

theorem extractTx_no_panic (p : Pset) (s : String) : p.extractTx ≠ .panic s := by
  have := idTx_no_panic p s
  rw [idTx_eq] at this
  intro h
  rw [h] at this
  exact this rfl

end Proofs.PsetExtract
end EV
