/-
  Bridge C03 × C15.  The taproot sighash model (`EV.Model.Sighash`, C03) takes the tapleaf hash of a
  script-path spend as 32 opaque bytes and has its own `tapLeafHash` (`TapLeafHash::from_script` as the
  sighash driver calls it); the script-tree model (`EV.Model.Taproot`, C15) builds merkle roots and control
  blocks from `Taproot.leafHash`.  Here: the two are the same function of (script, leaf version) once the
  C15 hash record is the C03 one under the three taproot tags (`tapHashesOf`, which is how the two drivers
  instantiate them), the signing message of a script-path spend literally ends in that C15 leaf hash, and
  the leaf hash binds (script, version).
-/
import EV.Model.Sighash
import EV.Model.Taproot
import EV.Proofs.TaprootSpend
import EV.Proofs.SighashDefs
import EV.Driver.SighashUtil
import EV.Driver.C15
namespace EV.Proofs.BridgeTapLeaf
open EV EV.Codec EV.Sighash EV.Taproot

/-- the C15 hash record induced by the C03 one: `sha256t` under the tags `TapLeaf/elements`,
    `TapBranch/elements`, `TapTweak/elements` (src/taproot.rs `sha256t_hash_newtype!`) -/
def tapHashesOf (H : SigHashes) : TapHashes :=
  { leaf := H.tagged Gen.Taproot.leafTag
    branch := H.tagged Gen.Taproot.branchTag
    tweak := H.tagged Gen.Taproot.tweakTag }

/-- this is what the two correspondence drivers run: C15's hash record is `tapHashesOf` of C03's -/
theorem drivers_agree : EV.Driver.C15.tapHashes = tapHashesOf EV.Driver.SighashUtil.sigHashes := rfl

/-- the leaf tag was extracted twice from the Rust source (for C03 and for C15): same string -/
theorem leafTag_agree : Gen.tapLeafTag = Gen.Taproot.leafTag := by decide

/-- **the two models of `TapLeafHash::from_script` agree**: C03's `tapLeafHash` on a leaf-version byte is
    C15's `leafHash` -/
theorem tapLeafHash_eq (H : SigHashes) (script : Bytes) (ver : Nat) :
    Sighash.tapLeafHash H script ver = Taproot.leafHash (tapHashesOf H) script (UInt8.ofNat ver) := by
  simp only [Sighash.tapLeafHash, Taproot.leafHash, Taproot.leafPreimage, tapHashesOf, leafTag_agree,
    List.singleton_append]

theorem tapLeafHash_eq' (H : SigHashes) (script : Bytes) (ver : UInt8) :
    Sighash.tapLeafHash H script ver.toNat = Taproot.leafHash (tapHashesOf H) script ver := by
  rw [tapLeafHash_eq, UInt8.ofNat_toNat]

/-- the leaf hash binds script and version, up to a collision of the tagged leaf hash -/
theorem leafHash_binds (T : TapHashes) (s s' : Bytes) (v v' : UInt8) (hs : s.length < 2 ^ 64)
    (hs' : s'.length < 2 ^ 64) (h : Taproot.leafHash T s v = Taproot.leafHash T s' v') :
    (s = s' ∧ v = v') ∨ EV.Proofs.TaprootCb.Collision T.leaf := by
  by_cases hp : leafPreimage s v = leafPreimage s' v'
  · exact Or.inl (EV.Proofs.TaprootCb.leafPreimage_inj s s' v v' hs hs' hp)
  · exact Or.inr ⟨_, _, hp, h⟩

/-- the two `Collision` predicates (C03's and C15's) are the same proposition -/
theorem collision_iff (f : Bytes → Bytes) : EV.Proofs.TaprootCb.Collision f ↔ Sighash.Collision f := Iff.rfl

/-- 32-byte tagged hashes give C15's `Len32` -/
theorem len32_of (H : SigHashes) (h : ∀ tag x, (H.tagged tag x).length = 32) :
    EV.Proofs.TaprootCb.Len32 (tapHashesOf H) := ⟨fun x => h _ x, fun x => h _ x⟩

/-- **the signing message of a script-path spend ends in the leaf hash**, followed by the key version
    byte and the code separator position (`taproot_encode_signing_data_to`: `leaf_hash.consensus_encode`,
    `KEY_VERSION_0`, `code_separator_pos`) -/
theorem msgTaproot_leaf_suffix (H : SigHashes) (tx : Tx) (idx : Nat) (pv : Prevouts) (annex : Option Bytes)
    (lh : Bytes) (pos : Nat) (ty : SchnorrTy) (g m : Bytes)
    (h : msgTaproot H tx idx pv annex (some (lh, pos)) ty g = .ok m) :
    ∃ pre, m = pre ++ (lh ++ [UInt8.ofNat Gen.sighashKeyVersion0] ++ encLe 4 pos) := by
  simp only [msgTaproot] at h
  cases h0 : pv.checkAll tx with
  | err e => rw [h0] at h; cases h
  | panic s => rw [h0] at h; cases h
  | ok u =>
    rw [h0] at h
    simp only [Res.bind] at h
    cases h1 : tapInsPart H tx pv ty with
    | err e => rw [h1] at h; cases h
    | panic s => rw [h1] at h; cases h
    | ok p1 =>
      rw [h1] at h
      simp only [] at h
      cases h2 : tapThisPart H tx idx pv ty with
      | err e => rw [h2] at h; cases h
      | panic s => rw [h2] at h; cases h
      | ok p2 =>
        rw [h2] at h
        simp only [] at h
        cases h3 : tapSinglePart H tx idx ty with
        | err e => rw [h3] at h; cases h
        | panic s => rw [h3] at h; cases h
        | ok p3 =>
          rw [h3] at h
          simp only [Res.ok.injEq] at h
          exact ⟨tapHead tx ty g ++ p1 ++ tapOutsPart H tx ty ++ [spendType annex (some (lh, pos))] ++ p2 ++
            tapAnnexPart H annex ++ p3, by rw [← h]; simp only [tapLeafPart, List.append_assoc]⟩

end EV.Proofs.BridgeTapLeaf
