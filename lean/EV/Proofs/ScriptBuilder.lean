/-
  The builder against the instruction-level specification: a refinement invariant between
  `Builder` (bytes + remembered opcode) and `Abs` (instruction list + remembered opcode), the right-to-left
  characterisation of `expected`, and the prefix stability used for the non-minimal branch.
-/
import EV.Proofs.ScriptIter
import EV.Proofs.ScriptNum
namespace EV.Proofs.ScriptBuilder
open EV EV.Script EV.Gen EV.Proofs.ScriptIter EV.Proofs.ScriptNum

/-! ## facts about the opcode tables -/

theorem verifyForm_some {c v : UInt8} (h : Builder.verifyForm c = some v) :
    opPushdata4 < c ∧ opPushdata4 < v ∧ c ≠ opPushbytes0 ∧ Builder.verifyForm v = none := by
  unfold Builder.verifyForm at h
  split at h
  · rename_i hc; cases h; rw [beq_iff_eq.mp hc]; decide
  · split at h
    · rename_i hc; cases h; rw [beq_iff_eq.mp hc]; decide
    · split at h
      · rename_i hc; cases h; rw [beq_iff_eq.mp hc]; decide
      · split at h
        · rename_i hc; cases h; rw [beq_iff_eq.mp hc]; decide
        · split at h
          · rename_i hc; cases h; rw [beq_iff_eq.mp hc]; decide
          · cases h

theorem verifyForm_opVerify : Builder.verifyForm opVerify = none := by decide
theorem verifyForm_zero : Builder.verifyForm opPushbytes0 = none := by decide
theorem opVerify_wf : opPushdata4 < opVerify := by decide

theorem smallIntOpcode_facts {n : Int} (h : n = -1 ∨ (1 ≤ n ∧ n ≤ 16)) :
    opPushdata4 < Builder.smallIntOpcode n ∧ Builder.smallIntOpcode n ≠ opPushbytes0 ∧
    Builder.verifyForm (Builder.smallIntOpcode n) = none := by
  rcases small_int_cases h with rfl | rfl | rfl | rfl | rfl | rfl | rfl | rfl | rfl | rfl | rfl | rfl | rfl | rfl | rfl | rfl | rfl <;>
    decide

theorem instrOfOpcode_enc (c : UInt8) (h : c = opPushbytes0 ∨ opPushdata4 < c) :
    encInstr (instrOfOpcode c) = [c] ∧ (instrOfOpcode c).wf ∧ (instrOfOpcode c).bip62 := by
  unfold instrOfOpcode
  by_cases h0 : c = opPushbytes0
  · subst h0
    refine ⟨by decide, ?_, ?_⟩
    · simp only [if_true]; show (0 : Nat) < 2 ^ 32; decide
    · simp only [if_true]; intro b hb; cases hb
  · rcases h with h | h
    · exact absurd h h0
    · simp only [h0, if_false]
      exact ⟨rfl, h, trivial⟩

theorem instrOfOpcode_op {c : UInt8} (h : c ≠ opPushbytes0) : instrOfOpcode c = .op c := by
  simp [instrOfOpcode, h]

/-! ## the refinement invariant -/

/-- `m = true` additionally tracks BIP62-minimality of every instruction -/
structure Inv (m : Bool) (b : Builder) (a : Abs) : Prop where
  bytes : b.bytes = serialize a.instrs
  last : b.last = a.last
  wf : ∀ i ∈ a.instrs, i.wf ∧ (m = true → i.bip62)
  tail : ∀ c v, a.last = some c → Builder.verifyForm c = some v → ∃ pre, a.instrs = pre ++ [.op c]

def okOp (m : Bool) (o : BOp) : Prop := o.wf ∧ (m = true → ¬ o.smallIntPush)

theorem inv_new (m : Bool) : Inv m Builder.new ⟨[], none⟩ :=
  ⟨rfl, rfl, by simp, by simp⟩

private theorem mem_snoc {α} {x : α} {l : List α} {y : α} (h : x ∈ l ++ [y]) : x ∈ l ∨ x = y := by
  simpa using h

theorem inv_pushOpcode {m b a} (h : Inv m b a) (c : UInt8) (hc : c = opPushbytes0 ∨ opPushdata4 < c) :
    Inv m (b.pushOpcode c) (a.pushOpcode c) := by
  obtain ⟨e, hw, hb⟩ := instrOfOpcode_enc c hc
  refine ⟨?_, rfl, ?_, ?_⟩
  · simp [Builder.pushOpcode, Abs.pushOpcode, serialize_append, serialize_singleton, h.bytes, e]
  · intro i hi
    rcases mem_snoc hi with hi | rfl
    · exact h.wf i hi
    · exact ⟨hw, fun _ => hb⟩
  · intro c' v hl hv
    simp only [Abs.pushOpcode, Option.some.injEq] at hl
    subst hl
    exact ⟨a.instrs, by rw [Abs.pushOpcode, instrOfOpcode_op (verifyForm_some hv).2.2.1]⟩

theorem inv_pushData {m b a} (h : Inv m b a) (d : Bytes) (hd : d.length < 2 ^ 32)
    (hb : m = true → Instr.bip62 (.push d)) :
    ∃ b', b.pushSlice d = some b' ∧ Inv m b' (a.pushData d) := by
  obtain ⟨hdr, e, _⟩ := pushHeader_some hd
  refine ⟨⟨b.bytes ++ hdr ++ d, none⟩, by simp [Builder.pushSlice, e], ?_, rfl, ?_, ?_⟩
  · simp [Abs.pushData, serialize_append, serialize_singleton, encInstr, e, h.bytes]
  · intro i hi
    rcases mem_snoc hi with hi | rfl
    · exact h.wf i hi
    · exact ⟨hd, hb⟩
  · intro c v hl; simp [Abs.pushData] at hl

theorem inv_pushVerify {m b a} (h : Inv m b a) : Inv m b.pushVerify (a.step .verify) := by
  unfold Builder.pushVerify Abs.step
  rw [h.last]
  cases hl : a.last with
  | none => exact inv_pushOpcode h opVerify (Or.inr opVerify_wf)
  | some c =>
    simp only [Option.bind_some]
    cases hv : Builder.verifyForm c with
    | none => exact inv_pushOpcode h opVerify (Or.inr opVerify_wf)
    | some v =>
      obtain ⟨pre, hpre⟩ := h.tail c v hl hv
      obtain ⟨_, hvw, _, hvn⟩ := verifyForm_some hv
      refine ⟨?_, rfl, ?_, ?_⟩
      · simp only [Builder.pushOpcode, h.bytes, hpre, List.dropLast_concat, serialize_append,
          serialize_singleton, encInstr]
      · intro i hi
        rw [hpre, List.dropLast_concat] at hi
        rcases mem_snoc hi with hi | rfl
        · exact h.wf i (by rw [hpre]; simp [hi])
        · exact ⟨hvw, fun _ => trivial⟩
      · intro c' v' hl' hv'
        simp only [Option.some.injEq] at hl'
        subst hl'
        rw [hvn] at hv'; cases hv'

private theorem i64_abs {n : Int} (h : i64Min < n ∧ n < 2 ^ 63) : n.natAbs < 2 ^ 64 := by
  unfold i64Min at h; omega

theorem scriptInt_push_ok {n : Int} (h : i64Min < n ∧ n < 2 ^ 63) (m : Bool)
    (hs : m = true → ¬ (n = -1 ∨ (1 ≤ n ∧ n ≤ 16))) :
    (buildScriptInt n).length < 2 ^ 32 ∧ (m = true → Instr.bip62 (.push (buildScriptInt n))) := by
  refine ⟨?_, ?_⟩
  · have := buildScriptInt_length_le n
    have : (10 : Nat) < 2 ^ 32 := by decide
    omega
  · intro hm x hx
    exact buildScriptInt_single (i64_abs h) hx (hs hm)

theorem inv_step {m b a} (h : Inv m b a) (o : BOp) (ho : okOp m o) :
    ∃ b', b.step o = some b' ∧ Inv m b' (a.step o) := by
  cases o with
  | verify => exact ⟨_, rfl, inv_pushVerify h⟩
  | opcode c => exact ⟨_, rfl, inv_pushOpcode h c ho.1⟩
  | slice d =>
    have hb : m = true → Instr.bip62 (.push d) := by
      intro hm x hx
      have := ho.2 hm
      cases hs : smallNumByte x with
      | false => rfl
      | true => exact absurd ⟨x, hx, hs⟩ this
    exact inv_pushData h d ho.1 hb
  | scriptInt n =>
    have hne : n ≠ i64Min := by have := ho.1.1; omega
    obtain ⟨hl, hb⟩ := scriptInt_push_ok ho.1 m ho.2
    obtain ⟨b', e, hi⟩ := inv_pushData h _ hl hb
    exact ⟨b', by simp [Builder.step, Builder.pushScriptInt, hne, e], hi⟩
  | int n =>
    simp only [Builder.step, Builder.pushInt, Abs.step]
    by_cases hs : n = -1 ∨ (1 ≤ n ∧ n ≤ 16)
    · simp only [hs, if_true]
      exact ⟨_, rfl, inv_pushOpcode h _ (Or.inr (smallIntOpcode_facts hs).1)⟩
    · simp only [hs, if_false]
      by_cases h0 : n = 0
      · simp only [h0, if_true]
        exact ⟨_, rfl, inv_pushOpcode h _ (Or.inl rfl)⟩
      · simp only [h0, if_false]
        have hne : n ≠ i64Min := by have := ho.1.1; omega
        obtain ⟨hl, hb⟩ := scriptInt_push_ok ho.1 m (fun _ => hs)
        obtain ⟨b', e, hi⟩ := inv_pushData h _ hl hb
        exact ⟨b', by simp [Builder.pushScriptInt, hne, e], hi⟩

theorem inv_run {m} (ops : List BOp) : ∀ {b a}, Inv m b a → (∀ o ∈ ops, okOp m o) →
    ∃ b', b.run ops = some b' ∧ Inv m b' (a.run ops) := by
  induction ops with
  | nil => intro b a h _; exact ⟨b, rfl, h⟩
  | cons o ops ih =>
    intro b a h hok
    obtain ⟨b1, e1, h1⟩ := inv_step h o (hok o (by simp))
    obtain ⟨b2, e2, h2⟩ := ih h1 (fun p hp => hok p (by simp [hp]))
    exact ⟨b2, by simp [Builder.run, e1, e2], by simpa [Abs.run] using h2⟩

/-- the built script is the canonical encoding of the expected instruction list -/
theorem build_eq_serialize (m : Bool) (ops : List BOp) (hok : ∀ o ∈ ops, okOp m o) :
    build ops = some (serialize (expected ops)) ∧
    ∀ i ∈ expected ops, i.wf ∧ (m = true → i.bip62) := by
  obtain ⟨b', e, h⟩ := inv_run ops (inv_new m) hok
  exact ⟨by simp [build, e, h.bytes, expected], h.wf⟩


/-! ## `expected`, characterised from the right end of the call list -/

theorem run_append (a : Abs) (xs ys : List BOp) : a.run (xs ++ ys) = (a.run xs).run ys := by
  simp [Abs.run, List.foldl_append]

theorem step_instrs_nonverify (a : Abs) (o : BOp) (h : o ≠ .verify) :
    (a.step o).instrs = a.instrs ++ [instrOf o] := by
  cases o with
  | verify => exact absurd rfl h
  | opcode c => rfl
  | slice d => rfl
  | scriptInt n => rfl
  | int n =>
    simp only [Abs.step, instrOf]
    by_cases hs : n = -1 ∨ (1 ≤ n ∧ n ≤ 16)
    · simp only [hs, if_true, Abs.pushOpcode, instrOfOpcode_op (smallIntOpcode_facts hs).2.1]
    · by_cases h0 : n = 0
      · subst h0
        simp only [hs, if_true, if_false, Abs.pushOpcode, instrOfOpcode]
      · simp only [hs, h0, if_false, Abs.pushData]

/-- after any call, the remembered opcode is foldable only if that call was `push_opcode` of a
    foldable opcode -/
theorem step_last_verifyForm (a : Abs) (o : BOp) :
    (a.step o).last.bind Builder.verifyForm =
      match o with
      | .opcode c => Builder.verifyForm c
      | _ => none := by
  cases o with
  | opcode c => rfl
  | slice d => rfl
  | scriptInt n => rfl
  | int n =>
    simp only [Abs.step]
    by_cases hs : n = -1 ∨ (1 ≤ n ∧ n ≤ 16)
    · simp only [hs, if_true, Abs.pushOpcode, Option.bind_some, (smallIntOpcode_facts hs).2.2]
    · by_cases h0 : n = 0
      · subst h0
        simp only [hs, if_true, if_false, Abs.pushOpcode, Option.bind_some, verifyForm_zero]
      · simp only [hs, h0, if_false, Abs.pushData, Option.bind_none]
  | verify =>
    simp only [Abs.step]
    cases hv : a.last.bind Builder.verifyForm with
    | none => simp only [Abs.pushOpcode, Option.bind_some, verifyForm_opVerify]
    | some v =>
      obtain ⟨c, hc, hcv⟩ := Option.bind_eq_some_iff.mp hv
      simp only [Option.bind_some, (verifyForm_some hcv).2.2.2]

theorem expected_nil : expected [] = [] := rfl

theorem expected_snoc_nonverify (ops : List BOp) (o : BOp) (h : o ≠ .verify) :
    expected (ops ++ [o]) = expected ops ++ [instrOf o] := by
  simp only [expected, run_append]
  exact step_instrs_nonverify _ o h

theorem expected_snoc_verify (ops : List BOp) :
    expected (ops ++ [.verify]) =
      match ops.getLast? with
      | some (.opcode c) =>
        (match Builder.verifyForm c with
         | some v => (expected ops).dropLast ++ [.op v]
         | none => expected ops ++ [.op opVerify])
      | _ => expected ops ++ [.op opVerify] := by
  simp only [expected, run_append]
  rcases List.eq_nil_or_concat ops with rfl | ⟨ops', o, rfl⟩
  · rfl
  · simp only [List.concat_eq_append, List.getLast?_append, List.getLast?_singleton, Option.some_or, run_append]
    have hl := step_last_verifyForm (Abs.run ⟨[], none⟩ ops') o
    show (Abs.step (Abs.step (Abs.run ⟨[], none⟩ ops') o) BOp.verify).instrs = _
    generalize Abs.run ⟨[], none⟩ ops' = a at hl ⊢
    show (match (a.step o).last.bind Builder.verifyForm with
      | some v => (⟨(a.step o).instrs.dropLast ++ [Instr.op v], some v⟩ : Abs)
      | none => (a.step o).pushOpcode opVerify).instrs = _
    rw [hl]
    cases o with
    | opcode c =>
      simp only [Abs.run, List.foldl_cons, List.foldl_nil]
      cases Builder.verifyForm c <;> rfl
    | slice d => rfl
    | scriptInt n => rfl
    | int n => rfl
    | verify => rfl

theorem run_no_verify (ops : List BOp) : ∀ (a : Abs), (∀ o ∈ ops, o ≠ .verify) →
    (a.run ops).instrs = a.instrs ++ ops.map instrOf := by
  induction ops with
  | nil => intro a _; simp [Abs.run]
  | cons o ops ih =>
    intro a h
    have := ih (a.step o) (fun p hp => h p (by simp [hp]))
    simp only [Abs.run, List.foldl_cons] at this ⊢
    rw [this, step_instrs_nonverify a o (h o (by simp))]
    simp

/-! ## later calls never change earlier instructions once a data push separates them -/

/-- `k` instructions are already final -/
def Frozen (a : Abs) (k : Nat) : Prop :=
  k ≤ a.instrs.length ∧
  ∀ c v, a.last = some c → Builder.verifyForm c = some v → k < a.instrs.length ∧ ∃ pre, a.instrs = pre ++ [.op c]

theorem frozen_step {a : Abs} {k : Nat} (h : Frozen a k) (o : BOp) :
    Frozen (a.step o) k ∧ (a.step o).instrs.take k = a.instrs.take k := by
  have hop : ∀ c, Frozen (a.pushOpcode c) k ∧ (a.pushOpcode c).instrs.take k = a.instrs.take k := by
    intro c
    refine ⟨⟨by simp [Abs.pushOpcode]; have := h.1; omega, ?_⟩, ?_⟩
    · intro c' v hl hv
      simp only [Abs.pushOpcode, Option.some.injEq] at hl
      subst hl
      refine ⟨by simp [Abs.pushOpcode]; have := h.1; omega, a.instrs, ?_⟩
      rw [Abs.pushOpcode, instrOfOpcode_op (verifyForm_some hv).2.2.1]
    · simp only [Abs.pushOpcode]
      rw [List.take_append_of_le_length h.1]
  have hdata : ∀ d, Frozen (a.pushData d) k ∧ (a.pushData d).instrs.take k = a.instrs.take k := by
    intro d
    refine ⟨⟨by simp [Abs.pushData]; have := h.1; omega, ?_⟩, ?_⟩
    · intro c v hl; simp [Abs.pushData] at hl
    · simp only [Abs.pushData]
      rw [List.take_append_of_le_length h.1]
  cases o with
  | opcode c => exact hop c
  | slice d => exact hdata d
  | scriptInt n => exact hdata _
  | int n =>
    simp only [Abs.step]
    split
    · exact hop _
    · split
      · exact hop _
      · exact hdata _
  | verify =>
    simp only [Abs.step]
    cases hv : a.last.bind Builder.verifyForm with
    | none => exact hop _
    | some v =>
      obtain ⟨c, hc, hcv⟩ := Option.bind_eq_some_iff.mp hv
      obtain ⟨hk, pre, hpre⟩ := h.2 c v hc hcv
      have hlen : k ≤ pre.length := by rw [hpre] at hk; simp at hk; omega
      refine ⟨⟨?_, ?_⟩, ?_⟩
      · simp only [hpre, List.dropLast_concat, List.length_append, List.length_singleton]; omega
      · intro c' v' hl' hv'
        simp only [Option.some.injEq] at hl'
        subst hl'
        rw [(verifyForm_some hcv).2.2.2] at hv'; cases hv'
      · simp only [hpre, List.dropLast_concat]
        rw [List.take_append_of_le_length hlen, List.take_append_of_le_length hlen]

theorem frozen_run (ops : List BOp) : ∀ {a : Abs} {k : Nat}, Frozen a k →
    (a.run ops).instrs.take k = a.instrs.take k := by
  induction ops with
  | nil => intro a k _; rfl
  | cons o ops ih =>
    intro a k h
    obtain ⟨h1, e1⟩ := frozen_step h o
    have := ih h1
    simp only [Abs.run, List.foldl_cons] at this ⊢
    rw [this, e1]

/-- after a data push, everything up to and including it stays -/
theorem run_after_data (a : Abs) (d : Bytes) (post : List BOp) :
    ∃ ys, ((a.pushData d).run post).instrs = a.instrs ++ .push d :: ys := by
  have hf : Frozen (a.pushData d) (a.instrs.length + 1) :=
    ⟨by simp [Abs.pushData], by intro c v hl; simp [Abs.pushData] at hl⟩
  have := frozen_run post hf
  refine ⟨((a.pushData d).run post).instrs.drop (a.instrs.length + 1), ?_⟩
  have e : (a.pushData d).instrs.take (a.instrs.length + 1) = a.instrs ++ [.push d] := by
    simp only [Abs.pushData]
    exact List.take_of_length_le (by simp)
  rw [e] at this
  calc ((a.pushData d).run post).instrs
      = ((a.pushData d).run post).instrs.take (a.instrs.length + 1) ++
        ((a.pushData d).run post).instrs.drop (a.instrs.length + 1) := (List.take_append_drop _ _).symm
    _ = _ := by rw [this]; simp

theorem smallIntPush_step (a : Abs) (o : BOp) (h : o.smallIntPush) :
    ∃ x, smallNumByte x = true ∧ a.step o = a.pushData [x] := by
  cases o with
  | slice d =>
    obtain ⟨x, rfl, hx⟩ := h
    exact ⟨x, hx, rfl⟩
  | scriptInt n =>
    obtain ⟨x, e, hx⟩ := buildScriptInt_small h
    exact ⟨x, hx, by simp [Abs.step, e]⟩
  | int n => exact absurd h (by simp [BOp.smallIntPush])
  | opcode c => exact absurd h (by simp [BOp.smallIntPush])
  | verify => exact absurd h (by simp [BOp.smallIntPush])

/-- shape of `expected` around the first non-BIP62-minimal call -/
theorem expected_small (pre post : List BOp) (o : BOp) (h : o.smallIntPush) :
    ∃ x ys, smallNumByte x = true ∧ expected (pre ++ o :: post) = expected pre ++ .push [x] :: ys := by
  obtain ⟨x, hx, e⟩ := smallIntPush_step (Abs.run ⟨[], none⟩ pre) o h
  obtain ⟨ys, hys⟩ := run_after_data (Abs.run ⟨[], none⟩ pre) [x] post
  refine ⟨x, ys, hx, ?_⟩
  simp only [expected, run_append]
  show ((Abs.step (Abs.run ⟨[], none⟩ pre) o).run post).instrs = _
  rw [e, hys]

end EV.Proofs.ScriptBuilder
