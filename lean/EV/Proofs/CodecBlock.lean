/-
  Laws of the block-level codecs (EV.Model.Block), built on CodecPrim and CodecTx.
-/
import EV.Model.Block
import EV.Proofs.CodecPrim
import EV.Proofs.CodecTx
namespace EV.Proofs.CodecBlock
open EV EV.Codec EV.Proofs.CodecPrim EV.Proofs.CodecTx

theorem or_hi (v : Nat) (h : v < 2^31) : v ||| 0x80000000 = v + 2^31 := by
  have e : (0x80000000 : Nat) = 2^31 * 1 := by decide
  have := Nat.two_pow_add_eq_or_of_lt h 1
  rw [e, Nat.or_comm, ← this]; omega

theorem fullParams_lawful : Lawful FullParams.dec FullParams.enc FullParams.wf := by
  refine ⟨?_, ?_, ?_⟩
  · intro bs v rest h
    simp only [FullParams.dec] at h
    rcases h1 : bytesVec bs with ⟨s, r1⟩ | e | s' <;> rw [h1] at h <;> simp only [reduceCtorEq] at h
    rcases h2 : le 4 r1 with ⟨l, r2⟩ | e | s' <;> rw [h2] at h <;> simp only [reduceCtorEq] at h
    rcases h3 : bytesVec r2 with ⟨fp, r3⟩ | e | s' <;> rw [h3] at h <;> simp only [reduceCtorEq] at h
    rcases h4 : bytesVec r3 with ⟨fs, r4⟩ | e | s' <;> rw [h4] at h <;> simp only [reduceCtorEq] at h
    rcases h5 : bytesVecVec r4 with ⟨ext, r5⟩ | e | s' <;> rw [h5] at h <;> simp only [reduceCtorEq] at h
    simp only [Res.ok.injEq, Prod.mk.injEq] at h
    obtain ⟨rfl, rfl⟩ := h
    obtain ⟨e1, w1⟩ := bytesVec_lawful.sound _ _ _ h1
    obtain ⟨e2, w2⟩ := (le_lawful 4).sound _ _ _ h2
    obtain ⟨e3, w3⟩ := bytesVec_lawful.sound _ _ _ h3
    obtain ⟨e4, w4⟩ := bytesVec_lawful.sound _ _ _ h4
    obtain ⟨e5, w5⟩ := bytesVecVec_lawful.sound _ _ _ h5
    refine ⟨?_, w1, w2, w3, w4, w5⟩
    simp only [FullParams.enc, List.append_assoc]
    rw [e1, e2, e3, e4, e5]
  · intro v r ⟨w1, w2, w3, w4, w5⟩
    simp only [FullParams.dec, FullParams.enc, List.append_assoc]
    rw [bytesVec_lawful.complete _ _ w1]; simp only
    rw [(le_lawful 4).complete _ _ w2]; simp only
    rw [bytesVec_lawful.complete _ _ w3]; simp only
    rw [bytesVec_lawful.complete _ _ w4]; simp only
    rw [bytesVecVec_lawful.complete _ _ w5]
  · intro bs s h
    simp only [FullParams.dec] at h
    rcases h1 : bytesVec bs with ⟨s, r1⟩ | e | s' <;> rw [h1] at h <;> simp only [reduceCtorEq] at h
    case panic => exact bytesVec_lawful.total _ _ h1
    rcases h2 : le 4 r1 with ⟨l, r2⟩ | e | s' <;> rw [h2] at h <;> simp only [reduceCtorEq] at h
    case panic => exact (le_lawful 4).total _ _ h2
    rcases h3 : bytesVec r2 with ⟨fp, r3⟩ | e | s' <;> rw [h3] at h <;> simp only [reduceCtorEq] at h
    case panic => exact bytesVec_lawful.total _ _ h3
    rcases h4 : bytesVec r3 with ⟨fs, r4⟩ | e | s' <;> rw [h4] at h <;> simp only [reduceCtorEq] at h
    case panic => exact bytesVec_lawful.total _ _ h4
    rcases h5 : bytesVecVec r4 with ⟨ext, r5⟩ | e | s' <;> rw [h5] at h <;> simp only [reduceCtorEq] at h
    exact bytesVecVec_lawful.total _ _ h5

theorem params_lawful : Lawful Params.dec Params.enc Params.wf := by
  refine ⟨?_, ?_, ?_⟩
  · intro bs v rest h
    cases bs with
    | nil => simp only [Params.dec, reduceCtorEq] at h
    | cons t r0 =>
      simp only [Params.dec] at h
      split at h
      · rename_i ht; subst ht
        simp only [Res.ok.injEq, Prod.mk.injEq] at h
        obtain ⟨rfl, rfl⟩ := h
        exact ⟨rfl, trivial⟩
      · split at h
        · rename_i ht; subst ht
          rcases h1 : bytesVec r0 with ⟨s, r1⟩ | e | s' <;> rw [h1] at h <;> simp only [reduceCtorEq] at h
          rcases h2 : le 4 r1 with ⟨l, r2⟩ | e | s' <;> rw [h2] at h <;> simp only [reduceCtorEq] at h
          rcases h3 : take 32 r2 with ⟨el, r3⟩ | e | s' <;> rw [h3] at h <;> simp only [reduceCtorEq] at h
          simp only [Res.ok.injEq, Prod.mk.injEq] at h
          obtain ⟨rfl, rfl⟩ := h
          obtain ⟨e1, w1⟩ := bytesVec_lawful.sound _ _ _ h1
          obtain ⟨e2, w2⟩ := (le_lawful 4).sound _ _ _ h2
          obtain ⟨e3, w3⟩ := (take_lawful 32).sound _ _ _ h3
          refine ⟨?_, w1, w2, w3⟩
          simp only [Params.enc, List.append_assoc, List.cons_append, List.nil_append]
          rw [e1, e2, e3]
        · split at h
          · rename_i ht; subst ht
            rcases h1 : FullParams.dec r0 with ⟨f, r1⟩ | e | s' <;> rw [h1] at h <;> simp only [reduceCtorEq] at h
            simp only [Res.ok.injEq, Prod.mk.injEq] at h
            obtain ⟨rfl, rfl⟩ := h
            obtain ⟨e1, w1⟩ := fullParams_lawful.sound _ _ _ h1
            refine ⟨?_, w1⟩
            simp only [Params.enc, List.cons_append, List.nil_append]
            rw [e1]
          · cases h
  · intro v r hw
    cases v with
    | null => simp [Params.dec, Params.enc]
    | compact s l e =>
      obtain ⟨w1, w2, w3⟩ := hw
      have d0 : ¬ ((1 : UInt8) = 0) := by decide
      simp only [Params.dec, Params.enc, List.append_assoc, List.cons_append, List.nil_append,
        if_neg d0, if_true]
      rw [bytesVec_lawful.complete _ _ w1]; simp only
      rw [(le_lawful 4).complete _ _ w2]; simp only
      rw [(take_lawful 32).complete _ _ w3]
    | full f =>
      have d0 : ¬ ((2 : UInt8) = 0) := by decide
      have d1 : ¬ ((2 : UInt8) = 1) := by decide
      simp only [Params.dec, Params.enc, List.cons_append, List.nil_append,
        if_neg d0, if_neg d1, if_true]
      rw [fullParams_lawful.complete _ _ hw]
  · intro bs s h
    cases bs with
    | nil => simp only [Params.dec, reduceCtorEq] at h
    | cons t r0 =>
      simp only [Params.dec] at h
      split at h
      · cases h
      · split at h
        · rcases h1 : bytesVec r0 with ⟨s, r1⟩ | e | s' <;> rw [h1] at h <;> simp only [reduceCtorEq] at h
          case panic => exact bytesVec_lawful.total _ _ h1
          rcases h2 : le 4 r1 with ⟨l, r2⟩ | e | s' <;> rw [h2] at h <;> simp only [reduceCtorEq] at h
          case panic => exact (le_lawful 4).total _ _ h2
          rcases h3 : take 32 r2 with ⟨el, r3⟩ | e | s' <;> rw [h3] at h <;> simp only [reduceCtorEq] at h
          exact (take_lawful 32).total _ _ h3
        · split at h
          · rcases h1 : FullParams.dec r0 with ⟨f, r1⟩ | e | s' <;> rw [h1] at h <;> simp only [reduceCtorEq] at h
            exact fullParams_lawful.total _ _ h1
          · cases h

theorem word_dyn (w : Nat) (h : w / 2^31 = 1) : (w % 2^31) ||| 0x80000000 = w := by
  rw [or_hi _ (Nat.mod_lt _ (by decide))]; omega

theorem word_legacy (w : Nat) (hw : w < 256 ^ 4) (h : ¬ w / 2^31 = 1) : w < 2^31 := by omega

theorem header_sound (bs : Bytes) (h : BlockHeader) (rest : Bytes)
    (hd : BlockHeader.dec bs = .ok (h, rest)) : bs = h.enc ++ rest ∧ h.wf := by
  simp only [BlockHeader.dec] at hd
  rcases h1 : le 4 bs with ⟨v, r1⟩ | e | s' <;> rw [h1] at hd <;> simp only [reduceCtorEq] at hd
  rcases h2 : take 32 r1 with ⟨prev, r2⟩ | e | s' <;> rw [h2] at hd <;> simp only [reduceCtorEq] at hd
  rcases h3 : take 32 r2 with ⟨mr, r3⟩ | e | s' <;> rw [h3] at hd <;> simp only [reduceCtorEq] at hd
  rcases h4 : le 4 r3 with ⟨time, r4⟩ | e | s' <;> rw [h4] at hd <;> simp only [reduceCtorEq] at hd
  rcases h5 : le 4 r4 with ⟨height, r5⟩ | e | s' <;> rw [h5] at hd <;> simp only [reduceCtorEq] at hd
  obtain ⟨e1, w1⟩ := (le_lawful 4).sound _ _ _ h1
  obtain ⟨e2, w2⟩ := (take_lawful 32).sound _ _ _ h2
  obtain ⟨e3, w3⟩ := (take_lawful 32).sound _ _ _ h3
  obtain ⟨e4, w4⟩ := (le_lawful 4).sound _ _ _ h4
  obtain ⟨e5, w5⟩ := (le_lawful 4).sound _ _ _ h5
  split at hd
  · rename_i hdy
    rcases h6 : Params.dec r5 with ⟨cur, r6⟩ | e | s' <;> rw [h6] at hd <;> simp only [reduceCtorEq] at hd
    rcases h7 : Params.dec r6 with ⟨prop, r7⟩ | e | s' <;> rw [h7] at hd <;> simp only [reduceCtorEq] at hd
    rcases h8 : bytesVecVec r7 with ⟨w, r8⟩ | e | s' <;> rw [h8] at hd <;> simp only [reduceCtorEq] at hd
    simp only [Res.ok.injEq, Prod.mk.injEq] at hd
    obtain ⟨rfl, rfl⟩ := hd
    obtain ⟨e6, w6⟩ := params_lawful.sound _ _ _ h6
    obtain ⟨e7, w7⟩ := params_lawful.sound _ _ _ h7
    obtain ⟨e8, w8⟩ := bytesVecVec_lawful.sound _ _ _ h8
    refine ⟨?_, ?_⟩
    · simp only [BlockHeader.enc, BlockHeader.versionWord, ExtData.isDynafed, ExtData.enc, if_true,
        List.append_assoc, word_dyn v hdy]
      rw [e1, e2, e3, e4, e5, e6, e7, e8]
    · exact ⟨Nat.mod_lt _ (by decide), w2, w3, w4, w5, w6, w7, w8⟩
  · rename_i hdy
    rcases h6 : bytesVec r5 with ⟨c, r6⟩ | e | s' <;> rw [h6] at hd <;> simp only [reduceCtorEq] at hd
    rcases h7 : bytesVec r6 with ⟨s, r7⟩ | e | s' <;> rw [h7] at hd <;> simp only [reduceCtorEq] at hd
    simp only [Res.ok.injEq, Prod.mk.injEq] at hd
    obtain ⟨rfl, rfl⟩ := hd
    obtain ⟨e6, w6⟩ := bytesVec_lawful.sound _ _ _ h6
    obtain ⟨e7, w7⟩ := bytesVec_lawful.sound _ _ _ h7
    refine ⟨?_, ?_⟩
    · simp only [BlockHeader.enc, BlockHeader.versionWord, ExtData.isDynafed, ExtData.enc,
        List.append_assoc, Bool.false_eq_true, if_false]
      rw [e1, e2, e3, e4, e5, e6, e7]
    · exact ⟨word_legacy v w1 hdy, w2, w3, w4, w5, w6, w7⟩

theorem header_complete (h : BlockHeader) (r : Bytes) (hw : h.wf) :
    BlockHeader.dec (h.enc ++ r) = .ok (h, r) := by
  obtain ⟨version, prev, mr, time, height, ext⟩ := h
  obtain ⟨w1, w2, w3, w4, w5, w6⟩ := hw
  dsimp only at w1 w2 w3 w4 w5 w6
  have w4' : time < 256 ^ 4 := by omega
  have w5' : height < 256 ^ 4 := by omega
  cases ext with
  | proof c s =>
    obtain ⟨w6, w7⟩ := w6
    have hnd : ¬ version / 2^31 = 1 := by omega
    simp only [BlockHeader.dec, BlockHeader.enc, BlockHeader.versionWord, ExtData.isDynafed,
      ExtData.enc, List.append_assoc, Bool.false_eq_true, if_false]
    rw [(le_lawful 4).complete _ _ (by omega)]; simp only [if_neg hnd]
    rw [(take_lawful 32).complete _ _ w2]; simp only
    rw [(take_lawful 32).complete _ _ w3]; simp only
    rw [(le_lawful 4).complete _ _ w4']; simp only
    rw [(le_lawful 4).complete _ _ w5']; simp only
    rw [bytesVec_lawful.complete _ _ w6]; simp only
    rw [bytesVec_lawful.complete _ _ w7]
  | dynafed cur prop w =>
    obtain ⟨w6, w7, w8⟩ := w6
    have hd : (version + 2^31) / 2^31 = 1 := by omega
    have hm : (version + 2^31) % 2^31 = version := by omega
    simp only [BlockHeader.dec, BlockHeader.enc, BlockHeader.versionWord, ExtData.isDynafed,
      ExtData.enc, List.append_assoc, if_true, or_hi version w1]
    rw [(le_lawful 4).complete _ _ (by omega)]; simp only [hd, hm, if_true]
    rw [(take_lawful 32).complete _ _ w2]; simp only
    rw [(take_lawful 32).complete _ _ w3]; simp only
    rw [(le_lawful 4).complete _ _ w4']; simp only
    rw [(le_lawful 4).complete _ _ w5']; simp only
    rw [params_lawful.complete _ _ w6]; simp only
    rw [params_lawful.complete _ _ w7]; simp only
    rw [bytesVecVec_lawful.complete _ _ w8]

theorem header_total (bs : Bytes) (s : String) : BlockHeader.dec bs ≠ .panic s := by
  intro hd
  simp only [BlockHeader.dec] at hd
  rcases h1 : le 4 bs with ⟨v, r1⟩ | e | s' <;> rw [h1] at hd <;> simp only [reduceCtorEq] at hd
  case panic => exact (le_lawful 4).total _ _ h1
  rcases h2 : take 32 r1 with ⟨prev, r2⟩ | e | s' <;> rw [h2] at hd <;> simp only [reduceCtorEq] at hd
  case panic => exact (take_lawful 32).total _ _ h2
  rcases h3 : take 32 r2 with ⟨mr, r3⟩ | e | s' <;> rw [h3] at hd <;> simp only [reduceCtorEq] at hd
  case panic => exact (take_lawful 32).total _ _ h3
  rcases h4 : le 4 r3 with ⟨time, r4⟩ | e | s' <;> rw [h4] at hd <;> simp only [reduceCtorEq] at hd
  case panic => exact (le_lawful 4).total _ _ h4
  rcases h5 : le 4 r4 with ⟨height, r5⟩ | e | s' <;> rw [h5] at hd <;> simp only [reduceCtorEq] at hd
  case panic => exact (le_lawful 4).total _ _ h5
  split at hd
  · rcases h6 : Params.dec r5 with ⟨cur, r6⟩ | e | s' <;> rw [h6] at hd <;> simp only [reduceCtorEq] at hd
    case panic => exact params_lawful.total _ _ h6
    rcases h7 : Params.dec r6 with ⟨prop, r7⟩ | e | s' <;> rw [h7] at hd <;> simp only [reduceCtorEq] at hd
    case panic => exact params_lawful.total _ _ h7
    rcases h8 : bytesVecVec r7 with ⟨w, r8⟩ | e | s' <;> rw [h8] at hd <;> simp only [reduceCtorEq] at hd
    exact bytesVecVec_lawful.total _ _ h8
  · rcases h6 : bytesVec r5 with ⟨c, r6⟩ | e | s' <;> rw [h6] at hd <;> simp only [reduceCtorEq] at hd
    case panic => exact bytesVec_lawful.total _ _ h6
    rcases h7 : bytesVec r6 with ⟨s, r7⟩ | e | s' <;> rw [h7] at hd <;> simp only [reduceCtorEq] at hd
    exact bytesVec_lawful.total _ _ h7

theorem header_lawful : Lawful BlockHeader.dec BlockHeader.enc BlockHeader.wf :=
  ⟨header_sound, header_complete, header_total⟩

theorem block_lawful (P : Prims) (hs : SizesPos P) : Lawful (Block.dec P) Block.enc (Block.wf P) := by
  have hv := vecOf_lawful P.sizeTx hs.tx (Tx.dec P) Tx.enc (Tx.wf P) (tx_lawful P hs)
  refine ⟨?_, ?_, ?_⟩
  · intro bs v rest h
    simp only [Block.dec] at h
    rcases h1 : BlockHeader.dec bs with ⟨hdr, r1⟩ | e | s' <;> rw [h1] at h <;> simp only [reduceCtorEq] at h
    rcases h2 : vecOf P.sizeTx (Tx.dec P) r1 with ⟨txs, r2⟩ | e | s' <;> rw [h2] at h <;> simp only [reduceCtorEq] at h
    simp only [Res.ok.injEq, Prod.mk.injEq] at h
    obtain ⟨rfl, rfl⟩ := h
    obtain ⟨e1, w1⟩ := header_sound _ _ _ h1
    obtain ⟨e2, w2, w3⟩ := hv.sound _ _ _ h2
    refine ⟨?_, w1, w2, w3⟩
    simp only [Block.enc, List.append_assoc]
    rw [e1, e2]
  · intro v r ⟨w1, w2, w3⟩
    simp only [Block.dec, Block.enc, List.append_assoc]
    rw [header_complete _ _ w1]; simp only
    rw [hv.complete _ _ ⟨w2, w3⟩]
  · intro bs s h
    simp only [Block.dec] at h
    rcases h1 : BlockHeader.dec bs with ⟨hdr, r1⟩ | e | s' <;> rw [h1] at h <;> simp only [reduceCtorEq] at h
    case panic => exact header_total _ _ h1
    rcases h2 : vecOf P.sizeTx (Tx.dec P) r1 with ⟨txs, r2⟩ | e | s' <;> rw [h2] at h <;> simp only [reduceCtorEq] at h
    exact hv.total _ _ h2

/-- the block-hash preimage ignores the solution / signblock witness … -/
theorem hashPreimage_clearWitness (h : BlockHeader) : h.clearWitness.hashPreimage = h.hashPreimage := by
  obtain ⟨version, prev, mr, time, height, ext⟩ := h
  cases ext <;> rfl

/-- … and `clear_witness` changes nothing else -/
theorem clearWitness_fields (h : BlockHeader) :
    h.clearWitness.version = h.version ∧ h.clearWitness.prevBlockhash = h.prevBlockhash ∧
    h.clearWitness.merkleRoot = h.merkleRoot ∧ h.clearWitness.time = h.time ∧
    h.clearWitness.height = h.height ∧ h.clearWitness.ext.isDynafed = h.ext.isDynafed := by
  refine ⟨rfl, rfl, rfl, rfl, rfl, ?_⟩
  obtain ⟨version, prev, mr, time, height, ext⟩ := h
  cases ext <;> rfl

theorem clearWitness_wf (h : BlockHeader) (hw : h.wf) : h.clearWitness.wf := by
  obtain ⟨version, prev, mr, time, height, ext⟩ := h
  obtain ⟨w1, w2, w3, w4, w5, w6⟩ := hw
  refine ⟨w1, w2, w3, w4, w5, ?_⟩
  cases ext with
  | proof c s => exact ⟨w6.1, by simp [maxVecSize]⟩
  | dynafed c p w =>
    refine ⟨w6.1, w6.2.1, ?_, ?_⟩
    · simp [maxVecSize]
    · intro b hb; cases hb

theorem versionWord_lt (h : BlockHeader) (hw : h.version < 2^31) : h.versionWord < 256 ^ 4 := by
  simp only [BlockHeader.versionWord]
  split
  · rw [or_hi _ hw]; omega
  · omega

/-- the preimage determines every field except the witness part of the extension data
    (including the dynafed marker: a legacy and a dynafed header never share a preimage) -/
theorem hashPreimage_injective (a b : BlockHeader) (ha : a.wf) (hb : b.wf)
    (h : a.hashPreimage = b.hashPreimage) : a.clearWitness = b.clearWitness := by
  have hwa := versionWord_lt a ha.1
  have hwb := versionWord_lt b hb.1
  obtain ⟨va, pa, ma, ta, ha', xa⟩ := a
  obtain ⟨vb, pb, mb, tb, hb', xb⟩ := b
  obtain ⟨a1, a2, a3, a4, a5, a6⟩ := ha
  obtain ⟨b1, b2, b3, b4, b5, b6⟩ := hb
  dsimp only at a1 a2 a3 a4 a5 a6 b1 b2 b3 b4 b5 b6
  simp only [BlockHeader.hashPreimage, List.append_assoc] at h
  obtain ⟨hword, g1⟩ := enc_prefix_free (le_lawful 4) _ _ _ _ hwa hwb h
  obtain ⟨e2, g2⟩ := enc_prefix_free (take_lawful 32) _ _ _ _ a2 b2 g1
  obtain ⟨e3, g3⟩ := enc_prefix_free (take_lawful 32) _ _ _ _ a3 b3 g2
  obtain ⟨e4, g4⟩ := enc_prefix_free (le_lawful 4) _ _ _ _ (by omega : ta < 256 ^ 4) (by omega : tb < 256 ^ 4) g3
  obtain ⟨e5, g5⟩ := enc_prefix_free (le_lawful 4) _ _ _ _ (by omega : ha' < 256 ^ 4) (by omega : hb' < 256 ^ 4) g4
  clear h g1 g2 g3 g4 hwa hwb
  subst e2 e3 e4 e5
  have h := g5
  cases xa with
  | proof ca sa =>
    cases xb with
    | proof cb sb =>
      simp only [BlockHeader.versionWord, ExtData.isDynafed, Bool.false_eq_true, if_false] at hword
      simp only [ExtData.encHashed] at h
      have hc := enc_injective_of_complete bytesVec_lawful _ _ a6.1 b6.1 h
      subst hword; subst hc
      rfl
    | dynafed cb pb wb =>
      exfalso
      simp only [BlockHeader.versionWord, ExtData.isDynafed, Bool.false_eq_true, if_false, if_true,
        or_hi vb b1] at hword
      omega
  | dynafed ca pa wa =>
    cases xb with
    | proof cb sb =>
      exfalso
      simp only [BlockHeader.versionWord, ExtData.isDynafed, Bool.false_eq_true, if_false, if_true,
        or_hi va a1] at hword
      omega
    | dynafed cb pb wb =>
      simp only [BlockHeader.versionWord, ExtData.isDynafed, if_true, or_hi va a1, or_hi vb b1] at hword
      have hv : va = vb := by omega
      simp only [ExtData.encHashed] at h
      obtain ⟨hc, h⟩ := enc_prefix_free params_lawful _ _ _ _ a6.1 b6.1 h
      have hp := enc_injective_of_complete params_lawful _ _ a6.2.1 b6.2.1 h
      subst hv; subst hc; subst hp
      rfl

theorem sum_map_size (P : Prims) (l : List Tx) (h : ∀ t ∈ l, t.wf P) :
    (l.map Tx.size).sum = (l.flatMap Tx.enc).length := by
  induction l with
  | nil => rfl
  | cons a as ih =>
    simp only [List.map_cons, List.sum_cons, List.flatMap_cons, List.length_append]
    rw [ih (fun t ht => h t (List.mem_cons_of_mem _ ht)),
      size_eq_enc_length P a (h a List.mem_cons_self)]

theorem block_size_eq (P : Prims) (b : Block) (h : b.wf P) : b.size = b.enc.length := by
  obtain ⟨_, _, w3⟩ := h
  simp only [Block.size, Block.enc, encVec, List.length_append, encVarint_length,
    sum_map_size P _ w3, Nat.add_assoc]

set_option linter.unusedVariables false in
theorem block_weight_eq (P : Prims) (b : Block) :
    b.weight = 4 * (b.header.enc.length + varintSize b.txdata.length) + (b.txdata.map Tx.weight).sum := rfl
end EV.Proofs.CodecBlock
