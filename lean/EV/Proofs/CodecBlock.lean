/-
  Laws of the block-level codecs (EV.Model.Block), built on CodecPrim and CodecTx.
-/
import EV.Model.Block
import EV.Proofs.CodecPrim
import EV.Proofs.CodecTx
namespace EV.Proofs.CodecBlock
open EV EV.Codec EV.Proofs.CodecPrim EV.Proofs.CodecTx

theorem fullParams_lawful : Lawful FullParams.dec FullParams.enc FullParams.wf := by sorry
theorem params_lawful : Lawful Params.dec Params.enc Params.wf := by sorry

theorem header_sound (bs : Bytes) (h : BlockHeader) (rest : Bytes)
    (hd : BlockHeader.dec bs = .ok (h, rest)) : bs = h.enc ++ rest ∧ h.wf := by sorry
theorem header_complete (h : BlockHeader) (r : Bytes) (hw : h.wf) :
    BlockHeader.dec (h.enc ++ r) = .ok (h, r) := by sorry
theorem header_total (bs : Bytes) (s : String) : BlockHeader.dec bs ≠ .panic s := by sorry
theorem header_lawful : Lawful BlockHeader.dec BlockHeader.enc BlockHeader.wf :=
  ⟨header_sound, header_complete, header_total⟩

theorem block_lawful (P : Prims) (hs : SizesPos P) : Lawful (Block.dec P) Block.enc (Block.wf P) := by sorry

/-- the block-hash preimage ignores the solution / signblock witness … -/
theorem hashPreimage_clearWitness (h : BlockHeader) : h.clearWitness.hashPreimage = h.hashPreimage := by sorry

/-- … and `clear_witness` changes nothing else -/
theorem clearWitness_fields (h : BlockHeader) :
    h.clearWitness.version = h.version ∧ h.clearWitness.prevBlockhash = h.prevBlockhash ∧
    h.clearWitness.merkleRoot = h.merkleRoot ∧ h.clearWitness.time = h.time ∧
    h.clearWitness.height = h.height ∧ h.clearWitness.ext.isDynafed = h.ext.isDynafed := by sorry

theorem clearWitness_wf (h : BlockHeader) (hw : h.wf) : h.clearWitness.wf := by sorry

/-- the preimage determines every field except the witness part of the extension data
    (including the dynafed marker: a legacy and a dynafed header never share a preimage) -/
theorem hashPreimage_injective (a b : BlockHeader) (ha : a.wf) (hb : b.wf)
    (h : a.hashPreimage = b.hashPreimage) : a.clearWitness = b.clearWitness := by sorry

theorem block_size_eq (P : Prims) (b : Block) (h : b.wf P) : b.size = b.enc.length := by sorry

theorem block_weight_eq (P : Prims) (b : Block) :
    b.weight = 4 * (b.header.enc.length + varintSize b.txdata.length) + (b.txdata.map Tx.weight).sum := by sorry

end EV.Proofs.CodecBlock
