/-
  EV.Proofs.PeggedAssetKernel — how the two pinned asset ids relate to the derivation, computed by the Lean
  kernel: the model of `pegged_asset_id_for_params_and_parent_chain_hash` (EV.Model.PeggedAsset) is run on
  the built-in parameter sets extracted from src/genesis.rs with the kernel-evaluable SHA-256
  (EV.Model.Sha256K) and the chain hashes extracted from the `bitcoin` crate, and the result is compared
  with the extracted `AssetId::LIQUID_BTC` / `AssetId::LIQUIDTESTNET_BTC`.  Own module: each `decide +kernel`
  costs a few seconds of CPU (≈ 40 SHA-256 compressions for liquidv1, ≈ 8 for liquidtestnet).
-/
import EV.Proofs.GenesisKernel
import EV.Model.PeggedAsset
namespace EV.Proofs.PeggedAssetKernel
open EV EV.Genesis EV.PeggedAsset EV.Proofs.GenesisKernel

/-- `LIQUID_BTC` IS the derivation for the liquidv1 parameters with the Bitcoin MAINNET chain hash -/
theorem liquidBtc_mainnet :
    forParamsAndParent kernelHashes NetworkParams.liquidv1 bitcoinChainHash = some liquidBtc := by decide +kernel

/-- `LIQUIDTESTNET_BTC` is NOT the derivation for the liquidtestnet parameters with the Bitcoin TESTNET chain hash … -/
theorem liquidtestnetBtc_not_testnet :
    forParamsAndParent kernelHashes NetworkParams.liquidtestnet testnetChainHash ≠ some liquidtestnetBtc := by decide +kernel

/-- … it is the derivation with the all-ZERO parent chain hash (what the crate's test `liquid_asset_ids` pins) -/
theorem liquidtestnetBtc_zero :
    forParamsAndParent kernelHashes NetworkParams.liquidtestnet (List.replicate 32 0) = some liquidtestnetBtc := by decide +kernel

/-- the fall-through arm (regtest parent) applied to the built-in parameter sets gives neither constant:
    the two string arms of the `match` are not redundant -/
theorem builtin_not_fallthrough :
    forParamsAndParent kernelHashes NetworkParams.liquidv1 parentChainHash ≠ some liquidBtc ∧
    forParamsAndParent kernelHashes NetworkParams.liquidtestnet parentChainHash ≠ some liquidtestnetBtc := by decide +kernel

end EV.Proofs.PeggedAssetKernel
