/-
  EV.Proofs.Text — helper lemmas for the textual round trips of C20.
-/
import EV.Model.Text
import EV.Proofs.CodecPrim
namespace EV.Text
open EV

/-! ### hex -/

theorem nib_digit_fin : ∀ n : Fin 16, Hex.nib (Hex.digit n.val) = some n.val := by decide

theorem nib_digit (n : Nat) (h : n < 16) : Hex.nib (Hex.digit n) = some n := nib_digit_fin ⟨n, h⟩

theorem decodeChars_hexStr (bs : Bytes) : Hex.decodeChars (hexStr bs) = some bs := by
  induction bs with
  | nil => rfl
  | cons b rest ih =>
    have h1 : b.toNat / 16 < 16 := by have := b.toNat_lt; omega
    have h2 : b.toNat % 16 < 16 := Nat.mod_lt _ (by decide)
    have hb : UInt8.ofNat (b.toNat / 16 * 16 + b.toNat % 16) = b := by
      have : b.toNat / 16 * 16 + b.toNat % 16 = b.toNat := by omega
      rw [this]; exact UInt8.ofNat_toNat
    simp only [hexStr, List.flatMap_cons, Hex.ofByte, List.cons_append, List.nil_append] at ih ⊢
    simp only [Hex.decodeChars, nib_digit _ h1, nib_digit _ h2, ih, hb]

theorem hexStr_length (bs : Bytes) : (hexStr bs).length = 2 * bs.length := by
  induction bs with
  | nil => rfl
  | cons b rest ih =>
    simp only [hexStr, List.flatMap_cons, Hex.ofByte, List.length_append, List.length_cons, List.length_nil] at ih ⊢
    omega

theorem unhex_hexStr (bs : Bytes) : unhex (hexStr bs) = .ok bs := by
  simp [unhex, decodeChars_hexStr]

theorem unhexN_hexStr (n : Nat) (bs : Bytes) (h : bs.length = n) : unhexN n (hexStr bs) = .ok bs := by
  simp [unhexN, hexStr_length, h, unhex_hexStr]


/-! ### integers -/

theorem digit_facts : ∀ n : Fin 16,
    Hex.digit n.val ≠ '+' ∧ Hex.digit n.val ≠ '-' ∧ Hex.digit n.val ≠ ':' ∧ Hex.digit n.val ≠ 'x' ∧
    Hex.digit n.val ≠ '=' ∧ (n.val ≠ 0 → Hex.digit n.val ≠ '0') := by decide

theorem digit_bracket : ∀ n : Fin 16, Hex.digit n.val ≠ '[' := by decide

theorem digitVal_digit (b n : Nat) (hb : b ≤ 16) (h : n < b) : digitVal b (Hex.digit n) = some n := by
  simp [digitVal, nib_digit n (by omega), h]

theorem mem_digitsRev (b : Nat) (hb : 0 < b) : ∀ f n c, c ∈ digitsRev b f n → ∃ m, m < b ∧ c = Hex.digit m := by
  intro f
  induction f with
  | zero => intro n c h; simp [digitsRev] at h
  | succ f ih =>
    intro n c h
    simp only [digitsRev, List.mem_cons] at h
    rcases h with h | h
    · exact ⟨n % b, Nat.mod_lt _ hb, h⟩
    · split at h
      · simp at h
      · exact ih _ _ h

theorem parseDigits_append (b B : Nat) : ∀ (xs ys : Str) (acc : Nat),
    parseDigits b B acc (xs ++ ys) =
      match parseDigits b B acc xs with
      | .ok a => parseDigits b B a ys
      | .err e => .err e
      | .panic s => .panic s := by
  intro xs
  induction xs with
  | nil => intro ys acc; simp [parseDigits]
  | cons c cs ih =>
    intro ys acc
    simp only [List.cons_append, parseDigits]
    cases digitVal b c with
    | none => rfl
    | some d =>
      simp only
      split
      · rfl
      · split
        · rfl
        · exact ih ys _

theorem parseDigits_digitsRev (b B : Nat) (hb2 : 2 ≤ b) (hb : b ≤ 16) :
    ∀ f n, n < f → n < B → parseDigits b B 0 (digitsRev b f n).reverse = .ok n := by
  intro f
  induction f with
  | zero => intro n h; omega
  | succ f ih =>
    intro n hf hB
    simp only [digitsRev]
    by_cases h0 : n / b = 0
    · have hn : n < b := by
        rcases Nat.div_eq_zero_iff.mp h0 with h | h
        · omega
        · exact h
      have hm : n % b = n := Nat.mod_eq_of_lt hn
      simp only [h0, if_true, List.reverse_cons, List.reverse_nil, List.nil_append, hm, parseDigits,
        digitVal_digit b n hb hn]
      split
      · omega
      · split
        · omega
        · simp
    · have hpos : 0 < n := by
        rcases Nat.lt_or_ge 0 n with h | h
        · exact h
        · have : n = 0 := by omega
          subst this; simp at h0
      have hlt : n / b < n := Nat.div_lt_self hpos (by omega)
      have hdm : n / b * b + n % b = n := by
        have := Nat.div_add_mod n b
        rw [Nat.mul_comm] at this; exact this
      have ihn := ih (n / b) (by omega) (by omega)
      simp only [h0, if_false, List.reverse_cons, parseDigits_append, ihn, parseDigits,
        digitVal_digit b (n % b) hb (Nat.mod_lt _ (by omega))]
      split
      · omega
      · split
        · omega
        · simp [hdm]

theorem digitsRev_ne_nil (b f n : Nat) : digitsRev b (f+1) n ≠ [] := by simp [digitsRev]

theorem showBase_ne_nil (b n : Nat) : showBase b n ≠ [] := by
  simp [showBase, digitsRev]

theorem mem_showBase (b : Nat) (hb : 0 < b) (n : Nat) (c : Char) (h : c ∈ showBase b n) :
    ∃ m, m < b ∧ c = Hex.digit m := by
  simp only [showBase, List.mem_reverse] at h
  exact mem_digitsRev b hb _ _ _ h

theorem parseUInt_of_head (b B : Nat) (cs : Str) (hne : cs ≠ [])
    (hc : ∀ c, cs.head? = some c → c ≠ '+' ∧ c ≠ '-') : parseUInt b B cs = parseDigits b B 0 cs := by
  match cs, hne, hc with
  | [c], _, hc =>
    have := hc c rfl
    simp [parseUInt, this.1, this.2]
  | c :: d :: rest, _, hc =>
    have := hc c rfl
    simp [parseUInt, this.1]

/-- printing an unsigned integer in base `b` and parsing it back with `from_str_radix` -/
theorem parseUInt_showBase (b B n : Nat) (hb2 : 2 ≤ b) (hb : b ≤ 16) (hn : n < B) :
    parseUInt b B (showBase b n) = .ok n := by
  rw [parseUInt_of_head b B _ (showBase_ne_nil b n)]
  · exact parseDigits_digitsRev b B hb2 hb (n+1) n (by omega) hn
  · intro c hc
    have hmem : c ∈ showBase b n := by
      cases hs : showBase b n with
      | nil => simp [hs] at hc
      | cons x xs => simp [hs] at hc; simp [hc]
    obtain ⟨m, hm, rfl⟩ := mem_showBase b (by omega) n c hmem
    have := digit_facts ⟨m, by omega⟩
    exact ⟨this.1, this.2.1⟩

theorem parseU32_showNat (n : Nat) (h : n < 2^32) : parseU32 (showNat n) = .ok n :=
  parseUInt_showBase 10 (2^32) n (by decide) (by decide) h

/-- the most significant digit of a positive number is not zero -/
theorem getLast_digitsRev (b : Nat) (hb2 : 2 ≤ b) : ∀ f n, n < f → 0 < n →
    ∃ m, 0 < m ∧ m < b ∧ (digitsRev b f n).getLast? = some (Hex.digit m) := by
  intro f
  induction f with
  | zero => intro n h; omega
  | succ f ih =>
    intro n hf hpos
    simp only [digitsRev]
    by_cases h0 : n / b = 0
    · have hn : n < b := by
        rcases Nat.div_eq_zero_iff.mp h0 with h | h
        · omega
        · exact h
      refine ⟨n, hpos, hn, ?_⟩
      simp [h0, Nat.mod_eq_of_lt hn]
    · have hlt : n / b < n := Nat.div_lt_self hpos (by omega)
      obtain ⟨m, hm0, hmb, hl⟩ := ih (n / b) (by omega) (Nat.pos_of_ne_zero h0)
      refine ⟨m, hm0, hmb, ?_⟩
      simp only [h0, if_false]
      cases hd : digitsRev b f (n / b) with
      | nil => simp [hd] at hl
      | cons x xs => rw [hd] at hl; simp [List.getLast?_cons_cons, hl]

theorem head_showBase (b : Nat) (hb2 : 2 ≤ b) (n : Nat) (hpos : 0 < n) :
    ∃ m, 0 < m ∧ m < b ∧ (showBase b n).head? = some (Hex.digit m) := by
  obtain ⟨m, h0, hb, hl⟩ := getLast_digitsRev b hb2 (n+1) n (by omega) hpos
  exact ⟨m, h0, hb, by simp [showBase, List.head?_reverse, hl]⟩

theorem length_digitsRev (b : Nat) (hb2 : 2 ≤ b) : ∀ f n k, n < f → 0 < k → n < b ^ k →
    (digitsRev b f n).length ≤ k := by
  intro f
  induction f with
  | zero => intro n k h; omega
  | succ f ih =>
    intro n k hf hk hn
    simp only [digitsRev]
    by_cases h0 : n / b = 0
    · simp [h0]; omega
    · have hpos : 0 < n := by
        rcases Nat.lt_or_ge 0 n with h | h
        · exact h
        · have : n = 0 := by omega
          subst this; simp at h0
      have hlt : n / b < n := Nat.div_lt_self hpos (by omega)
      simp only [h0, if_false, List.length_cons]
      match k, hk with
      | 1, _ =>
        exfalso; apply h0
        rw [Nat.pow_one] at hn
        exact Nat.div_eq_of_lt hn
      | k+2, _ =>
        have : n / b < b ^ (k+1) := by
          apply Nat.div_lt_of_lt_mul
          rw [Nat.pow_succ] at hn
          rw [Nat.mul_comm]; exact hn
        have := ih (n / b) (k+1) (by omega) (by omega) this
        omega

theorem length_showNat_u32 (n : Nat) (h : n < 2^32) : (showNat n).length ≤ 10 := by
  simp only [showNat, showBase, List.length_reverse]
  exact length_digitsRev 10 (by decide) (n+1) n 10 (by omega) (by decide) (by omega)


/-! ### hashes, blinding factors, lock times -/

theorem hashParse_hashShow (k : HashKind) (b : Bytes) (h : b.length = k.len) :
    hashParse k (hashShow k b) = .ok b := by
  unfold hashParse hashShow
  cases hr : k.rev
  · simp [unhexN_hexStr _ _ h]
  · simp [unhexN_hexStr k.len b.reverse (by simp [h])]

theorem bfParse_bfShow (tw : Bytes → Bool) (b : Bytes) (h : b.length = 32) (ht : tw b = true) :
    bfParse tw (bfShow b) = .ok b := by
  simp [bfParse, bfShow, unhexN_hexStr 32 b.reverse (by simp [h]), ht]

theorem heightParse_showNat (n : Nat) (h : n < Gen.lockTimeThreshold) : heightParse (showNat n) = .ok n := by
  have h32 : n < 2^32 := by
    have : Gen.lockTimeThreshold < 2^32 := by decide
    omega
  simp [heightParse, parseU32_showNat n h32, h]

theorem timeParse_showNat (n : Nat) (h : Gen.lockTimeThreshold ≤ n) (h32 : n < 2^32) :
    timeParse (showNat n) = .ok n := by
  simp [timeParse, parseU32_showNat n h32, h]

/-! ### OutPoint -/

theorem mem_hexStr (bs : Bytes) (c : Char) (h : c ∈ hexStr bs) : ∃ m, m < 16 ∧ c = Hex.digit m := by
  induction bs with
  | nil => simp [hexStr] at h
  | cons b rest ih =>
    simp only [hexStr, List.flatMap_cons, Hex.ofByte, List.mem_append, List.mem_cons, List.not_mem_nil, or_false] at h ih
    rcases h with (h | h) | h
    · exact ⟨b.toNat / 16, by have := b.toNat_lt; omega, h⟩
    · exact ⟨b.toNat % 16, Nat.mod_lt _ (by decide), h⟩
    · exact ih h

theorem splitColon_append (a r : Str) (ha : ∀ c ∈ a, c ≠ ':') : splitColon (a ++ ':' :: r) = some (a, r) := by
  induction a with
  | nil => simp [splitColon]
  | cons c cs ih =>
    have hc : c ≠ ':' := ha c (by simp)
    have := ih (fun x hx => ha x (by simp [hx]))
    simp [splitColon, hc, this]

theorem prefix_facts :
    Gen.outPointDisplayPrefix = Gen.outPointParsePrefix ∧
    Gen.outPointParsePrefix.toList.length = Gen.outPointParseCut := by decide

theorem voutParse_showNat (n : Nat) (h : n < 2^32) : voutParse (showNat n) = .ok n := by
  unfold voutParse
  have hcond : ¬ ((showNat n).length > 1 ∧ ((showNat n).head? = some '0' ∨ (showNat n).head? = some '+')) := by
    intro ⟨hl, hh⟩
    rcases Nat.eq_zero_or_pos n with h0 | hpos
    · subst h0
      have : (showNat 0).length = 1 := by decide
      omega
    · obtain ⟨m, hm0, hmb, hhd⟩ := head_showBase 10 (by decide) n hpos
      have hf := digit_facts ⟨m, by omega⟩
      have hhd' : (showNat n).head? = some (Hex.digit m) := hhd
      rw [hhd'] at hh
      rcases hh with hh | hh
      · exact hf.2.2.2.2.2 (by simp; omega) (Option.some.inj hh)
      · exact hf.1 (Option.some.inj hh)
  rw [if_neg hcond]
  exact parseU32_showNat n h

theorem btcOutPointParse_show (o : OutPoint) (ht : o.txid.length = 32) (hv : o.vout < 2^32) :
    btcOutPointParse (hashShow kTxid o.txid ++ ':' :: showNat o.vout) = .ok o := by
  have hhexlen : (hashShow kTxid o.txid).length = 64 := by
    simp [hashShow, kTxid, hexStr_length, ht]
  have hnocolon : ∀ c ∈ hashShow kTxid o.txid, c ≠ ':' := by
    intro c hc
    obtain ⟨m, hm, rfl⟩ := mem_hexStr _ c hc
    exact (digit_facts ⟨m, hm⟩).2.2.1
  have hnocolon2 : ∀ c ∈ showNat o.vout, c ≠ ':' := by
    intro c hc
    obtain ⟨m, hm, rfl⟩ := mem_showBase 10 (by decide) _ c hc
    exact (digit_facts ⟨m, by omega⟩).2.2.1
  have hlen10 := length_showNat_u32 o.vout hv
  unfold btcOutPointParse
  have hl75 : ¬ ((hashShow kTxid o.txid ++ ':' :: showNat o.vout).length > 75) := by
    simp only [List.length_append, List.length_cons, hhexlen]; omega
  rw [if_neg hl75, splitColon_append _ _ hnocolon]
  have hcont : (showNat o.vout).contains ':' = false := by
    rw [Bool.eq_false_iff]
    intro hc
    rw [List.contains_iff_mem] at hc
    exact hnocolon2 _ hc rfl
  have hne1 : hashShow kTxid o.txid ≠ [] := by
    intro h; rw [h] at hhexlen; simp at hhexlen
  have hne2 : showNat o.vout ≠ [] := showBase_ne_nil 10 _
  simp only [hcont, Bool.false_eq_true, if_false, hne1, hne2, or_self]
  rw [hashParse_hashShow kTxid o.txid (by simp [kTxid, ht]), voutParse_showNat _ hv]

theorem outPointParse_outPointShow (o : OutPoint) (ht : o.txid.length = 32) (hv : o.vout < 2^32) :
    outPointParse (outPointShow o) = .ok o := by
  obtain ⟨hp1, hp2⟩ := prefix_facts
  unfold outPointParse outPointShow
  rw [hp1]
  have hpre : Gen.outPointParsePrefix.toList.isPrefixOf
      (Gen.outPointParsePrefix.toList ++ hashShow kTxid o.txid ++ ':' :: showNat o.vout) = true := by
    rw [List.append_assoc]; simp
  have hdrop : (Gen.outPointParsePrefix.toList ++ hashShow kTxid o.txid ++ ':' :: showNat o.vout).drop Gen.outPointParseCut
      = hashShow kTxid o.txid ++ ':' :: showNat o.vout := by
    rw [List.append_assoc, ← hp2, List.drop_left]
  have hlenpre : ¬ ((Gen.outPointParsePrefix.toList ++ hashShow kTxid o.txid ++ ':' :: showNat o.vout).length
      < Gen.outPointParseCut) := by
    rw [← hp2]; simp only [List.length_append]; omega
  simp only [hpre, hdrop, hlenpre, and_false, if_false, if_true]
  exact btcOutPointParse_show o ht hv

/-- the `[elements]` prefix is optional on parse: the bare `txid:vout` form gives the same outpoint -/
theorem outPointParse_bare (o : OutPoint) (ht : o.txid.length = 32) (hv : o.vout < 2^32) :
    outPointParse (hashShow kTxid o.txid ++ ':' :: showNat o.vout) = .ok o := by
  have hnotpre : Gen.outPointParsePrefix.toList.isPrefixOf (hashShow kTxid o.txid ++ ':' :: showNat o.vout) = false := by
    have hhexlen : (hashShow kTxid o.txid).length = 64 := by simp [hashShow, kTxid, hexStr_length, ht]
    cases hs : hashShow kTxid o.txid with
    | nil => rw [hs] at hhexlen; simp at hhexlen
    | cons c cs =>
      have hc : c ∈ hashShow kTxid o.txid := by simp [hs]
      obtain ⟨m, hm, rfl⟩ := mem_hexStr _ c hc
      have : Hex.digit m ≠ '[' := (digit_bracket ⟨m, hm⟩)
      have hpre : Gen.outPointParsePrefix.toList = '[' :: "elements]".toList := by decide
      rw [hpre]
      simp [List.isPrefixOf, this.symm]
  unfold outPointParse
  simp only [hnotpre, Bool.false_eq_true, false_and, if_false]
  exact btcOutPointParse_show o ht hv

/-! ### sighash types -/

theorem lookup_mem {α β} [BEq α] [LawfulBEq α] (l : List (α × β)) (k : α) (v : β)
    (h : l.lookup k = some v) : (k, v) ∈ l := by
  induction l with
  | nil => simp [List.lookup] at h
  | cons p ps ih =>
    obtain ⟨k', v'⟩ := p
    simp only [List.lookup] at h
    by_cases hk : k == k'
    · simp only [hk] at h
      have : k = k' := by simpa using hk
      subst this
      cases h
      simp
    · simp only [hk] at h
      simp [ih h]

/-- every `Display` string of an ECDSA sighash type is an arm of `FromStr` naming the same variant -/
theorem ecdsa_tables : ∀ p ∈ Gen.ecdsaSighashDisplay, ecdsaParse p.2 = .ok p.1 := by decide

theorem ecdsaParse_ecdsaShow (v : Nat) (s : String) (h : ecdsaShow v = some s) : ecdsaParse s = .ok v :=
  ecdsa_tables (v, s) (lookup_mem _ _ _ h)

theorem schnorr_tables : ∀ p ∈ Gen.schnorrSighashDisplay, schnorrParse p.2 = .ok p.1 := by decide

theorem schnorrParse_schnorrShow (v : Nat) (s : String) (h : schnorrShow v = some s) : schnorrParse s = .ok v :=
  schnorr_tables (v, s) (lookup_mem _ _ _ h)

/-- every variant has a `Display` arm; discriminants are distinct (so `lookup` finds the variant's own arm) -/
theorem ecdsa_display_total : ∀ p ∈ Gen.ecdsaSighashDisplay, ecdsaShow p.1 = some p.2 := by decide
theorem schnorr_display_total : ∀ p ∈ Gen.schnorrSighashDisplay, schnorrShow p.1 = some p.2 := by decide

/-! ### PsbtSighashType -/

theorem schnorr_keys_start_S : ∀ p ∈ Gen.schnorrSighashParse, p.1.toList.head? = some 'S' := by decide

theorem schnorrParse_0x (cs : Str) : ∃ e, schnorrParse (String.ofList ('0' :: cs)) = .err e := by
  unfold schnorrParse
  cases h : Gen.schnorrSighashParse.lookup (String.ofList ('0' :: cs)) with
  | none => exact ⟨_, rfl⟩
  | some v =>
    have := schnorr_keys_start_S _ (lookup_mem _ _ _ h)
    simp at this

theorem trim0x_id (s : Str) (h : ∀ c ∈ s, c ≠ 'x') : trim0x s = s := by
  match s with
  | [] => simp [trim0x]
  | [c] => simp [trim0x]
  | c :: d :: r =>
    have hd : d ≠ 'x' := h d (by simp)
    unfold trim0x
    split
    · rename_i heq; simp at heq; exact absurd heq.2.1 hd
    · rfl

theorem showBase16_no_x (n : Nat) : ∀ c ∈ showBase 16 n, c ≠ 'x' := by
  intro c hc
  obtain ⟨m, hm, rfl⟩ := mem_showBase 16 (by decide) n c hc
  exact (digit_facts ⟨m, hm⟩).2.2.2.1

theorem psbtParse_hex (n : Nat) (h : n < 2^32) :
    psbtParse (String.ofList ('0' :: 'x' :: showBase 16 n)) = .ok n := by
  unfold psbtParse
  obtain ⟨e, he⟩ := schnorrParse_0x ('x' :: showBase 16 n)
  rw [he]
  simp only [String.toList_ofList, trim0x]
  rw [trim0x_id _ (showBase16_no_x n), parseUInt_showBase 16 (2^32) n (by decide) (by decide) h]

/-- the bytes `from_u8` names are the discriminants of the variants it returns, each of which has a
    `Display` arm -/
theorem fromU8_tables : ∀ p ∈ Gen.schnorrSighashFromU8, p.1 = p.2 ∧ (schnorrShow p.2).isSome = true := by decide

theorem psbtParse_psbtShow (n : Nat) (h : n < 2^32) : psbtParse (psbtShow n) = .ok n := by
  unfold psbtShow
  cases hty : psbtSchnorrTy n with
  | none => exact psbtParse_hex n h
  | some d =>
    simp only
    by_cases hr : d = Gen.schnorrSighashReserved
    · simp only [hr, if_true]; exact psbtParse_hex n h
    · simp only [hr, if_false]
      have hmem : (n, d) ∈ Gen.schnorrSighashFromU8 := by
        unfold psbtSchnorrTy at hty
        split at hty
        · cases hty
        · exact lookup_mem _ _ _ hty
      obtain ⟨hnd, hsome⟩ := fromU8_tables _ hmem
      simp only at hnd hsome
      cases hs : schnorrShow d with
      | none => rw [hs] at hsome; cases hsome
      | some s =>
        simp only
        unfold psbtParse
        rw [schnorrParse_schnorrShow d s hs]
        simp [hr, hnd]

/-! ### base64 -/

theorem b64_tables : ∀ n : Fin 64, b64Val (b64Char n.val) = some n.val ∧ b64Char n.val ≠ '=' := by decide

theorem b64Val_b64Char (n : Nat) (h : n < 64) : b64Val (b64Char n) = some n := (b64_tables ⟨n, h⟩).1
theorem b64Char_ne_pad (n : Nat) (h : n < 64) : b64Char n ≠ '=' := (b64_tables ⟨n, h⟩).2

theorem b64Dec_b64Enc : ∀ bs : Bytes, b64Dec (b64Enc bs) = .ok bs
  | [] => rfl
  | [a] => by
    have ha := a.toNat_lt
    have h0 : a.toNat / 4 < 64 := by omega
    have h1 : a.toNat % 4 * 16 < 64 := by omega
    have hb : UInt8.ofNat (a.toNat / 4 * 4 + a.toNat % 4 * 16 / 16) = a := by
      have : a.toNat / 4 * 4 + a.toNat % 4 * 16 / 16 = a.toNat := by omega
      rw [this]; exact UInt8.ofNat_toNat
    have hz : a.toNat % 4 * 16 % 16 = 0 := by omega
    simp only [b64Enc, b64Dec, and_self, if_true, b64Val_b64Char _ h0, b64Val_b64Char _ h1, hb, hz]
  | [a, b] => by
    have ha := a.toNat_lt
    have hb' := b.toNat_lt
    have h0 : a.toNat / 4 < 64 := by omega
    have h1 : a.toNat % 4 * 16 + b.toNat / 16 < 64 := by omega
    have h2 : b.toNat % 16 * 4 < 64 := by omega
    have e1 : UInt8.ofNat (a.toNat / 4 * 4 + (a.toNat % 4 * 16 + b.toNat / 16) / 16) = a := by
      have : a.toNat / 4 * 4 + (a.toNat % 4 * 16 + b.toNat / 16) / 16 = a.toNat := by omega
      rw [this]; exact UInt8.ofNat_toNat
    have e2 : UInt8.ofNat ((a.toNat % 4 * 16 + b.toNat / 16) % 16 * 16 + b.toNat % 16 * 4 / 4) = b := by
      have : (a.toNat % 4 * 16 + b.toNat / 16) % 16 * 16 + b.toNat % 16 * 4 / 4 = b.toNat := by omega
      rw [this]; exact UInt8.ofNat_toNat
    have hz : b.toNat % 16 * 4 % 4 = 0 := by omega
    have hne : b64Char (b.toNat % 16 * 4) ≠ '=' := b64Char_ne_pad _ h2
    simp only [b64Enc, b64Dec, true_and, if_true, hne, if_false, b64Val_b64Char _ h0, b64Val_b64Char _ h1, b64Val_b64Char _ h2, e1, e2, hz]
  | a :: b :: c :: rest => by
    have ih := b64Dec_b64Enc rest
    have ha := a.toNat_lt
    have hb' := b.toNat_lt
    have hc' := c.toNat_lt
    have h0 : a.toNat / 4 < 64 := by omega
    have h1 : a.toNat % 4 * 16 + b.toNat / 16 < 64 := by omega
    have h2 : b.toNat % 16 * 4 + c.toNat / 64 < 64 := by omega
    have h3 : c.toNat % 64 < 64 := by omega
    have e1 : UInt8.ofNat (a.toNat / 4 * 4 + (a.toNat % 4 * 16 + b.toNat / 16) / 16) = a := by
      have : a.toNat / 4 * 4 + (a.toNat % 4 * 16 + b.toNat / 16) / 16 = a.toNat := by omega
      rw [this]; exact UInt8.ofNat_toNat
    have e2 : UInt8.ofNat ((a.toNat % 4 * 16 + b.toNat / 16) % 16 * 16 + (b.toNat % 16 * 4 + c.toNat / 64) / 4) = b := by
      have : (a.toNat % 4 * 16 + b.toNat / 16) % 16 * 16 + (b.toNat % 16 * 4 + c.toNat / 64) / 4 = b.toNat := by omega
      rw [this]; exact UInt8.ofNat_toNat
    have e3 : UInt8.ofNat ((b.toNat % 16 * 4 + c.toNat / 64) % 4 * 64 + c.toNat % 64) = c := by
      have : (b.toNat % 16 * 4 + c.toNat / 64) % 4 * 64 + c.toNat % 64 = c.toNat := by omega
      rw [this]; exact UInt8.ofNat_toNat
    have hne : b64Char (c.toNat % 64) ≠ '=' := b64Char_ne_pad _ h3
    simp only [b64Enc, b64Dec, hne, and_false, if_false, b64Val_b64Char _ h0, b64Val_b64Char _ h1,
      b64Val_b64Char _ h2, b64Val_b64Char _ h3, ih, e1, e2, e3]

theorem psetParse_psetShow {α} (ser : α → Bytes) (de : Bytes → Res α) (p : α) (h : de (ser p) = .ok p) :
    psetParse de (psetShow ser p) = .ok p := by
  simp [psetParse, psetShow, b64Dec_b64Enc, h]

end EV.Text
