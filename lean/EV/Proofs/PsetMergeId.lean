/-
  EV.Proofs.PsetMergeId — `merge` keeps the unique id under the weakest usable hypothesis: the
  operands have the same unique id (that is what the gate checks) and state the same per-input
  lock-time requirements.  Then the identifying transaction of the result is that of `self` up to
  the unserialized default issuance, or the hash collides.  (Without the lock-time hypothesis
  this is false in the real code: `Props.C14.merge_can_change_locktime`.)
-/
import EV.Proofs.PsetMergeTop
namespace EV.Proofs.PsetMergeId
open EV EV.Codec EV.Proofs.CodecTx EV.Proofs.PsetId

/-- value derived from an (explicit, commitment) pair after `merge!` on both components -/
theorem pairValue_merge (xa ya : Option Nat) (xc yc : Option Bytes)
    (h : PsetInput.pairValue xa xc = PsetInput.pairValue ya yc) :
    PsetInput.pairValue (mergeOpt xa ya) (mergeOpt xc yc) = PsetInput.pairValue xa xc := by
  cases xa <;> cases xc <;> cases ya <;> cases yc <;>
    simp only [PsetInput.pairValue, mergeOpt] at h ⊢ <;> first | rfl | exact h.symm | cases h

theorem pairAsset_merge (xa ya xc yc : Option Bytes)
    (h : PsetOutput.pairAsset xa xc = PsetOutput.pairAsset ya yc) :
    PsetOutput.pairAsset (mergeOpt xa ya) (mergeOpt xc yc) = PsetOutput.pairAsset xa xc := by
  cases xa <;> cases xc <;> cases ya <;> cases yc <;>
    simp only [PsetOutput.pairAsset, mergeOpt] at h ⊢ <;> first | rfl | exact h.symm | cases h

theorem nonceOf_merge (x y : Option Bytes) (h : PsetOutput.nonceOf x = PsetOutput.nonceOf y) :
    PsetOutput.nonceOf (mergeOpt x y) = PsetOutput.nonceOf x := by
  cases x <;> cases y <;> simp only [PsetOutput.nonceOf, mergeOpt] at h ⊢ <;> first | rfl | exact h.symm | cases h

theorem getD_merge (x y : Option Bytes) (d : Bytes) (h : x.getD d = y.getD d) : (mergeOpt x y).getD d = x.getD d := by
  cases x with
  | some v => rfl
  | none => exact h.symm

/-! ### outputs -/

/-- the identifying output as a function of the six fields it reads -/
def outOf (x : PsetOutput) : TxOut :=
  { asset := PsetOutput.pairAsset x.asset x.assetComm
    value := PsetInput.pairValue x.amount x.amountComm
    nonce := PsetOutput.nonceOf x.ecdhPubkey
    scriptPubkey := x.scriptPubkey
    witness := TxOutWitness.empty }

theorem idOut_eq_ite (x : PsetOutput) :
    idOut x = if (x.assetComm.isSome || x.asset.isSome) = true then
        (if (x.amountComm.isSome || x.amount.isSome) = true then .ok (outOf x) else .err "MissingOutputAsset")
      else .err "MissingOutputValue" := by
  simp only [idOut, PsetOutput.extract, outOf]
  cases x.assetComm <;> cases x.asset <;> cases x.amountComm <;> cases x.amount <;> rfl

theorem idOut_ok (x : PsetOutput) (t : TxOut) (h : idOut x = .ok t) :
    (x.assetComm.isSome || x.asset.isSome) = true ∧ (x.amountComm.isSome || x.amount.isSome) = true ∧ t = outOf x := by
  rw [idOut_eq_ite] at h
  by_cases h1 : (x.assetComm.isSome || x.asset.isSome) = true
  · by_cases h2 : (x.amountComm.isSome || x.amount.isSome) = true
    · rw [if_pos h1, if_pos h2] at h
      exact ⟨h1, h2, (Res.ok.inj h).symm⟩
    · rw [if_pos h1, if_neg h2] at h; cases h
  · rw [if_neg h1] at h; cases h

theorem mergeOpt_isSome_or {α β} (a b : Option α) (c d : Option β) (h : (a.isSome || c.isSome) = true) :
    ((mergeOpt a b).isSome || (mergeOpt c d).isSome) = true := by
  cases a <;> cases c <;> simp only [mergeOpt, Option.isSome, Bool.or_true, Bool.true_or] at h ⊢
  cases h

/-- outputs: equal identifying outputs ⇒ the merged output has the same one -/
theorem idOut_merge (x y : PsetOutput) (t : TxOut) (hx : idOut x = .ok t) (hy : idOut y = .ok t) :
    idOut (x.merge y) = .ok t := by
  obtain ⟨a1, a2, a3⟩ := idOut_ok x t hx
  obtain ⟨_, _, b3⟩ := idOut_ok y t hy
  have e : outOf x = outOf y := a3.symm.trans b3
  simp only [outOf, TxOut.mk.injEq] at e
  obtain ⟨e1, e2, e3, _, _⟩ := e
  have g1 : ((x.merge y).assetComm.isSome || (x.merge y).asset.isSome) = true :=
    mergeOpt_isSome_or _ _ _ _ a1
  have g2 : ((x.merge y).amountComm.isSome || (x.merge y).amount.isSome) = true :=
    mergeOpt_isSome_or _ _ _ _ a2
  rw [idOut_eq_ite, if_pos g1, if_pos g2, a3]
  congr 1
  simp only [outOf, PsetOutput.merge]
  rw [pairAsset_merge _ _ _ _ e1, pairValue_merge _ _ _ _ e2, nonceOf_merge _ _ e3]

theorem idOuts_cons_ok (x : PsetOutput) (xs : List PsetOutput) (ts : List TxOut) (h : idOuts (x :: xs) = .ok ts) :
    ∃ t ts', idOut x = .ok t ∧ idOuts xs = .ok ts' ∧ ts = t :: ts' := by
  simp only [idOuts] at h
  cases h1 : idOut x with
  | ok t =>
    rw [h1] at h
    cases h2 : idOuts xs with
    | ok ts' =>
      rw [h2] at h
      exact ⟨t, ts', rfl, rfl, (Res.ok.inj h).symm⟩
    | err e => rw [h2] at h; cases h
    | panic s => rw [h2] at h; cases h
  | err e => rw [h1] at h; cases h
  | panic s => rw [h1] at h; cases h

theorem idOuts_cons_of (x : PsetOutput) (xs : List PsetOutput) (t : TxOut) (ts : List TxOut)
    (h1 : idOut x = .ok t) (h2 : idOuts xs = .ok ts) : idOuts (x :: xs) = .ok (t :: ts) := by
  simp only [idOuts, h1, h2]

theorem idOuts_merge : ∀ (xs ys : List PsetOutput) (ts : List TxOut), idOuts xs = .ok ts → idOuts ys = .ok ts →
    idOuts (zipMerge PsetOutput.merge xs ys) = .ok ts
  | [], _, _, hx, _ => hx
  | x :: xs, [], ts, hx, hy => by
    obtain ⟨t, ts', _, _, rfl⟩ := idOuts_cons_ok x xs ts hx
    simp only [idOuts] at hy
    cases hy
  | x :: xs, y :: ys, ts, hx, hy => by
    obtain ⟨t, ts', h1, h2, rfl⟩ := idOuts_cons_ok x xs ts hx
    obtain ⟨t', ts'', h3, h4, h5⟩ := idOuts_cons_ok y ys _ hy
    simp only [List.cons.injEq] at h5
    obtain ⟨rfl, rfl⟩ := h5
    exact idOuts_cons_of _ _ _ _ (idOut_merge x y t h1 h3) (idOuts_merge xs ys ts' h2 h4)

theorem idOut_stripped (x : PsetOutput) (t : TxOut) (h : idOut x = .ok t) : stripOut t = t := by
  obtain ⟨_, _, rfl⟩ := idOut_ok x t h
  rfl

theorem idOuts_stripped : ∀ (xs : List PsetOutput) (ts : List TxOut), idOuts xs = .ok ts → ts.map stripOut = ts
  | [], ts, h => by
    simp only [idOuts] at h
    cases h
    rfl
  | x :: xs, ts, h => by
    obtain ⟨t, ts', h1, h2, rfl⟩ := idOuts_cons_ok x xs ts h
    simp only [List.map_cons, idOut_stripped x t h1, idOuts_stripped xs ts' h2]

/-! ### inputs -/

/-- the issuance as `canonIn` leaves it -/
def canonIss (a : AssetIssuance) : AssetIssuance := if a.isNull = true then AssetIssuance.null else a

theorem canonIn_eq (i : TxIn) : canonIn i = { i with assetIssuance := canonIss i.assetIssuance } := by
  unfold canonIn canonIss TxIn.hasIssuance
  cases h : i.assetIssuance.isNull
  · simp only [Bool.not_false, if_true, Bool.false_eq_true, if_false]
  · simp only [Bool.not_true, Bool.false_eq_true, if_false, if_true]

theorem canonIss_isNull (a : AssetIssuance) : (canonIss a).isNull = a.isNull := by
  unfold canonIss
  cases h : a.isNull
  · simp only [Bool.false_eq_true, if_false, h]
  · simp only [if_true]; rfl

theorem pairValue_isNull (a : Option Nat) (c : Option Bytes) (h : (PsetInput.pairValue a c).isNull = true) :
    a = none ∧ c = none := by
  cases a <;> cases c <;> simp only [PsetInput.pairValue, Value.isNull] at h <;> first | exact ⟨rfl, rfl⟩ | cases h

theorem assetIssuance_merge (x y : PsetInput) :
    (x.merge y).assetIssuance =
      { nonce := (mergeOpt x.issuanceBlindingNonce y.issuanceBlindingNonce).getD zero32
        entropy := (mergeOpt x.issuanceAssetEntropy y.issuanceAssetEntropy).getD zero32
        amount := PsetInput.pairValue (mergeOpt x.issuanceValueAmount y.issuanceValueAmount)
          (mergeOpt x.issuanceValueComm y.issuanceValueComm)
        inflationKeys := PsetInput.pairValue (mergeOpt x.issuanceInflationKeys y.issuanceInflationKeys)
          (mergeOpt x.issuanceInflationKeysComm y.issuanceInflationKeysComm) } := by
  simp only [PsetInput.assetIssuance, PsetInput.merge]

theorem idIn_merge_eq (x y : PsetInput) :
    idIn (x.merge y) = { idIn x with assetIssuance := (x.merge y).assetIssuance } := rfl

theorem canonIss_merge (x y : PsetInput) (h : canonIss x.assetIssuance = canonIss y.assetIssuance) :
    canonIss (x.merge y).assetIssuance = canonIss x.assetIssuance := by
  have hn : x.assetIssuance.isNull = y.assetIssuance.isNull := by
    rw [← canonIss_isNull, ← canonIss_isNull y.assetIssuance, h]
  cases hx : x.assetIssuance.isNull with
  | true =>
    have hy : y.assetIssuance.isNull = true := by rw [← hn, hx]
    simp only [AssetIssuance.isNull, PsetInput.assetIssuance, Bool.and_eq_true] at hx hy
    obtain ⟨x1, x2⟩ := pairValue_isNull _ _ hx.1
    obtain ⟨x3, x4⟩ := pairValue_isNull _ _ hx.2
    obtain ⟨y1, y2⟩ := pairValue_isNull _ _ hy.1
    obtain ⟨y3, y4⟩ := pairValue_isNull _ _ hy.2
    have e1 : (x.merge y).assetIssuance.isNull = true := by
      rw [assetIssuance_merge]
      simp only [x1, x2, x3, x4, y1, y2, y3, y4, mergeOpt, AssetIssuance.isNull, PsetInput.pairValue, Value.isNull,
        Bool.and_self]
    have e2 : x.assetIssuance.isNull = true := by
      simp only [AssetIssuance.isNull, PsetInput.assetIssuance, x1, x2, x3, x4, PsetInput.pairValue, Value.isNull,
        Bool.and_self]
    simp only [canonIss, e1, e2, if_true]
  | false =>
    have hy : y.assetIssuance.isNull = false := by rw [← hn, hx]
    simp only [canonIss, hx, hy, Bool.false_eq_true, if_false] at h
    have e : (x.merge y).assetIssuance = x.assetIssuance := by
      rw [assetIssuance_merge]
      simp only [PsetInput.assetIssuance, AssetIssuance.mk.injEq] at h
      obtain ⟨h1, h2, h3, h4⟩ := h
      simp only [PsetInput.assetIssuance]
      rw [getD_merge _ _ _ h1, getD_merge _ _ _ h2, pairValue_merge _ _ _ _ h3, pairValue_merge _ _ _ _ h4]
    rw [e]

/-- inputs: equal identifying inputs up to the default issuance ⇒ same for the merged input -/
theorem idIn_merge (x y : PsetInput) (h : canonIn (idIn x) = canonIn (idIn y)) :
    canonIn (idIn (x.merge y)) = canonIn (idIn x) := by
  rw [canonIn_eq, canonIn_eq] at h
  have h' : canonIss x.assetIssuance = canonIss y.assetIssuance := congrArg TxIn.assetIssuance h
  rw [canonIn_eq, canonIn_eq, idIn_merge_eq]
  show ({ idIn x with assetIssuance := canonIss (x.merge y).assetIssuance } : TxIn) =
    { idIn x with assetIssuance := canonIss x.assetIssuance }
  rw [canonIss_merge x y h']

theorem idIns_merge : ∀ (xs ys : List PsetInput), xs.map (fun x => canonIn (idIn x)) = ys.map (fun y => canonIn (idIn y)) →
    (zipMerge PsetInput.merge xs ys).map (fun x => canonIn (idIn x)) = xs.map (fun x => canonIn (idIn x))
  | [], _, _ => rfl
  | x :: xs, [], _ => rfl
  | x :: xs, y :: ys, h => by
    simp only [List.map_cons, List.cons.injEq] at h
    simp only [zipMerge, List.map_cons, idIn_merge x y h.1, idIns_merge xs ys h.2]

theorem lockReqs_merge_list : ∀ (xs ys : List PsetInput),
    xs.map (fun i => (i.requiredTimeLocktime, i.requiredHeightLocktime)) =
      ys.map (fun i => (i.requiredTimeLocktime, i.requiredHeightLocktime)) →
    (zipMerge PsetInput.merge xs ys).map (fun i => (i.requiredTimeLocktime, i.requiredHeightLocktime)) =
      xs.map (fun i => (i.requiredTimeLocktime, i.requiredHeightLocktime))
  | [], _, _ => rfl
  | x :: xs, [], _ => rfl
  | x :: xs, y :: ys, h => by
    simp only [List.map_cons, List.cons.injEq, Prod.mk.injEq] at h
    obtain ⟨⟨h1, h2⟩, h3⟩ := h
    have e1 : (x.merge y).requiredTimeLocktime = x.requiredTimeLocktime := by
      simp only [PsetInput.merge]; rw [← h1, maxOpt_self]
    have e2 : (x.merge y).requiredHeightLocktime = x.requiredHeightLocktime := by
      simp only [PsetInput.merge]; rw [← h2, maxOpt_self]
    simp only [zipMerge, List.map_cons, e1, e2, lockReqs_merge_list xs ys h3]

/-- equal requirement lists are kept by the per-input maxima -/
theorem lockReqs_merge (a b : Pset) (h : a.lockReqs = b.lockReqs) :
    (zipMerge PsetInput.merge a.inputs b.inputs).map (fun i => (i.requiredTimeLocktime, i.requiredHeightLocktime)) = a.lockReqs :=
  lockReqs_merge_list a.inputs b.inputs h

/-! ### the identifying transaction -/

theorem idTx_ok (p : Pset) (t : Tx) (h : idTx p = .ok t) :
    p.sanityCheck = .ok () ∧ ∃ lt outs, p.locktime = .ok lt ∧ idOuts p.outputs = .ok outs ∧
      t = { version := p.global.txVersion, lockTime := lt, input := p.inputs.map idIn, output := outs } := by
  simp only [idTx] at h
  cases h1 : p.sanityCheck with
  | ok u =>
    cases u
    rw [h1] at h
    cases h2 : p.locktime with
    | ok lt =>
      rw [h2] at h
      cases h3 : idOuts p.outputs with
      | ok outs =>
        rw [h3] at h
        exact ⟨rfl, lt, outs, rfl, rfl, (Res.ok.inj h).symm⟩
      | err e => rw [h3] at h; cases h
      | panic s => rw [h3] at h; cases h
    | err e => rw [h2] at h; cases h
    | panic s => rw [h2] at h; cases h
  | err e => rw [h1] at h; cases h
  | panic s => rw [h1] at h; cases h

theorem sanityCheck_ok (p : Pset) (h : p.sanityCheck = .ok ()) :
    p.global.inputCount = p.inputs.length ∧ p.global.outputCount = p.outputs.length := by
  unfold Pset.sanityCheck at h
  split at h
  · cases h
  · split at h
    · cases h
    · rename_i h1 h2
      exact ⟨Decidable.not_not.mp h1, Decidable.not_not.mp h2⟩

theorem sanityCheck_of (p : Pset) (h1 : p.global.inputCount = p.inputs.length)
    (h2 : p.global.outputCount = p.outputs.length) : p.sanityCheck = .ok () := by
  unfold Pset.sanityCheck
  split
  · rename_i h; exact absurd h1 h
  · split
    · rename_i h; exact absurd h2 h
    · rfl

/-- the global fields read by `extract_tx` after a merge: self's, except that a missing fallback
    lock time is taken from the other operand -/
theorem global_merge_idEq (x y g : PsetGlobal) (hg : x.merge y = .ok g) :
    g.txVersion = x.txVersion ∧ g.fallbackLocktime = mergeOpt x.fallbackLocktime y.fallbackLocktime ∧
    g.inputCount = x.inputCount ∧ g.outputCount = x.outputCount := by
  simp only [PsetGlobal.merge] at hg
  cases hx : mergeXpub x.xpub y.xpub with
  | ok xp =>
    rw [hx] at hg
    simp only [Res.ok.injEq] at hg
    rw [← hg]
    exact ⟨rfl, rfl, rfl, rfl⟩
  | err e => rw [hx] at hg; cases hg
  | panic s => rw [hx] at hg; cases hg

theorem mergeOpt_either {α} (x y : Option α) : mergeOpt x y = x ∨ mergeOpt x y = y := by
  cases x with
  | some v => exact Or.inl rfl
  | none => exact Or.inr rfl

theorem stripIn_canonIn_idIn (x : PsetInput) : stripIn (canonIn (idIn x)) = canonIn (idIn x) := by
  rw [canonIn_eq]
  rfl

theorem canon_strip_inputs (l : List PsetInput) :
    ((l.map idIn).map canonIn).map stripIn = l.map (fun x => canonIn (idIn x)) := by
  induction l with
  | nil => rfl
  | cons x r ih => simp only [List.map_cons, stripIn_canonIn_idIn, ih]

/-- core: if the canonical identifying transactions of the operands coincide and the lock-time
    requirements are the same, the result has the same canonical identifying transaction -/
theorem idTx_mergeCore (a b m : Pset) (ta tb : Tx) (ha : idTx a = .ok ta) (hb : idTx b = .ok tb)
    (he : stripWit (canon ta) = stripWit (canon tb)) (hl : a.lockReqs = b.lockReqs)
    (hm : a.mergeCore b = .ok m) : ∃ tm, idTx m = .ok tm ∧ canon tm = canon ta := by
  obtain ⟨sa, lta, oa, la, hoa, rfl⟩ := idTx_ok a ta ha
  obtain ⟨_, ltb, ob, lb, hob, rfl⟩ := idTx_ok b tb hb
  obtain ⟨hg, hi, ho⟩ := Pset.mergeCore_ok a b m hm
  obtain ⟨g1, g2, g3, g4⟩ := global_merge_idEq _ _ _ hg
  obtain ⟨ca, cb⟩ := sanityCheck_ok a sa
  -- inputs and outputs of the two identifying transactions
  have hin : a.inputs.map (fun x => canonIn (idIn x)) = b.inputs.map (fun x => canonIn (idIn x)) := by
    have := congrArg Tx.input he
    simp only [stripWit, canon] at this
    rw [canon_strip_inputs, canon_strip_inputs] at this
    exact this
  have hout : oa = ob := by
    have := congrArg Tx.output he
    simp only [stripWit, canon] at this
    rw [idOuts_stripped _ _ hoa, idOuts_stripped _ _ hob] at this
    exact this
  subst hout
  have sm : m.sanityCheck = .ok () := by
    apply sanityCheck_of
    · rw [g3, hi, zipMerge_length]; exact ca
    · rw [g4, ho, zipMerge_length]; exact cb
  have lm : m.locktime = .ok lta := by
    have e : m.lockReqs = a.lockReqs := by
      simp only [Pset.lockReqs, hi]
      exact lockReqs_merge a b hl
    have hlt : ltb = lta := by
      have := congrArg Tx.lockTime he
      simp only [stripWit, canon] at this
      exact this.symm
    simp only [Pset.locktime, e, g2]
    rcases mergeOpt_either a.global.fallbackLocktime b.global.fallbackLocktime with h | h
    · rw [h]; exact la
    · rw [h, hl]; rw [← hlt]; exact lb
  have om : idOuts m.outputs = .ok oa := by
    rw [ho]; exact idOuts_merge _ _ _ hoa hob
  refine ⟨{ version := m.global.txVersion, lockTime := lta, input := m.inputs.map idIn, output := oa }, ?_, ?_⟩
  · simp only [idTx, sm, lm, om]
  · simp only [canon, List.map_map, g1, hi]
    congr 1
    exact idIns_merge a.inputs b.inputs hin

/-- **merge keeps the unique id** for operands with equal unique ids and equal lock-time
    requirement fields, or exhibits a collision -/
theorem merge_keeps_id_of_equal_ids (P : Prims) (hs : SizesPos P) (H : Hashes) (a b m : Pset) (ta tb : Tx)
    (hm : Pset.merge H a b = .ok m) (ha : idTx a = .ok ta) (hb : idTx b = .ok tb)
    (wa : (canon ta).wf P) (wb : (canon tb).wf P) (hl : a.lockReqs = b.lockReqs) :
    m.uniqueId H = a.uniqueId H ∨ Collision H.sha256d := by
  obtain ⟨hu, hc⟩ := Pset.merge_ok H a b m hm
  cases uniqueId_commits P hs H a b ta tb ha hb wa wb hu with
  | inr h => exact Or.inr h
  | inl he =>
    left
    obtain ⟨tm, h1, h2⟩ := idTx_mergeCore a b m ta tb ha hb he hl hc
    rw [uniqueId_eq, uniqueId_eq, h1, ha]
    simp only [Tx.txid]
    rw [← canon_encStripped tm, h2, canon_encStripped]

end EV.Proofs.PsetMergeId
