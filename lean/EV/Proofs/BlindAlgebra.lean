/-
  EV.Proofs.BlindAlgebra — the algebra behind C04/C05.
  Scalars `R` form a commutative ring (the integers mod the group order), points `M` an
  `R`-module with a base point `G` and one tag point per asset id.
-/
import Mathlib.Algebra.Module.Basic
import Mathlib.Algebra.BigOperators.Group.List.Basic
import Mathlib.Algebra.BigOperators.Group.Finset.Basic
import Mathlib.Algebra.Module.BigOperators
import Mathlib.Tactic.Ring
import Mathlib.Tactic.Abel
import Mathlib.Tactic.LinearCombination
import Mathlib.Tactic.Module
import EV.Model.Blind
import EV.Proofs.BlindVerify
import EV.Proofs.BlindSelect

namespace EV.Blind
open EV

/-! ## §1 scalars -/
section scalars
variable {A R : Type} [CommRing R]

@[simp] theorem sumTerms_nil : sumTerms ([] : List (Secrets A R)) = 0 := rfl
@[simp] theorem sumTerms_cons (s : Secrets A R) (l : List (Secrets A R)) :
    sumTerms (s :: l) = term s + sumTerms l := by
  simp [sumTerms]
@[simp] theorem sumTerms_append (l₁ l₂ : List (Secrets A R)) :
    sumTerms (l₁ ++ l₂) = sumTerms l₁ + sumTerms l₂ := by
  simp [sumTerms]

theorem foldl_blindSumStep_true (l : List (Secrets A R)) (acc : R) :
    l.foldl (blindSumStep true) acc = acc - sumTerms l := by
  induction l generalizing acc with
  | nil => simp
  | cons s l ih => simp only [List.foldl_cons, ih, blindSumStep, sumTerms_cons]; simp; ring

theorem foldl_blindSumStep_false (l : List (Secrets A R)) (acc : R) :
    l.foldl (blindSumStep false) acc = acc + sumTerms l := by
  induction l generalizing acc with
  | nil => simp
  | cons s l ih => simp only [List.foldl_cons, ih, blindSumStep, sumTerms_cons]; simp; ring

/-- the loop of `secp256k1_pedersen_blind_generator_blind_sum` computes the closed formula -/
theorem lastVbf_eq (value : Nat) (abf : R) (ins outs : List (Secrets A R)) :
    lastVbf value abf ins outs = sumTerms ins - sumTerms outs - (value : R) * abf := by
  simp only [lastVbf, foldl_blindSumStep_true, foldl_blindSumStep_false]
  ring

theorem last_balances' (a : A) (value : Nat) (abf : R) (ins outs : List (Secrets A R)) :
    term ⟨a, value, abf, lastVbf value abf ins outs⟩ + sumTerms outs = sumTerms ins := by
  simp only [term, lastVbf_eq]
  ring

theorem balance_eq (ins outs : List (Secrets A R)) :
    balance ins outs = sumTerms ins - sumTerms outs := by
  simp [balance, sub_eq_add_neg]

theorem vbfAdd_eq [DecidableEq R] (a b : R) : vbfAdd a b = a + b := by
  unfold vbfAdd
  split
  · simp [*]
  · split <;> simp [*]

theorem vbfNeg_eq [DecidableEq R] (a : R) : vbfNeg a = -a := by
  unfold vbfNeg
  split <;> simp [*]
end scalars

/-! ## per-asset totals -/

/-- total explicit amount of asset `a` in a list of openings -/
def amt {A R : Type} [DecidableEq A] (a : A) (l : List (Secrets A R)) : Nat :=
  ((l.filter (fun s => s.asset = a)).map (fun s => s.value)).sum

@[simp] theorem amt_nil {A R : Type} [DecidableEq A] (a : A) : amt a ([] : List (Secrets A R)) = 0 := rfl
theorem amt_cons {A R : Type} [DecidableEq A] (a : A) (s : Secrets A R) (l : List (Secrets A R)) :
    amt a (s :: l) = (if s.asset = a then s.value else 0) + amt a l := by
  unfold amt
  by_cases h : s.asset = a <;> simp [h]
theorem amt_append {A R : Type} [DecidableEq A] (a : A) (l₁ l₂ : List (Secrets A R)) :
    amt a (l₁ ++ l₂) = amt a l₁ + amt a l₂ := by
  induction l₁ with
  | nil => simp
  | cons s l ih => simp [amt_cons, ih, Nat.add_assoc]

/-! ## §2 points -/

/-- the base point and the asset tags -/
structure Curve (R M A : Type) where
  G : M
  tag : A → M

section points
variable {A R M : Type} [CommRing R] [AddCommGroup M] [Module R M]

/-- `Generator::new_blinded(tag a, abf)` -/
def Curve.gen (cv : Curve R M A) (a : A) (abf : R) : M := cv.tag a + abf • cv.G

/-- `PedersenCommitment::new(v, vbf, g)` -/
def Curve.pedersen (cv : Curve R M A) (v : Nat) (vbf : R) (g : M) : M := (v : R) • g + vbf • cv.G

/-- the value commitment opened by `s` -/
def Curve.commit (cv : Curve R M A) (s : Secrets A R) : M :=
  cv.pedersen s.value s.vbf (cv.gen s.asset s.abf)

/-- the `tag` part of a commitment -/
def Curve.tagPart (cv : Curve R M A) (s : Secrets A R) : M := (s.value : R) • cv.tag s.asset

theorem Curve.commit_eq (cv : Curve R M A) (s : Secrets A R) :
    cv.commit s = cv.tagPart s + term s • cv.G := by
  simp only [Curve.commit, Curve.pedersen, Curve.gen, Curve.tagPart, term]
  module

theorem Curve.sum_commit (cv : Curve R M A) (l : List (Secrets A R)) :
    (l.map cv.commit).sum = (l.map cv.tagPart).sum + sumTerms l • cv.G := by
  induction l with
  | nil => simp
  | cons s l ih =>
    simp only [List.map_cons, List.sum_cons, ih, sumTerms_cons, cv.commit_eq]
    module

/-- ECDH is symmetric: the sender's `esk • (sk • G)` is the receiver's `sk • (esk • G)` -/
theorem ecdh_symm (G : M) (a b : R) : a • (b • G) = b • (a • G) := smul_comm a b G

/-- regrouping by asset: the tag parts of a list sum to `Σ_a (total of a) • tag a` over any finite
    set of assets that contains the ones occurring -/
theorem Curve.sum_tagPart_eq_finset [DecidableEq A] (cv : Curve R M A) (S : Finset A)
    (l : List (Secrets A R)) (hS : ∀ s ∈ l, s.asset ∈ S) :
    (l.map cv.tagPart).sum = ∑ a ∈ S, ((amt a l : Nat) : R) • cv.tag a := by
  induction l with
  | nil => simp
  | cons s l ih =>
    have hs : s.asset ∈ S := hS s (by simp)
    have ih' := ih (fun x hx => hS x (by simp [hx]))
    simp only [List.map_cons, List.sum_cons, ih', amt_cons, Nat.cast_add, add_smul,
      Finset.sum_add_distrib]
    congr 1
    have : ∀ a ∈ S, ((if s.asset = a then s.value else 0 : Nat) : R) • cv.tag a
        = if s.asset = a then (s.value : R) • cv.tag a else 0 := by
      intro a _
      split <;> simp
    rw [Finset.sum_congr rfl this, Finset.sum_ite_eq S s.asset, if_pos hs]
    rfl

/-- per-asset balance of the amounts ⇒ the tag parts cancel -/
theorem Curve.sum_tagPart_of_balanced [DecidableEq A] (cv : Curve R M A)
    (ins outs : List (Secrets A R)) (hbal : ∀ a, amt a ins = amt a outs) :
    (ins.map cv.tagPart).sum = (outs.map cv.tagPart).sum := by
  let S : Finset A := (ins.map (·.asset)).toFinset ∪ (outs.map (·.asset)).toFinset
  rw [cv.sum_tagPart_eq_finset S ins (by intro s hs; simp [S]; left; exact ⟨s, hs, rfl⟩),
      cv.sum_tagPart_eq_finset S outs (by intro s hs; simp [S]; right; exact ⟨s, hs, rfl⟩)]
  exact Finset.sum_congr rfl (fun a _ => by rw [hbal a])

/-- scalar balance + per-asset balance ⇒ the commitments balance -/
theorem Curve.commit_balance [DecidableEq A] (cv : Curve R M A) (ins outs : List (Secrets A R))
    (hterm : sumTerms ins = sumTerms outs) (hbal : ∀ a, amt a ins = amt a outs) :
    (ins.map cv.commit).sum = (outs.map cv.commit).sum := by
  rw [cv.sum_commit, cv.sum_commit, hterm, cv.sum_tagPart_of_balanced ins outs hbal]
end points

end EV.Blind
