/-
  EV.Proofs.PsetMap — laws of the PSET containers (EV.Model.PsetMap): the key order is a strict
  total order; `KV.insert`/`KV.extend` behave like `BTreeMap::insert`/`extend` (lookup after
  extend, sortedness preserved, key set = union); a sorted map is determined by its lookups, hence
  `extend` is associative, and commutative on maps that agree on common keys; `merge!` and
  `cmp::max` on options; sort+dedup of scalars.
-/
import EV.Model.PsetMap
namespace EV

theorem bytesLt_cons (a b : UInt8) (as bs : Bytes) :
    bytesLt (a :: as) (b :: bs) = true ↔ (a.toNat < b.toNat ∨ (a = b ∧ bytesLt as bs = true)) := by
  simp only [bytesLt, Bool.or_eq_true, Bool.and_eq_true, decide_eq_true_eq]

theorem bytesLt_nil_right (a : Bytes) : bytesLt a [] = false := by
  cases a <;> rfl

theorem bytesLt_irrefl (a : Bytes) : bytesLt a a = false := by
  induction a with
  | nil => rfl
  | cons x xs ih =>
    cases h : bytesLt (x :: xs) (x :: xs) with
    | false => rfl
    | true =>
      rw [bytesLt_cons] at h
      rcases h with h | ⟨_, h⟩
      · omega
      · rw [ih] at h; cases h

theorem bytesLt_trans {a b c : Bytes} (h1 : bytesLt a b = true) (h2 : bytesLt b c = true) : bytesLt a c = true := by
  induction a generalizing b c with
  | nil =>
    cases b with
    | nil => cases h1
    | cons y ys =>
      cases c with
      | nil => cases h2
      | cons z zs => rfl
  | cons x xs ih =>
    cases b with
    | nil => cases h1
    | cons y ys =>
      cases c with
      | nil => cases h2
      | cons z zs =>
        rw [bytesLt_cons] at h1 h2 ⊢
        rcases h1 with h1 | ⟨e1, h1⟩
        · rcases h2 with h2 | ⟨e2, h2⟩
          · left; omega
          · left; subst e2; exact h1
        · subst e1
          rcases h2 with h2 | ⟨e2, h2⟩
          · left; exact h2
          · right; exact ⟨e2, ih h1 h2⟩

theorem bytesLt_asymm {a b : Bytes} (h : bytesLt a b = true) : bytesLt b a = false := by
  cases h' : bytesLt b a with
  | false => rfl
  | true =>
    have := bytesLt_trans h h'
    rw [bytesLt_irrefl] at this
    cases this

/-- trichotomy -/
theorem bytesLt_total {a b : Bytes} (h1 : bytesLt a b = false) (h2 : bytesLt b a = false) : a = b := by
  induction a generalizing b with
  | nil =>
    cases b with
    | nil => rfl
    | cons y ys => cases h1
  | cons x xs ih =>
    cases b with
    | nil => cases h2
    | cons y ys =>
      have n1 : ¬ (x.toNat < y.toNat ∨ (x = y ∧ bytesLt xs ys = true)) := by
        rw [← bytesLt_cons, h1]; exact Bool.false_ne_true
      have n2 : ¬ (y.toNat < x.toNat ∨ (y = x ∧ bytesLt ys xs = true)) := by
        rw [← bytesLt_cons, h2]; exact Bool.false_ne_true
      have l1 : ¬ x.toNat < y.toNat := fun h => n1 (Or.inl h)
      have l2 : ¬ y.toNat < x.toNat := fun h => n2 (Or.inl h)
      have e : x = y := UInt8.toNat_inj.mp (by omega)
      subst e
      have t1 : bytesLt xs ys = false := by
        cases h : bytesLt xs ys with
        | false => rfl
        | true => exact absurd (Or.inr ⟨rfl, h⟩) n1
      have t2 : bytesLt ys xs = false := by
        cases h : bytesLt ys xs with
        | false => rfl
        | true => exact absurd (Or.inr ⟨rfl, h⟩) n2
      rw [ih t1 t2]

/-! ### `merge!` and `cmp::max` on options -/

theorem mergeOpt_isSome {α} (a b : Option α) (h : a.isSome ∨ b.isSome) : (mergeOpt a b).isSome := by
  cases a with
  | some x => rfl
  | none =>
    cases b with
    | some y => rfl
    | none => rcases h with h | h <;> cases h

theorem mergeOpt_none_left {α} (b : Option α) : mergeOpt none b = b := rfl
theorem mergeOpt_self {α} (a : Option α) : mergeOpt a a = a := by cases a <;> rfl

theorem mergeOpt_comm {α} {a b : Option α} (h : OptAgree a b) : mergeOpt a b = mergeOpt b a := by
  cases a with
  | none => cases b <;> rfl
  | some x =>
    cases b with
    | none => rfl
    | some y =>
      have := h x y rfl rfl
      subst this
      rfl

theorem mergeOpt_assoc {α} (a b c : Option α) : mergeOpt (mergeOpt a b) c = mergeOpt a (mergeOpt b c) := by
  cases a <;> rfl

theorem maxOpt_isSome (a b : Option Nat) (h : a.isSome ∨ b.isSome) : (maxOpt a b).isSome := by
  cases a with
  | some x => cases b <;> rfl
  | none =>
    cases b with
    | some y => rfl
    | none => rcases h with h | h <;> cases h

theorem maxOpt_self (a : Option Nat) : maxOpt a a = a := by
  cases a with
  | none => rfl
  | some x => simp only [maxOpt, Nat.le_refl, if_true]

theorem maxOpt_comm (a b : Option Nat) : maxOpt a b = maxOpt b a := by
  cases a with
  | none => cases b <;> rfl
  | some x =>
    cases b with
    | none => rfl
    | some y =>
      simp only [maxOpt, Option.some.injEq]
      split <;> split <;> omega

theorem maxOpt_assoc (a b c : Option Nat) : maxOpt (maxOpt a b) c = maxOpt a (maxOpt b c) := by
  cases a with
  | none => cases b <;> cases c <;> rfl
  | some x =>
    cases b with
    | none => cases c <;> rfl
    | some y =>
      cases c with
      | none => rfl
      | some z =>
        simp only [maxOpt, Option.some.injEq]
        by_cases h1 : x ≤ y <;> by_cases h2 : y ≤ z <;> simp only [h1, h2, if_true, if_false] <;>
          split <;> (try split) <;> omega

theorem optAgree_refl {α} (a : Option α) : OptAgree a a := by
  intro u v h1 h2; rw [h1] at h2; exact Option.some.inj h2

theorem optAgree_symm {α} {a b : Option α} (h : OptAgree a b) : OptAgree b a :=
  fun u v h1 h2 => (h v u h2 h1).symm

namespace KV
variable {V : Type}

theorem lookup_insert (k : Bytes) (v : V) (m : List (Bytes × V)) (k' : Bytes) :
    lookup k' (insert k v m) = if k' = k then some v else lookup k' m := by
  induction m with
  | nil => simp only [insert, lookup]
  | cons p r ih =>
    obtain ⟨k1, v1⟩ := p
    simp only [insert]
    split
    · simp only [lookup]
    · split
      · rename_i _ e
        subst e
        simp only [lookup]
        split <;> rfl
      · rename_i _ ne
        simp only [lookup, ih]
        by_cases e1 : k' = k1
        · have e2 : ¬ k' = k := fun e => ne (e.symm.trans e1)
          simp only [e1, if_true]
          rw [if_neg (fun e => ne e.symm)]
        · simp only [e1, if_false]

theorem sorted_nil : Sorted ([] : List (Bytes × V)) := List.Pairwise.nil

theorem keys_cons (k : Bytes) (v : V) (r : List (Bytes × V)) : keys ((k, v) :: r) = k :: keys r := rfl

theorem sorted_cons (k : Bytes) (v : V) (r : List (Bytes × V)) :
    Sorted ((k, v) :: r) ↔ ((∀ k' ∈ keys r, bytesLt k k' = true) ∧ Sorted r) := by
  simp only [Sorted, keys_cons, List.pairwise_cons]

theorem mem_keys_iff_lookup (m : List (Bytes × V)) (k : Bytes) : k ∈ keys m ↔ (lookup k m).isSome = true := by
  induction m with
  | nil => simp only [keys, List.map_nil, List.not_mem_nil, lookup, Option.isSome_none, Bool.false_eq_true]
  | cons p r ih =>
    obtain ⟨k1, v1⟩ := p
    rw [keys_cons, List.mem_cons, lookup]
    by_cases e : k = k1
    · simp only [e, if_true, true_or, Option.isSome_some]
    · simp only [e, if_false, false_or, ih]

theorem lookup_eq_none_iff (m : List (Bytes × V)) (k : Bytes) : lookup k m = none ↔ ¬ k ∈ keys m := by
  rw [mem_keys_iff_lookup]
  cases lookup k m <;> simp only [Option.isSome_none, Option.isSome_some, Bool.false_eq_true,
    not_false_eq_true, not_true_eq_false, reduceCtorEq]

theorem mem_keys_insert (k : Bytes) (v : V) (m : List (Bytes × V)) (k' : Bytes) :
    k' ∈ keys (insert k v m) ↔ (k' = k ∨ k' ∈ keys m) := by
  rw [mem_keys_iff_lookup, mem_keys_iff_lookup, lookup_insert]
  by_cases e : k' = k
  · simp only [e, if_true, Option.isSome_some, true_or]
  · simp only [e, if_false, false_or]

theorem sorted_insert (k : Bytes) (v : V) (m : List (Bytes × V)) (h : Sorted m) : Sorted (insert k v m) := by
  induction m with
  | nil =>
    simp only [insert, Sorted, keys, List.map_cons, List.map_nil]
    exact List.pairwise_singleton _ _
  | cons p r ih =>
    obtain ⟨k1, v1⟩ := p
    rw [sorted_cons] at h
    simp only [insert]
    split
    · rename_i hlt
      rw [sorted_cons]
      refine ⟨?_, (sorted_cons _ _ _).mpr h⟩
      intro k' hk'
      rw [keys_cons, List.mem_cons] at hk'
      rcases hk' with e | hk'
      · rw [e]; exact hlt
      · exact bytesLt_trans hlt (h.1 k' hk')
    · split
      · rename_i _ e
        subst e
        exact (sorted_cons _ _ _).mpr h
      · rename_i hnlt ne
        have hlt : bytesLt k1 k = true := by
          cases hh : bytesLt k1 k with
          | true => rfl
          | false =>
            have hnlt' : bytesLt k k1 = false := by
              cases h3 : bytesLt k k1 with
              | false => rfl
              | true => exact absurd h3 hnlt
            exact absurd (bytesLt_total hnlt' hh) ne
        rw [sorted_cons]
        refine ⟨?_, ih h.2⟩
        intro k' hk'
        rw [mem_keys_insert] at hk'
        rcases hk' with e | hk'
        · rw [e]; exact hlt
        · exact h.1 k' hk'

theorem extend_nil (a : List (Bytes × V)) : extend a [] = a := rfl

theorem extend_cons (a : List (Bytes × V)) (p : Bytes × V) (r : List (Bytes × V)) :
    extend a (p :: r) = extend (insert p.1 p.2 a) r := rfl

/-- the head key of a sorted list does not occur in the tail -/
theorem lookup_tail_none {k : Bytes} {v : V} {r : List (Bytes × V)} (h : Sorted ((k, v) :: r)) :
    lookup k r = none := by
  rw [lookup_eq_none_iff]
  intro hm
  have := ((sorted_cons _ _ _).mp h).1 k hm
  rw [bytesLt_irrefl] at this
  cases this

/-- a key smaller than the head key of a sorted list does not occur in it -/
theorem lookup_none_of_lt_head {k k' : Bytes} {v' : V} {r : List (Bytes × V)}
    (h : Sorted ((k', v') :: r)) (hlt : bytesLt k k' = true) : lookup k ((k', v') :: r) = none := by
  rw [lookup_eq_none_iff, keys_cons, List.mem_cons]
  intro hm
  rcases hm with e | hm
  · subst e
    rw [bytesLt_irrefl] at hlt
    cases hlt
  · have h2 := ((sorted_cons _ _ _).mp h).1 k hm
    rw [bytesLt_asymm hlt] at h2
    cases h2

/-- lookup after `extend`: the other map's value wins, otherwise self's -/
theorem lookup_extend (a b : List (Bytes × V)) (hb : Sorted b) (k : Bytes) :
    lookup k (extend a b) = mergeOpt (lookup k b) (lookup k a) := by
  induction b generalizing a with
  | nil => rfl
  | cons p r ih =>
    obtain ⟨k1, v1⟩ := p
    have hr : Sorted r := ((sorted_cons _ _ _).mp hb).2
    rw [extend_cons, ih _ hr, lookup_insert, lookup]
    by_cases e : k = k1
    · subst e
      rw [lookup_tail_none hb]
      simp only [if_true]
      rfl
    · simp only [e, if_false]

theorem sorted_extend (a b : List (Bytes × V)) (ha : Sorted a) : Sorted (extend a b) := by
  induction b generalizing a with
  | nil => exact ha
  | cons p r ih =>
    rw [extend_cons]
    exact ih _ (sorted_insert _ _ _ ha)

/-- key set of the result = union of the key sets -/
theorem mem_keys_extend (a b : List (Bytes × V)) (hb : Sorted b) (k : Bytes) :
    k ∈ keys (extend a b) ↔ (k ∈ keys a ∨ k ∈ keys b) := by
  rw [mem_keys_iff_lookup, mem_keys_iff_lookup, mem_keys_iff_lookup, lookup_extend a b hb]
  cases lookup k b <;> cases lookup k a <;>
    simp only [mergeOpt, Option.isSome_none, Option.isSome_some, Bool.false_eq_true, or_self, or_true, true_or]

/-- a strictly sorted association list is determined by its lookup function -/
theorem ext_of_sorted {a b : List (Bytes × V)} (ha : Sorted a) (hb : Sorted b)
    (h : ∀ k, lookup k a = lookup k b) : a = b := by
  induction a generalizing b with
  | nil =>
    cases b with
    | nil => rfl
    | cons q rb =>
      obtain ⟨kb, vb⟩ := q
      have := h kb
      simp only [lookup, if_true] at this
      cases this
  | cons p ra ih =>
    obtain ⟨ka, va⟩ := p
    cases b with
    | nil =>
      have := h ka
      simp only [lookup, if_true] at this
      cases this
    | cons q rb =>
      obtain ⟨kb, vb⟩ := q
      have hka : lookup ka ((ka, va) :: ra) = some va := by simp only [lookup, if_true]
      have hkb : lookup kb ((kb, vb) :: rb) = some vb := by simp only [lookup, if_true]
      have n1 : bytesLt ka kb = false := by
        cases hh : bytesLt ka kb with
        | false => rfl
        | true =>
          have := h ka
          rw [hka, lookup_none_of_lt_head hb hh] at this
          cases this
      have n2 : bytesLt kb ka = false := by
        cases hh : bytesLt kb ka with
        | false => rfl
        | true =>
          have := h kb
          rw [hkb, lookup_none_of_lt_head ha hh] at this
          cases this
      have e : ka = kb := bytesLt_total n1 n2
      subst e
      have ev : va = vb := by
        have := h ka
        rw [hka, hkb] at this
        exact Option.some.inj this
      subst ev
      have hra : Sorted ra := ((sorted_cons _ _ _).mp ha).2
      have hrb : Sorted rb := ((sorted_cons _ _ _).mp hb).2
      have ht : ∀ k, lookup k ra = lookup k rb := by
        intro k
        by_cases e : k = ka
        · subst e
          rw [lookup_tail_none ha, lookup_tail_none hb]
        · have := h k
          simp only [lookup, e, if_false] at this
          exact this
      rw [ih hra hrb ht]

theorem agree_symm {a b : List (Bytes × V)} (h : Agree a b) : Agree b a :=
  fun k u v h1 h2 => (h k v u h2 h1).symm

theorem extend_comm {a b : List (Bytes × V)} (ha : Sorted a) (hb : Sorted b) (h : Agree a b) :
    extend a b = extend b a := by
  apply ext_of_sorted (sorted_extend a b ha) (sorted_extend b a hb)
  intro k
  rw [lookup_extend a b hb, lookup_extend b a ha]
  exact mergeOpt_comm (fun u v h1 h2 => (h k v u h2 h1).symm)

theorem extend_assoc {a b c : List (Bytes × V)} (ha : Sorted a) (hb : Sorted b) (hc : Sorted c) :
    extend (extend a b) c = extend a (extend b c) := by
  apply ext_of_sorted (sorted_extend _ c (sorted_extend a b ha)) (sorted_extend a _ ha)
  intro k
  rw [lookup_extend _ c hc, lookup_extend a b hb, lookup_extend a _ (sorted_extend b c hb),
    lookup_extend b c hc, mergeOpt_assoc]

/-- the result agrees with a third map if both operands do -/
theorem agree_extend {a b c : List (Bytes × V)} (hb : Sorted b) (h1 : Agree a c) (h2 : Agree b c) :
    Agree (extend a b) c := by
  intro k u v hu hv
  rw [lookup_extend a b hb] at hu
  cases hb' : lookup k b with
  | some w =>
    rw [hb'] at hu
    simp only [mergeOpt] at hu
    have := Option.some.inj hu
    subst this
    exact h2 k w v hb' hv
  | none =>
    rw [hb'] at hu
    simp only [mergeOpt] at hu
    exact h1 k u v hu hv

theorem extend_self {a : List (Bytes × V)} (ha : Sorted a) : extend a a = a := by
  apply ext_of_sorted (sorted_extend a a ha) ha
  intro k
  rw [lookup_extend a a ha, mergeOpt_self]

end KV

/-! ### scalars: `extend; sort; dedup` -/

theorem sortedSet_cons (x : Bytes) (l : List Bytes) :
    SortedSet (x :: l) ↔ ((∀ z ∈ l, bytesLt x z = true) ∧ SortedSet l) := by
  simp only [SortedSet, List.pairwise_cons]

theorem mem_insertSet (x y : Bytes) (l : List Bytes) : y ∈ insertSet x l ↔ (y = x ∨ y ∈ l) := by
  induction l with
  | nil => simp only [insertSet, List.mem_cons]
  | cons z r ih =>
    simp only [insertSet]
    split
    · simp only [List.mem_cons]
    · split
      · rename_i _ e
        subst e
        simp only [List.mem_cons]
        constructor
        · intro h; exact Or.inr h
        · intro h
          rcases h with h | h
          · exact Or.inl h
          · exact h
      · simp only [List.mem_cons, ih]
        constructor
        · intro h
          rcases h with h | h | h
          · exact Or.inr (Or.inl h)
          · exact Or.inl h
          · exact Or.inr (Or.inr h)
        · intro h
          rcases h with h | h | h
          · exact Or.inr (Or.inl h)
          · exact Or.inl h
          · exact Or.inr (Or.inr h)

theorem sortedSet_insertSet (x : Bytes) (l : List Bytes) (h : SortedSet l) : SortedSet (insertSet x l) := by
  induction l with
  | nil => exact List.pairwise_singleton _ _
  | cons y r ih =>
    rw [sortedSet_cons] at h
    simp only [insertSet]
    split
    · rename_i hlt
      rw [sortedSet_cons]
      refine ⟨?_, (sortedSet_cons _ _).mpr h⟩
      intro z hz
      rw [List.mem_cons] at hz
      rcases hz with e | hz
      · rw [e]; exact hlt
      · exact bytesLt_trans hlt (h.1 z hz)
    · split
      · exact (sortedSet_cons _ _).mpr h
      · rename_i hnlt ne
        have hlt : bytesLt y x = true := by
          cases hh : bytesLt y x with
          | true => rfl
          | false =>
            have hnlt' : bytesLt x y = false := by
              cases h3 : bytesLt x y with
              | false => rfl
              | true => exact absurd h3 hnlt
            exact absurd (bytesLt_total hnlt' hh) ne
        rw [sortedSet_cons]
        refine ⟨?_, ih h.2⟩
        intro z hz
        rw [mem_insertSet] at hz
        rcases hz with e | hz
        · rw [e]; exact hlt
        · exact h.1 z hz

theorem sortedSet_foldl (l s : List Bytes) (h : SortedSet s) :
    SortedSet (l.foldl (fun s x => insertSet x s) s) := by
  induction l generalizing s with
  | nil => exact h
  | cons x r ih =>
    rw [List.foldl_cons]
    exact ih _ (sortedSet_insertSet x s h)

theorem mem_foldl_insertSet (l s : List Bytes) (x : Bytes) :
    x ∈ l.foldl (fun s x => insertSet x s) s ↔ (x ∈ s ∨ x ∈ l) := by
  induction l generalizing s with
  | nil => simp only [List.foldl_nil, List.not_mem_nil, or_false]
  | cons y r ih =>
    rw [List.foldl_cons, ih, mem_insertSet, List.mem_cons]
    constructor
    · intro h
      rcases h with (h | h) | h
      · exact Or.inr (Or.inl h)
      · exact Or.inl h
      · exact Or.inr (Or.inr h)
    · intro h
      rcases h with h | h | h
      · exact Or.inl (Or.inr h)
      · exact Or.inl (Or.inl h)
      · exact Or.inr h

theorem sortedSet_sortDedup (l : List Bytes) : SortedSet (sortDedup l) := by
  exact sortedSet_foldl l [] List.Pairwise.nil

theorem mem_sortDedup (l : List Bytes) (x : Bytes) : x ∈ sortDedup l ↔ x ∈ l := by
  unfold sortDedup
  rw [mem_foldl_insertSet]
  simp only [List.not_mem_nil, false_or]

theorem sortedSet_ext {a b : List Bytes} (ha : SortedSet a) (hb : SortedSet b) (h : ∀ x, x ∈ a ↔ x ∈ b) : a = b := by
  induction a generalizing b with
  | nil =>
    cases b with
    | nil => rfl
    | cons y ys => exact absurd ((h y).mpr List.mem_cons_self) List.not_mem_nil
  | cons x xs ih =>
    cases b with
    | nil => exact absurd ((h x).mp List.mem_cons_self) List.not_mem_nil
    | cons y ys =>
      rw [sortedSet_cons] at ha hb
      have e : x = y := by
        have hx := (h x).mp List.mem_cons_self
        have hy := (h y).mpr List.mem_cons_self
        rw [List.mem_cons] at hx hy
        rcases hx with hx | hx
        · exact hx
        · rcases hy with hy | hy
          · exact hy.symm
          · have l1 := hb.1 x hx
            have l2 := ha.1 y hy
            rw [bytesLt_asymm l1] at l2
            cases l2
      subst e
      have ht : ∀ z, z ∈ xs ↔ z ∈ ys := by
        intro z
        constructor
        · intro hz
          have := (h z).mp (List.mem_cons_of_mem _ hz)
          rw [List.mem_cons] at this
          rcases this with e | this
          · subst e
            have l := ha.1 z hz
            rw [bytesLt_irrefl] at l
            cases l
          · exact this
        · intro hz
          have := (h z).mpr (List.mem_cons_of_mem _ hz)
          rw [List.mem_cons] at this
          rcases this with e | this
          · subst e
            have l := hb.1 z hz
            rw [bytesLt_irrefl] at l
            cases l
          · exact this
      rw [ih ha.2 hb.2 ht]

theorem sortDedup_comm (a b : List Bytes) : sortDedup (a ++ b) = sortDedup (b ++ a) := by
  apply sortedSet_ext (sortedSet_sortDedup _) (sortedSet_sortDedup _)
  intro x
  simp only [mem_sortDedup, List.mem_append]
  exact Or.comm

theorem sortDedup_assoc (a b c : List Bytes) :
    sortDedup (sortDedup (a ++ b) ++ c) = sortDedup (a ++ sortDedup (b ++ c)) := by
  apply sortedSet_ext (sortedSet_sortDedup _) (sortedSet_sortDedup _)
  intro x
  simp only [mem_sortDedup, List.mem_append]
  exact or_assoc

end EV
