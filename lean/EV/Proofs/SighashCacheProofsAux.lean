/-
  Helper lemmas for C13 (`SighashCacheProofs`): the `Sound` combinators relating a cache
  computation to its cache-free counterpart, soundness of the cache primitives and of the
  segwit / taproot message builders, and invariance of every signature-hash ingredient under
  `setScriptWitness`.
-/
import EV.Proofs.SighashDefs
namespace EV.Sighash
open EV EV.Codec

variable (H : SigHashes)

/-- a cache computation keeps the invariant and returns `r` -/
def Sound {α} (H : SigHashes) (tx : Tx) (ps : List TxOut) (m : CM α) (r : Res α) : Prop :=
  ∀ c, CacheInv H tx ps c → CacheInv H tx ps (m c).1 ∧ (m c).2 = r

namespace Sound
variable {H : SigHashes} {tx : Tx} {ps : List TxOut} {α β : Type}

theorem pure {a : α} : Sound H tx ps (CM.pure a) (.ok a) := fun _ hc => ⟨hc, rfl⟩
theorem lift {r : Res α} : Sound H tx ps (CM.lift r) r := fun _ hc => ⟨hc, rfl⟩
theorem fail {r : Res α} : Sound H tx ps (CM.fail r) r := fun _ hc => ⟨hc, rfl⟩

theorem bind {m : CM α} {r : Res α} {f : α → CM β} {g : α → Res β}
    (hm : Sound H tx ps m r) (hf : ∀ a, r = .ok a → Sound H tx ps (f a) (g a)) :
    Sound H tx ps (m.bind f) (r.bind g) := by
  intro c hc
  obtain ⟨h1, h2⟩ := hm c hc
  unfold CM.bind
  cases hmc : m c with
  | mk c1 r1 =>
    rw [hmc] at h1 h2
    simp only at h1 h2
    subst h2
    cases r1 with
    | ok a => exact hf a rfl c1 h1
    | err e => exact ⟨h1, rfl⟩
    | panic s => exact ⟨h1, rfl⟩

theorem bind_ok {m : CM α} {a : α} {f : α → CM β} {r : Res β}
    (hm : Sound H tx ps m (.ok a)) (hf : Sound H tx ps (f a) r) :
    Sound H tx ps (m.bind f) r := by
  have := bind (g := fun _ => r) hm (fun a' h => by cases h; exact hf)
  exact this

theorem ite {p : Prop} [Decidable p] {m1 m2 : CM α} {r1 r2 : Res α}
    (h1 : Sound H tx ps m1 r1) (h2 : Sound H tx ps m2 r2) :
    Sound H tx ps (if p then m1 else m2) (if p then r1 else r2) := by
  split
  · exact h1
  · exact h2

theorem ite_ok {p : Prop} [Decidable p] {m1 m2 : CM α} {a1 a2 : α}
    (h1 : Sound H tx ps m1 (.ok a1)) (h2 : Sound H tx ps m2 (.ok a2)) :
    Sound H tx ps (if p then m1 else m2) (.ok (if p then a1 else a2)) := by
  split
  · exact h1
  · exact h2

theorem mapRes {m : CM α} {r : Res α} (f : α → β) (hm : Sound H tx ps m r) :
    Sound H tx ps (mapRes f m) (r.map f) := by
  intro c hc
  obtain ⟨h1, h2⟩ := hm c hc
  unfold Sighash.mapRes
  cases hmc : m c with
  | mk c1 r1 =>
    rw [hmc] at h1 h2
    simp only at h1 h2
    subst h2
    exact ⟨h1, rfl⟩

end Sound

theorem getCommon_sound (tx : Tx) (ps : List TxOut) :
    Sound H tx ps (getCommon H tx) (.ok (commonOf H tx)) := by
  intro c hc
  unfold getCommon
  cases h : c.common with
  | some x =>
    simp only
    exact ⟨hc, by rw [hc.1 x h]⟩
  | none =>
    simp only
    refine ⟨⟨?_, hc.2.1, hc.2.2⟩, by first | rfl | trivial⟩
    intro x hx
    simp only [Option.some.injEq] at hx
    exact hx.symm

theorem getSegwit_sound (tx : Tx) (ps : List TxOut) :
    Sound H tx ps (getSegwit H tx) (.ok (segwitOf H (commonOf H tx))) := by
  intro c hc
  unfold getSegwit
  cases h : c.segwit with
  | some x =>
    simp only
    exact ⟨hc, by rw [hc.2.1 x h]⟩
  | none =>
    simp only
    obtain ⟨h1, h2⟩ := getCommon_sound H tx ps c hc
    cases hg : getCommon H tx c with
    | mk c1 r1 =>
      rw [hg] at h1 h2
      simp only at h1 h2
      subst h2
      simp only
      refine ⟨⟨h1.1, ?_, h1.2.2⟩, by first | rfl | trivial⟩
      intro x hx
      simp only [Option.some.injEq] at hx
      exact hx.symm

theorem getTaproot_sound (tx : Tx) (ps : List TxOut) :
    Sound H tx ps (getTaproot H tx ps) (.ok (taprootOf H tx ps)) := by
  intro c hc
  unfold getTaproot
  cases h : c.taproot with
  | some x =>
    simp only
    exact ⟨hc, by rw [hc.2.2 x h]⟩
  | none =>
    simp only
    refine ⟨⟨hc.1, hc.2.1, ?_⟩, by first | rfl | trivial⟩
    intro x hx
    simp only [Option.some.injEq] at hx
    exact hx.symm

theorem getOutputWitnesses_sound (tx : Tx) (ps : List TxOut) (pv : Prevouts)
    (hpv : ∀ ps', pv = .all ps' → ps' = ps) :
    Sound H tx ps (getOutputWitnesses H tx pv) (.ok (H.sha256 (preOutputWitnesses tx))) := by
  intro c hc
  unfold getOutputWitnesses
  cases h : c.taproot with
  | some x =>
    simp only
    exact ⟨hc, by rw [hc.2.2 x h]; rfl⟩
  | none =>
    simp only
    cases pv with
    | one j p => exact ⟨hc, rfl⟩
    | all ps' =>
      obtain rfl := hpv ps' rfl
      simp only
      have : Sound H tx ps' ((getTaproot H tx ps').bind fun t => CM.pure t.outputWitnesses)
          (.ok (H.sha256 (preOutputWitnesses tx))) :=
        Sound.bind_ok (getTaproot_sound H tx ps') Sound.pure
      exact this c hc

theorem msgSegwitC_sound (tx : Tx) (ps : List TxOut) (idx : Nat) (sc : Bytes) (v : Value) (ty : EcdsaTy) :
    Sound H tx ps (msgSegwitC H tx idx sc v ty) (msgSegwit H tx idx sc v ty) := by
  unfold msgSegwitC msgSegwit
  have hS := getSegwit_sound H tx ps
  generalize tx.input[idx]? = oi
  refine Sound.bind_ok (Sound.ite_ok Sound.pure (Sound.bind_ok hS Sound.pure)) ?_
  refine Sound.bind_ok (Sound.ite_ok (Sound.bind_ok hS Sound.pure) Sound.pure) ?_
  refine Sound.bind_ok (Sound.ite_ok Sound.pure (Sound.bind_ok hS Sound.pure)) ?_
  cases oi with
  | none => exact Sound.fail
  | some txin =>
    dsimp only
    have hM : Sound H tx ps
        (match tx.output[idx]? with
          | some o => CM.pure (H.sha256d o.enc)
          | none => CM.pure zero32)
        (.ok (match tx.output[idx]? with
          | some o => H.sha256d o.enc
          | none => zero32)) := by
      cases tx.output[idx]? <;> exact Sound.pure
    refine Sound.bind_ok (Sound.ite_ok (Sound.bind_ok hS Sound.pure) (Sound.ite_ok hM Sound.pure)) ?_
    exact Sound.pure


theorem tapInsPartC_sound (tx : Tx) (ps : List TxOut) (pv : Prevouts) (ty : SchnorrTy)
    (hpv : ∀ ps', pv = .all ps' → ps' = ps) :
    Sound H tx ps (tapInsPartC H tx pv ty) (tapInsPart H tx pv ty) := by
  unfold tapInsPartC tapInsPart
  refine Sound.ite Sound.pure (Sound.bind Sound.lift ?_)
  intro ps' hps'
  cases pv with
  | one j p => simp only [Prevouts.getAll] at hps'; cases hps'
  | all ps'' =>
    simp only [Prevouts.getAll, Res.ok.injEq] at hps'
    subst hps'
    obtain rfl := hpv ps'' rfl
    have hT := getTaproot_sound H tx ps''
    have hC := getCommon_sound H tx ps''
    refine Sound.bind_ok hT (Sound.bind_ok hC (Sound.bind_ok hT (Sound.bind_ok hT
      (Sound.bind_ok hC (Sound.bind_ok hC (Sound.bind_ok hT ?_))))))
    exact Sound.pure

theorem tapOutsPartC_sound (tx : Tx) (ps : List TxOut) (pv : Prevouts) (ty : SchnorrTy)
    (hpv : ∀ ps', pv = .all ps' → ps' = ps) :
    Sound H tx ps (tapOutsPartC H tx pv ty) (.ok (tapOutsPart H tx ty)) := by
  unfold tapOutsPartC tapOutsPart
  refine Sound.ite_ok ?_ Sound.pure
  refine Sound.bind_ok (getCommon_sound H tx ps) (Sound.bind_ok (getOutputWitnesses_sound H tx ps pv hpv) ?_)
  exact Sound.pure

theorem msgTaprootC_sound (tx : Tx) (ps : List TxOut) (idx : Nat) (pv : Prevouts) (annex : Option Bytes)
    (leaf : Option (Bytes × Nat)) (ty : SchnorrTy) (g : Bytes)
    (hpv : ∀ ps', pv = .all ps' → ps' = ps) :
    Sound H tx ps (msgTaprootC H tx idx pv annex leaf ty g) (msgTaproot H tx idx pv annex leaf ty g) := by
  unfold msgTaprootC msgTaproot
  refine Sound.bind Sound.lift (fun _ _ => ?_)
  refine Sound.bind (tapInsPartC_sound H tx ps pv ty hpv) (fun pIns _ => ?_)
  refine Sound.bind_ok (tapOutsPartC_sound H tx ps pv ty hpv) ?_
  refine Sound.bind Sound.lift (fun pThis _ => ?_)
  refine Sound.bind Sound.lift (fun pSingle _ => ?_)
  exact Sound.pure


/-! ### `setScriptWitness` changes nothing that is hashed -/

/-- the update `witness_mut` allows -/
def swf (st : List Bytes) (i : TxIn) : TxIn := { i with witness := { i.witness with scriptWitness := st } }

theorem setScriptWitness_def (tx : Tx) (i : Nat) (st : List Bytes) :
    setScriptWitness tx i st = { tx with input := tx.input.modify i (swf st) } := rfl

theorem map_modify_inv {α β} (f : α → α) (g : α → β) (hg : ∀ x, g (f x) = g x) :
    ∀ (l : List α) (i : Nat), (l.modify i f).map g = l.map g
  | [], _ => by simp only [List.modify_nil]
  | a :: l, 0 => by simp only [List.modify_zero_cons, List.map_cons, hg]
  | a :: l, i + 1 => by
    simp only [List.modify_succ_cons, List.map_cons, map_modify_inv f g hg l i]

theorem flatMap_modify_inv {α β} (f : α → α) (g : α → List β) (hg : ∀ x, g (f x) = g x)
    (l : List α) (i : Nat) : (l.modify i f).flatMap g = l.flatMap g := by
  simp only [List.flatMap_def, map_modify_inv f g hg]

theorem mapEnumFrom_modify_inv {α β} (f : α → α) (g : Nat → α → β) (hg : ∀ n x, g n (f x) = g n x) :
    ∀ (l : List α) (i n : Nat), mapEnumFrom g n (l.modify i f) = mapEnumFrom g n l
  | [], _, _ => by simp only [List.modify_nil]
  | a :: l, 0, n => by simp only [List.modify_zero_cons, mapEnumFrom, hg]
  | a :: l, i + 1, n => by
    simp only [List.modify_succ_cons, mapEnumFrom, mapEnumFrom_modify_inv f g hg l i (n + 1)]

section
variable (tx : Tx) (i : Nat) (st : List Bytes)

theorem setScriptWitness_length_aux :
    (setScriptWitness tx i st).input.length = tx.input.length := by
  simp only [setScriptWitness, List.length_modify]

theorem setScriptWitness_getElem? (j : Nat) :
    (setScriptWitness tx i st).input[j]? = (tx.input[j]?).map (fun x => if i = j then swf st x else x) := by
  simp only [setScriptWitness_def, List.getElem?_modify]
  rfl

theorem preOutpoints_ssw : preOutpoints (setScriptWitness tx i st) = preOutpoints tx :=
  flatMap_modify_inv (swf st) (fun i => i.previousOutput.enc) (fun _ => rfl) tx.input i
theorem preSequences_ssw : preSequences (setScriptWitness tx i st) = preSequences tx :=
  flatMap_modify_inv (swf st) (fun i => encLe 4 i.sequence) (fun _ => rfl) tx.input i
theorem preIssuances_ssw : preIssuances (setScriptWitness tx i st) = preIssuances tx :=
  flatMap_modify_inv (swf st) issuanceOrZero (fun _ => rfl) tx.input i
theorem preIssuanceRangeproofs_ssw :
    preIssuanceRangeproofs (setScriptWitness tx i st) = preIssuanceRangeproofs tx :=
  flatMap_modify_inv (swf st) issuanceProofs (fun _ => rfl) tx.input i
theorem preOutpointFlags_ssw : preOutpointFlags (setScriptWitness tx i st) = preOutpointFlags tx :=
  map_modify_inv (swf st) outpointFlag (fun _ => rfl) tx.input i
theorem preOutputs_ssw : preOutputs (setScriptWitness tx i st) = preOutputs tx := rfl
theorem preOutputWitnesses_ssw : preOutputWitnesses (setScriptWitness tx i st) = preOutputWitnesses tx := rfl

theorem commonOf_ssw : commonOf H (setScriptWitness tx i st) = commonOf H tx := by
  simp only [commonOf, preOutpoints_ssw, preSequences_ssw, preIssuances_ssw, preOutputs_ssw]

theorem taprootOf_ssw (ps : List TxOut) : taprootOf H (setScriptWitness tx i st) ps = taprootOf H tx ps := by
  simp only [taprootOf, preOutpointFlags_ssw, preIssuanceRangeproofs_ssw, preOutputWitnesses_ssw]


theorem ssw_output : (setScriptWitness tx i st).output = tx.output := rfl
theorem ssw_version : (setScriptWitness tx i st).version = tx.version := rfl
theorem ssw_lockTime : (setScriptWitness tx i st).lockTime = tx.lockTime := rfl

theorem legacyOuts_ssw (idx : Nat) (b : Base) :
    legacyOuts (setScriptWitness tx i st) idx b = legacyOuts tx idx b := by
  cases b <;> rfl

theorem legacyIns_ssw (idx : Nat) (script : Bytes) (b : Base) :
    mapEnumFrom (legacyIn idx script b) 0 (setScriptWitness tx i st).input =
      mapEnumFrom (legacyIn idx script b) 0 tx.input :=
  mapEnumFrom_modify_inv (swf st) (legacyIn idx script b) (fun _ _ => rfl) tx.input i 0

theorem msgLegacy_ssw (idx : Nat) (script : Bytes) (ty : EcdsaTy) :
    msgLegacy (setScriptWitness tx i st) idx script ty = msgLegacy tx idx script ty := by
  unfold msgLegacy
  simp only [setScriptWitness_length_aux, setScriptWitness_getElem?, ssw_output, ssw_version, ssw_lockTime,
    legacyOuts_ssw, legacyIns_ssw]
  cases tx.input[idx]? with
  | none => rfl
  | some me =>
    simp only [Option.map_some]
    by_cases h : i = idx
    · rw [if_pos h] <;> rfl
    · rw [if_neg h] <;> rfl

theorem legacySighash_ssw (idx : Nat) (script : Bytes) (ty : EcdsaTy) :
    legacySighash H (setScriptWitness tx i st) idx script ty = legacySighash H tx idx script ty := by
  unfold legacySighash
  simp only [setScriptWitness_length_aux, ssw_output, msgLegacy_ssw]

theorem msgSegwit_ssw (idx : Nat) (sc : Bytes) (v : Value) (ty : EcdsaTy) :
    msgSegwit H (setScriptWitness tx i st) idx sc v ty = msgSegwit H tx idx sc v ty := by
  unfold msgSegwit
  simp only [setScriptWitness_getElem?, ssw_output, ssw_version, ssw_lockTime, commonOf_ssw]
  cases tx.input[idx]? with
  | none => rfl
  | some me =>
    simp only [Option.map_some]
    by_cases h : i = idx
    · rw [if_pos h] <;> rfl
    · rw [if_neg h] <;> rfl

theorem checkAll_ssw (pv : Prevouts) : pv.checkAll (setScriptWitness tx i st) = pv.checkAll tx := by
  cases pv <;> simp only [Prevouts.checkAll, setScriptWitness_length_aux]

theorem tapInsPart_ssw (pv : Prevouts) (ty : SchnorrTy) :
    tapInsPart H (setScriptWitness tx i st) pv ty = tapInsPart H tx pv ty := by
  simp only [tapInsPart, tapAllInputs, commonOf_ssw, taprootOf_ssw]

theorem tapOutsPart_ssw (ty : SchnorrTy) :
    tapOutsPart H (setScriptWitness tx i st) ty = tapOutsPart H tx ty := rfl

theorem tapSinglePart_ssw (idx : Nat) (ty : SchnorrTy) :
    tapSinglePart H (setScriptWitness tx i st) idx ty = tapSinglePart H tx idx ty := rfl

theorem tapHead_ssw (ty : SchnorrTy) (g : Bytes) :
    tapHead (setScriptWitness tx i st) ty g = tapHead tx ty g := rfl

theorem tapThisPart_ssw (idx : Nat) (pv : Prevouts) (ty : SchnorrTy) :
    tapThisPart H (setScriptWitness tx i st) idx pv ty = tapThisPart H tx idx pv ty := by
  unfold tapThisPart
  simp only [setScriptWitness_getElem?]
  cases tx.input[idx]? with
  | none => rfl
  | some me =>
    simp only [Option.map_some]
    by_cases h : i = idx
    · rw [if_pos h] <;> rfl
    · rw [if_neg h] <;> rfl

theorem msgTaproot_ssw (idx : Nat) (pv : Prevouts) (annex : Option Bytes)
    (leaf : Option (Bytes × Nat)) (ty : SchnorrTy) (g : Bytes) :
    msgTaproot H (setScriptWitness tx i st) idx pv annex leaf ty g = msgTaproot H tx idx pv annex leaf ty g := by
  simp only [msgTaproot, checkAll_ssw, tapInsPart_ssw, tapOutsPart_ssw, tapSinglePart_ssw, tapHead_ssw,
    tapThisPart_ssw]

end

end EV.Sighash
