/-
  EV.Proofs.Opcodes — finite facts about the generated opcode tables (EV.Model.Opcodes).  Each fact is one
  pass over a 256-entry table, checked by kernel evaluation (`decide +kernel`), and then transferred to
  `∀ b : UInt8` by `classify_of_tableAll` / `getD_of_all_zipIdx` (indexing a long literal list inside a
  quantifier is what is slow in the kernel, a single traversal is not).
-/
import EV.Model.Opcodes
namespace EV.Proofs.Opcodes
open EV EV.Opcodes EV.Gen

theorem forall_u8 {P : UInt8 → Prop} (h : ∀ i : Fin 256, P (UInt8.ofNat i.val)) : ∀ b, P b := by
  intro b
  have := h ⟨b.toNat, b.toNat_lt⟩
  simpa using this

/-- `∀ b : UInt8` is decidable by running through the 256 values -/
instance decForallU8 (p : UInt8 → Prop) [DecidablePred p] : Decidable (∀ b, p b) :=
  decidable_of_iff (∀ i : Fin 256, p (UInt8.ofNat i.val)) ⟨forall_u8, fun h _ => h _⟩

theorem getD_of_all_zipIdx {α} {l : List α} {f : α × Nat → Bool} (h : l.zipIdx.all f = true) (d : α) {i : Nat}
    (hi : i < l.length) : f (l.getD i d, i) = true := by
  have hm : (l[i], i) ∈ l.zipIdx := by
    rw [List.mem_zipIdx_iff_getElem?]
    simp [hi]
  have := List.all_eq_true.mp h _ hm
  have e : l.getD i d = l[i] := by simp [List.getD, hi]
  rw [e]; exact this

/-! ## a cheap key for comparing texts -/

/-- digits in base 2^21 (no claim of injectivity is needed: equal texts have equal keys) -/
def key (cs : List Char) : Nat := cs.foldl (fun a c => a * 2097152 + c.toNat) 1

theorem index_eq_of_keys_nodup {l : List (List Char)} (h : (l.map key).Nodup) {i j : Nat} (hi : i < l.length)
    (hj : j < l.length) (e : l[i] = l[j]) : i = j := by
  have hp : List.Pairwise (fun a b => key a ≠ key b) l := List.pairwise_map.mp (List.nodup_iff_pairwise_ne.mp h)
  have hg := List.pairwise_iff_getElem.mp hp
  rcases Nat.lt_trichotomy i j with c | c | c
  · exact absurd (by rw [e]) (hg i j hi hj c)
  · exact c
  · exact absurd (by rw [e]) (hg j i hj hi c)

/-! ## names -/

theorem opNameTable_length : opNameTable.length = 256 := by decide +kernel
theorem opNameTable_keys_nodup : (opNameTable.map key).Nodup := by decide +kernel
/-- the text of every opcode is the identifier of its constant in `mod all` (what the crate's own unit test
    `str_roundtrip` asserts) -/
theorem opNameTable_eq_constNames : opNameTable = opConstNames := by decide +kernel

theorem name_eq_getElem (b : UInt8) : name b = opNameTable[b.toNat]'(by rw [opNameTable_length]; exact b.toNat_lt) := by
  have : b.toNat < opNameTable.length := by rw [opNameTable_length]; exact b.toNat_lt
  simp [name, List.getD, this]

theorem name_injective {a b : UInt8} (h : name a = name b) : a = b := by
  rw [name_eq_getElem, name_eq_getElem] at h
  exact UInt8.toNat_inj.mp (index_eq_of_keys_nodup opNameTable_keys_nodup _ _ h)

/-! ## classification: one pass over a table -/

theorem classTable_length (ctx : Ctx) : (classTable ctx).length = 256 := by cases ctx <;> decide +kernel

/-- `P code class` holds for every entry of the table of `ctx` -/
def tableAll (ctx : Ctx) (P : Nat → Option Class → Bool) : Bool :=
  (classTable ctx).zipIdx.all fun e => P e.2 (decodeClass e.1)

theorem classify_of_tableAll {ctx : Ctx} {P : Nat → Option Class → Bool} (h : tableAll ctx P = true) (b : UInt8) :
    P b.toNat (classify ctx b) = true := by
  have hi : b.toNat < (classTable ctx).length := by rw [classTable_length]; exact b.toNat_lt
  exact getD_of_all_zipIdx (f := fun e => P e.2 (decodeClass e.1)) h (7, 0) hi

/-- the byte of a table index -/
abbrev B (n : Nat) : UInt8 := UInt8.ofNat n

theorem B_toNat (b : UInt8) : B b.toNat = b := UInt8.ofNat_toNat

def isPushBytes : Option Class → Bool
  | some (.pushBytes _) => true
  | _ => false
def isPushNum : Option Class → Bool
  | some (.pushNum _) => true
  | _ => false
def isOrdinary : Option Class → Bool
  | some (.ordinary _) => true
  | _ => false

theorem eq_arms_pass (ctx : Ctx) : tableAll ctx (fun n c => decide (c = classifyArms ctx (B n))) = true := by
  cases ctx <;> decide +kernel

theorem classify_eq_arms (ctx : Ctx) (b : UInt8) : classify ctx b = classifyArms ctx b := by
  have := classify_of_tableAll (eq_arms_pass ctx) b
  rw [B_toNat] at this
  exact of_decide_eq_true this

theorem legacy_total_pass : tableAll .legacy (fun _ c => c.isSome) = true := by decide +kernel

theorem tapscript_none_pass : tableAll .tapScript (fun n c => decide (c = none ↔
    (B n = opChecksigadd ∨ B n = opReturn192 ∨ (opSha256initialize ≤ B n ∧ B n ≤ opTweakverify)))) = true := by
  decide +kernel

theorem pushBytes_pass (ctx : Ctx) : tableAll ctx (fun n c =>
    if B n ≤ opPushbytes75 then c == some (.pushBytes n) else !isPushBytes c) = true := by
  cases ctx <;> decide +kernel

theorem pushNum_pass (ctx : Ctx) : tableAll ctx (fun n c =>
    if B n = opPushnumNeg1 then c == some (.pushNum (-1))
    else if opPushnum1 ≤ B n ∧ B n ≤ opPushnum16 then c == some (.pushNum (Int.ofNat n - Int.ofNat opPushnum1.toNat + 1))
    else !isPushNum c) = true := by
  cases ctx <;> decide +kernel

/-- the opcodes that are in the `ordinary_opcode!` list but are classified otherwise in a context -/
def ordinaryElsewhere : Ctx → List UInt8
  | .legacy => [opCat, opSubstr, opLeft, opRight, opInvert, opAnd, opOr, opXor, opLshift, opRshift,
                opChecksigfromstack, opChecksigfromstackverify, opSubstrLazy]
  | .tapScript => [opCheckmultisig, opCheckmultisigverify]

theorem ordinary_pass (ctx : Ctx) : tableAll ctx (fun n c =>
    (if ordinaryOpcodes.contains (B n) && !(ordinaryElsewhere ctx).contains (B n) then c == some (.ordinary (B n))
     else !isOrdinary c)) = true := by
  cases ctx <;> decide +kernel

theorem legacy_classes_pass : tableAll .legacy (fun n c =>
    decide ((c = some .returnOp ↔ (B n = opReturn ∨ B n = opReserved ∨ B n = opReserved1 ∨ B n = opReserved2 ∨
        B n = opVer ∨ (opChecksigadd ≤ B n ∧ B n ≠ opInvalidopcode))) ∧
      (c = some .illegalOp ↔ B n ∈ [opVerif, opVernotif, opInvalidopcode, opCat, opSubstr, opLeft, opRight, opInvert,
        opAnd, opOr, opXor, op2mul, op2div, opMul, opDiv, opMod, opLshift, opRshift]) ∧
      (c = some .noOp ↔ (B n = opNop ∨ (opNop1 ≤ B n ∧ B n ≤ opNop10))) ∧
      c ≠ some .successOp)) = true := by
  decide +kernel

theorem tapscript_classes_pass : tableAll .tapScript (fun n c =>
    decide ((c = some .returnOp ↔ (B n = opReturn ∨ B n = opCheckmultisig ∨ B n = opCheckmultisigverify)) ∧
      (c = some .illegalOp ↔ (B n = opVerif ∨ B n = opVernotif ∨ B n = opInvalidopcode)) ∧
      (c = some .noOp ↔ (B n = opNop ∨ (opNop1 ≤ B n ∧ B n ≤ opNop10))) ∧
      (c = some .successOp ↔ (n = 80 ∨ n = 98 ∨ (137 ≤ n ∧ n ≤ 138) ∨ (141 ≤ n ∧ n ≤ 142) ∨ (149 ≤ n ∧ n ≤ 151) ∨
        (187 ≤ n ∧ n ≤ 191) ∨ (229 ≤ n ∧ n ≤ 254))))) = true := by
  decide +kernel

/-- how many byte values fall in each class: (PushNum, PushBytes, ReturnOp, SuccessOp, IllegalOp, NoOp, Ordinary, panic) -/
def classCounts (ctx : Ctx) : List Nat :=
  let cs := (classTable ctx).map decodeClass
  [cs.countP isPushNum, cs.countP isPushBytes, cs.count (some .returnOp), cs.count (some .successOp),
   cs.count (some .illegalOp), cs.count (some .noOp), cs.countP isOrdinary, cs.count none]

theorem classCounts_eq : classCounts .legacy = [17, 76, 74, 0, 18, 11, 60, 0] ∧
    classCounts .tapScript = [17, 76, 3, 40, 3, 11, 71, 35] := by decide +kernel

/-! ## `try_from_all` -/

theorem tryFromAll_eq (b : UInt8) : tryFromAll b = if b ∈ ordinaryOpcodes then some b else none := by
  unfold tryFromAll
  cases h : ordinaryOpcodes.find? (· == b) with
  | none =>
    have := List.find?_eq_none.mp h
    have hn : b ∉ ordinaryOpcodes := fun hm => by simpa using this b hm
    simp [hn]
  | some x =>
    have hx : x = b := by simpa using List.find?_some h
    have hm : x ∈ ordinaryOpcodes := List.mem_of_find?_eq_some h
    subst hx
    simp [hm]

end EV.Proofs.Opcodes
