/-
  Control-block codec laws and the hash-binding lemmas of taproot commitments
  (model: EV.Model.Taproot).  Hash functions are parameters; binding is stated with explicit
  collision disjuncts.
-/
import EV.Model.Taproot
import EV.Proofs.CodecPrim
import EV.Proofs.TaprootBuilder
namespace EV.Proofs.TaprootCb
open EV EV.Codec EV.Taproot EV.Proofs.TaprootBuilder

/-- two different inputs with the same digest -/
def Collision (f : Bytes → Bytes) : Prop := ∃ x y, x ≠ y ∧ f x = f y
/-- a digest of `f` equal to a digest of `g` (leaf / branch domain separation broken) -/
def Cross (f g : Bytes → Bytes) : Prop := ∃ x y, f x = g y

/-- leaf and branch digests are 32 bytes long -/
structure Len32 (H : TapHashes) : Prop where
  leaf : ∀ x, (H.leaf x).length = 32
  branch : ∀ x, (H.branch x).length = 32

/-- scripts are shorter than 2^64 bytes (compact-size range) and hidden hashes have 32 bytes -/
def ScriptsOk : Tree → Prop
  | .leaf s _ => s.length < 2 ^ 64
  | .hidden h => h.length = 32
  | .node l r => ScriptsOk l ∧ ScriptsOk r

/-- `(script, ver, branch)` is a genuine opening of the tree: the branch is the sibling path of a leaf
    with exactly that script and version, or it ends in (hashes to) a hidden node -/
def Opens (H : TapHashes) : Tree → Bytes → UInt8 → List Bytes → Prop
  | .leaf s v, s', v', b => s = s' ∧ v = v' ∧ b = []
  | .hidden h, s', v', b => ControlBlock.computeRoot H s' v' b = h
  | .node l r, s', v', b =>
    ∃ b' e, b = b' ++ [e] ∧
      ((e = r.merkleRoot H ∧ Opens H l s' v' b') ∨ (e = l.merkleRoot H ∧ Opens H r s' v' b'))

variable (H : TapHashes)

/-! ### constants -/
theorem nodeSize_eq : nodeSize = 32 := rfl
theorem baseSize_eq : baseSize = 33 := rfl
theorem leafMask_eq : leafMask = 254 := rfl

/-! ### injectivity of the hash preimages -/

theorem leafPreimage_inj (s s' : Bytes) (v v' : UInt8) (hs : s.length < 2 ^ 64) (hs' : s'.length < 2 ^ 64)
    (h : leafPreimage s v = leafPreimage s' v') : s = s' ∧ v = v' := by
  simp only [leafPreimage, encBytesVec, List.cons.injEq] at h
  obtain ⟨hv, ht⟩ := h
  have := CodecPrim.enc_prefix_free CodecPrim.varint_lawful s.length s'.length s s' hs hs' ht
  exact ⟨this.2, hv⟩

/-- the sorted 64-byte pair determines the unordered pair -/
theorem sortedPair_inj (a b c d : Bytes) (ha : a.length = 32) (hb : b.length = 32) (hc : c.length = 32)
    (hd : d.length = 32) (h : sortedPair a b = sortedPair c d) : (a = c ∧ b = d) ∨ (a = d ∧ b = c) := by
  unfold sortedPair at h
  split at h <;> split at h
  · exact Or.inl (List.append_inj h (by omega))
  · exact Or.inr (List.append_inj h (by omega))
  · have := List.append_inj h (by omega)
    exact Or.inr ⟨this.2, this.1⟩
  · have := List.append_inj h (by omega)
    exact Or.inl ⟨this.2, this.1⟩

theorem merkleRoot_len (L : Len32 H) (t : Tree) (ht : ScriptsOk t) : (t.merkleRoot H).length = 32 := by
  cases t with
  | leaf s v => exact L.leaf _
  | hidden h => exact ht
  | node l r => exact L.branch _

private theorem foldl_len (L : Len32 H) (b : List Bytes) : ∀ (init : Bytes), init.length = 32 →
    (b.foldl (fun cur e => branchHash H cur e) init).length = 32 := by
  induction b with
  | nil => intro init hi; exact hi
  | cons e b ih => intro init _; exact ih _ (L.branch _)

theorem computeRoot_len (L : Len32 H) (s : Bytes) (v : UInt8) (b : List Bytes) :
    (ControlBlock.computeRoot H s v b).length = 32 :=
  foldl_len H L b _ (L.leaf _)

/-- equal tweak hashes commit to the same (internal key, merkle root) -/
theorem tweakHash_inj (k k' r r' : Bytes) (hk : k.length = 32) (hk' : k'.length = 32)
    (h : tweakHash H k (some r) = tweakHash H k' (some r')) : (k = k' ∧ r = r') ∨ Collision H.tweak := by
  simp only [tweakHash, Option.getD_some] at h
  by_cases he : k ++ r = k' ++ r'
  · exact Or.inl (List.append_inj he (by omega))
  · exact Or.inr ⟨_, _, he, h⟩

/-- a key-path-only tweak (no root) and a script-tree tweak never coincide unless `H.tweak` collides
    (the root is 32 bytes, so the preimages have different lengths) -/
theorem tweakHash_none_some (k k' r : Bytes) (hr : r.length = 32) (hk : k.length = 32) (hk' : k'.length = 32)
    (h : tweakHash H k none = tweakHash H k' (some r)) : Collision H.tweak := by
  simp only [tweakHash, Option.getD_some, Option.getD_none] at h
  refine ⟨_, _, ?_, h⟩
  intro he
  have := congrArg List.length he
  simp only [List.length_append, List.length_nil] at this
  omega

/-- the commitment is binding: a (script, version, path) that recomputes the root of `t` is a genuine
    opening of `t`, or one of the tagged hashes collides -/
theorem opens_of_root_eq (L : Len32 H) (t : Tree) : ∀ (s : Bytes) (v : UInt8) (b : List Bytes),
    ScriptsOk t → s.length < 2 ^ 64 → (∀ e ∈ b, e.length = 32) →
    ControlBlock.computeRoot H s v b = t.merkleRoot H →
    Opens H t s v b ∨ Collision H.leaf ∨ Collision H.branch ∨ Cross H.leaf H.branch := by
  induction t with
  | leaf s0 v0 =>
    intro s v b ht hs _ h
    rcases List.eq_nil_or_concat b with rfl | ⟨b', e, rfl⟩
    · simp only [ControlBlock.computeRoot, List.foldl_nil, Tree.merkleRoot, leafHash] at h
      by_cases hp : leafPreimage s v = leafPreimage s0 v0
      · obtain ⟨h1, h2⟩ := leafPreimage_inj s s0 v v0 hs ht hp
        exact Or.inl ⟨h1.symm, h2.symm, rfl⟩
      · exact Or.inr (Or.inl ⟨_, _, hp, h⟩)
    · rw [List.concat_eq_append, computeRoot_append] at h
      simp only [Tree.merkleRoot, leafHash, branchHash] at h
      exact Or.inr (Or.inr (Or.inr ⟨_, _, h.symm⟩))
  | hidden h0 =>
    intro s v b _ _ _ h
    exact Or.inl h
  | node l r ihl ihr =>
    intro s v b ht hs hb h
    rcases List.eq_nil_or_concat b with rfl | ⟨b', e, rfl⟩
    · simp only [ControlBlock.computeRoot, List.foldl_nil, Tree.merkleRoot, leafHash, branchHash] at h
      exact Or.inr (Or.inr (Or.inr ⟨_, _, h⟩))
    · rw [List.concat_eq_append] at h hb ⊢
      rw [computeRoot_append] at h
      simp only [Tree.merkleRoot, branchHash] at h
      have hb' : ∀ x ∈ b', x.length = 32 := fun x hx => hb x (List.mem_append_left _ hx)
      have he : e.length = 32 := hb e (List.mem_append_right _ (List.mem_singleton.mpr rfl))
      by_cases hp : sortedPair (ControlBlock.computeRoot H s v b') e =
          sortedPair (l.merkleRoot H) (r.merkleRoot H)
      · rcases sortedPair_inj _ _ _ _ (computeRoot_len H L s v b') he
            (merkleRoot_len H L l ht.1) (merkleRoot_len H L r ht.2) hp with ⟨h1, h2⟩ | ⟨h1, h2⟩
        · rcases ihl s v b' ht.1 hs hb' h1 with ho | hc
          · exact Or.inl ⟨b', e, rfl, Or.inl ⟨h2, ho⟩⟩
          · exact Or.inr hc
        · rcases ihr s v b' ht.2 hs hb' h1 with ho | hc
          · exact Or.inl ⟨b', e, rfl, Or.inr ⟨h2, ho⟩⟩
          · exact Or.inr hc
      · exact Or.inr (Or.inr (Or.inl ⟨_, _, hp, h⟩))

/-- for a tree without hidden nodes the genuine openings are exactly its leaves with their paths -/
theorem opens_mem_leaves (t : Tree) (hn : t.noHidden = true) : ∀ (s : Bytes) (v : UInt8) (b : List Bytes),
    Opens H t s v b → (⟨s, v, b⟩ : LeafInfo) ∈ (info H t).leaves := by
  induction t with
  | leaf s0 v0 =>
    intro s v b ho
    obtain ⟨rfl, rfl, rfl⟩ := ho
    simp only [info, newLeaf, List.mem_singleton]
  | hidden h0 => simp only [Tree.noHidden] at hn; cases hn
  | node l r ihl ihr =>
    intro s v b ho
    simp only [Tree.noHidden, Bool.and_eq_true] at hn
    obtain ⟨b', e, rfl, ho⟩ := ho
    simp only [info, List.mem_append, List.mem_map]
    rcases ho with ⟨rfl, ho⟩ | ⟨rfl, ho⟩
    · exact Or.inl ⟨_, ihl hn.1 s v b' ho, by rw [info_hash]⟩
    · exact Or.inr ⟨_, ihr hn.2 s v b' ho, by rw [info_hash]⟩
theorem mem_leaves_opens (t : Tree) : ∀ (s : Bytes) (v : UInt8) (b : List Bytes),
    (⟨s, v, b⟩ : LeafInfo) ∈ (info H t).leaves → Opens H t s v b := by
  induction t with
  | leaf s0 v0 =>
    intro s v b hm
    simp only [info, newLeaf, List.mem_singleton, LeafInfo.mk.injEq] at hm
    obtain ⟨rfl, rfl, rfl⟩ := hm
    exact ⟨rfl, rfl, rfl⟩
  | hidden h0 =>
    intro s v b hm
    simp only [info, newHidden, List.not_mem_nil] at hm
  | node l r ihl ihr =>
    intro s v b hm
    simp only [info, List.mem_append, List.mem_map] at hm
    rcases hm with ⟨x, hx, he⟩ | ⟨x, hx, he⟩
    · obtain ⟨xs, xv, xb⟩ := x
      simp only [LeafInfo.mk.injEq] at he
      obtain ⟨rfl, rfl, rfl⟩ := he
      exact ⟨xb, _, rfl, Or.inl ⟨info_hash H r, ihl _ _ _ hx⟩⟩
    · obtain ⟨xs, xv, xb⟩ := x
      simp only [LeafInfo.mk.injEq] at he
      obtain ⟨rfl, rfl, rfl⟩ := he
      exact ⟨xb, _, rfl, Or.inr ⟨info_hash H l, ihr _ _ _ hx⟩⟩

/-! ### control block codec -/

theorem chunks_flatten (l : List Bytes) (hl : ∀ h ∈ l, h.length = nodeSize) :
    ControlBlock.chunks l.length l.flatten = l := by
  induction l with
  | nil => rfl
  | cons a l ih =>
    have ha : a.length = nodeSize := hl a (List.mem_cons_self ..)
    have hl' : ∀ h ∈ l, h.length = nodeSize := fun h hh => hl h (List.mem_cons_of_mem _ hh)
    simp only [List.length_cons, List.flatten_cons, ControlBlock.chunks, List.take_left' ha,
      List.drop_left' ha, ih hl']
theorem flatten_length (l : List Bytes) (hl : ∀ h ∈ l, h.length = nodeSize) :
    l.flatten.length = nodeSize * l.length := by
  induction l with
  | nil => rfl
  | cons a l ih =>
    have ha : a.length = nodeSize := hl a (List.mem_cons_self ..)
    have hl' : ∀ h ∈ l, h.length = nodeSize := fun h hh => hl h (List.mem_cons_of_mem _ hh)
    simp only [List.length_cons, List.flatten_cons, List.length_append, ih hl', ha, Nat.mul_succ]
    omega
theorem chunks_spec (n : Nat) (bs : Bytes) (h : bs.length = nodeSize * n) :
    (ControlBlock.chunks n bs).flatten = bs ∧ (ControlBlock.chunks n bs).length = n ∧
    ∀ c ∈ ControlBlock.chunks n bs, c.length = nodeSize := by
  induction n generalizing bs with
  | zero =>
    have : bs = [] := List.eq_nil_of_length_eq_zero (by simpa using h)
    subst this
    simp [ControlBlock.chunks]
  | succ n ih =>
    rw [Nat.mul_succ] at h
    have hd : (bs.drop nodeSize).length = nodeSize * n := by
      rw [List.length_drop]; omega
    obtain ⟨h1, h2, h3⟩ := ih _ hd
    refine ⟨?_, ?_, ?_⟩
    · simp only [ControlBlock.chunks, List.flatten_cons, h1, List.take_append_drop]
    · simp only [ControlBlock.chunks, List.length_cons, h2]
    · intro c hc
      simp only [ControlBlock.chunks, List.mem_cons] at hc
      rcases hc with rfl | hc
      · rw [List.length_take]; omega
      · exact h3 c hc

private theorem split_nat : ∀ n, n < 256 → ∀ p, p < 2 → (n &&& 254 = n) →
    ((p ||| n) % 256) &&& 1 = p ∧ ((p ||| n) % 256) &&& 254 = n := by decide +kernel
private theorem join_nat : ∀ n, n < 256 →
    ((if (n &&& 1 == 1) then 1 else 0) ||| ((n &&& 254) % 256)) % 256 = n := by decide +kernel

/-- the first byte: parity bit and leaf version separate again -/
theorem first_byte_split (v : UInt8) (p : Bool) (hv : leafVersionOk v = true) :
    let b0 := UInt8.ofNat ((if p then 1 else 0) ||| v.toNat)
    (b0.toNat &&& 1 == 1) = p ∧ UInt8.ofNat (b0.toNat &&& leafMask) = v := by
  intro b0
  simp only [leafVersionOk, Bool.and_eq_true, beq_iff_eq, leafMask_eq] at hv
  have hlt : v.toNat < 256 := UInt8.toNat_lt v
  have hp : (if p then 1 else 0) < 2 := by cases p <;> decide
  obtain ⟨h1, h2⟩ := split_nat v.toNat hlt (if p then 1 else 0) hp hv.1
  have hb : b0.toNat = ((if p then 1 else 0) ||| v.toNat) % 256 := UInt8.toNat_ofNat'
  rw [hb, leafMask_eq, h1, h2]
  refine ⟨?_, UInt8.ofNat_toNat⟩
  cases p <;> rfl
theorem first_byte_join (b0 : UInt8) :
    UInt8.ofNat ((if (b0.toNat &&& 1 == 1) then 1 else 0) ||| (UInt8.ofNat (b0.toNat &&& leafMask)).toNat) = b0 := by
  have hlt : b0.toNat < 256 := UInt8.toNat_lt b0
  have h := join_nat b0.toNat hlt
  apply UInt8.toNat_inj.mp
  rw [UInt8.toNat_ofNat', UInt8.toNat_ofNat', leafMask_eq]
  exact h

theorem encode_length (E : EC) (cb : ControlBlock) (hw : cb.wf E) : cb.encode.length = cb.size := by
  obtain ⟨_, hk, _, _, hb⟩ := hw
  simp only [ControlBlock.encode, ControlBlock.size, List.length_cons, List.length_append, hk,
    flatten_length _ hb, baseSize_eq]
  omega
theorem size_eq (cb : ControlBlock) : cb.size = 33 + 32 * cb.branch.length := by
  simp only [ControlBlock.size, baseSize_eq, nodeSize_eq]

private theorem branchFromSlice_ok (sl : Bytes) (br : List Bytes)
    (h : ControlBlock.branchFromSlice sl = .ok br) :
    br.flatten = sl ∧ br.length ≤ maxDepth ∧ (∀ c ∈ br, c.length = nodeSize) ∧
      sl.length = nodeSize * br.length := by
  unfold ControlBlock.branchFromSlice at h
  split at h
  · cases h
  · rename_i hm
    split at h
    · cases h
    · rename_i hd
      simp only [Res.ok.injEq] at h
      subst h
      simp only [bne_iff_ne, ne_eq, Decidable.not_not] at hm
      have hlen : sl.length = nodeSize * (sl.length / nodeSize) := by
        have := Nat.div_add_mod sl.length nodeSize
        omega
      obtain ⟨h1, h2, h3⟩ := chunks_spec _ sl hlen
      refine ⟨h1, ?_, h3, ?_⟩
      · rw [h2]; exact Nat.div_le_of_le_mul (by omega)
      · rw [h2]; exact hlen

private theorem branchFromSlice_flatten (br : List Bytes) (hl : br.length ≤ maxDepth)
    (hb : ∀ h ∈ br, h.length = nodeSize) : ControlBlock.branchFromSlice br.flatten = .ok br := by
  have hlen := flatten_length br hb
  have hpos : 0 < nodeSize := by rw [nodeSize_eq]; decide
  have h1 : br.flatten.length % nodeSize = 0 := by rw [hlen]; exact Nat.mul_mod_right _ _
  have h2 : ¬ br.flatten.length > nodeSize * maxDepth := by
    rw [hlen]; exact Nat.not_lt.mpr (Nat.mul_le_mul_left _ hl)
  have h3 : br.flatten.length / nodeSize = br.length := by
    rw [hlen]; exact Nat.mul_div_cancel_left _ hpos
  unfold ControlBlock.branchFromSlice
  rw [h1, if_neg h2, h3, chunks_flatten br hb]
  rfl

private theorem branchFromSlice_no_panic (sl : Bytes) (s : String) :
    ControlBlock.branchFromSlice sl ≠ .panic s := by
  unfold ControlBlock.branchFromSlice
  split
  · intro h; cases h
  · split <;> (intro h; cases h)

/-- `from_slice (serialize cb) = Ok cb` -/
theorem decode_encode (E : EC) (cb : ControlBlock) (hw : cb.wf E) : ControlBlock.decode E cb.encode = .ok cb := by
  have hlen := encode_length E cb hw
  obtain ⟨hv, hk, hx, hd, hb⟩ := hw
  obtain ⟨hs1, hs2⟩ := first_byte_split cb.leafVersion cb.parity hv
  have hfl := flatten_length _ hb
  rw [ControlBlock.size, baseSize_eq] at hlen
  have hc1 : ¬ (cb.encode.length < baseSize) := by rw [hlen, baseSize_eq]; omega
  have hc2 : (cb.encode.length - baseSize) % nodeSize = 0 := by
    rw [hlen, baseSize_eq, Nat.add_sub_cancel_left]; exact Nat.mul_mod_right _ _
  unfold ControlBlock.decode
  have hcond : (decide (cb.encode.length < baseSize) || (cb.encode.length - baseSize) % nodeSize != 0) = false := by
    simp only [hc1, hc2, decide_false, Bool.false_or, bne_self_eq_false]
  rw [hcond]
  simp only [ControlBlock.encode, Bool.false_eq_true, if_false]
  have hk' : cb.internalKey.length = baseSize - 1 := by rw [hk, baseSize_eq]
  rw [hs1, hs2, hv, List.take_left' hk', List.drop_left' hk', hk, hx,
    branchFromSlice_flatten _ hd hb]
  simp

/-- `serialize (from_slice bs) = bs`, and whatever decodes is well formed -/
theorem encode_decode (E : EC) (bs : Bytes) (cb : ControlBlock) (h : ControlBlock.decode E bs = .ok cb) :
    cb.encode = bs ∧ cb.wf E := by
  unfold ControlBlock.decode at h
  split at h
  · cases h
  · rename_i hc
    simp only [Bool.or_eq_true, decide_eq_true_eq, not_or, Nat.not_lt] at hc
    cases bs with
    | nil => cases h
    | cons b0 rest =>
      simp only at h
      split at h
      · cases h
      · rename_i hv
        split at h
        · cases h
        · rename_i hkx
          simp only [Bool.not_eq_true, Bool.not_eq_false', Bool.and_eq_true, beq_iff_eq] at hv hkx
          cases hbr : ControlBlock.branchFromSlice (rest.drop (baseSize - 1)) with
          | ok br =>
            rw [hbr] at h
            simp only [Res.ok.injEq] at h
            subst h
            obtain ⟨h1, h2, h3, _⟩ := branchFromSlice_ok _ _ hbr
            refine ⟨?_, hv, hkx.1, hkx.2, h2, h3⟩
            simp only [ControlBlock.encode, first_byte_join, h1, List.take_append_drop]
          | err e => rw [hbr] at h; cases h
          | panic s => rw [hbr] at h; cases h

theorem decode_no_panic (E : EC) (bs : Bytes) (s : String) : ControlBlock.decode E bs ≠ .panic s := by
  intro h
  unfold ControlBlock.decode at h
  split at h
  · cases h
  · rename_i hc
    simp only [Bool.or_eq_true, decide_eq_true_eq, not_or, Nat.not_lt] at hc
    cases bs with
    | nil =>
      rw [baseSize_eq] at hc
      simp only [List.length_nil] at hc
      omega
    | cons b0 rest =>
      simp only at h
      split at h
      · cases h
      · split at h
        · cases h
        · cases hbr : ControlBlock.branchFromSlice (rest.drop (baseSize - 1)) with
          | ok br => rw [hbr] at h; cases h
          | err e => rw [hbr] at h; cases h
          | panic s' => exact branchFromSlice_no_panic _ _ hbr

/-- accepted lengths are exactly 33 + 32·m with m ≤ 128 -/
theorem decode_length (E : EC) (bs : Bytes) (cb : ControlBlock) (h : ControlBlock.decode E bs = .ok cb) :
    bs.length = 33 + 32 * cb.branch.length ∧ cb.branch.length ≤ maxDepth := by
  obtain ⟨he, hw⟩ := encode_decode E bs cb h
  have := encode_length E cb hw
  rw [he, size_eq] at this
  exact ⟨this, hw.2.2.2.1⟩

end EV.Proofs.TaprootCb
