/-
  Laws of the PSET value codecs (EV.Model.PsetCodec): every codec is idempotent (re-reading a
  canonical value gives it back) and never lengthens a value; hence every field of the three tables
  satisfies `FieldLaw`, and the tables have pairwise distinct tags (`TableOk`).
-/
import EV.Model.PsetTables
import EV.Proofs.PsetWireMap
import EV.Proofs.PsetWireTap
namespace EV.Proofs.PsetWireCodec
open EV EV.Codec EV.PsetWire EV.Proofs.CodecPrim EV.Proofs.PsetWireMap

def CodecLaw (c : VCodec) : Prop := ∀ k v x, c k v = some x → c k x = some x ∧ x.length ≤ v.length

theorem accept_some {p : Bytes → Bool} {k v x : Bytes} (h : accept p k v = some x) : p v = true ∧ x = v := by
  unfold accept at h
  split at h
  · rename_i hp
    simp only [Option.some.injEq] at h
    exact ⟨hp, h.symm⟩
  · cases h

theorem accept_of {p : Bytes → Bool} (k v : Bytes) (h : p v = true) : accept p k v = some v := by
  unfold accept; rw [if_pos h]

theorem accept_law (p : Bytes → Bool) : CodecLaw (accept p) := by
  intro k v x h
  obtain ⟨hp, rfl⟩ := accept_some h
  exact ⟨accept_of _ _ hp, Nat.le_refl _⟩

theorem cAny_law : CodecLaw cAny := accept_law _
theorem cLen_law (n : Nat) : CodecLaw (cLen n) := accept_law _
theorem cHeight_law : CodecLaw cHeight := accept_law _
theorem cTime_law : CodecLaw cTime := accept_law _
theorem cEmpty_law : CodecLaw cEmpty := accept_law _

theorem cPreimage_law (h : Bytes → Bytes) : CodecLaw (cPreimage h) := by
  intro k v x hx
  unfold cPreimage at hx
  split at hx
  · rename_i e
    simp only [Option.some.injEq] at hx
    subst hx
    exact ⟨by unfold cPreimage; rw [if_pos e], Nat.le_refl _⟩
  · cases hx

theorem countNorm_law : CodecLaw countNorm := by
  intro k v x hx
  unfold countNorm at hx
  cases hv : varint v with
  | ok q =>
    obtain ⟨n, r⟩ := q
    rw [hv] at hx
    simp only [Option.some.injEq] at hx
    subst hx
    obtain ⟨e, hn⟩ := varint_lawful.sound _ _ _ hv
    have hc := varint_lawful.complete n [] hn
    rw [List.append_nil] at hc
    refine ⟨by unfold countNorm; rw [hc], ?_⟩
    rw [e]
    simp
  | err e => rw [hv] at hx; cases hx
  | panic s => rw [hv] at hx; cases hx

theorem schnorrNorm_law : CodecLaw schnorrNorm := by
  intro k v x hx
  unfold schnorrNorm at hx
  split at hx
  · rename_i h64
    simp only [Option.some.injEq] at hx
    subst hx
    exact ⟨by unfold schnorrNorm; rw [if_pos h64], Nat.le_refl _⟩
  · rename_i h64
    split at hx
    · rename_i h65
      simp only at hx
      split at hx
      · rename_i hmem
        split at hx
        · simp only [Option.some.injEq] at hx
          subst hx
          have hl : (v.take 64).length = 64 := by simp [List.length_take]; omega
          exact ⟨by unfold schnorrNorm; rw [if_pos hl], by rw [hl]; omega⟩
        · rename_i hne
          simp only [Option.some.injEq] at hx
          subst hx
          refine ⟨?_, Nat.le_refl _⟩
          unfold schnorrNorm
          rw [if_neg h64, if_pos h65]
          simp only [hmem, if_true, if_neg hne]
      · cases hx
    · cases hx

/-- the tap-tree codec accepts only canonical encodings (`EV.Proofs.PsetWireTap`) -/
theorem tapTreeNorm_law (W : WirePrims) : CodecLaw (tapTreeNorm W) := by
  intro k v x hx
  have e := EV.Proofs.PsetWireTap.tapTreeNorm_canonical W k v x hx
  subst e
  refine ⟨?_, Nat.le_refl _⟩
  have : tapTreeNorm W k x = tapTreeNorm W [] x := rfl
  exact hx

/-! ### fields -/

theorem fieldLaw_fOpt (n : String) (t : Tag) (c : VCodec) : FieldLaw (fOpt n t c) ↔ CodecLaw c := Iff.rfl
theorem fieldLaw_fOptLast (n : String) (t : Tag) (c : VCodec) : FieldLaw (fOptLast n t c) ↔ CodecLaw c := Iff.rfl
theorem fieldLaw_fMap (n : String) (t : Tag) (vk : Bytes → Bool) (c : VCodec) (lt : Bytes → Bytes → Bool) :
    FieldLaw (fMap n t vk c lt) ↔ CodecLaw c := Iff.rfl
theorem fieldLaw_fKeyList (n : String) (t : Tag) (vk : Bytes → Bool) : FieldLaw (fKeyList n t vk) ↔ CodecLaw cEmpty := Iff.rfl

/-- discharge `CodecLaw` for one table entry -/
macro "codec_law" : tactic =>
  `(tactic| first
    | exact cAny_law | exact cLen_law _ | exact cHeight_law | exact cTime_law | exact cEmpty_law
    | exact schnorrNorm_law | exact countNorm_law | exact cPreimage_law _ | exact tapTreeNorm_law _ | exact accept_law _)

theorem globalTable_law (W : WirePrims) : TableLaw (globalTable W) := by
  unfold TableLaw globalTable
  simp only [List.forall_mem_cons, fieldLaw_fOpt, fieldLaw_fOptLast, fieldLaw_fMap, fieldLaw_fKeyList]
  refine ⟨?_, ?_, ?_, ?_, ?_, ?_, ?_, ?_, ?_, ?_, ?_, (by intro f hf; cases hf)⟩ <;> codec_law

theorem outputTable_law (W : WirePrims) : TableLaw (outputTable W) := by
  unfold TableLaw outputTable
  simp only [List.forall_mem_cons, fieldLaw_fOpt, fieldLaw_fOptLast, fieldLaw_fMap, fieldLaw_fKeyList]
  repeat' apply And.intro
  all_goals first | codec_law | (intro f hf; cases hf)

theorem inputTable_law (W : WirePrims) : TableLaw (inputTable W) := by
  unfold TableLaw inputTable
  simp only [List.forall_mem_cons, fieldLaw_fOpt, fieldLaw_fOptLast, fieldLaw_fMap, fieldLaw_fKeyList]
  repeat' apply And.intro
  all_goals first | codec_law | (intro f hf; cases hf)

/-! ### distinct tags -/

theorem globalTable_ok (W : WirePrims) : TableOk (globalTable W) := by
  refine ⟨?_, ?_⟩
  · simp only [globalTable, List.map_cons, List.map_nil, fOpt, fOptLast, fMap, fKeyList]
    decide
  · intro f hf
    simp only [globalTable, List.mem_cons, List.mem_nil_iff, or_false] at hf
    rcases hf with rfl | rfl | rfl | rfl | rfl | rfl | rfl | rfl | rfl | rfl | rfl <;>
      simp only [fOpt, fOptLast, fMap, fKeyList] <;> decide

theorem tags_ok_of (T : List Field) (h1 : (T.map (·.tag)).Nodup) (h2 : Tag.plain propType ∉ T.map (·.tag)) : TableOk T := by
  refine ⟨h1, ?_⟩
  intro f hf e
  exact h2 (List.mem_map.mpr ⟨f, hf, e⟩)

theorem outputTable_ok (W : WirePrims) : TableOk (outputTable W) := by
  apply tags_ok_of
  · simp only [outputTable, List.map_cons, List.map_nil, fOpt, fOptLast, fMap, fKeyList]
    decide
  · simp only [outputTable, List.map_cons, List.map_nil, fOpt, fOptLast, fMap, fKeyList]
    decide

theorem inputTable_ok (W : WirePrims) : TableOk (inputTable W) := by
  apply tags_ok_of
  · simp only [inputTable, List.map_cons, List.map_nil, fOpt, fOptLast, fMap, fKeyList]
    decide
  · simp only [inputTable, List.map_cons, List.map_nil, fOpt, fOptLast, fMap, fKeyList]
    decide

end EV.Proofs.PsetWireCodec
