/-
  EV.Proofs.BlindInstance — a concrete module in which every hypothesis used by the C04/C05
  theorems holds, so that none of them is vacuous:
    scalars `ℤ`, assets `Bool`, points `Option Bool → ℤ` (the free module on {G, tag false, tag true}),
    proofs that are the statement they prove (complete and sound by construction).
-/
import Mathlib.Algebra.Module.Pi
import Mathlib.Algebra.BigOperators.Pi
import EV.Proofs.BlindC05

namespace EV.Blind.Inst
open EV EV.Blind

abbrev Pt := Option Bool → ℤ

/-- equality of points is decided classically (the instance is only used in statements) -/
noncomputable instance : DecidableEq Pt := Classical.decEq _

def cv : Curve ℤ Pt Bool := ⟨Pi.single none 1, fun b => Pi.single (some b) 1⟩

theorem indep : Indep cv := by
  intro S c r h
  constructor
  · intro a ha
    have := congrFun h (some a)
    simp only [cv, Pi.add_apply, Finset.sum_apply, Pi.smul_apply, Pi.single_apply, smul_eq_mul,
      Option.some.injEq, mul_ite, mul_one, mul_zero, Pi.zero_apply, reduceCtorEq, if_false, add_zero] at this
    rw [Finset.sum_ite_eq S a, if_pos ha] at this
    exact this
  · have := congrFun h none
    simpa [cv, Finset.sum_apply, Pi.single_apply] using this

theorem castInj (B : Nat) : CastInj ℤ B := fun _ _ _ _ h => by exact_mod_cast h

theorem noTorsion_G (B : Nat) : NoTorsion ℤ cv.G B := by
  intro k hk _ h
  have := congrFun h none
  simp [cv] at this
  omega

theorem noTorsion_tag (B : Nat) (a : Bool) : NoTorsion ℤ (cv.tag a) B :=
  indep.noTorsion_tag (castInj B) a

/-- a range "proof": the statement, the opening and the nonce key it was made with -/
structure RPz where
  commitment : Pt
  script : Bytes
  generator : Pt
  key : Pt
  opening : Nat × ℤ × Bool × ℤ

noncomputable instance : DecidableEq RPz := Classical.decEq _

abbrev SPz := Pt × List Pt

noncomputable def Vz : VPrims Bool Pt RPz SPz where
  genUnblinded := cv.tag
  commitUnblinded := fun v g => (v : ℤ) • g
  rangeVerify := fun rp c spk g => decide (rp.commitment = c ∧ rp.script = spk ∧ rp.generator = g)
  surjVerify := fun sp g dom => decide (sp = (g, dom))
  sumEqual := fun l r => decide (l.sum = r.sum)

noncomputable def Bz : BPrims Bool ℤ Pt Pt RPz SPz where
  genBlinded := cv.gen
  commit := cv.pedersen
  pubOf := fun r => r • cv.G
  ecdh := fun pk r => r • pk
  rangeProve := fun c v vbf m spk k g =>
    if 1 ≤ v ∧ v < 2 ^ 63 then some ⟨c, spk, g, k, (v, vbf, m.1, m.2)⟩ else none
  surjProve := fun a abf ins =>
    if ins.any (fun x => x.2.1 = a) then some (cv.gen a abf, ins.map (fun x => x.1)) else none
  rewind := fun rp c k spk g =>
    if rp.commitment = c ∧ rp.script = spk ∧ rp.generator = g ∧ rp.key = k then some rp.opening else none

theorem algB : AlgB cv id Bz := ⟨fun _ _ => rfl, fun _ _ _ => rfl, fun _ => rfl, fun _ _ => rfl⟩
theorem algV : AlgV cv Vz := ⟨fun _ => rfl, fun _ _ => rfl, fun l r => by simp [Vz]⟩

theorem range_complete : ∀ c v vbf m spk k g rp, Bz.rangeProve c v vbf m spk k g = some rp →
    Vz.rangeVerify rp c spk g = true := by
  intro c v vbf m spk k g rp h
  simp only [Bz] at h
  split at h
  · injection h with h; subst h; simp [Vz]
  · cases h

theorem surj_complete : ∀ a abf ins sp, Bz.surjProve a abf ins = some sp →
    Vz.surjVerify sp (Bz.genBlinded a abf) (ins.map (fun x => x.1)) = true := by
  intro a abf ins sp h
  simp only [Bz] at h
  split at h
  · injection h with h; subst h; simp [Vz, Bz]
  · cases h

theorem range_total : ∀ c v vbf m spk k g, 1 ≤ v → v < 2 ^ 63 → (Bz.rangeProve c v vbf m spk k g).isSome := by
  intro c v vbf m spk k g h1 h2
  simp only [Bz]
  rw [if_pos ⟨h1, h2⟩]
  rfl

theorem surj_total (spent : List (Secrets Bool ℤ)) : ∀ a abf, (∃ s ∈ spent, s.asset = a) →
    (Bz.surjProve a abf (surjInputs Bz spent)).isSome := by
  intro a abf ⟨s, hs, ha⟩
  have : (surjInputs Bz spent).any (fun x => decide (x.2.1 = a)) = true := by
    rw [List.any_eq_true]
    exact ⟨(Bz.genBlinded s.asset s.abf, s.asset, s.abf), by simp [surjInputs]; exact ⟨s, hs, rfl, rfl, rfl⟩, by simp [ha]⟩
  simp only [Bz] at this ⊢
  rw [if_pos this]
  rfl

theorem rewind_law : ∀ c v vbf a abf spk k g rp, Bz.rangeProve c v vbf (a, abf) spk k g = some rp →
    Bz.rewind rp c k spk g = some (v, vbf, a, abf) := by
  intro c v vbf a abf spk k g rp h
  simp only [Bz] at h
  split at h
  · injection h with h; subst h; simp [Bz]
  · cases h

end EV.Blind.Inst
