/-
  Key order is irrelevant: for a table whose fields are all of kind `opt` or `map` (the input and
  output tables), the pair loop gives the same result on any rearrangement of the pairs.
  (For the global table the order of the scalar pairs is kept in `Vec<Tweak>`, so the statement is
  restricted to tables without `keyList` / `optLast` fields.)
-/
import EV.Proofs.PsetWireReject
namespace EV.Proofs.PsetWirePerm
open EV EV.Codec EV.PsetWire EV.Proofs.PsetWireMap EV.Proofs.PsetWireReject

/-- every field of the table is unkeyed-with-duplicate-rejection or a `BTreeMap` -/
def OrderFree (T : List Field) : Prop := ∀ f ∈ T, f.kind = .opt ∨ f.kind = .map

/-- a successful `map` insert, destructured -/
theorem insert_map_inv {f : Field} (hk : f.kind = .map) {s s' : Slot} {k v : Bytes} (h : f.insert s k v = .ok s') :
    k ≠ [] ∧ f.validKey k = true ∧ KV.lookup k s = none ∧ ∃ c, f.normVal k v = some c ∧ s' = KV.insert k c s := by
  unfold Field.insert at h
  rw [hk] at h
  simp only at h
  split at h
  · cases h
  · rename_i hk0
    split at h
    · cases h
    · rename_i hvk
      split at h
      · cases h
      · rename_i hlk
        cases hn : f.normVal k v with
        | none => rw [hn] at h; cases h
        | some c =>
          rw [hn] at h
          simp only [Res.ok.injEq] at h
          refine ⟨hk0, ?_, isSome_false_none hlk, c, rfl, h.symm⟩
          cases hh : f.validKey k with
          | true => rfl
          | false => exact absurd hh hvk

/-- the conditions under which a `map` insert succeeds -/
theorem insert_map_intro {f : Field} (hk : f.kind = .map) {s : Slot} {k v c : Bytes} (h0 : k ≠ [])
    (h1 : f.validKey k = true) (h2 : KV.lookup k s = none) (h3 : f.normVal k v = some c) :
    f.insert s k v = .ok (KV.insert k c s) := by
  simp only [Field.insert, hk, if_neg h0, h1, h2, Option.isSome_none, h3, Bool.false_eq_true, if_false,
    Bool.true_eq_false]

/-- a successful `opt` insert starts from the empty slot and fills it -/
theorem insert_opt_inv {f : Field} (hk : f.kind = .opt) {s s' : Slot} {k v : Bytes} (h : f.insert s k v = .ok s') :
    s = [] ∧ s' ≠ [] := by
  unfold Field.insert at h
  rw [hk] at h
  simp only at h
  split at h
  · cases h
  · split at h
    · cases h
    · rename_i hs0
      cases hn : f.normVal [] v with
      | none => rw [hn] at h; cases h
      | some c =>
        rw [hn] at h
        simp only [Res.ok.injEq] at h
        subst h
        exact ⟨Classical.not_not.mp hs0, by intro e; cases e⟩

/-- two successive inserts into one `opt` / `map` slot can be exchanged -/
theorem field_swap {f : Field} (hk : f.kind = .opt ∨ f.kind = .map) {s s1 s2 : Slot} {ka va kb vb : Bytes}
    (hs : f.kind = .map → KV.Sorted s)
    (h1 : f.insert s ka va = .ok s1) (h2 : f.insert s1 kb vb = .ok s2) :
    ∃ s1', f.insert s kb vb = .ok s1' ∧ f.insert s1' ka va = .ok s2 := by
  rcases hk with hk | hk
  · obtain ⟨_, hne⟩ := insert_opt_inv hk h1
    obtain ⟨he, _⟩ := insert_opt_inv hk h2
    exact absurd he hne
  · obtain ⟨a0, a1, a2, ca, a3, rfl⟩ := insert_map_inv hk h1
    obtain ⟨b0, b1, b2, cb, b3, rfl⟩ := insert_map_inv hk h2
    rw [KV.lookup_insert] at b2
    have hne : kb ≠ ka := by
      intro e
      rw [if_pos e] at b2
      cases b2
    rw [if_neg hne] at b2
    have hne' : ¬ ka = kb := fun e => hne e.symm
    refine ⟨KV.insert kb cb s, insert_map_intro hk b0 b1 b2 b3, ?_⟩
    have a2' : KV.lookup ka (KV.insert kb cb s) = none := by
      rw [KV.lookup_insert, if_neg hne']
      exact a2
    rw [insert_map_intro hk a0 a1 a2' a3]
    have hS := hs hk
    have heq : KV.insert ka ca (KV.insert kb cb s) = KV.insert kb cb (KV.insert ka ca s) := by
      apply KV.ext_of_sorted (KV.sorted_insert _ _ _ (KV.sorted_insert _ _ _ hS))
        (KV.sorted_insert _ _ _ (KV.sorted_insert _ _ _ hS))
      intro k
      simp only [KV.lookup_insert]
      by_cases e1 : k = ka
      · have e2 : ¬ k = kb := fun e => hne (e.symm.trans e1)
        simp only [if_pos e1, if_neg e2]
      · simp only [if_neg e1]
    rw [heq]

/-- two successive accepted pairs can be exchanged -/
theorem insertPair_swap {T : List Field} (hO : OrderFree T) {st s1 s2 : List Slot} {a b : Pair} (hw : WfSlots T st)
    (h1 : insertPair T st a = .ok s1) (h2 : insertPair T s1 b = .ok s2) :
    ∃ s1', insertPair T st b = .ok s1' ∧ insertPair T s1' a = .ok s2 := by
  obtain ⟨i, ka, f, sa, sa', hca, hf, hsa, hia, rfl⟩ := insertPair_ok h1
  obtain ⟨j, kb, g, sb, sb', hcb, hg, hsb, hib, rfl⟩ := insertPair_ok h2
  by_cases e : i = j
  · subst e
    rw [hf] at hg
    simp only [Option.some.injEq] at hg
    subst hg
    rw [getElem?_set_self' hsa] at hsb
    simp only [Option.some.injEq] at hsb
    subst hsb
    have hsorted : f.kind = .map → KV.Sorted sa := by
      intro hk
      have hsh := (hw.2 i f sa hf hsa).shape
      unfold shapeOk at hsh
      rw [hk] at hsh
      exact hsh.1
    obtain ⟨t, ht1, ht2⟩ := field_swap (hO f (List.mem_of_getElem? hf)) hsorted hia hib
    refine ⟨st.set i t, ?_, ?_⟩
    · simp only [insertPair, hcb, hf, hsa, ht1]
    · simp only [insertPair, hca, hf, getElem?_set_self' hsa, ht2, List.set_set]
  · rw [List.getElem?_set_ne e] at hsb
    refine ⟨st.set j sb', ?_, ?_⟩
    · simp only [insertPair, hcb, hg, hsb, hib]
    · have hsa' : (st.set j sb')[i]? = some sa := by
        rw [List.getElem?_set_ne (fun h => e h.symm)]
        exact hsa
      simp only [insertPair, hca, hf, hsa', hia]
      rw [List.set_comm _ _ e]

theorem insertAll_perm {T : List Field} (hL : TableLaw T) (hO : OrderFree T) (ps ps' : List Pair) (hp : ps.Perm ps') :
    ∀ (st st' : List Slot), WfSlots T st → (∀ p ∈ ps, EV.Proofs.PsetWireRaw.PairOk p) →
      insertAll T st ps = .ok st' → insertAll T st ps' = .ok st' := by
  induction hp with
  | nil => intro st st' _ _ h; exact h
  | cons x _ ih =>
    intro st st' hw hok h
    obtain ⟨st1, h1, h2⟩ := insertAll_cons_ok h
    simp only [insertAll, h1]
    exact ih st1 st' (insertPair_wf hL st st1 x hw (hok x (List.mem_cons_self ..)) h1)
      (fun q hq => hok q (List.mem_cons_of_mem _ hq)) h2
  | swap x y l =>
    intro st st' hw _ h
    obtain ⟨st1, h1, h2⟩ := insertAll_cons_ok h
    obtain ⟨st2, h3, h4⟩ := insertAll_cons_ok h2
    obtain ⟨t, t1, t2⟩ := insertPair_swap hO hw h1 h3
    simp only [insertAll, t1, t2]
    exact h4
  | trans hp1 _ ih1 ih2 =>
    intro st st' hw hok h
    exact ih2 st st' hw (fun p hp => hok p (hp1.mem_iff.mpr hp)) (ih1 st st' hw hok h)

end EV.Proofs.PsetWirePerm
