/-
  The error / constant clauses of C03: SIGHASH_SINGLE without a corresponding output (legacy: the
  constant; taproot: an error), ANYONECANPAY with an out-of-range index (taproot: an error), and
  totality of the taproot encoder.
-/
import EV.Proofs.SighashDefs
namespace EV.Sighash
open EV EV.Codec

/-- the constant written by `encode_legacy_signing_data_to`, the constant returned by
    `legacy_sighash` and Core's `uint256::ONE` are the same 32 bytes -/
theorem legacy_constants : Gen.legacySingleBugConst = uint256One ∧ legacyOne = uint256One := by
  constructor <;> decide

/-- LEGACY, SIGHASH_SINGLE (with or without ANYONECANPAY), no output at the input's index: the
    encoder writes the constant `01 00…00`, the digest IS that constant (not its hash) -/
theorem single_oob_legacy' (H : SigHashes) (tx : Tx) (idx : Nat) (script : Bytes) (ty : EcdsaTy)
    (h1 : idx < tx.input.length) (h2 : ty.base = .single) (h3 : idx ≥ tx.output.length) :
    msgLegacy tx idx script ty = .ok uint256One ∧ legacySighash H tx idx script ty = .ok uint256One := by
  have c := legacy_constants
  have h4 : ¬ ¬ idx < tx.input.length := fun x => x h1
  simp only [msgLegacy, legacySighash, if_neg h4, if_pos (And.intro h2 h3), c.1, c.2, and_self]

theorem checkAll_cases (pv : Prevouts) (tx : Tx) :
    pv.checkAll tx = .ok () ∨ pv.checkAll tx = .err ePrevoutsSize := by
  cases pv with
  | one j p => exact Or.inl rfl
  | all ps =>
    simp only [Prevouts.checkAll]
    by_cases h : ps.length ≠ tx.input.length
    · exact Or.inr (if_pos h)
    · exact Or.inl (if_neg h)

theorem tapInsPart_cases (H : SigHashes) (tx : Tx) (pv : Prevouts) (ty : SchnorrTy) :
    (∃ b, tapInsPart H tx pv ty = .ok b) ∨ tapInsPart H tx pv ty = .err ePrevoutKind := by
  simp only [tapInsPart]
  cases hacp : ty.acp with
  | true => exact Or.inl ⟨_, rfl⟩
  | false =>
    cases pv with
    | one j p => exact Or.inr rfl
    | all ps => exact Or.inl ⟨_, rfl⟩

theorem get_cases (pv : Prevouts) (i : Nat) : (∃ p, pv.get i = .ok p) ∨ pv.get i = .err ePrevoutIndex := by
  cases pv with
  | one j p =>
    simp only [Prevouts.get]
    by_cases h : i = j
    · exact Or.inl ⟨p, if_pos h⟩
    · exact Or.inr (if_neg h)
  | all ps =>
    simp only [Prevouts.get]
    cases ps[i]? with
    | none => exact Or.inr rfl
    | some p => exact Or.inl ⟨p, rfl⟩

theorem tapThisPart_cases (H : SigHashes) (tx : Tx) (idx : Nat) (pv : Prevouts) (ty : SchnorrTy) :
    (∃ b, tapThisPart H tx idx pv ty = .ok b) ∨ tapThisPart H tx idx pv ty = .err eIndex ∨
    tapThisPart H tx idx pv ty = .err ePrevoutIndex := by
  simp only [tapThisPart]
  cases hacp : ty.acp with
  | false => exact Or.inl ⟨_, rfl⟩
  | true =>
    simp only [if_true]
    cases tx.input[idx]? with
    | none => exact Or.inr (Or.inl rfl)
    | some txin =>
      rcases get_cases pv idx with ⟨p, hp⟩ | hp
      · exact Or.inl ⟨_, by simp only [hp, Res.bind] <;> rfl⟩
      · exact Or.inr (Or.inr (by simp only [hp, Res.bind]))

theorem tapSinglePart_cases (H : SigHashes) (tx : Tx) (idx : Nat) (ty : SchnorrTy) :
    (∃ b, tapSinglePart H tx idx ty = .ok b) ∨ tapSinglePart H tx idx ty = .err eSingle := by
  simp only [tapSinglePart]
  cases ty.isSingle with
  | false => exact Or.inl ⟨_, rfl⟩
  | true =>
    simp only [if_true]
    cases tx.output[idx]? with
    | none => exact Or.inr rfl
    | some o => exact Or.inl ⟨_, rfl⟩

/-- `taproot_encode_signing_data_to` never panics: a message or one of the five errors -/
theorem taproot_total (H : SigHashes) (tx : Tx) (idx : Nat) (pv : Prevouts) (annex : Option Bytes)
    (leaf : Option (Bytes × Nat)) (ty : SchnorrTy) (g : Bytes) :
    (∃ m, msgTaproot H tx idx pv annex leaf ty g = .ok m) ∨
    (∃ e, e ∈ [ePrevoutsSize, ePrevoutKind, eIndex, ePrevoutIndex, eSingle] ∧
      msgTaproot H tx idx pv annex leaf ty g = .err e) := by
  simp only [msgTaproot]
  rcases checkAll_cases pv tx with h0 | h0
  · rcases tapInsPart_cases H tx pv ty with ⟨b1, h1⟩ | h1
    · rcases tapThisPart_cases H tx idx pv ty with ⟨b2, h2⟩ | h2 | h2
      · rcases tapSinglePart_cases H tx idx ty with ⟨b3, h3⟩ | h3
        · exact Or.inl ⟨_, by simp only [h0, h1, h2, h3, Res.bind] <;> rfl⟩
        · exact Or.inr ⟨eSingle, by simp, by simp only [h0, h1, h2, h3, Res.bind] <;> rfl⟩
      · exact Or.inr ⟨eIndex, by simp, by simp only [h0, h1, h2, Res.bind] <;> rfl⟩
      · exact Or.inr ⟨ePrevoutIndex, by simp, by simp only [h0, h1, h2, Res.bind] <;> rfl⟩
    · exact Or.inr ⟨ePrevoutKind, by simp, by simp only [h0, h1, Res.bind] <;> rfl⟩
  · exact Or.inr ⟨ePrevoutsSize, by simp, by simp only [h0, Res.bind] <;> rfl⟩

/-- TAPROOT, SIGHASH_SINGLE (with or without ANYONECANPAY), no output at the input's index: always
    an error; `SingleWithoutCorrespondingOutput` when the earlier checks pass -/
theorem single_oob_taproot_err' (H : SigHashes) (tx : Tx) (idx : Nat) (pv : Prevouts) (annex : Option Bytes)
    (leaf : Option (Bytes × Nat)) (ty : SchnorrTy) (g : Bytes)
    (hs : ty.isSingle = true) (h : idx ≥ tx.output.length) :
    (∃ e, msgTaproot H tx idx pv annex leaf ty g = .err e) ∧
    (∀ b1 b2, pv.checkAll tx = .ok () → tapInsPart H tx pv ty = .ok b1 → tapThisPart H tx idx pv ty = .ok b2 →
      msgTaproot H tx idx pv annex leaf ty g = .err eSingle) := by
  have hnone : tx.output[idx]? = none := List.getElem?_eq_none_iff.mpr h
  have h3 : tapSinglePart H tx idx ty = .err eSingle := by
    simp only [tapSinglePart, hs, if_true, hnone]
  constructor
  · simp only [msgTaproot]
    rcases checkAll_cases pv tx with h0 | h0
    · rcases tapInsPart_cases H tx pv ty with ⟨b1, h1⟩ | h1
      · rcases tapThisPart_cases H tx idx pv ty with ⟨b2, h2⟩ | h2 | h2
        · exact ⟨_, by simp only [h0, h1, h2, h3, Res.bind] <;> rfl⟩
        · exact ⟨_, by simp only [h0, h1, h2, Res.bind] <;> rfl⟩
        · exact ⟨_, by simp only [h0, h1, h2, Res.bind] <;> rfl⟩
      · exact ⟨_, by simp only [h0, h1, Res.bind] <;> rfl⟩
    · exact ⟨_, by simp only [h0, Res.bind] <;> rfl⟩
  · intro b1 b2 h0 h1 h2
    simp only [msgTaproot, h0, h1, h2, h3, Res.bind]

/-- TAPROOT with ANYONECANPAY and an input index that does not exist: `IndexOutOfInputsBounds`
    (or `PrevoutsSize` if a prevout list of the wrong size was passed) -/
theorem taproot_index_err' (H : SigHashes) (tx : Tx) (idx : Nat) (pv : Prevouts) (annex : Option Bytes)
    (leaf : Option (Bytes × Nat)) (ty : SchnorrTy) (g : Bytes)
    (hacp : ty.acp = true) (h : ¬ idx < tx.input.length) :
    (pv.checkAll tx = .ok () → msgTaproot H tx idx pv annex leaf ty g = .err eIndex) ∧
    (pv.checkAll tx ≠ .ok () → msgTaproot H tx idx pv annex leaf ty g = .err ePrevoutsSize) := by
  have hnone : tx.input[idx]? = none := List.getElem?_eq_none_iff.mpr (by omega)
  constructor
  · intro h0
    simp only [msgTaproot, h0, tapInsPart, tapThisPart, hacp, if_true, hnone, Res.bind]
  · intro h0
    rcases checkAll_cases pv tx with h0' | h0'
    · exact absurd h0' h0
    · simp only [msgTaproot, h0', Res.bind]

/-- OBSERVATION (as coded): without ANYONECANPAY the input index is NOT checked against the number of
    inputs — it is only serialized (as a `u32`); a digest is produced for an input that does not exist -/
theorem taproot_index_unchecked (H : SigHashes) (tx : Tx) (idx : Nat) (ps : List TxOut) (annex : Option Bytes)
    (leaf : Option (Bytes × Nat)) (ty : SchnorrTy) (g : Bytes)
    (hacp : ty.acp = false) (hs : ty.isSingle = false) (hlen : ps.length = tx.input.length) :
    ∃ m, msgTaproot H tx idx (.all ps) annex leaf ty g = .ok m := by
  have h0 : (Prevouts.all ps).checkAll tx = .ok () := by
    simp only [Prevouts.checkAll, hlen, ne_eq, not_true_eq_false, if_false]
  refine ⟨tapHead tx ty g ++ tapAllInputs H tx ps ++ tapOutsPart H tx ty ++ [spendType annex leaf] ++ encLe 4 idx ++
    tapAnnexPart H annex ++ [] ++ tapLeafPart leaf, ?_⟩
  simp only [msgTaproot, h0, tapInsPart, tapThisPart, tapSinglePart, hacp, hs, Prevouts.getAll,
    Res.bind, Bool.false_eq_true, if_false]

end EV.Sighash
