/-
  Script numbers (EV.Model.Script: `buildScriptInt`, `readScriptInt`): the encoder as arithmetic,
  its sign-magnitude specification (value, sign bit, shortest length), the round trip over the 4-byte
  range and the overflow beyond it.
-/
import EV.Model.ScriptSpec
import EV.Proofs.CodecPrim
namespace EV.Proofs.ScriptNum
open EV EV.Script EV.Gen EV.Proofs.CodecPrim

/-! ## bit operations of the encoder as arithmetic -/

theorem and_ff (a : Nat) : a &&& 0xFF = a % 256 := Nat.and_two_pow_sub_one_eq_mod a 8
theorem shr8 (a : Nat) : a >>> 8 = a / 256 := Nat.shiftRight_eq_div_pow a 8

private theorem and80_fin : ∀ a : Fin 256, (a.val &&& 0x80 ≠ 0) = (128 ≤ a.val) := by decide +kernel
private theorem or80_fin : ∀ a : Fin 128, a.val ||| 0x80 = a.val + 128 := by decide +kernel

theorem and80 {a : Nat} (h : a < 256) : (a &&& 0x80 ≠ 0) ↔ 128 ≤ a := by
  have := and80_fin ⟨a, h⟩
  simp only at this
  rw [this]

theorem or80 {a : Nat} (h : a < 128) : a ||| 0x80 = a + 128 := or80_fin ⟨a, h⟩

theorem u8_and80 (b : UInt8) : (b &&& 0x80 ≠ 0) ↔ 128 ≤ b.toNat := by
  have h1 : (b &&& 0x80 ≠ 0) ↔ (b &&& 0x80).toNat ≠ 0 := by
    constructor
    · intro h e; apply h; exact UInt8.toNat_inj.mp (by rw [e]; rfl)
    · intro h e; apply h; rw [e]; rfl
  rw [h1, UInt8.toNat_and]
  exact and80 (UInt8.toNat_lt b)

/-- `scriptMag` with `%`, `/`, `+` instead of `&`, `>>`, `|` -/
def magA : Nat → Nat → Bool → Bytes
  | 0, _, _ => []
  | f + 1, abs, neg =>
    if abs > 255 then UInt8.ofNat (abs % 256) :: magA f (abs / 256) neg
    else if 128 ≤ abs then [UInt8.ofNat abs, if neg then 0x80 else 0]
    else [UInt8.ofNat (abs + (if neg then 128 else 0))]

theorem scriptMag_eq (f abs : Nat) (neg : Bool) : scriptMag f abs neg = magA f abs neg := by
  induction f generalizing abs with
  | zero => rfl
  | succ f ih =>
    unfold scriptMag magA
    by_cases h : abs > 255
    · simp only [h, if_true, and_ff, shr8, ih]
    · have hlt : abs < 256 := by omega
      simp only [h, if_false]
      by_cases h2 : 128 ≤ abs
      · have : abs &&& 0x80 ≠ 0 := (and80 hlt).mpr h2
        simp only [this, h2, if_true, ne_eq, not_false_eq_true]
      · have : ¬ (abs &&& 0x80 ≠ 0) := fun hh => h2 ((and80 hlt).mp hh)
        simp only [this, h2, if_false]
        cases neg with
        | true => simp only [if_true]; rw [or80 (by omega)]
        | false => simp

theorem magA_length_le (f abs : Nat) (neg : Bool) : (magA f abs neg).length ≤ f + 1 := by
  induction f generalizing abs with
  | zero => simp [magA]
  | succ f ih =>
    unfold magA
    split
    · simp only [List.length_cons]; have := ih (abs / 256); omega
    · split <;> simp

private theorem pow_pred {n : Nat} (h : 1 ≤ n) : 256 ^ n = 256 * 256 ^ (n - 1) := by
  obtain ⟨m, rfl⟩ : ∃ m, n = m + 1 := ⟨n - 1, by omega⟩
  rw [Nat.pow_succ]; simp [Nat.mul_comm]

/-- specification of the encoder: for a magnitude that fits the fuel, the output `v` of length `L`
    (1) is non-empty, (2) has little-endian value `abs` plus the sign bit at position `8L−1`,
    (3) `abs` fits below the sign bit, (4) one byte less would not fit, (5) the top bit of the last
    byte is the sign. -/
theorem magA_spec (f : Nat) : ∀ (abs : Nat) (neg : Bool), 0 < abs → abs < 256 ^ f →
    let v := magA f abs neg
    v ≠ [] ∧
    leNat v = abs + (if neg then 128 * 256 ^ (v.length - 1) else 0) ∧
    abs < 128 * 256 ^ (v.length - 1) ∧
    (2 ≤ v.length → 128 * 256 ^ (v.length - 2) ≤ abs) ∧
    (128 ≤ (v.getD (v.length - 1) 0).toNat ↔ neg = true) := by
  induction f with
  | zero => intro abs neg h0 hf; simp at hf; omega
  | succ f ih =>
    intro abs neg h0 hf
    unfold magA
    by_cases h : abs > 255
    · simp only [h, if_true]
      have hf' : abs / 256 < 256 ^ f := by
        apply Nat.div_lt_of_lt_mul; rw [Nat.pow_succ] at hf; omega
      obtain ⟨i1, i2, i3, i4, i5⟩ := ih (abs / 256) neg (by omega) hf'
      generalize hv : magA f (abs / 256) neg = v' at i1 i2 i3 i4 i5
      have hL : 1 ≤ v'.length := List.length_pos_iff.mpr i1
      have hb : (UInt8.ofNat (abs % 256)).toNat = abs % 256 := by rw [UInt8.toNat_ofNat']; omega
      have hp : 256 ^ v'.length = 256 * 256 ^ (v'.length - 1) := pow_pred hL
      simp only [List.length_cons, Nat.add_sub_cancel]
      refine ⟨by simp, ?_, ?_, ?_, ?_⟩
      · simp only [leNat, hb, i2, hp]
        cases neg <;> simp <;> omega
      · rw [hp]; omega
      · intro _
        show 128 * 256 ^ (v'.length + 1 - 2) ≤ abs
        have e : v'.length + 1 - 2 = v'.length - 1 := by omega
        rw [e]
        by_cases h2 : 2 ≤ v'.length
        · have := i4 h2
          have hp2 : 256 ^ (v'.length - 1) = 256 * 256 ^ (v'.length - 1 - 1) := pow_pred (by omega)
          have e2 : v'.length - 1 - 1 = v'.length - 2 := by omega
          rw [hp2, e2]; omega
        · have e1 : v'.length - 1 = 0 := by omega
          rw [e1]; simp; omega
      · have e : (UInt8.ofNat (abs % 256) :: v').getD v'.length 0 = v'.getD (v'.length - 1) 0 := by
          obtain ⟨m, hm⟩ : ∃ m, v'.length = m + 1 := ⟨v'.length - 1, by omega⟩
          rw [hm]; simp
        rw [e]; exact i5
    · simp only [h, if_false]
      by_cases h2 : 128 ≤ abs
      · simp only [h2, if_true]
        have hb : (UInt8.ofNat abs).toNat = abs := by rw [UInt8.toNat_ofNat']; omega
        refine ⟨by simp, ?_, ?_, ?_, ?_⟩
        · cases neg <;> simp [leNat, hb]
        · simp; omega
        · intro _; simp; omega
        · cases neg <;> simp
      · simp only [h2, if_false]
        refine ⟨by simp, ?_, ?_, ?_, ?_⟩
        · cases neg
          · have hb : (UInt8.ofNat abs).toNat = abs := by rw [UInt8.toNat_ofNat']; omega
            simp [leNat, hb]
          · have hb : (UInt8.ofNat (abs + 128)).toNat = abs + 128 := by rw [UInt8.toNat_ofNat']; omega
            simp [leNat]; omega
        · simp; omega
        · intro hh; simp at hh
        · cases neg
          · have hb : (UInt8.ofNat abs).toNat = abs := by rw [UInt8.toNat_ofNat']; omega
            simp [hb]; omega
          · have hb : (UInt8.ofNat (abs + 128)).toNat = abs + 128 := by rw [UInt8.toNat_ofNat']; omega
            simp; omega


/-! ## `buildScriptInt` / `readScriptInt` -/

theorem buildScriptInt_ne_zero {n : Int} (h : n ≠ 0) :
    buildScriptInt n = magA 9 n.natAbs (decide (n < 0)) := by
  simp [buildScriptInt, h, scriptMag_eq]

theorem buildScriptInt_length_le (n : Int) : (buildScriptInt n).length ≤ 10 := by
  by_cases h : n = 0
  · simp [buildScriptInt, h]
  · rw [buildScriptInt_ne_zero h]; exact magA_length_le 9 _ _

private theorem two_pow_sign (L : Nat) (h : 1 ≤ L) : 2 ^ (8 * L - 1) = 128 * 256 ^ (L - 1) := by
  have e : 8 * L - 1 = 7 + 8 * (L - 1) := by omega
  rw [e, Nat.pow_add, Nat.pow_mul]

private theorem pow_mono {a b : Nat} (h : a ≤ b) : 256 ^ a ≤ 256 ^ b := Nat.pow_le_pow_right (by decide) h

/-- the encoder's output for a non-zero `i64` other than `i64::MIN`, in terms of `|n|` and the sign -/
theorem buildScriptInt_spec {n : Int} (h0 : n ≠ 0) (hr : n.natAbs < 2 ^ 64) :
    let v := buildScriptInt n
    v ≠ [] ∧
    leNat v = n.natAbs + (if n < 0 then 128 * 256 ^ (v.length - 1) else 0) ∧
    n.natAbs < 128 * 256 ^ (v.length - 1) ∧
    (2 ≤ v.length → 128 * 256 ^ (v.length - 2) ≤ n.natAbs) ∧
    (128 ≤ (v.getD (v.length - 1) 0).toNat ↔ n < 0) := by
  rw [buildScriptInt_ne_zero h0]
  have hf : n.natAbs < 256 ^ 9 := by
    have : (2 : Nat) ^ 64 ≤ 256 ^ 9 := by decide
    omega
  have := magA_spec 9 n.natAbs (decide (n < 0)) (by omega) hf
  simpa using this

/-- length of the encoding: at most `k` bytes iff the magnitude is below `2^(8k−1)` -/
theorem buildScriptInt_length_iff {n : Int} (h0 : n ≠ 0) (hr : n.natAbs < 2 ^ 64) (k : Nat) (hk : 1 ≤ k) :
    (buildScriptInt n).length ≤ k ↔ n.natAbs < 128 * 256 ^ (k - 1) := by
  obtain ⟨s1, _, s3, s4, _⟩ := buildScriptInt_spec h0 hr
  generalize buildScriptInt n = v at s1 s3 s4
  have hL : 1 ≤ v.length := List.length_pos_iff.mpr s1
  constructor
  · intro h
    have := pow_mono (show v.length - 1 ≤ k - 1 by omega)
    omega
  · intro h
    by_cases hc : v.length ≤ k
    · exact hc
    · exfalso
      have h4 := s4 (by omega)
      have := pow_mono (show k - 1 ≤ v.length - 2 by omega)
      omega

/-- `read_scriptint(build_scriptint(n)) = Ok(n)` on the whole 4-byte script-number range -/
theorem read_build_scriptint {n : Int} (h : -(2 ^ 31) < n ∧ n < 2 ^ 31) :
    readScriptInt (buildScriptInt n) = .ok n := by
  by_cases h0 : n = 0
  · subst h0; rfl
  · have hr : n.natAbs < 2 ^ 64 := by omega
    have hlen := (buildScriptInt_length_iff h0 hr 4 (by omega)).mpr (by simp; omega)
    obtain ⟨s1, s2, s3, _, s5⟩ := buildScriptInt_spec h0 hr
    generalize buildScriptInt n = v at hlen s1 s2 s3 s5
    have hL : 1 ≤ v.length := List.length_pos_iff.mpr s1
    unfold readScriptInt
    have c1 : ¬ v.length = 0 := by omega
    have c2 : ¬ v.length > 4 := by omega
    simp only [c1, c2, if_false]
    by_cases hneg : n < 0
    · have hb : v.getD (v.length - 1) 0 &&& 0x80 ≠ 0 := (u8_and80 _).mpr (s5.mpr hneg)
      rw [if_pos hb]
      rw [Nat.one_shiftLeft, Nat.and_two_pow_sub_one_eq_mod, two_pow_sign _ hL, s2, if_pos hneg,
        Nat.add_mod_right, Nat.mod_eq_of_lt s3]
      simp only [Int.ofNat_eq_natCast]; congr 1; omega
    · have hb : ¬ (v.getD (v.length - 1) 0 &&& 0x80 ≠ 0) := fun hh => hneg (s5.mp ((u8_and80 _).mp hh))
      rw [if_neg hb, s2, if_neg hneg]
      simp only [Int.ofNat_eq_natCast, Nat.add_zero]; congr 1; omega

/-- at and beyond ±2^31 the encoding has 5 or more bytes and `read_scriptint` reports
    `NumericOverflow` (the number can be pushed but not read back as a number) -/
theorem read_build_scriptint_overflow {n : Int} (h : n ≤ -(2 ^ 31) ∨ 2 ^ 31 ≤ n) (hr : n.natAbs < 2 ^ 64) :
    4 < (buildScriptInt n).length ∧ readScriptInt (buildScriptInt n) = .err "NumericOverflow" := by
  have h0 : n ≠ 0 := by omega
  have hlen : ¬ (buildScriptInt n).length ≤ 4 := by
    rw [buildScriptInt_length_iff h0 hr 4 (by omega)]; simp; omega
  refine ⟨by omega, ?_⟩
  unfold readScriptInt
  have c1 : ¬ (buildScriptInt n).length = 0 := by omega
  have c2 : (buildScriptInt n).length > 4 := by omega
  simp only [c1, c2, if_false, if_true]

/-- a one-byte encoding that `instructions_minimal` would reject only arises for −1 and 1..16 -/
theorem buildScriptInt_single {n : Int} {x : UInt8} (hr : n.natAbs < 2 ^ 64)
    (hv : buildScriptInt n = [x]) (hn : ¬ (n = -1 ∨ (1 ≤ n ∧ n ≤ 16))) : smallNumByte x = false := by
  have h0 : n ≠ 0 := by intro e; subst e; simp [buildScriptInt] at hv
  obtain ⟨_, s2, s3, _, _⟩ := buildScriptInt_spec h0 hr
  rw [hv] at s2 s3
  simp only [leNat, List.length_cons, List.length_nil, Nat.zero_add, Nat.sub_self, Nat.pow_zero, Nat.mul_one,
    Nat.mul_zero, Nat.add_zero] at s2 s3
  unfold smallNumByte
  have e81 : (x == 0x81) = false := by
    apply beq_false_of_ne; intro e; subst e
    have : (0x81 : UInt8).toNat = 129 := by decide
    rw [this] at s2
    split at s2 <;> omega
  have esm : (x > 0 && x ≤ 16) = false := by
    apply Bool.eq_false_iff.mpr
    intro hh
    simp only [gt_iff_lt, Bool.and_eq_true, decide_eq_true_eq] at hh
    have h1 := UInt8.lt_iff_toNat_lt.mp hh.1
    have h2 := UInt8.le_iff_toNat_le.mp hh.2
    have z : (0 : UInt8).toNat = 0 := by decide
    have s : (16 : UInt8).toNat = 16 := by decide
    rw [z] at h1; rw [s] at h2
    split at s2 <;> omega
  simp [e81, esm]

theorem small_int_cases {n : Int} (h : n = -1 ∨ (1 ≤ n ∧ n ≤ 16)) :
    n = -1 ∨ n = 1 ∨ n = 2 ∨ n = 3 ∨ n = 4 ∨ n = 5 ∨ n = 6 ∨ n = 7 ∨ n = 8 ∨ n = 9 ∨ n = 10 ∨ n = 11 ∨
    n = 12 ∨ n = 13 ∨ n = 14 ∨ n = 15 ∨ n = 16 := by omega

/-- conversely `push_scriptint` of −1, 1..16 is exactly such a one-byte push -/
theorem buildScriptInt_small {n : Int} (h : n = -1 ∨ (1 ≤ n ∧ n ≤ 16)) :
    ∃ x, buildScriptInt n = [x] ∧ smallNumByte x = true := by
  rcases small_int_cases h with rfl | rfl | rfl | rfl | rfl | rfl | rfl | rfl | rfl | rfl | rfl | rfl | rfl | rfl | rfl | rfl | rfl <;>
    exact ⟨_, rfl, by decide⟩

end EV.Proofs.ScriptNum
