/-
  EV.Proofs.SerdeDerive — the generic round trip of derived impls (EV.Model.SerdeDerive): maps, struct visitors
  (`visit_map` by key, `visit_seq` by position), hooks, enums, and the interpreter itself by induction on the fuel.
-/
import EV.Model.SerdeDerive
import EV.Proofs.SerdeUtils
namespace EV.Serde
open EV EV.Text EV.Gen

@[simp] theorem resMap_ok {α β} (g : α → β) (a : α) : resMap g (.ok a) = .ok (g a) := rfl

/-! ### maps -/

theorem dInsert_new (acc : List (DVal × DVal)) (k v : DVal) (h : ∀ e ∈ acc, DVal.beq e.1 k = false) :
    dInsert acc k v = acc ++ [(k, v)] := by
  induction acc with
  | nil => rfl
  | cons a r ih =>
    obtain ⟨k', v'⟩ := a
    have h1 : DVal.beq k' k = false := h (k', v') (by simp)
    simp [dInsert, h1, ih (fun e he => h e (by simp [he]))]

theorem keysDistinct_append_singleton (acc r : List (DVal × DVal)) (e : DVal × DVal)
    (h : KeysDistinct (acc ++ e :: r)) : (∀ x ∈ acc, DVal.beq x.1 e.1 = false) ∧ KeysDistinct ((acc ++ [e]) ++ r) := by
  constructor
  · intro x hx
    have := List.pairwise_append.mp h
    exact this.2.2 x hx e (by simp)
  · simpa [List.append_assoc] using h

/-- the `visit_map` loop rebuilds a map with pairwise distinct keys -/
theorem dCollectMap_rt (f : Fmt) (tk tv : DVal → SVal) (pk pv : SVal → Res DVal) (m acc : List (DVal × DVal))
    (hd : KeysDistinct (acc ++ m))
    (hk : ∀ e ∈ m, pk (lossy f (tk e.1)) = .ok e.1) (hv : ∀ e ∈ m, pv (lossy f (tv e.2)) = .ok e.2) :
    dCollectMap pk pv (m.map fun e => (lossy f (tk e.1), lossy f (tv e.2))) acc = .ok (acc ++ m) := by
  induction m generalizing acc with
  | nil => simp [dCollectMap]
  | cons e r ih =>
    obtain ⟨k, v⟩ := e
    have h1 := hk (k, v) (by simp)
    have h2 := hv (k, v) (by simp)
    obtain ⟨hnew, hd'⟩ := keysDistinct_append_singleton acc r (k, v) hd
    simp only [List.map_cons, dCollectMap] at h1 h2 ⊢
    rw [h1, h2]
    simp only [dInsert_new acc k v hnew]
    have := ih (acc ++ [(k, v)]) hd' (fun e he => hk e (by simp [he])) (fun e he => hv e (by simp [he]))
    simpa [List.append_assoc] using this

theorem dCollectPairs_rt (f : Fmt) (tk tv : DVal → SVal) (pk pv : SVal → Res DVal) (m acc : List (DVal × DVal))
    (hd : KeysDistinct (acc ++ m))
    (hk : ∀ e ∈ m, pk (lossy f (tk e.1)) = .ok e.1) (hv : ∀ e ∈ m, pv (lossy f (tv e.2)) = .ok e.2) :
    dCollectPairs pk pv (m.map fun e => SVal.seq [lossy f (tk e.1), lossy f (tv e.2)]) acc = .ok (acc ++ m) := by
  induction m generalizing acc with
  | nil => simp [dCollectPairs]
  | cons e r ih =>
    obtain ⟨k, v⟩ := e
    have h1 := hk (k, v) (by simp)
    have h2 := hv (k, v) (by simp)
    obtain ⟨hnew, hd'⟩ := keysDistinct_append_singleton acc r (k, v) hd
    simp only [List.map_cons, dCollectPairs] at h1 h2 ⊢
    rw [h1, h2]
    simp only [dInsert_new acc k v hnew]
    have := ih (acc ++ [(k, v)]) hd' (fun e he => hk e (by simp [he])) (fun e he => hv e (by simp [he]))
    simpa [List.append_assoc] using this

/-! ### field identifiers -/

theorem keyIdx_sound : ∀ (keys : List String) (k : String) (j : Nat), keyIdx keys k = some j → keys[j]? = some k := by
  intro keys
  induction keys with
  | nil => intro k j h; simp [keyIdx] at h
  | cons a r ih =>
    intro k j h
    simp only [keyIdx] at h
    by_cases hak : a = k
    · simp only [hak, if_true] at h
      cases h
      simp [hak]
    · simp only [hak, if_false] at h
      cases hr : keyIdx r k with
      | none => simp [hr] at h
      | some j' =>
        simp only [hr, Option.map_some, Option.some.injEq] at h
        subst h
        simpa using ih k j' hr

theorem keyIdx_complete : ∀ (keys : List String) (k : String) (i : Nat), keys.Nodup → keys[i]? = some k →
    keyIdx keys k = some i := by
  intro keys
  induction keys with
  | nil => intro k i _ h; simp at h
  | cons a r ih =>
    intro k i hnd h
    simp only [List.nodup_cons] at hnd
    cases i with
    | zero =>
      simp at h
      simp [keyIdx, h]
    | succ i' =>
      simp only [List.getElem?_cons_succ] at h
      have hmem : k ∈ r := List.mem_of_getElem? h
      have hak : ¬ a = k := fun e => hnd.1 (e ▸ hmem)
      simp [keyIdx, hak, ih k i' hnd.2 h]

/-! ### struct visitors -/

theorem slotOf_miss (flat : Bool) (keys : List String) (i : Nat) (p : SVal → Res DVal) (fm : Fmt) (k : String)
    (hi : keys[i]? = some k) : ∀ (es : List (String × SVal)) (acc : Option DVal), k ∉ es.map Prod.fst →
    slotOf flat keys i p (lossyF fm es) acc = .ok acc := by
  intro es
  induction es with
  | nil => intro acc _; rfl
  | cons e r ih =>
    intro acc hk
    obtain ⟨k', s'⟩ := e
    simp only [List.map_cons, List.mem_cons, not_or] at hk
    simp only [lossyF, slotOf, fieldIdx]
    cases hj : keyIdx keys k' with
    | none => simp only; exact ih acc hk.2
    | some j =>
      have hjk := keyIdx_sound keys k' j hj
      have hne : ¬ j = i := by
        intro e
        rw [e, hi] at hjk
        exact hk.1 (Option.some.inj hjk)
      simp only [hne, if_false]
      exact ih acc hk.2

theorem slotOf_hit (flat : Bool) (keys : List String) (i : Nat) (p : SVal → Res DVal) (fm : Fmt) (k : String)
    (hnd : keys.Nodup) (hi : keys[i]? = some k) (s : SVal) (a : DVal) (hp : p (lossy fm s) = .ok a) :
    ∀ (es : List (String × SVal)), (es.map Prod.fst).Nodup → (k, s) ∈ es →
    slotOf flat keys i p (lossyF fm es) Option.none = .ok (some a) := by
  intro es
  induction es with
  | nil => intro _ h; simp at h
  | cons e r ih =>
    intro hes hm
    obtain ⟨k', s'⟩ := e
    simp only [List.map_cons, List.nodup_cons] at hes
    simp only [List.mem_cons, Prod.mk.injEq] at hm
    by_cases hk : k' = k
    · subst hk
      have hs : s = s' := by
        rcases hm with ⟨_, h⟩ | h
        · exact h
        · exact absurd (List.mem_map_of_mem (f := Prod.fst) h) hes.1
      subst hs
      simp only [lossyF, slotOf, fieldIdx, keyIdx_complete keys k' i hnd hi, if_true, Option.isSome_none,
        Bool.false_eq_true, if_false, hp]
      exact slotOf_miss flat keys i p fm k' hi r (some a) hes.1
    · have hm' : (k, s) ∈ r := by
        rcases hm with ⟨h, _⟩ | h
        · exact absurd h.symm hk
        · exact h
      simp only [lossyF, slotOf, fieldIdx]
      cases hj : keyIdx keys k' with
      | none => simp only; exact ih hes.2 hm'
      | some j =>
        have hjk := keyIdx_sound keys k' j hj
        have hne : ¬ j = i := by
          intro e
          rw [e, hi] at hjk
          exact hk (Option.some.inj hjk).symm
        simp only [hne, if_false]
        exact ih hes.2 hm'

/-- every (field, value) pair decodes back from the format's view of its encoding -/
def pairsOk (rcS : RecS) (rcD : RecD) (h : Bool) (fm : Fmt) : List SerdeField → List DVal → Prop
  | [], [] => True
  | f :: fs, v :: vs => fieldOfS rcD f h (lossy fm (fieldToS rcS f h v)) = .ok v ∧ pairsOk rcS rcD h fm fs vs
  | _, _ => False

theorem zipFields_keys (rcS : RecS) (h : Bool) : ∀ (fields : List SerdeField) (vs : List DVal),
    fields.length = vs.length → (zipFields rcS h fields vs).map Prod.fst = fields.map (·.key) := by
  intro fields
  induction fields with
  | nil => intro vs _; cases vs <;> simp [zipFields]
  | cons f fs ih =>
    intro vs hl
    cases vs with
    | nil => simp at hl
    | cons v vs' => simp [zipFields, ih vs' (by simpa using hl)]

theorem pairsOk_length (rcS : RecS) (rcD : RecD) (h : Bool) (fm : Fmt) : ∀ fields vs,
    pairsOk rcS rcD h fm fields vs → fields.length = vs.length := by
  intro fields
  induction fields with
  | nil => intro vs h; cases vs <;> simp_all [pairsOk]
  | cons f fs ih =>
    intro vs h
    cases vs with
    | nil => simp [pairsOk] at h
    | cons v vs' => simp [pairsOk] at h; simp [ih vs' h.2]

/-- `visit_seq`: the fields by position -/
theorem seqFields_rt (rcS : RecS) (rcD : RecD) (h : Bool) (fm : Fmt) : ∀ fields vs,
    pairsOk rcS rcD h fm fields vs →
    seqFields rcD h fields ((zipFields rcS h fields vs).map fun e => lossy fm e.2) = .ok vs := by
  intro fields
  induction fields with
  | nil => intro vs h; cases vs <;> simp_all [pairsOk, zipFields, seqFields]
  | cons f fs ih =>
    intro vs h
    cases vs with
    | nil => simp [pairsOk] at h
    | cons v vs' =>
      simp only [pairsOk] at h
      simp [zipFields, seqFields, h.1, ih vs' h.2]

/-- `visit_map`: the fields by key, from position `pre.length` on -/
theorem mapFields_rt (rcS : RecS) (rcD : RecD) (flat h : Bool) (fm : Fmt) (keys : List String) (es : List (String × SVal))
    (hnd : keys.Nodup) (hes : es.map Prod.fst = keys) :
    ∀ (fs : List SerdeField) (vs : List DVal) (i : Nat),
      (∀ (j : Nat) f, fs[j]? = some f → keys[i + j]? = some f.key) →
      (∀ (j : Nat) f v, fs[j]? = some f → vs[j]? = some v → (f.key, fieldToS rcS f h v) ∈ es) →
      pairsOk rcS rcD h fm fs vs →
      mapFields rcD flat keys h (lossyF fm es) i fs = .ok vs := by
  intro fs
  induction fs with
  | nil => intro vs i _ _ hp; cases vs <;> simp_all [pairsOk, mapFields]
  | cons f fs' ih =>
    intro vs i hkeys hmem hp
    cases vs with
    | nil => simp [pairsOk] at hp
    | cons v vs' =>
      simp only [pairsOk] at hp
      have hki : keys[i]? = some f.key := by simpa using hkeys 0 f (by simp)
      have hin : (f.key, fieldToS rcS f h v) ∈ es := hmem 0 f v (by simp) (by simp)
      have hslot := slotOf_hit flat keys i (fieldOfS rcD f h) fm f.key hnd hki _ v hp.1 es (by rw [hes]; exact hnd) hin
      have hrest := ih vs' (i + 1)
        (fun j g hg => by have := hkeys (j + 1) g (by simpa using hg); simpa [Nat.add_assoc, Nat.add_comm 1 j] using this)
        (fun j g w hg hw => hmem (j + 1) g w (by simpa using hg) (by simpa using hw))
        hp.2
      simp only [mapFields, hslot, hrest]


theorem zipFields_mem (rcS : RecS) (h : Bool) : ∀ (fs : List SerdeField) (vs : List DVal) (j : Nat) (f : SerdeField) (v : DVal),
    fs[j]? = some f → vs[j]? = some v → (f.key, fieldToS rcS f h v) ∈ zipFields rcS h fs vs := by
  intro fs
  induction fs with
  | nil => intro vs j f v hf; simp at hf
  | cons g gs ih =>
    intro vs j f v hf hv
    cases vs with
    | nil => simp at hv
    | cons w ws =>
      cases j with
      | zero =>
        simp at hf hv
        subst hf; subst hv
        simp [zipFields]
      | succ j' =>
        simp only [List.getElem?_cons_succ] at hf hv
        simp only [zipFields, List.mem_cons]
        exact Or.inr (ih ws j' f v hf hv)

theorem lossyM_strKeys (fm : Fmt) (es : List (String × SVal)) :
    lossyM fm (es.map fun e => (SVal.str e.1, e.2)) = lossyF fm es := by
  induction es with
  | nil => rfl
  | cons e r ih => obtain ⟨k, s⟩ := e; simp [lossyM, lossyF, lossy, ih]

theorem lossy_structToS (rcS : RecS) (nm : String) (fields : List SerdeField) (flat h : Bool) (fm : Fmt) (vs : List DVal) :
    lossy fm (structToS rcS nm fields flat h vs) = .map (lossyF fm (zipFields rcS h fields vs)) := by
  cases flat with
  | true => simp [structToS, lossy, lossyM_strKeys]
  | false => simp [structToS, lossy]

/-- GENERIC DERIVED STRUCT, `visit_map`: a struct whose field keys are pairwise distinct round-trips through the
    format's view (a map keyed by field name) as soon as every field does -/
theorem structOfS_rt (rcS : RecS) (rcD : RecD) (nm : String) (fields : List SerdeField) (flat h : Bool) (fm : Fmt)
    (vs : List DVal) (hnd : (fields.map (·.key)).Nodup) (hp : pairsOk rcS rcD h fm fields vs) :
    structOfS rcD fields flat h (lossy fm (structToS rcS nm fields flat h vs)) = .ok (.record vs) := by
  rw [lossy_structToS]
  have hl := pairsOk_length rcS rcD h fm fields vs hp
  have := mapFields_rt rcS rcD flat h fm (fields.map (·.key)) (zipFields rcS h fields vs) hnd
    (zipFields_keys rcS h fields vs hl) fields vs 0
    (fun j f hf => by simp [List.getElem?_map, hf])
    (fun j f v hf hv => zipFields_mem rcS h fields vs j f v hf hv) hp
  simp [structOfS, this]

/-- GENERIC DERIVED STRUCT, `visit_seq`: the same struct read by position from the sequence of its field values
    (formats that write structs as sequences; not available when a field is flattened) -/
theorem structOfS_seq_rt (rcS : RecS) (rcD : RecD) (fields : List SerdeField) (h : Bool) (fm : Fmt)
    (vs : List DVal) (hp : pairsOk rcS rcD h fm fields vs) :
    structOfS rcD fields false h (.seq ((zipFields rcS h fields vs).map fun e => lossy fm e.2)) = .ok (.record vs) := by
  simp [structOfS, seqFields_rt rcS rcD h fm fields vs hp]

/-! ### fields and hooks -/

theorem lossy_map_pairs (fm : Fmt) (tk tv : DVal → SVal) (l : List (DVal × DVal)) :
    lossy fm (.map (l.map fun e => (tk e.1, tv e.2))) = .map (l.map fun e => (lossy fm (tk e.1), lossy fm (tv e.2))) := by
  simp only [lossy]
  congr 1
  induction l with
  | nil => rfl
  | cons e r ih => simp [lossyM, ih]

theorem lossy_seq_tuples (fm : Fmt) (tk tv : DVal → SVal) (l : List (DVal × DVal)) :
    lossy fm (.seq (l.map fun e => .tuple [tk e.1, tv e.2])) = .seq (l.map fun e => .seq [lossy fm (tk e.1), lossy fm (tv e.2)]) := by
  simp only [lossy]
  congr 1
  induction l with
  | nil => rfl
  | cons e r ih => simp [lossyL, lossy, ih]

theorem lossy_seq_tupleStructs (fm : Fmt) (n : String) (tk tv : DVal → SVal) (l : List (DVal × DVal)) :
    lossy fm (.seq (l.map fun e => .tupleStruct n [tk e.1, tv e.2])) = .seq (l.map fun e => .seq [lossy fm (tk e.1), lossy fm (tv e.2)]) := by
  simp only [lossy]
  congr 1
  induction l with
  | nil => rfl
  | cons e r ih => simp [lossyL, lossy, ih]

theorem keysDistinct_nil_append (l : List (DVal × DVal)) (h : KeysDistinct l) : KeysDistinct ([] ++ l) := by simpa using h

/-- a field round-trips when the values of its type do (`hrec`), whatever its hook -/
theorem fieldOfS_rt (rcS : RecS) (rcD : RecD) (wt : SerdeTy → DVal → Prop) (h : Bool) (fm : Fmt)
    (hrec : ∀ t x, wt t x → rcD t h (lossy fm (rcS t h x)) = .ok x)
    (f : SerdeField) (v : DVal) (hw : fieldWT wt f v) :
    fieldOfS rcD f h (lossy fm (fieldToS rcS f h v)) = .ok v := by
  unfold fieldWT at hw
  unfold fieldOfS fieldToS
  by_cases h0 : f.hook = ""
  · simp only [h0, if_true] at hw ⊢
    exact hrec _ _ hw
  · simp only [h0, if_false] at hw ⊢
    by_cases h1 : f.hook = "hex_bytes"
    · simp only [h1, if_true] at hw ⊢
      obtain ⟨b, rfl⟩ := hw
      simp [bytesOf, hexBytes_rt]
    · simp only [h1, if_false] at hw ⊢
      by_cases h2 : f.hook = "serde_fallback_locktime"
      · simp only [h2, if_true] at hw ⊢
        rcases hw with rfl | ⟨n, rfl, hn⟩
        · simp [lossy]
        · simp [lossy, ofNum, hn]
      · simp only [h2, if_false] at hw ⊢
        by_cases h3 : f.hook = "serde_parity"
        · simp only [h3, if_true] at hw ⊢
          obtain ⟨p, rfl, hp⟩ := hw
          have : p < 256 := by omega
          simp [lossy, ofNum, this, hp]
        · simp only [h3, if_false] at hw ⊢
          cases hty : f.ty with
          | map k vt =>
            rw [hty] at hw
            cases v with
            | map l =>
              simp only at hw ⊢
              by_cases h4 : f.hook = "btreemap_byte_values"
              · simp only [h4, true_or, if_true] at hw ⊢
                obtain ⟨hk, hb, hd⟩ := hw
                rw [lossy_map_pairs fm (fun x => rcS k h x) (fun x => if h then sStr (hexStr (bytesOf x)) else sVecU8 (bytesOf x))]
                simp only
                rw [dCollectMap_rt fm (fun x => rcS k h x) (fun x => if h then sStr (hexStr (bytesOf x)) else sVecU8 (bytesOf x))
                  (rcD k h) (fun v => resMap .bytes (ByteValues.ofVal h v)) l [] (keysDistinct_nil_append l hd)
                  (fun e he => hrec k e.1 (hk e he))
                  (fun e he => by
                    obtain ⟨b, hb'⟩ := hb e he
                    simp only [hb', bytesOf]
                    have := byteValues_ofVal_rt h fm b
                    simp only [this, resMap_ok])]
                simp
              · simp only [h4, false_or, if_false] at hw ⊢
                by_cases h5 : f.hook = "btreemap_as_seq"
                · have h6 : ¬ f.hook = "btreemap_as_seq_byte_values" := by rw [h5]; decide
                  simp only [h5, h6, if_true, if_false] at hw ⊢
                  obtain ⟨hkv, hd⟩ := hw
                  cases h with
                  | true =>
                    simp only [if_true]
                    rw [lossy_seq_tuples fm (fun x => rcS k true x) (fun x => rcS vt true x)]
                    simp only [if_true]
                    rw [dCollectPairs_rt fm (fun x => rcS k true x) (fun x => rcS vt true x) (rcD k true) (rcD vt true) l []
                      (keysDistinct_nil_append l hd) (fun e he => hrec k e.1 (hkv e he).1) (fun e he => hrec vt e.2 (hkv e he).2)]
                    simp
                  | false =>
                    simp only [Bool.false_eq_true, if_false]
                    rw [lossy_map_pairs fm (fun x => rcS k false x) (fun x => rcS vt false x)]
                    simp only [Bool.false_eq_true, if_false]
                    rw [dCollectMap_rt fm (fun x => rcS k false x) (fun x => rcS vt false x) (rcD k false) (rcD vt false) l []
                      (keysDistinct_nil_append l hd) (fun e he => hrec k e.1 (hkv e he).1) (fun e he => hrec vt e.2 (hkv e he).2)]
                    simp
                · simp only [h5, if_false] at hw ⊢
                  by_cases h6 : f.hook = "btreemap_as_seq_byte_values"
                  · simp only [h6, if_true] at hw ⊢
                    obtain ⟨hk, hb, hd⟩ := hw
                    cases h with
                    | true =>
                      simp only [if_true]
                      rw [lossy_seq_tupleStructs fm "BorrowedPair" (fun x => rcS k true x) (fun x => HexBytes.toS true (bytesOf x))]
                      simp only [if_true]
                      rw [dCollectPairs_rt fm (fun x => rcS k true x) (fun x => HexBytes.toS true (bytesOf x)) (rcD k true)
                        (fun v => resMap .bytes (HexBytes.ofS true v)) l [] (keysDistinct_nil_append l hd)
                        (fun e he => hrec k e.1 (hk e he))
                        (fun e he => by
                          obtain ⟨b, hb'⟩ := hb e he
                          simp only [hb', bytesOf, hexBytes_rt, resMap_ok])]
                      simp
                    | false =>
                      simp only [Bool.false_eq_true, if_false]
                      rw [lossy_map_pairs fm (fun x => rcS k false x) (fun x => sVecU8 (bytesOf x))]
                      simp only [Bool.false_eq_true, if_false]
                      rw [dCollectMap_rt fm (fun x => rcS k false x) (fun x => sVecU8 (bytesOf x)) (rcD k false)
                        (fun v => resMap .bytes (ofVecU8 v)) l [] (keysDistinct_nil_append l hd)
                        (fun e he => hrec k e.1 (hk e he))
                        (fun e he => by
                          obtain ⟨b, hb'⟩ := hb e he
                          simp only [hb', bytesOf, ofVecU8_rt, resMap_ok])]
                      simp
                  · simp only [h6, if_false] at hw
            | _ => simp at hw
          | _ => rw [hty] at hw; simp at hw


/-! ### the interpreter -/

theorem pairsOk_of_fieldsWT (rcS : RecS) (rcD : RecD) (wt : SerdeTy → DVal → Prop) (h : Bool) (fm : Fmt)
    (hrec : ∀ t x, wt t x → rcD t h (lossy fm (rcS t h x)) = .ok x) :
    ∀ fields vs, fieldsWT wt fields vs → pairsOk rcS rcD h fm fields vs := by
  intro fields
  induction fields with
  | nil => intro vs h; cases vs <;> simp_all [fieldsWT, pairsOk]
  | cons f fs ih =>
    intro vs hw
    cases vs with
    | nil => simp [fieldsWT] at hw
    | cons v vs' =>
      simp only [fieldsWT] at hw
      exact ⟨fieldOfS_rt rcS rcD wt h fm hrec f v hw.1, ih vs' hw.2⟩

theorem lookup_shapeOk (tbl : Table) (hok : tableOk tbl = true) (nm : String) (sh : SerdeShape)
    (hl : tbl.lookup nm = some sh) : shapeOk sh = true := by
  have hm := lookup_mem tbl nm sh hl
  simp only [tableOk, List.all_eq_true] at hok
  exact hok (nm, sh) hm

theorem match_ne_unit {α} (s : SVal) (a : α) (g : SVal → α) (hs : s ≠ .unit) :
    (match s with | .unit => a | s => g s) = g s := by
  cases s <;> first | rfl | exact absurd rfl hs

section
variable (env : Env) (tbl : Table) (okLeaf : String → DVal → Prop) (h : Bool) (fm : Fmt)

/-- a well-typed value of a type that `nonNullTy` accepts never serializes to null -/
theorem dToS_nonnull
    (hleaf : ∀ nm L, tbl.lookup nm = Option.none → env nm = some L → LeafLaw L (okLeaf nm) h fm)
    (henv : ∀ nm v, tbl.lookup nm = Option.none → okLeaf nm v → ∃ L, env nm = some L) :
    ∀ n ty v, nonNullTy tbl n ty = true → dWT okLeaf tbl n ty v → lossy fm (dToS env tbl n ty h v) ≠ .unit := by
  intro n
  induction n with
  | zero => intro ty v _ hw; simp [dWT] at hw
  | succ n ih =>
    intro ty v hnn hw
    cases ty with
    | u8 => simp only [dWT] at hw; obtain ⟨x, rfl, _⟩ := hw; simp [dToS, lossy]
    | u16 => simp only [dWT] at hw; obtain ⟨x, rfl, _⟩ := hw; simp [dToS, lossy]
    | u32 => simp only [dWT] at hw; obtain ⟨x, rfl, _⟩ := hw; simp [dToS, lossy]
    | u64 => simp only [dWT] at hw; obtain ⟨x, rfl, _⟩ := hw; simp [dToS, lossy]
    | usize => simp only [dWT] at hw; obtain ⟨x, rfl, _⟩ := hw; simp [dToS, lossy]
    | bool => simp only [dWT] at hw; obtain ⟨b, rfl⟩ := hw; simp [dToS, lossy]
    | opt t => simp [nonNullTy] at hnn
    | vec t =>
      simp only [dWT] at hw
      by_cases ht : t = .u8
      · subst ht; simp only [if_true] at hw; obtain ⟨b, rfl⟩ := hw; simp [dToS, sVecU8, lossy]
      · simp only [ht, if_false] at hw; obtain ⟨l, rfl, _⟩ := hw; simp [dToS, ht, lossy]
    | arr k => simp only [dWT] at hw; obtain ⟨b, rfl, _⟩ := hw; simp [dToS, sArr, lossy]
    | map k vt => simp only [dWT] at hw; obtain ⟨l, rfl, _⟩ := hw; simp [dToS, lossy]
    | pair a b => simp only [dWT] at hw; obtain ⟨x, y, rfl, _⟩ := hw; simp [dToS, lossy]
    | named nm =>
      simp only [dWT] at hw
      simp only [nonNullTy] at hnn
      cases hl : tbl.lookup nm with
      | none =>
        rw [hl] at hw
        simp only at hw
        obtain ⟨L, hL⟩ := henv nm v hl hw
        simp only [dToS, hl, hL]
        exact (hleaf nm L hl hL).nonnull v hw
      | some sh =>
        rw [hl] at hw hnn
        cases sh with
        | struct fields flat =>
          simp only at hw
          obtain ⟨vs, rfl, _⟩ := hw
          simp only [dToS, hl]
          rw [lossy_structToS]
          simp
        | newtype t =>
          simp only at hw hnn
          simp only [dToS, hl, lossy]
          exact ih t v hnn hw
        | enum vars =>
          simp only at hw
          obtain ⟨i, p, rfl, vt, hvi, _⟩ := hw
          simp only [dToS, hl, hvi]
          cases fm <;> simp [lossy]

/-- THE GENERIC THEOREM: every well-typed value of every type over the table round-trips through the format's view,
    given the leaf codecs' laws -/
theorem dRoundtrip (hc : compatible h fm) (htbl : tableOk tbl = true)
    (hleaf : ∀ nm L, tbl.lookup nm = Option.none → env nm = some L → LeafLaw L (okLeaf nm) h fm)
    (henv : ∀ nm v, tbl.lookup nm = Option.none → okLeaf nm v → ∃ L, env nm = some L) :
    ∀ n ty v, dWT okLeaf tbl n ty v → dOfS env tbl n ty h (lossy fm (dToS env tbl n ty h v)) = .ok v := by
  intro n
  induction n with
  | zero => intro ty v hw; simp [dWT] at hw
  | succ n ih =>
    intro ty v hw
    cases ty with
    | u8 => simp only [dWT] at hw; obtain ⟨x, rfl, hx⟩ := hw; simp [dToS, lossy, dOfS, ofNum, hx]
    | u16 => simp only [dWT] at hw; obtain ⟨x, rfl, hx⟩ := hw; simp [dToS, lossy, dOfS, ofNum, hx]
    | u32 => simp only [dWT] at hw; obtain ⟨x, rfl, hx⟩ := hw; simp [dToS, lossy, dOfS, ofNum, hx]
    | u64 => simp only [dWT] at hw; obtain ⟨x, rfl, hx⟩ := hw; simp [dToS, lossy, dOfS, ofNum, hx]
    | usize => simp only [dWT] at hw; obtain ⟨x, rfl, hx⟩ := hw; simp [dToS, lossy, dOfS, ofNum, hx]
    | bool => simp only [dWT] at hw; obtain ⟨b, rfl⟩ := hw; simp [dToS, lossy, dOfS, ofBool]
    | opt t =>
      simp only [dWT] at hw
      rcases hw with rfl | ⟨x, rfl, hx, hnn⟩
      · simp [dToS, lossy, dOfS]
      · have hne := dToS_nonnull env tbl okLeaf h fm hleaf henv n t x hnn hx
        simp only [dToS, lossy, dOfS]
        rw [ih t x hx]
        rfl
    | vec t =>
      simp only [dWT] at hw
      by_cases ht : t = .u8
      · simp only [ht, if_true] at hw
        obtain ⟨b, rfl⟩ := hw
        simp [dToS, dOfS, ht, ofVecU8_rt]
      · simp only [ht, if_false] at hw
        obtain ⟨l, rfl, hl⟩ := hw
        simp only [dToS, dOfS, ht, if_false]
        rw [ofSeq_rt fm (dToS env tbl n t h) (dOfS env tbl n t h) l (fun a ha => ih t a (hl a ha))]
        rfl
    | arr k =>
      simp only [dWT] at hw
      obtain ⟨b, rfl, hb⟩ := hw
      simp [dToS, dOfS, ofArr_rt fm k b hb]
    | map k vt =>
      simp only [dWT] at hw
      obtain ⟨l, rfl, hkv, hd⟩ := hw
      simp only [dToS, dOfS]
      rw [lossy_map_pairs fm (fun x => dToS env tbl n k h x) (fun x => dToS env tbl n vt h x)]
      simp only
      rw [dCollectMap_rt fm (fun x => dToS env tbl n k h x) (fun x => dToS env tbl n vt h x) (dOfS env tbl n k h)
        (dOfS env tbl n vt h) l [] (keysDistinct_nil_append l hd) (fun e he => ih k e.1 (hkv e he).1)
        (fun e he => ih vt e.2 (hkv e he).2)]
      simp
    | pair a b =>
      simp only [dWT] at hw
      obtain ⟨x, y, rfl, hx, hy⟩ := hw
      simp [dToS, dOfS, lossy, lossyL, ih a x hx, ih b y hy]
    | named nm =>
      simp only [dWT] at hw
      cases hl : tbl.lookup nm with
      | none =>
        rw [hl] at hw
        simp only at hw
        obtain ⟨L, hL⟩ := henv nm v hl hw
        simp only [dToS, dOfS, hl, hL]
        exact (hleaf nm L hl hL).rt v hw
      | some sh =>
        rw [hl] at hw
        have hsh := lookup_shapeOk tbl htbl nm sh hl
        cases sh with
        | struct fields flat =>
          simp only at hw
          obtain ⟨vs, rfl, hf⟩ := hw
          simp only [shapeOk, decide_eq_true_eq] at hsh
          simp only [dToS, dOfS, hl]
          exact structOfS_rt (dToS env tbl n) (dOfS env tbl n) nm fields flat h fm vs hsh
            (pairsOk_of_fieldsWT _ _ (dWT okLeaf tbl n) h fm (fun t x hx => ih t x hx) fields vs hf)
        | newtype t =>
          simp only at hw
          simp only [dToS, dOfS, hl, lossy]
          exact ih t v hw
        | enum vars =>
          simp only at hw
          obtain ⟨i, p, rfl, vt, hvi, hp⟩ := hw
          simp only [shapeOk, decide_eq_true_eq] at hsh
          have hname : (vars.map (·.1))[i]? = some vt.1 := by simp [List.getElem?_map, hvi]
          have hidx := keyIdx_complete (vars.map (·.1)) vt.1 i hsh hname
          have hrt := ih vt.2 p hp
          simp only [dToS, dOfS, hl, hvi]
          cases fm with
          | json => simp [lossy, enumOfS, variantIdx, hidx, hvi, hrt]
          | cbor => simp [lossy, enumOfS, variantIdx, hidx, hvi, hrt]
end


/-! ### the leaf codecs of /repo's own impls satisfy their law -/

section
variable (P : Prims) (h : Bool) (fm : Fmt) (hc : compatible h fm)
include hc

theorem law_tx : LeafLaw (txLeaf P) (fun v => ∃ t, v = .tx t ∧ Tx.ok P t) h fm where
  rt := by rintro v ⟨t, rfl, ht⟩; simp [txLeaf, tx_rt P h fm hc t ht]
  nonnull := by rintro v ⟨t, rfl, _⟩; simp [txLeaf, Tx.toS, lossy]

theorem law_txout : LeafLaw (txOutLeaf P) (fun v => ∃ o, v = .txout o ∧ TxOut.ok P o) h fm where
  rt := by rintro v ⟨o, rfl, ho⟩; simp [txOutLeaf, txOut_rt P h fm hc o ho]
  nonnull := by rintro v ⟨o, rfl, _⟩; simp [txOutLeaf, TxOut.toS, lossy]

omit hc in
theorem law_script : LeafLaw scriptLeaf isBytes h fm where
  rt := by rintro v ⟨b, rfl⟩; simp [scriptLeaf, bytesOf, ofScript_rt]
  nonnull := by rintro v ⟨b, rfl⟩; simp [scriptLeaf, sScript, lossy_sStr]

omit hc in
theorem lossy_sHash_ne (k : HashKind) (b : Bytes) : lossy fm (sHash k h b) ≠ .unit := by
  cases h <;> cases fm <;> simp [sHash, lossy_sStr, lossy]

omit hc in
theorem lossy_sHexOrBytes_ne (b : Bytes) : lossy fm (sHexOrBytes h b) ≠ .unit := by
  cases h <;> cases fm <;> simp [sHexOrBytes, lossy_sStr, lossy]

theorem law_hash (k : HashKind) : LeafLaw (hashLeaf k) (isBytesLen k.len) h fm where
  rt := by rintro v ⟨b, rfl, hb⟩; simp [hashLeaf, bytesOf, ofHash_rt k h fm hc b hb]
  nonnull := by rintro v ⟨b, rfl, _⟩; simp only [hashLeaf, bytesOf]; exact lossy_sHash_ne h fm k b

theorem law_bf : LeafLaw (bfLeaf P) (fun v => ∃ b, v = .bytes b ∧ BlindingFactor.ok P b) h fm where
  rt := by rintro v ⟨b, rfl, hb⟩; simp [bfLeaf, bytesOf, blindingFactor_rt P h fm hc b hb]
  nonnull := by
    rintro v ⟨b, rfl, _⟩
    cases h <;> cases fm <;> simp [bfLeaf, bytesOf, BlindingFactor.toS, lossy_sStr, lossy]

omit hc in
theorem law_psbtsh : LeafLaw psbtSighashLeaf (fun v => ∃ n, v = .nat n ∧ n < 2^32) h fm where
  rt := by rintro v ⟨n, rfl, hn⟩; simp [psbtSighashLeaf, string_rt fm psbtParse _ n (psbtParse_psbtShow n hn)]
  nonnull := by rintro v ⟨n, rfl, _⟩; simp [psbtSighashLeaf, stringToS, lossy]

omit hc in
theorem law_schnorrsh : LeafLaw schnorrSighashLeaf (fun v => ∃ n, v = .nat n ∧ (schnorrShow n).isSome = true) h fm where
  rt := by
    rintro v ⟨n, rfl, hn⟩
    cases hs : schnorrShow n with
    | none => rw [hs] at hn; cases hn
    | some str => simp [schnorrSighashLeaf, hs, string_rt fm schnorrParse str n (schnorrParse_schnorrShow n str hs)]
  nonnull := by rintro v ⟨n, rfl, _⟩; simp [schnorrSighashLeaf, stringToS, lossy]

theorem law_point (valid : Bytes → Bool) : LeafLaw (pointLeaf valid) (fun v => ∃ b, v = .bytes b ∧ b.length = 33 ∧ valid b = true) h fm where
  rt := by rintro v ⟨b, rfl, hl, hv⟩; simp [pointLeaf, bytesOf, ofPoint_rt valid h fm hc b hl hv]
  nonnull := by rintro v ⟨b, rfl, _⟩; simp only [pointLeaf, bytesOf]; exact lossy_sHexOrBytes_ne h fm b

theorem law_tweak : LeafLaw (tweakLeaf P) (fun v => ∃ b, v = .bytes b ∧ b.length = 32 ∧ P.tweak b = true) h fm where
  rt := by rintro v ⟨b, rfl, hl, hv⟩; simp [tweakLeaf, bytesOf, ofTweak_rt P h fm hc b hl hv]
  nonnull := by rintro v ⟨b, rfl, _⟩; simp only [tweakLeaf, bytesOf]; exact lossy_sHexOrBytes_ne h fm b

theorem law_proof (valid : Bytes → Bool) : LeafLaw (proofLeaf valid) (fun v => ∃ b, v = .bytes b ∧ valid b = true) h fm where
  rt := by rintro v ⟨b, rfl, hv⟩; simp [proofLeaf, bytesOf, ofProof_rt valid h fm hc b hv]
  nonnull := by rintro v ⟨b, rfl, _⟩; simp only [proofLeaf, bytesOf]; exact lossy_sHexOrBytes_ne h fm b
end

/-- codecs and value predicates listed in the same order, each codec lawful for its predicate -/
def AllLaw (h : Bool) (fm : Fmt) : List (String × Leaf) → List (String × (DVal → Prop)) → Prop
  | [], [] => True
  | (n1, L) :: r1, (n2, p) :: r2 => n1 = n2 ∧ LeafLaw L p h fm ∧ AllLaw h fm r1 r2
  | _, _ => False

theorem allLaw_lookup (h : Bool) (fm : Fmt) : ∀ (l1 : List (String × Leaf)) (l2 : List (String × (DVal → Prop))),
    AllLaw h fm l1 l2 → ∀ k,
    (∀ L, l1.lookup k = some L → ∃ p, l2.lookup k = some p ∧ LeafLaw L p h fm) ∧
    (∀ p, l2.lookup k = some p → ∃ L, l1.lookup k = some L) := by
  intro l1
  induction l1 with
  | nil =>
    intro l2 hall k
    cases l2 with
    | nil => simp [List.lookup]
    | cons b r => simp [AllLaw] at hall
  | cons a r1 ih =>
    intro l2 hall k
    cases l2 with
    | nil => obtain ⟨n1, L⟩ := a; simp [AllLaw] at hall
    | cons b r2 =>
      obtain ⟨n1, L⟩ := a
      obtain ⟨n2, p⟩ := b
      simp only [AllLaw] at hall
      obtain ⟨rfl, hlaw, hrest⟩ := hall
      by_cases hk : k = n1
      · subst hk
        simp [List.lookup, hlaw]
      · have hk' : (k == n1) = false := by simpa using hk
        simp only [List.lookup, hk']
        exact ih r2 hrest k

theorem std_allLaw (P : Prims) (X : Deps) (D : DepsOk) (h : Bool) (fm : Fmt) (hc : compatible h fm)
    (hX : DepsLawful X D h fm) : AllLaw h fm (repoLeaves P ++ depLeaves X) (leafOks P D) := by
  simp only [repoLeaves, depLeaves, leafOks, List.cons_append, List.nil_append, AllLaw, true_and, and_true]
  exact ⟨law_tx P h fm hc, law_txout P h fm hc, law_script h fm, law_hash h fm hc ⟨32, true⟩, law_hash h fm hc ⟨32, true⟩,
    law_hash h fm hc ⟨32, true⟩, law_hash h fm hc ⟨32, false⟩, law_hash h fm hc ⟨32, false⟩, law_hash h fm hc ⟨20, false⟩,
    law_hash h fm hc ⟨32, false⟩, law_hash h fm hc ⟨20, false⟩, law_hash h fm hc ⟨32, true⟩, law_bf P h fm hc, law_bf P h fm hc,
    law_psbtsh h fm, law_schnorrsh h fm, law_point h fm hc P.commitment, law_point h fm hc P.generator, law_tweak P h fm hc,
    law_proof h fm hc P.rangeproof, law_proof h fm hc P.surjproof, hX.publicKey, hX.xOnly, hX.signature, hX.fingerprint,
    hX.derivationPath, hX.xpub, hX.btcTransaction⟩

theorem serdeDerive_tableOk : tableOk serdeDerive = true := by decide

/-- every derived item of /repo: a well-typed value round-trips through the JSON / CBOR view, given the laws of the
    third-party leaf codecs -/
theorem derived_rt (P : Prims) (X : Deps) (D : DepsOk) (h : Bool) (fm : Fmt) (hc : compatible h fm)
    (hX : DepsLawful X D h fm) (nm : String) (v : DVal) (hv : DerivedOk P D nm v) :
    deriveOfS P X nm h (lossy fm (deriveToS P X nm h v)) = .ok v := by
  have hall := std_allLaw P X D h fm hc hX
  refine dRoundtrip (stdEnv P X) serdeDerive (stdOkLeaf P D) h fm hc serdeDerive_tableOk ?_ ?_ deriveFuel (.named nm) v hv
  · intro nm' L _ hL
    obtain ⟨p, hp, hlaw⟩ := (allLaw_lookup h fm _ _ hall nm').1 L hL
    exact ⟨fun v hv => hlaw.rt v (by simpa [stdOkLeaf, hp] using hv), fun v hv => hlaw.nonnull v (by simpa [stdOkLeaf, hp] using hv)⟩
  · intro nm' v' _ hv'
    unfold stdOkLeaf at hv'
    cases hp : (leafOks P D).lookup nm' with
    | none => rw [hp] at hv'; exact absurd hv' id
    | some p => exact (allLaw_lookup h fm _ _ hall nm').2 p hp


/-! ### JSON object keys -/

/-- in /repo's table, every key type that reaches `serialize_map` in a human-readable format is one of the
    string-keyed leaf types -/
theorem humanMapKeys_are_stringKeyLeaves :
    ∀ k ∈ humanMapKeys serdeDerive, ∃ nm ∈ stringKeyLeaves, k = .named nm := by decide

theorem hashLeaf_str (k : HashKind) (v : DVal) : ∃ s, lossy .json ((hashLeaf k).toS true v) = .str s :=
  ⟨String.ofList (hashShow k (bytesOf v)), by simp [hashLeaf, sHash, lossy_sStr]⟩

/-- … and each of those really serializes to a string when human readable -/
theorem stringKeyLeaf_toS_str (P : Prims) (X : Deps) (D : DepsOk) (hK : DepsKeysAreStrings X D) :
    ∀ nm ∈ stringKeyLeaves, ∀ L, stdEnv P X nm = some L → ∀ v, stdOkLeaf P D nm v → ∃ s, lossy .json (L.toS true v) = .str s := by
  intro nm hnm L hL v hv
  simp only [stringKeyLeaves, List.mem_cons, List.not_mem_nil, or_false] at hnm
  rcases hnm with rfl | rfl | rfl | rfl | rfl | rfl
  · have : L = X.xpub := by simpa [stdEnv, repoLeaves, depLeaves, List.lookup] using hL.symm
    subst this
    obtain ⟨s, hs⟩ := hK.xpub v (by simpa [stdOkLeaf, leafOks, List.lookup] using hv)
    exact ⟨s, by simp [hs, lossy]⟩
  · have : L = X.publicKey := by simpa [stdEnv, repoLeaves, depLeaves, List.lookup] using hL.symm
    subst this
    obtain ⟨s, hs⟩ := hK.publicKey v (by simpa [stdOkLeaf, leafOks, List.lookup] using hv)
    exact ⟨s, by simp [hs, lossy]⟩
  · have hLe : L = hashLeaf ⟨20, false⟩ := by simpa [stdEnv, repoLeaves, depLeaves, List.lookup] using hL.symm
    subst hLe; exact hashLeaf_str _ v
  · have hLe : L = hashLeaf ⟨32, false⟩ := by simpa [stdEnv, repoLeaves, depLeaves, List.lookup] using hL.symm
    subst hLe; exact hashLeaf_str _ v
  · have hLe : L = hashLeaf ⟨20, false⟩ := by simpa [stdEnv, repoLeaves, depLeaves, List.lookup] using hL.symm
    subst hLe; exact hashLeaf_str _ v
  · have hLe : L = hashLeaf ⟨32, true⟩ := by simpa [stdEnv, repoLeaves, depLeaves, List.lookup] using hL.symm
    subst hLe; exact hashLeaf_str _ v


/-! ### building well-typed values; bridges to the earlier, type-specific models -/

theorem dWT_struct (ok : String → DVal → Prop) (tbl : Table) (n : Nat) (nm : String) (fields : List SerdeField) (flat : Bool)
    (vs : List DVal) (hl : tbl.lookup nm = some (.struct fields flat)) (hf : fieldsWT (dWT ok tbl n) fields vs) :
    dWT ok tbl (n+1) (.named nm) (.record vs) := by
  simp only [dWT, hl]; exact ⟨vs, rfl, hf⟩

theorem dWT_leaf (ok : String → DVal → Prop) (tbl : Table) (n : Nat) (nm : String) (v : DVal)
    (hl : tbl.lookup nm = Option.none) (hv : ok nm v) : dWT ok tbl (n+1) (.named nm) v := by
  simp only [dWT, hl]; exact hv

/-- the table-driven model of `pset::raw::Key` is the hand-written one of EV.Model.SerdeUtils -/
theorem derive_rawKey_bridge (P : Prims) (X : Deps) (h : Bool) (t : Nat) (k : Bytes) :
    deriveToS P X "Key" h (.record [.nat t, .bytes k]) = RawKey.toS h ⟨t, k⟩ := by
  cases h <;> rfl

theorem derive_propKey_bridge (P : Prims) (X : Deps) (h : Bool) (p : Bytes) (t : Nat) (k : Bytes) :
    deriveToS P X "ProprietaryKey" h (.record [.bytes p, .nat t, .bytes k]) = PropKey.toS h ⟨p, t, k⟩ := by
  cases h <;> rfl

/-- … of `Sequence` and `LockTime` the ones used inside `TxIn` / `Transaction` -/
theorem derive_sequence_bridge (P : Prims) (X : Deps) (h : Bool) (n : Nat) :
    deriveToS P X "Sequence" h (.nat n) = sSequence n := rfl

theorem derive_lockTime_bridge (P : Prims) (X : Deps) (h : Bool) (n : Nat) :
    deriveToS P X "LockTime" h (.variant (if n < lockTimeThreshold then 0 else 1) (.nat n)) = sLockTime n := by
  unfold sLockTime
  split <;> rfl

end EV.Serde
