/-
  The in-memory transport of the line protocol (`EV.Driver.MemTx`) is faithful: what the harness writes for a
  transaction value is read back by the driver as exactly that value — including the values the consensus
  encoding cannot carry (an all-ones outpoint index together with a pegin flag or an issuance).
-/
import EV.Driver.MemTx
import EV.Proofs.CodecTx
namespace EV.Proofs.MemTx
open EV EV.Codec EV.Proofs.CodecPrim EV.Proofs.CodecTx EV.Driver.MemTx

variable (P : Prims)

/-- what the transport needs of an input: field sizes only — NO relation between the index and the flags -/
def wfIn (i : TxIn) : Prop :=
  i.previousOutput.wf ∧ i.scriptSig.length ≤ maxVecSize ∧ i.sequence < 2^32 ∧ i.assetIssuance.wf P ∧ i.witness.wf P

def wfOut (o : TxOut) : Prop := o.wfBody P ∧ o.witness.wf P

def wfTx (t : Tx) : Prop :=
  t.version < 2^32 ∧ t.lockTime < 2^32 ∧ t.input.length ≤ maxVecSize ∧ t.output.length ≤ maxVecSize ∧
  (∀ i ∈ t.input, wfIn P i) ∧ (∀ o ∈ t.output, wfOut P o)

theorem decIn_complete (i : TxIn) (r : Bytes) (h : wfIn P i) : decIn P (encIn i ++ r) = .ok (i, r) := by
  obtain ⟨h1, h2, h3, h4, h5⟩ := h
  obtain ⟨op, pg, ss, sq, iss, wit⟩ := i
  simp only at h1 h2 h3 h4 h5
  have c1 := fun rr => outpoint_lawful.complete op rr h1
  have c2 := fun rr => bytesVec_lawful.complete ss rr h2
  have c3 := fun rr => (le_lawful 4).complete sq rr (by omega)
  have c4 := fun rr => (issuance_lawful P).complete iss rr h4
  have c5 := fun rr => (txInWitness_lawful P).complete wit rr h5
  cases pg
  · simp only [decIn, encIn, List.append_assoc, c1, Bool.false_eq_true, if_false, List.cons_append, List.nil_append, u8,
      c2, c3, c4, c5]
    simp
  · simp only [decIn, encIn, List.append_assoc, c1, if_true, List.cons_append, List.nil_append, u8,
      c2, c3, c4, c5]
    simp

theorem decOut_complete (o : TxOut) (r : Bytes) (h : wfOut P o) : decOut P (encOut o ++ r) = .ok (o, r) := by
  obtain ⟨h1, h2⟩ := h
  obtain ⟨a, v, n, spk, wit⟩ := o
  have c1 := fun rr => (txOut_lawful P).complete ⟨a, v, n, spk, TxOutWitness.empty⟩ rr ⟨h1, rfl⟩
  have c2 := fun rr => (txOutWitness_lawful P).complete wit rr h2
  have he : TxOut.enc ⟨a, v, n, spk, wit⟩ = TxOut.enc ⟨a, v, n, spk, TxOutWitness.empty⟩ := rfl
  simp only [decOut, encOut, List.append_assoc, he, c1, c2]

theorem repeatN_complete' {α} (d : Dec α) (e : α → Bytes) (wf : α → Prop)
    (hc : ∀ v r, wf v → d (e v ++ r) = .ok (v, r)) :
    ∀ (l : List α) (r : Bytes), (∀ v ∈ l, wf v) → repeatN d l.length (l.flatMap e ++ r) = .ok (l, r) := by
  intro l
  induction l with
  | nil => intro r _; simp [repeatN]
  | cons x xs ih =>
    intro r hw
    have hx := hc x (xs.flatMap e ++ r) (hw x (by simp))
    have hxs := ih r (fun v hv => hw v (by simp [hv]))
    simp only [List.length_cons, List.flatMap_cons, List.append_assoc, repeatN, hx, hxs]

theorem vecOf_complete' {α} (d : Dec α) (e : α → Bytes) (wf : α → Prop)
    (hc : ∀ v r, wf v → d (e v ++ r) = .ok (v, r)) (l : List α) (r : Bytes)
    (hl : l.length ≤ maxVecSize) (hw : ∀ v ∈ l, wf v) : vecOf 1 d (encVec e l ++ r) = .ok (l, r) := by
  have hmax : maxVecSize < 2 ^ 64 := by simp [maxVecSize]
  have hv := varint_lawful.complete l.length (l.flatMap e ++ r) (by omega)
  have hn1 : ¬ l.length * 1 ≥ 2 ^ 64 := by omega
  have hn2 : ¬ l.length * 1 > maxVecSize := by omega
  simp only [vecOf, encVec, List.append_assoc, hv, if_neg hn1, if_neg hn2]
  exact repeatN_complete' d e wf hc l r hw

/-- faithful transport: decoding what `enc` wrote gives the value back, whatever follows -/
theorem dec_complete (t : Tx) (r : Bytes) (h : wfTx P t) : dec P (enc t ++ r) = .ok (t, r) := by
  obtain ⟨h1, h2, h3, h4, h5, h6⟩ := h
  obtain ⟨v, lt, ins, outs⟩ := t
  simp only at h1 h2 h3 h4 h5 h6
  have c1 := fun rr => (le_lawful 4).complete v rr (by omega)
  have c2 := fun rr => (le_lawful 4).complete lt rr (by omega)
  have c3 := fun rr => vecOf_complete' (decIn P) encIn (wfIn P) (decIn_complete P) ins rr h3 h5
  have c4 := fun rr => vecOf_complete' (decOut P) encOut (wfOut P) (decOut_complete P) outs rr h4 h6
  simp only [dec, enc, List.append_assoc, c1, c2, c3, c4]

/-- the transport carries what the consensus encoding cannot: an input with the all-ones index that is a pegin
    and holds an issuance survives `enc`/`dec` unchanged (its consensus encoding does not decode back to it) -/
example (P : Prims) (i : TxIn) (hi : wfIn P i) (_hidx : i.previousOutput.vout = 0xffffffff) (hp : i.isPegin = true) :
    (decIn P (encIn i)).map (fun p => p.1.isPegin) = .ok true := by
  have := decIn_complete P i [] hi
  simp only [List.append_nil] at this
  simp [this, Res.map, Res.bind, hp]

end EV.Proofs.MemTx
