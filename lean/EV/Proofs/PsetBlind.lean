/-
  EV.Proofs.PsetBlind — lemmas about the multi-party PSET blinding model (EV.Model.PsetBlind)
  over an arbitrary commutative ring of scalars.
-/
import Mathlib.Algebra.BigOperators.Group.List.Basic
import Mathlib.Algebra.Module.BigOperators
import Mathlib.Tactic.Ring
import Mathlib.Tactic.Abel
import Mathlib.Tactic.LinearCombination
import EV.Model.PsetBlind
namespace EV.PsetBlind

variable {R : Type} [CommRing R]

/-! ### scalar layer -/

@[simp] theorem sumTerms_nil : sumTerms ([] : List (Secret R)) = 0 := rfl
@[simp] theorem sumTerms_cons (s : Secret R) (l : List (Secret R)) :
    sumTerms (s :: l) = term s + sumTerms l := rfl
@[simp] theorem sumTerms_append (l₁ l₂ : List (Secret R)) :
    sumTerms (l₁ ++ l₂) = sumTerms l₁ + sumTerms l₂ := by
  simp [sumTerms, List.sum_append]

/-- the order in which a `HashMap` hands out the supplied secrets is irrelevant -/
theorem sumTerms_perm {l₁ l₂ : List (Secret R)} (h : l₁.Perm l₂) : sumTerms l₁ = sumTerms l₂ :=
  (h.map term).sum_eq

theorem blindSumAcc_eq (negate : Bool) (acc : R) (l : List (Secret R)) :
    blindSumAcc negate acc l = acc + (if negate then -(sumTerms l) else sumTerms l) := by
  induction l generalizing acc with
  | nil => cases negate <;> simp [blindSumAcc]
  | cons s rest ih =>
    simp only [blindSumAcc, ih, sumTerms_cons]
    cases negate <;> simp <;> ring

/-- `ValueBlindingFactor::last` (libsecp's loop as coded) is Σ_in term − Σ_out term − value·abf -/
theorem lastVbf_eq (value : Nat) (abf : R) (ins outs : List (Secret R)) :
    lastVbf value abf ins outs = sumTerms ins - sumTerms outs - (value : R) * abf := by
  simp only [lastVbf, blindSumAcc_eq, sumTerms_append, sumTerms_cons, sumTerms_nil, term]
  simp
  ring

variable [DecidableEq R]

theorem vbfAdd_eq (a b : R) : vbfAdd a b = a + b := by
  unfold vbfAdd
  split
  · next h => simp [h]
  · split
    · next h => simp [h]
    · rfl

theorem vbfNeg_eq (a : R) : vbfNeg a = -a := by
  unfold vbfNeg
  split
  · next h => simp [h]
  · rfl

theorem foldl_vbfAdd (l : List R) (a : R) : l.foldl vbfAdd a = a + l.sum := by
  induction l generalizing a with
  | nil => simp
  | cons x rest ih => simp [List.foldl_cons, ih, vbfAdd_eq, add_assoc]


end EV.PsetBlind

namespace EV.PsetBlind
section Structural
variable {R : Type}

/-! ### `blind_checks`: which outputs a party blinds -/

/-- the static selection rule: blinding key present and `blinder_index` owned by the party -/
def Selected (sup : Supplied R) (o : Out R) : Prop :=
  o.hasKey = true ∧ ∃ b, o.blinderIndex = some b ∧ owns sup b = true

theorem selectOuts_spec {nIn : Nat} {sup : Supplied R} {k : Nat} {outs : List (Out R)} {l : List Nat}
    (h : selectOuts nIn sup k outs = .ok l) :
    (∀ i, i ∈ l ↔ ∃ j o, i = k + j ∧ outs[j]? = some o ∧ Selected sup o) ∧
    l.Pairwise (· < ·) ∧ (∀ i ∈ l, k ≤ i) := by
  induction outs generalizing k l with
  | nil =>
    simp only [selectOuts, Res.ok.injEq] at h
    subst h
    simp
  | cons o rest ih =>
    have shift : ∀ (l' : List Nat), selectOuts nIn sup (k + 1) rest = .ok l' → ¬ Selected sup o →
        ((∀ i, i ∈ l' ↔ ∃ j o', i = k + j ∧ (o :: rest)[j]? = some o' ∧ Selected sup o') ∧
          l'.Pairwise (· < ·) ∧ (∀ i ∈ l', k ≤ i)) := by
      intro l' h' hn
      obtain ⟨h1, h2, h3⟩ := ih h'
      refine ⟨?_, h2, fun i hi => by have := h3 i hi; omega⟩
      intro i
      rw [h1]
      constructor
      · rintro ⟨j, o', rfl, hj, hs⟩
        exact ⟨j + 1, o', by omega, by simpa using hj, hs⟩
      · rintro ⟨j, o', rfl, hj, hs⟩
        cases j with
        | zero => simp at hj; subst hj; exact absurd hs hn
        | succ j => exact ⟨j, o', by omega, by simpa using hj, hs⟩
    unfold selectOuts at h
    split at h
    · next hk =>
      exact shift l h (by intro hs; simp [hs.1] at hk)
    · split at h
      · next hb => exact shift l h (by rintro ⟨_, b, hb', _⟩; simp [hb] at hb')
      · next b hb =>
        split at h
        · cases h
        · split at h
          · next hown =>
            split at h
            · next l' hl' =>
              simp only [Res.ok.injEq] at h
              subst h
              obtain ⟨h1, h2, h3⟩ := ih hl'
              have hsel : Selected sup o := ⟨by simpa using ‹¬ (!o.hasKey) = true›, b, hb, hown⟩
              refine ⟨?_, ?_, ?_⟩
              · intro i
                simp only [List.mem_cons, h1]
                constructor
                · rintro (rfl | ⟨j, o', rfl, hj, hs⟩)
                  · exact ⟨0, o, by omega, by simp, hsel⟩
                  · exact ⟨j + 1, o', by omega, by simpa using hj, hs⟩
                · rintro ⟨j, o', rfl, hj, hs⟩
                  cases j with
                  | zero => left; rfl
                  | succ j => right; exact ⟨j, o', by omega, by simpa using hj, hs⟩
              · rw [List.pairwise_cons]
                exact ⟨fun a ha => by have := h3 a ha; omega, h2⟩
              · intro i hi
                rcases List.mem_cons.1 hi with rfl | hi
                · omega
                · have := h3 i hi; omega
            · cases h
            · cases h
          · next hown =>
            exact shift l h (by rintro ⟨_, b', hb', ho⟩; rw [hb] at hb'; cases hb'; exact hown ho)

/-! ### how outputs evolve -/

/-- all seven fields a blinder writes are present -/
def Out.Full (o : Out R) : Prop :=
  o.amountComm = true ∧ o.assetComm = true ∧ o.ecdh = true ∧ o.rangeproof = true ∧
  o.surjproof = true ∧ o.valueProof = true ∧ o.assetProof = true

theorem Out.Full.isFullyBlinded {o : Out R} (h : o.Full) (hk : o.hasKey = true) :
    o.isFullyBlinded = true := by
  obtain ⟨h1, h2, h3, h4, h5, _, _⟩ := h
  simp [Out.isFullyBlinded, hk, h1, h2, h3, h4, h5]

/-- the fields no blinder changes -/
def Out.SameMarks (o o' : Out R) : Prop :=
  o'.hasKey = o.hasKey ∧ o'.blinderIndex = o.blinderIndex ∧ o'.amount = o.amount ∧
  o'.asset = o.asset ∧ o'.addressable = o.addressable

def Out.Le (o o' : Out R) : Prop := o.SameMarks o' ∧ (o.Full → o'.Full)

theorem Out.Le.refl (o : Out R) : o.Le o := ⟨⟨rfl, rfl, rfl, rfl, rfl⟩, id⟩
theorem Out.Le.trans {a b c : Out R} (h1 : a.Le b) (h2 : b.Le c) : a.Le c := by
  obtain ⟨⟨a1, a2, a3, a4, a5⟩, af⟩ := h1
  obtain ⟨⟨b1, b2, b3, b4, b5⟩, bf⟩ := h2
  exact ⟨⟨b1.trans a1, b2.trans a2, b3.trans a3, b4.trans a4, b5.trans a5⟩, fun h => bf (af h)⟩

theorem Out.le_blindWith (o : Out R) (abf vbf : R) : o.Le (o.blindWith abf vbf) :=
  ⟨⟨rfl, rfl, rfl, rfl, rfl⟩, fun _ => ⟨rfl, rfl, rfl, rfl, rfl, rfl, rfl⟩⟩

theorem Out.full_blindWith (o : Out R) (abf vbf : R) : (o.blindWith abf vbf).Full :=
  ⟨rfl, rfl, rfl, rfl, rfl, rfl, rfl⟩

/-- pointwise evolution of the output list -/
def OutsLe (a b : List (Out R)) : Prop :=
  a.length = b.length ∧ ∀ (i : Nat) (o o' : Out R), a[i]? = some o → b[i]? = some o' → o.Le o'

theorem OutsLe.refl (a : List (Out R)) : OutsLe a a :=
  ⟨rfl, fun i o o' h h' => by rw [h] at h'; cases h'; exact Out.Le.refl o⟩

theorem OutsLe.trans {a b c : List (Out R)} (h1 : OutsLe a b) (h2 : OutsLe b c) : OutsLe a c := by
  refine ⟨h1.1.trans h2.1, fun i o o'' ha hc => ?_⟩
  have hi : i < b.length := by
    have := (List.getElem?_eq_some_iff.1 ha).1
    rw [← h1.1]; exact this
  have hb : b[i]? = some b[i] := List.getElem?_eq_getElem hi
  exact (h1.2 i o _ ha hb).trans (h2.2 i _ o'' hb hc)

theorem OutsLe.set {a : List (Out R)} {i : Nat} {o o' : Out R} (h : a[i]? = some o) (hle : o.Le o') :
    OutsLe a (a.set i o') := by
  refine ⟨by simp, fun j x x' hx hx' => ?_⟩
  by_cases hij : i = j
  · subst hij
    have hi : i < a.length := (List.getElem?_eq_some_iff.1 h).1
    rw [List.getElem?_set_self hi] at hx'
    rw [h] at hx
    cases hx; cases hx'
    exact hle
  · rw [List.getElem?_set_ne hij] at hx'
    rw [hx] at hx'; cases hx'
    exact Out.Le.refl x

/-- the secret pushed to `out_secrets` for output `i` -/
def secretAt (outs : List (Out R)) [Zero R] (rand : Nat → R × R) (i : Nat) : Secret R :=
  match outs[i]? with
  | some o => ⟨o.asset.getD 0, o.amount.getD 0, (rand i).1, (rand i).2⟩
  | none => ⟨0, 0, (rand i).1, (rand i).2⟩

/-- ghost invariant: commitments written by this model carry their secrets; an output without
    value commitment has none -/
def Inv (outs : List (Out R)) : Prop := ∀ o ∈ outs, o.amountComm = false → o.secrets = none

theorem nonLastLoop_struct {known : Nat → Bool} {rand : Nat → R × R} {sel : List Nat}
    {outs outs' : List (Out R)} {acc acc' : List (Secret R)}
    (h : nonLastLoop known rand sel outs acc = .ok (outs', acc')) :
    OutsLe outs outs' ∧ (∀ j ∈ sel, ∃ o', outs'[j]? = some o' ∧ o'.Full) ∧
    (∀ j, j ∉ sel → outs'[j]? = outs[j]?) := by
  induction sel generalizing outs acc with
  | nil =>
    simp only [nonLastLoop, Res.ok.injEq, Prod.mk.injEq] at h
    obtain ⟨rfl, rfl⟩ := h
    exact ⟨OutsLe.refl _, by simp, fun _ _ => rfl⟩
  | cons i rest ih =>
    unfold nonLastLoop at h
    split at h
    · cases h
    · next o ho =>
      split at h
      · cases h
      · cases h
      · next v hc hv =>
        split at h
        · cases h
        · split at h
          · cases h
          · cases h
          · next a hac ha =>
            split at h
            · cases h
            · split at h
              · cases h
              · obtain ⟨h1, h2, h3⟩ := ih h
                have hle0 : OutsLe outs (outs.set i (o.blindWith (rand i).1 (rand i).2)) :=
                  OutsLe.set ho (Out.le_blindWith o _ _)
                refine ⟨hle0.trans h1, ?_, ?_⟩
                · intro j hj
                  by_cases hjr : j ∈ rest
                  · exact h2 j hjr
                  · have hji : j = i := by
                      rcases List.mem_cons.1 hj with h | h
                      · exact h
                      · exact absurd h hjr
                    subst hji
                    have hi : j < outs.length := (List.getElem?_eq_some_iff.1 ho).1
                    have := h3 j hjr
                    rw [List.getElem?_set_self hi] at this
                    exact ⟨_, this, Out.full_blindWith _ _ _⟩
                · intro j hj
                  have hji : i ≠ j := fun e => hj (by simp [e])
                  have hjr : j ∉ rest := fun e => hj (by simp [e])
                  rw [h3 j hjr, List.getElem?_set_ne hji]

end Structural
end EV.PsetBlind

namespace EV.PsetBlind
section Ring
variable {R : Type} [CommRing R] [DecidableEq R]

theorem sum_set_of_get {l : List R} {i : Nat} {x : R} (y : R) (h : l[i]? = some x) :
    (l.set i y).sum = l.sum - x + y := by
  induction l generalizing i with
  | nil => simp at h
  | cons a l ih =>
    cases i with
    | zero =>
      simp only [List.getElem?_cons_zero, Option.some.injEq] at h
      subst h
      simp only [List.set_cons_zero, List.sum_cons]
      ring
    | succ i =>
      simp only [List.getElem?_cons_succ] at h
      simp only [List.set_cons_succ, List.sum_cons, ih h]
      ring

theorem outTerm_set {outs : List (Out R)} {i : Nat} {o : Out R} (o' : Out R) (h : outs[i]? = some o) :
    sumTerms ((outs.set i o').map outSecret) =
      sumTerms (outs.map outSecret) - term (outSecret o) + term (outSecret o') := by
  unfold sumTerms
  rw [List.map_set, List.map_set]
  apply sum_set_of_get
  simp [h]

theorem term_outSecret_of_none {o : Out R} (h : o.secrets = none) : term (outSecret o) = 0 := by
  simp [outSecret, h, term]

theorem nonLastLoop_spec {known : Nat → Bool} {rand : Nat → R × R} {sel : List Nat}
    {outs outs' : List (Out R)} {acc acc' : List (Secret R)}
    (h : nonLastLoop known rand sel outs acc = .ok (outs', acc')) (hnd : sel.Nodup) (hinv : Inv outs) :
    acc' = acc ++ sel.map (secretAt outs rand) ∧ Inv outs' ∧
    sumTerms (outs'.map outSecret) =
      sumTerms (outs.map outSecret) + sumTerms (sel.map (secretAt outs rand)) := by
  induction sel generalizing outs acc with
  | nil =>
    simp only [nonLastLoop, Res.ok.injEq, Prod.mk.injEq] at h
    obtain ⟨rfl, rfl⟩ := h
    simp [hinv]
  | cons i rest ih =>
    unfold nonLastLoop at h
    split at h
    · cases h
    · next o ho =>
      split at h
      · cases h
      · cases h
      · next v hc hv =>
        split at h
        · cases h
        · split at h
          · cases h
          · cases h
          · next a hac ha =>
            split at h
            · cases h
            · split at h
              · cases h
              · have hi : i ∉ rest := (List.nodup_cons.1 hnd).1
                have hmem : o ∈ outs := List.mem_of_getElem? ho
                have hinv1 : Inv (outs.set i (o.blindWith (rand i).1 (rand i).2)) := by
                  intro x hx hxc
                  rcases List.mem_or_eq_of_mem_set hx with hx | rfl
                  · exact hinv x hx hxc
                  · simp [Out.blindWith] at hxc
                obtain ⟨h1, h2, h3⟩ := ih h (List.nodup_cons.1 hnd).2 hinv1
                have hcongr : rest.map (secretAt (outs.set i (o.blindWith (rand i).1 (rand i).2)) rand) =
                    rest.map (secretAt outs rand) := by
                  apply List.map_congr_left
                  intro j hj
                  have hij : i ≠ j := fun e => hi (e ▸ hj)
                  simp [secretAt, List.getElem?_set_ne hij]
                have hsec : secretAt outs rand i = ⟨a, v, (rand i).1, (rand i).2⟩ := by
                  simp [secretAt, ho, ha, hv]
                refine ⟨?_, h2, ?_⟩
                · rw [h1, hcongr, List.map_cons, hsec]
                  simp
                · rw [h3, hcongr, outTerm_set _ ho, term_outSecret_of_none (hinv o hmem hc),
                    List.map_cons, hsec, sumTerms_cons]
                  have : outSecret (o.blindWith (rand i).1 (rand i).2) = ⟨a, v, (rand i).1, (rand i).2⟩ := by
                    simp [outSecret, Out.blindWith, ha, hv]
                  rw [this]
                  ring

theorem dropLast_append_of_getLast? {α : Type} {l : List α} {a : α} (h : l.getLast? = some a) :
    l.dropLast ++ [a] = l := by
  have hne : l ≠ [] := by rintro rfl; simp at h
  have := List.dropLast_concat_getLast hne
  rw [List.getLast?_eq_some_getLast hne] at h
  cases h
  exact this

/-- everything `blind_non_last` does when it succeeds -/
theorem nonLast_spec {st st' : St R} {sup : Supplied R} {rand : Nat → R × R} {ret : List (Nat × R × R)}
    (h : nonLast st sup rand = .ok (st', ret)) (hinv : Inv st.outputs) :
    ∃ sel, selectOuts st.inputs.length sup 0 st.outputs = .ok sel ∧
      st'.inputs = st.inputs ∧ OutsLe st.outputs st'.outputs ∧ Inv st'.outputs ∧
      (∀ j ∈ sel, ∃ o', st'.outputs[j]? = some o' ∧ o'.Full) ∧
      (∀ j, j ∉ sel → st'.outputs[j]? = st.outputs[j]?) ∧
      ret = sel.map (fun i => (i, (rand i).1, (rand i).2)) ∧
      (sel = [] → st' = st) ∧
      (sel ≠ [] →
        st'.scalars = st.scalars ++
          [sumTerms (inpSecrets sup) - sumTerms (sel.map (secretAt st.outputs rand))] ∧
        outTermSum st' = outTermSum st + sumTerms (sel.map (secretAt st.outputs rand))) := by
  unfold nonLast blindChecks at h
  split at h
  · cases h
  · cases h
  · next ins sel hbc =>
    split at hbc
    · cases hbc
    · split at hbc
      · next sel' hsel =>
        simp only [Res.ok.injEq, Prod.mk.injEq] at hbc
        obtain ⟨rfl, rfl⟩ := hbc
        refine ⟨sel', hsel, ?_⟩
        split at h
        · next hemp =>
          simp only [Res.ok.injEq, Prod.mk.injEq] at h
          obtain ⟨rfl, rfl⟩ := h
          have : sel' = [] := by simpa using hemp
          subst this
          exact ⟨rfl, OutsLe.refl _, hinv, by simp, fun _ _ => rfl, rfl, fun _ => rfl, fun hne => absurd rfl hne⟩
        · next hemp =>
          have hne : sel' ≠ [] := by simpa using hemp
          split at h
          · cases h
          · split at h
            · cases h
            · cases h
            · next outs outSecrets hloop =>
              have hnd : sel'.Nodup := by
                have := (selectOuts_spec hsel).2.1
                exact this.imp (fun h => Nat.ne_of_lt h)
              obtain ⟨s1, s2, s3⟩ := nonLastLoop_struct hloop
              obtain ⟨r1, r2, r3⟩ := nonLastLoop_spec hloop hnd hinv
              simp only [List.nil_append] at r1
              split at h
              · cases h
              · next l hl =>
                simp only [Res.ok.injEq, Prod.mk.injEq] at h
                obtain ⟨rfl, rfl⟩ := h
                refine ⟨rfl, s1, r2, s2, s3, ?_, fun e => absurd e hne, fun _ => ⟨?_, ?_⟩⟩
                · rw [r1, List.zipWith_map_right, List.zipWith_self]
                  apply List.map_congr_left
                  intro i _
                  simp only [secretAt]
                  split <;> rfl
                · have hsplit := dropLast_append_of_getLast? hl
                  have hsum : sumTerms outSecrets = sumTerms outSecrets.dropLast + term l := by
                    conv_lhs => rw [← hsplit]
                    simp
                  simp only [vbfAdd_eq, vbfNeg_eq, lastVbf_eq]
                  rw [← r1, hsum]
                  simp only [term]
                  congr 2
                  ring
                · simp only [outTermSum]
                  rw [r3]
      · cases hbc
      · cases hbc

theorem expOutSecrets_sum {outs : List (Out R)} {l : List (Secret R)}
    (h : expOutSecrets outs = .ok l) : sumTerms l = 0 := by
  induction outs generalizing l with
  | nil => simp only [expOutSecrets, Res.ok.injEq] at h; subst h; rfl
  | cons o rest ih =>
    unfold expOutSecrets at h
    split at h
    · exact ih h
    · split at h
      · cases h
      · split at h
        · next l' hl' =>
          simp only [Res.ok.injEq] at h
          subst h
          simp [ih hl', term]
        · cases h
        · cases h

theorem Inv.set {outs : List (Out R)} {i : Nat} {x : Out R} (hinv : Inv outs)
    (hx : x.amountComm = false → x.secrets = none) : Inv (outs.set i x) := by
  intro y hy hyc
  rcases List.mem_or_eq_of_mem_set hy with hy | rfl
  · exact hinv y hy hyc
  · exact hx hyc

/-- the second half of `blind_last` -/
theorem lastStage2_spec {st1 st' : St R} {sup : Supplied R} {rand : Nat → R × R} {lastIdx : Nat}
    {ret ret' : List (Nat × R × R)} {ins : List (Secret R)}
    (h : lastStage2 st1 sup rand lastIdx ret ins = .ok (st', ret')) :
    ∃ o, st1.outputs[lastIdx]? = some o ∧ st'.inputs = st1.inputs ∧ st'.scalars = [] ∧
      OutsLe st1.outputs st'.outputs ∧
      (∃ o', st'.outputs[lastIdx]? = some o' ∧ o'.Full) ∧
      (∀ j, j ≠ lastIdx → st'.outputs[j]? = st1.outputs[j]?) ∧
      (Inv st1.outputs → Inv st'.outputs) ∧
      (o.secrets = none →
        outTermSum st' = outTermSum st1 + sumTerms ins + st1.scalars.sum) ∧
      ∃ fv, ret' = ret ++ [(lastIdx, (rand lastIdx).1, fv)] := by
  unfold lastStage2 at h
  split at h
  · cases h
  · split at h
    · cases h
    · next o ho =>
      split at h
      · cases h
      · next a ha =>
        split at h
        · cases h
        · split at h
          · cases h
          · next v hv =>
            split at h
            · cases h
            · cases h
            · next exps hexps =>
              split at h
              · cases h
              · split at h
                · cases h
                · simp only [Res.ok.injEq, Prod.mk.injEq] at h
                  obtain ⟨rfl, rfl⟩ := h
                  have hi : lastIdx < st1.outputs.length := (List.getElem?_eq_some_iff.1 ho).1
                  refine ⟨o, ho, rfl, rfl, OutsLe.set ho (Out.le_blindWith _ _ _), ?_, ?_, ?_, ?_, ⟨_, rfl⟩⟩
                  · exact ⟨_, List.getElem?_set_self hi, Out.full_blindWith _ _ _⟩
                  · intro j hj
                    exact List.getElem?_set_ne (Ne.symm hj)
                  · intro hinv
                    exact hinv.set (by simp [Out.blindWith])
                  · intro hsec
                    simp only [outTermSum]
                    rw [outTerm_set _ ho, term_outSecret_of_none hsec]
                    have : outSecret (o.blindWith (rand lastIdx).1
                        (List.foldl vbfAdd (lastVbf v (rand lastIdx).1 ins exps) st1.scalars)) =
                        ⟨a, v, (rand lastIdx).1,
                          List.foldl vbfAdd (lastVbf v (rand lastIdx).1 ins exps) st1.scalars⟩ := by
                      simp [outSecret, Out.blindWith, ha, hv]
                    rw [this]
                    simp only [term, foldl_vbfAdd, lastVbf_eq, expOutSecrets_sum hexps]
                    ring

theorem outTermSum_set_same {outs : List (Out R)} {i : Nat} {o x : Out R} (h : outs[i]? = some o)
    (hx : outSecret x = outSecret o) :
    sumTerms ((outs.set i x).map outSecret) = sumTerms (outs.map outSecret) := by
  rw [outTerm_set _ h, hx]
  ring

theorem restore_blinderIndex (o : Out R) :
    { ({ o with blinderIndex := none } : Out R) with blinderIndex := o.blinderIndex } = o := by
  cases o; rfl

/-- the first half of `blind_last` -/
theorem lastStage1_spec {st st1 : St R} {sup : Supplied R} {rand : Nat → R × R} {sel : List Nat}
    {lastIdx : Nat} {ret : List (Nat × R × R)} {ins : List (Secret R)}
    (hsel : selectOuts st.inputs.length sup 0 st.outputs = .ok sel)
    (hlast : sel.getLast? = some lastIdx)
    (h : lastStage1 st sup rand (inpSecrets sup) sel lastIdx = .ok (st1, ret, ins))
    (hinv : Inv st.outputs) :
    st1.inputs = st.inputs ∧ OutsLe st.outputs st1.outputs ∧ Inv st1.outputs ∧
    st1.outputs[lastIdx]? = st.outputs[lastIdx]? ∧
    (∀ j ∈ sel, j ≠ lastIdx → ∃ o', st1.outputs[j]? = some o' ∧ o'.Full) ∧
    (∀ j, j ∉ sel → st1.outputs[j]? = st.outputs[j]?) ∧
    outTermSum st1 + sumTerms ins + st1.scalars.sum =
      outTermSum st + sumTerms (inpSecrets sup) + st.scalars.sum := by
  have hsplit : sel.dropLast ++ [lastIdx] = sel := dropLast_append_of_getLast? hlast
  have hlastmem : lastIdx ∈ sel := by rw [← hsplit]; simp
  obtain ⟨hmem, hpw, _⟩ := selectOuts_spec hsel
  unfold lastStage1 at h
  split at h
  · next hemp =>
    simp only [Res.ok.injEq, Prod.mk.injEq] at h
    obtain ⟨rfl, rfl, rfl⟩ := h
    refine ⟨rfl, OutsLe.refl _, hinv, rfl, ?_, fun _ _ => rfl, rfl⟩
    intro j hj hne
    have hd : sel.dropLast = [] := by simpa using hemp
    rw [← hsplit, hd] at hj
    simp at hj
    exact absurd hj hne
  · next hemp =>
    have hdne : sel.dropLast ≠ [] := by simpa using hemp
    split at h
    · cases h
    · next o ho =>
      have hi : lastIdx < st.outputs.length := (List.getElem?_eq_some_iff.1 ho).1
      have homem : o ∈ st.outputs := List.mem_of_getElem? ho
      dsimp only at h
      split at h
      · cases h
      · cases h
      · next stB retB hnl =>
        have hinvA : Inv (st.outputs.set lastIdx { o with blinderIndex := none }) :=
          hinv.set (fun hc => hinv o homem hc)
        obtain ⟨selA, hselA, hinB, hleB, hinvB, hfullB, huntB, _, _, hsumB⟩ := nonLast_spec hnl hinvA
        simp only at hselA hinB hleB hinvB huntB hsumB
        obtain ⟨hmemA, _, _⟩ := selectOuts_spec hselA
        -- (a) the last output is not selected by the inner call
        have hnotA : lastIdx ∉ selA := by
          intro hin
          obtain ⟨j, o', hj, hget, _, b, hb, _⟩ := (hmemA lastIdx).1 hin
          have : j = lastIdx := by omega
          subst this
          rw [List.getElem?_set_self hi] at hget
          cases hget
          simp at hb
        -- (b) elsewhere the selection is the same
        have hsame : ∀ j, j ≠ lastIdx → (j ∈ selA ↔ j ∈ sel) := by
          intro j hj
          rw [hmemA j, hmem j]
          constructor
          · rintro ⟨k, o', hk, hget, hs⟩
            have : k = j := by omega
            subst this
            rw [List.getElem?_set_ne (Ne.symm hj)] at hget
            exact ⟨k, o', hk, hget, hs⟩
          · rintro ⟨k, o', hk, hget, hs⟩
            have : k = j := by omega
            subst this
            exact ⟨k, o', hk, by rw [List.getElem?_set_ne (Ne.symm hj)]; exact hget, hs⟩
        -- (c) the inner call has something to blind
        have hneA : selA ≠ [] := by
          obtain ⟨x, hx⟩ := List.exists_mem_of_ne_nil _ hdne
          have hxlt : x < lastIdx := by
            rw [← hsplit] at hpw
            exact (List.pairwise_append.1 hpw).2.2 x hx lastIdx (by simp)
          have hxsel : x ∈ sel := by rw [← hsplit]; simp [hx]
          have : x ∈ selA := (hsame x (by omega)).2 hxsel
          intro e; rw [e] at this; simp at this
        obtain ⟨hscB, hotB⟩ := hsumB hneA
        have hBlast : stB.outputs[lastIdx]? = some { o with blinderIndex := none } := by
          rw [huntB lastIdx hnotA, List.getElem?_set_self hi]
        split at h
        · cases h
        · next o' ho' =>
          rw [hBlast] at ho'
          cases ho'
          simp only [Res.ok.injEq, Prod.mk.injEq] at h
          obtain ⟨rfl, rfl, rfl⟩ := h
          have hiB : lastIdx < stB.outputs.length := (List.getElem?_eq_some_iff.1 hBlast).1
          refine ⟨hinB, ?_, ?_, ?_, ?_, ?_, ?_⟩
          · refine ⟨by have := hleB.1; simp at this ⊢; exact this, fun i x x' hx hx' => ?_⟩
            by_cases hil : i = lastIdx
            · subst hil
              rw [List.getElem?_set_self hiB] at hx'
              rw [ho] at hx
              cases hx; cases hx'
              exact Out.Le.refl _
            · rw [List.getElem?_set_ne (Ne.symm hil)] at hx'
              exact hleB.2 i x x' (by rw [List.getElem?_set_ne (Ne.symm hil)]; exact hx) hx'
          · exact hinvB.set (fun hc => hinv o homem hc)
          · rw [List.getElem?_set_self hiB, ho]
          · intro j hj hne
            obtain ⟨o'', ho'', hf⟩ := hfullB j ((hsame j hne).2 hj)
            exact ⟨o'', by rw [List.getElem?_set_ne (Ne.symm hne)]; exact ho'', hf⟩
          · intro j hj
            have hne : j ≠ lastIdx := fun e => hj (e ▸ hlastmem)
            have hjA : j ∉ selA := fun e => hj ((hsame j hne).1 e)
            rw [List.getElem?_set_ne (Ne.symm hne), huntB j hjA, List.getElem?_set_ne (Ne.symm hne)]
          · have e1 : outTermSum ({ stB with outputs := stB.outputs.set lastIdx o } : St R) = outTermSum stB := by
              simp only [outTermSum]
              exact outTermSum_set_same hBlast (by simp [outSecret])
            have e2 : outTermSum ({ st with outputs := st.outputs.set lastIdx { o with blinderIndex := none } } : St R)
                = outTermSum st := by
              simp only [outTermSum]
              exact outTermSum_set_same ho (by simp [outSecret])
            rw [e1, hotB, e2, hscB]
            simp only [List.sum_append, List.sum_cons, List.sum_nil, sumTerms_nil]
            ring

/-- everything `blind_last` does when it succeeds -/
theorem blindLast_spec {st st' : St R} {sup : Supplied R} {rand : Nat → R × R} {ret : List (Nat × R × R)}
    (h : blindLast st sup rand = .ok (st', ret)) (hinv : Inv st.outputs) :
    ∃ sel lastIdx o, selectOuts st.inputs.length sup 0 st.outputs = .ok sel ∧
      sel.getLast? = some lastIdx ∧ st.outputs[lastIdx]? = some o ∧
      st'.inputs = st.inputs ∧ st'.scalars = [] ∧ OutsLe st.outputs st'.outputs ∧ Inv st'.outputs ∧
      (∀ j ∈ sel, ∃ o', st'.outputs[j]? = some o' ∧ o'.Full) ∧
      (∀ j, j ∉ sel → st'.outputs[j]? = st.outputs[j]?) ∧
      (o.secrets = none →
        outTermSum st' = outTermSum st + sumTerms (inpSecrets sup) + st.scalars.sum) := by
  unfold blindLast blindChecks at h
  split at h
  · cases h
  · cases h
  · next ins0 sel hbc =>
    split at hbc
    · cases hbc
    · split at hbc
      · next sel' hsel =>
        simp only [Res.ok.injEq, Prod.mk.injEq] at hbc
        obtain ⟨rfl, rfl⟩ := hbc
        split at h
        · cases h
        · next lastIdx hlast =>
          split at h
          · cases h
          · cases h
          · next st1 ret1 ins hs1 =>
            obtain ⟨a1, a2, a3, a4, a5, a6, a7⟩ := lastStage1_spec hsel hlast hs1 hinv
            obtain ⟨o, b1, b2, b3, b4, ⟨o', b5, b5'⟩, b6, b7, b8, _⟩ := lastStage2_spec h
            rw [a4] at b1
            refine ⟨sel', lastIdx, o, hsel, hlast, b1, b2.trans a1, b3, a2.trans b4, b7 a3, ?_, ?_, ?_⟩
            · intro j hj
              by_cases hjl : j = lastIdx
              · subst hjl; exact ⟨o', b5, b5'⟩
              · obtain ⟨x, hx, hxf⟩ := a5 j hj hjl
                exact ⟨x, by rw [b6 j hjl]; exact hx, hxf⟩
            · intro j hj
              have hsplit : sel'.dropLast ++ [lastIdx] = sel' := dropLast_append_of_getLast? hlast
              have hjl : j ≠ lastIdx := fun e => hj (by rw [← hsplit, e]; simp)
              rw [b6 j hjl, a6 j hj]
            · intro hsec
              rw [b8 hsec, a7]
      · cases hbc
      · cases hbc

/-! ### whole flows -/

/-- a step that may precede the last blinder -/
def Step.isPre : Step R → Prop
  | .nonLast _ _ => True
  | .hop => True
  | .last _ _ => False

/-- Σ term over the secrets a step supplies -/
def Step.terms : Step R → R
  | .nonLast sup _ => sumTerms (inpSecrets sup)
  | .last sup _ => sumTerms (inpSecrets sup)
  | .hop => 0

theorem decodeScalars_ok {acc l r : List R} (h : decodeScalars acc l = .ok r) : r = acc ++ l := by
  induction l generalizing acc with
  | nil => simp only [decodeScalars, Res.ok.injEq] at h; simp [h]
  | cons x rest ih =>
    unfold decodeScalars at h
    split at h
    · cases h
    · rw [ih h]; simp

theorem hop_ok {st st' : St R} (h : hop st = .ok st') : st' = st := by
  unfold hop at h
  split at h
  · next sc hsc =>
    have := decodeScalars_ok hsc
    simp only [List.nil_append] at this
    subst this
    simp only [Res.ok.injEq] at h
    exact h.symm
  · cases h
  · cases h

theorem runFlow_append {st : St R} {a b : List (Step R)} :
    runFlow st (a ++ b) =
      match runFlow st a with
      | .ok st1 => runFlow st1 b
      | .err e => .err e
      | .panic p => .panic p := by
  induction a generalizing st with
  | nil => simp [runFlow]
  | cons s rest ih =>
    simp only [List.cons_append, runFlow]
    split <;> simp [ih]

theorem Selected.of_sameMarks {sup : Supplied R} {o o' : Out R} (h : o.SameMarks o') :
    Selected sup o ↔ Selected sup o' := by
  obtain ⟨h1, h2, _⟩ := h
  simp [Selected, h1, h2]

theorem OutsLe.get {a b : List (Out R)} (h : OutsLe a b) {i : Nat} {o : Out R} (ho : a[i]? = some o) :
    ∃ o', b[i]? = some o' ∧ o.Le o' := by
  have hi : i < b.length := by rw [← h.1]; exact (List.getElem?_eq_some_iff.1 ho).1
  exact ⟨b[i], List.getElem?_eq_getElem hi, h.2 i o _ ho (List.getElem?_eq_getElem hi)⟩

theorem OutsLe.get' {a b : List (Out R)} (h : OutsLe a b) {i : Nat} {o' : Out R} (ho : b[i]? = some o') :
    ∃ o, a[i]? = some o ∧ o.Le o' := by
  have hi : i < a.length := by rw [h.1]; exact (List.getElem?_eq_some_iff.1 ho).1
  exact ⟨a[i], List.getElem?_eq_getElem hi, h.2 i _ o' (List.getElem?_eq_getElem hi) ho⟩

/-- the invariant carried through any sequence of non-last blinders and hops: published scalars
    plus the terms inside blinded outputs grow by the supplied input terms of every party that
    had something to blind -/
theorem pre_invariant {steps : List (Step R)} {st st' : St R}
    (hpre : ∀ s ∈ steps, s.isPre) (h : runFlow st steps = .ok st') (hinv : Inv st.outputs)
    (hact : ∀ sup rand, Step.nonLast sup rand ∈ steps →
      ∃ (j : Nat) (o : Out R), st.outputs[j]? = some o ∧ Selected sup o) :
    st'.inputs = st.inputs ∧ OutsLe st.outputs st'.outputs ∧ Inv st'.outputs ∧
    st'.scalars.sum + outTermSum st' =
      st.scalars.sum + outTermSum st + (steps.map Step.terms).sum ∧
    (∀ sup rand, Step.nonLast sup rand ∈ steps → ∀ (j : Nat) (o : Out R), st.outputs[j]? = some o →
      Selected sup o → ∃ o' : Out R, st'.outputs[j]? = some o' ∧ o'.Full) ∧
    (∀ j : Nat, (∀ sup rand, Step.nonLast sup rand ∈ steps → ∀ o : Out R, st.outputs[j]? = some o →
        ¬ Selected sup o) → st'.outputs[j]? = st.outputs[j]?) := by
  induction steps generalizing st with
  | nil =>
    simp only [runFlow, Res.ok.injEq] at h
    subst h
    exact ⟨rfl, OutsLe.refl _, hinv, by simp, by simp, fun _ _ => rfl⟩
  | cons s rest ih =>
    simp only [runFlow] at h
    split at h
    · next st1 hstep =>
      have hpre' : ∀ s ∈ rest, s.isPre := fun s hs => hpre s (by simp [hs])
      -- facts about the first step
      have key : st1.inputs = st.inputs ∧ OutsLe st.outputs st1.outputs ∧ Inv st1.outputs ∧
          st1.scalars.sum + outTermSum st1 = st.scalars.sum + outTermSum st + s.terms ∧
          (∀ sup rand, s = Step.nonLast sup rand → ∀ (j : Nat) (o : Out R), st.outputs[j]? = some o →
            Selected sup o → ∃ o' : Out R, st1.outputs[j]? = some o' ∧ o'.Full) ∧
          (∀ j : Nat, (∀ sup rand, s = Step.nonLast sup rand → ∀ o : Out R, st.outputs[j]? = some o →
            ¬ Selected sup o) → st1.outputs[j]? = st.outputs[j]?) := by
        cases s with
        | hop =>
          simp only [runStep] at hstep
          have := hop_ok hstep
          subst this
          exact ⟨rfl, OutsLe.refl _, hinv, by simp [Step.terms], by simp, fun _ _ => rfl⟩
        | last sup rand => exact absurd (hpre (Step.last sup rand) (by simp)) (by simp [Step.isPre])
        | nonLast sup rand =>
          simp only [runStep] at hstep
          split at hstep
          · next st1' ret hnl =>
            simp only [Res.ok.injEq] at hstep
            subst hstep
            obtain ⟨sel, hsel, c1, c2, c3, c4, c5, _, _, c8⟩ := nonLast_spec hnl hinv
            obtain ⟨hmem, _, _⟩ := selectOuts_spec hsel
            obtain ⟨j0, o0, hj0, hs0⟩ := hact sup rand (by simp)
            have hne : sel ≠ [] := by
              have : j0 ∈ sel := (hmem j0).2 ⟨j0, o0, by omega, hj0, hs0⟩
              intro e; rw [e] at this; simp at this
            obtain ⟨d1, d2⟩ := c8 hne
            refine ⟨c1, c2, c3, ?_, ?_, ?_⟩
            · rw [d1, d2]
              simp only [List.sum_append, List.sum_cons, List.sum_nil, Step.terms]
              ring
            · intro sup' rand' e j o hj hs
              cases e
              exact c4 j ((hmem j).2 ⟨j, o, by omega, hj, hs⟩)
            · intro j hj
              apply c5
              intro hin
              obtain ⟨k, o, hk, hget, hs⟩ := (hmem j).1 hin
              have : k = j := by omega
              subst this
              exact hj sup rand rfl o hget hs
          · cases hstep
          · cases hstep
      obtain ⟨k1, k2, k3, k4, k5, k6⟩ := key
      have hact' : ∀ sup rand, Step.nonLast sup rand ∈ rest →
          ∃ (j : Nat) (o : Out R), st1.outputs[j]? = some o ∧ Selected sup o := by
        intro sup rand hm
        obtain ⟨j, o, hj, hs⟩ := hact sup rand (by simp [hm])
        obtain ⟨o', ho', hle⟩ := k2.get hj
        exact ⟨j, o', ho', (Selected.of_sameMarks hle.1).1 hs⟩
      obtain ⟨i1, i2, i3, i4, i5, i6⟩ := ih hpre' h k3 hact'
      refine ⟨i1.trans k1, k2.trans i2, i3, ?_, ?_, ?_⟩
      · rw [i4, k4]
        simp only [List.map_cons, List.sum_cons]
        ring
      · intro sup rand hm j o hj hs
        obtain ⟨o1, ho1, hle1⟩ := k2.get hj
        rcases List.mem_cons.1 hm with e | hm
        · obtain ⟨o1', ho1', hf⟩ := k5 sup rand e.symm j o hj hs
          obtain ⟨o2, ho2, hle2⟩ := i2.get ho1'
          exact ⟨o2, ho2, hle2.2 hf⟩
        · exact i5 sup rand hm j o1 ho1 ((Selected.of_sameMarks hle1.1).1 hs)
      · intro j hj
        rw [i6 j, k6 j]
        · intro sup rand e o ho
          exact hj sup rand (by simp [e]) o ho
        · intro sup rand hm o1 ho1 hs1
          obtain ⟨o, ho, hle⟩ := k2.get' ho1
          exact hj sup rand (by simp [hm]) o ho ((Selected.of_sameMarks hle.1).2 hs1)
    · cases h
    · cases h

/-- any sequence of non-last blinders and hops followed by the last blinder -/
theorem flow_spec {pre : List (Step R)} {st0 st' : St R} {supL : Supplied R} {randL : Nat → R × R}
    (hpre : ∀ s ∈ pre, s.isPre) (hinv : Inv st0.outputs)
    (hact : ∀ sup rand, Step.nonLast sup rand ∈ pre →
      ∃ (j : Nat) (o : Out R), st0.outputs[j]? = some o ∧ Selected sup o)
    (hdisj : ∀ sup rand, Step.nonLast sup rand ∈ pre → ∀ o ∈ st0.outputs, Selected supL o → ¬ Selected sup o)
    (hfresh : ∀ o ∈ st0.outputs, Selected supL o → o.secrets = none)
    (h : runFlow st0 (pre ++ [Step.last supL randL]) = .ok st') :
    st'.scalars = [] ∧
    outTermSum st' =
      outTermSum st0 + st0.scalars.sum + (pre.map Step.terms).sum + sumTerms (inpSecrets supL) ∧
    OutsLe st0.outputs st'.outputs ∧
    (∀ (j : Nat) (o : Out R), st0.outputs[j]? = some o →
      (Selected supL o ∨ ∃ sup rand, Step.nonLast sup rand ∈ pre ∧ Selected sup o) →
      ∃ o' : Out R, st'.outputs[j]? = some o' ∧ o'.Full) := by
  rw [runFlow_append] at h
  split at h
  · next st1 hrun =>
    obtain ⟨i1, i2, i3, i4, i5, i6⟩ := pre_invariant hpre hrun hinv hact
    simp only [runFlow, runStep] at h
    split at h
    · next st2 hstep =>
      simp only [Res.ok.injEq] at h
      subst h
      split at hstep
      · next st2' ret hbl =>
        simp only [Res.ok.injEq] at hstep
        subst hstep
        obtain ⟨sel, lastIdx, o, hsel, hlast, ho, c1, c2, c3, c4, c5, c6, c7⟩ := blindLast_spec hbl i3
        obtain ⟨hmem, _, _⟩ := selectOuts_spec hsel
        have hsplit : sel.dropLast ++ [lastIdx] = sel := dropLast_append_of_getLast? hlast
        have hlastmem : lastIdx ∈ sel := by rw [← hsplit]; simp
        -- the last party's last output was not touched before
        have hosel : Selected supL o := by
          obtain ⟨k, o', hk, hget, hs⟩ := (hmem lastIdx).1 hlastmem
          have : k = lastIdx := by omega
          subst this
          rw [ho] at hget; cases hget; exact hs
        obtain ⟨o0, ho0, hle0⟩ := i2.get' ho
        have hosel0 : Selected supL o0 := (Selected.of_sameMarks hle0.1).2 hosel
        have hsame : st1.outputs[lastIdx]? = st0.outputs[lastIdx]? := by
          apply i6
          intro sup rand hm x hx
          rw [ho0] at hx; cases hx
          exact hdisj sup rand hm o0 (List.mem_of_getElem? ho0) hosel0
        have hoeq : o = o0 := by rw [ho, ho0] at hsame; exact Option.some.inj hsame
        have hsec : o.secrets = none := by
          rw [hoeq]; exact hfresh o0 (List.mem_of_getElem? ho0) hosel0
        refine ⟨c2, ?_, i2.trans c3, ?_⟩
        · rw [c7 hsec]
          have := i4
          linear_combination this
        · intro j x hx hor
          obtain ⟨x1, hx1, hle1⟩ := i2.get hx
          rcases hor with hs | ⟨sup, rand, hm, hs⟩
          · have : j ∈ sel := (hmem j).2 ⟨j, x1, by omega, hx1, (Selected.of_sameMarks hle1.1).1 hs⟩
            exact c5 j this
          · obtain ⟨x1', hx1', hf⟩ := i5 sup rand hm j x hx hs
            obtain ⟨x2, hx2, hle2⟩ := c3.get hx1'
            exact ⟨x2, hx2, hle2.2 hf⟩
      · cases hstep
      · cases hstep
    · cases h
    · cases h
  · cases h
  · cases h

end Ring
end EV.PsetBlind

namespace EV.PsetBlind
section Wire
variable {R : Type} [DecidableEq R]

/-- decode accepts a scalar list without repetition unchanged -/
theorem decodeScalars_of_nodup {acc l : List R} (h : (acc ++ l).Nodup) :
    decodeScalars acc l = .ok (acc ++ l) := by
  induction l generalizing acc with
  | nil => simp [decodeScalars]
  | cons x rest ih =>
    unfold decodeScalars
    have hx : x ∉ acc := by
      intro hm
      have := List.nodup_append.1 h
      exact this.2.2 x hm x (by simp) rfl
    have hc : acc.contains x = false := by simpa using hx
    rw [if_neg (by simpa using hx)]
    have : (acc ++ [x] ++ rest).Nodup := by simpa using h
    rw [ih this]
    simp

/-- … and rejects a list in which a scalar occurs twice (`DuplicateKey`) -/
theorem decodeScalars_of_dup {acc l : List R} (hacc : acc.Nodup) (h : ¬ (acc ++ l).Nodup) :
    decodeScalars acc l = .err "DuplicateKey" := by
  induction l generalizing acc with
  | nil => simp at h; exact absurd hacc h
  | cons x rest ih =>
    unfold decodeScalars
    by_cases hx : x ∈ acc
    · have hc : acc.contains x = true := by simpa using hx
      rw [if_pos hc]
    · have hc : acc.contains x = false := by simpa using hx
      rw [if_neg (by simpa using hx)]
      apply ih
      · rw [List.nodup_append]
        refine ⟨hacc, by simp, ?_⟩
        intro a ha b hb
        simp at hb
        subst hb
        intro e; exact hx (e ▸ ha)
      · simpa using h

end Wire

section Checks
variable {R : Type}

theorem issuanceBlocked_iff (l : List Inp) :
    issuanceBlocked l = true ↔ ∃ i ∈ l, i.hasIssuance = true ∧ i.blindedIssuance.getD 1 = 1 := by
  induction l with
  | nil => simp [issuanceBlocked]
  | cons a rest ih => simp [issuanceBlocked, ih]

/-- `selectOuts` fails exactly on an output with a blinding key whose blinder index is out of range -/
theorem selectOuts_result (nIn : Nat) (sup : Supplied R) (k : Nat) (outs : List (Out R)) :
    (∃ l, selectOuts nIn sup k outs = .ok l ∧
        ∀ o ∈ outs, o.hasKey = true → ∀ b, o.blinderIndex = some b → b < nIn) ∨
    (selectOuts nIn sup k outs = .err "Index" ∧
        ∃ o ∈ outs, o.hasKey = true ∧ ∃ b, o.blinderIndex = some b ∧ nIn ≤ b) := by
  induction outs generalizing k with
  | nil => left; exact ⟨[], rfl, by simp⟩
  | cons o rest ih =>
    unfold selectOuts
    by_cases hk : o.hasKey = true
    · simp only [hk, Bool.not_true, Bool.false_eq_true, ↓reduceIte]
      cases hb : o.blinderIndex with
      | none =>
        simp only
        rcases ih (k + 1) with ⟨l, hl, hall⟩ | ⟨he, o', ho', h'⟩
        · left
          refine ⟨l, hl, ?_⟩
          intro x hx hxk b hxb
          rcases List.mem_cons.1 hx with rfl | hx
          · rw [hb] at hxb; cases hxb
          · exact hall x hx hxk b hxb
        · right; exact ⟨he, o', by simp [ho'], h'⟩
      | some b =>
        simp only
        by_cases hge : b ≥ nIn
        · right
          rw [if_pos hge]
          exact ⟨rfl, o, by simp, hk, b, hb, hge⟩
        · rw [if_neg hge]
          rcases ih (k + 1) with ⟨l, hl, hall⟩ | ⟨he, o', ho', h'⟩
          · left
            have hall' : ∀ x ∈ o :: rest, x.hasKey = true → ∀ b', x.blinderIndex = some b' → b' < nIn := by
              intro x hx hxk b' hxb
              rcases List.mem_cons.1 hx with rfl | hx
              · rw [hb] at hxb; cases hxb; omega
              · exact hall x hx hxk b' hxb
            by_cases hown : owns sup b = true
            · rw [if_pos hown, hl]; exact ⟨_, rfl, hall'⟩
            · rw [if_neg hown]; exact ⟨l, hl, hall'⟩
          · right
            refine ⟨?_, o', by simp [ho'], h'⟩
            by_cases hown : owns sup b = true
            · rw [if_pos hown, he]
            · rw [if_neg hown]; exact he
    · have hk' : o.hasKey = false := by simpa using hk
      simp only [hk', Bool.not_false, ↓reduceIte]
      rcases ih (k + 1) with ⟨l, hl, hall⟩ | ⟨he, o', ho', h'⟩
      · left
        refine ⟨l, hl, ?_⟩
        intro x hx hxk b hxb
        rcases List.mem_cons.1 hx with rfl | hx
        · rw [hk'] at hxk; cases hxk
        · exact hall x hx hxk b hxb
      · right; exact ⟨he, o', by simp [ho'], h'⟩

end Checks
end EV.PsetBlind

/-! ### totality: when do the blinders succeed -/
namespace EV.PsetBlind
section Totality
variable {R : Type}

/-- what the per-output checks of the blinders need: explicit amount ≥ the range proof minimum and explicit asset,
    no commitments yet, a script that is an address, and an asset the party has an input of -/
def Out.Blindable (known : Nat → Bool) (o : Out R) : Prop :=
  o.amountComm = false ∧ o.assetComm = false ∧ o.addressable = true ∧
  ∃ v a, o.amount = some v ∧ EV.Gen.PsetBlind.rangeproofMinValue ≤ v ∧ o.asset = some a ∧ known a = true

/-- the PSET-level preconditions: no blinded issuance, every input has its UTXO, blinder indices
    in range, outputs without blinding key have an explicit amount -/
def StaticOk (st : St R) : Prop :=
  issuanceBlocked st.inputs = false ∧ surjectionInputsOk st = true ∧
  (∀ o ∈ st.outputs, o.hasKey = true → ∀ b, o.blinderIndex = some b → b < st.inputs.length) ∧
  (∀ o ∈ st.outputs, o.hasKey = false → ∃ v, o.amount = some v)

/-- every output the party is to blind passes the per-output checks -/
def PartyOk (inps : List Inp) (outs : List (Out R)) (sup : Supplied R) : Prop :=
  ∀ o ∈ outs, Selected sup o → o.Blindable (canSurject inps sup)

theorem nonLastLoop_length {known : Nat → Bool} {rand : Nat → R × R} {sel : List Nat}
    {outs outs' : List (Out R)} {acc acc' : List (Secret R)}
    (h : nonLastLoop known rand sel outs acc = .ok (outs', acc')) :
    acc'.length = acc.length + sel.length := by
  induction sel generalizing outs acc with
  | nil =>
    simp only [nonLastLoop, Res.ok.injEq, Prod.mk.injEq] at h
    obtain ⟨_, rfl⟩ := h
    simp
  | cons i rest ih =>
    unfold nonLastLoop at h
    split at h
    · cases h
    · split at h
      · cases h
      · cases h
      · split at h
        · cases h
        · split at h
          · cases h
          · cases h
          · split at h
            · cases h
            · split at h
              · cases h
              · rw [ih h]; simp; omega

theorem nonLastLoop_ok {known : Nat → Bool} {rand : Nat → R × R} {sel : List Nat}
    {outs : List (Out R)} {acc : List (Secret R)}
    (hall : ∀ i ∈ sel, ∃ o, outs[i]? = some o ∧ o.Blindable known) (hnd : sel.Nodup) :
    ∃ r, nonLastLoop known rand sel outs acc = .ok r := by
  induction sel generalizing outs acc with
  | nil => exact ⟨_, rfl⟩
  | cons i rest ih =>
    obtain ⟨o, ho, hc, hac, had, v, a, hv, hv0, ha, hk⟩ := hall i (by simp)
    unfold nonLastLoop
    simp only [ho, hc, hv, had, hac, ha, hk, Bool.not_true, Bool.false_eq_true, ↓reduceIte]
    have hv0' : ¬ v < EV.Gen.PsetBlind.rangeproofMinValue := by omega
    simp only [hv0', ↓reduceIte]
    apply ih
    · intro j hj
      have hij : i ≠ j := fun e => (List.nodup_cons.1 hnd).1 (e ▸ hj)
      obtain ⟨o', ho', hb⟩ := hall j (by simp [hj])
      exact ⟨o', by rw [List.getElem?_set_ne hij]; exact ho', hb⟩
    · exact (List.nodup_cons.1 hnd).2

theorem expOutSecrets_ok {outs : List (Out R)} [Zero R]
    (h : ∀ o ∈ outs, o.hasKey = false → ∃ v, o.amount = some v) :
    ∃ l, expOutSecrets outs = .ok l := by
  induction outs with
  | nil => exact ⟨_, rfl⟩
  | cons o rest ih =>
    obtain ⟨l, hl⟩ := ih (fun x hx => h x (by simp [hx]))
    unfold expOutSecrets
    by_cases hk : o.hasKey = true
    · simp [hk, hl]
    · have hk' : o.hasKey = false := by simpa using hk
      obtain ⟨v, hv⟩ := h o (by simp) hk'
      simp [hk', hv, hl]

theorem selectOuts_ok_of_static {st : St R} (hs : StaticOk st) (sup : Supplied R) :
    ∃ sel, selectOuts st.inputs.length sup 0 st.outputs = .ok sel := by
  rcases selectOuts_result st.inputs.length sup 0 st.outputs with ⟨l, hl, _⟩ | ⟨_, o, ho, hk, b, hb, hge⟩
  · exact ⟨l, hl⟩
  · have := hs.2.2.1 o ho hk b hb
    omega

end Totality

section TotalityRing
variable {R : Type} [CommRing R] [DecidableEq R]

/-- `blind_non_last` succeeds on a well-formed PSET whose outputs to blind are blindable -/
theorem nonLast_ok {st : St R} {sup : Supplied R} (rand : Nat → R × R)
    (hs : StaticOk st) (hp : PartyOk st.inputs st.outputs sup) :
    ∃ st' ret, nonLast st sup rand = .ok (st', ret) := by
  obtain ⟨sel, hsel⟩ := selectOuts_ok_of_static hs sup
  obtain ⟨hmem, hpw, _⟩ := selectOuts_spec hsel
  unfold nonLast blindChecks
  simp only [hs.1, Bool.false_eq_true, ↓reduceIte, hsel]
  by_cases hemp : sel.isEmpty = true
  · simp [hemp]
  · simp only [hemp, Bool.false_eq_true, ↓reduceIte, hs.2.1, Bool.not_true]
    have hnd : sel.Nodup := hpw.imp (fun h => Nat.ne_of_lt h)
    have hall : ∀ i ∈ sel, ∃ o, st.outputs[i]? = some o ∧ o.Blindable (canSurject st.inputs sup) := by
      intro i hi
      obtain ⟨j, o, hj, hget, hsel'⟩ := (hmem i).1 hi
      have : j = i := by omega
      subst this
      exact ⟨o, hget, hp o (List.mem_of_getElem? hget) hsel'⟩
    obtain ⟨⟨outs, accs⟩, hloop⟩ := nonLastLoop_ok (rand := rand) (acc := []) hall hnd
    simp only [hloop]
    have hlen := nonLastLoop_length hloop
    have hne : accs ≠ [] := by
      intro e
      rw [e] at hlen
      simp at hlen
      have : sel = [] := List.eq_nil_of_length_eq_zero (by omega)
      simp [this] at hemp
    rw [List.getLast?_eq_some_getLast hne]
    exact ⟨_, _, rfl⟩

theorem keyless_amounts_of_le {a b : List (Out R)} (hle : OutsLe a b)
    (h : ∀ o ∈ a, o.hasKey = false → ∃ v, o.amount = some v) :
    ∀ o ∈ b, o.hasKey = false → ∃ v, o.amount = some v := by
  intro o' ho' hk
  obtain ⟨i, hi⟩ := List.getElem?_of_mem ho'
  obtain ⟨o, ho, hm⟩ := hle.get' hi
  obtain ⟨v, hv⟩ := h o (List.mem_of_getElem? ho) (by rw [← hm.1.1]; exact hk)
  exact ⟨v, by rw [hm.1.2.2.1]; exact hv⟩

/-- `blind_last` succeeds on a well-formed PSET if the party has at least one output to blind and
    all of them are blindable -/
theorem blindLast_ok {st : St R} {sup : Supplied R} (rand : Nat → R × R)
    (hs : StaticOk st) (hinv : Inv st.outputs) (hp : PartyOk st.inputs st.outputs sup)
    (hex : ∃ o ∈ st.outputs, Selected sup o) :
    ∃ st' ret, blindLast st sup rand = .ok (st', ret) := by
  obtain ⟨sel, hsel⟩ := selectOuts_ok_of_static hs sup
  obtain ⟨hmem, hpw, _⟩ := selectOuts_spec hsel
  have hne : sel ≠ [] := by
    obtain ⟨o, ho, hso⟩ := hex
    obtain ⟨i, hi⟩ := List.getElem?_of_mem ho
    have : i ∈ sel := (hmem i).2 ⟨i, o, by omega, hi, hso⟩
    intro e; rw [e] at this; simp at this
  have hlast : sel.getLast? = some (sel.getLast hne) := List.getLast?_eq_some_getLast hne
  generalize sel.getLast hne = lastIdx at hlast
  have hsplit : sel.dropLast ++ [lastIdx] = sel := dropLast_append_of_getLast? hlast
  have hlastmem : lastIdx ∈ sel := by rw [← hsplit]; simp
  obtain ⟨k, o, hk, ho, hso⟩ := (hmem lastIdx).1 hlastmem
  have : k = lastIdx := by omega
  subst this
  have hi : k < st.outputs.length := (List.getElem?_eq_some_iff.1 ho).1
  obtain ⟨hc, hac, had, v, a, hv, hv0, ha, hka⟩ := hp o (List.mem_of_getElem? ho) hso
  -- stage 1
  have hst1 : ∃ r, lastStage1 st sup rand (inpSecrets sup) sel k = .ok r := by
    unfold lastStage1
    by_cases hemp : sel.dropLast.isEmpty = true
    · simp [hemp]
    · simp only [hemp, Bool.false_eq_true, ↓reduceIte, ho]
      have hsA : StaticOk ({ st with outputs := st.outputs.set k { o with blinderIndex := none } } : St R) := by
        refine ⟨hs.1, hs.2.1, ?_, ?_⟩
        · intro x hx hxk b hxb
          rcases List.mem_or_eq_of_mem_set hx with hx | rfl
          · exact hs.2.2.1 x hx hxk b hxb
          · simp at hxb
        · intro x hx hxk
          rcases List.mem_or_eq_of_mem_set hx with hx | rfl
          · exact hs.2.2.2 x hx hxk
          · exact hs.2.2.2 o (List.mem_of_getElem? ho) hxk
      have hpA : PartyOk st.inputs (st.outputs.set k { o with blinderIndex := none }) sup := by
        intro x hx hxs
        rcases List.mem_or_eq_of_mem_set hx with hx | rfl
        · exact hp x hx hxs
        · obtain ⟨_, b, hb, _⟩ := hxs
          simp at hb
      have hinvA : Inv (st.outputs.set k { o with blinderIndex := none }) :=
        hinv.set (fun hc' => hinv o (List.mem_of_getElem? ho) hc')
      obtain ⟨stB, retB, hnl⟩ := nonLast_ok rand hsA hpA
      obtain ⟨_, _, _, hleB, _⟩ := nonLast_spec hnl hinvA
      simp only [hnl]
      have hiB : k < stB.outputs.length := by
        have := hleB.1
        simp at this
        omega
      rw [List.getElem?_eq_getElem hiB]
      exact ⟨_, rfl⟩
  obtain ⟨⟨st1, ret1, ins⟩, hs1⟩ := hst1
  obtain ⟨a1, a2, _, a4, _, _, _⟩ := lastStage1_spec hsel hlast hs1 hinv
  unfold blindLast blindChecks
  simp only [hs.1, Bool.false_eq_true, ↓reduceIte, hsel, hlast, hs1]
  -- stage 2
  unfold lastStage2
  have hsurj : surjectionInputsOk st1 = true := by
    have := hs.2.1
    unfold surjectionInputsOk at this ⊢
    rw [a1]; exact this
  obtain ⟨exps, hexps⟩ := expOutSecrets_ok (R := R) (keyless_amounts_of_le a2 hs.2.2.2)
  have hv0' : ¬ v < EV.Gen.PsetBlind.rangeproofMinValue := by omega
  rw [a4, ho, a1]
  simp only [hsurj, Bool.not_true, Bool.false_eq_true, ↓reduceIte, ha, hka, hv, hexps, hso.1, hv0']
  exact ⟨_, _, rfl⟩

/-- two parties never claim the same output -/
def DisjointSel (outs : List (Out R)) (s₁ s₂ : Supplied R) : Prop :=
  ∀ o ∈ outs, Selected s₁ o → ¬ Selected s₂ o

theorem DisjointSel.of_le {a b : List (Out R)} (hle : OutsLe a b) {s₁ s₂ : Supplied R}
    (h : DisjointSel a s₁ s₂) : DisjointSel b s₁ s₂ := by
  intro o' ho' h1 h2
  obtain ⟨i, hi⟩ := List.getElem?_of_mem ho'
  obtain ⟨o, ho, hm⟩ := hle.get' hi
  exact h o (List.mem_of_getElem? ho) ((Selected.of_sameMarks hm.1).2 h1) ((Selected.of_sameMarks hm.1).2 h2)

theorem StaticOk.of_le {st st1 : St R} (hs : StaticOk st) (hin : st1.inputs = st.inputs)
    (hle : OutsLe st.outputs st1.outputs) : StaticOk st1 := by
  refine ⟨by rw [hin]; exact hs.1, ?_, ?_, keyless_amounts_of_le hle hs.2.2.2⟩
  · have := hs.2.1
    unfold surjectionInputsOk at this ⊢
    rw [hin]; exact this
  · intro o' ho' hk b hb
    obtain ⟨i, hi⟩ := List.getElem?_of_mem ho'
    obtain ⟨o, ho, hm⟩ := hle.get' hi
    rw [hin]
    exact hs.2.2.1 o (List.mem_of_getElem? ho) (by rw [← hm.1.1]; exact hk) b (by rw [← hm.1.2.1]; exact hb)

/-- the pairwise-disjointness hypothesis on a list of steps -/
def StepsDisjoint (outs : List (Out R)) (steps : List (Step R)) : Prop :=
  steps.Pairwise (fun s t => ∀ sup rand sup' rand', s = Step.nonLast sup rand →
    t = Step.nonLast sup' rand' → DisjointSel outs sup sup')

/-- any sequence of non-last blinders (pairwise disjoint outputs, each blindable) and hops runs to
    completion — unless a hop meets two equal scalars -/
theorem pre_flow_total {steps : List (Step R)} {st : St R}
    (hpre : ∀ s ∈ steps, s.isPre) (hs : StaticOk st) (hinv : Inv st.outputs)
    (hok : ∀ sup rand, Step.nonLast sup rand ∈ steps → PartyOk st.inputs st.outputs sup)
    (hdis : StepsDisjoint st.outputs steps) :
    (∃ st', runFlow st steps = .ok st' ∧ st'.inputs = st.inputs ∧ OutsLe st.outputs st'.outputs ∧
        Inv st'.outputs ∧
        (∀ j : Nat, (∀ sup rand, Step.nonLast sup rand ∈ steps → ∀ o : Out R, st.outputs[j]? = some o →
          ¬ Selected sup o) → st'.outputs[j]? = st.outputs[j]?)) ∨
    runFlow st steps = .err "DuplicateKey" := by
  induction steps generalizing st with
  | nil => left; exact ⟨st, rfl, rfl, OutsLe.refl _, hinv, fun _ _ => rfl⟩
  | cons s rest ih =>
    have hpre' : ∀ s ∈ rest, s.isPre := fun s hs => hpre s (by simp [hs])
    have hdis' : StepsDisjoint st.outputs rest := (List.pairwise_cons.1 hdis).2
    cases s with
    | last sup rand => exact absurd (hpre (Step.last sup rand) (by simp)) (by simp [Step.isPre])
    | hop =>
      by_cases hnd : st.scalars.Nodup
      · have hh : hop st = .ok st := by
          unfold hop
          rw [decodeScalars_of_nodup (by simpa using hnd)]
          simp
        rcases ih hpre' hs hinv (fun sup rand hm => hok sup rand (by simp [hm])) hdis' with
          ⟨st', h1, h2, h3, h4, h5⟩ | herr
        · left
          refine ⟨st', by simp [runFlow, runStep, hh, h1], h2, h3, h4, ?_⟩
          intro j hj
          exact h5 j (fun sup rand hm => hj sup rand (by simp [hm]))
        · right; simp [runFlow, runStep, hh, herr]
      · right
        have hh : hop st = .err "DuplicateKey" := by
          unfold hop
          rw [decodeScalars_of_dup List.nodup_nil (by simpa using hnd)]
        simp [runFlow, runStep, hh]
    | nonLast sup rand =>
      obtain ⟨st1, ret, hnl⟩ := nonLast_ok rand hs (hok sup rand (by simp))
      obtain ⟨sel, hsel, c1, c2, c3, _, c5, _⟩ := nonLast_spec hnl hinv
      obtain ⟨hmem, _, _⟩ := selectOuts_spec hsel
      have hs1 : StaticOk st1 := hs.of_le c1 c2
      have hok1 : ∀ sup' rand', Step.nonLast sup' rand' ∈ rest → PartyOk st1.inputs st1.outputs sup' := by
        intro sup' rand' hm o' ho' hsel'
        obtain ⟨j, hj⟩ := List.getElem?_of_mem ho'
        obtain ⟨o, ho, hle⟩ := c2.get' hj
        have hso : Selected sup' o := (Selected.of_sameMarks hle.1).2 hsel'
        have hdisj : DisjointSel st.outputs sup sup' :=
          (List.pairwise_cons.1 hdis).1 _ hm sup rand sup' rand' rfl rfl
        have hnot : j ∉ sel := by
          intro hin
          obtain ⟨k, x, hk, hx, hsx⟩ := (hmem j).1 hin
          have : k = j := by omega
          subst this
          rw [ho] at hx; cases hx
          exact hdisj o (List.mem_of_getElem? ho) hsx hso
        have : o' = o := by
          have := c5 j hnot
          rw [hj, ho] at this
          exact Option.some.inj this
        subst this
        rw [c1]
        exact hok sup' rand' (by simp [hm]) o' (List.mem_of_getElem? ho) hso
      have hdis1 : StepsDisjoint st1.outputs rest :=
        hdis'.imp (fun h sup rand sup' rand' e1 e2 => (h sup rand sup' rand' e1 e2).of_le c2)
      rcases ih hpre' hs1 c3 hok1 hdis1 with ⟨st', h1, h2, h3, h4, h5⟩ | herr
      · left
        refine ⟨st', by simp [runFlow, runStep, hnl, h1], h2.trans c1, c2.trans h3, h4, ?_⟩
        intro j hj
        have hnot : j ∉ sel := by
          intro hin
          obtain ⟨k, x, hk, hx, hsx⟩ := (hmem j).1 hin
          have : k = j := by omega
          subst this
          exact hj sup rand (by simp) x hx hsx
        rw [h5 j, c5 j hnot]
        intro sup' rand' hm o1 ho1 hs1'
        obtain ⟨o, ho, hle⟩ := c2.get' ho1
        exact hj sup' rand' (by simp [hm]) o ho ((Selected.of_sameMarks hle.1).2 hs1')
      · right; simp [runFlow, runStep, hnl, herr]

/-- the whole flow runs to completion for every order of the blinders — unless a hop meets two
    equal scalars (`DuplicateKey`) -/
theorem flow_total {pre : List (Step R)} {st0 : St R} {supL : Supplied R} (randL : Nat → R × R)
    (hpre : ∀ s ∈ pre, s.isPre) (hs : StaticOk st0) (hinv : Inv st0.outputs)
    (hok : ∀ sup rand, Step.nonLast sup rand ∈ pre → PartyOk st0.inputs st0.outputs sup)
    (hokL : PartyOk st0.inputs st0.outputs supL)
    (hdis : StepsDisjoint st0.outputs pre)
    (hdisL : ∀ sup rand, Step.nonLast sup rand ∈ pre → DisjointSel st0.outputs sup supL)
    (hex : ∃ o ∈ st0.outputs, Selected supL o) :
    (∃ st', runFlow st0 (pre ++ [Step.last supL randL]) = .ok st') ∨
    runFlow st0 (pre ++ [Step.last supL randL]) = .err "DuplicateKey" := by
  rw [runFlow_append]
  rcases pre_flow_total hpre hs hinv hok hdis with ⟨st1, h1, h2, h3, h4, h5⟩ | herr
  · left
    rw [h1]
    have hs1 : StaticOk st1 := hs.of_le h2 h3
    -- the last party's outputs are still as they were
    have hsame : ∀ (j : Nat) (o : Out R), st0.outputs[j]? = some o → Selected supL o →
        st1.outputs[j]? = some o := by
      intro j o ho hso
      rw [h5 j]
      · exact ho
      · intro sup rand hm x hx hsx
        rw [ho] at hx; cases hx
        exact hdisL sup rand hm o (List.mem_of_getElem? ho) hsx hso
    have hokL1 : PartyOk st1.inputs st1.outputs supL := by
      intro o' ho' hsel'
      obtain ⟨j, hj⟩ := List.getElem?_of_mem ho'
      obtain ⟨o, ho, hle⟩ := h3.get' hj
      have hso : Selected supL o := (Selected.of_sameMarks hle.1).2 hsel'
      have := hsame j o ho hso
      rw [hj] at this
      cases this
      rw [h2]
      exact hokL o' (List.mem_of_getElem? ho) hso
    have hex1 : ∃ o ∈ st1.outputs, Selected supL o := by
      obtain ⟨o, ho, hso⟩ := hex
      obtain ⟨j, hj⟩ := List.getElem?_of_mem ho
      exact ⟨o, List.mem_of_getElem? (hsame j o hj hso), hso⟩
    obtain ⟨st', ret, hbl⟩ := blindLast_ok randL hs1 h4 hokL1 hex1
    exact ⟨st', by simp [runFlow, runStep, hbl]⟩
  · right; rw [herr]

end TotalityRing
end EV.PsetBlind

/-! ### the result does not depend on the order of the non-last blinders -/
namespace EV.PsetBlind
section Order
variable {R : Type}

theorem nonLastLoop_at {known : Nat → Bool} {rand : Nat → R × R} {sel : List Nat}
    {outs outs' : List (Out R)} {acc acc' : List (Secret R)}
    (h : nonLastLoop known rand sel outs acc = .ok (outs', acc')) (hnd : sel.Nodup) :
    ∀ j ∈ sel, ∃ o, outs[j]? = some o ∧ outs'[j]? = some (o.blindWith (rand j).1 (rand j).2) := by
  induction sel generalizing outs acc with
  | nil => simp
  | cons i rest ih =>
    have h0 := h
    unfold nonLastLoop at h
    split at h
    · cases h
    · next o ho =>
      split at h
      · cases h
      · cases h
      · split at h
        · cases h
        · split at h
          · cases h
          · cases h
          · split at h
            · cases h
            · split at h
              · cases h
              · have hi : i ∉ rest := (List.nodup_cons.1 hnd).1
                obtain ⟨_, _, hunt⟩ := nonLastLoop_struct h
                intro j hj
                rcases List.mem_cons.1 hj with rfl | hj
                · have hlt : j < outs.length := (List.getElem?_eq_some_iff.1 ho).1
                  refine ⟨o, ho, ?_⟩
                  rw [hunt j hi, List.getElem?_set_self hlt]
                · obtain ⟨o1, ho1, ho1'⟩ := ih h (List.nodup_cons.1 hnd).2 j hj
                  have hij : i ≠ j := fun e => hi (e ▸ hj)
                  rw [List.getElem?_set_ne hij] at ho1
                  exact ⟨o1, ho1, ho1'⟩

/-- the marks `blind_checks` reads -/
def Out.key (o : Out R) : Bool × Option Nat := (o.hasKey, o.blinderIndex)

theorem selectOuts_congr (nIn : Nat) (sup : Supplied R) (k : Nat) (a b : List (Out R))
    (h : a.map Out.key = b.map Out.key) : selectOuts nIn sup k a = selectOuts nIn sup k b := by
  induction a generalizing b k with
  | nil =>
    cases b with
    | nil => rfl
    | cons _ _ => simp at h
  | cons x xs ih =>
    cases b with
    | nil => simp at h
    | cons y ys =>
      simp only [List.map_cons, List.cons.injEq, Out.key, Prod.mk.injEq] at h
      obtain ⟨⟨h1, h2⟩, h3⟩ := h
      unfold selectOuts
      rw [h1, h2, ih (k + 1) ys h3]

end Order

section OrderRing
variable {R : Type} [CommRing R] [DecidableEq R]

theorem OutsLe.keys {a b : List (Out R)} (h : OutsLe a b) : a.map Out.key = b.map Out.key := by
  apply List.ext_getElem?
  intro i
  simp only [List.getElem?_map]
  cases ha : a[i]? with
  | none =>
    have : b[i]? = none := by
      rw [List.getElem?_eq_none_iff] at ha ⊢
      rw [← h.1]; exact ha
    simp [this]
  | some o =>
    obtain ⟨o', ho', hle⟩ := h.get ha
    simp [ho', Out.key, hle.1.1, hle.1.2.1]

theorem secretAt_congr {a b : List (Out R)} (h : OutsLe a b) (rand : Nat → R × R) (i : Nat) :
    secretAt b rand i = secretAt a rand i := by
  unfold secretAt
  cases ha : a[i]? with
  | none =>
    have : b[i]? = none := by
      rw [List.getElem?_eq_none_iff] at ha ⊢
      rw [← h.1]; exact ha
    simp [this]
  | some o =>
    obtain ⟨o', ho', hle⟩ := h.get ha
    simp [ho', hle.1.2.2.1, hle.1.2.2.2.1]

/-- the outputs a successful `blind_non_last` writes, exactly -/
theorem nonLast_outputs {st st' : St R} {sup : Supplied R} {rand : Nat → R × R} {ret : List (Nat × R × R)}
    (h : nonLast st sup rand = .ok (st', ret)) :
    ∀ (j : Nat) (o : Out R), st.outputs[j]? = some o → Selected sup o →
      st'.outputs[j]? = some (o.blindWith (rand j).1 (rand j).2) := by
  unfold nonLast blindChecks at h
  split at h
  · cases h
  · cases h
  · next ins sel hbc =>
    split at hbc
    · cases hbc
    · split at hbc
      · next sel' hsel =>
        simp only [Res.ok.injEq, Prod.mk.injEq] at hbc
        obtain ⟨rfl, rfl⟩ := hbc
        obtain ⟨hmem, hpw, _⟩ := selectOuts_spec hsel
        intro j o ho hso
        have hj : j ∈ sel' := (hmem j).2 ⟨j, o, by omega, ho, hso⟩
        split at h
        · next hemp =>
          have : sel' = [] := by simpa using hemp
          rw [this] at hj; simp at hj
        · split at h
          · cases h
          · split at h
            · cases h
            · cases h
            · next outs outSecrets hloop =>
              have hnd : sel'.Nodup := hpw.imp (fun h => Nat.ne_of_lt h)
              obtain ⟨o1, ho1, ho1'⟩ := nonLastLoop_at hloop hnd j hj
              rw [ho] at ho1; cases ho1
              split at h
              · cases h
              · simp only [Res.ok.injEq, Prod.mk.injEq] at h
                obtain ⟨rfl, rfl⟩ := h
                exact ho1'
      · cases hbc
      · cases hbc


/-- structural part of `pre_invariant` (no hypothesis on who has something to blind) -/
theorem pre_struct {steps : List (Step R)} {st st' : St R}
    (hpre : ∀ s ∈ steps, s.isPre) (h : runFlow st steps = .ok st') (hinv : Inv st.outputs) :
    st'.inputs = st.inputs ∧ OutsLe st.outputs st'.outputs ∧ Inv st'.outputs ∧
    (∀ j : Nat, (∀ sup rand, Step.nonLast sup rand ∈ steps → ∀ o : Out R, st.outputs[j]? = some o →
        ¬ Selected sup o) → st'.outputs[j]? = st.outputs[j]?) := by
  induction steps generalizing st with
  | nil =>
    simp only [runFlow, Res.ok.injEq] at h
    subst h
    exact ⟨rfl, OutsLe.refl _, hinv, fun _ _ => rfl⟩
  | cons s rest ih =>
    have hpre' : ∀ s ∈ rest, s.isPre := fun s hs => hpre s (by simp [hs])
    simp only [runFlow] at h
    split at h
    · next st1 hstep =>
      cases s with
      | last sup rand => exact absurd (hpre (Step.last sup rand) (by simp)) (by simp [Step.isPre])
      | hop =>
        simp only [runStep] at hstep
        have := hop_ok hstep
        subst this
        obtain ⟨i1, i2, i3, i4⟩ := ih hpre' h hinv
        exact ⟨i1, i2, i3, fun j hj => i4 j (fun sup rand hm => hj sup rand (by simp [hm]))⟩
      | nonLast sup rand =>
        simp only [runStep] at hstep
        split at hstep
        · next st1' ret hnl =>
          simp only [Res.ok.injEq] at hstep
          subst hstep
          obtain ⟨sel, hsel, c1, c2, c3, _, c5, _⟩ := nonLast_spec hnl hinv
          obtain ⟨hmem, _, _⟩ := selectOuts_spec hsel
          obtain ⟨i1, i2, i3, i4⟩ := ih hpre' h c3
          refine ⟨i1.trans c1, c2.trans i2, i3, ?_⟩
          intro j hj
          have hnot : j ∉ sel := by
            intro hin
            obtain ⟨k, x, hk, hx, hsx⟩ := (hmem j).1 hin
            have : k = j := by omega
            subst this
            exact hj sup rand (by simp) x hx hsx
          rw [i4 j, c5 j hnot]
          intro sup' rand' hm o1 ho1 hs1'
          obtain ⟨o, ho, hle⟩ := c2.get' ho1
          exact hj sup' rand' (by simp [hm]) o ho ((Selected.of_sameMarks hle.1).2 hs1')
        · cases hstep
        · cases hstep
    · cases h
    · cases h

/-- the selection of a party on a PSET state -/
def selOf (st : St R) (sup : Supplied R) : List Nat :=
  match selectOuts st.inputs.length sup 0 st.outputs with
  | .ok l => l
  | _ => []

/-- the scalar a step publishes, as a function of the state it starts from -/
def stepScalars (st : St R) : Step R → List R
  | .nonLast sup rand =>
    if (selOf st sup).isEmpty then []
    else [sumTerms (inpSecrets sup) - sumTerms ((selOf st sup).map (secretAt st.outputs rand))]
  | _ => []

theorem stepScalars_congr {st st1 : St R} (hin : st1.inputs = st.inputs)
    (hle : OutsLe st.outputs st1.outputs) (s : Step R) : stepScalars st1 s = stepScalars st s := by
  cases s with
  | nonLast sup rand =>
    have hsel : selOf st1 sup = selOf st sup := by
      unfold selOf
      rw [hin, selectOuts_congr _ _ _ _ _ hle.keys.symm]
    simp only [stepScalars, hsel]
    split
    · rfl
    · congr 3
      apply List.map_congr_left
      intro i _
      exact secretAt_congr hle rand i
  | last _ _ => rfl
  | hop => rfl

/-- the state after any successful sequence of non-last blinders and hops, exactly: the scalar
    list grows by one scalar per blinder that had something to blind (a function of the blinder
    and the marks only), and under pairwise disjointness every claimed output holds the
    commitments made with its own blinder's random factors -/
theorem pre_exact {steps : List (Step R)} {st st' : St R}
    (hpre : ∀ s ∈ steps, s.isPre) (h : runFlow st steps = .ok st') (hinv : Inv st.outputs)
    (hdis : StepsDisjoint st.outputs steps) :
    st'.scalars = st.scalars ++ steps.flatMap (stepScalars st) ∧
    (∀ sup rand, Step.nonLast sup rand ∈ steps → ∀ (j : Nat) (o : Out R), st.outputs[j]? = some o →
      Selected sup o → st'.outputs[j]? = some (o.blindWith (rand j).1 (rand j).2)) := by
  induction steps generalizing st with
  | nil =>
    simp only [runFlow, Res.ok.injEq] at h
    subst h
    simp
  | cons s rest ih =>
    have hpre' : ∀ s ∈ rest, s.isPre := fun s hs => hpre s (by simp [hs])
    have hdis' : StepsDisjoint st.outputs rest := (List.pairwise_cons.1 hdis).2
    simp only [runFlow] at h
    split at h
    · next st1 hstep =>
      cases s with
      | last sup rand => exact absurd (hpre (Step.last sup rand) (by simp)) (by simp [Step.isPre])
      | hop =>
        simp only [runStep] at hstep
        have := hop_ok hstep
        subst this
        obtain ⟨i1, i2⟩ := ih hpre' h hinv hdis'
        refine ⟨by simp [i1, stepScalars], ?_⟩
        intro sup rand hm j o ho hso
        exact i2 sup rand (by simpa using hm) j o ho hso
      | nonLast sup rand =>
        simp only [runStep] at hstep
        split at hstep
        · next st1' ret hnl =>
          simp only [Res.ok.injEq] at hstep
          subst hstep
          obtain ⟨sel, hsel, c1, c2, c3, _, c5, _, c7, c8⟩ := nonLast_spec hnl hinv
          obtain ⟨hmem, _, _⟩ := selectOuts_spec hsel
          have hdis1 : StepsDisjoint st1'.outputs rest :=
            hdis'.imp (fun h sup rand sup' rand' e1 e2 => (h sup rand sup' rand' e1 e2).of_le c2)
          obtain ⟨i1, i2⟩ := ih hpre' h c3 hdis1
          have hselOf : selOf st sup = sel := by simp [selOf, hsel]
          constructor
          · rw [i1]
            have hcongr : rest.flatMap (stepScalars st1') = rest.flatMap (stepScalars st) := by
              congr 1
              funext s
              exact stepScalars_congr c1 c2 s
            rw [hcongr]
            simp only [List.flatMap_cons, stepScalars, hselOf]
            by_cases hemp : sel = []
            · rw [c7 hemp]; simp [hemp]
            · rw [(c8 hemp).1]
              have : sel.isEmpty = false := by simpa using hemp
              simp [this]
          · intro sup' rand' hm j o ho hso
            rcases List.mem_cons.1 hm with e | hm
            · cases e
              -- blinded now, untouched by the rest
              have hnow := nonLast_outputs hnl j o ho hso
              have hrest := (pre_struct hpre' h c3).2.2.2 j ?_
              · rw [hrest]; exact hnow
              · intro sup2 rand2 hm2 o1 ho1 hs1
                rw [hnow] at ho1; cases ho1
                have hso2 : Selected sup2 o := (Selected.of_sameMarks (Out.le_blindWith o _ _).1).2 hs1
                exact (List.pairwise_cons.1 hdis).1 _ hm2 sup rand sup2 rand2 rfl rfl o
                  (List.mem_of_getElem? ho) hso hso2
            · -- untouched now, blinded later
              have hdisj : DisjointSel st.outputs sup sup' :=
                (List.pairwise_cons.1 hdis).1 _ hm sup rand sup' rand' rfl rfl
              have hnot : j ∉ sel := by
                intro hin
                obtain ⟨k, x, hk, hx, hsx⟩ := (hmem j).1 hin
                have : k = j := by omega
                subst this
                rw [ho] at hx; cases hx
                exact hdisj o (List.mem_of_getElem? ho) hsx hso
              have ho1 : st1'.outputs[j]? = some o := by rw [c5 j hnot]; exact ho
              exact i2 sup' rand' hm j o ho1 hso
        · cases hstep
        · cases hstep
    · cases h
    · cases h

/-! the blinders read the scalar list only to append to it (non-last) or to add it up (last) -/

theorem nonLast_with_scalars (st : St R) (sc : List R) (sup : Supplied R) (rand : Nat → R × R) :
    nonLast { st with scalars := sc } sup rand =
      match nonLast st sup rand with
      | .ok (st', ret) => .ok ({ st' with scalars := sc ++ st'.scalars.drop st.scalars.length }, ret)
      | .err e => .err e
      | .panic p => .panic p := by
  unfold nonLast
  have hb : blindChecks ({ st with scalars := sc } : St R) sup = blindChecks st sup := rfl
  rw [hb]
  cases blindChecks st sup with
  | err e => rfl
  | panic p => rfl
  | ok pr =>
    obtain ⟨ins, sel⟩ := pr
    simp only
    by_cases hemp : sel.isEmpty = true
    · simp [hemp]
    · simp only [hemp, Bool.false_eq_true, ↓reduceIte]
      have hsu : surjectionInputsOk ({ st with scalars := sc } : St R) = surjectionInputsOk st := rfl
      rw [hsu]
      by_cases hs : (!surjectionInputsOk st) = true
      · simp [hs]
      · simp only [hs, Bool.false_eq_true, ↓reduceIte]
        cases nonLastLoop (canSurject st.inputs sup) rand sel st.outputs [] with
        | err e => rfl
        | panic p => rfl
        | ok pr2 =>
          obtain ⟨outs, outSecrets⟩ := pr2
          simp only
          cases outSecrets.getLast? with
          | none => rfl
          | some l => simp

theorem nonLast_scalars_prefix {st st' : St R} {sup : Supplied R} {rand : Nat → R × R}
    {ret : List (Nat × R × R)} (h : nonLast st sup rand = .ok (st', ret)) :
    st'.scalars = st.scalars ++ st'.scalars.drop st.scalars.length := by
  unfold nonLast at h
  split at h
  · cases h
  · cases h
  · split at h
    · simp only [Res.ok.injEq, Prod.mk.injEq] at h
      obtain ⟨rfl, _⟩ := h
      simp
    · split at h
      · cases h
      · split at h
        · cases h
        · cases h
        · split at h
          · cases h
          · simp only [Res.ok.injEq, Prod.mk.injEq] at h
            obtain ⟨rfl, _⟩ := h
            simp

theorem lastStage1_with_scalars (st : St R) (sc : List R) (sup : Supplied R) (rand : Nat → R × R)
    (ins0 : List (Secret R)) (sel : List Nat) (lastIdx : Nat) :
    lastStage1 { st with scalars := sc } sup rand ins0 sel lastIdx =
      match lastStage1 st sup rand ins0 sel lastIdx with
      | .ok (st1, ret, ins) =>
        .ok ({ st1 with scalars := sc ++ st1.scalars.drop st.scalars.length }, ret, ins)
      | .err e => .err e
      | .panic p => .panic p := by
  unfold lastStage1
  by_cases hemp : sel.dropLast.isEmpty = true
  · simp [hemp]
  · simp only [hemp, Bool.false_eq_true, ↓reduceIte]
    cases ho : st.outputs[lastIdx]? with
    | none => rfl
    | some o =>
      simp only
      have := nonLast_with_scalars
        ({ st with outputs := st.outputs.set lastIdx { o with blinderIndex := none } } : St R) sc sup rand
      simp only at this
      rw [this]
      cases nonLast ({ st with outputs := st.outputs.set lastIdx { o with blinderIndex := none } } : St R)
          sup rand with
      | err e => rfl
      | panic p => rfl
      | ok pr =>
        obtain ⟨stB, ret⟩ := pr
        simp only
        cases stB.outputs[lastIdx]? with
        | none => rfl
        | some o' => rfl

theorem lastStage1_scalars_prefix {st st1 : St R} {sup : Supplied R} {rand : Nat → R × R}
    {ins0 ins : List (Secret R)} {sel : List Nat} {lastIdx : Nat} {ret : List (Nat × R × R)}
    (h : lastStage1 st sup rand ins0 sel lastIdx = .ok (st1, ret, ins)) :
    st1.scalars = st.scalars ++ st1.scalars.drop st.scalars.length := by
  unfold lastStage1 at h
  split at h
  · simp only [Res.ok.injEq, Prod.mk.injEq] at h
    obtain ⟨rfl, _⟩ := h
    simp
  · split at h
    · cases h
    · dsimp only at h
      split at h
      · cases h
      · cases h
      · next stB retB hnl =>
        have := nonLast_scalars_prefix hnl
        split at h
        · cases h
        · simp only [Res.ok.injEq, Prod.mk.injEq] at h
          obtain ⟨rfl, _⟩ := h
          exact this

theorem lastStage2_scalars {st1 st' : St R} (sc : List R) (hsum : sc.sum = st1.scalars.sum)
    {sup : Supplied R} {rand : Nat → R × R} {lastIdx : Nat} {ret ret' : List (Nat × R × R)}
    {ins : List (Secret R)} (h : lastStage2 st1 sup rand lastIdx ret ins = .ok (st', ret')) :
    lastStage2 { st1 with scalars := sc } sup rand lastIdx ret ins = .ok (st', ret') := by
  unfold lastStage2 at h ⊢
  have hf : ∀ base : R, List.foldl vbfAdd base sc = List.foldl vbfAdd base st1.scalars := by
    intro base; rw [foldl_vbfAdd, foldl_vbfAdd, hsum]
  simp only [show surjectionInputsOk ({ st1 with scalars := sc } : St R) = surjectionInputsOk st1 from rfl, hf]
  exact h

/-- `blind_last` gives the same result on a PSET whose scalar list has the same sum -/
theorem blindLast_scalars {st : St R} (sc : List R) (hsum : sc.sum = st.scalars.sum)
    {sup : Supplied R} {rand : Nat → R × R} {st' : St R} {ret : List (Nat × R × R)}
    (h : blindLast st sup rand = .ok (st', ret)) :
    blindLast { st with scalars := sc } sup rand = .ok (st', ret) := by
  unfold blindLast at h ⊢
  simp only [show blindChecks ({ st with scalars := sc } : St R) sup = blindChecks st sup from rfl]
  cases hbc : blindChecks st sup with
  | err e => rw [hbc] at h; cases h
  | panic p => rw [hbc] at h; cases h
  | ok pr =>
    obtain ⟨ins0, sel⟩ := pr
    rw [hbc] at h
    simp only at h ⊢
    cases hlast : sel.getLast? with
    | none => rw [hlast] at h; cases h
    | some lastIdx =>
      rw [hlast] at h
      simp only at h ⊢
      rw [lastStage1_with_scalars]
      cases hs1 : lastStage1 st sup rand ins0 sel lastIdx with
      | err e => rw [hs1] at h; cases h
      | panic p => rw [hs1] at h; cases h
      | ok pr1 =>
        obtain ⟨st1, ret1, ins⟩ := pr1
        rw [hs1] at h
        simp only at h ⊢
        have hpre := lastStage1_scalars_prefix hs1
        exact lastStage2_scalars (st1 := st1) (sc ++ st1.scalars.drop st.scalars.length) (by
          conv_rhs => rw [hpre]
          simp only [List.sum_append, hsum]) h

end OrderRing
end EV.PsetBlind

/-! ### no panic: the index / unwrap sites of the blinders are unreachable -/
namespace EV.PsetBlind
section NoPanic
variable {R : Type}

theorem nonLastLoop_no_panic {known : Nat → Bool} {rand : Nat → R × R} {sel : List Nat}
    {outs : List (Out R)} {acc : List (Secret R)} (hlt : ∀ i ∈ sel, i < outs.length) (p : String) :
    nonLastLoop known rand sel outs acc ≠ .panic p := by
  induction sel generalizing outs acc with
  | nil => simp [nonLastLoop]
  | cons i rest ih =>
    have hi : i < outs.length := hlt i (by simp)
    unfold nonLastLoop
    rw [List.getElem?_eq_getElem hi]
    simp only
    split
    · simp
    · simp
    · split
      · simp
      · split
        · simp
        · simp
        · split
          · simp
          · split
            · simp
            · apply ih
              intro j hj
              simpa using hlt j (by simp [hj])

theorem expOutSecrets_no_panic [Zero R] (outs : List (Out R)) :
    ∀ p : String, expOutSecrets outs ≠ .panic p := by
  induction outs with
  | nil => simp [expOutSecrets]
  | cons o rest ih =>
    intro p
    unfold expOutSecrets
    split
    · exact ih p
    · split
      · simp
      · split
        · simp
        · simp
        · next s hs => exact absurd hs (ih s)

theorem selectOuts_no_panic (nIn : Nat) (sup : Supplied R) (k : Nat) (outs : List (Out R)) (p : String) :
    selectOuts nIn sup k outs ≠ .panic p := by
  rcases selectOuts_result nIn sup k outs with ⟨l, hl, _⟩ | ⟨he, _⟩
  · rw [hl]; simp
  · rw [he]; simp

end NoPanic
end EV.PsetBlind

namespace EV.PsetBlind
section NoPanicRing
variable {R : Type} [CommRing R] [DecidableEq R]

theorem sel_lt_length {nIn : Nat} {sup : Supplied R} {outs : List (Out R)} {sel : List Nat}
    (h : selectOuts nIn sup 0 outs = .ok sel) : ∀ i ∈ sel, i < outs.length := by
  intro i hi
  obtain ⟨j, o, hj, hget, _⟩ := ((selectOuts_spec h).1 i).1 hi
  have := (List.getElem?_eq_some_iff.1 hget).1
  omega

theorem nonLast_length {st st' : St R} {sup : Supplied R} {rand : Nat → R × R} {ret : List (Nat × R × R)}
    (h : nonLast st sup rand = .ok (st', ret)) : st'.outputs.length = st.outputs.length := by
  unfold nonLast at h
  split at h
  · cases h
  · cases h
  · split at h
    · simp only [Res.ok.injEq, Prod.mk.injEq] at h
      obtain ⟨rfl, _⟩ := h
      rfl
    · split at h
      · cases h
      · split at h
        · cases h
        · cases h
        · next outs outSecrets hloop =>
          split at h
          · cases h
          · simp only [Res.ok.injEq, Prod.mk.injEq] at h
            obtain ⟨rfl, _⟩ := h
            exact (nonLastLoop_struct hloop).1.1.symm

theorem nonLast_no_panic (st : St R) (sup : Supplied R) (rand : Nat → R × R) (p : String) :
    nonLast st sup rand ≠ .panic p := by
  unfold nonLast blindChecks
  by_cases hiss : issuanceBlocked st.inputs = true
  · simp [hiss]
  · simp only [hiss, Bool.false_eq_true, ↓reduceIte]
    cases hsel : selectOuts st.inputs.length sup 0 st.outputs with
    | err e => simp
    | panic q => exact absurd hsel (selectOuts_no_panic _ _ _ _ q)
    | ok sel =>
      simp only
      by_cases hemp : sel.isEmpty = true
      · simp [hemp]
      · simp only [hemp, Bool.false_eq_true, ↓reduceIte]
        by_cases hs : (!surjectionInputsOk st) = true
        · simp [hs]
        · simp only [hs, Bool.false_eq_true, ↓reduceIte]
          cases hloop : nonLastLoop (canSurject st.inputs sup) rand sel st.outputs [] with
          | err e => simp
          | panic q => exact absurd hloop (nonLastLoop_no_panic (sel_lt_length hsel) q)
          | ok pr =>
            obtain ⟨outs, outSecrets⟩ := pr
            simp only
            have hlen := nonLastLoop_length hloop
            have hne : outSecrets ≠ [] := by
              intro e
              rw [e] at hlen
              simp at hlen
              have : sel = [] := List.eq_nil_of_length_eq_zero (by omega)
              simp [this] at hemp
            rw [List.getLast?_eq_some_getLast hne]
            simp

theorem lastStage2_no_panic {st1 : St R} {sup : Supplied R} {rand : Nat → R × R} {lastIdx : Nat}
    {ret : List (Nat × R × R)} {ins : List (Secret R)} (hlt : lastIdx < st1.outputs.length) (p : String) :
    lastStage2 st1 sup rand lastIdx ret ins ≠ .panic p := by
  unfold lastStage2
  rw [List.getElem?_eq_getElem hlt]
  split
  · simp
  · simp only
    split
    · simp
    · split
      · simp
      · split
        · simp
        · split
          · simp
          · next q hq => exact absurd hq (expOutSecrets_no_panic _ q)
          · split
            · simp
            · split
              · simp
              · simp

theorem blindLast_no_panic (st : St R) (sup : Supplied R) (rand : Nat → R × R) (p : String) :
    blindLast st sup rand ≠ .panic p := by
  unfold blindLast blindChecks
  by_cases hiss : issuanceBlocked st.inputs = true
  · simp [hiss]
  · simp only [hiss, Bool.false_eq_true, ↓reduceIte]
    cases hsel : selectOuts st.inputs.length sup 0 st.outputs with
    | err e => simp
    | panic q => exact absurd hsel (selectOuts_no_panic _ _ _ _ q)
    | ok sel =>
      simp only
      cases hlast : sel.getLast? with
      | none => simp
      | some lastIdx =>
        simp only
        have hsplit : sel.dropLast ++ [lastIdx] = sel := dropLast_append_of_getLast? hlast
        have hlt : lastIdx < st.outputs.length := sel_lt_length hsel lastIdx (by rw [← hsplit]; simp)
        cases hs1 : lastStage1 st sup rand (inpSecrets sup) sel lastIdx with
        | err e => simp
        | panic q =>
          exfalso
          unfold lastStage1 at hs1
          split at hs1
          · cases hs1
          · rw [List.getElem?_eq_getElem hlt] at hs1
            dsimp only at hs1
            split at hs1
            · cases hs1
            · next q' hq' => exact nonLast_no_panic _ _ _ q' hq'
            · next stB retB hnl =>
              have hlenB := nonLast_length hnl
              have hltB : lastIdx < stB.outputs.length := by
                rw [hlenB]; simpa using hlt
              rw [List.getElem?_eq_getElem hltB] at hs1
              cases hs1
        | ok pr =>
          obtain ⟨st1, ret1, ins⟩ := pr
          simp only
          apply lastStage2_no_panic
          unfold lastStage1 at hs1
          split at hs1
          · simp only [Res.ok.injEq, Prod.mk.injEq] at hs1
            obtain ⟨rfl, _⟩ := hs1
            exact hlt
          · rw [List.getElem?_eq_getElem hlt] at hs1
            dsimp only at hs1
            split at hs1
            · cases hs1
            · cases hs1
            · next stB retB hnl =>
              have hlenB := nonLast_length hnl
              split at hs1
              · cases hs1
              · simp only [Res.ok.injEq, Prod.mk.injEq] at hs1
                obtain ⟨rfl, _⟩ := hs1
                simp only [List.length_set]
                rw [hlenB]; simpa using hlt

/-- no step of a flow panics -/
theorem runFlow_no_panic (steps : List (Step R)) (st : St R) (p : String) :
    runFlow st steps ≠ .panic p := by
  induction steps generalizing st with
  | nil => simp [runFlow]
  | cons s rest ih =>
    unfold runFlow
    cases hstep : runStep st s with
    | ok st' => exact ih st'
    | err e => simp
    | panic q =>
      exfalso
      cases s with
      | nonLast sup rand =>
        simp only [runStep] at hstep
        split at hstep
        · cases hstep
        · cases hstep
        · next q' hq' => exact nonLast_no_panic _ _ _ q' hq'
      | last sup rand =>
        simp only [runStep] at hstep
        split at hstep
        · cases hstep
        · cases hstep
        · next q' hq' => exact blindLast_no_panic _ _ _ q' hq'
      | hop =>
        simp only [runStep, hop] at hstep
        split at hstep
        · cases hstep
        · cases hstep
        · next q' hq' =>
          by_cases hnd : st.scalars.Nodup
          · rw [decodeScalars_of_nodup (by simpa using hnd)] at hq'; cases hq'
          · rw [decodeScalars_of_dup List.nodup_nil (by simpa using hnd)] at hq'; cases hq'

end NoPanicRing
end EV.PsetBlind
