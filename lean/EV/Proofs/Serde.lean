/-
  EV.Proofs.Serde — helper lemmas for the serde round trips of C20.
-/
import EV.Model.Serde
import EV.Proofs.Text
namespace EV.Serde
open EV EV.Text EV.Proofs.CodecPrim

/-! ### lossy on lists -/

theorem lossyL_map (f : Fmt) (l : List SVal) : lossyL f l = l.map (lossy f) := by
  induction l with
  | nil => simp [lossyL]
  | cons a r ih => simp [lossyL, ih]

theorem lossyL_map' {α} (f : Fmt) (g : α → SVal) (l : List α) : lossyL f (l.map g) = l.map (fun a => lossy f (g a)) := by
  rw [lossyL_map, List.map_map]; rfl

/-! ### bytes as arrays of numbers -/

theorem ofU8s_nums (w : Nat) (b : Bytes) : ofU8s (b.map fun x => SVal.num w x.toNat) = .ok b := by
  induction b with
  | nil => rfl
  | cons x r ih =>
    have hx : x.toNat < 256 := x.toNat_lt
    simp [ofU8s, ofNum, hx, ih]

theorem lossyL_sU8s (f : Fmt) (b : Bytes) : lossyL f (sU8s b) = b.map fun x => SVal.num 0 x.toNat := by
  rw [sU8s, lossyL_map']
  simp [lossy]

theorem ofU8s_sU8s (f : Fmt) (b : Bytes) : ofU8s (lossyL f (sU8s b)) = .ok b := by
  rw [lossyL_sU8s]; exact ofU8s_nums 0 b

theorem ofVecU8_rt (f : Fmt) (b : Bytes) : ofVecU8 (lossy f (sVecU8 b)) = .ok b := by
  simp [sVecU8, lossy, ofVecU8, ofU8s_sU8s]

theorem ofArr_rt (f : Fmt) (n : Nat) (b : Bytes) (h : b.length = n) : ofArr n (lossy f (sArr b)) = .ok b := by
  simp [sArr, lossy, ofArr, ofU8s_sU8s, h]

/-! ### vectors -/

theorem mapRes_rt {α} (f : Fmt) (t : α → SVal) (p : SVal → Res α) (l : List α)
    (h : ∀ a ∈ l, p (lossy f (t a)) = .ok a) : mapRes p (lossyL f (l.map t)) = .ok l := by
  induction l with
  | nil => simp [lossyL, mapRes]
  | cons a r ih =>
    have ha := h a (by simp)
    have hr := ih (fun x hx => h x (by simp [hx]))
    simp [lossyL, mapRes, ha, hr]

theorem ofSeq_rt {α} (f : Fmt) (t : α → SVal) (p : SVal → Res α) (l : List α)
    (h : ∀ a ∈ l, p (lossy f (t a)) = .ok a) : ofSeq p (lossy f (.seq (l.map t))) = .ok l := by
  simp [lossy, ofSeq, mapRes_rt f t p l h]

theorem ofStack_rt (f : Fmt) (l : List Bytes) : ofStack (lossy f (sStack l)) = .ok l :=
  ofSeq_rt f sVecU8 ofVecU8 l (fun b _ => ofVecU8_rt f b)

/-! ### strings and hex leaves -/

theorem lossy_sStr (f : Fmt) (cs : Str) : lossy f (sStr cs) = .str (String.ofList cs) := by
  simp [sStr, lossy]

theorem ofScript_rt (f : Fmt) (b : Bytes) : ofScript (lossy f (sScript b)) = .ok b := by
  simp [sScript, lossy_sStr, ofScript, unhex_hexStr]

theorem ofHash_rt (k : HashKind) (h : Bool) (f : Fmt) (hc : compatible h f) (b : Bytes) (hl : b.length = k.len) :
    ofHash k h (lossy f (sHash k h b)) = .ok b := by
  cases h with
  | true => simp [sHash, lossy_sStr, ofHash, hashParse_hashShow k b hl]
  | false =>
    cases f with
    | json => exact absurd (hc rfl) (by decide)
    | cbor => simp [sHash, lossy, ofHash, hl]

theorem ofBtcScript_rt (h : Bool) (f : Fmt) (hc : compatible h f) (b : Bytes) :
    ofBtcScript h (lossy f (sHexOrBytes h b)) = .ok b := by
  cases h with
  | true => simp [sHexOrBytes, lossy_sStr, ofBtcScript, unhex_hexStr]
  | false =>
    cases f with
    | json => exact absurd (hc rfl) (by decide)
    | cbor => simp [sHexOrBytes, lossy, ofBtcScript]

theorem ofHexBytes_rt (h : Bool) (f : Fmt) (b : Bytes) : ofHexBytes (lossy f (sHexOrBytes h b)) = .ok b := by
  cases h with
  | true => simp [sHexOrBytes, lossy_sStr, ofHexBytes, unhex_hexStr]
  | false =>
    cases f with
    | json => simp [sHexOrBytes, lossy, ofHexBytes, ofU8s_nums]
    | cbor => simp [sHexOrBytes, lossy, ofHexBytes]

theorem ofTweak_rt (P : Prims) (h : Bool) (f : Fmt) (hc : compatible h f) (b : Bytes)
    (hl : b.length = 32) (ht : P.tweak b = true) : ofTweak P h (lossy f (sHexOrBytes h b)) = .ok b := by
  cases h with
  | true => simp [sHexOrBytes, lossy_sStr, ofTweak, unhex_hexStr, hl, ht]
  | false =>
    cases f with
    | json => exact absurd (hc rfl) (by decide)
    | cbor => simp [sHexOrBytes, lossy, ofTweak, hl, ht]

theorem ofPoint_rt (valid : Bytes → Bool) (h : Bool) (f : Fmt) (hc : compatible h f) (b : Bytes)
    (hl : b.length = 33) (hv : valid b = true) : ofPoint valid h (lossy f (sHexOrBytes h b)) = .ok b := by
  cases h with
  | true => simp [sHexOrBytes, lossy_sStr, ofPoint, unhex_hexStr, hl, hv]
  | false =>
    cases f with
    | json => exact absurd (hc rfl) (by decide)
    | cbor =>
      have ht : b.take 33 = b := by rw [← hl]; exact List.take_length
      simp [sHexOrBytes, lossy, ofPoint, hl, ht, hv]

theorem ofPubkey_rt (P : Prims) (h : Bool) (f : Fmt) (b : Bytes)
    (hl : b.length = 33) (hv : P.pubkey b = true) : ofPubkey P h (lossy f (sPubkey h b)) = .ok b := by
  cases h with
  | true => simp [sPubkey, lossy_sStr, ofPubkey, unhex_hexStr, hl, hv]
  | false => simp [sPubkey, lossy, ofPubkey, ofU8s_sU8s, hl, hv]

theorem ofProof_rt (valid : Bytes → Bool) (h : Bool) (f : Fmt) (hc : compatible h f) (b : Bytes)
    (hv : valid b = true) : ofProof valid h (lossy f (sHexOrBytes h b)) = .ok b := by
  cases h with
  | true => simp [sHexOrBytes, lossy_sStr, ofProof, unhex_hexStr, hv]
  | false =>
    cases f with
    | json => exact absurd (hc rfl) (by decide)
    | cbor => simp [sHexOrBytes, lossy, ofProof, hv]

theorem ofOptProof_rt (valid : Bytes → Bool) (h : Bool) (f : Fmt) (hc : compatible h f) (o : Option Bytes)
    (hv : okOptProof valid o) : ofOptProof valid h (lossy f (sOptProof h o)) = .ok o := by
  cases o with
  | none => simp [sOptProof, lossy, ofOptProof]
  | some b =>
    have hp := ofProof_rt valid h f hc b hv
    simp only [sOptProof, lossy]
    -- the lossy image of a proof is a string or a byte string, never null
    cases h with
    | true =>
      simp only [sHexOrBytes, lossy_sStr, if_true] at hp ⊢
      simp [ofOptProof, hp]
    | false =>
      cases f with
      | json => exact absurd (hc rfl) (by decide)
      | cbor =>
        simp [sHexOrBytes, lossy] at hp ⊢
        simp [ofOptProof, hp]


/-! ### confidential values -/

theorem swap64_lt (n : Nat) : swap64 n < 2^64 := by
  have := leNat_lt (leBytes 8 n).reverse
  simp [leBytes_length] at this
  simpa [swap64] using this

theorem swap64_swap64 (n : Nat) (h : n < 2^64) : swap64 (swap64 n) = n := by
  unfold swap64
  have h1 : leBytes 8 (leNat (leBytes 8 n).reverse) = (leBytes 8 n).reverse := by
    have := leBytes_leNat (leBytes 8 n).reverse
    simpa [leBytes_length] using this
  rw [h1, List.reverse_reverse]
  exact leNat_leBytes 8 n (by simpa using h)

theorem value_rt (P : Prims) (h : Bool) (f : Fmt) (hc : compatible h f) (v : Value) (hv : Value.ok P v) :
    Value.ofS P h (lossy f (Value.toS h v)) = .ok v := by
  cases v with
  | null => simp [Value.toS, lossy, lossyL, Value.ofS, ofNum]
  | explicit n =>
    have h1 := swap64_lt n
    simp [Value.toS, lossy, lossyL, Value.ofS, ofNum, h1, swap64_swap64 n hv]
  | conf c =>
    obtain ⟨hl, hvv⟩ := hv
    have hp := ofPoint_rt P.commitment h f hc c hl hvv
    simp [Value.toS, lossy, lossyL, Value.ofS, ofNum, hp]

theorem asset_rt (P : Prims) (h : Bool) (f : Fmt) (hc : compatible h f) (v : Asset) (hv : Asset.ok P v) :
    Asset.ofS P h (lossy f (Asset.toS h v)) = .ok v := by
  cases v with
  | null => simp [Asset.toS, lossy, lossyL, Asset.ofS, ofNum]
  | explicit id =>
    have hp := ofHash_rt kAssetId h f hc id hv
    simp [Asset.toS, lossy, lossyL, Asset.ofS, ofNum, hp]
  | conf g =>
    obtain ⟨hl, hvv⟩ := hv
    have hp := ofPoint_rt P.generator h f hc g hl hvv
    simp [Asset.toS, lossy, lossyL, Asset.ofS, ofNum, hp]

theorem nonce_rt (P : Prims) (h : Bool) (f : Fmt) (v : Nonce) (hv : Nonce.ok P v) :
    Nonce.ofS P h (lossy f (Nonce.toS h v)) = .ok v := by
  cases v with
  | null => simp [Nonce.toS, lossy, lossyL, Nonce.ofS, ofNum]
  | explicit b =>
    have hp := ofArr_rt f 32 b hv
    simp [Nonce.toS, lossy, lossyL, Nonce.ofS, ofNum, hp]
  | conf pk =>
    obtain ⟨hl, hvv⟩ := hv
    have hp := ofPubkey_rt P h f pk hl hvv
    simp [Nonce.toS, lossy, lossyL, Nonce.ofS, ofNum, hp]

theorem blindingFactor_rt (P : Prims) (h : Bool) (f : Fmt) (hc : compatible h f) (b : Bytes)
    (hv : BlindingFactor.ok P b) : BlindingFactor.ofS P h (lossy f (BlindingFactor.toS h b)) = .ok b := by
  obtain ⟨hl, ht⟩ := hv
  cases h with
  | true => simp [BlindingFactor.toS, lossy_sStr, BlindingFactor.ofS, bfParse_bfShow P.tweak b hl ht]
  | false =>
    cases f with
    | json => exact absurd (hc rfl) (by decide)
    | cbor => simp [BlindingFactor.toS, lossy, BlindingFactor.ofS, hl, ht]

/-- `serde_string_impl!` and `Address`: any `Display`/`FromStr` pair that round-trips as text round-trips
    through serde -/
theorem string_rt {α} (f : Fmt) (parse : String → Res α) (s : String) (a : α) (h : parse s = .ok a) :
    stringOfS parse (lossy f (stringToS s)) = .ok a := by
  simp [stringToS, lossy, stringOfS, h]

/-! ### struct visitors -/

theorem keysOk_lossyF (f : Fmt) (fs : List (String × SVal)) : keysOk (lossyF f fs) = true := by
  induction fs with
  | nil => rfl
  | cons a r ih => obtain ⟨k, v⟩ := a; simp [lossyF, keysOk, ih]

theorem fieldOpt_absent {α} (f : Fmt) (n : String) (p : SVal → Res α) (fs : List (String × SVal))
    (h : n ∉ fs.map Prod.fst) : fieldOpt n p (lossyF f fs) = .ok .none := by
  induction fs with
  | nil => rfl
  | cons a r ih =>
    obtain ⟨k, v⟩ := a
    simp only [List.map_cons, List.mem_cons, not_or] at h
    have hk : ¬ k = n := fun e => h.1 e.symm
    simp [lossyF, fieldOpt, hk, ih h.2]

/-- THE GENERIC STRUCT LEMMA: in the map a struct with pairwise distinct field names becomes, the slot of
    field `n` after the `visit_map` loop holds the parse of that field's value -/
theorem fieldOpt_lossyF {α} (f : Fmt) (n : String) (p : SVal → Res α) (fs : List (String × SVal)) (v : SVal) (a : α)
    (hnd : (fs.map Prod.fst).Nodup) (hm : (n, v) ∈ fs) (hp : p (lossy f v) = .ok a) :
    fieldOpt n p (lossyF f fs) = .ok (.some a) := by
  induction fs with
  | nil => simp at hm
  | cons x r ih =>
    obtain ⟨k, w⟩ := x
    simp only [List.map_cons, List.nodup_cons] at hnd
    simp only [List.mem_cons, Prod.mk.injEq] at hm
    by_cases hk : k = n
    · subst hk
      have hw : v = w := by
        rcases hm with ⟨_, hv⟩ | hm
        · exact hv
        · exact absurd (List.mem_map_of_mem (f := Prod.fst) hm) hnd.1
      subst hw
      simp [lossyF, fieldOpt, hp, fieldOpt_absent f k p r hnd.1]
    · have hm' : (n, v) ∈ r := by
        rcases hm with ⟨hn, _⟩ | hm
        · exact absurd hn.symm hk
        · exact hm
      simp [lossyF, fieldOpt, hk, ih hnd.2 hm']

theorem field_lossyF {α} (f : Fmt) (n : String) (p : SVal → Res α) (fs : List (String × SVal)) (v : SVal) (a : α)
    (hnd : (fs.map Prod.fst).Nodup) (hm : (n, v) ∈ fs) (hp : p (lossy f v) = .ok a) :
    field n p (lossyF f fs) = .ok a := by
  simp [field, fieldOpt_lossyF f n p fs v a hnd hm hp]


/-! ### OutPoint and the `serde_struct_impl!` structs -/

theorem outPoint_rt (h : Bool) (f : Fmt) (hc : compatible h f) (o : OutPoint) (hv : OutPoint.ok o) :
    OutPoint.ofS h (lossy f (OutPoint.toS h o)) = .ok o := by
  obtain ⟨ht, hvout⟩ := hv
  cases h with
  | true => simp [OutPoint.toS, lossy_sStr, OutPoint.ofS, outPointParse_outPointShow o ht hvout]
  | false =>
    cases f with
    | json => exact absurd (hc rfl) (by decide)
    | cbor =>
      have e1 : ofHash kTxid false (lossy .cbor (sHash kTxid false o.txid)) = .ok o.txid :=
        ofHash_rt kTxid false .cbor hc o.txid (by simp [kTxid, ht])
      have e2 : ofNum (2^32) (lossy .cbor (.num 32 o.vout)) = .ok o.vout := by simp [lossy, ofNum, hvout]
      simp only [OutPoint.toS, lossy, OutPoint.ofS, keysOk_lossyF, Bool.false_eq_true, if_false, Bool.not_true]
      rw [field_lossyF (hp := e1), field_lossyF (hp := e2)]
      all_goals first | decide | simp

theorem issuance_rt (P : Prims) (h : Bool) (f : Fmt) (hc : compatible h f) (i : AssetIssuance)
    (hv : AssetIssuance.ok P i) : AssetIssuance.ofS P h (lossy f (AssetIssuance.toS h i)) = .ok i := by
  obtain ⟨h1, h2, h3, h4, h5⟩ := hv
  have e1 := ofTweak_rt P h f hc i.nonce h1 h2
  have e2 := ofArr_rt f 32 i.entropy h3
  have e3 := value_rt P h f hc i.amount h4
  have e4 := value_rt P h f hc i.inflationKeys h5
  simp only [AssetIssuance.toS, lossy, AssetIssuance.ofS, keysOk_lossyF, Bool.not_true, Bool.false_eq_true, if_false]
  rw [field_lossyF (hp := e1), field_lossyF (hp := e2), field_lossyF (hp := e3), field_lossyF (hp := e4)]
  all_goals first | decide | simp


theorem txInWitness_rt (P : Prims) (h : Bool) (f : Fmt) (hc : compatible h f) (w : TxInWitness)
    (hv : TxInWitness.ok P w) : TxInWitness.ofS P h (lossy f (TxInWitness.toS h w)) = .ok w := by
  obtain ⟨h1, h2⟩ := hv
  have e1 := ofOptProof_rt P.rangeproof h f hc w.amountRangeproof h1
  have e2 := ofOptProof_rt P.rangeproof h f hc w.inflationKeysRangeproof h2
  have e3 := ofStack_rt f w.scriptWitness
  have e4 := ofStack_rt f w.peginWitness
  simp only [TxInWitness.toS, lossy, TxInWitness.ofS, keysOk_lossyF, Bool.not_true, Bool.false_eq_true, if_false]
  rw [field_lossyF (hp := e1), field_lossyF (hp := e2), field_lossyF (hp := e3), field_lossyF (hp := e4)]
  all_goals first | decide | simp

theorem txOutWitness_rt (P : Prims) (h : Bool) (f : Fmt) (hc : compatible h f) (w : TxOutWitness)
    (hv : TxOutWitness.ok P w) : TxOutWitness.ofS P h (lossy f (TxOutWitness.toS h w)) = .ok w := by
  obtain ⟨h1, h2⟩ := hv
  have e1 := ofOptProof_rt P.surjproof h f hc w.surjectionProof h1
  have e2 := ofOptProof_rt P.rangeproof h f hc w.rangeproof h2
  simp only [TxOutWitness.toS, lossy, TxOutWitness.ofS, keysOk_lossyF, Bool.not_true, Bool.false_eq_true, if_false]
  rw [field_lossyF (hp := e1), field_lossyF (hp := e2)]
  all_goals first | decide | simp

theorem sequence_rt (f : Fmt) (n : Nat) (h : n < 2^32) : ofSequence (lossy f (sSequence n)) = .ok n := by
  simp [sSequence, lossy, ofSequence, ofNum, h]

theorem lockTime_rt (f : Fmt) (n : Nat) (h : n < 2^32) : ofLockTime (lossy f (sLockTime n)) = .ok n := by
  unfold sLockTime
  split <;> cases f <;> simp [lossy, ofLockTime, lockTimeVariant, ofNum, h]

theorem txIn_rt (P : Prims) (h : Bool) (f : Fmt) (hc : compatible h f) (i : TxIn) (hv : TxIn.ok P i) :
    TxIn.ofS P h (lossy f (TxIn.toS h i)) = .ok i := by
  obtain ⟨h1, h2, h3, h4⟩ := hv
  have e1 := outPoint_rt h f hc i.previousOutput h1
  have e2 : ofBool (lossy f (.bool i.isPegin)) = .ok i.isPegin := by simp [lossy, ofBool]
  have e3 := ofScript_rt f i.scriptSig
  have e4 := sequence_rt f i.sequence h2
  have e5 := issuance_rt P h f hc i.assetIssuance h3
  have e6 := txInWitness_rt P h f hc i.witness h4
  simp only [TxIn.toS, lossy, TxIn.ofS, keysOk_lossyF, Bool.not_true, Bool.false_eq_true, if_false]
  rw [field_lossyF (hp := e1), field_lossyF (hp := e2), field_lossyF (hp := e3), field_lossyF (hp := e4),
    field_lossyF (hp := e5), field_lossyF (hp := e6)]
  all_goals first | decide | simp

theorem txOut_rt (P : Prims) (h : Bool) (f : Fmt) (hc : compatible h f) (o : TxOut) (hv : TxOut.ok P o) :
    TxOut.ofS P h (lossy f (TxOut.toS h o)) = .ok o := by
  obtain ⟨h1, h2, h3, h4⟩ := hv
  have e1 := asset_rt P h f hc o.asset h1
  have e2 := value_rt P h f hc o.value h2
  have e3 := nonce_rt P h f o.nonce h3
  have e4 := ofScript_rt f o.scriptPubkey
  have e5 := txOutWitness_rt P h f hc o.witness h4
  simp only [TxOut.toS, lossy, TxOut.ofS, keysOk_lossyF, Bool.not_true, Bool.false_eq_true, if_false]
  rw [field_lossyF (hp := e1), field_lossyF (hp := e2), field_lossyF (hp := e3), field_lossyF (hp := e4),
    field_lossyF (hp := e5)]
  all_goals first | decide | simp

theorem tx_rt (P : Prims) (h : Bool) (f : Fmt) (hc : compatible h f) (t : Tx) (hv : Tx.ok P t) :
    Tx.ofS P h (lossy f (Tx.toS h t)) = .ok t := by
  obtain ⟨h1, h2, h3, h4⟩ := hv
  have e1 : ofNum (2^32) (lossy f (.num 32 t.version)) = .ok t.version := by simp [lossy, ofNum, h1]
  have e2 := lockTime_rt f t.lockTime h2
  have e3 := ofSeq_rt f (TxIn.toS h) (TxIn.ofS P h) t.input (fun i hi => txIn_rt P h f hc i (h3 i hi))
  have e4 := ofSeq_rt f (TxOut.toS h) (TxOut.ofS P h) t.output (fun o ho => txOut_rt P h f hc o (h4 o ho))
  simp only [Tx.toS, Tx.ofS]
  rw [show lossy f (.struct "Transaction" [("version", .num 32 t.version), ("lock_time", sLockTime t.lockTime),
      ("input", .seq (t.input.map (TxIn.toS h))), ("output", .seq (t.output.map (TxOut.toS h)))]) =
    .map (lossyF f [("version", .num 32 t.version), ("lock_time", sLockTime t.lockTime),
      ("input", .seq (t.input.map (TxIn.toS h))), ("output", .seq (t.output.map (TxOut.toS h)))]) from by simp [lossy]]
  simp only [keysOk_lossyF, Bool.not_true, Bool.false_eq_true, if_false]
  rw [field_lossyF (hp := e1), field_lossyF (hp := e2), field_lossyF (hp := e3), field_lossyF (hp := e4)]
  all_goals first | decide | simp


/-! ### dynafed parameters, extension data, header, block -/

theorem params_rt (h : Bool) (f : Fmt) (hc : compatible h f) (p : Params) (hv : Params.ok p) :
    Params.ofS h (lossy f (Params.toS h p)) = .ok p := by
  cases p with
  | null =>
    simp [Params.toS, lossy, lossyF, Params.ofS, keysOk, fieldOpt]
  | compact s l e =>
    obtain ⟨hl, he⟩ := hv
    have e1 := ofScript_rt f s
    have e2 : ofNum (2^32) (lossy f (.num 32 l)) = .ok l := by simp [lossy, ofNum, hl]
    have e3 := ofHash_rt kElidedRoot h f hc e (by simp [kElidedRoot, he])
    simp only [Params.toS, lossy, Params.ofS, keysOk_lossyF, Bool.not_true, Bool.false_eq_true, if_false]
    rw [fieldOpt_lossyF (hp := e1), fieldOpt_lossyF (hp := e2), fieldOpt_lossyF (hp := e3),
      fieldOpt_absent f "fedpeg_program", fieldOpt_absent f "fedpegscript", fieldOpt_absent f "extension_space"]
    all_goals first | decide | simp
  | full fp =>
    have e1 := ofScript_rt f fp.signblockscript
    have e2 : ofNum (2^32) (lossy f (.num 32 fp.signblockWitnessLimit)) = .ok fp.signblockWitnessLimit := by
      simp [lossy, ofNum]; exact hv
    have e3 := ofBtcScript_rt h f hc fp.fedpegProgram
    have e4 := ofHexBytes_rt h f fp.fedpegscript
    have e5 := ofSeq_rt f (sHexOrBytes h) ofHexBytes fp.extensionSpace (fun b _ => ofHexBytes_rt h f b)
    simp only [Params.toS, Params.ofS]
    rw [show lossy f (.struct "Params" [("signblockscript", sScript fp.signblockscript),
        ("signblock_witness_limit", .num 32 fp.signblockWitnessLimit),
        ("fedpeg_program", sHexOrBytes h fp.fedpegProgram), ("fedpegscript", sHexOrBytes h fp.fedpegscript),
        ("extension_space", .seq (fp.extensionSpace.map (sHexOrBytes h)))]) =
      .map (lossyF f [("signblockscript", sScript fp.signblockscript),
        ("signblock_witness_limit", .num 32 fp.signblockWitnessLimit),
        ("fedpeg_program", sHexOrBytes h fp.fedpegProgram), ("fedpegscript", sHexOrBytes h fp.fedpegscript),
        ("extension_space", .seq (fp.extensionSpace.map (sHexOrBytes h)))]) from by simp [lossy]]
    simp only [keysOk_lossyF, Bool.not_true, Bool.false_eq_true, if_false]
    rw [fieldOpt_lossyF (hp := e1), fieldOpt_lossyF (hp := e2), fieldOpt_absent f "elided_root",
      fieldOpt_lossyF (hp := e3), fieldOpt_lossyF (hp := e4), fieldOpt_lossyF (hp := e5)]
    all_goals first | decide | simp

theorem extData_rt (h : Bool) (f : Fmt) (hc : compatible h f) (x : ExtData) (hv : ExtData.ok x) :
    ExtData.ofS h (lossy f (ExtData.toS h x)) = .ok x := by
  cases x with
  | proof c s =>
    have e1 := ofScript_rt f c
    have e2 := ofScript_rt f s
    simp only [ExtData.toS, lossy, ExtData.ofS, keysOk_lossyF, Bool.not_true, Bool.false_eq_true, if_false]
    rw [fieldOpt_lossyF (hp := e1), fieldOpt_lossyF (hp := e2), fieldOpt_absent f "current",
      fieldOpt_absent f "proposed", fieldOpt_absent f "signblock_witness"]
    all_goals first | decide | simp
  | dynafed c p w =>
    obtain ⟨h1, h2⟩ := hv
    have e1 := params_rt h f hc c h1
    have e2 := params_rt h f hc p h2
    have e3 := ofStack_rt f w
    simp only [ExtData.toS, lossy, ExtData.ofS, keysOk_lossyF, Bool.not_true, Bool.false_eq_true, if_false]
    rw [fieldOpt_absent f "challenge", fieldOpt_absent f "solution", fieldOpt_lossyF (hp := e1),
      fieldOpt_lossyF (hp := e2), fieldOpt_lossyF (hp := e3)]
    all_goals first | decide | simp

theorem blockHeader_rt (h : Bool) (f : Fmt) (hc : compatible h f) (b : BlockHeader) (hv : BlockHeader.ok b) :
    BlockHeader.ofS h (lossy f (BlockHeader.toS h b)) = .ok b := by
  obtain ⟨h1, h2, h3, h4, h5, h6⟩ := hv
  have e1 : ofNum (2^32) (lossy f (.num 32 b.version)) = .ok b.version := by simp [lossy, ofNum, h1]
  have e2 := ofHash_rt kBlockHash h f hc b.prevBlockhash (by simp [kBlockHash, h2])
  have e3 := ofHash_rt kBlockHash h f hc b.merkleRoot (by simp [kBlockHash, h3])
  have e4 : ofNum (2^32) (lossy f (.num 32 b.time)) = .ok b.time := by simp [lossy, ofNum, h4]
  have e5 : ofNum (2^32) (lossy f (.num 32 b.height)) = .ok b.height := by simp [lossy, ofNum, h5]
  have e6 := extData_rt h f hc b.ext h6
  simp only [BlockHeader.toS, lossy, BlockHeader.ofS, keysOk_lossyF, Bool.not_true, Bool.false_eq_true, if_false]
  rw [field_lossyF (hp := e1), field_lossyF (hp := e2), field_lossyF (hp := e3), field_lossyF (hp := e4),
    field_lossyF (hp := e5), field_lossyF (hp := e6)]
  all_goals first | decide | simp

theorem block_rt (P : Prims) (h : Bool) (f : Fmt) (hc : compatible h f) (b : Block) (hv : Block.ok P b) :
    Block.ofS P h (lossy f (Block.toS h b)) = .ok b := by
  obtain ⟨h1, h2⟩ := hv
  have e1 := blockHeader_rt h f hc b.header h1
  have e2 := ofSeq_rt f (Tx.toS h) (Tx.ofS P h) b.txdata (fun t ht => tx_rt P h f hc t (h2 t ht))
  simp only [Block.toS, Block.ofS]
  rw [show lossy f (.struct "Block" [("header", BlockHeader.toS h b.header), ("txdata", .seq (b.txdata.map (Tx.toS h)))]) =
    .map (lossyF f [("header", BlockHeader.toS h b.header), ("txdata", .seq (b.txdata.map (Tx.toS h)))]) from by simp [lossy]]
  simp only [keysOk_lossyF, Bool.not_true, Bool.false_eq_true, if_false]
  rw [field_lossyF (hp := e1), field_lossyF (hp := e2)]
  all_goals first | decide | simp


/-! ### the canonical values of C01 (`wf`) are in the domain of the serde round trip (`ok`) -/

theorem value_ok_of_wf (P : Prims) (v : Value) (h : v.wf P) : Value.ok P v := by
  cases v with
  | null => trivial
  | explicit n => exact h
  | conf c => exact ⟨h.1, h.2.2⟩

theorem asset_ok_of_wf (P : Prims) (v : Asset) (h : v.wf P) : Asset.ok P v := by
  cases v with
  | null => trivial
  | explicit n => exact h
  | conf c => exact ⟨h.1, h.2.2⟩

theorem nonce_ok_of_wf (P : Prims) (v : Nonce) (h : v.wf P) : Nonce.ok P v := by
  cases v with
  | null => trivial
  | explicit n => exact h
  | conf c => exact ⟨h.1, h.2.2⟩

theorem optProof_ok_of_wf (valid : Bytes → Bool) (o : Option Bytes) (h : wfOptProof valid o) : okOptProof valid o := by
  cases o with
  | none => trivial
  | some b => exact h.2.1

theorem issuance_ok_of_wf (P : Prims) (i : AssetIssuance) (h : i.wf P) : AssetIssuance.ok P i :=
  ⟨h.1, h.2.1, h.2.2.1, value_ok_of_wf P _ h.2.2.2.1, value_ok_of_wf P _ h.2.2.2.2⟩

theorem issuance_null_ok (P : Prims) (hz : P.tweak AssetIssuance.zero32 = true) : AssetIssuance.ok P AssetIssuance.null :=
  ⟨by simp [AssetIssuance.null, AssetIssuance.zero32], hz, by simp [AssetIssuance.null, AssetIssuance.zero32], trivial, trivial⟩

theorem txIn_ok_of_wf (P : Prims) (hz : P.tweak AssetIssuance.zero32 = true) (i : TxIn) (h : i.wf P) : TxIn.ok P i := by
  obtain ⟨⟨ht, hvout, _, hseq, hiss⟩, hw⟩ := h
  refine ⟨⟨ht, ?_⟩, hseq, ?_, ?_⟩
  · rcases hvout with ⟨hlt, _⟩ | ⟨heq, _⟩
    · omega
    · rw [heq]; decide
  · by_cases hi : i.hasIssuance = true
    · rw [if_pos hi] at hiss; exact issuance_ok_of_wf P _ hiss
    · rw [if_neg hi] at hiss; rw [hiss]; exact issuance_null_ok P hz
  · exact ⟨optProof_ok_of_wf _ _ hw.1, optProof_ok_of_wf _ _ hw.2.1⟩

theorem txOut_ok_of_wf (P : Prims) (o : TxOut) (h : o.wf P) : TxOut.ok P o := by
  obtain ⟨⟨ha, hv, hn, _⟩, hw⟩ := h
  exact ⟨asset_ok_of_wf P _ ha, value_ok_of_wf P _ hv, nonce_ok_of_wf P _ hn,
    ⟨optProof_ok_of_wf _ _ hw.1, optProof_ok_of_wf _ _ hw.2⟩⟩

theorem tx_ok_of_wf (P : Prims) (hz : P.tweak AssetIssuance.zero32 = true) (t : Tx) (h : t.wf P) : Tx.ok P t := by
  obtain ⟨h1, h2, _, _, h5, h6⟩ := h
  exact ⟨h1, h2, fun i hi => txIn_ok_of_wf P hz i (h5 i hi), fun o ho => txOut_ok_of_wf P o (h6 o ho)⟩

theorem params_ok_of_wf (p : Params) (h : p.wf) : Params.ok p := by
  cases p with
  | null => trivial
  | compact s l e => exact ⟨h.2.1, h.2.2⟩
  | full f => exact h.2.1

theorem header_ok_of_wf (b : BlockHeader) (h : b.wf) : BlockHeader.ok b := by
  obtain ⟨h1, h2, h3, h4, h5, h6⟩ := h
  refine ⟨by omega, h2, h3, h4, h5, ?_⟩
  cases hx : b.ext with
  | proof c s => trivial
  | dynafed c p w =>
    rw [hx] at h6
    exact ⟨params_ok_of_wf c h6.1, params_ok_of_wf p h6.2.1⟩

theorem block_ok_of_wf (P : Prims) (hz : P.tweak AssetIssuance.zero32 = true) (b : Block) (h : b.wf P) : Block.ok P b :=
  ⟨header_ok_of_wf _ h.1, fun t ht => tx_ok_of_wf P hz t (h.2.2 t ht)⟩

end EV.Serde
