/-
  The address payload of property C16 (`EV.Script.Payload`, hashes and witness programs as `Bytes`, what
  `Address::from_script` / `Address::script_pubkey` work on) and the address payload of property C06
  (`EV.Addr.Payload`, the same data as `List Nat` byte values, what `Display` / `from_str` work on) are two
  views of the one Rust type `address::Payload`: `toAddrPayload` / `ofAddrPayload` convert between them, are
  mutually inverse on byte-valued lists, and carry C16's `Payload.standard` to C06's `PayloadStd` and back.
  Hence C16's script ⇄ payload theorems and C06's address ⇄ text theorems compose
  (`EV.Props.C16.script_address_text_roundtrip`, `text_address_script_roundtrip`).
-/
import EV.Proofs.ScriptAddress
import EV.Proofs.AddrRoundtrip
namespace EV.Proofs.BridgeScriptAddress
open EV

/-- a byte string as the list of its byte values (C06 represents bytes as `Nat`) -/
def toNats (b : Bytes) : List Nat := b.map UInt8.toNat

/-- a list of byte values as a byte string (entries are reduced mod 256; the identity on `bytesOk` lists) -/
def ofNats (l : List Nat) : Bytes := l.map UInt8.ofNat

/-- C16 payload ↦ C06 payload -/
def toAddrPayload : Script.Payload → Addr.Payload
  | .pubkeyHash h => .pkh (toNats h)
  | .scriptHash h => .sh (toNats h)
  | .witnessProgram v prog => .wit v (toNats prog)

/-- C06 payload ↦ C16 payload -/
def ofAddrPayload : Addr.Payload → Script.Payload
  | .pkh h => .pubkeyHash (ofNats h)
  | .sh h => .scriptHash (ofNats h)
  | .wit v prog => .witnessProgram v (ofNats prog)

/-- the C06 address of a C16 payload on a network, with an optional blinding key -/
def toAddress (params : Gen.AddrParamsB) (p : Script.Payload) (blinder : Option (List Nat)) : Addr.Address :=
  { params := params, payload := toAddrPayload p, blinder := blinder }

theorem toNats_length (b : Bytes) : (toNats b).length = b.length := by simp [toNats]
theorem ofNats_length (l : List Nat) : (ofNats l).length = l.length := by simp [ofNats]

theorem toNats_bytesOk (b : Bytes) : Addr.bytesOk (toNats b) := by
  intro x hx
  obtain ⟨y, _, rfl⟩ := List.mem_map.mp hx
  exact UInt8.toNat_lt y

theorem ofNats_toNats (b : Bytes) : ofNats (toNats b) = b := by
  induction b with
  | nil => rfl
  | cons x t ih =>
    simp only [toNats, ofNats, List.map_cons, List.cons.injEq] at ih ⊢
    exact ⟨UInt8.ofNat_toNat, ih⟩

theorem toNats_ofNats (l : List Nat) (h : Addr.bytesOk l) : toNats (ofNats l) = l := by
  induction l with
  | nil => rfl
  | cons x t ih =>
    have hx : x < 256 := h x List.mem_cons_self
    have ht : Addr.bytesOk t := fun y hy => h y (List.mem_cons_of_mem _ hy)
    have ih := ih ht
    simp only [toNats, ofNats, List.map_cons, List.cons.injEq] at ih ⊢
    refine ⟨?_, ih⟩
    rw [UInt8.toNat_ofNat']
    exact Nat.mod_eq_of_lt hx

/-- the conversions are mutually inverse (on the C06 side: for byte-valued lists) -/
theorem of_to_payload (p : Script.Payload) : ofAddrPayload (toAddrPayload p) = p := by
  cases p <;> simp [toAddrPayload, ofAddrPayload, ofNats_toNats]

theorem toAddrPayload_injective (p q : Script.Payload) (h : toAddrPayload p = toAddrPayload q) : p = q := by
  rw [← of_to_payload p, ← of_to_payload q, h]

/-- C16's `standard` is C06's `PayloadStd` under the conversion -/
theorem payloadStd_of_standard (p : Script.Payload) (h : p.standard) : Addr.PayloadStd (toAddrPayload p) := by
  cases p with
  | pubkeyHash hh => exact ⟨by rw [toNats_length]; exact h, toNats_bytesOk hh⟩
  | scriptHash hh => exact ⟨by rw [toNats_length]; exact h, toNats_bytesOk hh⟩
  | witnessProgram v prog =>
    simp only [Script.Payload.standard] at h
    simp only [toAddrPayload, Addr.PayloadStd, toNats_length]
    refine ⟨by omega, by omega, by omega, fun hv => ?_, toNats_bytesOk prog⟩
    rcases h with ⟨_, hl⟩ | ⟨h1, _⟩
    · exact hl
    · omega

theorem standard_of_payloadStd (q : Addr.Payload) (h : Addr.PayloadStd q) :
    (ofAddrPayload q).standard ∧ toAddrPayload (ofAddrPayload q) = q := by
  cases q with
  | pkh hh => exact ⟨by simp only [ofAddrPayload, Script.Payload.standard, ofNats_length]; exact h.1,
      by simp only [ofAddrPayload, toAddrPayload, toNats_ofNats hh h.2]⟩
  | sh hh => exact ⟨by simp only [ofAddrPayload, Script.Payload.standard, ofNats_length]; exact h.1,
      by simp only [ofAddrPayload, toAddrPayload, toNats_ofNats hh h.2]⟩
  | wit v prog =>
    obtain ⟨hv, h2, h40, h0, hb⟩ := h
    refine ⟨?_, by simp only [ofAddrPayload, toAddrPayload, toNats_ofNats prog hb]⟩
    simp only [ofAddrPayload, Script.Payload.standard, ofNats_length]
    by_cases hz : v = 0
    · exact Or.inl ⟨hz, h0 hz⟩
    · exact Or.inr ⟨by omega, hv, h2, h40⟩

/-- a standard C16 payload on one of the three networks, unblinded or with a 33-byte blinding key the key
    parser accepts, is a standard C06 address -/
theorem wf_toAddress (P : Addr.Prims) (p : Script.Payload) (h : p.standard) (params : Gen.AddrParamsB)
    (hp : params ∈ Gen.allParamsB) (blinder : Option (List Nat)) (hb : Addr.BlinderOk P blinder) :
    Addr.WF P (toAddress params p blinder) :=
  ⟨hp, payloadStd_of_standard p h, hb⟩

end EV.Proofs.BridgeScriptAddress
