/-
  EV.Proofs.ScriptAsmText — facts about the pieces of text `fmt_asm` writes (EV.Model.ScriptAsm): the 256
  opcode texts (finite, one pass over the generated table each), lower-case hex, and how a text made of
  space-free words that are each preceded by one space splits back into its words.
-/
import EV.Model.ScriptAsm
import EV.Proofs.Opcodes
import EV.Proofs.Text
namespace EV.Proofs.ScriptAsmText
open EV EV.Script EV.Gen EV.Opcodes EV.Proofs.Opcodes

/-! ## the opcode texts -/

/-- the asm text of every byte value (index = code): the name table with `"OP_0"` at index 0 -/
def asmTable : List (List Char) := asmOp0 :: opNameTable.drop 1

theorem asmTable_length : asmTable.length = 256 := by decide +kernel
theorem asmTable_keys_nodup : (asmTable.map key).Nodup := by decide +kernel
theorem asmTable_shape :
    asmTable.all (fun cs => cs.head? == some 'O' && !cs.contains ' ' && !cs.contains '<') = true := by decide +kernel

theorem asmOpcode_eq (b : UInt8) :
    asmOpcode b = asmTable[b.toNat]'(by rw [asmTable_length]; exact b.toNat_lt) := by
  have hl : b.toNat < opNameTable.length := by rw [opNameTable_length]; exact b.toNat_lt
  have h0 : opPushbytes0.toNat = 0 := by decide
  unfold asmOpcode
  by_cases hb : b = opPushbytes0
  · subst hb
    simp [asmTable, h0]
  · have hne : b.toNat ≠ 0 := fun e => hb (UInt8.toNat_inj.mp (by rw [e, h0]))
    have hbeq : (b == opPushbytes0) = false := beq_false_of_ne hb
    obtain ⟨k, hk⟩ := Nat.exists_eq_succ_of_ne_zero hne
    simp only [hbeq, Bool.false_eq_true, if_false, name, asmTable]
    have hl' : k + 1 < opNameTable.length := by omega
    simp [hk, List.getD, hl']

theorem asmOpcode_injective {a b : UInt8} (h : asmOpcode a = asmOpcode b) : a = b := by
  rw [asmOpcode_eq, asmOpcode_eq] at h
  exact UInt8.toNat_inj.mp (index_eq_of_keys_nodup asmTable_keys_nodup _ _ h)

/-- every opcode text starts with `O` and contains neither a space nor `<` -/
theorem asmOpcode_shape (b : UInt8) :
    (∃ t, asmOpcode b = 'O' :: t) ∧ ' ' ∉ asmOpcode b ∧ '<' ∉ asmOpcode b := by
  have hm : asmOpcode b ∈ asmTable := by rw [asmOpcode_eq]; exact List.getElem_mem _
  have := List.all_eq_true.mp asmTable_shape _ hm
  simp only [Bool.and_eq_true, beq_iff_eq, Bool.not_eq_true', List.contains_eq_mem, decide_eq_false_iff_not] at this
  obtain ⟨⟨h1, h2⟩, h3⟩ := this
  refine ⟨?_, h2, h3⟩
  cases hc : asmOpcode b with
  | nil => rw [hc] at h1; simp at h1
  | cons c t => rw [hc] at h1; simp at h1; exact ⟨t, by rw [h1]⟩

/-! ## hex -/

theorem digit_shape : ∀ n : Fin 16, Hex.digit n.val ≠ ' ' ∧ Hex.digit n.val ≠ 'O' ∧ Hex.digit n.val ≠ '<' := by decide

theorem hexStr_shape (d : Bytes) (c : Char) (h : c ∈ Text.hexStr d) : c ≠ ' ' ∧ c ≠ 'O' ∧ c ≠ '<' := by
  obtain ⟨m, hm, rfl⟩ := Text.mem_hexStr d c h
  exact digit_shape ⟨m, hm⟩

theorem hexStr_injective {a b : Bytes} (h : Text.hexStr a = Text.hexStr b) : a = b := by
  have := Text.decodeChars_hexStr a
  rw [h, Text.decodeChars_hexStr b] at this
  exact (Option.some.inj this).symm

theorem hexStr_ne_nil {d : Bytes} (h : 0 < d.length) : Text.hexStr d ≠ [] := by
  intro e
  have := Text.hexStr_length d
  rw [e] at this
  simp at this
  omega

/-! ## words preceded by spaces -/

/-- empty, or starting with a space: what follows a word in the asm text -/
def Sp (r : List Char) : Prop := r = [] ∨ ∃ t, r = ' ' :: t

theorem Sp_nil : Sp [] := Or.inl rfl
theorem Sp_cons (t : List Char) : Sp (' ' :: t) := Or.inr ⟨t, rfl⟩

/-- two space-free words followed by space-led (or empty) remainders: the words and the remainders agree -/
theorem word_split : ∀ (w w' r r' : List Char), ' ' ∉ w → ' ' ∉ w' → Sp r → Sp r' → w ++ r = w' ++ r' →
    w = w' ∧ r = r' := by
  intro w
  induction w with
  | nil =>
    intro w' r r' _ hw' hr hr' h
    cases w' with
    | nil => exact ⟨rfl, by simpa using h⟩
    | cons c t =>
      simp only [List.nil_append, List.cons_append] at h
      rcases hr with rfl | ⟨t0, rfl⟩
      · cases h
      · injection h with h1 _
        exact absurd (by rw [← h1]; simp) hw'
  | cons c t ih =>
    intro w' r r' hw hw' hr hr' h
    cases w' with
    | nil =>
      simp only [List.nil_append, List.cons_append] at h
      rcases hr' with rfl | ⟨t0, rfl⟩
      · cases h
      · injection h with h1 _
        exact absurd (by rw [h1]; simp) hw
    | cons c' t' =>
      simp only [List.cons_append] at h
      injection h with h1 h2
      have := ih t' r r' (fun m => hw (List.mem_cons_of_mem _ m)) (fun m => hw' (List.mem_cons_of_mem _ m)) hr hr' h2
      exact ⟨by rw [h1, this.1], this.2⟩

end EV.Proofs.ScriptAsmText
