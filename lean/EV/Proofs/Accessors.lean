/-
  EV.Proofs.Accessors — helper lemmas for C10: the bounds-checked primitives never fire inside
  the modelled accessors, the instruction iterator consumes at least one byte per item.
-/
import EV.Model.Accessors
namespace EV.Proofs.Accessors
open EV EV.Codec EV.Acc

theorem idx_ok {α} (v : List α) (i : Nat) (s : String) (h : i < v.length) : idx v i s = .ok v[i] := by
  simp [idx, List.getElem?_eq_getElem h]

theorem idx_not_panic {α} (v : List α) (i : Nat) (s s' : String) (h : i < v.length) :
    idx v i s ≠ .panic s' := by
  rw [idx_ok v i s h]; intro hh; cases hh

theorem slice_ok (v : Bytes) (a b : Nat) (s : String) (h : a ≤ b ∧ b ≤ v.length) :
    slice v a b s = .ok ((v.drop a).take (b - a)) := by
  simp [slice, h]

theorem sliceFrom_ok (v : Bytes) (a : Nat) (s : String) (h : a ≤ v.length) :
    sliceFrom v a s = .ok (v.drop a) := by
  simp [sliceFrom, h]

/-! ### `Instructions::next` -/

theorem pushItem_eq (data : Bytes) (a b : Nat) (h1 : a ≤ b) (h2 : b ≤ data.length) :
    pushItem data a b = .item (.push ((data.drop a).take (b - a))) (data.drop b) := by
  simp [pushItem, slice_ok data a b _ ⟨h1, h2⟩, sliceFrom_ok data b _ h2]

/-- what `step` guarantees: no panic, and an item consumes at least one byte -/
def StepOk (data : Bytes) (st : Step) : Prop :=
  (∀ s, st ≠ .panic s) ∧ (∀ i rest, st = .item i rest → rest.length < data.length)

theorem stepOk_error (data : Bytes) (e : String) : StepOk data (.error e) :=
  ⟨(by intro s h; cases h), (by intro i rest h; cases h)⟩

theorem stepOk_done (data : Bytes) : StepOk data .done :=
  ⟨(by intro s h; cases h), (by intro i rest h; cases h)⟩

theorem stepOk_pushItem (data : Bytes) (a b : Nat) (h1 : a ≤ b) (h2 : b ≤ data.length) (h3 : 0 < b) :
    StepOk data (pushItem data a b) := by
  rw [pushItem_eq data a b h1 h2]
  refine ⟨(by intro s h; cases h), ?_⟩
  intro i rest h
  cases h
  simp only [List.length_drop]
  omega

theorem pushData_spec (minimal : Bool) (w minLen : Nat) (minFirst : Bool) (data : Bytes) :
    StepOk data (pushData minimal w minLen minFirst data) := by
  unfold pushData
  split
  · exact stepOk_error _ _
  · rename_i h1
    have h1' : 1 ≤ data.length := by omega
    rw [sliceFrom_ok data 1 _ h1']
    simp only
    split
    · exact stepOk_error _ _
    · rename_i n _
      split
      · exact stepOk_error _ _
      · split
        · exact stepOk_error _ _
        · split
          · exact stepOk_error _ _
          · exact stepOk_pushItem data _ _ (by omega) (by omega) (by omega)

theorem directPush_no_panic (data : Bytes) (n : Nat) (h : n + 1 ≤ data.length) (s : String) :
    directPushNonMinimal data n ≠ .panic s := by
  unfold directPushNonMinimal
  split
  · rename_i hn
    rw [idx_ok data 1 _ (by omega)]
    intro hh; cases hh
  · intro hh; cases hh

theorem directPush_no_err (data : Bytes) (n : Nat) (h : n + 1 ≤ data.length) (e : String) :
    directPushNonMinimal data n ≠ .err e := by
  unfold directPushNonMinimal
  split
  · rename_i hn
    rw [idx_ok data 1 _ (by omega)]
    intro hh; cases hh
  · intro hh; cases hh

theorem step_spec (minimal : Bool) (data : Bytes) : StepOk data (step minimal data) := by
  unfold step
  split
  · exact stepOk_done _
  · rename_i b0 tl
    split
    · simp only
      split
      · exact stepOk_error _ _
      · rename_i hl
        have hpi := stepOk_pushItem (b0 :: tl) 1 (b0.toNat + 1) (by omega) (by omega) (by omega)
        split
        · split
          · rename_i s hh
            exact absurd hh (directPush_no_panic _ _ (by omega) s)
          · exact stepOk_error _ _
          · exact stepOk_error _ _
          · exact hpi
        · exact hpi
    · split
      · exact pushData_spec minimal 1 76 false _
      · split
        · exact pushData_spec minimal 2 0x100 true _
        · split
          · exact pushData_spec minimal 4 0x10000 true _
          · have h1 : 1 ≤ (b0 :: tl).length := by simp
            rw [sliceFrom_ok _ 1 _ h1]
            refine ⟨(by intro s h; cases h), ?_⟩
            intro i rest h
            cases h
            simp

theorem collect_no_panic (minimal : Bool) (f : Nat) (d : Bytes) (h : d.length < f) (s : String) :
    collect minimal f d ≠ .panic s := by
  induction f generalizing d with
  | zero => omega
  | succ f ih =>
    unfold collect
    have hs := step_spec minimal d
    split
    · intro hh; cases hh
    · intro hh; cases hh
    · rename_i s' hst
      exact absurd hst (hs.1 s')
    · rename_i i rest hst
      have hlt := hs.2 i rest hst
      have hrec := ih rest (by omega)
      split
      · intro hh; cases hh
      · intro hh; cases hh
      · rename_i s'' hc
        intro hh
        cases hh
        exact hrec hc

theorem collect_no_err (minimal : Bool) (f : Nat) (d : Bytes) (e : String) :
    collect minimal f d ≠ .err e := by
  induction f generalizing d e with
  | zero => unfold collect; intro hh; cases hh
  | succ f ih =>
    unfold collect
    split
    · intro hh; cases hh
    · intro hh; cases hh
    · intro hh; cases hh
    · rename_i i rest hst
      split
      · intro hh; cases hh
      · rename_i e' hc
        exact absurd hc (ih rest e')
      · intro hh; cases hh

theorem instructions_no_panic (minimal : Bool) (script : Bytes) (s : String) :
    instructions minimal script ≠ .panic s :=
  collect_no_panic minimal _ script (by omega) s

theorem instructions_no_err (minimal : Bool) (script : Bytes) (e : String) :
    instructions minimal script ≠ .err e := collect_no_err minimal _ script e

/-! ### TxOut accessors -/

theorem isNullData_no_panic (script : Bytes) (s : String) : isNullData script ≠ .panic s := by
  unfold isNullData
  split
  · rename_i s' h
    exact absurd h (instructions_no_panic false script s')
  · intro hh; cases hh
  · split
    · split <;> (intro hh; cases hh)
    · intro hh; cases hh

theorem isOpReturn_no_panic (script : Bytes) (s : String) : isOpReturn script ≠ .panic s := by
  unfold isOpReturn
  cases script with
  | nil => simp
  | cons b tl => simp [idx]

theorem isOpReturn_no_err (script : Bytes) (e : String) : isOpReturn script ≠ .err e := by
  unfold isOpReturn
  cases script with
  | nil => simp
  | cons b tl => simp [idx]

theorem pegoutData_no_panic (o : TxOut) (s : String) : pegoutData o ≠ .panic s := by
  unfold pegoutData
  split
  · rename_i s' h
    exact absurd h (isNullData_no_panic _ s')
  · intro hh; cases hh
  · intro hh; cases hh
  · split
    · split
      · rename_i s' h
        exact absurd h (instructions_no_panic false _ s')
      · intro hh; cases hh
      · split
        · split
          · intro hh; cases hh
          · split
            · intro hh; cases hh
            · split <;> (intro hh; cases hh)
        · intro hh; cases hh
    · intro hh; cases hh

theorem minimumValueWith_no_panic (mv : Nat) (o : TxOut)
    (h : ∀ prf, o.witness.rangeproof = some prf → 10 < prf.length) (s : String) :
    minimumValueWith mv o ≠ .panic s := by
  unfold minimumValueWith
  split
  · intro hh; cases hh
  · intro hh; cases hh
  · split
    · intro hh; cases hh
    · rename_i prf hprf
      have hl := h prf hprf
      split
      · omega
      · rw [idx_ok prf 0 _ (by omega)]
        simp only
        split
        · intro hh; cases hh
        · have key : ∀ off, off ≤ 2 →
              (match slice prf off (off + 8) "transaction.rs minimum_value &prf[2..10] / &prf[1..9]" with
                | .ok b => if b.length = 8 then Res.ok (beNat b)
                           else .panic "transaction.rs minimum_value expect(any 8 bytes is a u64)"
                | .err e => .err e
                | .panic s => .panic s) ≠ Res.panic s := by
            intro off hoff
            rw [slice_ok prf off (off + 8) _ (by omega)]
            simp only
            have : ((prf.drop off).take (off + 8 - off)).length = 8 := by
              simp only [List.length_take, List.length_drop]; omega
            rw [if_pos this]
            intro hh; cases hh
          exact key _ (by split <;> omega)

/-- `minimum_value` cannot panic when the range proof (if any) is longer than 10 bytes -/
theorem minimumValue_no_panic (o : TxOut)
    (h : ∀ prf, o.witness.rangeproof = some prf → 10 < prf.length) (s : String) :
    minimumValue o ≠ .panic s := by
  unfold minimumValue
  split
  · rename_i s' hh
    exact absurd hh (isOpReturn_no_panic _ s')
  · intro hh; cases hh
  · exact minimumValueWith_no_panic _ o h s

/-! ### pegin data -/

theorem fromPeginWitness_no_panic (H : Bytes → Bytes) (w : List Bytes) (txid : Bytes) (vout : Nat) (s : String) :
    fromPeginWitness H w txid vout ≠ .panic s := by
  unfold fromPeginWitness
  split
  · intro hh; cases hh
  · rename_i hl
    have hl6 : w.length = 6 := by omega
    rw [idx_ok w 5 _ (by omega)]
    simp only
    split
    · intro hh; cases hh
    · rw [idx_ok w 0 _ (by omega), idx_ok w 1 _ (by omega), idx_ok w 2 _ (by omega),
        idx_ok w 3 _ (by omega), idx_ok w 4 _ (by omega)]
      simp only
      split
      · intro hh; cases hh
      · split
        · intro hh; cases hh
        · split <;> (intro hh; cases hh)

theorem peginData_no_panic (H : Bytes → Bytes) (i : TxIn) (s : String) : peginData H i ≠ .panic s := by
  unfold peginData
  split
  · split
    · intro hh; cases hh
    · intro hh; cases hh
    · rename_i s' h
      exact absurd h (fromPeginWitness_no_panic H _ _ _ s')
  · intro hh; cases hh

/-! ### Schnorr signature, leaf version, merkle branch, control block -/

theorem schnorrSig_no_panic (sl : Bytes) (s : String) : schnorrSigFromSlice sl ≠ .panic s := by
  unfold schnorrSigFromSlice
  split
  · intro hh; cases hh
  · split
    · intro hh; cases hh
    · split
      · intro hh; cases hh
      · split <;> (intro hh; cases hh)

theorem leafVersion_no_panic (v : UInt8) (s : String) : leafVersionFromU8 v ≠ .panic s := by
  unfold leafVersionFromU8
  split <;> (intro hh; cases hh)

theorem chunks32_no_panic (n : Nat) (bs : Bytes) (h : n * 32 ≤ bs.length) (s : String) :
    chunks32 n bs ≠ .panic s := by
  induction n generalizing bs with
  | zero => unfold chunks32; intro hh; cases hh
  | succ n ih =>
    unfold chunks32
    simp only
    have hlen : (bs.take 32).length = 32 := by simp only [List.length_take]; omega
    rw [if_neg (by omega)]
    have := ih (bs.drop 32) (by simp only [List.length_drop]; omega)
    split
    · intro hh; cases hh
    · intro hh; cases hh
    · rename_i s' hc
      intro hh; cases hh
      exact this hc

theorem merkleBranch_no_panic (sl : Bytes) (s : String) : merkleBranchFromSlice sl ≠ .panic s := by
  unfold merkleBranchFromSlice
  split
  · intro hh; cases hh
  · split
    · intro hh; cases hh
    · apply chunks32_no_panic
      have := Nat.div_mul_le_self sl.length 32
      omega

/-- on success the branch has at most 128 nodes of 32 bytes each -/
theorem chunks32_ok (n : Nat) (bs : Bytes) (l : List Bytes) (h : chunks32 n bs = .ok l) :
    l.length = n ∧ ∀ c ∈ l, c.length = 32 := by
  induction n generalizing bs l with
  | zero => unfold chunks32 at h; cases h; simp
  | succ n ih =>
    unfold chunks32 at h
    simp only at h
    split at h
    · cases h
    · rename_i hc
      split at h
      · rename_i cs hcs
        cases h
        obtain ⟨h1, h2⟩ := ih _ _ hcs
        refine ⟨by simp [h1], ?_⟩
        intro c hc'
        simp only [List.mem_cons] at hc'
        cases hc' with
        | inl h => subst h; omega
        | inr h => exact h2 c h
      · cases h
      · cases h

theorem controlBlock_no_panic (xonly : Bytes → Bool) (sl : Bytes) (s : String) :
    controlBlockFromSlice xonly sl ≠ .panic s := by
  unfold controlBlockFromSlice
  simp only
  split
  · intro hh; cases hh
  · rename_i hl
    have hbase : EV.Gen.c10TaprootControlBaseSize = 33 := rfl
    rw [hbase] at hl ⊢
    have hl33 : 33 ≤ sl.length := by omega
    rw [idx_ok sl 0 _ (by omega)]
    simp only
    split
    · rename_i hp
      have : sl[0].toNat &&& 1 ≤ 1 := Nat.and_le_right
      omega
    · split
      · rename_i s' hh
        exact absurd hh (leafVersion_no_panic _ s')
      · intro hh; cases hh
      · rw [slice_ok sl 1 33 _ (by omega)]
        simp only
        split
        · intro hh; cases hh
        · rw [sliceFrom_ok sl 33 _ hl33]
          simp only
          split
          · intro hh; cases hh
          · intro hh; cases hh
          · rename_i s' hh
            exact absurd hh (merkleBranch_no_panic _ s')

/-! ### allocation guard of the vector decoders -/

theorem vecOf_guard {α} (m : Nat) (d : Dec α) (bs : Bytes) (n : Nat) (rest : Bytes)
    (hv : varint bs = .ok (n, rest)) (hbig : n * m > maxVecSize) :
    ∃ e, vecOf m d bs = .err e := by
  unfold vecOf
  rw [hv]
  simp only
  split
  · exact ⟨_, rfl⟩
  · first
    | exact ⟨_, rfl⟩
    | (rw [if_pos hbig]; exact ⟨_, rfl⟩)

theorem bytesVec_guard (bs : Bytes) (n : Nat) (rest : Bytes)
    (hv : varint bs = .ok (n, rest)) (hbig : n > maxVecSize) :
    ∃ e, bytesVec bs = .err e := by
  unfold bytesVec
  rw [hv]
  simp only
  rw [if_pos hbig]
  exact ⟨_, rfl⟩

theorem allocVecOf_le (m : Nat) (bs : Bytes) (a : Nat) (h : allocVecOf m bs = some a) : a ≤ maxVecSize := by
  unfold allocVecOf at h
  split at h
  · split at h
    · cases h
    · split at h
      · cases h
      · cases h; omega
  · cases h

theorem allocBytesVec_le (bs : Bytes) (a : Nat) (h : allocBytesVec bs = some a) : a ≤ maxVecSize := by
  unfold allocBytesVec at h
  split at h
  · split at h
    · cases h
    · cases h; omega
  · cases h

/-- when the decoder of `Vec<T>` succeeds, the ledger entry is exactly the memory of the result -/
theorem vecOf_ok_alloc {α} (m : Nat) (d : Dec α) (bs : Bytes) (l : List α) (rest : Bytes)
    (h : vecOf m d bs = .ok (l, rest)) (hd : ∀ k b l' r, repeatN d k b = .ok (l', r) → l'.length = k) :
    allocVecOf m bs = some (l.length * m) := by
  unfold vecOf at h
  unfold allocVecOf
  split at h
  · rename_i n r hv
    rw [hv]
    simp only
    split at h
    · cases h
    · split at h
      · cases h
      · rename_i h1 h2
        rw [if_neg h1, if_neg h2]
        rw [hd _ _ _ _ h]
  · cases h
  · cases h

theorem repeatN_length {α} (d : Dec α) (k : Nat) (b : Bytes) (l : List α) (r : Bytes)
    (h : repeatN d k b = .ok (l, r)) : l.length = k := by
  induction k generalizing b l r with
  | zero => unfold repeatN at h; cases h; rfl
  | succ k ih =>
    unfold repeatN at h
    split at h
    · split at h
      · rename_i as rest' hr
        cases h
        simp [ih _ _ _ hr]
      · cases h
      · cases h
    · cases h
    · cases h

end EV.Proofs.Accessors
