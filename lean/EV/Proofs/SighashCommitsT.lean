/-
  Injectivity of the Elements taproot signing serialisation on canonical committed-field records
  (modulo collisions of SHA-256), and canonicity of the records built from canonical transactions.
-/
import EV.Proofs.SighashDefs
import EV.Proofs.SighashCommitsTAux
namespace EV.Sighash
open EV EV.Codec EV.Proofs.CodecPrim EV.Proofs.CodecTx EV.Sighash.TapAux

variable (P : Prims)

/-! ### the pieces of `serTaproot` -/

def tapX (H : SigHashes) : TapInputs → Bytes
  | .all a => serTapInputsAll H a
  | .one _ => []

def tapY (H : SigHashes) : OutSel → Bytes
  | .all l => H.sha256 (l.flatMap TxOut.enc) ++ H.sha256 (l.flatMap (fun o => o.witness.enc))
  | _ => []

def tapZ (H : SigHashes) : TapInputs → Bytes
  | .all a => encLe 4 a.index
  | .one t => serTapThisInput H t

def tapA (H : SigHashes) : Option Bytes → Bytes
  | some a => H.sha256 (encBytesVec a)
  | none => []

def tapS (H : SigHashes) : OutSel → Bytes
  | .single o => H.sha256 o.enc ++ H.sha256 o.witness.enc
  | _ => []

def tapL : Option (Bytes × Nat) → Bytes
  | some (h, pos) => h ++ [0] ++ encLe 4 pos
  | none => []

theorem serTaproot_eq (H : SigHashes) (v : TaprootView) :
    serTaproot H v =
      v.genesis ++ v.genesis ++ [UInt8.ofNat v.hashType] ++ encLe 4 v.version ++ encLe 4 v.lockTime ++
      tapX H v.inputs ++ tapY H v.outputs ++
      [UInt8.ofNat ((if v.leaf.isSome then 1 else 0) * 2 + (if v.annex.isSome then 1 else 0))] ++
      tapZ H v.inputs ++ tapA H v.annex ++ tapS H v.outputs ++ tapL v.leaf := by
  rfl

/-! ### shape of a canonical record is determined by the hash type -/

def inKind : TapInputs → Bool
  | .all _ => true
  | .one _ => false

def outKind : OutSel → Nat
  | .all _ => 0
  | .single _ => 1
  | .none => 2

def TapInputs.wfI : TapInputs → Prop
  | .all a => a.wf P
  | .one t => t.wf P

def OutSel.wfO : OutSel → Prop
  | .all l => ∀ o ∈ l, o.wf P
  | .single o => o.wf P
  | .none => True

theorem inKind_of_wf (v : TaprootView) (h : v.wf P) :
    inKind v.inputs = decide (v.hashType &&& 0x80 = 0) := by
  obtain ⟨g, ht, ver, lt, ins, outs, ann, leaf⟩ := v
  simp only [TaprootView.wf] at h
  obtain ⟨-, -, -, -, h, -⟩ := h
  cases ins with
  | all a => simp only [inKind, h.1, decide_true]
  | one t => simp only [inKind, h.1]; decide

theorem outKind_of_wf (v : TaprootView) (h : v.wf P) :
    outKind v.outputs =
      if v.hashType = 0 ∨ v.hashType &&& 3 = 1 then 0 else if v.hashType &&& 3 = 3 then 1 else 2 := by
  obtain ⟨g, ht, ver, lt, ins, outs, ann, leaf⟩ := v
  simp only [TaprootView.wf] at h
  obtain ⟨-, -, -, -, -, h, -⟩ := h
  cases outs with
  | all l =>
    dsimp only at h
    show 0 = _
    rw [if_pos h.1]
  | single o =>
    dsimp only at h
    have h1 : ¬ (ht = 0 ∨ ht &&& 3 = 1) := by
      rintro (h0 | h0)
      · rw [h0] at h; exact absurd h.1 (by decide)
      · rw [h0] at h; exact absurd h.1 (by decide)
    show 1 = _
    rw [if_neg h1, if_pos h.1]
  | none =>
    dsimp only at h
    have h1 : ¬ (ht = 0 ∨ ht &&& 3 = 1) := by
      rintro (h0 | h0)
      · rw [h0] at h; exact absurd h (by decide)
      · rw [h0] at h; exact absurd h (by decide)
    have h2 : ¬ (ht &&& 3 = 3) := by rw [h]; decide
    show 2 = _
    rw [if_neg h1, if_neg h2]

theorem wfI_of_wf (v : TaprootView) (h : v.wf P) : v.inputs.wfI P := by
  obtain ⟨g, ht, ver, lt, ins, outs, ann, leaf⟩ := v
  simp only [TaprootView.wf] at h
  obtain ⟨-, -, -, -, h, -⟩ := h
  cases ins <;> exact h.2

theorem wfO_of_wf (v : TaprootView) (h : v.wf P) : v.outputs.wfO P := by
  obtain ⟨g, ht, ver, lt, ins, outs, ann, leaf⟩ := v
  simp only [TaprootView.wf] at h
  obtain ⟨-, -, -, -, -, h, -⟩ := h
  cases outs with
  | all l => exact h.2
  | single o => exact h.2
  | none => trivial

/-! ### injectivity of the pieces, assuming `H.sha256` has no collision -/

section inj
variable (H : SigHashes) (hl : HashLen H) (hinj : ∀ x y, H.sha256 x = H.sha256 y → x = y)
include hl hinj

theorem serTapInputsAll_inj (a b : TapAllInputs) (ha : a.wf P) (hb : b.wf P)
    (h : serTapInputsAll H a = serTapInputsAll H b) :
    a.flags = b.flags ∧ a.outpoints = b.outpoints ∧ a.spentAssetAmounts = b.spentAssetAmounts ∧
    a.spentScripts = b.spentScripts ∧ a.sequences = b.sequences ∧ a.issuances = b.issuances ∧
    a.issuanceProofs = b.issuanceProofs := by
  simp only [serTapInputsAll, List.append_assoc] at h
  have len : ∀ x y, (H.sha256 x).length = (H.sha256 y).length := fun x y => by
    rw [hl.sha256, hl.sha256]
  obtain ⟨h1, h⟩ := List.append_inj h (len _ _)
  obtain ⟨h2, h⟩ := List.append_inj h (len _ _)
  obtain ⟨h3, h⟩ := List.append_inj h (len _ _)
  obtain ⟨h4, h⟩ := List.append_inj h (len _ _)
  obtain ⟨h5, h⟩ := List.append_inj h (len _ _)
  obtain ⟨h6, h7⟩ := List.append_inj h (len _ _)
  obtain ⟨a1, a2, a3, a4, a5, a6, a7, _⟩ := ha
  obtain ⟨b1, b2, b3, b4, b5, b6, b7, _⟩ := hb
  have e1 : a.flags = b.flags := (List.map_inj_right flagByte_inj).mp (hinj _ _ h1)
  refine ⟨e1, ?_, ?_, ?_, ?_, ?_, ?_⟩
  · exact flatMap_injective pf_outpoint (fun o _ => outpoint_ne_nil o) _ _ a1 b1 (hinj _ _ h2)
  · exact flatMap_injective (pf_assetValue P)
      (fun p hp => fun hnil => asset_ne_nil P p.1 hp.1 (List.append_eq_nil_iff.mp hnil).1)
      _ _ a2 b2 (hinj _ _ h3)
  · exact flatMap_injective pf_bytesVec (fun s _ => encBytesVec_ne_nil s) _ _ a3 b3 (hinj _ _ h4)
  · exact flatMap_injective pf_le4 (fun n _ => encLe4_ne_nil n) _ _ a4 b4 (hinj _ _ h5)
  · exact issuances_injective P _ _ (by rw [a6, b6, e1]) a5 b5 (hinj _ _ h6)
  · exact flatMap_injective (pf_proofs P) (fun p _ => encProofs_ne_nil p) _ _ a7 b7 (hinj _ _ h7)

theorem serTapThisInput_pf (t t' : TapThisInput) (ht : t.wf P) (ht' : t'.wf P) (r r' : Bytes)
    (h : serTapThisInput H t ++ r = serTapThisInput H t' ++ r') : t = t' ∧ r = r' := by
  obtain ⟨f, op, as, v, sc, sq, iss⟩ := t
  obtain ⟨f', op', as', v', sc', sq', iss'⟩ := t'
  simp only [TapThisInput.wf] at ht ht'
  obtain ⟨w1, w2, w3, w4, w5, w6, w7⟩ := ht
  obtain ⟨w1', w2', w3', w4', w5', w6', w7'⟩ := ht'
  simp only [serTapThisInput, List.append_assoc, List.cons_append, List.nil_append,
    List.cons.injEq] at h
  obtain ⟨hf, h0⟩ := h
  have hf := flagByte_inj _ _ hf
  obtain ⟨e1, h1⟩ := pf_outpoint _ _ _ _ w1 w1' h0
  obtain ⟨e2, h2⟩ := pf_asset P _ _ _ _ w2 w2' h1
  obtain ⟨e3, h3⟩ := pf_value P _ _ _ _ w3 w3' h2
  obtain ⟨e4, h4⟩ := pf_bytesVec _ _ _ _ w4 w4' h3
  obtain ⟨e5, h⟩ := pf_le4 _ _ _ _ w5 w5' h4
  clear h0 h1 h2 h3 h4
  subst hf e1 e2 e3 e4 e5
  rw [← w6] at w6'
  cases iss with
  | none =>
    cases iss' with
    | none =>
      simp only [List.cons_append, List.nil_append, List.cons.injEq, true_and] at h
      exact ⟨rfl, h⟩
    | some y => simp at w6'
  | some x =>
    cases iss' with
    | none => simp at w6'
    | some y =>
      obtain ⟨i, p⟩ := x
      obtain ⟨i', p'⟩ := y
      simp only [List.append_assoc] at h
      obtain ⟨k1, k2⟩ := w7 i p rfl
      obtain ⟨k1', k2'⟩ := w7' i' p' rfl
      obtain ⟨e6, h1⟩ := pf_issuance P _ _ _ _ k1 k1' h
      obtain ⟨e7, h2⟩ := List.append_inj h1 (by rw [hl.sha256, hl.sha256])
      have e7 := (pf_proofs P).inj k2 k2' (hinj _ _ e7)
      subst e6 e7
      exact ⟨rfl, h2⟩

omit hinj in
theorem tapX_len (x y : TapInputs) (hk : inKind x = inKind y) : (tapX H x).length = (tapX H y).length := by
  cases x <;> cases y <;> simp only [inKind, reduceCtorEq] at hk
  · simp only [tapX, serTapInputsAll, List.length_append, hl.sha256]
  · rfl

omit hinj in
theorem tapY_len (x y : OutSel) (hk : outKind x = outKind y) : (tapY H x).length = (tapY H y).length := by
  cases x <;> cases y <;>
    first
    | rfl
    | (simp only [tapY, List.length_append, hl.sha256]; done)
    | (exfalso; simp [outKind] at hk)

omit hinj in
theorem tapS_len (x y : OutSel) (hk : outKind x = outKind y) : (tapS H x).length = (tapS H y).length := by
  cases x <;> cases y <;>
    first
    | rfl
    | (simp only [tapS, List.length_append, hl.sha256]; done)
    | (exfalso; simp [outKind] at hk)

theorem tapIn_inj (x y : TapInputs) (hk : inKind x = inKind y) (hx : x.wfI P) (hy : y.wfI P)
    (r r' : Bytes) (h1 : tapX H x = tapX H y) (h2 : tapZ H x ++ r = tapZ H y ++ r') :
    x = y ∧ r = r' := by
  cases x with
  | all a =>
    cases y with
    | one t => simp [inKind] at hk
    | all b =>
      simp only [TapInputs.wfI] at hx hy
      simp only [tapX] at h1
      simp only [tapZ] at h2
      obtain ⟨e1, e2, e3, e4, e5, e6, e7⟩ := serTapInputsAll_inj P H hl hinj a b hx hy h1
      obtain ⟨e8, hr⟩ := pf_le4 _ _ _ _ hx.2.2.2.2.2.2.2 hy.2.2.2.2.2.2.2 h2
      refine ⟨?_, hr⟩
      cases a; cases b
      simp only [TapAllInputs.mk.injEq, TapInputs.all.injEq] at *
      exact ⟨e1, e2, e3, e4, e5, e6, e7, e8⟩
  | one t =>
    cases y with
    | all b => simp [inKind] at hk
    | one t' =>
      simp only [TapInputs.wfI] at hx hy
      simp only [tapZ] at h2
      obtain ⟨e, hr⟩ := serTapThisInput_pf P H hl hinj t t' hx hy r r' h2
      rw [e]; exact ⟨rfl, hr⟩

theorem tapOut_inj (x y : OutSel) (hk : outKind x = outKind y) (hx : x.wfO P) (hy : y.wfO P)
    (h1 : tapY H x = tapY H y) (h2 : tapS H x = tapS H y) : x = y := by
  have len : ∀ u v, (H.sha256 u).length = (H.sha256 v).length := fun u v => by
    rw [hl.sha256, hl.sha256]
  cases x with
  | all l =>
    cases y with
    | all l' =>
      simp only [OutSel.wfO] at hx hy
      simp only [tapY] at h1
      obtain ⟨k1, k2⟩ := List.append_inj h1 (len _ _)
      rw [outsAll_inj P l l' hx hy (hinj _ _ k1) (hinj _ _ k2)]
    | single o => simp [outKind] at hk
    | none => simp [outKind] at hk
  | single o =>
    cases y with
    | all l' => simp [outKind] at hk
    | single o' =>
      simp only [OutSel.wfO] at hx hy
      simp only [tapS] at h2
      obtain ⟨k1, k2⟩ := List.append_inj h2 (len _ _)
      have := txOut_pf2 P o o' hx hy [] [] [] [] (by rw [hinj _ _ k1]) (by rw [hinj _ _ k2])
      rw [this.1]
    | none => simp [outKind] at hk
  | none =>
    cases y with
    | all l' => simp [outKind] at hk
    | single o' => simp [outKind] at hk
    | none => rfl

theorem tapA_pf (x y : Option Bytes) (hk : x.isSome = y.isSome)
    (hx : ∀ a, x = some a → a.length ≤ maxVecSize) (hy : ∀ a, y = some a → a.length ≤ maxVecSize)
    (r r' : Bytes) (h : tapA H x ++ r = tapA H y ++ r') : x = y ∧ r = r' := by
  cases x with
  | none =>
    cases y with
    | none => exact ⟨rfl, h⟩
    | some b => simp at hk
  | some a =>
    cases y with
    | none => simp at hk
    | some b =>
      simp only [tapA] at h
      obtain ⟨k1, k2⟩ := List.append_inj h (by rw [hl.sha256, hl.sha256])
      rw [pf_bytesVec.inj (hx a rfl) (hy b rfl) (hinj _ _ k1)]
      exact ⟨rfl, k2⟩

omit hl hinj in
theorem tapL_inj (x y : Option (Bytes × Nat)) (hk : x.isSome = y.isSome)
    (hx : ∀ h p, x = some (h, p) → h.length = 32 ∧ p < 2^32)
    (hy : ∀ h p, y = some (h, p) → h.length = 32 ∧ p < 2^32)
    (h : tapL x = tapL y) : x = y := by
  cases x with
  | none =>
    cases y with
    | none => rfl
    | some b => simp at hk
  | some a =>
    cases y with
    | none => simp at hk
    | some b =>
      obtain ⟨h1, p1⟩ := a
      obtain ⟨h2, p2⟩ := b
      simp only [tapL, List.append_assoc] at h
      obtain ⟨k1, k2⟩ := List.append_inj h (by rw [(hx h1 p1 rfl).1, (hy h2 p2 rfl).1])
      have k3 := pf_le4.inj (hx h1 p1 rfl).2 (hy h2 p2 rfl).2 (List.append_cancel_left k2)
      rw [k1, k3]

theorem serTaproot_inj' (a b : TaprootView) (ha : a.wf P) (hb : b.wf P)
    (h : serTaproot H a = serTaproot H b) : a = b := by
  have kia := inKind_of_wf P a ha
  have kib := inKind_of_wf P b hb
  have koa := outKind_of_wf P a ha
  have kob := outKind_of_wf P b hb
  have wia := wfI_of_wf P a ha
  have wib := wfI_of_wf P b hb
  have woa := wfO_of_wf P a ha
  have wob := wfO_of_wf P b hb
  rw [serTaproot_eq, serTaproot_eq] at h
  obtain ⟨ag, aht, av, alt, ain, aout, aann, aleaf⟩ := a
  obtain ⟨bg, bht, bv, blt, bin, bout, bann, bleaf⟩ := b
  simp only [TaprootView.wf] at ha hb
  obtain ⟨g1, g2, g3, g4, -, -, g7, g8⟩ := ha
  obtain ⟨g1', g2', g3', g4', -, -, g7', g8'⟩ := hb
  simp only [] at kia kib koa kob wia wib woa wob
  simp only [List.append_assoc] at h
  obtain ⟨e1, h1⟩ := List.append_inj h (by rw [g1, g1'])
  subst e1
  have h2 := List.append_cancel_left h1
  simp only [List.cons_append, List.nil_append, List.cons.injEq] at h2
  obtain ⟨e2, h3⟩ := h2
  have e2 : aht = bht := u8ofNat_inj (by omega) (by omega) e2
  subst e2
  obtain ⟨e3, h4⟩ := pf_le4 _ _ _ _ g3 g3' h3
  obtain ⟨e4, h5⟩ := pf_le4 _ _ _ _ g4 g4' h4
  have kin : inKind ain = inKind bin := by rw [kia, kib]
  have kout : outKind aout = outKind bout := by rw [koa, kob]
  obtain ⟨eX, h6⟩ := List.append_inj h5 (tapX_len H hl _ _ kin)
  obtain ⟨eY, h7⟩ := List.append_inj h6 (tapY_len H hl _ _ kout)
  obtain ⟨eB, h8⟩ := List.cons.inj h7
  obtain ⟨kl, ka⟩ := spendByte_inj _ _ _ _ eB
  obtain ⟨eIn, h9⟩ := tapIn_inj P H hl hinj _ _ kin wia wib _ _ eX h8
  obtain ⟨eA, h10⟩ := tapA_pf H hl hinj _ _ ka g7 g7' _ _ h9
  obtain ⟨eS, h11⟩ := List.append_inj h10 (tapS_len H hl _ _ kout)
  have eOut := tapOut_inj P H hl hinj _ _ kout woa wob eY eS
  have eL := tapL_inj _ _ kl g8 g8' h11
  subst e3 e4 eIn eA eOut eL
  rfl

end inj

/-! ### canonicity of the record built from a canonical transaction -/

theorem txin_outpoint_wf (i : TxIn) (h : i.wfBody P) : i.previousOutput.wf := by
  obtain ⟨h1, h2, -⟩ := h
  refine ⟨h1, ?_⟩
  rcases h2 with ⟨h2, -⟩ | ⟨h2, -⟩
  · have : (2:Nat)^30 < 2^32 := by decide
    omega
  · rw [h2]; decide

theorem issuanceOf_wf (i : TxIn) (h : i.wfBody P) (x : AssetIssuance) (hx : issuanceOf i = some x) :
    x.wf P := by
  obtain ⟨-, -, -, -, h5⟩ := h
  unfold issuanceOf at hx
  unfold TxIn.hasIssuance at h5
  cases hn : i.assetIssuance.isNull
  · rw [hn] at hx h5
    simp only [Bool.false_eq_true, if_false, Option.some.injEq, Bool.not_false, if_true] at hx h5
    rw [← hx]; exact h5
  · rw [hn] at hx
    simp only [if_true, reduceCtorEq] at hx

theorem isSome_issuanceOf (i : TxIn) : (issuanceOf i).isSome = (inFlag i).2 := by
  unfold issuanceOf inFlag
  cases i.assetIssuance.isNull <;> rfl

theorem proofsOf_wf (i : TxIn) (h : i.witness.wf P) : wfProofs P (proofsOf i) := ⟨h.1, h.2.1⟩

theorem prevouts_get_wf (pv : Prevouts) (hpv : pv.wf P) (i : Nat) (p : TxOut) (h : pv.get i = .ok p) :
    p.wfBody P := by
  cases pv with
  | one j q =>
    simp only [Prevouts.get] at h
    split at h
    · cases h; exact hpv
    · cases h
  | all ps =>
    simp only [Prevouts.get] at h
    split at h
    · rename_i q hq
      cases h
      exact hpv _ (List.mem_of_getElem? hq)
    · cases h

theorem specTapInputs_wf (tx : Tx) (htx : tx.wf P) (idx : Nat) (pv : Prevouts) (hpv : pv.wf P) (ht : Nat)
    (hht : ht ≤ 3 ∨ (0x81 ≤ ht ∧ ht ≤ 0x83)) :
    ∀ ins : TapInputs, specTapInputs tx idx pv ht = .ok ins →
      match ins with
      | .all a => ht &&& 0x80 = 0 ∧ a.wf P
      | .one t => ht &&& 0x80 = 0x80 ∧ t.wf P := by
  intro ins h
  obtain ⟨-, -, -, -, hin, -⟩ := htx
  unfold specTapInputs at h
  split at h
  · rename_i hacp
    split at h
    · cases h
    · rename_i txin htxin
      have hmem := hin txin (List.mem_of_getElem? htxin)
      split at h
      · rename_i spent hspent
        cases h
        have hs := prevouts_get_wf P pv hpv idx spent hspent
        refine ⟨hacp, txin_outpoint_wf P txin hmem.1, hs.1, hs.2.1, hs.2.2.2, hmem.1.2.2.2.1, ?_, ?_⟩
        · show ((issuanceOf txin).map _).isSome = _
          rw [Option.isSome_map, isSome_issuanceOf]
        · intro i p hip
          dsimp only at hip
          cases hio : issuanceOf txin with
          | none => rw [hio] at hip; cases hip
          | some x =>
            rw [hio] at hip
            simp only [Option.map_some, Option.some.injEq, Prod.mk.injEq] at hip
            rw [← hip.1, ← hip.2]
            exact ⟨issuanceOf_wf P txin hmem.1 x hio, proofsOf_wf P txin hmem.2⟩
      · cases h
      · cases h
  · rename_i hacp
    have h0 : ht &&& 0x80 = 0 := by
      have : ht = 0 ∨ ht = 1 ∨ ht = 2 ∨ ht = 3 ∨ ht = 0x81 ∨ ht = 0x82 ∨ ht = 0x83 := by omega
      rcases this with h | h | h | h | h | h | h <;> subst h <;> first | rfl | exact absurd rfl hacp
    split at h
    · cases h
    · rename_i ps
      cases h
      refine ⟨h0, ?_, ?_, ?_, ?_, ?_, ?_, ?_, ?_⟩
      · intro o ho
        obtain ⟨i, hi, rfl⟩ := List.mem_map.mp ho
        exact txin_outpoint_wf P i (hin i hi).1
      · intro q hq
        obtain ⟨p, hp, rfl⟩ := List.mem_map.mp hq
        exact ⟨(hpv p hp).1, (hpv p hp).2.1⟩
      · intro q hq
        obtain ⟨p, hp, rfl⟩ := List.mem_map.mp hq
        exact (hpv p hp).2.2.2
      · intro q hq
        obtain ⟨i, hi, rfl⟩ := List.mem_map.mp hq
        exact (hin i hi).1.2.2.2.1
      · intro x hx
        obtain ⟨i, hi, hix⟩ := List.mem_map.mp hx
        exact issuanceOf_wf P i (hin i hi).1 x hix
      · show (tx.input.map issuanceOf).map Option.isSome = (tx.input.map inFlag).map (fun f => f.2)
        rw [List.map_map, List.map_map]
        apply List.map_congr_left
        intro i _
        exact isSome_issuanceOf i
      · intro q hq
        obtain ⟨i, hi, rfl⟩ := List.mem_map.mp hq
        exact proofsOf_wf P i (hin i hi).2
      · exact Nat.mod_lt _ (by decide)

theorem specTapOutputs_all (tx : Tx) (idx ht : Nat) (h : ht = 0 ∨ ht = 1 ∨ ht = 0x81) :
    specTapOutputs tx idx ht = .ok (.all tx.output) := by
  rcases h with h | h | h <;> subst h <;> rfl

theorem specTapOutputs_none (tx : Tx) (idx ht : Nat) (h : ht = 2 ∨ ht = 0x82) :
    specTapOutputs tx idx ht = .ok .none := by
  rcases h with h | h <;> subst h <;> rfl

theorem specTapOutputs_single (tx : Tx) (idx ht : Nat) (h : ht = 3 ∨ ht = 0x83) :
    specTapOutputs tx idx ht =
      match tx.output[idx]? with
      | none => .err eSingle
      | some o => .ok (.single o) := by
  rcases h with h | h <;> subst h <;> rfl

theorem specTapOutputs_wf (tx : Tx) (htx : tx.wf P) (idx : Nat) (ht : Nat)
    (hht : ht ≤ 3 ∨ (0x81 ≤ ht ∧ ht ≤ 0x83)) :
    ∀ outs : OutSel, specTapOutputs tx idx ht = .ok outs →
      match outs with
      | .all l => (ht = 0 ∨ ht &&& 3 = 1) ∧ ∀ o ∈ l, o.wf P
      | .single o => ht &&& 3 = 3 ∧ o.wf P
      | .none => ht &&& 3 = 2 := by
  intro outs h
  obtain ⟨-, -, -, -, -, hout⟩ := htx
  have : (ht = 0 ∨ ht = 1 ∨ ht = 0x81) ∨ (ht = 2 ∨ ht = 0x82) ∨ (ht = 3 ∨ ht = 0x83) := by omega
  rcases this with h0 | h0 | h0
  · rw [specTapOutputs_all tx idx ht h0] at h
    cases h
    refine ⟨?_, hout⟩
    rcases h0 with h0 | h0 | h0 <;> subst h0
    · exact Or.inl rfl
    · exact Or.inr rfl
    · exact Or.inr rfl
  · rw [specTapOutputs_none tx idx ht h0] at h
    cases h
    rcases h0 with h0 | h0 <;> subst h0 <;> rfl
  · rw [specTapOutputs_single tx idx ht h0] at h
    split at h
    · cases h
    · rename_i o ho
      cases h
      refine ⟨?_, hout o (List.mem_of_getElem? ho)⟩
      rcases h0 with h0 | h0 <;> subst h0 <;> rfl

theorem specTaprootView_wf (tx : Tx) (htx : tx.wf P) (idx : Nat) (pv : Prevouts) (annex : Option Bytes)
    (leaf : Option (Bytes × Nat)) (ht : Nat) (genesis : Bytes)
    (hpv : pv.wf P) (hg : genesis.length = 32) (hann : ∀ a, annex = some a → a.length ≤ maxVecSize)
    (hleaf : ∀ h p, leaf = some (h, p) → h.length = 32 ∧ p < 2^32) (v : TaprootView)
    (h : specTaprootView tx idx pv annex leaf ht genesis = .ok v) : v.wf P := by
  unfold specTaprootView at h
  split at h
  · cases h
  rename_i hht
  have hht : ht ≤ 3 ∨ (0x81 ≤ ht ∧ ht ≤ 0x83) := Decidable.of_not_not hht
  split at h
  · cases h
  · cases h
  split at h
  · cases h
  · cases h
  rename_i ins hins
  split at h
  · cases h
  · cases h
  rename_i outs houts
  cases h
  exact ⟨hg, hht, htx.1, htx.2.1, specTapInputs_wf P tx htx idx pv hpv ht hht ins hins,
    specTapOutputs_wf P tx htx idx ht hht outs houts, hann, hleaf⟩

/-- the taproot serialisation determines the record, or a SHA-256 collision is exhibited -/
theorem serTaproot_injective (H : SigHashes) (hl : HashLen H) (a b : TaprootView) (ha : a.wf P) (hb : b.wf P)
    (h : serTaproot H a = serTaproot H b) : a = b ∨ Collision H.sha256 := by
  by_cases hc : Collision H.sha256
  · exact Or.inr hc
  · left
    refine serTaproot_inj' P H hl ?_ a b ha hb h
    intro x y hxy
    apply Classical.byContradiction
    intro hne
    exact hc ⟨x, y, hne, hxy⟩

end EV.Sighash
