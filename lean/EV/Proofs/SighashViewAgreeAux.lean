/-
  Helper lemmas for `EV.Proofs.SighashViewAgree`: list lemmas (pointwise facts from equal
  `range`-maps, maps from pointwise facts), recovery of the committed issuance from its
  normalised form, the legacy record's inputs and outputs under the standard hash types.
-/
import EV.Proofs.SighashCommitsLS
import EV.Proofs.SighashRefineAux
namespace EV.Sighash
open EV EV.Codec

namespace VA

/-! ### lists -/

theorem range_map_eq {β} (n m : Nat) (f g : Nat → β) (h : (List.range n).map f = (List.range m).map g) :
    n = m ∧ ∀ k, k < n → f k = g k := by
  have hl : n = m := by simpa using congrArg List.length h
  subst hl
  refine ⟨rfl, fun k hk => ?_⟩
  have := congrArg (fun l => l[k]?) h
  simpa [List.getElem?_map, List.getElem?_range, hk] using this

theorem getD_lt {α} (l : List α) (k : Nat) (d : α) (hk : k < l.length) : l.getD k d = l[k] := by
  simp only [List.getD_eq_getElem?_getD, List.getElem?_eq_getElem hk, Option.getD_some]

theorem map_eq_of_getD {α β} (g : α → β) (d : α) (la lb : List α) (hl : la.length = lb.length)
    (h : ∀ k, k < la.length → g (la.getD k d) = g (lb.getD k d)) : la.map g = lb.map g := by
  apply List.ext_getElem?
  intro k
  simp only [List.getElem?_map]
  by_cases hk : k < la.length
  · have hk' : k < lb.length := hl ▸ hk
    have := h k hk
    rw [getD_lt _ _ _ hk, getD_lt _ _ _ hk'] at this
    simp only [List.getElem?_eq_getElem hk, List.getElem?_eq_getElem hk', Option.map_some, this]
  · have hk' : ¬ k < lb.length := hl ▸ hk
    rw [List.getElem?_eq_none (by omega), List.getElem?_eq_none (by omega)]

theorem getElem?_map_eq_of_getD {α β} (g : α → β) (d : α) (la lb : List α) (k : Nat)
    (hk : k < la.length) (hk' : k < lb.length) (h : g (la.getD k d) = g (lb.getD k d)) :
    (la[k]?).map g = (lb[k]?).map g := by
  rw [getD_lt _ _ _ hk, getD_lt _ _ _ hk'] at h
  simp only [List.getElem?_eq_getElem hk, List.getElem?_eq_getElem hk', Option.map_some, h]

/-- two equal maps combine into the map of the pair -/
theorem map_pair {α β γ} (f : α → β) (g : α → γ) (l l' : List α) (hf : l.map f = l'.map f) (hg : l.map g = l'.map g) :
    l.map (fun x => (f x, g x)) = l'.map (fun x => (f x, g x)) := by
  apply List.ext_getElem?
  intro k
  have h1 := congrArg (fun l => l[k]?) hf
  have h2 := congrArg (fun l => l[k]?) hg
  simp only [List.getElem?_map] at h1 h2 ⊢
  cases ha : l[k]? <;> cases hb : l'[k]? <;> simp_all

theorem map_fst_pair {α β γ} (f : α → β) (g : α → γ) (l : List α) :
    (l.map (fun x => (f x, g x))).map Prod.fst = l.map f := by
  simp only [List.map_map]; rfl

theorem map_snd_pair {α β γ} (f : α → β) (g : α → γ) (l : List α) :
    (l.map (fun x => (f x, g x))).map Prod.snd = l.map g := by
  simp only [List.map_map]; rfl

/-! ### issuance -/

theorem issuanceOf_isNull (i : TxIn) (v : AssetIssuance) (h : issuanceOf i = some v) : v.isNull = false := by
  unfold issuanceOf at h
  cases hn : i.assetIssuance.isNull with
  | true => rw [hn] at h; cases h
  | false =>
    rw [hn] at h
    simp only [Bool.false_eq_true, if_false, Option.some.injEq] at h
    rw [← h]; exact hn

theorem issuanceOf_eq_of_getD (x y : TxIn)
    (h : (issuanceOf x).getD AssetIssuance.null = (issuanceOf y).getD AssetIssuance.null) :
    issuanceOf x = issuanceOf y := by
  have hnull : AssetIssuance.null.isNull = true := rfl
  cases hx : issuanceOf x with
  | none =>
    cases hy : issuanceOf y with
    | none => rfl
    | some v =>
      rw [hx, hy] at h
      simp only [Option.getD_none, Option.getD_some] at h
      have := issuanceOf_isNull y v hy
      rw [← h, hnull] at this
      cases this
  | some u =>
    cases hy : issuanceOf y with
    | none =>
      rw [hx, hy] at h
      simp only [Option.getD_none, Option.getD_some] at h
      have := issuanceOf_isNull x u hx
      rw [h, hnull] at this
      cases this
    | some v =>
      rw [hx, hy] at h
      simp only [Option.getD_some] at h
      rw [h]

theorem preIssuances_eq (tx : Tx) : preIssuances tx = (tx.input.map issuanceOf).flatMap encIssuanceOpt := by
  simp only [preIssuances, List.flatMap_map]
  congr 1; funext i
  by_cases h : i.assetIssuance.isNull = true <;> simp [issuanceOrZero, issuanceOf, TxIn.hasIssuance, h, encIssuanceOpt]

/-! ### the legacy record -/

theorem legacyInput_nacp (tx : Tx) (nIn : Nat) (sc : Bytes) (ty : EcdsaTy) (hacp : ty.acp = false) (k : Nat) :
    specLegacyInput tx nIn sc ty.asU32 k =
      normIn (tx.input.getD k default) (if k ≠ nIn then [] else sc)
        (if k ≠ nIn ∧ (ty.base = .single ∨ ty.base = .none) then 0 else (tx.input.getD k default).sequence) := by
  have e : ¬ (ty.asU32 &&& SIGHASH_ANYONECANPAY ≠ 0) := by rw [mask_acp, hacp]; decide
  simp only [specLegacyInput, normIn, if_neg e, mask_single, mask_none]

theorem legacyInput_acp (tx : Tx) (nIn : Nat) (sc : Bytes) (ty : EcdsaTy) (hacp : ty.acp = true) (k : Nat) :
    specLegacyInput tx nIn sc ty.asU32 k =
      normIn (tx.input.getD nIn default) sc (tx.input.getD nIn default).sequence := by
  have e : (ty.asU32 &&& SIGHASH_ANYONECANPAY ≠ 0) := (mask_acp ty).2 hacp
  simp only [specLegacyInput, normIn, if_pos e, ne_eq, not_true_eq_false, false_and, if_false]

theorem normIn_inj (i j : TxIn) (s s' : Bytes) (q q' : Nat) (h : normIn i s q = normIn j s' q') :
    inCore i = inCore j ∧ s = s' ∧ q = q' := by
  simp only [normIn, TxIn.mk.injEq] at h
  obtain ⟨h1, h2, h3, h4, h5, _⟩ := h
  exact ⟨by simp only [inCore, h1, h2, issuanceOf_eq_of_getD i j h5], h3, h4⟩

/-! ### the taproot record -/

theorem taprootView_ok (ty : SchnorrTy) (hty : ty ≠ .reserved) (tx : Tx) (idx : Nat) (pv : Prevouts)
    (ann : Option Bytes) (l : Option (Bytes × Nat)) (g : Bytes) (v : TaprootView)
    (h : specTaprootView tx idx pv ann l ty.byte g = .ok v) :
    ∃ ins outs, specTapPrevoutsOk tx pv = .ok () ∧ specTapInputs tx idx pv ty.byte = .ok ins ∧
      specTapOutputs tx idx ty.byte = .ok outs ∧
      v = { genesis := g, hashType := ty.byte, version := tx.version, lockTime := tx.lockTime,
            inputs := ins, outputs := outs, annex := ann, leaf := l } := by
  rw [specTaprootView_eq _ _ _ _ _ _ _ (schnorr_valid ty hty)] at h
  cases hp : specTapPrevoutsOk tx pv with
  | err e => rw [hp] at h; simp only [Res.bind] at h; cases h
  | panic e => rw [hp] at h; simp only [Res.bind] at h; cases h
  | ok u =>
    cases hi : specTapInputs tx idx pv ty.byte with
    | err e => rw [hp, hi] at h; simp only [Res.bind] at h; cases h
    | panic e => rw [hp, hi] at h; simp only [Res.bind] at h; cases h
    | ok ins =>
      cases ho : specTapOutputs tx idx ty.byte with
      | err e => rw [hp, hi, ho] at h; simp only [Res.bind] at h; cases h
      | panic e => rw [hp, hi, ho] at h; simp only [Res.bind] at h; cases h
      | ok outs =>
        rw [hp, hi, ho] at h
        simp only [Res.bind, Res.ok.injEq] at h
        exact ⟨ins, outs, rfl, rfl, rfl, h.symm⟩

theorem tapInputs_acp (ty : SchnorrTy) (hty : ty ≠ .reserved) (hacp : ty.acp = true) (tx : Tx) (idx : Nat)
    (pv : Prevouts) (ins : TapInputs) (h : specTapInputs tx idx pv ty.byte = .ok ins) :
    ∃ txin spent, tx.input[idx]? = some txin ∧ pv.get idx = .ok spent ∧
      ins = .one { flag := inFlag txin, outpoint := txin.previousOutput, asset := spent.asset, value := spent.value,
                   script := spent.scriptPubkey, sequence := txin.sequence,
                   issuance := (issuanceOf txin).map (fun i => (i, proofsOf txin)) } := by
  unfold specTapInputs at h
  rw [if_pos ((schnorr_acp_iff ty hty).2 hacp)] at h
  cases hi : tx.input[idx]? with
  | none => rw [hi] at h; cases h
  | some txin =>
    rw [hi] at h
    cases hg : pv.get idx with
    | err e => rw [hg] at h; cases h
    | panic e => rw [hg] at h; cases h
    | ok spent =>
      rw [hg] at h
      simp only [Res.ok.injEq] at h
      exact ⟨txin, spent, rfl, rfl, h.symm⟩

theorem tapInputs_nacp (ty : SchnorrTy) (hty : ty ≠ .reserved) (hacp : ty.acp = false) (tx : Tx) (idx : Nat)
    (pv : Prevouts) (ins : TapInputs) (h : specTapInputs tx idx pv ty.byte = .ok ins) :
    ∃ ps, pv = .all ps ∧
      ins = .all { flags := tx.input.map inFlag, outpoints := tx.input.map (fun i => i.previousOutput),
                   spentAssetAmounts := ps.map (fun p => (p.asset, p.value)),
                   spentScripts := ps.map (fun p => p.scriptPubkey),
                   sequences := tx.input.map (fun i => i.sequence), issuances := tx.input.map issuanceOf,
                   issuanceProofs := tx.input.map proofsOf, index := idx % 2^32 } := by
  unfold specTapInputs at h
  have e : ¬ (ty.byte &&& SIGHASH_INPUT_MASK = SIGHASH_ANYONECANPAY) := by
    rw [schnorr_acp_iff ty hty, hacp]; decide
  rw [if_neg e] at h
  cases pv with
  | one j p => cases h
  | all ps =>
    simp only [Res.ok.injEq] at h
    exact ⟨ps, rfl, h.symm⟩

theorem tapOutputs_single (ty : SchnorrTy) (hty : ty ≠ .reserved) (hs : ty.isSingle = true) (tx : Tx) (idx : Nat)
    (outs : OutSel) (h : specTapOutputs tx idx ty.byte = .ok outs) :
    ∃ o, tx.output[idx]? = some o ∧ outs = .single o := by
  simp only [specTapOutputs] at h
  rw [if_pos ((schnorr_single_iff ty hty).2 hs)] at h
  cases ho : tx.output[idx]? with
  | none => rw [ho] at h; cases h
  | some o =>
    rw [ho] at h
    simp only [Res.ok.injEq] at h
    exact ⟨o, rfl, h.symm⟩

theorem tapOutputs_none (ty : SchnorrTy) (hty : ty ≠ .reserved) (hs : ty.isSingle = false) (hn : ty.isNone = true)
    (tx : Tx) (idx : Nat) (outs : OutSel) (h : specTapOutputs tx idx ty.byte = .ok outs) : outs = .none := by
  simp only [specTapOutputs] at h
  have e : ¬ ((if ty.byte = 0 then SIGHASH_ALL else ty.byte &&& SIGHASH_OUTPUT_MASK) = SIGHASH_SINGLE) := by
    rw [schnorr_single_iff ty hty, hs]; decide
  rw [if_neg e, if_pos ((schnorr_none_iff ty hty).2 hn)] at h
  simp only [Res.ok.injEq] at h
  exact h.symm

theorem tapOutputs_all (ty : SchnorrTy) (hty : ty ≠ .reserved) (hs : ty.isSingle = false) (hn : ty.isNone = false)
    (tx : Tx) (idx : Nat) (outs : OutSel) (h : specTapOutputs tx idx ty.byte = .ok outs) : outs = .all tx.output := by
  simp only [specTapOutputs] at h
  have e : ¬ ((if ty.byte = 0 then SIGHASH_ALL else ty.byte &&& SIGHASH_OUTPUT_MASK) = SIGHASH_SINGLE) := by
    rw [schnorr_single_iff ty hty, hs]; decide
  have e' : ¬ ((if ty.byte = 0 then SIGHASH_ALL else ty.byte &&& SIGHASH_OUTPUT_MASK) = SIGHASH_NONE) := by
    rw [schnorr_none_iff ty hty, hn]; decide
  rw [if_neg e, if_neg e'] at h
  simp only [Res.ok.injEq] at h
  exact h.symm

end VA
end EV.Sighash
