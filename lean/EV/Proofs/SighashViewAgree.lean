/-
  Converse of the `*_ignores` direction: equal committed-field records (what `*_commits` delivers)
  imply the explicit `…Agree` predicates.  Together: for a fixed hash type and input index, two
  transactions have the same digest iff they agree on exactly the named fields (or a collision is
  exhibited).  For segwit v0 the per-input issuances are recovered only as their concatenation
  (`segwitAgreeC`), see `serSegwit_injective`.
-/
import EV.Proofs.SighashCommitsLS
import EV.Proofs.SighashViewAgreeAux
namespace EV.Sighash
open EV EV.Codec
open VA

/-- LEGACY: equal signed records (same type and index, both in range) ⇒ same script code and
    agreement on every committed field -/
theorem legacyAgree_of_view (ty : EcdsaTy) (idx : Nat) (a b : Tx) (sa sb : Bytes)
    (ra : InRange ty idx a) (rb : InRange ty idx b)
    (h : specLegacyView a idx sa ty.asU32 = specLegacyView b idx sb ty.asU32) :
    legacyAgree ty idx a b ∧ sa = sb := by
  obtain ⟨ra1, ra2⟩ := ra
  obtain ⟨rb1, rb2⟩ := rb
  have hv : a.version = b.version := congrArg LegacyView.version h
  have hlt : a.lockTime = b.lockTime := congrArg LegacyView.lockTime h
  have hin := congrArg LegacyView.inputs h
  have hout := congrArg LegacyView.outputs h
  simp only [specLegacyView] at hin hout
  -- outputs
  have houts : (match ty.base with
      | .all => a.output.map outBody = b.output.map outBody
      | .single => (a.output[idx]?).map outBody = (b.output[idx]?).map outBody
      | .none => True) := by
    cases hb : ty.base with
    | all =>
      have e1 : ¬ (ty.asU32 &&& 0x1f = SIGHASH_NONE) := by rw [mask_none, hb]; decide
      have e2 : ¬ (ty.asU32 &&& 0x1f = SIGHASH_SINGLE) := by rw [mask_single, hb]; decide
      rw [if_neg e1, if_neg e1, if_neg e2, if_neg e2] at hout
      obtain ⟨hl, hp⟩ := range_map_eq _ _ _ _ hout
      show a.output.map outBody = b.output.map outBody
      refine map_eq_of_getD outBody default _ _ hl (fun k hk => ?_)
      have := hp k hk
      simp only [specLegacyOutput] at this
      rw [if_neg (fun x => e2 x.1), if_neg (fun x => e2 x.1)] at this
      exact this
    | none => trivial
    | single =>
      have e1 : ¬ (ty.asU32 &&& 0x1f = SIGHASH_NONE) := by rw [mask_none, hb]; decide
      have e2 : (ty.asU32 &&& 0x1f = SIGHASH_SINGLE) := by rw [mask_single, hb]
      rw [if_neg e1, if_neg e1, if_pos e2, if_pos e2] at hout
      obtain ⟨_, hp⟩ := range_map_eq _ _ _ _ hout
      have := hp idx (Nat.lt_succ_self idx)
      simp only [specLegacyOutput] at this
      rw [if_neg (fun x => x.2 rfl), if_neg (fun x => x.2 rfl)] at this
      show (a.output[idx]?).map outBody = (b.output[idx]?).map outBody
      exact getElem?_map_eq_of_getD outBody default _ _ idx (ra2 hb) (rb2 hb) this
  by_cases hacp : ty.acp = true
  · have e : (ty.asU32 &&& SIGHASH_ANYONECANPAY ≠ 0) := (mask_acp ty).2 hacp
    rw [if_pos e, if_pos e] at hin
    obtain ⟨_, hp⟩ := range_map_eq _ _ _ _ hin
    have h0 := hp 0 (by decide)
    rw [legacyInput_acp _ _ _ _ hacp, legacyInput_acp _ _ _ _ hacp] at h0
    obtain ⟨c1, c2, c3⟩ := normIn_inj _ _ _ _ _ _ h0
    refine ⟨⟨hv, hlt, ?_, ?_, ?_, houts⟩, c2⟩
    · exact getElem?_map_eq_of_getD (fun i => (inCore i, i.sequence)) default _ _ idx ra1 rb1
        (by simp only [c1, c3])
    · intro hf; rw [hf] at hacp; cases hacp
    · intro hf; rw [hf] at hacp; cases hacp
  · have hacp' : ty.acp = false := by simpa using hacp
    have e : ¬ (ty.asU32 &&& SIGHASH_ANYONECANPAY ≠ 0) := fun x => hacp ((mask_acp ty).1 x)
    rw [if_neg e, if_neg e] at hin
    obtain ⟨hl, hp⟩ := range_map_eq _ _ _ _ hin
    have hk : ∀ k, k < a.input.length →
        inCore (a.input.getD k default) = inCore (b.input.getD k default) ∧
        (if k ≠ idx then [] else sa) = (if k ≠ idx then [] else sb) ∧
        (if k ≠ idx ∧ (ty.base = .single ∨ ty.base = .none) then 0 else (a.input.getD k default).sequence) =
        (if k ≠ idx ∧ (ty.base = .single ∨ ty.base = .none) then 0 else (b.input.getD k default).sequence) := by
      intro k hk
      have := hp k hk
      rw [legacyInput_nacp _ _ _ _ hacp', legacyInput_nacp _ _ _ _ hacp'] at this
      exact normIn_inj _ _ _ _ _ _ this
    obtain ⟨c1, c2, c3⟩ := hk idx ra1
    rw [if_neg (fun x => x rfl), if_neg (fun x => x rfl)] at c2
    rw [if_neg (fun x => x.1 rfl), if_neg (fun x => x.1 rfl)] at c3
    refine ⟨⟨hv, hlt, ?_, ?_, ?_, houts⟩, c2⟩
    · exact getElem?_map_eq_of_getD (fun i => (inCore i, i.sequence)) default _ _ idx ra1 rb1
        (by simp only [c1, c3])
    · intro _
      exact map_eq_of_getD inCore default _ _ hl (fun k hk' => (hk k hk').1)
    · intro _ hb
      refine map_eq_of_getD (fun i => i.sequence) default _ _ hl (fun k hk' => ?_)
      have := (hk k hk').2.2
      have e3 : ¬ (k ≠ idx ∧ (ty.base = .single ∨ ty.base = .none)) := by
        rw [hb]; intro x; rcases x.2 with x | x <;> cases x
      rw [if_neg e3, if_neg e3] at this
      exact this

/-- `segwitAgree` with the per-input issuances replaced by what BIP143's hashIssuance determines:
    their concatenation -/
def segwitAgreeC (ty : EcdsaTy) (idx : Nat) (a b : Tx) : Prop :=
  a.version = b.version ∧ a.lockTime = b.lockTime ∧
  (a.input[idx]?).map (fun i => (i.previousOutput, i.sequence, issuanceOf i)) =
    (b.input[idx]?).map (fun i => (i.previousOutput, i.sequence, issuanceOf i)) ∧
  (ty.acp = false → a.input.map (fun i => i.previousOutput) = b.input.map (fun i => i.previousOutput) ∧
    preIssuances a = preIssuances b) ∧
  (ty.acp = false → ty.base = .all → a.input.map (fun i => i.sequence) = b.input.map (fun i => i.sequence)) ∧
  (match ty.base with
   | .all => a.output.map outBody = b.output.map outBody
   | .single => (a.output[idx]?).map outBody = (b.output[idx]?).map outBody
   | .none => True)

theorem segwitAgreeC_of_agree (ty : EcdsaTy) (idx : Nat) (a b : Tx) (h : segwitAgree ty idx a b) :
    segwitAgreeC ty idx a b := by
  obtain ⟨h1, h2, h3, h4, h5, h6⟩ := h
  refine ⟨h1, h2, h3, fun hf => ?_, h5, h6⟩
  have h4' := h4 hf
  constructor
  · have := congrArg (List.map Prod.fst) h4'
    rw [map_fst_pair (fun i : TxIn => i.previousOutput) issuanceOf a.input,
      map_fst_pair (fun i : TxIn => i.previousOutput) issuanceOf b.input] at this
    exact this
  · have := congrArg (List.map Prod.snd) h4'
    rw [map_snd_pair (fun i : TxIn => i.previousOutput) issuanceOf a.input,
      map_snd_pair (fun i : TxIn => i.previousOutput) issuanceOf b.input] at this
    rw [preIssuances_eq, preIssuances_eq, this]

/-- SEGWIT v0: equal committed records ⇒ same script code, same amount, agreement on every committed
    field -/
theorem segwitAgreeC_of_view (ty : EcdsaTy) (idx : Nat) (a b : Tx) (sca scb : Bytes) (va vb : Value)
    (x y : SegwitView) (hx : specSegwitView a idx sca va ty.asU32 = some x)
    (hy : specSegwitView b idx scb vb ty.asU32 = some y) (h : x.sameCommitted y) :
    segwitAgreeC ty idx a b ∧ sca = scb ∧ va = vb := by
  unfold specSegwitView at hx hy
  cases hia : a.input[idx]? with
  | none => rw [hia] at hx; cases hx
  | some ia =>
  cases hib : b.input[idx]? with
  | none => rw [hib] at hy; cases hy
  | some ib =>
  rw [hia] at hx; rw [hib] at hy
  simp only [Option.some.injEq] at hx hy
  subst hx hy
  obtain ⟨h1, h2⟩ := h
  have hv : a.version = b.version := congrArg SegwitView.version h1
  have hlt : a.lockTime = b.lockTime := congrArg SegwitView.lockTime h1
  have hop : ia.previousOutput = ib.previousOutput := congrArg SegwitView.outpoint h1
  have hsc : sca = scb := congrArg SegwitView.scriptCode h1
  have hva : va = vb := congrArg SegwitView.value h1
  have hsq : ia.sequence = ib.sequence := congrArg SegwitView.sequence h1
  have his : issuanceOf ia = issuanceOf ib := congrArg SegwitView.issuance h1
  have hpv := congrArg SegwitView.prevouts h1
  have hsqs := congrArg SegwitView.sequences h1
  have hos := congrArg SegwitView.outputs h1
  dsimp only at hpv hsqs hos
  refine ⟨⟨hv, hlt, ?_, ?_, ?_, ?_⟩, hsc, hva⟩
  · simp only [hia, hib, Option.map_some, hop, hsq, his]
  · intro hf
    have e : ¬ (ty.asU32 &&& SIGHASH_ANYONECANPAY ≠ 0) := by rw [mask_acp, hf]; decide
    simp only [if_neg e, Option.map_some, Option.some.injEq] at hpv h2
    exact ⟨hpv, by rw [preIssuances_eq, preIssuances_eq, h2]⟩
  · intro hf hb
    have e : ¬ (ty.asU32 &&& SIGHASH_ANYONECANPAY ≠ 0) := by rw [mask_acp, hf]; decide
    have e1 : ¬ (ty.asU32 &&& 0x1f = SIGHASH_NONE) := by rw [mask_none, hb]; decide
    have e2 : ¬ (ty.asU32 &&& 0x1f = SIGHASH_SINGLE) := by rw [mask_single, hb]; decide
    have p : ¬ (ty.asU32 &&& SIGHASH_ANYONECANPAY ≠ 0) ∧ ¬ (ty.asU32 &&& 0x1f = SIGHASH_SINGLE) ∧
        ¬ (ty.asU32 &&& 0x1f = SIGHASH_NONE) := ⟨e, e2, e1⟩
    rw [if_pos p, if_pos p] at hsqs
    exact Option.some.inj hsqs
  · cases hb : ty.base with
    | all =>
      have e1 : ¬ (ty.asU32 &&& 0x1f = SIGHASH_NONE) := by rw [mask_none, hb]; decide
      have e2 : ¬ (ty.asU32 &&& 0x1f = SIGHASH_SINGLE) := by rw [mask_single, hb]; decide
      have p : ¬ (ty.asU32 &&& 0x1f = SIGHASH_SINGLE) ∧ ¬ (ty.asU32 &&& 0x1f = SIGHASH_NONE) := ⟨e2, e1⟩
      rw [if_pos p, if_pos p] at hos
      exact OutSel.all.inj hos
    | none => trivial
    | single =>
      have e2 : (ty.asU32 &&& 0x1f = SIGHASH_SINGLE) := by rw [mask_single, hb]
      have n1 : ¬ (¬ (ty.asU32 &&& 0x1f = SIGHASH_SINGLE) ∧ ¬ (ty.asU32 &&& 0x1f = SIGHASH_NONE)) := fun x => x.1 e2
      rw [if_neg n1, if_neg n1] at hos
      show (a.output[idx]?).map outBody = (b.output[idx]?).map outBody
      by_cases ka : idx < a.output.length <;> by_cases kb : idx < b.output.length
      · have pa : ty.asU32 &&& 0x1f = SIGHASH_SINGLE ∧ idx < a.output.length := ⟨e2, ka⟩
        have pb : ty.asU32 &&& 0x1f = SIGHASH_SINGLE ∧ idx < b.output.length := ⟨e2, kb⟩
        rw [if_pos pa, if_pos pb] at hos
        exact getElem?_map_eq_of_getD outBody default _ _ idx ka kb (OutSel.single.inj hos)
      · have pa : ty.asU32 &&& 0x1f = SIGHASH_SINGLE ∧ idx < a.output.length := ⟨e2, ka⟩
        have pb : ¬ (ty.asU32 &&& 0x1f = SIGHASH_SINGLE ∧ idx < b.output.length) := fun x => kb x.2
        rw [if_pos pa, if_neg pb] at hos
        cases hos
      · have pa : ¬ (ty.asU32 &&& 0x1f = SIGHASH_SINGLE ∧ idx < a.output.length) := fun x => ka x.2
        have pb : ty.asU32 &&& 0x1f = SIGHASH_SINGLE ∧ idx < b.output.length := ⟨e2, kb⟩
        rw [if_neg pa, if_pos pb] at hos
        cases hos
      · rw [List.getElem?_eq_none (by omega), List.getElem?_eq_none (by omega)]

/-- TAPROOT: equal committed records ⇒ same annex, leaf, genesis hash, agreement on every committed
    field of the transaction and of the spent outputs -/
theorem taprootAgree_of_view (ty : SchnorrTy) (hty : ty ≠ .reserved) (idx : Nat) (a b : Tx) (pa pb : Prevouts)
    (anna annb : Option Bytes) (la lb : Option (Bytes × Nat)) (ga gb : Bytes) (v : TaprootView)
    (ha : specTaprootView a idx pa anna la ty.byte ga = .ok v)
    (hb : specTaprootView b idx pb annb lb ty.byte gb = .ok v) :
    taprootAgree ty idx a b pa pb ∧ anna = annb ∧ la = lb ∧ ga = gb := by
  obtain ⟨insA, outsA, hpA, hiA, hoA, hvA⟩ := taprootView_ok ty hty a idx pa anna la ga v ha
  obtain ⟨insB, outsB, hpB, hiB, hoB, hvB⟩ := taprootView_ok ty hty b idx pb annb lb gb v hb
  rw [hvA] at hvB
  simp only [TaprootView.mk.injEq] at hvB
  obtain ⟨hg, _, hver, hlt, hins, houts, hann, hleaf⟩ := hvB
  subst hins houts
  rw [specTapPrevoutsOk_eq] at hpA hpB
  refine ⟨⟨hver, hlt, by rw [hpA, hpB], ?_, ?_⟩, hann, hleaf, hg⟩
  · -- inputs and spent outputs
    cases hacp : ty.acp with
    | true =>
      simp only [if_true]
      obtain ⟨ia, spa, hia, hga, eA⟩ := tapInputs_acp ty hty hacp a idx pa _ hiA
      obtain ⟨ib, spb, hib, hgb, eB⟩ := tapInputs_acp ty hty hacp b idx pb _ hiB
      rw [eA] at eB
      simp only [TapInputs.one.injEq, TapThisInput.mk.injEq] at eB
      obtain ⟨e1, e2, e3, e4, e5, e6, e7⟩ := eB
      have e1' : ia.isPegin = ib.isPegin := congrArg Prod.fst e1
      constructor
      · rw [hia, hib]
        simp only [Option.map_some, thisCore, e2, e1', e6, e7]
      · intro _
        rw [hga, hgb]
        simp only [Res.map, Res.bind, spentCore, e3, e4, e5]
    | false =>
      simp only [Bool.false_eq_true, if_false]
      obtain ⟨psa, hpa, eA⟩ := tapInputs_nacp ty hty hacp a idx pa _ hiA
      obtain ⟨psb, hpb, eB⟩ := tapInputs_nacp ty hty hacp b idx pb _ hiB
      rw [eA] at eB
      simp only [TapInputs.all.injEq, TapAllInputs.mk.injEq] at eB
      obtain ⟨e1, e2, e3, e4, e5, e6, e7, _⟩ := eB
      subst hpa hpb
      constructor
      · have f1 : a.input.map (fun i => i.isPegin) = b.input.map (fun i => i.isPegin) := by
          have := congrArg (List.map Prod.fst) e1
          simp only [List.map_map] at this
          exact this
        have m1 := map_pair (fun i : TxIn => i.isPegin) issuanceOf _ _ f1 e6
        have m2 : a.input.map inCore = b.input.map inCore :=
          map_pair (fun i : TxIn => i.previousOutput) (fun i : TxIn => (i.isPegin, issuanceOf i)) _ _ e2 m1
        have m3 := map_pair (fun i : TxIn => i.sequence) proofsOf _ _ e5 e7
        exact map_pair inCore (fun i : TxIn => (i.sequence, proofsOf i)) _ _ m2 m3
      · simp only [Prevouts.getAll, Res.map, Res.bind, Res.ok.injEq]
        have f1 : psa.map (fun p => p.asset) = psb.map (fun p => p.asset) := by
          have := congrArg (List.map Prod.fst) e3
          rw [map_fst_pair (fun p : TxOut => p.asset) (fun p : TxOut => p.value) psa,
            map_fst_pair (fun p : TxOut => p.asset) (fun p : TxOut => p.value) psb] at this
          exact this
        have f2 : psa.map (fun p => p.value) = psb.map (fun p => p.value) := by
          have := congrArg (List.map Prod.snd) e3
          rw [map_snd_pair (fun p : TxOut => p.asset) (fun p : TxOut => p.value) psa,
            map_snd_pair (fun p : TxOut => p.asset) (fun p : TxOut => p.value) psb] at this
          exact this
        have m1 := map_pair (fun p : TxOut => p.value) (fun p : TxOut => p.scriptPubkey) _ _ f2 e4
        exact map_pair (fun p : TxOut => p.asset) (fun p : TxOut => (p.value, p.scriptPubkey)) _ _ f1 m1
  · -- outputs
    cases hs : ty.isSingle with
    | true =>
      simp only [if_true]
      obtain ⟨oa, hoa, eA⟩ := tapOutputs_single ty hty hs a idx _ hoA
      obtain ⟨ob, hob, eB⟩ := tapOutputs_single ty hty hs b idx _ hoB
      rw [eA] at eB
      rw [hoa, hob, OutSel.single.inj eB]
    | false =>
      cases hn : ty.isNone with
      | true => simp only [Bool.false_eq_true, if_false, if_true]
      | false =>
        simp only [Bool.false_eq_true, if_false]
        have eA := tapOutputs_all ty hty hs hn a idx _ hoA
        have eB := tapOutputs_all ty hty hs hn b idx _ hoB
        rw [eA] at eB
        exact OutSel.all.inj eB

end EV.Sighash
