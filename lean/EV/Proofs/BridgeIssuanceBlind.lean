/-
  EV.Proofs.BridgeIssuanceBlind — bridge between C11 (asset / reissuance-token ids,
  `TxIn::issuance_ids`, model `EV.TxIn.issuanceIds`) and C05 (amount verification,
  `Transaction::verify_tx_amt_proofs`, model `EV.Blind.verify`).

  The Blind model takes the two ids of an input as PARAMETERS (`Blind.TxIn.assetId`, `.tokenId`).
  The Rust code (src/blind.rs, `verify_tx_amt_proofs`) instantiates them:

      if inp.has_issuance() {
          let (asset_id, token_id) = inp.issuance_ids();
          let arr = [(inp.asset_issuance.amount, asset_id), (inp.asset_issuance.inflation_keys, token_id)];
          for (amt, asset) in &arr { … Generator::new_unblinded(secp, asset.into_tag()) … }

  `blindIn` below is that instantiation; everything else says what it implies for the surjection
  domain / the balance (C05 side) in terms of the hash formulas of C11, and, for C09
  (`PartiallySignedTransaction::surjection_inputs`, model `EV.PsetBlind.Inp.issued`), that the
  blinder's pseudo-inputs carry the same ids.

  Hashes are parameters (`H.sha256d`, `H.comb`), EC primitives are parameters (`VPrims`); the point type
  `Pt` is generic, `pt : Bytes → Pt` reads the 33 commitment bytes of a confidential issuance amount.
-/
import EV.Model.Issuance
import EV.Model.Blind
import EV.Model.PsetBlind
import EV.Proofs.Issuance
import EV.Proofs.BlindVerify
import EV.Proofs.BlindC05
import EV.Proofs.BlindInstance

namespace EV.Proofs.BridgeIssuanceBlind
open EV EV.Codec EV.Issuance EV.Proofs.Issuance

variable {Pt RP SP : Type}

/-! ## 1. the conversion `verify_tx_amt_proofs` performs implicitly -/

/-- a consensus `confidential::Value` as the verifier reads it (`match amt { Null, Explicit(v),
    Confidential(comm) }` in `verify_tx_amt_proofs`); `pt` = the commitment bytes as a point -/
def cvalue (pt : Bytes → Pt) : Value → Blind.CValue Pt
  | .null => .null
  | .explicit n => .explicit n
  | .conf c => .conf (pt c)

/-- first component of `TxIn::issuance_ids()` (it never panics: `ids_eq`) -/
def assetIdOf (H : Hashes) (t : EV.TxIn) : Bytes := ((t.issuanceIds H).getD ([], [])).1
/-- second component of `TxIn::issuance_ids()` -/
def tokenIdOf (H : Hashes) (t : EV.TxIn) : Bytes := ((t.issuanceIds H).getD ([], [])).2

/-- The Blind view of a consensus input, as an `Option` (`none` = `issuance_ids` would panic). -/
def blindIn? (H : Hashes) (pt : Bytes → Pt) (t : EV.TxIn) : Option (Blind.TxIn Bytes Pt) :=
  match t.issuanceIds H with
  | none => none
  | some (a, tk) =>
    some { amount := cvalue pt t.assetIssuance.amount, keys := cvalue pt t.assetIssuance.inflationKeys,
           assetId := a, tokenId := tk }

/-- **What `Transaction::verify_tx_amt_proofs` (src/blind.rs) instantiates the parameters of
    `Blind.TxIn` with**: `amount` / `keys` are `inp.asset_issuance.amount` / `.inflation_keys`, and
    `assetId` / `tokenId` are `let (asset_id, token_id) = inp.issuance_ids();` (src/transaction.rs,
    `TxIn::issuance_ids`), whose `into_tag()` (the 32 bytes unchanged, C11 `assetid_accessors`) goes into
    `Generator::new_unblinded`.  Total version of `blindIn?` (`blindIn?_eq`). -/
def blindIn (H : Hashes) (pt : Bytes → Pt) (t : EV.TxIn) : Blind.TxIn Bytes Pt :=
  { amount := cvalue pt t.assetIssuance.amount
    keys := cvalue pt t.assetIssuance.inflationKeys
    assetId := assetIdOf H t
    tokenId := tokenIdOf H t }

variable (H : Hashes) (pt : Bytes → Pt)

theorem ids_eq (t : EV.TxIn) : t.issuanceIds H = some (assetIdOf H t, tokenIdOf H t) := by
  unfold assetIdOf tokenIdOf
  rw [txin_ids_eq]
  rfl

theorem ids_of_some (t : EV.TxIn) (a tk : Bytes) (h : t.issuanceIds H = some (a, tk)) :
    assetIdOf H t = a ∧ tokenIdOf H t = tk := by
  unfold assetIdOf tokenIdOf
  rw [h]
  exact ⟨rfl, rfl⟩

/-- `issuance_ids` never panics, so the Blind view always exists -/
theorem blindIn?_eq (t : EV.TxIn) : blindIn? H pt t = some (blindIn H pt t) := by
  unfold blindIn? blindIn
  rw [ids_eq H t]

/-! ## 2. the predicates agree -/

theorem cvalue_isNull (v : Value) : (cvalue pt v).isNull = v.isNull := by cases v <;> rfl

theorem cvalue_eq_explicit (v : Value) (n : Nat) : cvalue pt v = .explicit n ↔ v = .explicit n := by
  cases v <;> simp [cvalue]

/-- `TxIn::has_issuance` of the Blind model = `TxIn::has_issuance` of the consensus model (C01) -/
theorem hasIssuance_blindIn (t : EV.TxIn) : (blindIn H pt t).hasIssuance = t.hasIssuance := by
  simp only [Blind.TxIn.hasIssuance, blindIn, cvalue_isNull, EV.TxIn.hasIssuance, AssetIssuance.isNull]

/-- the acceptability condition of C05 on an input, on the consensus values -/
theorem issOk_blindIn (t : EV.TxIn) :
    Blind.IssOk (blindIn H pt t) ↔
      t.assetIssuance.amount ≠ .explicit 0 ∧ t.assetIssuance.inflationKeys ≠ .explicit 0 := by
  simp only [Blind.IssOk, blindIn, ne_eq, cvalue_eq_explicit]

/-! ## 3. the domain entry / balance term of an issuance is the generator of `issuance_ids` -/

/-- what one issuance amount contributes for the id `id`: nothing when null, else the pair
    (`Generator::new_unblinded(id.into_tag())`, commitment), an explicit amount `n` being committed
    as `PedersenCommitment::new_unblinded(n, gen)` -/
def issTerm (V : Blind.VPrims Bytes Pt RP SP) (pt : Bytes → Pt) (id : Bytes) : Value → List (Pt × Pt)
  | .null => []
  | .explicit n => [(V.genUnblinded id, V.commitUnblinded n (V.genUnblinded id))]
  | .conf c => [(V.genUnblinded id, pt c)]

/-- the ids that enter the surjection domain for one input: the asset id iff there is an issuance
    amount, then the token id iff there are inflation keys (both `TxIn::issuance_ids()`) -/
def issuedIds (H : Hashes) (t : EV.TxIn) : List Bytes :=
  (if t.assetIssuance.amount.isNull then [] else [assetIdOf H t]) ++
  (if t.assetIssuance.inflationKeys.isNull then [] else [tokenIdOf H t])

/-- the pseudo-inputs of one input in terms of the C11 ids -/
def issTerms (V : Blind.VPrims Bytes Pt RP SP) (H : Hashes) (pt : Bytes → Pt) (t : EV.TxIn) : List (Pt × Pt) :=
  issTerm V pt (assetIdOf H t) t.assetIssuance.amount ++
  issTerm V pt (tokenIdOf H t) t.assetIssuance.inflationKeys

variable (V : Blind.VPrims Bytes Pt RP SP)

theorem issTerm_fst (id : Bytes) (v : Value) :
    (issTerm V pt id v).map Prod.fst = if v.isNull then [] else [V.genUnblinded id] := by
  cases v <;> rfl

theorem issTerm_snd (id : Bytes) (v : Value) :
    (issTerm V pt id v).map Prod.snd =
      match v with
      | .null => []
      | .explicit n => [V.commitUnblinded n (V.genUnblinded id)]
      | .conf c => [pt c] := by
  cases v <;> rfl

/-- domain entries of one input = generators of its `issuedIds` -/
theorem issTerms_fst (t : EV.TxIn) :
    (issTerms V H pt t).map Prod.fst = (issuedIds H t).map V.genUnblinded := by
  unfold issTerms issuedIds
  rw [List.map_append, List.map_append, issTerm_fst, issTerm_fst]
  cases t.assetIssuance.amount.isNull <;> cases t.assetIssuance.inflationKeys.isNull <;> rfl

theorem issuancePair_cvalue (id : Bytes) (v : Value) (h : v ≠ .explicit 0) :
    Blind.issuancePair V (cvalue pt v) id = some (issTerm V pt id v) := by
  cases v with
  | null => rfl
  | explicit n =>
    have hn : n ≠ 0 := fun e => h (by rw [e])
    simp only [cvalue, Blind.issuancePair, issTerm]
    rw [if_neg hn]
  | conf c => rfl

/-- **the pseudo-inputs of an issuance input are built from the generator of `issuance_ids`**:
    no amount being an explicit 0, `issuancePairs` of the Blind view is
    `(gen(asset_id), commitment of amount)` (present iff the amount is non-null) followed by
    `(gen(token_id), commitment of keys)` (present iff the keys are non-null) -/
theorem issuancePairs_blindIn (t : EV.TxIn)
    (ha : t.assetIssuance.amount ≠ .explicit 0) (hk : t.assetIssuance.inflationKeys ≠ .explicit 0) :
    Blind.issuancePairs V (blindIn H pt t) = some (issTerms V H pt t) := by
  unfold Blind.issuancePairs issTerms
  by_cases hi : (blindIn H pt t).hasIssuance = true
  · rw [if_pos hi]
    simp only [blindIn, issuancePair_cvalue pt V _ _ ha, issuancePair_cvalue pt V _ _ hk]
  · rw [if_neg hi]
    rw [hasIssuance_blindIn] at hi
    have hn := amounts_null_of_not_hasIssuance t (by simpa using hi)
    rw [hn.1, hn.2]
    rfl

/-- … and it is `none` (error `IssuanceTransactionInput`) exactly when an amount is an explicit 0 -/
theorem issuancePairs_blindIn_none_iff (t : EV.TxIn) :
    Blind.issuancePairs V (blindIn H pt t) = none ↔
      (t.assetIssuance.amount = .explicit 0 ∨ t.assetIssuance.inflationKeys = .explicit 0) := by
  rw [← Option.not_isSome_iff_eq_none, Blind.issuancePairs_isSome, issOk_blindIn]
  constructor
  · intro h
    by_cases ha : t.assetIssuance.amount = .explicit 0
    · exact Or.inl ha
    · by_cases hk : t.assetIssuance.inflationKeys = .explicit 0
      · exact Or.inr hk
      · exact absurd ⟨ha, hk⟩ h
  · rintro (h | h) ⟨ha, hk⟩
    · exact ha h
    · exact hk h

/-! ### whole input lists -/

/-- (generator, commitment) of every input and pseudo-input of a consensus input list, written with
    the C11 ids: per input the spent output, then the issuance terms -/
def idsPairs (V : Blind.VPrims Bytes Pt RP SP) (H : Hashes) (pt : Bytes → Pt) :
    List EV.TxIn → List (Blind.TxOut Bytes Pt RP SP) → List (Pt × Pt)
  | t :: ts, u :: us => (Blind.spentPair? V u).toList ++ issTerms V H pt t ++ idsPairs V H pt ts us
  | _, _ => []

/-- **the surjection domain of a transaction in terms of C11**: per input, the spent output's
    generator followed by the generators of the ids `issuance_ids()` gives for its issuance -/
def idsDomain (V : Blind.VPrims Bytes Pt RP SP) (H : Hashes) :
    List EV.TxIn → List (Blind.TxOut Bytes Pt RP SP) → List Pt
  | t :: ts, u :: us =>
    (Blind.assetGen V u.asset).toList ++ (issuedIds H t).map V.genUnblinded ++ idsDomain V H ts us
  | _, _ => []

/-- the input side of the balance in terms of C11: per input, the spent output's value commitment,
    then the commitments of the issuance amount and of the inflation keys (explicit amounts committed
    to the generators of the C11 ids) -/
def idsCommits (V : Blind.VPrims Bytes Pt RP SP) (H : Hashes) (pt : Bytes → Pt) :
    List EV.TxIn → List (Blind.TxOut Bytes Pt RP SP) → List Pt
  | t :: ts, u :: us =>
    (Blind.outCommit? V u).toList ++ (issTerms V H pt t).map Prod.snd ++ idsCommits V H pt ts us
  | _, _ => []

/-- the acceptability condition on the inputs, on the consensus values -/
def InsOk (ins : List EV.TxIn) (utxos : List (Blind.TxOut Bytes Pt RP SP)) : Prop :=
  ∀ p ∈ ins.zip utxos, Blind.SpentOk p.2 ∧
    p.1.assetIssuance.amount ≠ .explicit 0 ∧ p.1.assetIssuance.inflationKeys ≠ .explicit 0

theorem insOk_iff : ∀ (ins : List EV.TxIn) (utxos : List (Blind.TxOut Bytes Pt RP SP)),
    (∀ p ∈ (ins.map (blindIn H pt)).zip utxos, Blind.SpentOk p.2 ∧ Blind.IssOk p.1) ↔ InsOk ins utxos
  | [], _ => by simp [InsOk]
  | _ :: _, [] => by simp [InsOk]
  | t :: ts, u :: us => by
    have ih := insOk_iff ts us
    unfold InsOk at ih ⊢
    simp only [List.map_cons, List.zip_cons_cons, List.mem_cons, forall_eq_or_imp, issOk_blindIn, ih]

theorem spentPair?_of_ok (u : Blind.TxOut Bytes Pt RP SP) (h : Blind.SpentOk u) :
    ∃ g c, Blind.assetGen V u.asset = some g ∧ Blind.valueCommit V u = .ok c ∧
      Blind.spentPair? V u = some (g, c) := by
  have hs := (Blind.spentPair?_isSome V u).2 h
  unfold Blind.spentPair? at hs ⊢
  cases hg : Blind.assetGen V u.asset with
  | none => rw [hg] at hs; simp at hs
  | some g =>
    cases hc : Blind.valueCommit V u with
    | error e => rw [hg, hc] at hs; simp at hs
    | ok c => exact ⟨g, c, rfl, rfl, rfl⟩

/-- `pairsOf` of the Blind views = `idsPairs` (inputs acceptable) -/
theorem pairsOf_blindIn : ∀ (ins : List EV.TxIn) (utxos : List (Blind.TxOut Bytes Pt RP SP)),
    InsOk ins utxos → Blind.pairsOf V (ins.map (blindIn H pt)) utxos = idsPairs V H pt ins utxos
  | [], _, _ => by simp [Blind.pairsOf, idsPairs]
  | _ :: _, [], _ => by simp [Blind.pairsOf, idsPairs]
  | t :: ts, u :: us, h => by
    have h0 := h (t, u) (by simp [List.zip_cons_cons])
    have ih := pairsOf_blindIn ts us (fun p hp => h p (by simp [List.zip_cons_cons, hp]))
    simp only [List.map_cons, Blind.pairsOf, idsPairs, ih,
      issuancePairs_blindIn H pt V t h0.2.1 h0.2.2, Option.getD_some]

theorem idsPairs_fst : ∀ (ins : List EV.TxIn) (utxos : List (Blind.TxOut Bytes Pt RP SP)),
    InsOk ins utxos → (idsPairs V H pt ins utxos).map Prod.fst = idsDomain V H ins utxos
  | [], _, _ => by simp [idsDomain, idsPairs]
  | _ :: _, [], _ => by simp [idsDomain, idsPairs]
  | t :: ts, u :: us, h => by
    have h0 := h (t, u) (by simp [List.zip_cons_cons])
    have ih := idsPairs_fst ts us (fun p hp => h p (by simp [List.zip_cons_cons, hp]))
    obtain ⟨g, c, hg, _, hp⟩ := spentPair?_of_ok V u h0.1
    simp only [idsPairs, idsDomain, List.map_append, ih, issTerms_fst, hp, hg, Option.toList_some,
      List.map_cons, List.map_nil]

theorem idsPairs_snd : ∀ (ins : List EV.TxIn) (utxos : List (Blind.TxOut Bytes Pt RP SP)),
    InsOk ins utxos → (idsPairs V H pt ins utxos).map Prod.snd = idsCommits V H pt ins utxos
  | [], _, _ => by simp [idsCommits, idsPairs]
  | _ :: _, [], _ => by simp [idsCommits, idsPairs]
  | t :: ts, u :: us, h => by
    have h0 := h (t, u) (by simp [List.zip_cons_cons])
    have ih := idsPairs_snd ts us (fun p hp => h p (by simp [List.zip_cons_cons, hp]))
    obtain ⟨g, c, _, hc, hp⟩ := spentPair?_of_ok V u h0.1
    simp only [idsPairs, idsCommits, List.map_append, ih, hp, Blind.outCommit?, hc, Option.toList_some,
      List.map_cons, List.map_nil]

/-- **the surjection domain `verify` uses is `idsDomain`** -/
theorem domainOf_blindIn (ins : List EV.TxIn) (utxos : List (Blind.TxOut Bytes Pt RP SP))
    (h : InsOk ins utxos) :
    Blind.domainOf V (ins.map (blindIn H pt)) utxos = idsDomain V H ins utxos := by
  unfold Blind.domainOf
  rw [pairsOf_blindIn H pt V ins utxos h, idsPairs_fst H pt V ins utxos h]

/-- **the input side of the tally `verify` uses is `idsCommits`** -/
theorem inCommitsOf_blindIn (ins : List EV.TxIn) (utxos : List (Blind.TxOut Bytes Pt RP SP))
    (h : InsOk ins utxos) :
    Blind.inCommitsOf V (ins.map (blindIn H pt)) utxos = idsCommits V H pt ins utxos := by
  unfold Blind.inCommitsOf
  rw [pairsOf_blindIn H pt V ins utxos h, idsPairs_snd H pt V ins utxos h]

/-! ## 5a. `verify_ok_iff` (C05) through the bridge -/

/-- **C05's decision logic about a consensus input list**: the surjection proofs are checked against
    the domain made of the spent outputs' generators and the generators of the C11 ids, the tally
    against the commitments to those generators -/
theorem verify_ok_iff_ids (ins : List EV.TxIn) (outs utxos : List (Blind.TxOut Bytes Pt RP SP)) :
    Blind.verify V (ins.map (blindIn H pt)) outs utxos = .ok ↔
      utxos.length = ins.length ∧ InsOk ins utxos ∧
      (∀ o ∈ outs, Blind.OutOk V (idsDomain V H ins utxos) o) ∧
      V.sumEqual (idsCommits V H pt ins utxos) (Blind.outCommitsOf V outs) = true := by
  rw [Blind.verify_ok_iff', insOk_iff, List.length_map]
  constructor
  · rintro ⟨h1, h2, h3, h4⟩
    rw [domainOf_blindIn H pt V ins utxos h2] at h3
    rw [inCommitsOf_blindIn H pt V ins utxos h2] at h4
    exact ⟨h1, h2, h3, h4⟩
  · rintro ⟨h1, h2, h3, h4⟩
    rw [← domainOf_blindIn H pt V ins utxos h2] at h3
    rw [← inCommitsOf_blindIn H pt V ins utxos h2] at h4
    exact ⟨h1, h2, h3, h4⟩

/-! ## 4. composition with C11: the generators in closed form -/

theorem assetIdOf_eq (t : EV.TxIn) :
    assetIdOf H t = H.comb (entropyOf H t.previousOutput t.assetIssuance.nonce t.assetIssuance.entropy) assetLeaf := by
  unfold assetIdOf
  rw [txin_ids_eq]
  rfl

theorem tokenIdOf_eq (t : EV.TxIn) :
    tokenIdOf H t = H.comb (entropyOf H t.previousOutput t.assetIssuance.nonce t.assetIssuance.entropy)
      (tokenLeaf t.assetIssuance.amount.isConf) := by
  unfold tokenIdOf
  rw [txin_ids_eq]
  rfl

/-- the ids are `AssetId::from_entropy` / `reissuance_token_from_entropy` of the input's entropy -/
theorem ids_from_entropy (t : EV.TxIn) :
    fromEntropy H (entropyOf H t.previousOutput t.assetIssuance.nonce t.assetIssuance.entropy) = some (assetIdOf H t) ∧
    reissuanceTokenFromEntropy H (entropyOf H t.previousOutput t.assetIssuance.nonce t.assetIssuance.entropy)
      t.assetIssuance.amount.isConf = some (tokenIdOf H t) := by
  rw [fromEntropy_eq, token_eq, assetIdOf_eq, tokenIdOf_eq]
  exact ⟨rfl, rfl⟩

/-- NEW issuance (zero blinding nonce): asset id in closed form -/
theorem assetIdOf_new (t : EV.TxIn) (h : t.assetIssuance.nonce = Issuance.zero32) :
    assetIdOf H t =
      H.comb (H.comb (H.sha256d (t.previousOutput.txid ++ encLe 4 t.previousOutput.vout)) t.assetIssuance.entropy)
        (List.replicate 32 0) := by
  rw [assetIdOf_eq, assetLeaf_eq]
  simp only [entropyOf, h, if_true]

/-- REISSUANCE (non-zero nonce): the asset id does not depend on the outpoint -/
theorem assetIdOf_reissuance (t : EV.TxIn) (h : t.assetIssuance.nonce ≠ Issuance.zero32) :
    assetIdOf H t = H.comb t.assetIssuance.entropy (List.replicate 32 0) := by
  rw [assetIdOf_eq, assetLeaf_eq]
  simp only [entropyOf, h, if_false]

theorem tokenIdOf_new (t : EV.TxIn) (h : t.assetIssuance.nonce = Issuance.zero32) :
    tokenIdOf H t =
      H.comb (H.comb (H.sha256d (t.previousOutput.txid ++ encLe 4 t.previousOutput.vout)) t.assetIssuance.entropy)
        ((if t.assetIssuance.amount.isConf then 2 else 1) :: List.replicate 31 0) := by
  rw [tokenIdOf_eq, tokenLeaf_eq]
  simp only [entropyOf, h, if_true]

theorem tokenIdOf_reissuance (t : EV.TxIn) (h : t.assetIssuance.nonce ≠ Issuance.zero32) :
    tokenIdOf H t =
      H.comb t.assetIssuance.entropy ((if t.assetIssuance.amount.isConf then 2 else 1) :: List.replicate 31 0) := by
  rw [tokenIdOf_eq, tokenLeaf_eq]
  simp only [entropyOf, h, if_false]

/-- **a reissuance input contributes the same asset generator as the issuance whose entropy it
    quotes**: `i` a new issuance, `r` a reissuance carrying the entropy `generate_asset_entropy`
    derives for `i` ⇒ same asset id (whatever outpoint `r` spends) -/
theorem reissuance_same_asset (i r : EV.TxIn) (hi : i.assetIssuance.nonce = Issuance.zero32)
    (hr : r.assetIssuance.nonce ≠ Issuance.zero32)
    (he : generateAssetEntropy H i.previousOutput i.assetIssuance.entropy = some r.assetIssuance.entropy) :
    assetIdOf H r = assetIdOf H i := by
  rw [entropy_eq] at he
  injection he with he
  rw [assetIdOf_new H i hi, assetIdOf_reissuance H r hr, he]

/-- … and the same token id iff, collisions apart, both amounts are blinded or both are not: the
    second leaf of the token id is `tokenLeaf (amount.is_confidential())` of the input at hand -/
theorem reissuance_same_token (i r : EV.TxIn) (hi : i.assetIssuance.nonce = Issuance.zero32)
    (hr : r.assetIssuance.nonce ≠ Issuance.zero32)
    (he : generateAssetEntropy H i.previousOutput i.assetIssuance.entropy = some r.assetIssuance.entropy)
    (hf : r.assetIssuance.amount.isConf = i.assetIssuance.amount.isConf) :
    tokenIdOf H r = tokenIdOf H i := by
  rw [entropy_eq] at he
  injection he with he
  rw [tokenIdOf_new H i hi, tokenIdOf_reissuance H r hr, he, hf]

/-- two inputs with the same asset id have the same entropy, or a collision of the compression
    function is exhibited (`asset_id_commit` of C11) -/
theorem same_asset_same_entropy (a b : EV.TxIn) (h : assetIdOf H a = assetIdOf H b) :
    entropyOf H a.previousOutput a.assetIssuance.nonce a.assetIssuance.entropy =
      entropyOf H b.previousOutput b.assetIssuance.nonce b.assetIssuance.entropy ∨ Coll2 H.comb := by
  apply assetId_commits
  rw [(ids_from_entropy H a).1, (ids_from_entropy H b).1, h]

/-- the token id commits to the entropy AND to the blinded flag of the issuance amount
    (`token_commit` of C11): an explicit and a confidential issuance of the same entropy have different
    token generators -/
theorem same_token_same_entropy_flag (a b : EV.TxIn) (h : tokenIdOf H a = tokenIdOf H b) :
    (entropyOf H a.previousOutput a.assetIssuance.nonce a.assetIssuance.entropy =
      entropyOf H b.previousOutput b.assetIssuance.nonce b.assetIssuance.entropy ∧
     a.assetIssuance.amount.isConf = b.assetIssuance.amount.isConf) ∨ Coll2 H.comb := by
  apply tokenId_commits
  rw [(ids_from_entropy H a).2, (ids_from_entropy H b).2, h]

/-- an asset id is never a token id (`asset_token_distinct` of C11): within a domain the asset entry of
    one input and the token entry of any input have different tags -/
theorem asset_ne_token_ids (a b : EV.TxIn) (h : assetIdOf H a = tokenIdOf H b) : Coll2 H.comb := by
  apply asset_ne_token H _ _ b.assetIssuance.amount.isConf
  rw [(ids_from_entropy H a).1, (ids_from_entropy H b).2, h]

/-- converse of `reissuance_same_asset`: a reissuance with the asset id of a new issuance quotes the
    entropy of that issuance (or a collision is exhibited) -/
theorem same_asset_quotes_entropy (i r : EV.TxIn) (hi : i.assetIssuance.nonce = Issuance.zero32)
    (hr : r.assetIssuance.nonce ≠ Issuance.zero32) (h : assetIdOf H r = assetIdOf H i) :
    generateAssetEntropy H i.previousOutput i.assetIssuance.entropy = some r.assetIssuance.entropy ∨
      Coll2 H.comb := by
  rcases same_asset_same_entropy H r i h with he | hc
  · left
    simp only [entropyOf, hi, hr, if_true, if_false] at he
    rw [entropy_eq, he]
  · exact Or.inr hc

/-! ## 5b. `tamper_issuance` (C05) through the bridge -/

/-- the input with another issuance amount -/
def setAmount (t : EV.TxIn) (v : Value) : EV.TxIn :=
  { t with assetIssuance := { t.assetIssuance with amount := v } }

/-- changing an explicit issuance amount into another explicit amount changes neither id
    (`issuance_ids` reads only `amount.is_confidential()`) -/
theorem blindIn_setAmount_explicit (t : EV.TxIn) (v v' : Nat) (hamt : t.assetIssuance.amount = .explicit v) :
    blindIn H pt (setAmount t (.explicit v')) = { blindIn H pt t with amount := .explicit v' } := by
  have h1 : assetIdOf H (setAmount t (.explicit v')) = assetIdOf H t := by
    rw [assetIdOf_eq, assetIdOf_eq]; rfl
  have h2 : tokenIdOf H (setAmount t (.explicit v')) = tokenIdOf H t := by
    rw [tokenIdOf_eq, tokenIdOf_eq, hamt]; rfl
  unfold blindIn
  rw [h1, h2]
  rfl

section tamper
variable {R M : Type} [CommRing R] [AddCommGroup M] [Module R M]

/-- **changing an explicit issuance amount of a consensus input breaks verification**, the torsion
    hypothesis being about the tag of the asset id `TxIn::issuance_ids()` derives (hypotheses as in
    `tamper_issuance` of C05) -/
theorem tamper_issuance_ids (cv : Blind.Curve R M Bytes) (V : Blind.VPrims Bytes M RP SP) (hV : Blind.AlgV cv V)
    (H : Hashes) (pt : Bytes → M)
    (outs : List (Blind.TxOut Bytes M RP SP)) (ipre ipost : List EV.TxIn) (t : EV.TxIn)
    (upre upost : List (Blind.TxOut Bytes M RP SP)) (u : Blind.TxOut Bytes M RP SP)
    (hl : upre.length = ipre.length)
    (v v' : Nat) (B : Nat) (hamt : t.assetIssuance.amount = .explicit v) (hne : v ≠ v') (hv0 : v ≠ 0)
    (hv0' : v' ≠ 0) (hvB : v < B) (hvB' : v' < B)
    (a tk : Bytes) (hids : t.issuanceIds H = some (a, tk))
    (hT : Blind.NoTorsion R (cv.tag a) B) (hkeys : t.assetIssuance.inflationKeys ≠ .explicit 0) :
    ¬ (Blind.verify V ((ipre ++ t :: ipost).map (blindIn H pt)) outs (upre ++ u :: upost) = .ok ∧
       Blind.verify V ((ipre ++ setAmount t (.explicit v') :: ipost).map (blindIn H pt)) outs
         (upre ++ u :: upost) = .ok) := by
  have ha : (blindIn H pt t).assetId = a := (ids_of_some H t a tk hids).1
  rw [List.map_append, List.map_cons, List.map_append, List.map_cons,
    blindIn_setAmount_explicit H pt t v v' hamt]
  refine Blind.tamper_issuance' cv V hV outs _ _ (blindIn H pt t) upre upost u
    (by rw [List.length_map]; exact hl) v v' B ?_ hne hv0 hv0' hvB hvB' (by rw [ha]; exact hT) ?_
  · show cvalue pt t.assetIssuance.amount = _
    rw [hamt]; rfl
  · exact fun h => hkeys ((cvalue_eq_explicit pt _ 0).1 h)

end tamper

/-! ## 6. C09: the pseudo-inputs of `PartiallySignedTransaction::surjection_inputs`

  `EV.PsetBlind.Inp.issued` (abstract asset ids, `Nat`) is a parameter of the C09 model; the Rust code
  (src/pset/mod.rs, `surjection_inputs`) fills it from `pset::Input::issuance_ids()`:
  `asset_id` if `issuance_value_amount` or `issuance_value_comm` is set, `token_id` if
  `issuance_inflation_keys` or `issuance_inflation_keys_comm` is.  `code` names the ids as `Nat`s. -/

/-- the C09 view of a PSET input (C11 model `IssPsetInput`), `hasUtxo` and `blinded_issuance` given -/
def psetInp (H : Hashes) (code : Bytes → Nat) (hasUtxo : Bool) (blindedIssuance : Option Nat)
    (p : IssPsetInput) : PsetBlind.Inp :=
  { hasUtxo := hasUtxo
    hasIssuance := p.hasIssuance
    blindedIssuance := blindedIssuance
    issued :=
      (if p.issuanceValueAmount.isSome || p.issuanceValueComm.isSome
        then [code ((p.issuanceIds H).getD ([], [])).1] else []) ++
      (if p.issuanceInflationKeys.isSome || p.issuanceInflationKeysComm.isSome
        then [code ((p.issuanceIds H).getD ([], [])).2] else []) }

theorem valueOf_isNull (a : Option Nat) (c : Option Bytes) :
    (a.isSome || c.isSome) = !(IssPsetInput.valueOf a c).isNull := by
  cases a <;> cases c <;> rfl

theorem hasIssuance_fromTxin (t : EV.TxIn) : (IssPsetInput.fromTxin t).hasIssuance = t.hasIssuance := by
  simp only [IssPsetInput.hasIssuance, IssPsetInput.assetIssuance, AssetIssuance.isNull, fromTxin_amount,
    fromTxin_keys, EV.TxIn.hasIssuance]

/-- **the PSET built from a canonical input puts the ids of `TxIn::issuance_ids` into the blinder's
    surjection domain** — the same list `issuedIds` whose generators `verify` uses (`idsDomain`) -/
theorem psetInp_fromTxin (code : Bytes → Nat) (u : Bool) (b : Option Nat) (t : EV.TxIn)
    (h : IndexOk t.previousOutput.vout t.isPegin t.hasIssuance) (hi : IssuanceOk t) :
    psetInp H code u b (IssPsetInput.fromTxin t) =
      { hasUtxo := u, hasIssuance := t.hasIssuance, blindedIssuance := b,
        issued := (issuedIds H t).map code } := by
  unfold psetInp issuedIds
  rw [ids_agree_pset H t h hi, hasIssuance_fromTxin, valueOf_isNull, valueOf_isNull, fromTxin_amount,
    fromTxin_keys]
  cases t.assetIssuance.amount.isNull <;> cases t.assetIssuance.inflationKeys.isNull <;> rfl

theorem issuedIds_of_no_issuance (t : EV.TxIn) (h : t.hasIssuance = false) : issuedIds H t = [] := by
  have hn := amounts_null_of_not_hasIssuance t h
  unfold issuedIds
  rw [hn.1, hn.2]
  rfl

/-- the issuance part of the blinder's domain for a list of canonical inputs -/
theorem issuedAssets_fromTxin (code : Bytes → Nat) :
    ∀ (l : List (EV.TxIn × Bool × Option Nat)),
      (∀ x ∈ l, IndexOk x.1.previousOutput.vout x.1.isPegin x.1.hasIssuance ∧ IssuanceOk x.1) →
      PsetBlind.issuedAssets (l.map (fun x => psetInp H code x.2.1 x.2.2 (IssPsetInput.fromTxin x.1))) =
        l.flatMap (fun x => (issuedIds H x.1).map code)
  | [], _ => rfl
  | x :: l, h => by
    have h0 := h x List.mem_cons_self
    have ih := issuedAssets_fromTxin code l (fun y hy => h y (List.mem_cons_of_mem _ hy))
    rw [List.map_cons, List.flatMap_cons, PsetBlind.issuedAssets, ih, psetInp_fromTxin H code _ _ _ h0.1 h0.2]
    cases hq : x.1.hasIssuance
    · rw [issuedIds_of_no_issuance H x.1 hq]; rfl
    · rfl

/-! ## an instance over `Bytes` asset ids (non-vacuity of the algebraic hypotheses) -/
namespace Inst

abbrev PtB := Option Bytes → ℤ

def cvB : Blind.Curve ℤ PtB Bytes := ⟨Pi.single none 1, fun b => Pi.single (some b) 1⟩

noncomputable def VB : Blind.VPrims Bytes PtB Unit Unit where
  genUnblinded := cvB.tag
  commitUnblinded := fun v g => (v : ℤ) • g
  rangeVerify := fun _ _ _ _ => true
  surjVerify := fun _ _ _ => true
  sumEqual := fun l r => @decide (l.sum = r.sum) (Classical.propDecidable _)

theorem algVB : Blind.AlgV cvB VB := ⟨fun _ => rfl, fun _ _ => rfl, fun l r => by simp [VB]⟩

theorem noTorsion_tagB (B : Nat) (a : Bytes) : Blind.NoTorsion ℤ (cvB.tag a) B := by
  intro k hk _ h
  have := congrFun h (some a)
  simp [cvB] at this
  omega

end Inst

end EV.Proofs.BridgeIssuanceBlind
