/-
  EV.Proofs.Polymod — algebra of the polymod engine of `EV.Model.Bech32`:
  XOR-linearity of a step, range of the residue, explicit left inverse of the zero-input step
  (hence injectivity), iterates.
-/
import EV.Model.Bech32
namespace EV.Bech32

/-! ### `sel` is XOR-linear in the selector and bounded -/

theorem sel_xor (gs : List Nat) (i t u : Nat) : sel gs i (t ^^^ u) = sel gs i t ^^^ sel gs i u := by
  induction gs generalizing i with
  | nil => simp [sel]
  | cons g gs ih =>
    simp only [sel, ih, Nat.testBit_xor]
    cases t.testBit i <;> cases u.testBit i <;> simp
    · ac_rfl
    · ac_rfl
    · have : g ^^^ sel gs (i + 1) t ^^^ (g ^^^ sel gs (i + 1) u)
          = (g ^^^ g) ^^^ (sel gs (i + 1) t ^^^ sel gs (i + 1) u) := by ac_rfl
      rw [this, Nat.xor_self, Nat.zero_xor]

theorem sel_zero (gs : List Nat) (i : Nat) : sel gs i 0 = 0 := by
  induction gs generalizing i with
  | nil => rfl
  | cons g gs ih => simp [sel, ih]

theorem sel_lt (gs : List Nat) (i t n : Nat) (h : ∀ g ∈ gs, g < 2 ^ n) : sel gs i t < 2 ^ n := by
  induction gs generalizing i with
  | nil => simp [sel]; exact Nat.two_pow_pos n
  | cons g gs ih =>
    simp only [sel]
    apply Nat.xor_lt_two_pow
    · split
      · exact h g (by simp)
      · exact Nat.two_pow_pos n
    · exact ih _ (fun g' hg' => h g' (by simp [hg']))

/-- only the bits `i … i + |gs| - 1` of the selector matter -/
theorem sel_mod (gs : List Nat) (i t k : Nat) (hk : i + gs.length ≤ k) : sel gs i (t % 2 ^ k) = sel gs i t := by
  induction gs generalizing i with
  | nil => rfl
  | cons g gs ih =>
    simp only [List.length_cons] at hk
    simp only [sel]
    rw [ih (i + 1) (by omega), Nat.testBit_mod_two_pow]
    have : i < k := by omega
    simp [this]

namespace Code

/-! ### the step in XOR form -/

/-- `step` with `^^^ e` instead of `||| e` (equal for symbols `e < 32`), linear for all arguments -/
def stepX (c : Code) (r e : Nat) : Nat :=
  (((r % 2 ^ (5 * (c.len - 1))) <<< 5) ^^^ e) ^^^ sel c.gens 0 (c.top r)

theorem shl5_or (x e : Nat) (he : e < 32) : x <<< 5 ||| e = x <<< 5 ^^^ e := by
  apply Nat.eq_of_testBit_eq
  intro j
  rw [Nat.testBit_or, Nat.testBit_xor, Nat.testBit_shiftLeft]
  by_cases hj : j ≥ 5
  · have : e.testBit j = false := by
      apply Nat.testBit_lt_two_pow
      calc e < 32 := he
        _ = 2 ^ 5 := rfl
        _ ≤ 2 ^ j := Nat.pow_le_pow_right (by decide) hj
    simp [this]
  · simp [hj]

theorem step_eq_stepX (c : Code) (r e : Nat) (he : e < 32) : c.step r e = c.stepX r e := by
  simp only [step, stepX, shl5_or _ _ he]

theorem top_xor (c : Code) (a b : Nat) : c.top (a ^^^ b) = c.top a ^^^ c.top b := by
  simp only [top, Nat.shiftRight_xor_distrib]
  exact Nat.xor_mod_two_pow (n := 5)

theorem top_lt (c : Code) (r : Nat) : c.top r < 32 := Nat.mod_lt _ (by decide)

theorem stepX_xor (c : Code) (a b e f : Nat) :
    c.stepX (a ^^^ b) (e ^^^ f) = c.stepX a e ^^^ c.stepX b f := by
  simp only [stepX, top_xor, sel_xor, Nat.xor_mod_two_pow, Nat.shiftLeft_xor_distrib]
  ac_rfl

/-- XOR-linearity of one polymod step -/
theorem step_linear (c : Code) (a b e f : Nat) (he : e < 32) (hf : f < 32) :
    c.step (a ^^^ b) (e ^^^ f) = c.step a e ^^^ c.step b f := by
  have hef : e ^^^ f < 32 := Nat.xor_lt_two_pow (n := 5) he hf
  rw [step_eq_stepX _ _ _ hef, step_eq_stepX _ _ _ he, step_eq_stepX _ _ _ hf, stepX_xor]

theorem step_zero (c : Code) : c.step 0 0 = 0 := by
  simp [step, top, sel_zero]

theorem step_zero_sym (c : Code) (e : Nat) : c.step 0 e = e := by
  simp [step, top, sel_zero]

/-! ### range -/

/-- the conditions on the constants of a code under which the algebra below works -/
structure Good (c : Code) : Prop where
  len_pos : 1 ≤ c.len
  gens_lt : ∀ g ∈ c.gens, g < 2 ^ (5 * c.len)

theorem step_lt (c : Code) (hc : c.Good) (r e : Nat) (he : e < 32) : c.step r e < 2 ^ (5 * c.len) := by
  have hl := hc.len_pos
  simp only [step]
  apply Nat.xor_lt_two_pow
  · apply Nat.or_lt_two_pow
    · rw [Nat.shiftLeft_eq]
      have h1 : r % 2 ^ (5 * (c.len - 1)) < 2 ^ (5 * (c.len - 1)) := Nat.mod_lt _ (Nat.two_pow_pos _)
      have h2 : 2 ^ (5 * c.len) = 2 ^ (5 * (c.len - 1)) * 2 ^ 5 := by
        rw [← Nat.pow_add]; congr 1; omega
      rw [h2]
      exact Nat.mul_lt_mul_of_pos_right h1 (by decide)
    · calc e < 2 ^ 5 := he
        _ ≤ 2 ^ (5 * c.len) := Nat.pow_le_pow_right (by decide) (by omega)
  · exact sel_lt _ _ _ _ hc.gens_lt

theorem polymodFrom_lt (c : Code) (hc : c.Good) (s : Nat) (hs : s < 2 ^ (5 * c.len)) (w : List Nat)
    (hw : ∀ x ∈ w, x < 32) : c.polymodFrom s w < 2 ^ (5 * c.len) := by
  induction w generalizing s with
  | nil => simpa [polymodFrom] using hs
  | cons x w ih =>
    simp only [polymodFrom, List.foldl_cons]
    exact ih _ (step_lt c hc s x (hw x (by simp))) (fun y hy => hw y (by simp [hy]))

/-! ### polymod over lists -/

theorem polymodFrom_nil (c : Code) (s : Nat) : c.polymodFrom s [] = s := rfl
theorem polymodFrom_cons (c : Code) (s x : Nat) (w : List Nat) :
    c.polymodFrom s (x :: w) = c.polymodFrom (c.step s x) w := rfl
theorem polymodFrom_append (c : Code) (s : Nat) (u w : List Nat) :
    c.polymodFrom s (u ++ w) = c.polymodFrom (c.polymodFrom s u) w := by
  simp [polymodFrom, List.foldl_append]

/-- pointwise XOR of two symbol strings -/
def xorList : List Nat → List Nat → List Nat
  | a :: as, b :: bs => (a ^^^ b) :: xorList as bs
  | _, _ => []

theorem xorList_length (a b : List Nat) (h : a.length = b.length) : (xorList a b).length = a.length := by
  induction a generalizing b with
  | nil => simp [xorList]
  | cons x a ih =>
    cases b with
    | nil => simp at h
    | cons y b => simp only [xorList, List.length_cons]; rw [ih b (by simpa using h)]

theorem xorList_lt (a b : List Nat) (ha : ∀ x ∈ a, x < 32) (hb : ∀ x ∈ b, x < 32) :
    ∀ x ∈ xorList a b, x < 32 := by
  induction a generalizing b with
  | nil => simp [xorList]
  | cons x a ih =>
    cases b with
    | nil => simp [xorList]
    | cons y b =>
      intro z hz
      simp only [xorList, List.mem_cons] at hz
      rcases hz with rfl | hz
      · exact Nat.xor_lt_two_pow (n := 5) (ha x (by simp)) (hb y (by simp))
      · exact ih b (fun w hw => ha w (by simp [hw])) (fun w hw => hb w (by simp [hw])) z hz

/-- XOR-linearity of the whole polymod: `P(s ⊕ s', w ⊕ δ) = P(s, w) ⊕ P(s', δ)` -/
theorem polymod_linear (c : Code) (s s' : Nat) (w d : List Nat) (hlen : w.length = d.length)
    (hw : ∀ x ∈ w, x < 32) (hd : ∀ x ∈ d, x < 32) :
    c.polymodFrom (s ^^^ s') (xorList w d) = c.polymodFrom s w ^^^ c.polymodFrom s' d := by
  induction w generalizing s s' d with
  | nil =>
    cases d with
    | nil => rfl
    | cons y d => simp at hlen
  | cons x w ih =>
    cases d with
    | nil => simp at hlen
    | cons y d =>
      simp only [xorList, polymodFrom_cons]
      rw [step_linear c s s' x y (hw x (by simp)) (hd y (by simp))]
      exact ih _ _ d (by simpa using hlen) (fun z hz => hw z (by simp [hz])) (fun z hz => hd z (by simp [hz]))

/-! ### the zero-input step `T`, its iterates and its left inverse -/

/-- multiplication by `x` modulo the generator: one step with input symbol 0 -/
def T (c : Code) (r : Nat) : Nat := c.step r 0

def Tpow (c : Code) : Nat → Nat → Nat
  | 0, s => s
  | d + 1, s => c.T (Tpow c d s)

theorem Tpow_succ' (c : Code) (d s : Nat) : c.Tpow (d + 1) s = c.Tpow d (c.T s) := by
  induction d with
  | zero => rfl
  | succ d ih => simp only [Tpow] at ih ⊢; rw [ih]

theorem Tpow_add (c : Code) (a b s : Nat) : c.Tpow (a + b) s = c.Tpow a (c.Tpow b s) := by
  induction a with
  | zero => simp [Tpow]
  | succ a ih => rw [Nat.add_right_comm]; simp only [Tpow, ih]

theorem T_xor (c : Code) (a b : Nat) : c.T (a ^^^ b) = c.T a ^^^ c.T b := by
  have := step_linear c a b 0 0 (by decide) (by decide)
  simpa [T] using this

theorem T_zero (c : Code) : c.T 0 = 0 := step_zero c

theorem Tpow_xor (c : Code) (d a b : Nat) : c.Tpow d (a ^^^ b) = c.Tpow d a ^^^ c.Tpow d b := by
  induction d with
  | zero => rfl
  | succ d ih => simp only [Tpow, ih, T_xor]

theorem Tpow_zero (c : Code) (d : Nat) : c.Tpow d 0 = 0 := by
  induction d with
  | zero => rfl
  | succ d ih => simp only [Tpow, ih, T_zero]

/-- a step splits into the zero-input step and the input symbol -/
theorem step_eq_T_xor (c : Code) (r e : Nat) (he : e < 32) : c.step r e = c.T r ^^^ e := by
  have := step_linear c r 0 0 e (by decide) he
  simpa [T, step_zero_sym] using this

theorem T_lt (c : Code) (hc : c.Good) (r : Nat) : c.T r < 2 ^ (5 * c.len) := step_lt c hc r 0 (by decide)

theorem Tpow_lt (c : Code) (hc : c.Good) (d r : Nat) (hr : r < 2 ^ (5 * c.len)) : c.Tpow d r < 2 ^ (5 * c.len) := by
  cases d with
  | zero => exact hr
  | succ d => exact T_lt c hc _

theorem polymodFrom_zeros (c : Code) (s n : Nat) : c.polymodFrom s (List.replicate n 0) = c.Tpow n s := by
  induction n generalizing s with
  | zero => rfl
  | succ n ih => rw [List.replicate_succ, polymodFrom_cons, ih, Tpow_succ']; rfl

/-- low five bits of the XOR of the generators selected by `t` -/
def lowMap (c : Code) (t : Nat) : Nat := sel c.gens 0 t % 32

def invLowAux (c : Code) (y : Nat) : Nat → Nat
  | 0 => 0
  | t + 1 => if c.lowMap t = y then t else invLowAux c y t

/-- the selector `t < 32` with `lowMap t = y` (search) -/
def invLow (c : Code) (y : Nat) : Nat := invLowAux c y 32

/-- explicit left inverse of `T` on residues below `2^(5·len)` -/
def Tinv (c : Code) (s : Nat) : Nat :=
  let t := c.invLow (s % 32)
  ((s ^^^ sel c.gens 0 t) >>> 5) + t * 2 ^ (5 * (c.len - 1))

/-- the low-5-bit map of the generator table is a bijection of `0..31` -/
def LowBij (c : Code) : Prop := ∀ t, t < 32 → c.invLow (c.lowMap t) = t

instance (c : Code) : Decidable c.LowBij := by unfold LowBij; exact Nat.decidableBallLT _ _

theorem T_mod32 (c : Code) (r : Nat) : c.T r % 32 = c.lowMap (c.top r) := by
  have h32 : (32 : Nat) = 2 ^ 5 := rfl
  simp only [T, step, lowMap, Nat.or_zero]
  rw [h32, Nat.xor_mod_two_pow]
  have : (r % 2 ^ (5 * (c.len - 1))) <<< 5 % 2 ^ 5 = 0 := by
    rw [Nat.shiftLeft_eq]; exact Nat.mul_mod_left _ _
  rw [this, Nat.zero_xor]

theorem Tinv_T (c : Code) (hc : c.Good) (hb : c.LowBij) (r : Nat) (hr : r < 2 ^ (5 * c.len)) :
    c.Tinv (c.T r) = r := by
  have hl := hc.len_pos
  have htop : c.invLow (c.T r % 32) = c.top r := by rw [T_mod32]; exact hb _ (top_lt c r)
  simp only [Tinv, htop]
  have hx : c.T r ^^^ sel c.gens 0 (c.top r) = (r % 2 ^ (5 * (c.len - 1))) <<< 5 := by
    simp only [T, step, Nat.or_zero]
    rw [Nat.xor_assoc, Nat.xor_self, Nat.xor_zero]
  rw [hx, Nat.shiftLeft_eq, Nat.shiftRight_eq_div_pow, Nat.mul_div_cancel _ (by decide : 0 < 2 ^ 5)]
  have hpow : 2 ^ (5 * c.len) = 2 ^ (5 * (c.len - 1)) * 32 := by
    have : (32 : Nat) = 2 ^ 5 := rfl
    rw [this, ← Nat.pow_add]; congr 1; omega
  have hdiv : r / 2 ^ (5 * (c.len - 1)) < 32 := by
    apply Nat.div_lt_of_lt_mul; rw [← hpow]; exact hr
  have htopv : c.top r = r / 2 ^ (5 * (c.len - 1)) := by
    simp only [top, Nat.shiftRight_eq_div_pow]; exact Nat.mod_eq_of_lt hdiv
  rw [htopv, Nat.mul_comm (r / _)]
  exact Nat.mod_add_div r _

/-- injectivity of the map residue ↦ next residue for a fixed input symbol -/
theorem step_injective (c : Code) (hc : c.Good) (hb : c.LowBij) (e a b : Nat) (he : e < 32)
    (ha : a < 2 ^ (5 * c.len)) (hb' : b < 2 ^ (5 * c.len)) (h : c.step a e = c.step b e) : a = b := by
  rw [step_eq_T_xor c a e he, step_eq_T_xor c b e he] at h
  have h2 : c.T a = c.T b := by
    have := congrArg (· ^^^ e) h
    simpa [Nat.xor_assoc] using this
  rw [← Tinv_T c hc hb a ha, ← Tinv_T c hc hb b hb', h2]

theorem T_ne_zero (c : Code) (hc : c.Good) (hb : c.LowBij) (r : Nat) (hr : r < 2 ^ (5 * c.len)) (h0 : r ≠ 0) :
    c.T r ≠ 0 := by
  intro h
  apply h0
  have h1 := Tinv_T c hc hb r hr
  have h2 := Tinv_T c hc hb 0 (Nat.two_pow_pos _)
  rw [T_zero] at h2
  rw [h, h2] at h1
  exact h1.symm

theorem Tpow_ne_zero (c : Code) (hc : c.Good) (hb : c.LowBij) (d r : Nat) (hr : r < 2 ^ (5 * c.len)) (h0 : r ≠ 0) :
    c.Tpow d r ≠ 0 := by
  induction d with
  | zero => exact h0
  | succ d ih => exact T_ne_zero c hc hb _ (Tpow_lt c hc d r hr) ih

def TinvPow (c : Code) : Nat → Nat → Nat
  | 0, s => s
  | k + 1, s => c.Tinv (TinvPow c k s)

/-- `T^k y = z` determines `y` -/
theorem eq_TinvPow_of_Tpow (c : Code) (hc : c.Good) (hb : c.LowBij) (k y z : Nat) (hy : y < 2 ^ (5 * c.len))
    (h : c.Tpow k y = z) : y = c.TinvPow k z := by
  induction k generalizing z with
  | zero => simpa [Tpow, TinvPow] using h
  | succ k ih =>
    -- Tpow (k+1) y = T (Tpow k y) = z  →  Tpow k y = Tinv z
    simp only [Tpow] at h
    have h1 : c.Tpow k y = c.Tinv z := by rw [← h, Tinv_T c hc hb _ (Tpow_lt c hc k y hy)]
    have h2 := ih (c.Tinv z) h1
    rw [h2]
    -- TinvPow k (Tinv z) = TinvPow (k+1) z
    clear h h1 h2 ih
    induction k with
    | zero => rfl
    | succ k ih => simp only [TinvPow] at ih ⊢; rw [ih]

end Code
end EV.Bech32
