/-
  EV.Proofs.TxAccessors — helper lemmas for the transaction-accessor section of C12
  (`EV.Model.TxAccessors`): closed forms of the `fee_in` / `all_fees` loops, agreement of the two
  instruction-iterator models (`EV.Acc.step` of C10 and `EV.Script.next` of C16), the pegout
  template, the pegin witness layout, and the `Sequence` predicates.
-/
import EV.Model.TxAccessors
import EV.Proofs.Accessors
import EV.Proofs.ScriptIter
import EV.Proofs.ScriptBuilder
import EV.Proofs.CodecPrim
import EV.Proofs.Sizes
namespace EV.Proofs.TxAccessors
open EV EV.Codec EV.Acc EV.TxAcc EV.Gen

/-! ### fee accounting -/

theorem two64 : (2 : Nat) ^ 64 = 18446744073709551616 := by decide

theorem isFee_iff (o : TxOut) :
    isFee o = true ↔ o.scriptPubkey = [] ∧ (∃ v, o.value = .explicit v) ∧ (∃ a, o.asset = .explicit a) := by
  unfold isFee
  rw [Bool.and_eq_true, Bool.and_eq_true, List.isEmpty_iff]
  constructor
  · rintro ⟨⟨h1, h2⟩, h3⟩
    refine ⟨h1, ?_, ?_⟩
    · cases hv : o.value <;> simp [hv, valueExplicit] at h2 ⊢
    · cases ha : o.asset <;> simp [ha, assetExplicit] at h3 ⊢
  · rintro ⟨h1, ⟨v, hv⟩, ⟨a, ha⟩⟩
    simp [h1, hv, ha, valueExplicit, assetExplicit]

/-- whether output `o` counts as fee in `asset` -/
def sel (asset : Bytes) (o : TxOut) : Bool := isFee o && decide (o.asset = .explicit asset)

theorem feeInSelect_eq (asset : Bytes) (o : TxOut) : feeInSelect asset o = .ok (sel asset o) := by
  unfold feeInSelect sel
  cases hf : isFee o with
  | false => simp
  | true =>
    obtain ⟨_, _, ⟨a, ha⟩⟩ := (isFee_iff o).mp hf
    simp only [if_true, ha, assetExplicit, Bool.true_and]
    by_cases h : a = asset
    · subst h; simp
    · have : ¬ (Asset.explicit a = Asset.explicit asset) := fun e => h (by injection e)
      simp [h, this]

theorem feeSum_nil (a : Bytes) : feeSum [] a = 0 := rfl

theorem feeSum_cons (o : TxOut) (outs : List TxOut) (a : Bytes) :
    feeSum (o :: outs) a = (if sel a o then explicitValueD o else 0) + feeSum outs a := by
  unfold feeSum feeOutputs
  rw [List.filter_cons]
  show (List.map explicitValueD (if sel a o = true then o :: _ else _)).sum = _
  cases sel a o <;> simp

theorem feeSum_append (xs ys : List TxOut) (a : Bytes) : feeSum (xs ++ ys) a = feeSum xs a + feeSum ys a := by
  induction xs with
  | nil => simp [feeSum_nil]
  | cons o xs ih => rw [List.cons_append, feeSum_cons, feeSum_cons, ih]; omega

theorem feeSum_perm {xs ys : List TxOut} (h : xs.Perm ys) (a : Bytes) : feeSum xs a = feeSum ys a := by
  induction h with
  | nil => rfl
  | cons o _ ih => rw [feeSum_cons, feeSum_cons, ih]
  | swap x y l => rw [feeSum_cons, feeSum_cons, feeSum_cons, feeSum_cons]; omega
  | trans _ _ ih1 ih2 => rw [ih1, ih2]

theorem addU64_checked (a b : Nat) :
    addU64 true a b = if a + b < 2^64 then .ok (a + b) else .panic feeOverflowSite := by
  unfold addU64
  by_cases h : a + b < 2^64
  · have h' : ¬ (2^64 ≤ a + b) := by omega
    simp [h, h', Nat.mod_eq_of_lt h]
  · have h' : 2^64 ≤ a + b := by omega
    simp [h, h']

theorem addU64_wrapping (a b : Nat) : addU64 false a b = .ok ((a + b) % 2^64) := by
  simp [addU64]

/-- closed form of the `fee_in` fold under overflow checks -/
theorem feeInLoop_checked (asset : Bytes) (outs : List TxOut) (acc : Nat) (hacc : acc < 2^64) :
    feeInLoop true asset outs acc =
      if acc + feeSum outs asset < 2^64 then .ok (acc + feeSum outs asset) else .panic feeOverflowSite := by
  induction outs generalizing acc with
  | nil => simp [feeInLoop, feeSum_nil, hacc]
  | cons o outs ih =>
    rw [feeInLoop, feeInSelect_eq, feeSum_cons]
    cases hs : sel asset o with
    | false => simp only [Bool.false_eq_true, if_false, Nat.zero_add]; exact ih acc hacc
    | true =>
      have hf : isFee o = true := by unfold sel at hs; rw [Bool.and_eq_true] at hs; exact hs.1
      obtain ⟨_, ⟨v, hv⟩, _⟩ := (isFee_iff o).mp hf
      have hev : explicitValueD o = v := by simp [explicitValueD, hv, valueExplicit]
      simp only [hv, valueExplicit, if_true, hev, addU64_checked]
      by_cases h1 : acc + v < 2^64
      · simp only [h1, if_true]
        rw [ih (acc + v) h1]
        simp only [Nat.add_assoc]
      · have h2 : ¬ (acc + (v + feeSum outs asset) < 2^64) := by omega
        simp only [h1, h2, if_false]

/-- closed form of the `fee_in` fold without overflow checks (wrapping `u64`) -/
theorem feeInLoop_wrapping (asset : Bytes) (outs : List TxOut) (acc : Nat) (hacc : acc < 2^64) :
    feeInLoop false asset outs acc = .ok ((acc + feeSum outs asset) % 2^64) := by
  induction outs generalizing acc with
  | nil => simp [feeInLoop, feeSum_nil, Nat.mod_eq_of_lt hacc]
  | cons o outs ih =>
    rw [feeInLoop, feeInSelect_eq, feeSum_cons]
    cases hs : sel asset o with
    | false => simp only [Bool.false_eq_true, if_false, Nat.zero_add]; exact ih acc hacc
    | true =>
      have hf : isFee o = true := by unfold sel at hs; rw [Bool.and_eq_true] at hs; exact hs.1
      obtain ⟨_, ⟨v, hv⟩, _⟩ := (isFee_iff o).mp hf
      have hev : explicitValueD o = v := by simp [explicitValueD, hv, valueExplicit]
      simp only [hv, valueExplicit, if_true, hev, addU64_wrapping]
      rw [ih _ (Nat.mod_lt _ (by decide))]
      congr 1
      rw [Nat.add_mod, Nat.mod_mod, ← Nat.add_mod, Nat.add_assoc]

/-! #### the fee map -/

theorem feeMapGet_nil (a : Bytes) : feeMapGet [] a = 0 := rfl

theorem feeMapGet_cons (k : Bytes) (x : Nat) (m : FeeMap) (a : Bytes) :
    feeMapGet ((k, x) :: m) a = if a = k then x else feeMapGet m a := by
  unfold feeMapGet
  rw [List.lookup_cons]
  by_cases h : a = k
  · subst h; simp
  · have : (a == k) = false := by simpa using h
    simp [this, h]

/-- keys of the map -/
def keys (m : FeeMap) : List Bytes := m.map Prod.fst

/-- one `entry(k).or_insert(0) += v` under overflow checks -/
theorem feeMapAdd_checked (m : FeeMap) (k : Bytes) (v : Nat) :
    (feeMapGet m k + v < 2^64 →
      ∃ m', feeMapAdd true m k v = .ok m' ∧
        (∀ a, feeMapGet m' a = if a = k then feeMapGet m k + v else feeMapGet m a) ∧
        (∀ a, a ∈ keys m' ↔ a ∈ keys m ∨ a = k) ∧ ((keys m).Nodup → (keys m').Nodup)) ∧
    (2^64 ≤ feeMapGet m k + v → feeMapAdd true m k v = .panic feeOverflowSite) := by
  induction m with
  | nil =>
    constructor
    · intro h
      rw [feeMapGet_nil, Nat.zero_add] at h
      refine ⟨[(k, v)], ?_, ?_, ?_, ?_⟩
      · simp [feeMapAdd, addU64_checked, h]
      · intro a; rw [feeMapGet_cons, feeMapGet_nil, feeMapGet_nil]; simp
      · intro a; simp [keys]
      · intro _; simp [keys]
    · intro h
      rw [feeMapGet_nil, Nat.zero_add] at h
      have : ¬ (v < 2^64) := by omega
      simp [feeMapAdd, addU64_checked, this]
  | cons kx rest ih =>
    obtain ⟨k', x⟩ := kx
    by_cases hk : k' = k
    · subst hk
      constructor
      · intro h
        rw [feeMapGet_cons, if_pos rfl] at h
        refine ⟨(k', x + v) :: rest, ?_, ?_, ?_, ?_⟩
        · simp [feeMapAdd, addU64_checked, h]
        · intro a
          rw [feeMapGet_cons, feeMapGet_cons, feeMapGet_cons]
          by_cases ha : a = k' <;> simp [ha]
        · intro a; simp only [keys, List.map_cons, List.mem_cons]; constructor
          · intro h; exact Or.inl h
          · rintro (h | h)
            · exact h
            · exact Or.inl h
        · intro h; simpa [keys] using h
      · intro h
        rw [feeMapGet_cons, if_pos rfl] at h
        have : ¬ (x + v < 2^64) := by omega
        simp [feeMapAdd, addU64_checked, this]
    · have hk' : ¬ (k = k') := fun e => hk e.symm
      constructor
      · intro h
        rw [feeMapGet_cons, if_neg hk'] at h
        obtain ⟨r', e, hget, hkeys, hnd⟩ := ih.1 h
        refine ⟨(k', x) :: r', ?_, ?_, ?_, ?_⟩
        · simp [feeMapAdd, hk, e]
        · intro a
          rw [feeMapGet_cons, feeMapGet_cons, feeMapGet_cons, hget a, if_neg hk']
          by_cases ha : a = k'
          · have : ¬ (a = k) := fun e => hk (ha ▸ e)
            simp [ha, hk]
          · simp [ha]
        · intro a
          simp only [keys, List.map_cons, List.mem_cons] at hkeys ⊢
          rw [hkeys a]; constructor
          · rintro (h | h | h)
            · exact Or.inl (Or.inl h)
            · exact Or.inl (Or.inr h)
            · exact Or.inr h
          · rintro ((h | h) | h)
            · exact Or.inl h
            · exact Or.inr (Or.inl h)
            · exact Or.inr (Or.inr h)
        · intro hn
          simp only [keys, List.map_cons, List.nodup_cons] at hn ⊢
          refine ⟨?_, hnd hn.2⟩
          intro hmem
          have := (hkeys k').mp hmem
          rcases this with h | h
          · exact hn.1 h
          · exact hk h
      · intro h
        rw [feeMapGet_cons, if_neg hk'] at h
        simp [feeMapAdd, hk, ih.2 h]

/-- the fee outputs' assets -/
def feeAsset (outs : List TxOut) (a : Bytes) : Prop := ∃ o ∈ outs, isFee o = true ∧ o.asset = .explicit a

theorem feeAsset_cons_not_fee (o : TxOut) (outs : List TxOut) (a : Bytes) (hf : isFee o = false) :
    feeAsset (o :: outs) a ↔ feeAsset outs a := by
  unfold feeAsset
  constructor
  · rintro ⟨o', ho', h1, h2⟩
    rcases List.mem_cons.mp ho' with e | e
    · subst e; rw [hf] at h1; cases h1
    · exact ⟨o', e, h1, h2⟩
  · rintro ⟨o', ho', h1, h2⟩
    exact ⟨o', List.mem_cons_of_mem _ ho', h1, h2⟩

theorem feeAsset_cons_fee (o : TxOut) (outs : List TxOut) (a k : Bytes) (hf : isFee o = true)
    (hk : o.asset = .explicit k) : feeAsset (o :: outs) a ↔ a = k ∨ feeAsset outs a := by
  unfold feeAsset
  constructor
  · rintro ⟨o', ho', h1, h2⟩
    rcases List.mem_cons.mp ho' with e | e
    · subst e; rw [hk] at h2; left; injection h2 with h2; exact h2.symm
    · exact Or.inr ⟨o', e, h1, h2⟩
  · rintro (e | ⟨o', ho', h1, h2⟩)
    · exact ⟨o, List.mem_cons_self, hf, by rw [hk, e]⟩
    · exact ⟨o', List.mem_cons_of_mem _ ho', h1, h2⟩

/-- closed form of the `all_fees` loop under overflow checks -/
theorem allFeesLoop_checked (outs : List TxOut) (m : FeeMap) (hm : ∀ a, feeMapGet m a < 2^64) :
    ((∀ a, feeMapGet m a + feeSum outs a < 2^64) →
      ∃ m', allFeesLoop true outs m = .ok m' ∧ (∀ a, feeMapGet m' a = feeMapGet m a + feeSum outs a) ∧
        (∀ a, a ∈ keys m' ↔ a ∈ keys m ∨ feeAsset outs a) ∧ ((keys m).Nodup → (keys m').Nodup)) ∧
    ((∃ a, 2^64 ≤ feeMapGet m a + feeSum outs a) → allFeesLoop true outs m = .panic feeOverflowSite) := by
  induction outs generalizing m with
  | nil =>
    constructor
    · intro _
      exact ⟨m, rfl, fun a => by simp [feeSum_nil], fun a => by simp [feeAsset], fun h => h⟩
    · rintro ⟨a, h⟩
      have := hm a
      rw [feeSum_nil] at h; omega
  | cons o outs ih =>
    rw [allFeesLoop]
    cases hf : isFee o with
    | false =>
      have hfs : ∀ a, feeSum (o :: outs) a = feeSum outs a := by
        intro a; rw [feeSum_cons]; simp [sel, hf]
      simp only [Bool.false_eq_true, if_false]
      obtain ⟨ih1, ih2⟩ := ih m hm
      constructor
      · intro h
        obtain ⟨m', e, hg, hk, hn⟩ := ih1 (fun a => by rw [← hfs]; exact h a)
        refine ⟨m', e, fun a => by rw [hg, hfs], ?_, hn⟩
        intro a; rw [hk a, feeAsset_cons_not_fee o outs a hf]
      · rintro ⟨a, h⟩; exact ih2 ⟨a, by rw [← hfs]; exact h⟩
    | true =>
      obtain ⟨_, ⟨v, hv⟩, ⟨k, hk⟩⟩ := (isFee_iff o).mp hf
      have hfs : ∀ a, feeSum (o :: outs) a = (if a = k then v else 0) + feeSum outs a := by
        intro a; rw [feeSum_cons]
        have e1 : explicitValueD o = v := by simp [explicitValueD, hv, valueExplicit]
        by_cases h : a = k
        · subst h; simp [sel, hf, hk, e1]
        · have : ¬ (Asset.explicit k = Asset.explicit a) := fun e => h (by injection e with e; exact e.symm)
          simp [sel, hf, hk, this, h]
      simp only [if_true, hk, hv, assetExplicit, valueExplicit]
      by_cases hadd : feeMapGet m k + v < 2^64
      · obtain ⟨m1, e1, hget, hkeys, hnd⟩ := (feeMapAdd_checked m k v).1 hadd
        simp only [e1]
        have hm1 : ∀ a, feeMapGet m1 a < 2^64 := by
          intro a; rw [hget a]; by_cases h : a = k
          · simp [h, hadd]
          · simp [h, hm a]
        have htot : ∀ a, feeMapGet m1 a + feeSum outs a = feeMapGet m a + feeSum (o :: outs) a := by
          intro a; rw [hget a, hfs a]; by_cases h : a = k
          · subst h; simp; omega
          · simp [h]
        obtain ⟨ih1, ih2⟩ := ih m1 hm1
        constructor
        · intro h
          obtain ⟨m', e, hg, hk', hn⟩ := ih1 (fun a => by rw [htot]; exact h a)
          refine ⟨m', e, fun a => by rw [hg, htot], ?_, fun hh => hn (hnd hh)⟩
          intro a
          rw [hk' a, hkeys a, feeAsset_cons_fee o outs a k hf hk]
          constructor
          · rintro ((h | h) | h)
            · exact Or.inl h
            · exact Or.inr (Or.inl h)
            · exact Or.inr (Or.inr h)
          · rintro (h | h | h)
            · exact Or.inl (Or.inl h)
            · exact Or.inl (Or.inr h)
            · exact Or.inr h
        · rintro ⟨a, h⟩; exact ih2 ⟨a, by rw [htot]; exact h⟩
      · have hp := (feeMapAdd_checked m k v).2 (by omega)
        simp only [hp]
        constructor
        · intro h
          have := h k
          rw [hfs k] at this
          simp at this; omega
        · intro _; trivial

/-- one `entry(k).or_insert(0) += v` without overflow checks -/
theorem feeMapAdd_wrapping (m : FeeMap) (k : Bytes) (v : Nat) :
    ∃ m', feeMapAdd false m k v = .ok m' ∧
      (∀ a, feeMapGet m' a = if a = k then (feeMapGet m k + v) % 2^64 else feeMapGet m a) ∧
      (∀ a, a ∈ keys m' ↔ a ∈ keys m ∨ a = k) ∧ ((keys m).Nodup → (keys m').Nodup) := by
  induction m with
  | nil =>
    refine ⟨[(k, v % 2^64)], ?_, ?_, ?_, ?_⟩
    · simp [feeMapAdd, addU64_wrapping]
    · intro a; rw [feeMapGet_cons, feeMapGet_nil, feeMapGet_nil]; simp
    · intro a; simp [keys]
    · intro _; simp [keys]
  | cons kx rest ih =>
    obtain ⟨k', x⟩ := kx
    by_cases hk : k' = k
    · subst hk
      refine ⟨(k', (x + v) % 2^64) :: rest, ?_, ?_, ?_, ?_⟩
      · simp [feeMapAdd, addU64_wrapping]
      · intro a
        rw [feeMapGet_cons, feeMapGet_cons, feeMapGet_cons]
        by_cases ha : a = k' <;> simp [ha]
      · intro a; simp only [keys, List.map_cons, List.mem_cons]; constructor
        · intro h; exact Or.inl h
        · rintro (h | h)
          · exact h
          · exact Or.inl h
      · intro h; simpa [keys] using h
    · have hk' : ¬ (k = k') := fun e => hk e.symm
      obtain ⟨r', e, hget, hkeys, hnd⟩ := ih
      refine ⟨(k', x) :: r', ?_, ?_, ?_, ?_⟩
      · simp [feeMapAdd, hk, e]
      · intro a
        rw [feeMapGet_cons, feeMapGet_cons, feeMapGet_cons, hget a, if_neg hk']
        by_cases ha : a = k'
        · have : ¬ (a = k) := fun e => hk (ha ▸ e)
          simp [ha, hk]
        · simp [ha]
      · intro a
        simp only [keys, List.map_cons, List.mem_cons] at hkeys ⊢
        rw [hkeys a]; constructor
        · rintro (h | h | h)
          · exact Or.inl (Or.inl h)
          · exact Or.inl (Or.inr h)
          · exact Or.inr h
        · rintro ((h | h) | h)
          · exact Or.inl h
          · exact Or.inr (Or.inl h)
          · exact Or.inr (Or.inr h)
      · intro hn
        simp only [keys, List.map_cons, List.nodup_cons] at hn ⊢
        refine ⟨?_, hnd hn.2⟩
        intro hmem
        rcases (hkeys k').mp hmem with h | h
        · exact hn.1 h
        · exact hk h

/-- closed form of the `all_fees` loop without overflow checks: every entry is its sum modulo 2^64 -/
theorem allFeesLoop_wrapping (outs : List TxOut) (m : FeeMap) (hm : ∀ a, feeMapGet m a < 2^64) :
    ∃ m', allFeesLoop false outs m = .ok m' ∧ (∀ a, feeMapGet m' a = (feeMapGet m a + feeSum outs a) % 2^64) ∧
      (∀ a, a ∈ keys m' ↔ a ∈ keys m ∨ feeAsset outs a) ∧ ((keys m).Nodup → (keys m').Nodup) := by
  induction outs generalizing m with
  | nil =>
    exact ⟨m, rfl, fun a => by simp [feeSum_nil, Nat.mod_eq_of_lt (hm a)], fun a => by simp [feeAsset], fun h => h⟩
  | cons o outs ih =>
    rw [allFeesLoop]
    cases hf : isFee o with
    | false =>
      have hfs : ∀ a, feeSum (o :: outs) a = feeSum outs a := by
        intro a; rw [feeSum_cons]; simp [sel, hf]
      simp only [Bool.false_eq_true, if_false]
      obtain ⟨m', e, hg, hk, hn⟩ := ih m hm
      refine ⟨m', e, fun a => by rw [hg, hfs], ?_, hn⟩
      intro a; rw [hk a, feeAsset_cons_not_fee o outs a hf]
    | true =>
      obtain ⟨_, ⟨v, hv⟩, ⟨k, hk⟩⟩ := (isFee_iff o).mp hf
      have hfs : ∀ a, feeSum (o :: outs) a = (if a = k then v else 0) + feeSum outs a := by
        intro a; rw [feeSum_cons]
        have e1 : explicitValueD o = v := by simp [explicitValueD, hv, valueExplicit]
        by_cases h : a = k
        · subst h; simp [sel, hf, hk, e1]
        · have : ¬ (Asset.explicit k = Asset.explicit a) := fun e => h (by injection e with e; exact e.symm)
          simp [sel, hf, hk, this, h]
      simp only [if_true, hk, hv, assetExplicit, valueExplicit]
      obtain ⟨m1, e1, hget, hkeys, hnd⟩ := feeMapAdd_wrapping m k v
      simp only [e1]
      have hm1 : ∀ a, feeMapGet m1 a < 2^64 := by
        intro a; rw [hget a]; by_cases h : a = k
        · simp only [h, if_true]; exact Nat.mod_lt _ (by decide)
        · simp [h, hm a]
      obtain ⟨m', e, hg, hk', hn⟩ := ih m1 hm1
      refine ⟨m', e, ?_, ?_, fun hh => hn (hnd hh)⟩
      · intro a
        rw [hg a, hget a, hfs a]
        by_cases h : a = k
        · subst h
          simp only [if_true]
          rw [Nat.add_mod, Nat.mod_mod, ← Nat.add_mod, Nat.add_assoc]
        · simp [h]
      · intro a
        rw [hk' a, hkeys a, feeAsset_cons_fee o outs a k hf hk]
        constructor
        · rintro ((h | h) | h)
          · exact Or.inl h
          · exact Or.inr (Or.inl h)
          · exact Or.inr (Or.inr h)
        · rintro (h | h | h)
          · exact Or.inl (Or.inl h)
          · exact Or.inl (Or.inr h)
          · exact Or.inr h

/-! ### the two instruction iterators agree -/

def errOfScript : Script.IErr → String
  | .earlyEnd => "EarlyEndOfScript"
  | .nonMinimal => "NonMinimalPush"

def stepOfScript : Script.Step → Acc.Step
  | .done => .done
  | .fail e => .error (errOfScript e)
  | .item i rest => .item (instrOfScript i) rest

/-- normal form of one PUSHDATA instruction -/
def pushDataNF (m : Bool) (w minLen : Nat) (minFirst : Bool) (tl : Bytes) : Acc.Step :=
  if tl.length < w then .error "EarlyEndOfScript" else
  if minFirst = true ∧ m = true ∧ leNat (tl.take w) < minLen then .error "NonMinimalPush"
  else if tl.length + 1 < leNat (tl.take w) + (w + 1) then .error "EarlyEndOfScript"
  else if m = true ∧ leNat (tl.take w) < minLen then .error "NonMinimalPush"
  else .item (.push ((tl.drop w).take (leNat (tl.take w)))) (tl.drop (w + leNat (tl.take w)))

theorem pushData_nf (m : Bool) (w minLen : Nat) (minFirst : Bool) (b : UInt8) (tl : Bytes) :
    pushData m w minLen minFirst (b :: tl) = pushDataNF m w minLen minFirst tl := by
  unfold pushData pushDataNF
  by_cases h0 : tl.length < w
  · have : (b :: tl).length < w + 1 := by simp; omega
    simp [h0]
  · have h0' : ¬ ((b :: tl).length < w + 1) := by simp; omega
    rw [if_neg h0', if_neg h0, EV.Proofs.Accessors.sliceFrom_ok _ 1 _ (by simp)]
    simp only [List.drop_succ_cons, List.drop_zero, readUint, if_neg h0]
    by_cases h1 : minFirst = true ∧ m = true ∧ leNat (tl.take w) < minLen
    · simp [h1]
    · rw [if_neg h1, if_neg h1]
      by_cases h2 : tl.length + 1 < leNat (tl.take w) + (w + 1)
      · have : (b :: tl).length < leNat (tl.take w) + (w + 1) := by simpa using h2
        simp [h2]
      · have h2' : ¬ ((b :: tl).length < leNat (tl.take w) + (w + 1)) := by simpa using h2
        rw [if_neg h2', if_neg h2]
        by_cases h3 : m = true ∧ leNat (tl.take w) < minLen
        · simp [h3]
        · rw [if_neg h3, if_neg h3, EV.Proofs.Accessors.pushItem_eq _ _ _ (by omega) (by simp at h2' ⊢; omega)]
          have e1 : leNat (tl.take w) + (w + 1) = (w + leNat (tl.take w)) + 1 := by omega
          have e2 : leNat (tl.take w) + (w + 1) - (w + 1) = leNat (tl.take w) := by omega
          rw [e2, e1, List.drop_succ_cons, List.drop_succ_cons]

theorem readUint_script (tl : Bytes) (w : Nat) (hw : w ≤ 8) :
    Script.readUint tl w = if tl.length < w then .err "EarlyEndOfScript" else .ok (leNat (tl.take w)) := by
  unfold Script.readUint
  have : ¬ (w > 8) := by omega
  by_cases h : tl.length < w <;> simp [h, this]

theorem smallNum_eq (t : UInt8) :
    (t == 0x81 || (decide (t.toNat > 0) && decide (t.toNat ≤ 16))) = Script.smallNumByte t := by
  unfold Script.smallNumByte
  simp [UInt8.lt_iff_toNat_lt, UInt8.le_iff_toNat_le]

theorem next_pd1 (m : Bool) (tl : Bytes) :
    stepOfScript (Script.next m (opPushdata1 :: tl)) = pushDataNF m 1 76 false tl := by
  have h1 : ¬ (opPushdata1 ≤ opPushbytes75) := by decide
  unfold Script.next pushDataNF
  simp only [h1, if_false, beq_self_eq_true, if_true, readUint_script tl 1 (by omega)]
  by_cases h0 : tl.length < 1
  · have : (opPushdata1 :: tl).length < 2 := by simp; omega
    simp [h0, stepOfScript, errOfScript]
  · have h0' : ¬ ((opPushdata1 :: tl).length < 2) := by simp; omega
    simp only [h0, h0', if_false]
    by_cases h2 : tl.length + 1 < leNat (tl.take 1) + (1 + 1)
    · have : (opPushdata1 :: tl).length < leNat (tl.take 1) + 2 := by simpa using h2
      simp [h2, stepOfScript, errOfScript]
    · have h2' : ¬ ((opPushdata1 :: tl).length < leNat (tl.take 1) + 2) := by simpa using h2
      simp only [h2, h2', if_false]
      cases m <;> by_cases h3 : leNat (tl.take 1) < 76 <;>
        simp [h3, stepOfScript, errOfScript, instrOfScript, Nat.add_comm]

theorem next_pd2 (m : Bool) (tl : Bytes) :
    stepOfScript (Script.next m (opPushdata2 :: tl)) = pushDataNF m 2 0x100 true tl := by
  have h1 : ¬ (opPushdata2 ≤ opPushbytes75) := by decide
  have h1' : (opPushdata2 == opPushdata1) = false := by decide
  unfold Script.next pushDataNF
  simp only [h1, h1', if_false, beq_self_eq_true, if_true, readUint_script tl 2 (by omega), Bool.false_eq_true]
  by_cases h0 : tl.length < 2
  · have : (opPushdata2 :: tl).length < 3 := by simp; omega
    simp [h0, stepOfScript, errOfScript]
  · have h0' : ¬ ((opPushdata2 :: tl).length < 3) := by simp; omega
    simp only [h0, h0', if_false]
    cases m <;> by_cases h3 : leNat (tl.take 2) < 0x100 <;>
      by_cases h2 : tl.length + 1 < leNat (tl.take 2) + (2 + 1) <;>
      simp [h3, h2, stepOfScript, errOfScript, instrOfScript, Nat.add_comm] <;> omega

theorem next_pd4 (m : Bool) (tl : Bytes) :
    stepOfScript (Script.next m (opPushdata4 :: tl)) = pushDataNF m 4 0x10000 true tl := by
  have h1 : ¬ (opPushdata4 ≤ opPushbytes75) := by decide
  have h1' : (opPushdata4 == opPushdata1) = false := by decide
  have h1'' : (opPushdata4 == opPushdata2) = false := by decide
  unfold Script.next pushDataNF
  simp only [h1, h1', h1'', if_false, beq_self_eq_true, if_true, readUint_script tl 4 (by omega), Bool.false_eq_true]
  by_cases h0 : tl.length < 4
  · have : (opPushdata4 :: tl).length < 5 := by simp; omega
    simp [h0, stepOfScript, errOfScript]
  · have h0' : ¬ ((opPushdata4 :: tl).length < 5) := by simp; omega
    simp only [h0, h0', if_false]
    cases m <;> by_cases h3 : leNat (tl.take 4) < 0x10000 <;>
      by_cases h2 : tl.length + 1 < leNat (tl.take 4) + (4 + 1) <;>
      simp [h3, h2, stepOfScript, errOfScript, instrOfScript, Nat.add_comm] <;> omega

/-- BRIDGE: the iterator model of C10 (`EV.Acc.step`, bounds checks explicit) and the one of C16
    (`EV.Script.next`) are the same function -/
theorem step_eq_next (m : Bool) (d : Bytes) : Acc.step m d = stepOfScript (Script.next m d) := by
  cases d with
  | nil => rfl
  | cons b tl =>
    have e75 : opPushbytes75.toNat = 75 := by decide
    by_cases c0 : b ≤ opPushbytes75
    · have hb : b.toNat ≤ 0x4b := by have := UInt8.le_iff_toNat_le.mp c0; omega
      unfold Acc.step Script.next
      simp only [hb, c0, if_true]
      by_cases hl : (b :: tl).length < b.toNat + 1
      · rw [if_pos hl, if_pos hl]; rfl
      · rw [if_neg hl, if_neg hl]
        have hl' : b.toNat ≤ tl.length := by simp at hl; omega
        have hpush : pushItem (b :: tl) 1 (b.toNat + 1) = .item (.push (tl.take b.toNat)) (tl.drop b.toNat) := by
          rw [EV.Proofs.Accessors.pushItem_eq _ _ _ (by omega) (by simp; omega)]
          simp
        cases m with
        | false => simp [hpush, stepOfScript, instrOfScript]
        | true =>
          simp only [if_true, Bool.true_and]
          unfold directPushNonMinimal
          by_cases hn : b.toNat = 1
          · cases tl with
            | nil => simp at hl'; omega
            | cons t0 tl' =>
              have hi : idx (b :: t0 :: tl') 1 "script.rs Instructions::next self.data[1]" = .ok t0 := by
                simp [idx]
              simp only [hn, if_true, hi, smallNum_eq, List.getD_cons_zero, beq_self_eq_true, Bool.true_and]
              cases hs : Script.smallNumByte t0 with
              | true => simp [stepOfScript, errOfScript]
              | false =>
                rw [hn] at hpush
                simp [hpush, stepOfScript, instrOfScript]
          · have : (b.toNat == 1) = false := by simpa using hn
            simp [hn, this, hpush, stepOfScript, instrOfScript]
    · have hb : ¬ (b.toNat ≤ 0x4b) := by
        intro h; apply c0; apply UInt8.le_iff_toNat_le.mpr; omega
      by_cases c1 : b = opPushdata1
      · subst c1
        rw [next_pd1, ← pushData_nf m 1 76 false opPushdata1 tl]
        simp [Acc.step, opPushdata1]
      · by_cases c2 : b = opPushdata2
        · subst c2
          rw [next_pd2, ← pushData_nf m 2 0x100 true opPushdata2 tl]
          simp [Acc.step, opPushdata2]
        · by_cases c4 : b = opPushdata4
          · subst c4
            rw [next_pd4, ← pushData_nf m 4 0x10000 true opPushdata4 tl]
            simp [Acc.step, opPushdata4]
          · unfold Acc.step Script.next
            have d1 : ¬ (b = (0x4c : UInt8)) := c1
            have d2 : ¬ (b = (0x4d : UInt8)) := c2
            have d4 : ¬ (b = (0x4e : UInt8)) := c4
            have f1 : (b == opPushdata1) = false := by simpa using c1
            have f2 : (b == opPushdata2) = false := by simpa using c2
            have f4 : (b == opPushdata4) = false := by simpa using c4
            simp only [hb, c0, d1, d2, d4, f1, f2, f4, if_false, Bool.false_eq_true]
            rw [EV.Proofs.Accessors.sliceFrom_ok _ 1 _ (by simp)]
            simp [stepOfScript, instrOfScript]

def pairOfScript (r : List Script.Instr × Option Script.IErr) : List Acc.Instr × Option String :=
  (r.1.map instrOfScript, r.2.map errOfScript)

theorem collect_eq (m : Bool) : ∀ (f : Nat) (d : Bytes), d.length ≤ f →
    Acc.collect m (f + 1) d = .ok (pairOfScript (Script.collect m f d)) := by
  intro f
  induction f with
  | zero =>
    intro d hd
    have : d = [] := List.length_eq_zero_iff.mp (by omega)
    subst this
    simp [Acc.collect, Acc.step, Script.collect, pairOfScript]
  | succ f ih =>
    intro d hd
    rw [Acc.collect, Script.collect]
    have hs := step_eq_next m d
    cases hn : Script.next m d with
    | done => rw [hs, hn]; simp [stepOfScript, pairOfScript]
    | fail e => rw [hs, hn]; simp [stepOfScript, pairOfScript]
    | item i rest =>
      rw [hn] at hs
      have hlt : rest.length < d.length := (EV.Proofs.Accessors.step_spec m d).2 _ _ hs
      rw [hs]
      simp only [stepOfScript]
      rw [ih rest (by omega)]
      simp [pairOfScript]

/-- BRIDGE: `script.instructions()` of the C10 accessor model is the C16 iterator run to the end -/
theorem instructions_eq (m : Bool) (s : Bytes) :
    Acc.instructions m s = .ok (pairOfScript (Script.collect m s.length s)) :=
  collect_eq m s.length s (Nat.le_refl _)

/-! ### pegout -/

/-- the template on the level of the accessor model's instructions -/
def accPegoutInstrs (g spk : Bytes) (extra : List Bytes) : List Acc.Instr :=
  .op 0x6a :: .push g :: .push spk :: extra.map .push

theorem map_pegoutInstrs (g spk : Bytes) (ex : List Bytes) :
    (pegoutInstrs g spk ex).map instrOfScript = accPegoutInstrs g spk ex := by
  simp only [pegoutInstrs, accPegoutInstrs, List.map_cons, instrOfScript, List.map_map]
  congr 3

theorem instrOfScript_injective : ∀ {a b : Script.Instr}, instrOfScript a = instrOfScript b → a = b := by
  intro a b h
  cases a <;> cases b <;> simp [instrOfScript] at h ⊢ <;> exact h

theorem map_instrOfScript_injective : ∀ {xs ys : List Script.Instr},
    xs.map instrOfScript = ys.map instrOfScript → xs = ys := by
  intro xs
  induction xs with
  | nil => intro ys h; cases ys <;> simp at h ⊢
  | cons x xs ih =>
    intro ys h
    cases ys with
    | nil => simp at h
    | cons y ys =>
      simp only [List.map_cons, List.cons.injEq] at h
      rw [instrOfScript_injective h.1, ih h.2]

theorem nullDataTail_pushes (ex : List Bytes) : nullDataTail (ex.map Acc.Instr.push) = true := by
  induction ex with
  | nil => rfl
  | cons e ex ih => simpa [nullDataTail] using ih

theorem allPushes_pushes (ex : List Bytes) : allPushes (ex.map Acc.Instr.push) = some ex := by
  induction ex with
  | nil => rfl
  | cons e ex ih => simp [allPushes, ih]

theorem allPushes_some : ∀ {l : List Acc.Instr} {ex : List Bytes}, allPushes l = some ex → l = ex.map Acc.Instr.push := by
  intro l
  induction l with
  | nil => intro ex h; simp [allPushes] at h; subst h; rfl
  | cons i l ih =>
    intro ex h
    cases i with
    | op b => simp [allPushes] at h
    | push d =>
      simp only [allPushes, Option.map_eq_some_iff] at h
      obtain ⟨ex', h1, h2⟩ := h
      subst h2
      rw [ih h1]; rfl

theorem nullDataTail_of_allPushes {l : List Acc.Instr} {ex : List Bytes} (h : allPushes l = some ex) :
    nullDataTail l = true := by rw [allPushes_some h]; exact nullDataTail_pushes ex

/-- EXACT CLASS of `TxOut::pegout_data`: it returns `Some(d)` exactly for the outputs with an explicit value
    whose script the iterator reads, without error, as `OP_RETURN`, a 32-byte push, a non-empty push and
    then data pushes only; and `d` consists of exactly those components -/
theorem pegoutData_iff (o : TxOut) (d : PegoutData) :
    pegoutData o = .ok (some d) ↔
      o.value = .explicit d.value ∧ d.asset = o.asset ∧ d.genesisHash.length = 32 ∧ d.scriptPubkey ≠ [] ∧
      Acc.instructions false o.scriptPubkey =
        .ok (accPegoutInstrs d.genesisHash d.scriptPubkey d.extraData, none) := by
  constructor
  · intro h
    unfold pegoutData isNullData at h
    cases hins : Acc.instructions false o.scriptPubkey with
    | panic s => rw [hins] at h; simp at h
    | err e => rw [hins] at h; simp at h
    | ok r =>
      obtain ⟨is, e⟩ := r
      rw [hins] at h
      simp only at h
      match is, h with
      | [], h => simp at h
      | .push _ :: _, h => simp at h
      | .op b :: rest, h =>
        simp only at h
        by_cases hb : b = Acc.opReturn
        · simp only [hb, if_true] at h
          cases hnd : (nullDataTail rest && e.isNone) with
          | false => rw [hnd] at h; simp at h
          | true =>
            rw [hnd] at h
            cases hv : o.value with
            | null => rw [hv] at h; simp at h
            | conf c => rw [hv] at h; simp at h
            | explicit v =>
              rw [hv] at h
              simp only at h
              match rest, h with
              | [], h => simp at h
              | [_], h => simp at h
              | .op _ :: _ :: _, h => simp at h
              | .push _ :: .op _ :: _, h => simp at h
              | .push g :: .push spk :: rest', h =>
                simp only at h
                by_cases hg : g.length ≠ 32
                · simp [hg] at h
                · by_cases hs : spk.isEmpty = true
                  · simp [hg, hs] at h
                  · simp only [hg, hs, if_false, Bool.false_eq_true] at h
                    cases hap : allPushes rest' with
                    | none => rw [hap] at h; simp at h
                    | some ex =>
                      cases e with
                      | some e' => rw [hap] at h; simp at h
                      | none =>
                        rw [hap] at h
                        simp only [Res.ok.injEq, Option.some.injEq] at h
                        subst h
                        refine ⟨rfl, rfl, by simpa using hg, ?_, ?_⟩
                        · intro hh; apply hs; simp only at hh; simp [hh]
                        · rw [allPushes_some hap, hb]; rfl
        · simp [hb] at h
  · rintro ⟨hv, ha, hg, hs, hins⟩
    unfold pegoutData isNullData
    rw [hins]
    have hs' : d.scriptPubkey.isEmpty = false := by
      cases hd : d.scriptPubkey with
      | nil => exact absurd hd hs
      | cons _ _ => rfl
    simp [accPegoutInstrs, Acc.opReturn, nullDataTail, nullDataTail_pushes, hv, hg, hs', allPushes_pushes, ← ha]

/-- guard of the template theorems: pushes below 4 GiB (`push_slice` panics beyond) -/
def PegoutArgsOk (g spk : Bytes) (extra : List Bytes) : Prop :=
  g.length < 2^32 ∧ spk.length < 2^32 ∧ ∀ e ∈ extra, e.length < 2^32

theorem pegoutInstrs_wf (g spk : Bytes) (ex : List Bytes) (h : PegoutArgsOk g spk ex) :
    ∀ i ∈ pegoutInstrs g spk ex, i.wf := by
  intro i hi
  simp only [pegoutInstrs, List.mem_cons, List.mem_map] at hi
  rcases hi with rfl | rfl | rfl | ⟨e, he, rfl⟩
  · show opPushdata4 < Gen.opReturn; decide
  · exact h.1
  · exact h.2.1
  · exact h.2.2 e he

/-- the iterator reads the template script back as the template's instruction list -/
theorem instructions_pegoutScript (g spk : Bytes) (ex : List Bytes) (h : PegoutArgsOk g spk ex) :
    Acc.instructions false (pegoutScript g spk ex) = .ok (accPegoutInstrs g spk ex, none) := by
  rw [instructions_eq]
  have := EV.Proofs.ScriptIter.collect_serialize_nil false (pegoutInstrs g spk ex) (pegoutInstrs_wf g spk ex h)
    (by intro hh; cases hh) (pegoutScript g spk ex).length (Nat.le_refl _)
  unfold pegoutScript at this ⊢
  rw [this]
  simp [pairOfScript, map_pegoutInstrs]

/-- BRIDGE to the `script::Builder` model of C16: the builder calls of the template write `pegoutScript` -/
theorem build_pegout (g spk : Bytes) (ex : List Bytes) (h : PegoutArgsOk g spk ex) :
    Script.build (pegoutBuilderCalls g spk ex) = some (pegoutScript g spk ex) := by
  have hok : ∀ o ∈ pegoutBuilderCalls g spk ex, EV.Proofs.ScriptBuilder.okOp false o := by
    intro o ho
    refine ⟨?_, by intro hh; cases hh⟩
    simp only [pegoutBuilderCalls, List.mem_cons, List.mem_map] at ho
    rcases ho with rfl | rfl | rfl | ⟨e, he, rfl⟩
    · right; show opPushdata4 < Gen.opReturn; decide
    · exact h.1
    · exact h.2.1
    · exact h.2.2 e he
  have hb := (EV.Proofs.ScriptBuilder.build_eq_serialize false _ hok).1
  have hnv : ∀ o ∈ pegoutBuilderCalls g spk ex, o ≠ Script.BOp.verify := by
    intro o ho
    simp only [pegoutBuilderCalls, List.mem_cons, List.mem_map] at ho
    rcases ho with rfl | rfl | rfl | ⟨e, he, rfl⟩ <;> intro hh <;> cases hh
  have hexp : Script.expected (pegoutBuilderCalls g spk ex) = pegoutInstrs g spk ex := by
    unfold Script.expected
    rw [EV.Proofs.ScriptBuilder.run_no_verify _ _ hnv]
    have h0 : Script.instrOfOpcode Gen.opReturn = .op Gen.opReturn := by decide
    simp [pegoutBuilderCalls, pegoutInstrs, Script.instrOf, h0]
  rw [hb, hexp]; rfl

theorem isNullData_total (s : Bytes) : ∃ b, Acc.isNullData s = .ok b := by
  unfold Acc.isNullData
  rw [instructions_eq]
  simp only
  split
  · split <;> exact ⟨_, rfl⟩
  · exact ⟨_, rfl⟩

/-- `pegout_data` never panics and never errs -/
theorem pegoutData_total (o : TxOut) : ∃ r, pegoutData o = .ok r := by
  unfold pegoutData
  obtain ⟨b, hb⟩ := isNullData_total o.scriptPubkey
  rw [hb]
  cases b
  · exact ⟨_, rfl⟩
  · simp only
    rw [instructions_eq]
    simp only
    split
    · split
      · split
        · exact ⟨_, rfl⟩
        · split
          · exact ⟨_, rfl⟩
          · split <;> exact ⟨_, rfl⟩
      · exact ⟨_, rfl⟩
    · exact ⟨_, rfl⟩

/-! ### the classification lattice -/

theorem pegout_nulldata (o : TxOut) (d : PegoutData) (h : pegoutData o = .ok (some d)) :
    Acc.isNullData o.scriptPubkey = .ok true := by
  unfold pegoutData at h
  obtain ⟨b, hb⟩ := isNullData_total o.scriptPubkey
  rw [hb] at h ⊢
  cases b
  · simp at h
  · rfl

theorem isNullData_true_head {s : Bytes} (h : Acc.isNullData s = .ok true) : ∃ rest, s = Acc.opReturn :: rest := by
  unfold Acc.isNullData at h
  rw [instructions_eq] at h
  cases s with
  | nil => simp [Script.collect, pairOfScript] at h
  | cons b tl =>
    simp only [List.length_cons, Script.collect] at h
    cases hn : Script.next false (b :: tl) with
    | done => rw [hn] at h; simp [pairOfScript] at h
    | fail e => rw [hn] at h; simp [pairOfScript] at h
    | item i rest =>
      rw [hn] at h
      cases i with
      | push d => simp [pairOfScript, instrOfScript] at h
      | op c =>
        obtain ⟨e1, _⟩ := EV.Proofs.ScriptIter.next_op_shape hn
        simp only [pairOfScript, List.map_cons, instrOfScript] at h
        by_cases hc : c = Acc.opReturn
        · injection e1 with e2 e3
          exact ⟨tl, by rw [e2, hc]⟩
        · simp [hc] at h

theorem nulldata_opreturn {s : Bytes} (h : Acc.isNullData s = .ok true) : Acc.isOpReturn s = .ok true := by
  obtain ⟨rest, e⟩ := isNullData_true_head h
  subst e
  simp [Acc.isOpReturn, idx]

theorem fee_not_nulldata (o : TxOut) (h : isFee o = true) :
    Acc.isNullData o.scriptPubkey = .ok false ∧ Acc.isOpReturn o.scriptPubkey = .ok false ∧
    pegoutData o = .ok none := by
  have hs := ((isFee_iff o).mp h).1
  have h1 : Acc.isNullData o.scriptPubkey = .ok false := by rw [hs]; decide
  refine ⟨h1, by rw [hs]; decide, ?_⟩
  unfold pegoutData; rw [h1]

/-! ### pegin witness -/

theorem fromPeginWitness_iff (H : Bytes → Bytes) (w : List Bytes) (txid : Bytes) (vout : Nat) (d : PeginData) :
    fromPeginWitness H w txid vout = .ok d ↔
      peginWitnessOk w = true ∧
      d = ⟨txid, vout, leNat (w.getD 0 []), w.getD 1 [], w.getD 2 [], w.getD 3 [], w.getD 4 [], w.getD 5 [],
           H ((w.getD 5 []).take 80)⟩ := by
  by_cases hl : w.length = 6
  · match w, hl with
    | [w0, w1, w2, w3, w4, w5], _ =>
      simp only [fromPeginWitness, peginWitnessOk, idx, txaccPeginWitnessItems, txaccPeginHeaderLen,
        List.length_cons, List.length_nil, List.getD_cons_zero, List.getD_cons_succ]
      by_cases h5 : w5.length < 80
      · have : ¬ (80 ≤ w5.length) := by omega
        simp [h5, this]
      · have h5' : 80 ≤ w5.length := by omega
        by_cases h0 : w0.length = 8 <;> by_cases h1 : w1.length = 32 <;> by_cases h2 : w2.length = 32 <;>
          first
            | (simp [h5, h5', h0, h1, h2]; done)
            | (simp [h5, h5', h0, h1, h2]; exact eq_comm)
  · simp [fromPeginWitness, peginWitnessOk, hl, txaccPeginWitnessItems]

theorem fromPeginWitness_err_iff (H : Bytes → Bytes) (w : List Bytes) (txid : Bytes) (vout : Nat) :
    (∃ e, fromPeginWitness H w txid vout = .err e) ↔ peginWitnessOk w = false := by
  cases hr : fromPeginWitness H w txid vout with
  | ok d =>
    have := ((fromPeginWitness_iff H w txid vout d).mp hr).1
    simp [this]
  | panic s => exact absurd hr (EV.Proofs.Accessors.fromPeginWitness_no_panic H w txid vout s)
  | err e =>
    constructor
    · intro _
      cases hk : peginWitnessOk w with
      | false => rfl
      | true =>
        have := (fromPeginWitness_iff H w txid vout _).mpr ⟨hk, rfl⟩
        rw [hr] at this; cases this
    · intro _; exact ⟨e, rfl⟩

/-- the parsed record is well formed in the sense that `to_pegin_witness` can write it back -/
def PeginDataOk (H : Bytes → Bytes) (d : PeginData) : Prop :=
  d.value < 2^64 ∧ d.asset.length = 32 ∧ d.genesisHash.length = 32 ∧
  txaccPeginHeaderLen ≤ d.merkleProof.length ∧ d.referencedBlock = H (d.merkleProof.take txaccPeginHeaderLen)

theorem from_to_peginWitness (H : Bytes → Bytes) (d : PeginData) (h : PeginDataOk H d) :
    fromPeginWitness H (toPeginWitness d) d.outpointTxid d.outpointVout = .ok d := by
  obtain ⟨hv, ha, hg, hm, hr⟩ := h
  rw [fromPeginWitness_iff]
  constructor
  · simp [peginWitnessOk, toPeginWitness, txaccPeginWitnessItems, EV.Proofs.CodecPrim.leBytes_length, ha, hg]
    exact hm
  · cases d
    simp only [toPeginWitness, List.getD_cons_zero, List.getD_cons_succ] at *
    rw [EV.Proofs.CodecPrim.leNat_leBytes 8 _ (by omega), hr]
    rfl

theorem to_from_peginWitness (H : Bytes → Bytes) (w : List Bytes) (txid : Bytes) (vout : Nat) (d : PeginData)
    (h : fromPeginWitness H w txid vout = .ok d) : toPeginWitness d = w ∧ PeginDataOk H d := by
  obtain ⟨hk, hd⟩ := (fromPeginWitness_iff H w txid vout d).mp h
  simp only [peginWitnessOk, Bool.and_eq_true, beq_iff_eq, decide_eq_true_eq, txaccPeginWitnessItems] at hk
  obtain ⟨⟨⟨⟨hl, h5⟩, h0⟩, h1⟩, h2⟩ := hk
  match w, hl with
  | [w0, w1, w2, w3, w4, w5], _ =>
    simp only [List.getD_cons_zero, List.getD_cons_succ] at *
    subst hd
    refine ⟨?_, ?_, h1, h2, h5, rfl⟩
    · simp only [toPeginWitness]
      rw [← h0, EV.Proofs.CodecPrim.leBytes_leNat]
    · have := EV.Proofs.CodecPrim.leNat_lt w0
      rw [h0] at this
      simpa using this

theorem peginData_iff (H : Bytes → Bytes) (i : TxIn) (d : PeginData) :
    peginData H i = .ok (some d) ↔
      i.isPegin = true ∧ fromPeginWitness H i.witness.peginWitness i.previousOutput.txid i.previousOutput.vout = .ok d := by
  unfold peginData
  cases hp : i.isPegin with
  | false => simp
  | true =>
    simp only [if_true, true_and]
    cases hr : fromPeginWitness H i.witness.peginWitness i.previousOutput.txid i.previousOutput.vout with
    | ok d' => simp
    | err e => simp
    | panic s => simp

theorem peginData_total (H : Bytes → Bytes) (i : TxIn) : ∃ r, peginData H i = .ok r := by
  unfold peginData
  cases hp : i.isPegin with
  | false => exact ⟨_, rfl⟩
  | true =>
    simp only [if_true]
    cases hr : fromPeginWitness H i.witness.peginWitness i.previousOutput.txid i.previousOutput.vout with
    | ok d' => exact ⟨_, rfl⟩
    | err e => exact ⟨_, rfl⟩
    | panic s => exact absurd hr (EV.Proofs.Accessors.fromPeginWitness_no_panic H _ _ _ s)

/-! ### inputs, transactions -/

theorem outpointFlag_eq (i : TxIn) :
    outpointFlag i = (if i.isPegin then 64 else 0) + (if i.hasIssuance then 128 else 0) := by
  unfold outpointFlag
  generalize i.isPegin = p
  generalize i.hasIssuance = q
  cases p <;> cases q <;> decide

/-- BRIDGE to the encoder: the flag byte is the top byte of the serialized index word -/
theorem voutWord_eq_flag (i : TxIn) : i.voutWord = i.previousOutput.vout ||| (outpointFlag i <<< 24) := by
  rw [outpointFlag_eq]
  unfold TxIn.voutWord
  generalize i.isPegin = p
  generalize i.hasIssuance = q
  cases p <;> cases q <;> simp [Nat.or_assoc]

theorem coinbase_no_flags (P : Prims) (i : TxIn) (hw : i.wfBody P) (hc : inIsCoinbase i = true) :
    i.isPegin = false ∧ i.hasIssuance = false := by
  unfold inIsCoinbase at hc
  have e : i.previousOutput = OutPoint.null := of_decide_eq_true hc
  obtain ⟨_, hv, _⟩ := hw
  rcases hv with ⟨h, _⟩ | ⟨_, h1, h2⟩
  · rw [e] at h; simp [OutPoint.null] at h
  · exact ⟨h1, h2⟩

theorem txIsCoinbase_eq (t : Tx) :
    txIsCoinbase t = .ok (match t.input with | [i] => inIsCoinbase i | _ => false) := by
  unfold txIsCoinbase
  match t.input with
  | [] => simp
  | [i] => simp [idx]
  | _ :: _ :: _ => simp

/-- BRIDGE to the encoder: byte 4 of the serialization is the witness flag -/
theorem enc_witness_flag (t : Tx) : (t.enc.drop 4).head? = some (if t.hasWitness then 1 else 0) := by
  have hl : (encLe 4 t.version).length = 4 := EV.Proofs.CodecPrim.leBytes_length 4 _
  unfold Tx.enc Tx.encStripped
  cases t.hasWitness with
  | true =>
    simp only [if_true, List.append_assoc]
    rw [List.drop_left' hl]; rfl
  | false =>
    simp only [Bool.false_eq_true, if_false, List.append_assoc]
    rw [List.drop_left' hl]; rfl

/-! ### fee outputs and sizes -/

theorem newFee_isFee (v : Nat) (a : Bytes) : isFee (newFee v a) = true := rfl

theorem newFee_outputScaled (scale : Nat) (wit : Bool) (v : Nat) (a : Bytes) :
    Tx.outputScaled scale wit (newFee v a) = scale * 44 + (if wit then 2 else 0) := by
  cases wit <;> simp [Tx.outputScaled, newFee, Asset.encodedLength, Value.encodedLength, Nonce.encodedLength,
    varintSize, TxOutWitness.empty, TxOutWitness.surjectionproofLen, TxOutWitness.rangeproofLen]

theorem isFee_outputScaled (o : TxOut) (h : isFee o = true) (scale : Nat) (wit : Bool) :
    Tx.outputScaled scale wit o =
      scale * (43 + o.nonce.encodedLength) + (if wit then o.witness.enc.length else 0) := by
  obtain ⟨hs, ⟨v, hv⟩, ⟨a, ha⟩⟩ := (isFee_iff o).mp h
  rw [EV.Proofs.Sizes.witness_enc_length]
  unfold Tx.outputScaled
  rw [hs, hv, ha]
  simp only [Asset.encodedLength, Value.encodedLength, List.length_nil, varintSize]
  simp only [Nat.zero_le, if_true]
  have e : 33 + 9 + o.nonce.encodedLength + 1 + 0 = 43 + o.nonce.encodedLength := by omega
  rw [e]

theorem newFee_enc_length (v : Nat) (a : Bytes) (ha : a.length = 32) : (newFee v a).enc.length = 44 := by
  simp [TxOut.enc, newFee, Asset.enc, Value.enc, Nonce.enc, encBytesVec, encVarint,
    EV.Proofs.CodecPrim.beBytes_length, ha]

theorem newFee_wf (P : Prims) (v : Nat) (a : Bytes) (hv : v < 2^64) (ha : a.length = 32) : (newFee v a).wf P := by
  refine ⟨⟨ha, hv, trivial, ?_⟩, trivial, trivial⟩
  simp [newFee, maxVecSize]

theorem newFee_discount (v : Nat) (a : Bytes) : EV.Proofs.Sizes.discount (newFee v a) = 0 := by
  simp [EV.Proofs.Sizes.discount, newFee, TxOutWitness.enc, TxOutWitness.empty, encOptProof, encBytesVec, encVarint,
    Value.isConf, Nonce.isConf]

theorem notBlinded_discount (o : TxOut) (h : isPartiallyBlinded o = false) :
    EV.Proofs.Sizes.discount o = if o.nonce.isConf then 4 * 32 else 0 := by
  unfold isPartiallyBlinded at h
  simp only [Bool.or_eq_false_iff, Bool.not_eq_eq_eq_not, Bool.not_false] at h
  obtain ⟨⟨_, hv⟩, hw⟩ := h
  unfold TxOutWitness.isEmpty at hw
  rw [Bool.and_eq_true, Option.isNone_iff_eq_none, Option.isNone_iff_eq_none] at hw
  unfold EV.Proofs.Sizes.discount
  simp [TxOutWitness.enc, hw.1, hw.2, hv, encOptProof, encBytesVec, encVarint]

/-- the transaction with one more fee output -/
def withFee (t : Tx) (v : Nat) (a : Bytes) : Tx := { t with output := t.output ++ [newFee v a] }

theorem withFee_hasWitness (t : Tx) (v : Nat) (a : Bytes) : (withFee t v a).hasWitness = t.hasWitness := by
  simp [withFee, Tx.hasWitness, List.any_append, newFee, TxOutWitness.empty, TxOutWitness.isEmpty]

theorem withFee_size (t : Tx) (v : Nat) (a : Bytes) :
    (withFee t v a).size + varintSize t.output.length =
      t.size + varintSize (t.output.length + 1) + 44 + (if t.hasWitness then 2 else 0) := by
  unfold Tx.size Tx.scaledSize
  rw [withFee_hasWitness]
  simp only [withFee, List.map_append, List.sum_append, List.map_cons, List.map_nil, List.sum_cons, List.sum_nil,
    newFee_outputScaled, List.length_append, List.length_cons, List.length_nil, Nat.zero_add]
  omega

theorem withFee_weight (t : Tx) (v : Nat) (a : Bytes) :
    (withFee t v a).weight + 4 * varintSize t.output.length =
      t.weight + 4 * varintSize (t.output.length + 1) + 176 + (if t.hasWitness then 2 else 0) := by
  unfold Tx.weight Tx.scaledSize
  rw [withFee_hasWitness]
  simp only [withFee, List.map_append, List.sum_append, List.map_cons, List.map_nil, List.sum_cons, List.sum_nil,
    newFee_outputScaled, List.length_append, List.length_cons, List.length_nil, Nat.zero_add]
  omega

/-! ### Sequence -/

theorem and_two_pow (n i : Nat) : n &&& 2^i = if n.testBit i then 2^i else 0 := by
  apply Nat.eq_of_testBit_eq
  intro j
  rw [Nat.testBit_and, Nat.testBit_two_pow]
  by_cases hij : i = j
  · subst hij
    cases h : n.testBit i <;> simp
  · cases h : n.testBit i <;> simp [hij]

theorem and_two_pow_eq_zero (n i : Nat) : (n &&& 2^i == 0) = !n.testBit i := by
  rw [and_two_pow]
  cases n.testBit i <;> simp

theorem and_two_pow_pos (n i : Nat) : decide (n &&& 2^i > 0) = n.testBit i := by
  rw [and_two_pow]
  cases n.testBit i <;> simp [Nat.two_pow_pos]

theorem seqMask31 : txaccSeqLockTimeDisableFlagMask = 2^31 := by decide
theorem seqMask22 : txaccSeqLockTypeMask = 2^22 := by decide

theorem seqIsRelativeLockTime_eq (n : Nat) : seqIsRelativeLockTime n = !n.testBit 31 := by
  unfold seqIsRelativeLockTime; rw [seqMask31, and_two_pow_eq_zero]

theorem seqIsHeightLocked_eq (n : Nat) : seqIsHeightLocked n = (!n.testBit 31 && !n.testBit 22) := by
  unfold seqIsHeightLocked; rw [seqIsRelativeLockTime_eq, seqMask22, and_two_pow_eq_zero]

theorem seqIsTimeLocked_eq (n : Nat) : seqIsTimeLocked n = (!n.testBit 31 && n.testBit 22) := by
  unfold seqIsTimeLocked; rw [seqIsRelativeLockTime_eq, seqMask22, and_two_pow_pos]

theorem testBit_false_of_lt {x i j : Nat} (h : x < 2^i) (hij : i ≤ j) : x.testBit j = false :=
  Nat.testBit_lt_two_pow (Nat.lt_of_lt_of_le h (Nat.pow_le_pow_right (by decide) hij))

theorem seqFromHeight_locked (h : Nat) (hh : h < 2^16) : seqIsHeightLocked (seqFromHeight h) = true := by
  rw [seqIsHeightLocked_eq]; unfold seqFromHeight
  rw [testBit_false_of_lt hh (by decide), testBit_false_of_lt hh (by decide)]; rfl

theorem seqFrom512_locked (iv : Nat) (hh : iv < 2^16) :
    seqIsTimeLocked (seqFrom512 iv) = true ∧ seqFrom512 iv % 2^16 = iv ∧ seqFrom512 iv < 2^32 := by
  unfold seqFrom512
  rw [seqIsTimeLocked_eq, seqMask22]
  refine ⟨?_, ?_, ?_⟩
  · rw [Nat.testBit_or, Nat.testBit_or, testBit_false_of_lt hh (by decide), testBit_false_of_lt hh (by decide),
      Nat.testBit_two_pow, Nat.testBit_two_pow]
    decide
  · apply Nat.eq_of_testBit_eq
    intro j
    rw [Nat.testBit_mod_two_pow, Nat.testBit_or, Nat.testBit_two_pow]
    by_cases hj : j < 16
    · have : ¬ (22 = j) := by omega
      simp [hj, this]
    · simp [hj, testBit_false_of_lt hh (by omega : 16 ≤ j)]
  · exact Nat.or_lt_two_pow (Nat.lt_of_lt_of_le hh (by decide)) (by decide)

end EV.Proofs.TxAccessors
