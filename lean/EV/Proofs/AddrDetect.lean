/-
  EV.Proofs.AddrDetect — C17 at the level of `Address::from_str` / `parse_with_params`:
  corrupted data characters, corrupted human-readable part.
-/
import EV.Proofs.AddrCanonical
namespace EV.Addr
open EV.Bech32 EV.Base58

theorem fromBech32_not_panic (P : Prims) (s : Text) (bl : Bool) (p : Gen.AddrParamsB) (site : String) :
    fromBech32 P s bl p ≠ .panic site := by
  unfold fromBech32
  split
  · simp
  · rename_i site' h; exact absurd h (segwitNew_not_panic _ _ _)
  · dsimp only
    repeat' split
    all_goals simp

theorem fromBase58_not_panic (P : Prims) (data : List Nat) (p : Gen.AddrParamsB) (site : String) :
    fromBase58 P data p ≠ .panic site := by
  unfold fromBase58
  split
  · simp
  · split
    · split
      · simp
      · split
        · simp
        · dsimp only
          split
          · simp
          · split
            · simp
            · split <;> simp
    · split
      · simp
      · split
        · simp
        · split <;> simp

theorem parseWithParams_not_panic (P : Prims) (s : Text) (p : Gen.AddrParamsB) (site : String) :
    parseWithParams P s p ≠ .panic site := by
  unfold parseWithParams
  dsimp only
  split
  · exact fromBech32_not_panic P _ _ _ _
  · split
    · simp
    · split
      · simp
      · exact fromBase58_not_panic P _ _ _

theorem dispatchBase58_not_panic (P : Prims) (data : List Nat) (b0 : Nat) (nets : List Gen.AddrParamsB)
    (site : String) : dispatchBase58 P data b0 nets ≠ .panic site := by
  induction nets with
  | nil => simp [dispatchBase58]
  | cons n ns ih =>
    simp only [dispatchBase58]
    split
    · exact fromBase58_not_panic P _ _ _
    · exact ih

theorem fromStr_not_panic (P : Prims) (s : Text) (site : String) : fromStr P s ≠ .panic site := by
  unfold fromStr
  split
  · rename_i r hr
    obtain ⟨p', _, hc⟩ := dispatchBech_some P _ _ _ _ hr
    rcases hc with ⟨_, rfl⟩ | ⟨_, rfl⟩ <;> exact fromBech32_not_panic P _ _ _ _
  · split
    · simp
    · split
      · simp
      · split
        · simp
        · exact dispatchBase58_not_panic P _ _ _ _

/-- `from_bech32` fails when the segwit decoder fails -/
theorem fromBech32_err (P : Prims) (s : Text) (bl : Bool) (p : Gen.AddrParamsB) (k : String)
    (h : segwitNew (if bl then blechFlavor else crateFlavor) s = .err k) :
    fromBech32 P s bl p = .err k := by
  simp only [fromBech32, h]

theorem flavor_of (bl : Bool) : IsFlavor (if bl then blechFlavor else crateFlavor) := by
  cases bl
  · exact Or.inl rfl
  · exact Or.inr rfl

/-- **Data part.** If `h ++ "1" ++ d` parses as a segwit address and `d'` differs from `d` in one or
    two characters (alphabet characters with different symbol values, the witness-version character
    included), then `h ++ "1" ++ d'` is rejected by `from_str` and by `parse_with_params` of the
    address's network; under another network's parameters it is rejected unless it happens to be a
    valid base58check string (the prefix matches no hrp of that network, so the parser falls through
    to base58 — a 32-bit SHA-256d coincidence that no proof can exclude). -/
theorem corrupted_address_rejected (P : Prims) (h d d' : Text) (a : Address)
    (hok : fromStr P (h ++ 49 :: d) = .ok a) (hseg : a.payload.isSegwit = true)
    (hd : ∀ c ∈ d, (fromChar c).isSome = true) (hd' : ∀ c ∈ d', (fromChar c).isSome = true)
    (hlen : d'.length = d.length)
    (h1 : 1 ≤ Code.diffCount (d.map sym) (d'.map sym)) (h2 : Code.diffCount (d.map sym) (d'.map sym) ≤ 2) :
    (∃ k, fromStr P (h ++ 49 :: d') = .err k) ∧
    (∃ k, parseWithParams P (h ++ 49 :: d') a.params = .err k) ∧
    (∀ q ∈ Gen.allParamsB, (∃ k, parseWithParams P (h ++ 49 :: d') q = .err k) ∨
      (decodeCheck P.sha256d (h ++ 49 :: d')).isSome = true) := by
  obtain ⟨hp, r⟩ := route_of_fromStr P _ a hok
  have hpre : findPrefix (h ++ 49 :: d) = h := findPrefix_split h d (no_sep_of_alphabet d hd)
  have hpre' : findPrefix (h ++ 49 :: d') = h := findPrefix_split h d' (no_sep_of_alphabet d' hd')
  cases r with
  | base58 data hdd hfb _ =>
    have := (fromBase58_inv P data a.params a hfb).2.1
    rw [hseg] at this; simp at this
  | segwit bl hm hfb =>
    rw [hpre] at hm
    obtain ⟨seg, hsegok, _, _⟩ := fromBech32_inv P _ bl a.params a hfb
    have hmem : (if bl then a.params.blechHrp else a.params.bechHrp) ∈ hrps a.params := by
      cases bl <;> simp [hrps]
    have hhok := hrps_ok _ (List.mem_flatMap.2 ⟨a.params, hp, hmem⟩)
    have hhlen : h.length ≤ 4 := by
      have := congrArg List.length hm
      simp only [lower, List.length_map] at this
      omega
    obtain ⟨k, hk⟩ := corrupted_data_rejected _ (flavor_of bl) h d d' seg hsegok hhlen hd hd' hlen h1 h2
    have hfb' : fromBech32 P (h ++ 49 :: d') bl a.params = .err k := fromBech32_err P _ bl _ k hk
    have hlow : lower (if bl then a.params.blechHrp else a.params.bechHrp) = (if bl then a.params.blechHrp else a.params.bechHrp) :=
      hrpOk_lower _ hhok.1
    -- from_str dispatches to the same network and kind
    have hfs : fromStr P (h ++ 49 :: d') = .err k := by
      cases bl with
      | true =>
        simp only [if_true] at hm hlow hfb'
        simp only [fromStr, hpre', dispatchBech_blech P _ h a.params hp (by rw [← hm, hlow]), hfb']
      | false =>
        simp only [Bool.false_eq_true, if_false] at hm hlow hfb'
        simp only [fromStr, hpre', dispatchBech_bech P _ h a.params hp (by rw [← hm, hlow]), hfb']
    -- parse_with_params of any network whose hrp matches: it is the same network and kind
    have hpw : ∀ q ∈ Gen.allParamsB, (∃ k, parseWithParams P (h ++ 49 :: d') q = .err k) ∨
        (decodeCheck P.sha256d (h ++ 49 :: d')).isSome = true := by
      intro q hq
      cases hres : parseWithParams P (h ++ 49 :: d') q with
      | err k' => exact Or.inl ⟨k', rfl⟩
      | panic site => exact absurd hres (parseWithParams_not_panic P _ _ _)
      | ok b =>
        obtain ⟨_, rb⟩ := route_of_parseWithParams P _ q b hres
        cases rb with
        | base58 data hdd _ _ => right; simp [hdd]
        | segwit bl2 hm2 hfb2 =>
          exfalso
          rw [hpre'] at hm2
          have hmem2 : (if bl2 then q.blechHrp else q.bechHrp) ∈ hrps q := by cases bl2 <;> simp [hrps]
          have hlow2 := hrpOk_lower _ (hrps_ok _ (List.mem_flatMap.2 ⟨q, hq, hmem2⟩)).1
          have heq : (if bl then a.params.blechHrp else a.params.bechHrp) = (if bl2 then q.blechHrp else q.bechHrp) := by
            rw [← hlow, ← hlow2, hm, hm2]
          have hpq : a.params = q := hrp_owner a.params q hp hq _ hmem (heq ▸ hmem2)
          subst hpq
          have hbl : bl = bl2 := by
            cases bl <;> cases bl2 <;> simp only [if_true, Bool.false_eq_true, if_false] at heq <;> try rfl
            all_goals (exfalso; rcases mem_all a.params hp with h | h | h <;> rw [h] at heq <;> revert heq <;> decide)
          subst hbl
          rw [hfb'] at hfb2
          simp at hfb2
    refine ⟨⟨k, hfs⟩, ?_, hpw⟩
    -- own network: the prefix matches, so the base58 route is impossible
    cases hres : parseWithParams P (h ++ 49 :: d') a.params with
    | err k' => exact ⟨k', rfl⟩
    | panic site => exact absurd hres (parseWithParams_not_panic P _ _ _)
    | ok b =>
      exfalso
      obtain ⟨_, rb⟩ := route_of_parseWithParams P _ a.params b hres
      cases rb with
      | base58 data hdd _ hno =>
        rw [hpre'] at hno
        have hmatch : matchPrefix h (if bl then a.params.blechHrp else a.params.bechHrp) = true :=
          (matchPrefix_iff _ _).2 hm
        cases bl
        · simp only [Bool.false_eq_true, if_false] at hmatch; rw [hno.1] at hmatch; simp at hmatch
        · simp only [if_true] at hmatch; rw [hno.2] at hmatch; simp at hmatch
      | segwit bl2 hm2 hfb2 =>
        rcases hpw a.params hp with ⟨k', hk'⟩ | hdec
        · rw [hres] at hk'; simp at hk'
        · -- a segwit route for the own network contradicts the failure shown above
          rw [hpre'] at hm2
          have hmem2 : (if bl2 then a.params.blechHrp else a.params.bechHrp) ∈ hrps a.params := by cases bl2 <;> simp [hrps]
          have hlow2 := hrpOk_lower _ (hrps_ok _ (List.mem_flatMap.2 ⟨a.params, hp, hmem2⟩)).1
          have heq : (if bl then a.params.blechHrp else a.params.bechHrp) = (if bl2 then a.params.blechHrp else a.params.bechHrp) := by
            rw [← hlow, ← hlow2, hm, hm2]
          have hbl : bl = bl2 := by
            cases bl <;> cases bl2 <;> simp only [if_true, Bool.false_eq_true, if_false] at heq <;> try rfl
            all_goals (exfalso; rcases mem_all a.params hp with h | h | h <;> rw [h] at heq <;> revert heq <;> decide)
          subst hbl
          rw [hfb'] at hfb2
          simp at hfb2

/-- hrps of the two kinds -/
def IsBechHrp (x : Text) : Prop := ∃ p ∈ Gen.allParamsB, x = p.bechHrp
def IsBlechHrp (x : Text) : Prop := ∃ p ∈ Gen.allParamsB, x = p.blechHrp

/-- **Human-readable part (partial).** Let `h ++ "1" ++ d` parse as a segwit address and replace the
    human-readable part by any `h'` that is not a case variant of `h`. Then `from_str` rejects the
    new string, except in two situations that are outside the reach of a proof:
    (1) `h'` spells an hrp of the OTHER kind (unblinded ↔ blinded, e.g. `ex`→`el`): the data part is
        then verified under a different code (bech32 ↔ blech32);
    (2) `h'` matches no network and the whole string is a valid base58check string.
    In particular a corrupted hrp that spells another network's hrp of the same kind is rejected. -/
theorem hrp_corruption_partial (P : Prims) (h h' d : Text) (a : Address)
    (hok : fromStr P (h ++ 49 :: d) = .ok a) (hseg : a.payload.isSegwit = true)
    (hd : ∀ c ∈ d, (fromChar c).isSome = true) (hne : lower h' ≠ lower h) :
    (∃ k, fromStr P (h' ++ 49 :: d) = .err k) ∨
    (IsBechHrp (lower h) ∧ IsBlechHrp (lower h') ∨ IsBlechHrp (lower h) ∧ IsBechHrp (lower h')) ∨
    (decodeCheck P.sha256d (h' ++ 49 :: d)).isSome = true := by
  obtain ⟨hp, r⟩ := route_of_fromStr P _ a hok
  have hpre : findPrefix (h ++ 49 :: d) = h := findPrefix_split h d (no_sep_of_alphabet d hd)
  have hpre' : findPrefix (h' ++ 49 :: d) = h' := findPrefix_split h' d (no_sep_of_alphabet d hd)
  cases r with
  | base58 data hdd hfb _ =>
    have := (fromBase58_inv P data a.params a hfb).2.1
    rw [hseg] at this; simp at this
  | segwit bl hm hfb =>
    rw [hpre] at hm
    have hmem : (if bl then a.params.blechHrp else a.params.bechHrp) ∈ hrps a.params := by
      cases bl <;> simp [hrps]
    have hlow := hrpOk_lower _ (hrps_ok _ (List.mem_flatMap.2 ⟨a.params, hp, hmem⟩)).1
    cases hres : fromStr P (h' ++ 49 :: d) with
    | err k => exact Or.inl ⟨k, rfl⟩
    | panic site => exact absurd hres (fromStr_not_panic P _ _)
    | ok b =>
      obtain ⟨hq, rb⟩ := route_of_fromStr P _ b hres
      cases rb with
      | base58 data hdd _ _ => right; right; simp [hdd]
      | segwit bl2 hm2 hfb2 =>
        rw [hpre'] at hm2
        have hmem2 : (if bl2 then b.params.blechHrp else b.params.bechHrp) ∈ hrps b.params := by
          cases bl2 <;> simp [hrps]
        have hlow2 := hrpOk_lower _ (hrps_ok _ (List.mem_flatMap.2 ⟨b.params, hq, hmem2⟩)).1
        by_cases hkind : bl = bl2
        · -- same kind, different hrp: the checksum sees a different prefix
          exfalso
          subst hkind
          obtain ⟨seg, hsegok, _, _⟩ := fromBech32_inv P _ bl a.params a hfb
          obtain ⟨seg2, hsegok2, _, _⟩ := fromBech32_inv P _ bl b.params b hfb2
          obtain ⟨hrp, c0, rest, _, hun, _, hck, _⟩ := segwitNew_inv _ _ seg hsegok
          obtain ⟨hrp2, c02, rest2, _, hun2, _, hck2, _⟩ := segwitNew_inv _ _ seg2 hsegok2
          obtain ⟨e1, e2⟩ := uncheckedNew_split h d hd _ _ hun
          obtain ⟨e1', e2'⟩ := uncheckedNew_split h' d hd _ _ hun2
          subst hrp hrp2
          rw [← e2] at e2'
          simp only [List.cons.injEq] at e2'
          obtain ⟨rfl, rfl⟩ := e2'
          obtain ⟨_, hv1⟩ := validateChecksum_inv _ _ _ _ _ hck
          obtain ⟨_, hv2⟩ := validateChecksum_inv _ _ _ _ _ hck2
          -- verification depends on the hrp only through its lower-case form
          have hx : ∀ x : Text, hrpExpand x = hrpExpand (lower x) := by
            intro x
            simp only [hrpExpand, lower, List.map_map]
            have : ∀ b, lowerByte (lowerByte b) = lowerByte b := fun b => by
              have := lowerByte_cmap_lowerByte false b
              simpa [cmap] using this
            congr 1
            · apply List.map_congr_left; intro b _; simp [Function.comp, this]
            · congr 1; apply List.map_congr_left; intro b _; simp [Function.comp, this]
          have hv1' : verify (Flavor.variant (if bl then blechFlavor else crateFlavor) (sym c02)) (if bl then a.params.blechHrp else a.params.bechHrp) ((c02 :: rest2).map sym) = true := by
            simp only [verify] at hv1 ⊢
            rw [hx h, ← hm, hlow] at hv1
            exact hv1
          have hv2' : verify (Flavor.variant (if bl then blechFlavor else crateFlavor) (sym c02)) (if bl then b.params.blechHrp else b.params.bechHrp) ((c02 :: rest2).map sym) = true := by
            simp only [verify] at hv2 ⊢
            rw [hx h', ← hm2, hlow2] at hv2
            exact hv2
          have hdiff : (if bl then a.params.blechHrp else a.params.bechHrp) ≠ (if bl then b.params.blechHrp else b.params.bechHrp) := by
            intro heq
            apply hne
            rw [← hm2, ← hm, heq]
          -- residues of the two expanded hrps differ, so one data part cannot verify with both
          have hsyms := map_sym_lt (c02 :: rest2)
          cases bl with
          | false =>
            simp only [Bool.false_eq_true, if_false] at hv1' hv2' hdiff
            have hfacts : crateFlavor.variant (sym c02) = bech32 ∨ crateFlavor.variant (sym c02) = bech32m := by
              unfold Flavor.variant; split
              · exact Or.inl rfl
              · exact Or.inr rfl
            have hres1 : bech32Code.polymod (hrpExpand a.params.bechHrp) ≠ bech32Code.polymod (hrpExpand b.params.bechHrp) := by
              have : ∀ p ∈ Gen.allParamsB, ∀ q ∈ Gen.allParamsB, p.bechHrp ≠ q.bechHrp →
                  bech32Code.polymod (hrpExpand p.bechHrp) ≠ bech32Code.polymod (hrpExpand q.bechHrp) := by decide
              exact this _ hp _ hq hdiff
            have hlt : ∀ r ∈ Gen.allParamsB, ∀ x ∈ r.bechHrp, x < 128 := by decide
            have := prefix_change_detected bech32Code bech32Code_good bech32Code_lowBij _ _ _
              (hrpExpand_lt _ (hlt _ hp)) (hrpExpand_lt _ (hlt _ hq)) hsyms hres1
            rcases hfacts with hf | hf <;> rw [hf] at hv1' hv2' <;>
              simp only [verify, beq_iff_eq] at hv1' hv2' <;>
              exact this (hv1'.trans hv2'.symm)
          | true =>
            simp only [if_true] at hv1' hv2' hdiff
            have hres1 : blech32.code.polymod (hrpExpand a.params.blechHrp) ≠ blech32.code.polymod (hrpExpand b.params.blechHrp) := by
              have : ∀ p ∈ Gen.allParamsB, ∀ q ∈ Gen.allParamsB, p.blechHrp ≠ q.blechHrp →
                  blech32.code.polymod (hrpExpand p.blechHrp) ≠ blech32.code.polymod (hrpExpand q.blechHrp) := by decide
              exact this _ hp _ hq hdiff
            have hlt : ∀ r ∈ Gen.allParamsB, ∀ x ∈ r.blechHrp, x < 128 := by decide
            have := prefix_change_detected blech32.code blech32Code_good blech32Code_lowBij _ _ _
              (hrpExpand_lt _ (hlt _ hp)) (hrpExpand_lt _ (hlt _ hq)) hsyms hres1
            have hcode : (blechFlavor.variant (sym c02)).code = blech32.code := by
              unfold Flavor.variant; split
              · rfl
              · exact blech32m_code_eq
            simp only [verify, beq_iff_eq, hcode] at hv1' hv2'
            exact this (hv1'.trans hv2'.symm)
        · -- different kind
          right; left
          cases bl <;> cases bl2
          · exact absurd rfl hkind
          · simp only [Bool.false_eq_true, if_false, if_true] at hm hm2 hlow hlow2
            exact Or.inl ⟨⟨a.params, hp, by rw [← hm, hlow]⟩, ⟨b.params, hq, by rw [← hm2, hlow2]⟩⟩
          · simp only [Bool.false_eq_true, if_false, if_true] at hm hm2 hlow hlow2
            exact Or.inr ⟨⟨a.params, hp, by rw [← hm, hlow]⟩, ⟨b.params, hq, by rw [← hm2, hlow2]⟩⟩
          · exact absurd rfl hkind

end EV.Addr
