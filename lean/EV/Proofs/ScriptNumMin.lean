/-
  EV.Proofs.ScriptNumMin — minimal script-number encodings (EV.Model.ScriptAsm `minimalNum`):
  `build_scriptint` always writes one, `read_scriptint` accepts every string of at most 4 bytes whether
  minimal or not, and reading then re-building returns the bytes exactly for the minimal ones.
-/
import EV.Model.ScriptAsm
import EV.Proofs.ScriptNum
import EV.Proofs.Opcodes
namespace EV.Proofs.ScriptNumMin
open EV EV.Script EV.Proofs.CodecPrim EV.Proofs.ScriptNum EV.Proofs.Opcodes

theorem leNat_append (a b : Bytes) : leNat (a ++ b) = leNat a + 256 ^ a.length * leNat b := by
  induction a with
  | nil => simp [leNat]
  | cons x xs ih =>
    simp only [List.cons_append, leNat, ih, List.length_cons, Nat.pow_succ]
    rw [Nat.mul_add, ← Nat.mul_assoc, Nat.mul_comm 256 (256 ^ xs.length), Nat.add_assoc]

theorem leNat_snoc (init : Bytes) (l : UInt8) : leNat (init ++ [l]) = leNat init + 256 ^ init.length * l.toNat := by
  rw [leNat_append]; simp [leNat]

theorem eq_nil_or_snoc (v : Bytes) : v = [] ∨ ∃ init l, v = init ++ [l] := by
  rcases List.eq_nil_or_concat v with h | ⟨init, l, h⟩
  · exact Or.inl h
  · exact Or.inr ⟨init, l, by rw [h, List.concat_eq_append]⟩

theorem pow_pos' (k : Nat) : 0 < 256 ^ k := Nat.pow_pos (by decide)

/-- the magnitude of a script number `init ++ [l]`: the value with the sign bit cleared -/
def mag (init : Bytes) (l : UInt8) : Nat := leNat init + 256 ^ init.length * (l.toNat % 128)

theorem mag_lt (init : Bytes) (l : UInt8) : mag init l < 128 * 256 ^ init.length := by
  have h1 := leNat_lt init
  have h2 : 256 ^ init.length * (l.toNat % 128) ≤ 256 ^ init.length * 127 :=
    Nat.mul_le_mul_left _ (by have := Nat.mod_lt l.toNat (show 0 < 128 by decide); omega)
  unfold mag; omega

/-- value = magnitude + sign bit -/
theorem leNat_mag (init : Bytes) (l : UInt8) :
    leNat (init ++ [l]) = mag init l + (if 128 ≤ l.toNat then 128 * 256 ^ init.length else 0) := by
  rw [leNat_snoc, mag]
  have hl := l.toNat_lt
  have e : l.toNat = l.toNat % 128 + 128 * (l.toNat / 128) := (Nat.mod_add_div _ _).symm
  by_cases c : 128 ≤ l.toNat
  · have t : l.toNat / 128 = 1 := by omega
    rw [if_pos c]
    have : 256 ^ init.length * l.toNat = 256 ^ init.length * (l.toNat % 128) + 256 ^ init.length * 128 := by
      conv => lhs; rw [e, t, Nat.mul_add]
    omega
  · have t : l.toNat % 128 = l.toNat := by omega
    rw [if_neg c, t]; omega

theorem and7f : ∀ b : UInt8, ((b &&& 0x7f != 0) = true) ↔ b.toNat % 128 ≠ 0 := by decide +kernel
theorem and80' : ∀ b : UInt8, ((b &&& 0x80 != 0) = true) ↔ 128 ≤ b.toNat := by decide +kernel

theorem minimalNum_snoc_nil (l : UInt8) : minimalNum [l] = true ↔ l.toNat % 128 ≠ 0 := by
  simp only [minimalNum, List.reverse_singleton]
  exact and7f l

theorem minimalNum_snoc_snoc (init : Bytes) (p l : UInt8) :
    minimalNum (init ++ [p] ++ [l]) = true ↔ (l.toNat % 128 ≠ 0 ∨ 128 ≤ p.toNat) := by
  have : (init ++ [p] ++ [l]).reverse = l :: p :: init.reverse := by simp
  simp only [minimalNum, this, Bool.or_eq_true]
  rw [and7f, and80']

/-- minimality in terms of the magnitude: it needs all the bytes -/
theorem minimalNum_iff (init : Bytes) (l : UInt8) :
    minimalNum (init ++ [l]) = true ↔
      (init = [] → 1 ≤ mag init l) ∧ (init ≠ [] → 128 * 256 ^ (init.length - 1) ≤ mag init l) := by
  rcases eq_nil_or_snoc init with rfl | ⟨init', p, rfl⟩
  · have hm : mag [] l = l.toNat % 128 := by simp [mag, leNat]
    rw [List.nil_append, minimalNum_snoc_nil, hm]
    constructor
    · intro h; exact ⟨fun _ => by omega, fun c => absurd rfl c⟩
    · intro h; have := h.1 rfl; omega
  · rw [minimalNum_snoc_snoc]
    have hne : init' ++ [p] ≠ [] := by simp
    have hQ := pow_pos' init'.length
    have hi := leNat_lt init'
    have hp := p.toNat_lt
    simp only [mag, leNat_snoc, List.length_append, List.length_cons, List.length_nil, Nat.zero_add,
      Nat.add_sub_cancel, Nat.pow_succ]
    constructor
    · intro h
      refine ⟨fun c => absurd c hne, fun _ => ?_⟩
      rcases h with h | h
      · have : 256 ^ init'.length * 256 * 1 ≤ 256 ^ init'.length * 256 * (l.toNat % 128) :=
          Nat.mul_le_mul_left _ (by omega)
        omega
      · have : 256 ^ init'.length * 128 ≤ 256 ^ init'.length * p.toNat := Nat.mul_le_mul_left _ h
        omega
    · intro h
      have h2 := h.2 hne
      by_cases c1 : l.toNat % 128 ≠ 0
      · exact Or.inl c1
      · right
        have c0 : l.toNat % 128 = 0 := by omega
        rw [c0, Nat.mul_zero, Nat.add_zero] at h2
        by_cases c2 : 128 ≤ p.toNat
        · exact c2
        · exfalso
          have : 256 ^ init'.length * p.toNat ≤ 256 ^ init'.length * 127 := Nat.mul_le_mul_left _ (by omega)
          omega

theorem getD_last_snoc (init : Bytes) (l : UInt8) : (init ++ [l]).getD ((init ++ [l]).length - 1) 0 = l := by
  simp [List.getD]

theorem two_pow_sign (L : Nat) (h : 1 ≤ L) : 2 ^ (8 * L - 1) = 128 * 256 ^ (L - 1) := by
  have e : 8 * L - 1 = 7 + 8 * (L - 1) := by omega
  rw [e, Nat.pow_add, Nat.pow_mul]

/-- `read_scriptint` on a non-empty string of at most 4 bytes: sign from the top bit, magnitude below it -/
theorem read_snoc (init : Bytes) (l : UInt8) (hL : init.length + 1 ≤ 4) :
    readScriptInt (init ++ [l]) =
      .ok (if 128 ≤ l.toNat then -(Int.ofNat (mag init l)) else Int.ofNat (mag init l)) := by
  have hlen : (init ++ [l]).length = init.length + 1 := by simp
  unfold readScriptInt
  have c1 : ¬ (init ++ [l]).length = 0 := by omega
  have c2 : ¬ (init ++ [l]).length > 4 := by omega
  simp only [c1, c2, if_false, getD_last_snoc]
  by_cases c : 128 ≤ l.toNat
  · have hb : l &&& 0x80 ≠ 0 := (u8_and80 l).mpr c
    rw [if_pos hb, if_pos c, Nat.one_shiftLeft, Nat.and_two_pow_sub_one_eq_mod, hlen, two_pow_sign _ (by omega),
      leNat_mag, if_pos c, Nat.add_sub_cancel, Nat.add_mod_right, Nat.mod_eq_of_lt (mag_lt init l)]
  · have hb : ¬ (l &&& 0x80 ≠ 0) := fun hh => c ((u8_and80 l).mp hh)
    rw [if_neg hb, if_neg c, leNat_mag, if_neg c, Nat.add_zero]

/-- `read_scriptint` fails exactly on strings longer than 4 bytes (with `NumericOverflow`) and never panics:
    non-minimal encodings are *accepted* -/
theorem readScriptInt_err_iff (v : Bytes) : readScriptInt v = .err "NumericOverflow" ↔ 4 < v.length := by
  unfold readScriptInt
  by_cases c1 : v.length = 0
  · simp [c1]
  · by_cases c2 : v.length > 4
    · simp [c1, c2]
    · constructor
      · intro h; simp only [c1, c2, if_false] at h; split at h <;> cases h
      · intro h; exact absurd h c2

theorem readScriptInt_ok_of_le (v : Bytes) (h : v.length ≤ 4) : ∃ i, readScriptInt v = .ok i := by
  rcases eq_nil_or_snoc v with rfl | ⟨init, l, rfl⟩
  · exact ⟨0, rfl⟩
  · exact ⟨_, read_snoc init l (by simpa using h)⟩

private theorem pow_mono {a b : Nat} (h : a ≤ b) : 256 ^ a ≤ 256 ^ b := Nat.pow_le_pow_right (by decide) h

/-- `build_scriptint` writes a minimal encoding -/
theorem buildScriptInt_minimal (n : Int) (hr : n.natAbs < 2 ^ 64) : minimalNum (buildScriptInt n) = true := by
  by_cases h0 : n = 0
  · subst h0; rfl
  · obtain ⟨s1, s2, s3, s4, s5⟩ := buildScriptInt_spec h0 hr
    generalize buildScriptInt n = w at s1 s2 s3 s4 s5
    rcases eq_nil_or_snoc w with rfl | ⟨init, l, rfl⟩
    · exact absurd rfl s1
    · have hlen : (init ++ [l]).length = init.length + 1 := by simp
      rw [getD_last_snoc] at s5
      rw [hlen, Nat.add_sub_cancel] at s2 s3
      rw [leNat_mag] at s2
      have hm : mag init l = n.natAbs := by
        by_cases c : n < 0
        · rw [if_pos c, if_pos (s5.mpr c)] at s2; omega
        · rw [if_neg c, if_neg (fun h => c (s5.mp h))] at s2; omega
      rw [minimalNum_iff, hm]
      refine ⟨fun _ => by omega, fun hne => ?_⟩
      have hl2 : 2 ≤ (init ++ [l]).length := by
        have : 0 < init.length := List.length_pos_iff.mpr hne
        omega
      have := s4 hl2
      rw [hlen] at this
      exact this

/-- reading a minimal encoding of at most 4 bytes and building the value again returns the bytes; for a
    non-minimal one (which is read all the same) it does not -/
theorem build_read_iff_minimal (v : Bytes) (h4 : v.length ≤ 4) (i : Int) (hr : readScriptInt v = .ok i) :
    buildScriptInt i = v ↔ minimalNum v = true := by
  rcases eq_nil_or_snoc v with rfl | ⟨init, l, rfl⟩
  · have : i = 0 := by simpa [readScriptInt] using hr.symm
    subst this
    simp [buildScriptInt, minimalNum]
  · have hlen : (init ++ [l]).length = init.length + 1 := by simp
    have hL : init.length + 1 ≤ 4 := by omega
    rw [read_snoc init l hL] at hr
    have hi : i = if 128 ≤ l.toNat then -(Int.ofNat (mag init l)) else Int.ofNat (mag init l) := by
      injection hr with hr; exact hr.symm
    have hmlt := mag_lt init l
    have hP : 256 ^ init.length ≤ 256 ^ 3 := pow_mono (by omega)
    have habs : i.natAbs = mag init l := by rw [hi]; split <;> simp
    have hr64 : i.natAbs < 2 ^ 64 := by rw [habs]; omega
    constructor
    · intro e
      rw [← e]
      exact buildScriptInt_minimal i hr64
    · intro hmin
      have hm := (minimalNum_iff init l).mp hmin
      have hm1 : 1 ≤ mag init l := by
        by_cases c : init = []
        · exact hm.1 c
        · have := hm.2 c
          have := pow_pos' (init.length - 1)
          omega
      have h0 : i ≠ 0 := by intro e; rw [e] at habs; simp at habs; omega
      have hneg : i < 0 ↔ 128 ≤ l.toNat := by
        rw [hi]; split
        · next c => simp only [c, iff_true, Int.ofNat_eq_natCast]; omega
        · next c => simp only [c, iff_false, Int.ofNat_eq_natCast]; omega
      obtain ⟨s1, s2, s3, s4, _⟩ := buildScriptInt_spec h0 hr64
      have hlenle := (buildScriptInt_length_iff h0 hr64 (init.length + 1) (by omega)).mpr (by rw [habs]; simpa using hmlt)
      generalize buildScriptInt i = w at s1 s2 s3 s4 hlenle
      have hw1 : 1 ≤ w.length := List.length_pos_iff.mpr s1
      have hwl : w.length = init.length + 1 := by
        by_cases c : init = []
        · subst c; simp at hlenle ⊢; omega
        · have h2 := hm.2 c
          have hpos : 0 < init.length := List.length_pos_iff.mpr c
          by_cases cw : w.length ≤ init.length
          · exfalso
            have : 256 ^ (w.length - 1) ≤ 256 ^ (init.length - 1) := pow_mono (by omega)
            rw [habs] at s3
            omega
          · omega
      have hval : leNat w = leNat (init ++ [l]) := by
        rw [s2, leNat_mag, habs, hwl, Nat.add_sub_cancel]
        by_cases c : 128 ≤ l.toNat
        · rw [if_pos (hneg.mpr c), if_pos c]
        · rw [if_neg (fun h => c (hneg.mp h)), if_neg c]
      rw [← leBytes_leNat w, ← leBytes_leNat (init ++ [l]), hwl, hlen, hval]

end EV.Proofs.ScriptNumMin
