/-
  EV.Proofs.Checksum — the checksum produced by the encoder (`createChecksum`, i.e.
  `Engine::input_target_residue` + `unpack`) is the unique string of `len` symbols that makes the
  whole string verify:
    `polymod (w ++ createChecksum v w) = target`   and
    `polymod (w ++ ck) = target → ck = createChecksum v w`  (for `|ck| = len`, symbols < 32).
-/
import EV.Proofs.Polymod
namespace EV.Bech32
namespace Code

/-- big-endian packing of symbols into a number -/
def pack (x : List Nat) : Nat := x.foldl (fun a d => a * 32 + d) 0

def packFrom (s : Nat) (x : List Nat) : Nat := x.foldl (fun a d => a * 32 + d) s

theorem packFrom_eq (s : Nat) (x : List Nat) : packFrom s x = s * 32 ^ x.length + pack x := by
  induction x generalizing s with
  | nil => simp [packFrom, pack]
  | cons d x ih =>
    have h1 : packFrom s (d :: x) = packFrom (s * 32 + d) x := rfl
    have h2 : pack (d :: x) = packFrom d x := by simp [pack, packFrom]
    rw [h1, h2, ih, ih d, List.length_cons, Nat.pow_succ]
    rw [Nat.add_mul, Nat.mul_assoc, Nat.mul_comm 32 (32 ^ x.length), Nat.add_assoc]

theorem pack_cons (d : Nat) (x : List Nat) : pack (d :: x) = d * 32 ^ x.length + pack x := by
  have h2 : pack (d :: x) = packFrom d x := by simp [pack, packFrom]
  rw [h2, packFrom_eq]

theorem pack_lt (x : List Nat) (hx : ∀ d ∈ x, d < 32) : pack x < 32 ^ x.length := by
  induction x with
  | nil => simp [pack]
  | cons d x ih =>
    rw [pack_cons, List.length_cons, Nat.pow_succ]
    have hd := hx d (by simp)
    have := ih (fun y hy => hx y (by simp [hy]))
    calc d * 32 ^ x.length + pack x < d * 32 ^ x.length + 32 ^ x.length := by omega
      _ = (d + 1) * 32 ^ x.length := by rw [Nat.add_mul, Nat.one_mul]
      _ ≤ 32 * 32 ^ x.length := Nat.mul_le_mul_right _ (by omega)
      _ = 32 ^ x.length * 32 := Nat.mul_comm _ _

theorem pow32 (n : Nat) : (32 : Nat) ^ n = 2 ^ (5 * n) := by
  rw [Nat.pow_mul]

/-- feeding at most `len` symbols from residue 0 never shifts anything out -/
theorem polymodFrom_small (c : Code) (_hc : c.Good) (x : List Nat) (hx : ∀ d ∈ x, d < 32) (s : Nat)
    (hs : s < 2 ^ (5 * (c.len - x.length))) (hl : x.length ≤ c.len) :
    c.polymodFrom s x = packFrom s x := by
  induction x generalizing s with
  | nil => rfl
  | cons d x ih =>
    simp only [List.length_cons] at hs hl
    have hd := hx d (by simp)
    have hs' : s < 2 ^ (5 * (c.len - 1)) :=
      Nat.lt_of_lt_of_le hs (Nat.pow_le_pow_right (by decide) (by omega))
    have htop : c.top s = 0 := by
      simp only [top, Nat.shiftRight_eq_div_pow, Nat.div_eq_of_lt hs']
    have hstep : c.step s d = s * 32 + d := by
      simp only [step, htop, sel_zero, Nat.xor_zero, Nat.mod_eq_of_lt hs']
      rw [← Nat.shiftLeft_add_eq_or_of_lt (i := 5) hd, Nat.shiftLeft_eq]
    rw [polymodFrom_cons, hstep]
    show c.polymodFrom (s * 32 + d) x = packFrom (s * 32 + d) x
    apply ih (fun y hy => hx y (by simp [hy])) _ _ (by omega)
    have hpow : 2 ^ (5 * (c.len - x.length)) = 2 ^ (5 * (c.len - (x.length + 1))) * 32 := by
      have : (32 : Nat) = 2 ^ 5 := rfl
      rw [this, ← Nat.pow_add]; congr 1; omega
    rw [hpow]
    calc s * 32 + d < s * 32 + 32 := by omega
      _ = (s + 1) * 32 := by rw [Nat.add_mul, Nat.one_mul]
      _ ≤ 2 ^ (5 * (c.len - (x.length + 1))) * 32 := Nat.mul_le_mul_right _ hs

theorem polymodFrom_zero_eq_pack (c : Code) (hc : c.Good) (x : List Nat) (hx : ∀ d ∈ x, d < 32)
    (hl : x.length ≤ c.len) : c.polymodFrom 0 x = pack x :=
  polymodFrom_small c hc x hx 0 (Nat.two_pow_pos _) hl

theorem xorList_zeros (x : List Nat) : xorList (List.replicate x.length 0) x = x := by
  induction x with
  | nil => rfl
  | cons d x ih => simp [List.replicate_succ, xorList, ih]

/-- feeding `len` or fewer symbols: shifted old residue XOR the packed symbols -/
theorem polymodFrom_eq_Tpow_xor_pack (c : Code) (hc : c.Good) (s : Nat) (x : List Nat)
    (hx : ∀ d ∈ x, d < 32) (hl : x.length ≤ c.len) :
    c.polymodFrom s x = c.Tpow x.length s ^^^ pack x := by
  have h := polymod_linear c s 0 (List.replicate x.length 0) x (by simp)
    (by intro y hy; rw [List.mem_replicate] at hy; omega) hx
  rw [Nat.xor_zero, xorList_zeros, polymodFrom_zeros, polymodFrom_zero_eq_pack c hc x hx hl] at h
  exact h

/-! ### unpacking -/

theorem unpackAll_length (r n : Nat) : (unpackAll r n).length = n := by
  induction n with
  | zero => rfl
  | succ n ih => simp [unpackAll, ih]

theorem unpackAll_lt (r n : Nat) : ∀ d ∈ unpackAll r n, d < 32 := by
  induction n with
  | zero => simp [unpackAll]
  | succ n ih =>
    intro d hd
    simp only [unpackAll, List.mem_cons] at hd
    rcases hd with rfl | hd
    · exact Nat.mod_lt _ (by decide)
    · exact ih d hd

theorem pack_unpackAll (r n : Nat) : pack (unpackAll r n) = r % 2 ^ (5 * n) := by
  induction n with
  | zero => simp [unpackAll, pack, Nat.mod_one]
  | succ n ih =>
    simp only [unpackAll]
    rw [pack_cons, unpackAll_length, ih, unpack, Nat.shiftRight_eq_div_pow, pow32]
    have : 2 ^ (5 * (n + 1)) = 2 ^ (5 * n) * 32 := by
      have h32 : (32 : Nat) = 2 ^ 5 := rfl
      rw [h32, ← Nat.pow_add, Nat.mul_add]
    rw [this, Nat.mod_mul, Nat.add_comm, Nat.mul_comm (r / _ % 32)]

theorem unpackAll_pack (x : List Nat) (hx : ∀ d ∈ x, d < 32) : unpackAll (pack x) x.length = x := by
  -- both sides are lists of symbols of the same length with the same packing
  have key : ∀ (a b : List Nat), a.length = b.length → (∀ d ∈ a, d < 32) → (∀ d ∈ b, d < 32) →
      pack a = pack b → a = b := by
    intro a
    induction a with
    | nil => intro b hl _ _ _; cases b with
      | nil => rfl
      | cons _ _ => simp at hl
    | cons d a ih =>
      intro b hl ha hb hp
      cases b with
      | nil => simp at hl
      | cons e b =>
        simp only [List.length_cons, Nat.add_right_cancel_iff] at hl
        rw [pack_cons, pack_cons, hl] at hp
        have hpa := pack_lt a (fun y hy => ha y (by simp [hy]))
        have hpb := pack_lt b (fun y hy => hb y (by simp [hy]))
        rw [hl] at hpa
        have hpos : 0 < 32 ^ b.length := Nat.pow_pos (by decide)
        have hde : d = e := by
          have h1 : (d * 32 ^ b.length + pack a) / 32 ^ b.length = d := by
            rw [Nat.mul_comm, Nat.mul_add_div hpos, Nat.div_eq_of_lt hpa, Nat.add_zero]
          have h2 : (e * 32 ^ b.length + pack b) / 32 ^ b.length = e := by
            rw [Nat.mul_comm, Nat.mul_add_div hpos, Nat.div_eq_of_lt hpb, Nat.add_zero]
          rw [← h1, ← h2, hp]
        subst hde
        have : pack a = pack b := by omega
        rw [ih b hl (fun y hy => ha y (by simp [hy])) (fun y hy => hb y (by simp [hy])) this]
  apply key _ _ (unpackAll_length _ _) (unpackAll_lt _ _) hx
  rw [pack_unpackAll, ← pow32]
  exact Nat.mod_eq_of_lt (pack_lt x hx)

end Code

open Code

/-! ### the encoder's checksum -/

theorem createChecksum_length (v : Variant) (w : List Nat) : (createChecksum v w).length = v.code.len := by
  simp [createChecksum, unpackAll_length]

theorem createChecksum_lt (v : Variant) (w : List Nat) : ∀ d ∈ createChecksum v w, d < 32 := by
  simp only [createChecksum]; exact unpackAll_lt _ _

/-- residue before unpacking: shifted residue of `w` XOR the target -/
theorem createChecksum_residue (v : Variant) (hc : v.code.Good) (ht : v.target < 2 ^ (5 * v.code.len))
    (w : List Nat) :
    v.code.polymodFrom (v.code.polymod w) (unpackAll v.target v.code.len)
      = v.code.Tpow v.code.len (v.code.polymod w) ^^^ v.target := by
  rw [polymodFrom_eq_Tpow_xor_pack v.code hc _ _ (unpackAll_lt _ _) (by rw [unpackAll_length]; exact Nat.le_refl _),
    unpackAll_length, pack_unpackAll, Nat.mod_eq_of_lt ht]

/-- the produced checksum verifies -/
theorem polymod_createChecksum (v : Variant) (hc : v.code.Good) (ht : v.target < 2 ^ (5 * v.code.len))
    (w : List Nat) (hw : ∀ x ∈ w, x < 32) :
    v.code.polymod (w ++ createChecksum v w) = v.target := by
  have h1lt : 1 < 2 ^ (5 * v.code.len) := by
    have := hc.len_pos
    calc 1 < 2 ^ 5 := by decide
      _ ≤ 2 ^ (5 * v.code.len) := Nat.pow_le_pow_right (by decide) (by omega)
  have hP : v.code.polymod w < 2 ^ (5 * v.code.len) := polymodFrom_lt v.code hc 1 h1lt w hw
  simp only [polymod, polymodFrom_append]
  rw [polymodFrom_eq_Tpow_xor_pack v.code hc _ _ (createChecksum_lt v w) (by rw [createChecksum_length]; exact Nat.le_refl _)]
  rw [createChecksum_length]
  simp only [createChecksum]
  rw [pack_unpackAll, createChecksum_residue v hc ht w]
  have hlt : v.code.Tpow v.code.len (v.code.polymod w) ^^^ v.target < 2 ^ (5 * v.code.len) :=
    Nat.xor_lt_two_pow (Tpow_lt v.code hc _ _ hP) ht
  rw [Nat.mod_eq_of_lt hlt]
  show v.code.Tpow v.code.len (v.code.polymod w) ^^^ (v.code.Tpow v.code.len (v.code.polymod w) ^^^ v.target) = v.target
  rw [← Nat.xor_assoc, Nat.xor_self, Nat.zero_xor]

/-- … and it is the only one -/
theorem checksum_unique (v : Variant) (hc : v.code.Good) (ht : v.target < 2 ^ (5 * v.code.len))
    (w ck : List Nat) (hck : ∀ x ∈ ck, x < 32) (hlen : ck.length = v.code.len)
    (h : v.code.polymod (w ++ ck) = v.target) : ck = createChecksum v w := by
  simp only [polymod, polymodFrom_append] at h
  rw [polymodFrom_eq_Tpow_xor_pack v.code hc _ _ hck (by omega), hlen] at h
  have hp : pack ck = v.code.Tpow v.code.len (v.code.polymodFrom 1 w) ^^^ v.target := by
    rw [← h, ← Nat.xor_assoc, Nat.xor_self, Nat.zero_xor]
  simp only [createChecksum]
  rw [createChecksum_residue v hc ht w]
  show ck = unpackAll (v.code.Tpow v.code.len (v.code.polymodFrom 1 w) ^^^ v.target) v.code.len
  rw [← hp, ← hlen, unpackAll_pack ck hck]

end EV.Bech32
