/-
  The key-pair clause of C15 over an abstract Schnorr group: tweaking the key pair (BIP341 /
  `secp256k1_keypair_xonly_tweak_add`: negate the secret key when the public point has odd y, then add
  the tweak) yields the secret key of exactly the point that the x-only tweak
  (`secp256k1_xonly_pubkey_tweak_add`: even-y lift of the x-only key plus t·G) produces.
  Only the group laws actually used are assumed, as fields of `KeyAlgebra`.
-/
namespace EV.Proofs.TaprootKeypair

/-- scalars `S`, points `G`, x-only keys `X` with the laws used by the proof -/
structure KeyAlgebra (S G X : Type) where
  sadd : S → S → S
  sneg : S → S
  padd : G → G → G
  pneg : G → G
  /-- secret key ↦ public point (sk·G) -/
  pub : S → G
  xonly : G → X
  /-- parity of the y coordinate -/
  odd : G → Bool
  /-- the even-y point with the given x coordinate -/
  lift : X → G
  pub_add : ∀ a b, pub (sadd a b) = padd (pub a) (pub b)
  pub_neg : ∀ a, pub (sneg a) = pneg (pub a)
  lift_xonly : ∀ P, lift (xonly P) = if odd P then pneg P else P

namespace KeyAlgebra
variable {S G X : Type} (A : KeyAlgebra S G X)

/-- `XOnlyPublicKey::add_tweak`: tweaked x-only key and parity -/
def xonlyTweakAdd (x : X) (t : S) : X × Bool :=
  let q := A.padd (A.lift x) (A.pub t)
  (A.xonly q, A.odd q)

/-- `Keypair::add_xonly_tweak`: the tweaked secret key -/
def keypairTweak (sk : S) (t : S) : S :=
  A.sadd (if A.odd (A.pub sk) then A.sneg sk else sk) t

theorem keypairTweak_pub (sk t : S) :
    A.pub (A.keypairTweak sk t) = A.padd (A.lift (A.xonly (A.pub sk))) (A.pub t) := by
  unfold keypairTweak
  rw [A.pub_add, A.lift_xonly]
  cases h : A.odd (A.pub sk)
  · simp
  · simp [A.pub_neg]

theorem keypair_matches (sk t : S) :
    (A.xonly (A.pub (A.keypairTweak sk t)), A.odd (A.pub (A.keypairTweak sk t))) =
      A.xonlyTweakAdd (A.xonly (A.pub sk)) t := by
  simp only [xonlyTweakAdd, keypairTweak_pub]
end KeyAlgebra

/-- non-vacuity: the integers with `pub = id`, x-only = absolute value, "odd" = negative -/
def intAlgebra : KeyAlgebra Int Int Nat where
  sadd := (· + ·)
  sneg := (- ·)
  padd := (· + ·)
  pneg := (- ·)
  pub := id
  xonly := Int.natAbs
  odd := fun p => decide (p < 0)
  lift := fun x => (x : Int)
  pub_add := fun _ _ => rfl
  pub_neg := fun _ => rfl
  lift_xonly := by
    intro P
    by_cases h : P < 0
    · simp [h]; omega
    · simp [h]; omega

end EV.Proofs.TaprootKeypair
