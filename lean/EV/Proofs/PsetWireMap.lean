/-
  The generic typed-map codec of EV.Model.PsetWire is lawful for ANY field table whose tags are
  pairwise distinct and whose field codecs are idempotent (proved ONCE here; the three concrete
  tables are instantiated in EV.Proofs.PsetWireTables):

    insertAll_getPairs   decoding the emitted pairs of well-formed slots gives back the slots
                         (whatever the emission order of the `BTreeMap` groups is);
    insertAll_wf         whatever the pair loop accepts is a list of well-formed slots
                         (sorted duplicate-free maps, canonical values);
  plus the rejection lemmas for duplicate keys.
-/
import EV.Proofs.PsetWireRaw
import EV.Proofs.PsetMap
namespace EV.Proofs.PsetWireMap
open EV EV.Codec EV.PsetWire EV.Proofs.CodecPrim EV.Proofs.PsetWireRaw

/-! ### tables and routing -/

structure TableOk (T : List Field) : Prop where
  nodup : (T.map (·.tag)).Nodup
  noPlainProp : ∀ f ∈ T, f.tag ≠ .plain propType

/-- a proprietary key that is not routed to a dedicated field of the table -/
def PropFree (T : List Field) (k : Bytes) : Prop :=
  ∃ pfx sub ik, decPropKey k = some (pfx, sub, ik) ∧ (pfx = psetPrefix → findTag T (.pset sub) = none)

/-- an unknown key `type ‖ data`: its type byte has no field of its own -/
def UnkFree (T : List Field) (k : Bytes) : Prop :=
  ∃ ty r, k = ty :: r ∧ ty ≠ propType ∧ findTag T (.plain ty) = none

def tagOk (T : List Field) (t : Tag) (k : Bytes) : Prop :=
  match t with
  | .propAny => PropFree T k
  | .unkAny => UnkFree T k
  | _ => True

theorem findTag_some {T : List Field} {t : Tag} {i : Nat} (h : findTag T t = some i) :
    ∃ f, T[i]? = some f ∧ f.tag = t := by
  induction T generalizing i with
  | nil => cases h
  | cons f fs ih =>
    simp only [findTag] at h
    split at h
    · rename_i e
      simp only [Option.some.injEq] at h
      subst h
      exact ⟨f, rfl, e⟩
    · cases hj : findTag fs t with
      | none => rw [hj] at h; cases h
      | some j =>
        rw [hj] at h
        simp only [Option.map_some, Option.some.injEq] at h
        subst h
        obtain ⟨g, hg, e⟩ := ih hj
        exact ⟨g, by simpa using hg, e⟩

theorem findTag_complete {T : List Field} (hn : (T.map (·.tag)).Nodup) {i : Nat} {f : Field} (h : T[i]? = some f) :
    findTag T f.tag = some i := by
  induction T generalizing i with
  | nil => simp at h
  | cons g gs ih =>
    simp only [List.map_cons, List.nodup_cons] at hn
    cases i with
    | zero =>
      simp only [List.getElem?_cons_zero, Option.some.injEq] at h
      subst h
      simp only [findTag, if_true]
    | succ j =>
      simp only [List.getElem?_cons_succ] at h
      have hmem : f.tag ∈ gs.map (·.tag) := List.mem_map.mpr ⟨f, List.mem_of_getElem? h, rfl⟩
      have hne : ¬ g.tag = f.tag := fun e => hn.1 (e ▸ hmem)
      simp only [findTag, if_neg hne, ih hn.2 h, Option.map_some]

theorem psetPrefix_len : psetPrefix.length ≤ maxVecSize := by decide

theorem classify_complete {T : List Field} (hT : TableOk T) {i : Nat} {f : Field} (h : T[i]? = some f) (k : Bytes)
    (hk : tagOk T f.tag k) : classify T (rawKeyOf f.tag k) = .ok (i, k) := by
  have hf := findTag_complete hT.nodup h
  have hmem : f ∈ T := List.mem_of_getElem? h
  cases ht : f.tag with
  | plain ty =>
    rw [ht] at hf
    have hne : ¬ ty = propType := fun e => hT.noPlainProp f hmem (by rw [ht, e])
    simp only [rawKeyOf, classify, if_neg hne, hf]
  | pset sub =>
    rw [ht] at hf
    simp only [rawKeyOf, classify, if_true, decPropKey_enc _ _ _ psetPrefix_len, hf]
  | propAny =>
    rw [ht] at hf hk
    obtain ⟨pfx, sub, ik, h1, h2⟩ := hk
    simp only [rawKeyOf, classify, if_true, h1]
    by_cases e : pfx = psetPrefix
    · simp only [if_pos e, h2 e, hf]
    · simp only [if_neg e, hf]
  | unkAny =>
    rw [ht] at hf hk
    obtain ⟨ty, r, rfl, h1, h2⟩ := hk
    simp only [rawKeyOf, List.headD_cons, List.tail_cons, classify, if_neg h1, h2, hf]

theorem classify_sound {T : List Field} {rk : RawKey} {i : Nat} {ik : Bytes} (h : classify T rk = .ok (i, ik)) :
    ∃ f, T[i]? = some f ∧ rawKeyOf f.tag ik = rk ∧ tagOk T f.tag ik := by
  obtain ⟨ty, key⟩ := rk
  simp only [classify] at h
  split at h
  · rename_i hty
    subst hty
    cases hd : decPropKey key with
    | none => rw [hd] at h; cases h
    | some q =>
      obtain ⟨pfx, sub, k'⟩ := q
      rw [hd] at h
      simp only at h
      obtain ⟨e1, _⟩ := decPropKey_sound _ _ _ _ hd
      split at h
      · rename_i j hj
        simp only [Res.ok.injEq, Prod.mk.injEq] at h
        obtain ⟨rfl, rfl⟩ := h
        split at hj
        · rename_i hp
          obtain ⟨f, hf, ht⟩ := findTag_some hj
          refine ⟨f, hf, ?_, ?_⟩
          · rw [ht]; simp only [rawKeyOf, e1, hp]
          · rw [ht]; trivial
        · cases hj
      · rename_i hnone
        cases hp : findTag T .propAny with
        | none => rw [hp] at h; cases h
        | some j =>
          rw [hp] at h
          simp only [Res.ok.injEq, Prod.mk.injEq] at h
          obtain ⟨rfl, rfl⟩ := h
          obtain ⟨f, hf, ht⟩ := findTag_some hp
          refine ⟨f, hf, ?_, ?_⟩
          · rw [ht]; rfl
          · rw [ht]
            refine ⟨pfx, sub, k', hd, ?_⟩
            intro e
            simp only [if_pos e] at hnone
            exact hnone
  · rename_i hty
    cases hp : findTag T (.plain ty) with
    | some j =>
      rw [hp] at h
      simp only [Res.ok.injEq, Prod.mk.injEq] at h
      obtain ⟨rfl, rfl⟩ := h
      obtain ⟨f, hf, ht⟩ := findTag_some hp
      exact ⟨f, hf, by rw [ht]; rfl, by rw [ht]; trivial⟩
    | none =>
      rw [hp] at h
      simp only at h
      cases hu : findTag T .unkAny with
      | none => rw [hu] at h; cases h
      | some j =>
        rw [hu] at h
        simp only [Res.ok.injEq, Prod.mk.injEq] at h
        obtain ⟨rfl, rfl⟩ := h
        obtain ⟨f, hf, ht⟩ := findTag_some hu
        refine ⟨f, hf, by rw [ht]; rfl, ?_⟩
        rw [ht]
        exact ⟨ty, key, rfl, hty, hp⟩

/-! ### well-formed slots -/

def shapeOk (f : Field) (s : Slot) : Prop :=
  match f.kind with
  | .opt => s.length ≤ 1 ∧ ∀ kv ∈ s, kv.1 = []
  | .optLast => s.length ≤ 1 ∧ ∀ kv ∈ s, kv.1 = []
  | .map => KV.Sorted s ∧ ∀ kv ∈ s, kv.1 ≠ [] ∧ f.validKey kv.1 = true
  | .keyList => (KV.keys s).Nodup ∧ ∀ kv ∈ s, f.validKey kv.1 = true

/-- an entry a decoder can have produced: routed to this field, within the size limits of the
    framing, holding a canonical value -/
def entryOk (T : List Field) (f : Field) (kv : Bytes × Bytes) : Prop :=
  tagOk T f.tag kv.1 ∧ (rawKeyOf f.tag kv.1).key.length ≤ maxVecSize ∧ kv.2.length ≤ maxVecSize ∧
    f.normVal kv.1 kv.2 = some kv.2

structure WfSlot (T : List Field) (f : Field) (s : Slot) : Prop where
  entries : ∀ kv ∈ s, entryOk T f kv
  shape : shapeOk f s

def WfSlots (T : List Field) (st : List Slot) : Prop :=
  st.length = T.length ∧ ∀ (i : Nat) f s, T[i]? = some f → st[i]? = some s → WfSlot T f s

/-- the same, field by field (convenient for concrete tables) -/
def WfZip (T : List Field) : List Field → List Slot → Prop
  | [], [] => True
  | f :: fs, s :: ss => WfSlot T f s ∧ WfZip T fs ss
  | _, _ => False

theorem wfZip_iff (T : List Field) : ∀ (fs : List Field) (ss : List Slot),
    WfZip T fs ss ↔ (ss.length = fs.length ∧ ∀ (i : Nat) f s, fs[i]? = some f → ss[i]? = some s → WfSlot T f s) := by
  intro fs
  induction fs with
  | nil =>
    intro ss
    cases ss with
    | nil => simp [WfZip]
    | cons s ss => simp [WfZip]
  | cons f fs ih =>
    intro ss
    cases ss with
    | nil => simp [WfZip]
    | cons s ss =>
      simp only [WfZip, ih ss, List.length_cons, Nat.add_right_cancel_iff]
      constructor
      · rintro ⟨h0, hl, hr⟩
        refine ⟨hl, ?_⟩
        intro i g t hg ht
        cases i with
        | zero =>
          simp only [List.getElem?_cons_zero, Option.some.injEq] at hg ht
          subst hg; subst ht; exact h0
        | succ j =>
          simp only [List.getElem?_cons_succ] at hg ht
          exact hr j g t hg ht
      · rintro ⟨hl, hr⟩
        refine ⟨hr 0 f s rfl rfl, hl, ?_⟩
        intro i g t hg ht
        exact hr (i + 1) g t (by simpa using hg) (by simpa using ht)

theorem wfSlots_iff_zip (T : List Field) (st : List Slot) : WfSlots T st ↔ WfZip T T st :=
  (wfZip_iff T T st).symm

theorem wfSlot_nil (T : List Field) (f : Field) : WfSlot T f [] := by
  refine ⟨(by intro kv h; cases h), ?_⟩
  unfold shapeOk
  cases f.kind <;> simp [KV.Sorted, KV.keys]

theorem wfSlots_empty (T : List Field) : WfSlots T (emptySlots T) := by
  refine ⟨by simp [emptySlots], ?_⟩
  intro i f s hf hs
  simp only [emptySlots, List.getElem?_map, hf, Option.map_some, Option.some.injEq] at hs
  subst hs
  exact wfSlot_nil T f

/-! ### one field: inserting a run of pairs -/

def insertMany (f : Field) : Slot → List (Bytes × Bytes) → Res Slot
  | s, [] => .ok s
  | s, kv :: r =>
    match f.insert s kv.1 kv.2 with
    | .ok s' => insertMany f s' r
    | .err e => .err e
    | .panic m => .panic m

theorem set_self {α} : ∀ (l : List α) (i : Nat) (a : α), l[i]? = some a → l.set i a = l := by
  intro l
  induction l with
  | nil => intro i a h; rfl
  | cons x r ih =>
    intro i a h
    cases i with
    | zero => simp only [List.getElem?_cons_zero, Option.some.injEq] at h; subst h; rfl
    | succ j => simp only [List.getElem?_cons_succ] at h; simp only [List.set_cons_succ, ih j a h]

/-- the pairs emitted for one field are routed back to its slot and processed there -/
theorem insertAll_emit {T : List Field} (hT : TableOk T) {i : Nat} {f : Field} (hf : T[i]? = some f)
    (kvs : List (Bytes × Bytes)) (hk : ∀ kv ∈ kvs, tagOk T f.tag kv.1) :
    ∀ (st : List Slot) (s0 s1 : Slot) (more : List Pair), st[i]? = some s0 → insertMany f s0 kvs = .ok s1 →
      insertAll T st (kvs.map (fun kv => (rawKeyOf f.tag kv.1, kv.2)) ++ more) = insertAll T (st.set i s1) more := by
  induction kvs with
  | nil =>
    intro st s0 s1 more hs hm
    simp only [insertMany, Res.ok.injEq] at hm
    subst hm
    simp only [List.map_nil, List.nil_append]
    rw [set_self _ _ _ hs]
  | cons kv r ih =>
    intro st s0 s1 more hs hm
    simp only [insertMany] at hm
    cases hi : f.insert s0 kv.1 kv.2 with
    | ok s' =>
      rw [hi] at hm
      simp only at hm
      have hc := classify_complete hT hf kv.1 (hk kv (List.mem_cons_self ..))
      have hlt : i < st.length := by
        rcases List.getElem?_eq_some_iff.mp hs with ⟨h, _⟩; exact h
      simp only [List.map_cons, List.cons_append, insertAll, insertPair, hc, hf, hs, hi]
      have hs' : (st.set i s')[i]? = some s' := by
        rw [List.getElem?_set_self hlt]
      rw [ih (fun kv' h' => hk kv' (List.mem_cons_of_mem _ h')) (st.set i s') s' s1 more hs' hm, List.set_set]
    | err e => rw [hi] at hm; cases hm
    | panic m => rw [hi] at hm; cases hm

/-! ### sorting by a comparison is a rearrangement -/

theorem mem_insertBy (lt : Bytes → Bytes → Bool) (x y : Bytes × Bytes) (l : Slot) :
    y ∈ insertBy lt x l ↔ (y = x ∨ y ∈ l) := by
  induction l with
  | nil => simp [insertBy]
  | cons z r ih =>
    simp only [insertBy]
    split
    · simp only [List.mem_cons, ih]
      constructor
      · rintro (h | h | h)
        · exact Or.inr (Or.inl h)
        · exact Or.inl h
        · exact Or.inr (Or.inr h)
      · rintro (h | h | h)
        · exact Or.inr (Or.inl h)
        · exact Or.inl h
        · exact Or.inr (Or.inr h)
    · simp only [List.mem_cons]

theorem mem_sortBy (lt : Bytes → Bytes → Bool) (y : Bytes × Bytes) (l : Slot) : y ∈ sortBy lt l ↔ y ∈ l := by
  induction l with
  | nil => simp [sortBy]
  | cons z r ih =>
    simp only [sortBy, List.foldr_cons, List.mem_cons] at *
    rw [mem_insertBy, ih]

theorem mem_keys_insertBy (lt : Bytes → Bytes → Bool) (x : Bytes × Bytes) (k : Bytes) (l : Slot) :
    k ∈ KV.keys (insertBy lt x l) ↔ (k = x.1 ∨ k ∈ KV.keys l) := by
  simp only [KV.keys, List.mem_map]
  constructor
  · rintro ⟨y, hy, rfl⟩
    rw [mem_insertBy] at hy
    rcases hy with rfl | hy
    · exact Or.inl rfl
    · exact Or.inr ⟨y, hy, rfl⟩
  · rintro (rfl | ⟨y, hy, rfl⟩)
    · exact ⟨x, (mem_insertBy ..).mpr (Or.inl rfl), rfl⟩
    · exact ⟨y, (mem_insertBy ..).mpr (Or.inr hy), rfl⟩

theorem mem_keys_sortBy (lt : Bytes → Bytes → Bool) (k : Bytes) (l : Slot) :
    k ∈ KV.keys (sortBy lt l) ↔ k ∈ KV.keys l := by
  simp only [KV.keys, List.mem_map, mem_sortBy]

theorem lookup_insertBy (lt : Bytes → Bytes → Bool) (x : Bytes × Bytes) (l : Slot) (hx : x.1 ∉ KV.keys l) (k : Bytes) :
    KV.lookup k (insertBy lt x l) = if k = x.1 then some x.2 else KV.lookup k l := by
  induction l with
  | nil => simp [insertBy, KV.lookup]
  | cons z r ih =>
    obtain ⟨kz, vz⟩ := z
    obtain ⟨kx, vx⟩ := x
    simp only [KV.keys, List.map_cons, List.mem_cons, not_or] at hx
    simp only [insertBy]
    split
    · simp only [KV.lookup]
      rw [ih (by simpa [KV.keys] using hx.2)]
      by_cases e1 : k = kz
      · have : ¬ k = kx := fun e => hx.1 (e.symm.trans e1)
        simp only [e1, if_true]
        rw [if_neg (fun e => hx.1 e.symm)]
      · simp only [e1, if_false]
    · simp only [KV.lookup]

theorem nodup_keys_insertBy (lt : Bytes → Bytes → Bool) (x : Bytes × Bytes) (l : Slot) (hx : x.1 ∉ KV.keys l)
    (hl : (KV.keys l).Nodup) : (KV.keys (insertBy lt x l)).Nodup := by
  induction l with
  | nil => simp [insertBy, KV.keys]
  | cons z r ih =>
    simp only [KV.keys, List.map_cons, List.mem_cons, not_or, List.nodup_cons] at hx hl
    simp only [insertBy]
    split
    · have := ih (by simpa [KV.keys] using hx.2) (by simpa [KV.keys] using hl.2)
      simp only [KV.keys, List.map_cons, List.nodup_cons]
      refine ⟨?_, this⟩
      intro hm
      have := (mem_keys_insertBy lt x z.1 r).mp (by simpa [KV.keys] using hm)
      rcases this with e | h
      · exact hx.1 e.symm
      · exact hl.1 (by simpa [KV.keys] using h)
    · simp only [KV.keys, List.map_cons, List.nodup_cons, List.mem_cons, not_or]
      exact ⟨⟨hx.1, hx.2⟩, hl.1, hl.2⟩

theorem sorted_nodup {V : Type} {m : List (Bytes × V)} (h : KV.Sorted m) : (KV.keys m).Nodup := by
  unfold KV.Sorted at h
  refine List.Pairwise.imp ?_ h
  intro a b hab e
  subst e
  rw [bytesLt_irrefl] at hab
  cases hab

theorem sortBy_facts (lt : Bytes → Bytes → Bool) (l : Slot) (hl : (KV.keys l).Nodup) :
    (KV.keys (sortBy lt l)).Nodup ∧ ∀ k, KV.lookup k (sortBy lt l) = KV.lookup k l := by
  induction l with
  | nil => simp [sortBy, KV.keys]
  | cons z r ih =>
    simp only [KV.keys, List.map_cons, List.nodup_cons] at hl
    obtain ⟨h1, h2⟩ := ih (by simpa [KV.keys] using hl.2)
    have hz : z.1 ∉ KV.keys (sortBy lt r) := by
      rw [mem_keys_sortBy]; simpa [KV.keys] using hl.1
    refine ⟨?_, ?_⟩
    · exact nodup_keys_insertBy lt z _ hz h1
    · intro k
      have := lookup_insertBy lt z (sortBy lt r) hz k
      have e : sortBy lt (z :: r) = insertBy lt z (sortBy lt r) := rfl
      rw [e, this, h2 k]
      obtain ⟨kz, vz⟩ := z
      simp only [KV.lookup]

/-- `BTreeMap::extend` with a duplicate-free (not necessarily sorted) list -/
theorem lookup_extend_nodup {V : Type} (a b : List (Bytes × V)) (hb : (KV.keys b).Nodup) (k : Bytes) :
    KV.lookup k (KV.extend a b) = mergeOpt (KV.lookup k b) (KV.lookup k a) := by
  induction b generalizing a with
  | nil => rfl
  | cons p r ih =>
    obtain ⟨k1, v1⟩ := p
    simp only [KV.keys, List.map_cons, List.nodup_cons] at hb
    rw [KV.extend_cons, ih _ (by simpa [KV.keys] using hb.2), KV.lookup_insert, KV.lookup]
    by_cases e : k = k1
    · subst e
      have : KV.lookup k r = none := by
        rw [KV.lookup_eq_none_iff]; simpa [KV.keys] using hb.1
      rw [this]
      simp only [if_true]
      rfl
    · simp only [e, if_false]

/-- rebuilding a sorted map from its entries in any order of emission gives the map back -/
theorem extend_sortBy (lt : Bytes → Bytes → Bool) (s : Slot) (hs : KV.Sorted s) : KV.extend [] (sortBy lt s) = s := by
  obtain ⟨h1, h2⟩ := sortBy_facts lt s (sorted_nodup hs)
  apply KV.ext_of_sorted (KV.sorted_extend _ _ KV.sorted_nil) hs
  intro k
  rw [lookup_extend_nodup _ _ h1, h2]
  cases KV.lookup k s <;> rfl

/-! ### per-kind: the emitted run of a well-formed slot rebuilds the slot -/

theorem insertMany_map (f : Field) (hk : f.kind = .map) :
    ∀ (l acc : Slot), (KV.keys l).Nodup → (∀ k ∈ KV.keys l, k ∉ KV.keys acc) →
      (∀ kv ∈ l, kv.1 ≠ [] ∧ f.validKey kv.1 = true ∧ f.normVal kv.1 kv.2 = some kv.2) →
      insertMany f acc l = .ok (KV.extend acc l) := by
  intro l
  induction l with
  | nil => intro acc _ _ _; rfl
  | cons kv r ih =>
    intro acc hn hd he
    obtain ⟨k, v⟩ := kv
    simp only [KV.keys, List.map_cons, List.nodup_cons, List.mem_cons, forall_eq_or_imp] at hn hd he
    obtain ⟨⟨e1, e2, e3⟩, her⟩ := he
    have hlk : KV.lookup k acc = none := by
      rw [KV.lookup_eq_none_iff]; exact hd.1
    simp only [insertMany, Field.insert, hk, if_neg e1, e2, hlk, Option.isSome_none, e3, Bool.false_eq_true, if_false,
      Bool.true_eq_false]
    rw [KV.extend_cons]
    apply ih
    · simpa [KV.keys] using hn.2
    · intro k' hk'
      rw [KV.mem_keys_insert]
      rintro (e | h)
      · subst e; exact hn.1 (by simpa [KV.keys] using hk')
      · exact hd.2 k' (by simpa [KV.keys] using hk') h
    · exact her

theorem lookup_append_keys (s : Slot) (kv : Bytes × Bytes) (k : Bytes) :
    k ∈ KV.keys (s ++ [kv]) ↔ (k ∈ KV.keys s ∨ k = kv.1) := by
  simp [KV.keys]

theorem insertMany_keyList (f : Field) (hk : f.kind = .keyList) :
    ∀ (l acc : Slot), (KV.keys l).Nodup → (∀ k ∈ KV.keys l, k ∉ KV.keys acc) →
      (∀ kv ∈ l, f.validKey kv.1 = true ∧ f.normVal kv.1 kv.2 = some kv.2) →
      insertMany f acc l = .ok (acc ++ l) := by
  intro l
  induction l with
  | nil => intro acc _ _ _; simp [insertMany]
  | cons kv r ih =>
    intro acc hn hd he
    obtain ⟨k, v⟩ := kv
    simp only [KV.keys, List.map_cons, List.nodup_cons, List.mem_cons, forall_eq_or_imp] at hn hd he
    obtain ⟨⟨e2, e3⟩, her⟩ := he
    have hlk : KV.lookup k acc = none := by
      rw [KV.lookup_eq_none_iff]; exact hd.1
    simp only [insertMany, Field.insert, hk, e2, hlk, Option.isSome_none, e3, Bool.false_eq_true, if_false,
      Bool.true_eq_false]
    have : acc ++ (k, v) :: r = (acc ++ [(k, v)]) ++ r := by simp
    rw [this]
    apply ih
    · simpa [KV.keys] using hn.2
    · intro k' hk'
      rw [lookup_append_keys]
      rintro (h | e)
      · exact hd.2 k' (by simpa [KV.keys] using hk') h
      · simp only at e; subst e; exact hn.1 (by simpa [KV.keys] using hk')
    · exact her

theorem insertMany_order (T : List Field) (f : Field) (s : Slot) (h : WfSlot T f s) :
    insertMany f [] (f.order s) = .ok s := by
  have hen := h.entries
  have hsh := h.shape
  unfold shapeOk at hsh
  cases hk : f.kind with
  | opt =>
    rw [hk] at hsh
    simp only [Field.order, hk]
    cases s with
    | nil => rfl
    | cons kv r =>
      cases r with
      | nil =>
        obtain ⟨k, v⟩ := kv
        have e : k = [] := hsh.2 (k, v) (List.mem_cons_self ..)
        subst e
        have hv := (hen ([], v) (List.mem_cons_self ..)).2.2.2
        simp only at hv
        simp [insertMany, Field.insert, hk, hv]
      | cons x y => simp at hsh
  | optLast =>
    rw [hk] at hsh
    simp only [Field.order, hk]
    cases s with
    | nil => rfl
    | cons kv r =>
      cases r with
      | nil =>
        obtain ⟨k, v⟩ := kv
        have e : k = [] := hsh.2 (k, v) (List.mem_cons_self ..)
        subst e
        have hv := (hen ([], v) (List.mem_cons_self ..)).2.2.2
        simp only at hv
        simp [insertMany, Field.insert, hk, hv]
      | cons x y => simp at hsh
  | map =>
    rw [hk] at hsh
    simp only [Field.order, hk]
    obtain ⟨h1, _⟩ := sortBy_facts f.keyLt s (sorted_nodup hsh.1)
    rw [insertMany_map f hk _ [] h1 (by intro k _ hm; simp [KV.keys] at hm)]
    · rw [extend_sortBy _ _ hsh.1]
    · intro kv hkv
      rw [mem_sortBy] at hkv
      exact ⟨(hsh.2 kv hkv).1, (hsh.2 kv hkv).2, (hen kv hkv).2.2.2⟩
  | keyList =>
    rw [hk] at hsh
    simp only [Field.order, hk]
    rw [insertMany_keyList f hk s [] hsh.1 (by intro k _ hm; simp [KV.keys] at hm)]
    · simp
    · intro kv hkv
      exact ⟨hsh.2 kv hkv, (hen kv hkv).2.2.2⟩

theorem mem_order (f : Field) (s : Slot) (kv : Bytes × Bytes) : kv ∈ f.order s ↔ kv ∈ s := by
  unfold Field.order
  cases f.kind <;> simp only [mem_sortBy]

/-! ### the whole map -/

theorem getPairs_cons (f : Field) (fs : List Field) (s : Slot) (ss : List Slot) :
    getPairs (f :: fs) (s :: ss) = f.emit s ++ getPairs fs ss := rfl

/-- DECODE ∘ ENCODE on slots: for a table with pairwise distinct tags, inserting the emitted pairs of
    well-formed slots into the empty state gives the slots back -/
theorem insertAll_getPairs_aux {T : List Field} (hT : TableOk T) :
    ∀ (suf pre : List Field) (sPre sSuf : List Slot), T = pre ++ suf → sPre.length = pre.length →
      WfZip T suf sSuf →
      insertAll T (sPre ++ sSuf.map (fun _ => [])) (getPairs suf sSuf) = .ok (sPre ++ sSuf) := by
  intro suf
  induction suf with
  | nil =>
    intro pre sPre sSuf _ _ hw
    cases sSuf with
    | nil => simp [getPairs, insertAll]
    | cons s ss => simp [WfZip] at hw
  | cons f fs ih =>
    intro pre sPre sSuf hTe hlen hw
    cases sSuf with
    | nil => simp [WfZip] at hw
    | cons s ss =>
      simp only [WfZip] at hw
      obtain ⟨hws, hwr⟩ := hw
      have hf : T[pre.length]? = some f := by
        rw [hTe, List.getElem?_append_right (Nat.le_refl _)]
        simp
      have hs0 : (sPre ++ (s :: ss).map (fun _ => ([] : Slot)))[pre.length]? = some [] := by
        rw [List.getElem?_append_right (by omega)]
        simp [hlen]
      have hm := insertMany_order T f s hws
      have hk : ∀ kv ∈ f.order s, tagOk T f.tag kv.1 := by
        intro kv hkv
        rw [mem_order] at hkv
        exact (hws.entries kv hkv).1
      rw [getPairs_cons]
      unfold Field.emit
      rw [insertAll_emit hT hf (f.order s) hk _ [] s _ hs0 hm]
      have hset : (sPre ++ (s :: ss).map (fun _ => ([] : Slot))).set pre.length s =
          (sPre ++ [s]) ++ ss.map (fun _ => ([] : Slot)) := by
        rw [List.set_append_right _ _ (by omega)]
        simp [hlen]
      rw [hset]
      have := ih (pre ++ [f]) (sPre ++ [s]) ss (by simp [hTe]) (by simp [hlen]) hwr
      simpa using this

theorem insertAll_getPairs {T : List Field} (hT : TableOk T) (st : List Slot) (hw : WfSlots T st) :
    insertAll T (emptySlots T) (getPairs T st) = .ok st := by
  have hz := (wfSlots_iff_zip T st).mp hw
  have := insertAll_getPairs_aux hT T [] [] st rfl rfl hz
  simp only [List.nil_append] at this
  have he : emptySlots T = st.map (fun _ => ([] : Slot)) := by
    apply List.ext_getElem
    · simp [emptySlots, hw.1]
    · intro i h1 h2
      simp [emptySlots]
  rw [he]
  exact this


/-! ### whatever the pair loop accepts is well-formed -/

/-- a field codec is idempotent and never lengthens a value -/
def FieldLaw (f : Field) : Prop :=
  ∀ k v c, f.normVal k v = some c → f.normVal k c = some c ∧ c.length ≤ v.length

def TableLaw (T : List Field) : Prop := ∀ f ∈ T, FieldLaw f

theorem mem_kv_insert {V : Type} (k : Bytes) (v : V) (m : List (Bytes × V)) (x : Bytes × V) (h : x ∈ KV.insert k v m) :
    x = (k, v) ∨ x ∈ m := by
  induction m with
  | nil => simp only [KV.insert, List.mem_singleton] at h; exact Or.inl h
  | cons p r ih =>
    obtain ⟨k1, v1⟩ := p
    simp only [KV.insert] at h
    split at h
    · simp only [List.mem_cons] at h ⊢
      exact h
    · split at h
      · simp only [List.mem_cons] at h ⊢
        rcases h with h | h
        · exact Or.inl h
        · exact Or.inr (Or.inr h)
      · simp only [List.mem_cons] at h ⊢
        rcases h with h | h
        · exact Or.inr (Or.inl h)
        · rcases ih h with h | h
          · exact Or.inl h
          · exact Or.inr (Or.inr h)

theorem insert_wf (T : List Field) (f : Field) (hl : FieldLaw f) (s s' : Slot) (k v : Bytes) (hw : WfSlot T f s)
    (htag : tagOk T f.tag k) (hklen : (rawKeyOf f.tag k).key.length ≤ maxVecSize) (hvlen : v.length ≤ maxVecSize)
    (h : f.insert s k v = .ok s') : WfSlot T f s' := by
  have hsh := hw.shape
  unfold shapeOk at hsh
  unfold Field.insert at h
  cases hk : f.kind with
  | opt =>
    rw [hk] at h hsh
    simp only at h
    split at h
    · cases h
    · rename_i hk0
      have hk0 : k = [] := Classical.not_not.mp hk0
      subst hk0
      split at h
      · cases h
      · cases hn : f.normVal [] v with
        | none => rw [hn] at h; cases h
        | some c =>
          rw [hn] at h
          simp only [Res.ok.injEq] at h
          subst h
          obtain ⟨h1, h2⟩ := hl _ _ _ hn
          refine ⟨?_, ?_⟩
          · intro kv hkv
            simp only [List.mem_singleton] at hkv
            subst hkv
            exact ⟨htag, hklen, by simp only; omega, h1⟩
          · unfold shapeOk
            rw [hk]
            simp
  | optLast =>
    rw [hk] at h hsh
    simp only at h
    split at h
    · cases h
    · rename_i hk0
      have hk0 : k = [] := Classical.not_not.mp hk0
      subst hk0
      cases hn : f.normVal [] v with
      | none => rw [hn] at h; cases h
      | some c =>
        rw [hn] at h
        simp only [Res.ok.injEq] at h
        subst h
        obtain ⟨h1, h2⟩ := hl _ _ _ hn
        refine ⟨?_, ?_⟩
        · intro kv hkv
          simp only [List.mem_singleton] at hkv
          subst hkv
          exact ⟨htag, hklen, by simp only; omega, h1⟩
        · unfold shapeOk
          rw [hk]
          simp
  | map =>
    rw [hk] at h hsh
    simp only at h
    split at h
    · cases h
    · rename_i hk0
      split at h
      · cases h
      · rename_i hvk
        split at h
        · cases h
        · cases hn : f.normVal k v with
          | none => rw [hn] at h; cases h
          | some c =>
            rw [hn] at h
            simp only [Res.ok.injEq] at h
            subst h
            obtain ⟨h1, h2⟩ := hl _ _ _ hn
            have hvk' : f.validKey k = true := by
              cases hh : f.validKey k with
              | true => rfl
              | false => exact absurd hh hvk
            refine ⟨?_, ?_⟩
            · intro kv hkv
              rcases mem_kv_insert _ _ _ _ hkv with e | hm
              · subst e
                exact ⟨htag, hklen, by simp only; omega, h1⟩
              · exact hw.entries kv hm
            · unfold shapeOk
              rw [hk]
              refine ⟨KV.sorted_insert _ _ _ hsh.1, ?_⟩
              intro kv hkv
              rcases mem_kv_insert _ _ _ _ hkv with e | hm
              · subst e
                exact ⟨hk0, hvk'⟩
              · exact hsh.2 kv hm
  | keyList =>
    rw [hk] at h hsh
    simp only at h
    split at h
    · cases h
    · rename_i hvk
      split at h
      · cases h
      · rename_i hlk
        cases hn : f.normVal k v with
        | none => rw [hn] at h; cases h
        | some c =>
          rw [hn] at h
          simp only [Res.ok.injEq] at h
          subst h
          obtain ⟨h1, h2⟩ := hl _ _ _ hn
          have hvk' : f.validKey k = true := by
            cases hh : f.validKey k with
            | true => rfl
            | false => exact absurd hh hvk
          have hnot : k ∉ KV.keys s := by
            rw [← KV.lookup_eq_none_iff]
            cases hh : KV.lookup k s with
            | none => rfl
            | some x => rw [hh] at hlk; simp at hlk
          refine ⟨?_, ?_⟩
          · intro kv hkv
            rw [List.mem_append] at hkv
            rcases hkv with hm | e
            · exact hw.entries kv hm
            · simp only [List.mem_singleton] at e
              subst e
              exact ⟨htag, hklen, by simp only; omega, h1⟩
          · unfold shapeOk
            rw [hk]
            refine ⟨?_, ?_⟩
            · simp only [KV.keys, List.map_append, List.map_cons, List.map_nil]
              rw [List.nodup_append]
              refine ⟨hsh.1, by simp, ?_⟩
              intro a ha b hb
              simp only [List.mem_singleton] at hb
              subst hb
              intro e
              subst e
              exact hnot ha
            · intro kv hkv
              rw [List.mem_append] at hkv
              rcases hkv with hm | e
              · exact hsh.2 kv hm
              · simp only [List.mem_singleton] at e
                subst e
                exact hvk'

theorem insertPair_wf {T : List Field} (hL : TableLaw T) (st st' : List Slot) (p : Pair) (hw : WfSlots T st)
    (hp : PairOk p) (h : insertPair T st p = .ok st') : WfSlots T st' := by
  unfold insertPair at h
  cases hc : classify T p.1 with
  | ok q =>
    obtain ⟨i, ik⟩ := q
    rw [hc] at h
    simp only at h
    obtain ⟨f, hf, hraw, htag⟩ := classify_sound hc
    rw [hf] at h
    cases hs : st[i]? with
    | none => rw [hs] at h; cases h
    | some s =>
      rw [hs] at h
      simp only at h
      cases hi : f.insert s ik p.2 with
      | ok s' =>
        rw [hi] at h
        simp only [Res.ok.injEq] at h
        subst h
        have hws := hw.2 i f s hf hs
        have hlen : (rawKeyOf f.tag ik).key.length ≤ maxVecSize := by rw [hraw]; exact hp.1
        have hnew := insert_wf T f (hL f (List.mem_of_getElem? hf)) s s' ik p.2 hws htag hlen hp.2 hi
        refine ⟨by rw [List.length_set]; exact hw.1, ?_⟩
        intro j g t hg ht
        by_cases e : i = j
        · subst e
          have hlt : i < st.length := by
            rcases List.getElem?_eq_some_iff.mp hs with ⟨h, _⟩; exact h
          rw [List.getElem?_set_self hlt] at ht
          simp only [Option.some.injEq] at ht
          subst ht
          rw [hf] at hg
          simp only [Option.some.injEq] at hg
          subst hg
          exact hnew
        · rw [List.getElem?_set_ne e] at ht
          exact hw.2 j g t hg ht
      | err e => rw [hi] at h; cases h
      | panic m => rw [hi] at h; cases h
  | err e => rw [hc] at h; cases h
  | panic m => rw [hc] at h; cases h

/-- SOUNDNESS of the pair loop: the accepted state is well-formed -/
theorem insertAll_wf {T : List Field} (hL : TableLaw T) : ∀ (ps : List Pair) (st st' : List Slot), WfSlots T st →
    (∀ p ∈ ps, PairOk p) → insertAll T st ps = .ok st' → WfSlots T st' := by
  intro ps
  induction ps with
  | nil =>
    intro st st' hw _ h
    simp only [insertAll, Res.ok.injEq] at h
    subst h
    exact hw
  | cons p r ih =>
    intro st st' hw hp h
    simp only [insertAll] at h
    cases h1 : insertPair T st p with
    | ok st1 =>
      rw [h1] at h
      exact ih st1 st' (insertPair_wf hL st st1 p hw (hp p (List.mem_cons_self ..)) h1)
        (fun q hq => hp q (List.mem_cons_of_mem _ hq)) h
    | err e => rw [h1] at h; cases h
    | panic m => rw [h1] at h; cases h

/-! ### no panics -/

theorem insert_total (f : Field) (s : Slot) (k v : Bytes) (m : String) : f.insert s k v ≠ .panic m := by
  intro h
  unfold Field.insert at h
  cases hk : f.kind <;> rw [hk] at h <;> simp only at h <;> repeat (first | cases h | split at h)

theorem classify_total (T : List Field) (rk : RawKey) (m : String) : classify T rk ≠ .panic m := by
  intro h
  unfold classify at h
  repeat (first | cases h | split at h)

theorem insertPair_total (T : List Field) (st : List Slot) (p : Pair) (m : String) : insertPair T st p ≠ .panic m := by
  intro h
  unfold insertPair at h
  cases hc : classify T p.1 with
  | ok q =>
    obtain ⟨i, ik⟩ := q
    rw [hc] at h
    simp only at h
    split at h
    · rename_i f s _ _
      cases hi : f.insert s ik p.2 with
      | ok s' => rw [hi] at h; cases h
      | err e => rw [hi] at h; cases h
      | panic m' => exact insert_total _ _ _ _ _ hi
    · cases h
  | err e => rw [hc] at h; cases h
  | panic m' => exact classify_total _ _ _ hc

theorem insertAll_total (T : List Field) : ∀ (ps : List Pair) (st : List Slot) (m : String), insertAll T st ps ≠ .panic m := by
  intro ps
  induction ps with
  | nil => intro st m h; cases h
  | cons p r ih =>
    intro st m h
    simp only [insertAll] at h
    cases h1 : insertPair T st p with
    | ok st1 => rw [h1] at h; exact ih st1 m h
    | err e => rw [h1] at h; cases h
    | panic m' => exact insertPair_total _ _ _ _ h1

/-! ### the codec of a whole map -/

/-- ROUND TRIP of a map: well-formed slots, encoded and decoded, come back (the rest is untouched) -/
theorem decMap_encMap {T : List Field} (hT : TableOk T) (st : List Slot) (hw : WfSlots T st) (r : Bytes) :
    decMap T (encMap T st ++ r) = .ok (st, r) := by
  have hpairs : ∀ p ∈ getPairs T st, PairOk p := by
    have hz := (wfSlots_iff_zip T st).mp hw
    have key : ∀ (fs : List Field) (ss : List Slot), WfZip T fs ss → ∀ p ∈ getPairs fs ss, PairOk p := by
      intro fs
      induction fs with
      | nil => intro ss _ p hp; cases ss <;> simp [getPairs] at hp
      | cons f fs ih =>
        intro ss hz p hp
        cases ss with
        | nil => simp [getPairs] at hp
        | cons s ss =>
          simp only [WfZip] at hz
          rw [getPairs_cons, List.mem_append] at hp
          rcases hp with hp | hp
          · simp only [Field.emit, List.mem_map] at hp
            obtain ⟨kv, hkv, rfl⟩ := hp
            rw [mem_order] at hkv
            have := hz.1.entries kv hkv
            exact ⟨this.2.1, this.2.2.1⟩
          · exact ih ss hz.2 p hp
    exact key T st hz
  simp only [decMap, encMap, decMapRaw_complete _ hpairs, insertAll_getPairs hT st hw]

/-- whatever a map decoder's pair loop accepts is well-formed, and the input was a canonical framing
    of the pairs read -/
theorem decMap_wf {T : List Field} (hL : TableLaw T) (bs : Bytes) (st : List Slot) (r : Bytes)
    (h : decMap T bs = .ok (st, r)) : WfSlots T st := by
  unfold decMap at h
  cases hr : decMapRaw bs with
  | ok q =>
    obtain ⟨ps, r1⟩ := q
    rw [hr] at h
    simp only at h
    cases hi : insertAll T (emptySlots T) ps with
    | ok st1 =>
      rw [hi] at h
      simp only [Res.ok.injEq, Prod.mk.injEq] at h
      obtain ⟨rfl, rfl⟩ := h
      exact insertAll_wf hL ps _ _ (wfSlots_empty T) (decMapRaw_sound _ _ _ hr).2 hi
    | err e => rw [hi] at h; cases h
    | panic m => rw [hi] at h; cases h
  | err e => rw [hr] at h; cases h
  | panic m => rw [hr] at h; cases h

theorem decMap_total (T : List Field) (bs : Bytes) (m : String) : decMap T bs ≠ .panic m := by
  intro h
  unfold decMap at h
  cases hr : decMapRaw bs with
  | ok q =>
    obtain ⟨ps, r1⟩ := q
    rw [hr] at h
    simp only at h
    cases hi : insertAll T (emptySlots T) ps with
    | ok st1 => rw [hi] at h; cases h
    | err e => rw [hi] at h; cases h
    | panic m' => exact insertAll_total _ _ _ _ hi
  | err e => rw [hr] at h; cases h
  | panic m' => exact decMapRaw_total _ _ hr

end EV.Proofs.PsetWireMap
