/-
  EV.Proofs.BlindVerify — the decision logic of `verify_tx_amt_proofs` (model: `EV.Blind.verify`)
  stated outright: which conditions make it return `ok`, which error comes first.
  No algebra here; the primitives are arbitrary functions.
-/
import EV.Model.Blind

namespace EV.Blind
open EV

variable {A P RP SP : Type}

/-! ## specification-side definitions -/

/-- a spent output the verifier accepts: asset and value present, no explicit zero -/
def SpentOk (u : TxOut A P RP SP) : Prop :=
  u.asset ≠ .null ∧ u.value ≠ .null ∧ u.value ≠ .explicit 0

/-- an input whose issuance amounts are not an explicit 0 (`IssuanceTransactionInput`) -/
def IssOk (inp : TxIn A P) : Prop :=
  inp.amount ≠ .explicit 0 ∧ inp.keys ≠ .explicit 0

/-- (generator, commitment) of a spent output -/
def spentPair? (V : VPrims A P RP SP) (u : TxOut A P RP SP) : Option (P × P) :=
  match assetGen V u.asset, valueCommit V u with
  | some g, .ok c => some (g, c)
  | _, _ => none

/-- (generator, commitment) of every input and pseudo-input, in the verifier's order -/
def pairsOf (V : VPrims A P RP SP) : List (TxIn A P) → List (TxOut A P RP SP) → List (P × P)
  | inp :: is, u :: us =>
    (spentPair? V u).toList ++ ((issuancePairs V inp).getD []) ++ pairsOf V is us
  | _, _ => []

/-- the surjection domain: input generators, then issuance generators, in order -/
def domainOf (V : VPrims A P RP SP) (ins : List (TxIn A P)) (utxos : List (TxOut A P RP SP)) : List P :=
  (pairsOf V ins utxos).map Prod.fst

/-- the input side of the balance -/
def inCommitsOf (V : VPrims A P RP SP) (ins : List (TxIn A P)) (utxos : List (TxOut A P RP SP)) : List P :=
  (pairsOf V ins utxos).map Prod.snd

/-- the value commitment an output contributes (none for an admissible zero) -/
def outCommit? (V : VPrims A P RP SP) (o : TxOut A P RP SP) : Option P :=
  match valueCommit V o with
  | .ok c => some c
  | .error _ => none

/-- the output side of the balance -/
def outCommitsOf (V : VPrims A P RP SP) (outs : List (TxOut A P RP SP)) : List P :=
  outs.filterMap (outCommit? V)

/-- an output the verifier accepts, given the surjection domain -/
def OutOk (V : VPrims A P RP SP) (domain : List P) (o : TxOut A P RP SP) : Prop :=
  o.value ≠ .null ∧
  (o.value = .explicit 0 → isProvablyUnspendable o.script = true) ∧
  (∀ v, o.value = .explicit v → v ≠ 0 → o.asset ≠ .null) ∧
  (∀ c, o.value = .conf c → ∃ g rp, assetGen V o.asset = some g ∧ o.rangeproof = some rp ∧
      V.rangeVerify rp c o.script g = true) ∧
  (∀ g, o.asset = .conf g → ∃ sp, o.surjproof = some sp ∧ V.surjVerify sp g domain = true)

/-! ## inputs -/

theorem assetGen_eq_none (V : VPrims A P RP SP) (a : CAsset A P) :
    assetGen V a = none ↔ a = .null := by
  cases a <;> simp [assetGen]

theorem issuancePair_isSome (V : VPrims A P RP SP) (amt : CValue P) (a : A) :
    (issuancePair V amt a).isSome ↔ amt ≠ .explicit 0 := by
  cases amt with
  | null => simp [issuancePair]
  | explicit v =>
    by_cases h : v = 0
    · subst h; simp [issuancePair]
    · simp [issuancePair, h]
  | conf c => simp [issuancePair]

theorem issuancePairs_isSome (V : VPrims A P RP SP) (inp : TxIn A P) :
    (issuancePairs V inp).isSome ↔ IssOk inp := by
  unfold issuancePairs IssOk
  by_cases hi : inp.hasIssuance = true
  · simp only [hi, if_true]
    have h1 := issuancePair_isSome V inp.amount inp.assetId
    have h2 := issuancePair_isSome V inp.keys inp.tokenId
    cases ha : issuancePair V inp.amount inp.assetId with
    | none =>
      rw [ha] at h1; simp at h1
      simp [h1]
    | some l1 =>
      rw [ha] at h1; simp at h1
      cases hk : issuancePair V inp.keys inp.tokenId with
      | none => rw [hk] at h2; simp at h2; simp [h2]
      | some l2 => rw [hk] at h2; simp at h2; simp [h1, h2]
  · simp only [hi]
    have : inp.amount = .null ∧ inp.keys = .null := by
      unfold TxIn.hasIssuance at hi
      cases ha : inp.amount <;> cases hk : inp.keys <;> simp_all [CValue.isNull]
    simp [this.1, this.2]

theorem spentPair?_isSome (V : VPrims A P RP SP) (u : TxOut A P RP SP) :
    (spentPair? V u).isSome ↔ SpentOk u := by
  unfold spentPair? SpentOk valueCommit
  cases ha : u.asset with
  | null => simp [assetGen]
  | explicit a =>
    cases hv : u.value with
    | null => simp [assetGen]
    | explicit v =>
      by_cases h0 : v = 0
      · subst h0
        by_cases hs : isProvablyUnspendable u.script = true <;> simp [assetGen, hs]
      · simp [assetGen, h0]
    | conf c => simp [assetGen]
  | conf g =>
    cases hv : u.value with
    | null => simp [assetGen]
    | explicit v =>
      by_cases h0 : v = 0
      · subst h0
        by_cases hs : isProvablyUnspendable u.script = true <;> simp [assetGen, hs]
      · simp [assetGen, h0]
    | conf c => simp [assetGen]

/-- the input loop succeeds exactly when every spent output and issuance is acceptable, and then
    returns `pairsOf` -/
theorem inputPairs_ok_iff (V : VPrims A P RP SP) :
    ∀ (i : Nat) (ins : List (TxIn A P)) (utxos : List (TxOut A P RP SP)) (l : List (P × P)),
      utxos.length = ins.length →
      (inputPairs V i ins utxos = .ok l ↔
        (∀ p ∈ ins.zip utxos, SpentOk p.2 ∧ IssOk p.1) ∧ l = pairsOf V ins utxos)
  | i, [], utxos, l, hlen => by
    cases utxos with
    | nil => simp [inputPairs, pairsOf, eq_comm]
    | cons u us => simp at hlen
  | i, inp :: is, [], l, hlen => by simp at hlen
  | i, inp :: is, u :: us, l, hlen => by
    have hlen' : us.length = is.length := by simpa using hlen
    have ih := fun l' => inputPairs_ok_iff V (i + 1) is us l' hlen'
    have hs := spentPair?_isSome V u
    have hi := issuancePairs_isSome V inp
    simp only [inputPairs, pairsOf, List.zip_cons_cons, List.mem_cons, forall_eq_or_imp]
    unfold spentPair? at hs ⊢
    cases hg : assetGen V u.asset with
    | none =>
      rw [hg] at hs; simp at hs
      simp [hs]
    | some g =>
      rw [hg] at hs
      cases hc : valueCommit V u with
      | error e =>
        rw [hc] at hs; simp at hs
        simp [hs]
      | ok c =>
        rw [hc] at hs; simp at hs
        cases hp : issuancePairs V inp with
        | none =>
          rw [hp] at hi; simp at hi
          simp [hi]
        | some iss =>
          rw [hp] at hi; simp at hi
          cases hr : inputPairs V (i + 1) is us with
          | ok r =>
            have := (ih r).1 hr
            simp only [hs, hi, true_and, Option.toList_some, Option.getD_some]
            constructor
            · intro h; injection h with h; subst h; exact ⟨this.1, by rw [this.2]; simp⟩
            · rintro ⟨_, h⟩; rw [h, this.2]; simp
          | err e =>
            simp only [hs, hi, true_and]
            constructor
            · intro h; cases h
            · intro ⟨h1, _⟩
              have := (ih (pairsOf V is us)).2 ⟨h1, rfl⟩
              rw [hr] at this; cases this
          | panic s =>
            simp only [hs, hi, true_and]
            constructor
            · intro h; cases h
            · intro ⟨h1, _⟩
              have := (ih (pairsOf V is us)).2 ⟨h1, rfl⟩
              rw [hr] at this; cases this

/-! ## outputs -/

theorem rangeCheck_none_iff (V : VPrims A P RP SP) (i : Nat) (o : TxOut A P RP SP) :
    rangeCheck V i o = none ↔
      ∀ c, o.value = .conf c → ∃ g rp, assetGen V o.asset = some g ∧ o.rangeproof = some rp ∧
        V.rangeVerify rp c o.script g = true := by
  unfold rangeCheck
  cases hv : o.value with
  | null => simp
  | explicit v => simp
  | conf c =>
    cases hg : assetGen V o.asset with
    | none => simp
    | some g =>
      cases hr : o.rangeproof with
      | none => simp
      | some rp =>
        by_cases hb : V.rangeVerify rp c o.script g = true <;> simp [hb]

theorem surjCheck_none_iff (V : VPrims A P RP SP) (domain : List P) (i : Nat) (o : TxOut A P RP SP) :
    surjCheck V domain i o = none ↔
      ∀ g, o.asset = .conf g → ∃ sp, o.surjproof = some sp ∧ V.surjVerify sp g domain = true := by
  unfold surjCheck
  cases ha : o.asset with
  | null => simp
  | explicit a => simp
  | conf g =>
    cases hs : o.surjproof with
    | none => simp
    | some sp =>
      by_cases hb : V.surjVerify sp g domain = true <;> simp [hb]

/-- the first three clauses of `OutOk` say that `get_value_commit` does not fail fatally -/
theorem valueCommit_admissible_iff (V : VPrims A P RP SP) (o : TxOut A P RP SP) :
    ((∃ c, valueCommit V o = .ok c) ∨ valueCommit V o = .error .zeroValueCommitment) ↔
      (o.value ≠ .null ∧ (o.value = .explicit 0 → isProvablyUnspendable o.script = true) ∧
        (∀ v, o.value = .explicit v → v ≠ 0 → o.asset ≠ .null)) := by
  unfold valueCommit
  cases hv : o.value with
  | null => simp
  | explicit v =>
    by_cases h0 : v = 0
    · subst h0
      by_cases hs : isProvablyUnspendable o.script = true <;> simp [hs]
    · cases ha : o.asset <;> simp [h0, assetGen]
  | conf c => simp

theorem outputStep_ok_iff (V : VPrims A P RP SP) (domain : List P) (i : Nat) (o : TxOut A P RP SP)
    (cs : List P) (rest : Acc P) (l : List P) :
    outputStep V domain i o cs rest = .ok l ↔
      rangeCheck V i o = none ∧ surjCheck V domain i o = none ∧ ∃ r, rest = .ok r ∧ l = cs ++ r := by
  unfold outputStep
  cases rangeCheck V i o with
  | some e => simp
  | none =>
    cases surjCheck V domain i o with
    | some e => simp
    | none =>
      cases rest with
      | ok r => simp [eq_comm]
      | err e => simp
      | panic s => simp

/-- the output loop succeeds exactly when every output is acceptable, and then returns the value
    commitments of the outputs that are not admissible zeros -/
theorem outputCommits_ok_iff (V : VPrims A P RP SP) (domain : List P) :
    ∀ (i : Nat) (outs : List (TxOut A P RP SP)) (l : List P),
      outputCommits V domain i outs = .ok l ↔
        (∀ o ∈ outs, OutOk V domain o) ∧ l = outCommitsOf V outs
  | i, [], l => by simp [outputCommits, outCommitsOf, eq_comm]
  | i, o :: rest, l => by
    have ih := fun l' => outputCommits_ok_iff V domain (i + 1) rest l'
    have hadm := valueCommit_admissible_iff V o
    have hr := rangeCheck_none_iff V i o
    have hs := surjCheck_none_iff V domain i o
    simp only [outputCommits, outCommitsOf, List.mem_cons, forall_eq_or_imp, List.filterMap_cons,
      outCommit?]
    have key : ∀ (cs : List P),
        (outputStep V domain i o cs (outputCommits V domain (i + 1) rest) = .ok l ↔
          (rangeCheck V i o = none ∧ surjCheck V domain i o = none ∧
            (∀ o ∈ rest, OutOk V domain o) ∧ l = cs ++ outCommitsOf V rest)) := by
      intro cs
      rw [outputStep_ok_iff]
      constructor
      · rintro ⟨h1, h2, r, hr', hl⟩
        have := (ih r).1 hr'
        exact ⟨h1, h2, this.1, by rw [hl, this.2]⟩
      · rintro ⟨h1, h2, h3, hl⟩
        exact ⟨h1, h2, outCommitsOf V rest, (ih _).2 ⟨h3, rfl⟩, hl⟩
    unfold OutOk
    cases hc : valueCommit V o with
    | ok c =>
      rw [hc] at hadm
      have hadm' := hadm.1 (Or.inl ⟨c, rfl⟩)
      simp only [key, hr, hs]
      constructor
      · rintro ⟨h1, h2, h3, hl⟩
        exact ⟨⟨⟨hadm'.1, hadm'.2.1, hadm'.2.2, h1, h2⟩, h3⟩, by simpa [outCommitsOf] using hl⟩
      · rintro ⟨⟨⟨_, _, _, h1, h2⟩, h3⟩, hl⟩
        exact ⟨h1, h2, h3, by simpa [outCommitsOf] using hl⟩
    | error e =>
      rw [hc] at hadm
      cases e with
      | zeroValueCommitment =>
        have hadm' := hadm.1 (Or.inr rfl)
        simp only [key, hr, hs]
        constructor
        · rintro ⟨h1, h2, h3, hl⟩
          exact ⟨⟨⟨hadm'.1, hadm'.2.1, hadm'.2.2, h1, h2⟩, h3⟩, by simpa [outCommitsOf] using hl⟩
        · rintro ⟨⟨⟨_, _, _, h1, h2⟩, h3⟩, hl⟩
          exact ⟨h1, h2, h3, by simpa [outCommitsOf] using hl⟩
      | unexpectedNullValue =>
        have : ¬ (o.value ≠ .null ∧ (o.value = .explicit 0 → isProvablyUnspendable o.script = true) ∧
            (∀ v, o.value = .explicit v → v ≠ 0 → o.asset ≠ .null)) := by
          intro h; have := hadm.2 h; simp at this
        constructor
        · intro h; cases h
        · rintro ⟨⟨⟨h1, h2, h3, _⟩, _⟩, _⟩; exact absurd ⟨h1, h2, h3⟩ this
      | unexpectedNullAsset =>
        have : ¬ (o.value ≠ .null ∧ (o.value = .explicit 0 → isProvablyUnspendable o.script = true) ∧
            (∀ v, o.value = .explicit v → v ≠ 0 → o.asset ≠ .null)) := by
          intro h; have := hadm.2 h; simp at this
        constructor
        · intro h; cases h
        · rintro ⟨⟨⟨h1, h2, h3, _⟩, _⟩, _⟩; exact absurd ⟨h1, h2, h3⟩ this
      | nonUnspendableZeroValue =>
        have : ¬ (o.value ≠ .null ∧ (o.value = .explicit 0 → isProvablyUnspendable o.script = true) ∧
            (∀ v, o.value = .explicit v → v ≠ 0 → o.asset ≠ .null)) := by
          intro h; have := hadm.2 h; simp at this
        constructor
        · intro h; cases h
        · rintro ⟨⟨⟨h1, h2, h3, _⟩, _⟩, _⟩; exact absurd ⟨h1, h2, h3⟩ this

/-- the output loop never panics -/
theorem outputCommits_no_panic (V : VPrims A P RP SP) (domain : List P) :
    ∀ (i : Nat) (outs : List (TxOut A P RP SP)) (s : String), outputCommits V domain i outs ≠ .panic s
  | i, [], s => by simp [outputCommits]
  | i, o :: rest, s => by
    have ih := outputCommits_no_panic V domain (i + 1) rest
    have step : ∀ cs, outputStep V domain i o cs (outputCommits V domain (i + 1) rest) ≠ .panic s := by
      intro cs
      unfold outputStep
      cases rangeCheck V i o with
      | some e => simp
      | none =>
        cases surjCheck V domain i o with
        | some e => simp
        | none =>
          cases hr : outputCommits V domain (i + 1) rest with
          | ok r => simp
          | err e => simp
          | panic s' => exact absurd hr (ih s')
    simp only [outputCommits]
    cases valueCommit V o with
    | ok c => exact step _
    | error e => cases e <;> first | exact step _ | simp

/-! ## the verdict -/

/-- **decision logic of the verifier, stated outright** -/
theorem verify_ok_iff' (V : VPrims A P RP SP) (ins : List (TxIn A P))
    (outs utxos : List (TxOut A P RP SP)) :
    verify V ins outs utxos = .ok ↔
      utxos.length = ins.length ∧
      (∀ p ∈ ins.zip utxos, SpentOk p.2 ∧ IssOk p.1) ∧
      (∀ o ∈ outs, OutOk V (domainOf V ins utxos) o) ∧
      V.sumEqual (inCommitsOf V ins utxos) (outCommitsOf V outs) = true := by
  unfold verify
  by_cases hlen : utxos.length = ins.length
  · simp only [hlen, ne_eq, not_true_eq_false, if_false, true_and]
    cases hp : inputPairs V 0 ins utxos with
    | err e =>
      simp only
      constructor
      · intro h; cases h
      · rintro ⟨h1, _⟩
        have := (inputPairs_ok_iff V 0 ins utxos _ hlen).2 ⟨h1, rfl⟩
        rw [hp] at this; cases this
    | panic s =>
      simp only
      constructor
      · intro h; cases h
      · rintro ⟨h1, _⟩
        have := (inputPairs_ok_iff V 0 ins utxos _ hlen).2 ⟨h1, rfl⟩
        rw [hp] at this; cases this
    | ok pairs =>
      have hpp := (inputPairs_ok_iff V 0 ins utxos pairs hlen).1 hp
      simp only [domainOf, inCommitsOf, ← hpp.2]
      cases ho : outputCommits V (pairs.map Prod.fst) 0 outs with
      | err e =>
        simp only
        constructor
        · intro h; cases h
        · rintro ⟨_, h2, _⟩
          have := (outputCommits_ok_iff V _ 0 outs _).2 ⟨h2, rfl⟩
          rw [ho] at this; cases this
      | panic s => exact absurd ho (outputCommits_no_panic V _ 0 outs s)
      | ok outC =>
        have hoo := (outputCommits_ok_iff V _ 0 outs outC).1 ho
        simp only [← hoo.2]
        by_cases hb : V.sumEqual (pairs.map Prod.snd) outC = true
        · rw [if_pos hb]; exact ⟨fun _ => ⟨hpp.1, hoo.1, hb⟩, fun _ => rfl⟩
        · rw [if_neg hb]
          constructor
          · intro h; cases h
          · rintro ⟨_, _, h⟩; exact absurd h hb
  · simp [hlen]

/-- a spent-output list of the wrong length is rejected as such, before anything else is looked at -/
theorem verify_len_err' (V : VPrims A P RP SP) (ins : List (TxIn A P))
    (outs utxos : List (TxOut A P RP SP)) (h : utxos.length ≠ ins.length) :
    verify V ins outs utxos = .err .utxoInputLenMismatch := by
  simp [verify, h]

/-! ## which error comes first -/

/-- a prefix of acceptable outputs is passed over: the verdict of the output loop is that of the
    rest, with the indices shifted -/
theorem outputCommits_prefix (V : VPrims A P RP SP) (domain : List P) :
    ∀ (pre rest : List (TxOut A P RP SP)) (i : Nat), (∀ o ∈ pre, OutOk V domain o) →
      outputCommits V domain i (pre ++ rest) =
        match outputCommits V domain (i + pre.length) rest with
        | .ok r => .ok (outCommitsOf V pre ++ r)
        | .err e => .err e
        | .panic s => .panic s
  | [], rest, i, _ => by
    simp only [List.nil_append, List.length_nil, Nat.add_zero, outCommitsOf, List.filterMap_nil]
    cases outputCommits V domain i rest <;> rfl
  | o :: pre, rest, i, h => by
    have ih := outputCommits_prefix V domain pre rest (i + 1) (fun x hx => h x (List.mem_cons_of_mem _ hx))
    have ho := h o List.mem_cons_self
    have hr := (rangeCheck_none_iff V i o).2 ho.2.2.2.1
    have hs := (surjCheck_none_iff V domain i o).2 ho.2.2.2.2
    have hadm := (valueCommit_admissible_iff V o).2 ⟨ho.1, ho.2.1, ho.2.2.1⟩
    have hidx : i + 1 + pre.length = i + (o :: pre).length := by simp; omega
    simp only [List.cons_append, outputCommits, outCommitsOf, List.filterMap_cons, outCommit?]
    rw [ih, hidx]
    rcases hadm with ⟨c, hc⟩ | hc
    · simp only [hc, outputStep, hr, hs]
      cases outputCommits V domain (i + (o :: pre).length) rest <;> simp [outCommitsOf]
    · simp only [hc, outputStep, hr, hs]
      cases outputCommits V domain (i + (o :: pre).length) rest <;> simp [outCommitsOf]

/-- acceptable inputs, acceptable outputs before position `i`, and at position `i` a confidential
    value without a range proof: exactly `RangeProofMissing(i)` -/
theorem verify_rangeproof_missing' (V : VPrims A P RP SP) (ins : List (TxIn A P))
    (utxos pre post : List (TxOut A P RP SP)) (o : TxOut A P RP SP) (c g : P)
    (hlen : utxos.length = ins.length)
    (hin : ∀ p ∈ ins.zip utxos, SpentOk p.2 ∧ IssOk p.1)
    (hpre : ∀ x ∈ pre, OutOk V (domainOf V ins utxos) x)
    (hv : o.value = .conf c) (hg : assetGen V o.asset = some g) (hrp : o.rangeproof = none) :
    verify V ins (pre ++ o :: post) utxos = .err (.rangeProofMissing pre.length) := by
  unfold verify
  have hp := (inputPairs_ok_iff V 0 ins utxos _ hlen).2 ⟨hin, rfl⟩
  simp only [hlen, ne_eq, not_true_eq_false, if_false, hp]
  rw [show List.map Prod.fst (pairsOf V ins utxos) = domainOf V ins utxos from rfl,
    outputCommits_prefix V _ pre (o :: post) 0 hpre]
  simp [outputCommits, valueCommit, hv, outputStep, rangeCheck, hg, hrp]

/-- the same for a confidential asset without a surjection proof (the range-proof branch of that
    output having passed): exactly `SurjectionProofMissing(i)` -/
theorem verify_surjproof_missing' (V : VPrims A P RP SP) (ins : List (TxIn A P))
    (utxos pre post : List (TxOut A P RP SP)) (o : TxOut A P RP SP) (g : P)
    (hlen : utxos.length = ins.length)
    (hin : ∀ p ∈ ins.zip utxos, SpentOk p.2 ∧ IssOk p.1)
    (hpre : ∀ x ∈ pre, OutOk V (domainOf V ins utxos) x)
    (hadm : o.value ≠ .null ∧ (o.value = .explicit 0 → isProvablyUnspendable o.script = true) ∧
      (∀ v, o.value = .explicit v → v ≠ 0 → o.asset ≠ .null))
    (hrange : rangeCheck V pre.length o = none)
    (ha : o.asset = .conf g) (hsp : o.surjproof = none) :
    verify V ins (pre ++ o :: post) utxos = .err (.surjectionProofMissing pre.length) := by
  unfold verify
  have hp := (inputPairs_ok_iff V 0 ins utxos _ hlen).2 ⟨hin, rfl⟩
  simp only [hlen, ne_eq, not_true_eq_false, if_false, hp]
  rw [show List.map Prod.fst (pairsOf V ins utxos) = domainOf V ins utxos from rfl,
    outputCommits_prefix V _ pre (o :: post) 0 hpre]
  have hs : surjCheck V (domainOf V ins utxos) pre.length o = some (.surjectionProofMissing pre.length) := by
    simp [surjCheck, ha, hsp]
  rcases (valueCommit_admissible_iff V o).2 hadm with ⟨c, hc⟩ | hc
  · simp [outputCommits, hc, outputStep, hrange, hs]
  · simp [outputCommits, hc, outputStep, hrange, hs]

/-- everything acceptable but the tally: exactly `BalanceCheckFailed` -/
theorem verify_balance_failed' (V : VPrims A P RP SP) (ins : List (TxIn A P))
    (outs utxos : List (TxOut A P RP SP))
    (hlen : utxos.length = ins.length)
    (hin : ∀ p ∈ ins.zip utxos, SpentOk p.2 ∧ IssOk p.1)
    (hout : ∀ o ∈ outs, OutOk V (domainOf V ins utxos) o)
    (hsum : V.sumEqual (inCommitsOf V ins utxos) (outCommitsOf V outs) = false) :
    verify V ins outs utxos = .err .balanceCheckFailed := by
  unfold verify
  have hp := (inputPairs_ok_iff V 0 ins utxos _ hlen).2 ⟨hin, rfl⟩
  have ho := (outputCommits_ok_iff V (domainOf V ins utxos) 0 outs _).2 ⟨hout, rfl⟩
  simp only [hlen, ne_eq, not_true_eq_false, if_false, hp]
  rw [show List.map Prod.fst (pairsOf V ins utxos) = domainOf V ins utxos from rfl, ho]
  simp only
  rw [show List.map Prod.snd (pairsOf V ins utxos) = inCommitsOf V ins utxos from rfl, hsum]
  simp

end EV.Blind
