/-
  Bridge C06 × C17.  C06 proves that the text `Display` produces for a standard address parses back
  (`segwit_roundtrip`); C17 proves that a one- or two-symbol corruption of an ACCEPTED segwit string is
  rejected (`corrupted_address_rejected`).  Both are about the same parser (`EV.Addr.fromStr`,
  `parseWithParams` of `EV.Model.Address`), so they compose: here the shape of `Display` for segwit
  addresses is made explicit (hrp ‖ '1' ‖ data characters), the data characters are shown to be lower-case
  alphabet characters and the total symbol count to be within C17's bounds for EVERY standard address, and
  the detection theorem is stated about the strings `Display` produces — first for alphabet replacements
  (C17's hypothesis), then for replacements by ANY byte other than the separator '1' (a non-alphabet byte
  and an upper-case letter are rejected by `check_characters` before the checksum is looked at).
-/
import EV.Proofs.AddrDetect
import EV.Proofs.AddrRoundtrip
namespace EV.Addr
open EV.Bech32 EV.Base58 EV.Bech32.Code

/-! ### the shape of `Display` for segwit addresses -/

/-- the decoder `from_bech32` uses for this address: blech32 for blinded, the bech32 crate otherwise -/
def segFlavor (a : Address) : Flavor := match a.blinder with | some _ => blechFlavor | none => crateFlavor

/-- the human-readable part `Display` prints -/
def displayHrp (a : Address) : Text := match a.blinder with | some _ => a.params.blechHrp | none => a.params.bechHrp

/-- the 5-bit symbols `Display` prints after the separator: witness version, payload (blinding key ‖
    program) regrouped, checksum -/
def segSyms (a : Address) : List Nat :=
  match a.payload with
  | .wit ver prog =>
    match a.blinder with
    | some pk => (ver :: bytesToFes (pk ++ prog)) ++
        createChecksum (blechFlavor.variant ver) (hrpExpand a.params.blechHrp ++ ver :: bytesToFes (pk ++ prog))
    | none => (ver :: bytesToFes prog) ++
        createChecksum (crateFlavor.variant ver) (hrpExpand a.params.bechHrp ++ ver :: bytesToFes prog)
  | _ => []

/-- the data characters of the displayed string -/
def dataPart (a : Address) : Text := (segSyms a).map toChar

/-- `impl Display for Address`, segwit forms: lower-cased hrp, '1', data characters -/
theorem display_shape (P : Prims) (a : Address) (hs : a.payload.isSegwit = true) :
    display P a = lower (displayHrp a) ++ 49 :: dataPart a := by
  obtain ⟨p, pl, bl⟩ := a
  cases pl with
  | wit ver prog => cases bl <;> rfl
  | pkh h => simp [Payload.isSegwit] at hs
  | sh h => simp [Payload.isSegwit] at hs

theorem displayHrp_mem (a : Address) (hn : a.params ∈ Gen.allParamsB) :
    displayHrp a ∈ Gen.allParamsB.flatMap hrps := by
  refine List.mem_flatMap.2 ⟨a.params, hn, ?_⟩
  unfold displayHrp
  cases a.blinder <;> simp [hrps]

/-- for a standard address the hrp is printed as it is in the network table -/
theorem display_shape_wf (P : Prims) (a : Address) (hw : WF P a) (hs : a.payload.isSegwit = true) :
    display P a = displayHrp a ++ 49 :: dataPart a := by
  rw [display_shape P a hs, hrpOk_lower _ (hrps_ok _ (displayHrp_mem a hw.net)).1]

theorem segSyms_lt (P : Prims) (a : Address) (hw : WF P a) : ∀ x ∈ segSyms a, x < 32 := by
  obtain ⟨p, pl, bl⟩ := a
  obtain ⟨_, hstd, _⟩ := hw
  cases pl with
  | wit ver prog =>
    have hv : ver < 32 := by have := hstd.1; omega
    cases bl with
    | none =>
      intro x hx
      simp only [segSyms] at hx
      rcases List.mem_append.1 hx with hx | hx
      · rcases List.mem_cons.1 hx with rfl | hx
        · exact hv
        · exact bytesToFes_lt _ x hx
      · exact createChecksum_lt _ _ x hx
    | some pk =>
      intro x hx
      simp only [segSyms] at hx
      rcases List.mem_append.1 hx with hx | hx
      · rcases List.mem_cons.1 hx with rfl | hx
        · exact hv
        · exact bytesToFes_lt _ x hx
      · exact createChecksum_lt _ _ x hx
  | pkh h => intro x hx; simp [segSyms] at hx
  | sh h => intro x hx; simp [segSyms] at hx

theorem sym_toChar (x : Nat) (hx : x < 32) : sym (toChar x) = x := by
  have := sym_cmap_toChar false x hx
  rwa [cmap_false] at this

/-- reading the data characters back gives the symbols -/
theorem dataPart_syms (P : Prims) (a : Address) (hw : WF P a) : (dataPart a).map sym = segSyms a := by
  unfold dataPart
  rw [List.map_map]
  exact map_eq_self (fun x hx => sym_toChar x (segSyms_lt P a hw x hx))

/-- every data character is a LOWER-CASE alphabet character -/
theorem dataPart_clean (P : Prims) (a : Address) (hw : WF P a) :
    ∀ c ∈ dataPart a, (fromChar c).isSome = true ∧ isUpper c = false := by
  intro c hc
  simp only [dataPart, List.mem_map] at hc
  obtain ⟨x, hx, rfl⟩ := hc
  have hx32 := segSyms_lt P a hw x hx
  exact ⟨by simp [fromChar_toChar x hx32], isUpper_toChar x hx32⟩

theorem variant_len_crate (ver : Nat) : (crateFlavor.variant ver).code.len = 6 := by
  unfold Flavor.variant; split <;> rfl
theorem variant_len_blech (ver : Nat) : (blechFlavor.variant ver).code.len = 12 := by
  unfold Flavor.variant; split <;> decide

/-- **C17's length bounds hold for every standard address**: the number of symbols the checksum covers
    (hrp expansion, version, payload, checksum) is ≤ 78 for unblinded and ≤ 137 for blinded addresses,
    within the variant-switch bound (100 / 140) of the decoder, hence within the 1023 of the same-variant
    theorem -/
theorem display_symbols_within_bound (P : Prims) (a : Address) (hw : WF P a) (hs : a.payload.isSegwit = true) :
    (hrpExpand (displayHrp a) ++ segSyms a).length ≤ (segFlavor a).switchBound ∧
    (segFlavor a).switchBound ≤ 1023 := by
  have hh := (hrps_ok _ (displayHrp_mem a hw.net)).2.1
  obtain ⟨p, pl, bl⟩ := a
  obtain ⟨_, hstd, hbl⟩ := hw
  cases pl with
  | wit ver prog =>
    obtain ⟨_, _, hp40, _, _⟩ := hstd
    cases bl with
    | none =>
      simp only [displayHrp] at hh
      have hb : crateFlavor.switchBound = 100 := by decide
      simp only [segFlavor, displayHrp, segSyms, hb, List.length_append, hrpExpand_length, List.length_cons,
        bytesToFes_length, createChecksum_length, variant_len_crate]
      omega
    | some pk =>
      simp only [displayHrp] at hh
      have hb : blechFlavor.switchBound = 140 := by decide
      have hpk : pk.length = 33 := hbl.1
      simp only [segFlavor, displayHrp, segSyms, hb, List.length_append, hrpExpand_length, List.length_cons,
        bytesToFes_length, createChecksum_length, variant_len_blech, hpk]
      omega
  | pkh h => simp [Payload.isSegwit] at hs
  | sh h => simp [Payload.isSegwit] at hs

/-! ### C17's detection theorem about displayed strings -/

/-- the displayed string of a standard segwit address is accepted (C06) -/
theorem display_accepted (P : Prims) (a : Address) (hw : WF P a) (hs : a.payload.isSegwit = true) :
    fromStr P (displayHrp a ++ 49 :: dataPart a) = .ok a := by
  rw [← display_shape_wf P a hw hs]
  cases hp : a.payload with
  | wit ver prog =>
    have := (segwit_roundtrip P a hw false ver prog hp).1
    rwa [map_cmap_false] at this
  | pkh h => rw [hp] at hs; simp [Payload.isSegwit] at hs
  | sh h => rw [hp] at hs; simp [Payload.isSegwit] at hs

/-- **`corrupted_display_rejected` (alphabet replacements).** For a standard segwit address `a` on a built-in
    network: replace one or two characters of the data part of `display a` (the witness-version character
    included) by alphabet characters of a different symbol value; the result is rejected by `from_str`, by
    `parse_with_params` of `a`'s network, and by `parse_with_params` of every other network unless it happens
    to be a valid base58check string.  No length hypothesis: `display_symbols_within_bound`. -/
theorem corrupted_display_rejected (P : Prims) (a : Address) (hw : WF P a) (hs : a.payload.isSegwit = true)
    (d' : Text) (hd' : ∀ c ∈ d', (fromChar c).isSome = true) (hlen : d'.length = (dataPart a).length)
    (h1 : 1 ≤ diffCount (segSyms a) (d'.map sym)) (h2 : diffCount (segSyms a) (d'.map sym) ≤ 2) :
    (∃ k, fromStr P (displayHrp a ++ 49 :: d') = .err k) ∧
    (∃ k, parseWithParams P (displayHrp a ++ 49 :: d') a.params = .err k) ∧
    (∀ q ∈ Gen.allParamsB, (∃ k, parseWithParams P (displayHrp a ++ 49 :: d') q = .err k) ∨
      (decodeCheck P.sha256d (displayHrp a ++ 49 :: d')).isSome = true) := by
  have hsy := dataPart_syms P a hw
  exact corrupted_address_rejected P (displayHrp a) (dataPart a) d' a (display_accepted P a hw hs) hs
    (fun c hc => (dataPart_clean P a hw c hc).1) hd' hlen (by rw [hsy]; exact h1) (by rw [hsy]; exact h2)

/-! ### replacements by arbitrary bytes -/

theorem hrps_have_lower : ∀ h ∈ Gen.allParamsB.flatMap hrps, h.any isLower = true := by decide

/-- a non-alphabet byte or mixed case after the (only) separator: `check_characters` fails -/
theorem segwitNew_err_of_bad_chars (f : Flavor) (h d' : Text) (hsep : ∀ c ∈ d', c ≠ 49)
    (hbad : (d'.all (fun c => (fromChar c).isSome) &&
      !((h ++ 49 :: d').any isUpper && (h ++ 49 :: d').any isLower)) = false) :
    ∃ k, segwitNew f (h ++ 49 :: d') = .err k := by
  unfold segwitNew
  by_cases htl : f.tooLong (h ++ 49 :: d').length = true
  · rw [if_pos htl]; exact ⟨_, rfl⟩
  · rw [if_neg htl]
    have : uncheckedNew (h ++ 49 :: d') = none := by
      simp only [uncheckedNew, checkCharacters, splitLast_append h d' hsep, hbad]
      rfl
    rw [this]
    exact ⟨_, rfl⟩

/-- the two parsers route a string with `a`'s hrp to `a`'s decoder: if that rejects, so do they -/
theorem fromStr_err_of_segwitNew_err (P : Prims) (a : Address) (hw : WF P a) (d' : Text)
    (hsep : ∀ c ∈ d', c ≠ 49) (k : String)
    (herr : segwitNew (segFlavor a) (displayHrp a ++ 49 :: d') = .err k) :
    fromStr P (displayHrp a ++ 49 :: d') = .err k ∧
    parseWithParams P (displayHrp a ++ 49 :: d') a.params = .err k := by
  have hnet := hw.net
  have hok := (hrps_ok _ (displayHrp_mem a hnet)).1
  have hlow := hrpOk_lower _ hok
  have hpre : findPrefix (displayHrp a ++ 49 :: d') = displayHrp a := findPrefix_split _ d' hsep
  obtain ⟨p, pl, bl⟩ := a
  cases bl with
  | none =>
    simp only [displayHrp, segFlavor] at hlow hpre herr ⊢
    have hfb : fromBech32 P (p.bechHrp ++ 49 :: d') false p = .err k :=
      fromBech32_err P _ false p k (by simpa using herr)
    constructor
    · simp only [fromStr, hpre, dispatchBech_bech P _ _ p hnet hlow, hfb]
    · have hne : matchPrefix p.bechHrp p.blechHrp = false := by
        rcases mem_all p hnet with rfl | rfl | rfl <;> decide
      have hyes : matchPrefix p.bechHrp p.bechHrp = true := by
        rw [matchPrefix_beq]; simp
      simp only [parseWithParams, hpre, hne, hyes, Bool.or_false, if_true, hfb]
  | some pk =>
    simp only [displayHrp, segFlavor] at hlow hpre herr ⊢
    have hfb : fromBech32 P (p.blechHrp ++ 49 :: d') true p = .err k :=
      fromBech32_err P _ true p k (by simpa using herr)
    constructor
    · simp only [fromStr, hpre, dispatchBech_blech P _ _ p hnet hlow, hfb]
    · have hyes : matchPrefix p.blechHrp p.blechHrp = true := by
        rw [matchPrefix_beq]; simp
      simp only [parseWithParams, hpre, hyes, Bool.or_true, if_true, hfb]

/-- on lower-case alphabet characters, "different character" is "different symbol" -/
theorem toChar_eq_iff (x c : Nat) (hx : x < 32) (hc : (fromChar c).isSome = true) (hu : isUpper c = false) :
    toChar x = c ↔ x = sym c := by
  constructor
  · intro h; rw [← h, sym_toChar x hx]
  · intro h
    have := lowerByte_alphabet c hc
    rw [EV.Bech32.lowerByte_of_not_upper c hu] at this
    rw [h, ← this]

theorem diffCount_toChar (l : List Nat) (d' : Text) (hl : ∀ x ∈ l, x < 32)
    (hd : ∀ c ∈ d', (fromChar c).isSome = true ∧ isUpper c = false) :
    diffCount (l.map toChar) d' = diffCount l (d'.map sym) := by
  induction l generalizing d' with
  | nil => simp [diffCount]
  | cons x xs ih =>
    cases d' with
    | nil => simp [diffCount]
    | cons c cs =>
      have hc := hd c (List.mem_cons_self ..)
      have hiff := toChar_eq_iff x c (hl x (List.mem_cons_self ..)) hc.1 hc.2
      simp only [List.map_cons, diffCount]
      rw [ih cs (fun y hy => hl y (List.mem_cons_of_mem _ hy)) (fun y hy => hd y (List.mem_cons_of_mem _ hy))]
      by_cases he : toChar x = c
      · rw [if_pos he, if_pos (hiff.1 he)]
      · rw [if_neg he, if_neg (fun h => he (hiff.2 h))]

/-- **`corrupted_display_rejected_any` (arbitrary replacements).** For a standard segwit address `a` on a
    built-in network and ANY string that differs from `display a` in one or two characters of the data part
    and has no `'1'` there (a new `'1'` would move the separator, turning the string into one with an unknown
    prefix that falls through to the base58check parser — a SHA-256d coincidence nothing can exclude):
    `from_str` and `parse_with_params` of `a`'s network reject it.  Replacement characters may be anything:
    other alphabet characters (checksum, C17), upper-case letters (mixed case), non-alphabet or non-ASCII
    bytes (invalid character). -/
theorem corrupted_display_rejected_any (P : Prims) (a : Address) (hw : WF P a) (hs : a.payload.isSegwit = true)
    (d' : Text) (hlen : d'.length = (dataPart a).length) (hsep : ∀ c ∈ d', c ≠ 49)
    (h1 : 1 ≤ diffCount (dataPart a) d') (h2 : diffCount (dataPart a) d' ≤ 2) :
    (∃ k, fromStr P (displayHrp a ++ 49 :: d') = .err k) ∧
    (∃ k, parseWithParams P (displayHrp a ++ 49 :: d') a.params = .err k) := by
  by_cases hall : ∀ c ∈ d', (fromChar c).isSome = true ∧ isUpper c = false
  · have hdc : diffCount (dataPart a) d' = diffCount (segSyms a) (d'.map sym) :=
      diffCount_toChar (segSyms a) d' (segSyms_lt P a hw) hall
    obtain ⟨r1, r2, _⟩ := corrupted_display_rejected P a hw hs d' (fun c hc => (hall c hc).1) hlen
      (by rw [← hdc]; exact h1) (by rw [← hdc]; exact h2)
    exact ⟨r1, r2⟩
  · have hbad : (d'.all (fun c => (fromChar c).isSome) &&
        !((displayHrp a ++ 49 :: d').any isUpper && (displayHrp a ++ 49 :: d').any isLower)) = false := by
      by_cases halpha : d'.all (fun c => (fromChar c).isSome) = true
      · have hal : ∀ c ∈ d', (fromChar c).isSome = true := by simpa using halpha
        have hup : ∃ c ∈ d', isUpper c = true := by
          apply Classical.byContradiction
          intro hno
          apply hall
          intro c hc
          refine ⟨hal c hc, ?_⟩
          cases hcu : isUpper c
          · rfl
          · exact absurd ⟨c, hc, hcu⟩ hno
        obtain ⟨c, hc, hcu⟩ := hup
        have h1' : (displayHrp a ++ 49 :: d').any isUpper = true := by
          rw [List.any_eq_true]; exact ⟨c, by simp [hc], hcu⟩
        have h2' : (displayHrp a ++ 49 :: d').any isLower = true := by
          have := hrps_have_lower _ (displayHrp_mem a hw.net)
          rw [List.any_eq_true] at this ⊢
          obtain ⟨b, hb, hbl⟩ := this
          exact ⟨b, by simp [hb], hbl⟩
        simp [h1', h2']
      · simp only [Bool.not_eq_true] at halpha
        simp [halpha]
    obtain ⟨k, hk⟩ := segwitNew_err_of_bad_chars (segFlavor a) (displayHrp a) d' hsep hbad
    obtain ⟨r1, r2⟩ := fromStr_err_of_segwitNew_err P a hw d' hsep k hk
    exact ⟨⟨k, r1⟩, ⟨k, r2⟩⟩

end EV.Addr
