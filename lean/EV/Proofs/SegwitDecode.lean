/-
  EV.Proofs.SegwitDecode — inversion lemmas for the segwit string decoders of `EV.Model.Bech32`
  and the string-level error-detection theorem.
-/
import EV.Proofs.PolymodFacts
namespace EV.Bech32
open Code

/-! ### splitting at the separator -/

theorem splitLast_none_of_no_sep (d : Text) (h : ∀ c ∈ d, c ≠ 49) : splitLast d = none := by
  induction d with
  | nil => rfl
  | cons c d ih =>
    simp only [splitLast, ih (fun x hx => h x (by simp [hx]))]
    simp [h c (by simp)]

theorem splitLast_append (h d : Text) (hd : ∀ c ∈ d, c ≠ 49) : splitLast (h ++ 49 :: d) = some (h, d) := by
  induction h with
  | nil => simp [splitLast, splitLast_none_of_no_sep d hd]
  | cons c h ih => simp [splitLast, ih]

theorem fromChar_sep : fromChar 49 = none := by decide

theorem ne_sep_of_fromChar (c : Nat) (h : (fromChar c).isSome = true) : c ≠ 49 := by
  rintro rfl; simp [fromChar_sep] at h

theorem no_sep_of_alphabet (d : Text) (h : ∀ c ∈ d, (fromChar c).isSome = true) : ∀ c ∈ d, c ≠ 49 :=
  fun c hc => ne_sep_of_fromChar c (h c hc)

theorem indexIn_lt (c : Nat) (l : List Nat) (i v : Nat) (h : indexIn c l i = some v) : v < i + l.length := by
  induction l generalizing i with
  | nil => simp [indexIn] at h
  | cons x xs ih =>
    simp only [indexIn] at h
    split at h
    · simp at h; subst h; simp
    · have := ih _ h; simp only [List.length_cons]; omega

theorem sym_lt (c : Nat) : sym c < 32 := by
  unfold sym
  cases h : fromChar c with
  | none => simp
  | some v =>
    simp only [Option.getD_some]
    unfold fromChar at h
    split at h
    · simp at h
    · have := indexIn_lt _ _ _ _ h
      simpa [Ref.charset] using this

theorem map_sym_lt (d : Text) : ∀ x ∈ d.map sym, x < 32 := by
  intro x hx
  simp only [List.mem_map] at hx
  obtain ⟨c, _, rfl⟩ := hx
  exact sym_lt c

theorem hrpExpand_lt (h : Text) (hh : ∀ b ∈ h, b < 128) : ∀ x ∈ hrpExpand h, x < 32 := by
  intro x hx
  simp only [hrpExpand, List.mem_append, List.mem_map, List.mem_cons] at hx
  rcases hx with ⟨b, hb, rfl⟩ | rfl | ⟨b, _, rfl⟩
  · have := hh b hb
    unfold lowerByte isUpper
    split <;> omega
  · decide
  · exact Nat.mod_lt _ (by decide)

theorem hrpExpand_length (h : Text) : (hrpExpand h).length = 2 * h.length + 1 := by
  simp [hrpExpand]; omega

/-! ### inversion of the decoders -/

theorem uncheckedNew_inv (s h d : Text) (hs : uncheckedNew s = some (h, d)) :
    splitLast s = some (h, d) ∧ hrpParse h = true ∧ (∀ c ∈ d, (fromChar c).isSome = true) := by
  unfold uncheckedNew checkCharacters at hs
  split at hs
  · simp at hs
  · rename_i h0 d0 heq
    split at heq
    · simp at heq
    · rename_i h1 d1 hsp
      split at heq
      · rename_i hcond
        simp only [Option.some.injEq, Prod.mk.injEq] at heq
        obtain ⟨rfl, rfl⟩ := heq
        split at hs
        · rename_i hp
          simp only [Option.some.injEq, Prod.mk.injEq] at hs
          obtain ⟨rfl, rfl⟩ := hs
          refine ⟨hsp, hp, ?_⟩
          simp only [Bool.and_eq_true, List.all_eq_true] at hcond
          exact hcond.1
        · simp at hs
      · simp at heq

theorem hrpParse_lt (h : Text) (hp : hrpParse h = true) : ∀ b ∈ h, b < 128 := by
  unfold hrpParse at hp
  simp only [Bool.and_eq_true, List.all_eq_true, decide_eq_true_eq] at hp
  intro b hb
  have := hp.1.2 b hb
  omega

theorem validateChecksum_inv (f : Flavor) (v : Variant) (n : Nat) (hrp data : Text)
    (h : validateChecksum f v n hrp data = true) :
    v.code.len ≤ data.length ∧ verify v hrp (data.map sym) = true := by
  unfold validateChecksum at h
  split at h
  · simp at h
  · split at h
    · simp at h
    · exact ⟨by omega, h⟩

theorem validateSegwit_inv (f : Flavor) (n : Nat) (hrp ascii : Text) (r : Seg)
    (h : validateSegwit f n hrp ascii = .ok r) :
    ∃ c0 rest, ascii = c0 :: rest ∧ f.tooLong n = false ∧ validatePadding (rest.map sym) = true ∧
      validateLength f (sym c0) (rest.length * 5 / 8) = true ∧
      r = { hrp := hrp, version := sym c0, fes := rest.map sym } := by
  unfold validateSegwit at h
  split at h
  · simp at h
  · rename_i c0 rest
    split at h
    · simp at h
    · rename_i htl
      dsimp only at h
      split at h
      · simp at h
      · rename_i hpad
        split at h
        · simp at h
        · rename_i hl
          simp only [List.length_map] at h hl
          refine ⟨c0, rest, rfl, by simpa using htl, by simpa using hpad, by simpa using hl, ?_⟩
          simpa using h.symm

theorem segwitNew_inv (f : Flavor) (s : Text) (r : Seg) (h : segwitNew f s = .ok r) :
    ∃ hrp c0 rest, f.tooLong s.length = false ∧ uncheckedNew s = some (hrp, c0 :: rest) ∧ sym c0 ≤ 16 ∧
      validateChecksum f (f.variant (sym c0)) s.length hrp (c0 :: rest) = true ∧
      validateSegwit f s.length hrp ((c0 :: rest).take ((c0 :: rest).length - (f.variant (sym c0)).code.len)) = .ok r := by
  unfold segwitNew at h
  split at h
  · simp at h
  · rename_i htl
    split at h
    · simp at h
    · rename_i hrp data hun
      split at h
      · simp at h
      · rename_i c0 rest
        dsimp only at h
        split at h
        · simp at h
        · rename_i hver
          split at h
          · simp at h
          · rename_i hck
            refine ⟨hrp, c0, rest, by simpa using htl, hun, by omega, ?_, ?_⟩
            · simpa using hck
            · simpa using h

theorem validateSegwit_not_panic (f : Flavor) (n : Nat) (hrp ascii : Text) (site : String) :
    validateSegwit f n hrp ascii ≠ .panic site := by
  unfold validateSegwit
  split
  · simp
  · dsimp only
    repeat' split
    all_goals simp

theorem segwitNew_not_panic (f : Flavor) (s : Text) (site : String) : segwitNew f s ≠ .panic site := by
  unfold segwitNew
  split
  · simp
  · split
    · simp
    · split
      · simp
      · dsimp only
        split
        · simp
        · split
          · simp
          · exact validateSegwit_not_panic _ _ _ _ _

/-! ### symbol strings -/

theorem diffCount_append_left (p a b : List Nat) : diffCount (p ++ a) (p ++ b) = diffCount a b := by
  induction p with
  | nil => rfl
  | cons x p ih => simp [diffCount, ih]

theorem diffCount_self (a : List Nat) : diffCount a a = 0 := by
  induction a with
  | nil => rfl
  | cons x a ih => simp [diffCount, ih]

end EV.Bech32

namespace EV.Bech32
open Code

/-! ### symbol-level detection for the four variants -/

/-- the two decoders (crate: bech32/bech32m; repo: blech32/blech32m) -/
def IsFlavor (f : Flavor) : Prop := f = crateFlavor ∨ f = blechFlavor

/-- bound (in symbols, hrp expansion included) up to which a variant switch is excluded -/
def Flavor.switchBound (f : Flavor) : Nat := if f.v0.code.len = 6 then bech32SwitchBound else blech32SwitchBound

structure FlavorFacts (f : Flavor) : Prop where
  code_eq : f.vm.code = f.v0.code
  good : f.v0.code.Good
  lowBij : f.v0.code.LowBij
  table1 : f.v0.code.Table1
  table2 : f.v0.code.Table2 (f.v0.target ^^^ f.vm.target) (f.switchBound - 1)
  target_ne : f.v0.target ≠ f.vm.target

theorem flavorFacts (f : Flavor) (hf : IsFlavor f) : FlavorFacts f := by
  rcases hf with rfl | rfl
  · exact ⟨rfl, bech32Code_good, bech32Code_lowBij, bech32Code_table1, bech32Code_table2, by decide⟩
  · exact ⟨blech32m_code_eq, blech32Code_good, blech32Code_lowBij, blech32Code_table1, blech32Code_table2, by decide⟩

theorem variant_code (f : Flavor) (ff : FlavorFacts f) (ver : Nat) : (f.variant ver).code = f.v0.code := by
  unfold Flavor.variant; split
  · rfl
  · exact ff.code_eq

/-- Symbol level, any two versions: if `w` verifies under the variant of `ver` and `w'` differs from
    `w` in one or two symbols (anywhere, hrp expansion included), `w'` does not verify under the variant
    of `ver'` — same variant for lengths ≤ 1023, switched variant for lengths ≤ the switch bound. -/
theorem symbols_detect (f : Flavor) (hf : IsFlavor f) (ver ver' : Nat) (w w' : List Nat)
    (hlen : w.length = w'.length) (hw : ∀ x ∈ w, x < 32) (hw' : ∀ x ∈ w', x < 32)
    (h1 : 1 ≤ diffCount w w') (h2 : diffCount w w' ≤ 2)
    (hl : w.length ≤ f.switchBound)
    (hv : (f.variant ver).code.polymod w = (f.variant ver).target) :
    (f.variant ver').code.polymod w' ≠ (f.variant ver').target := by
  have ff := flavorFacts f hf
  rw [variant_code f ff] at hv ⊢
  have hl1023 : w.length ≤ 1023 := by
    have : f.switchBound ≤ 1023 := by unfold Flavor.switchBound; split <;> decide
    omega
  have hne := residues_differ f.v0.code ff.good ff.lowBij ff.table1 w w' hlen hw hw' h1 h2 hl1023
  have hnc := residues_not_C_apart f.v0.code _ _ ff.table2 w w' hlen hw hw' h1 h2 (by
    have : 1 ≤ f.switchBound := by unfold Flavor.switchBound; split <;> decide
    omega)
  intro hv'
  unfold Flavor.variant at hv hv'
  by_cases h0 : ver = 0 <;> by_cases h0' : ver' = 0 <;> simp only [h0, h0', if_true, if_false] at hv hv'
  · exact hne (hv.trans hv'.symm)
  · exact hnc (by rw [hv, hv'])
  · exact hnc (by rw [hv, hv', Nat.xor_comm])
  · exact hne (hv.trans hv'.symm)

/-! ### string level -/

theorem uncheckedNew_split (h d : Text) (hd : ∀ c ∈ d, (fromChar c).isSome = true) (h2 d2 : Text)
    (hs : uncheckedNew (h ++ 49 :: d) = some (h2, d2)) : h2 = h ∧ d2 = d := by
  have := (uncheckedNew_inv _ _ _ hs).1
  rw [splitLast_append h d (no_sep_of_alphabet d hd)] at this
  simp only [Option.some.injEq, Prod.mk.injEq] at this
  exact ⟨this.1.symm, this.2.symm⟩

/-- symbols of the whole string of a successfully decoded segwit string stay within the switch bound
    when the hrp has at most 4 characters -/
theorem total_symbols_le (f : Flavor) (hf : IsFlavor f) (s hrp : Text) (c0 : Nat) (rest : Text) (r : Seg)
    (hsl : s.length = hrp.length + 1 + (c0 :: rest).length) (hh : hrp.length ≤ 4)
    (htl : f.tooLong s.length = false)
    (hck : (f.variant (sym c0)).code.len ≤ (c0 :: rest).length)
    (hvs : validateSegwit f s.length hrp ((c0 :: rest).take ((c0 :: rest).length - (f.variant (sym c0)).code.len)) = .ok r) :
    (hrpExpand hrp ++ (c0 :: rest).map sym).length ≤ f.switchBound := by
  have ff := flavorFacts f hf
  have hcode := variant_code f ff (sym c0)
  rw [hcode] at hck hvs
  simp only [List.length_append, hrpExpand_length, List.length_map]
  rcases hf with rfl | rfl
  · -- crate: the whole string has at most 90 characters
    simp only [Flavor.tooLong, crateFlavor, Ref.segwitMaxStringLength, decide_eq_false_iff_not] at htl
    have : crateFlavor.switchBound = 100 := by decide
    rw [this]; omega
  · -- repo decoder: at most 73 payload bytes
    obtain ⟨c1, rest1, htake, _, _, hlenok, _⟩ := validateSegwit_inv _ _ _ _ _ hvs
    have hlen12 : blechFlavor.v0.code.len = 12 := by decide
    rw [hlen12] at hck htake
    have htl' : ((c0 :: rest).take ((c0 :: rest).length - 12)).length = (c0 :: rest).length - 12 := by
      rw [List.length_take]; omega
    rw [htake] at htl'
    simp only [List.length_cons] at htl' hck
    unfold validateLength at hlenok
    simp only [blechFlavor] at hlenok
    have hmax : ¬ (rest1.length * 5 / 8 > 40 + 33) := by
      intro hgt
      by_cases hmin : rest1.length * 5 / 8 < 2 + 33
      · simp [hmin] at hlenok
      · simp [hmin, hgt] at hlenok
    have : blechFlavor.switchBound = 140 := by decide
    rw [this]
    simp only [List.length_cons]
    omega

/-- **String-level detection.** If `h ++ "1" ++ d` decodes, then replacing one or two characters of
    the data part `d` (witness-version character included) by alphabet characters with different
    symbol values gives a string that is rejected. -/
theorem corrupted_data_rejected (f : Flavor) (hf : IsFlavor f) (h d d' : Text) (r : Seg)
    (hok : segwitNew f (h ++ 49 :: d) = .ok r) (hh : h.length ≤ 4)
    (hd : ∀ c ∈ d, (fromChar c).isSome = true) (hd' : ∀ c ∈ d', (fromChar c).isSome = true)
    (hlen : d'.length = d.length)
    (h1 : 1 ≤ diffCount (d.map sym) (d'.map sym)) (h2 : diffCount (d.map sym) (d'.map sym) ≤ 2) :
    ∃ k, segwitNew f (h ++ 49 :: d') = .err k := by
  -- it is enough to exclude `ok`
  suffices hno : ∀ r', segwitNew f (h ++ 49 :: d') ≠ .ok r' by
    cases hres : segwitNew f (h ++ 49 :: d') with
    | ok r' => exact absurd hres (hno r')
    | err k => exact ⟨k, rfl⟩
    | panic site => exact absurd hres (segwitNew_not_panic _ _ _)
  intro r' hok'
  obtain ⟨hrp, c0, rest, htl, hun, _, hck, hvs⟩ := segwitNew_inv f _ r hok
  obtain ⟨hrp', c0', rest', _, hun', _, hck', _⟩ := segwitNew_inv f _ r' hok'
  obtain ⟨e1, e2⟩ := uncheckedNew_split h d hd _ _ hun
  obtain ⟨e1', e2'⟩ := uncheckedNew_split h d' hd' _ _ hun'
  subst hrp hrp' d d'
  have hp := (uncheckedNew_inv _ _ _ hun).2.1
  obtain ⟨hcl, hver⟩ := validateChecksum_inv _ _ _ _ _ hck
  obtain ⟨_, hver'⟩ := validateChecksum_inv _ _ _ _ _ hck'
  have hpre : ∀ x ∈ hrpExpand h, x < 32 := hrpExpand_lt h (hrpParse_lt h hp)
  have hw : ∀ x ∈ hrpExpand h ++ (c0 :: rest).map sym, x < 32 := by
    intro x hx; rcases List.mem_append.1 hx with hx | hx
    · exact hpre x hx
    · exact map_sym_lt _ x hx
  have hw' : ∀ x ∈ hrpExpand h ++ (c0' :: rest').map sym, x < 32 := by
    intro x hx; rcases List.mem_append.1 hx with hx | hx
    · exact hpre x hx
    · exact map_sym_lt _ x hx
  have htot := total_symbols_le f hf _ h c0 rest r (by simp; omega) hh htl hcl hvs
  have := symbols_detect f hf (sym c0) (sym c0') _ _ (by simp at hlen; simp; omega) hw hw'
    (by rw [diffCount_append_left]; exact h1) (by rw [diffCount_append_left]; exact h2) htot
    (by simpa [verify] using hver)
  exact this (by simpa [verify] using hver')

/-- a witness version above 16 is rejected (before any checksum is looked at) -/
theorem version_gt16 (f : Flavor) (h d : Text) (c0 : Nat) (hd : ∀ c ∈ c0 :: d, (fromChar c).isSome = true)
    (hv : 16 < sym c0) : ∃ k, segwitNew f (h ++ 49 :: c0 :: d) = .err k := by
  cases hres : segwitNew f (h ++ 49 :: c0 :: d) with
  | err k => exact ⟨k, rfl⟩
  | panic site => exact absurd hres (segwitNew_not_panic _ _ _)
  | ok r =>
    obtain ⟨hrp, c1, rest, _, hun, hle, _, _⟩ := segwitNew_inv f _ r hres
    obtain ⟨_, hdeq⟩ := uncheckedNew_split h (c0 :: d) hd _ _ hun
    simp only [List.cons.injEq] at hdeq
    rw [hdeq.1] at hle
    omega

/-- changing the human-readable part (in any way) changes the residue of every data part, provided
    the two expanded prefixes have different residues -/
theorem prefix_change_detected (c : Code) (hc : c.Good) (hb : c.LowBij) (pre pre' syms : List Nat)
    (hp : ∀ x ∈ pre, x < 32) (hp' : ∀ x ∈ pre', x < 32) (hs : ∀ x ∈ syms, x < 32)
    (hne : c.polymod pre ≠ c.polymod pre') :
    c.polymod (pre ++ syms) ≠ c.polymod (pre' ++ syms) := by
  have h1lt : 1 < 2 ^ (5 * c.len) := by
    have := hc.len_pos
    calc 1 < 2 ^ 5 := by decide
      _ ≤ 2 ^ (5 * c.len) := Nat.pow_le_pow_right (by decide) (by omega)
  have ha := polymodFrom_lt c hc 1 h1lt pre hp
  have hb' := polymodFrom_lt c hc 1 h1lt pre' hp'
  simp only [polymod, polymodFrom_append]
  induction syms generalizing pre pre' with
  | nil => simpa [polymodFrom_nil, polymod] using hne
  | cons x syms ih =>
    intro heq
    simp only [polymodFrom_cons] at heq
    have hx : x < 32 := hs x (by simp)
    -- one more symbol: apply the induction hypothesis to the extended prefixes
    have := ih (pre ++ [x]) (pre' ++ [x])
      (by intro y hy; rcases List.mem_append.1 hy with hy | hy
          · exact hp y hy
          · simp at hy; omega)
      (by intro y hy; rcases List.mem_append.1 hy with hy | hy
          · exact hp' y hy
          · simp at hy; omega)
      (fun y hy => hs y (by simp [hy]))
      (by
        simp only [polymod, polymodFrom_append, polymodFrom_cons, polymodFrom_nil]
        intro h
        exact hne (step_injective c hc hb x _ _ hx ha hb' h))
      (polymodFrom_lt c hc 1 h1lt _ (by
        intro y hy; rcases List.mem_append.1 hy with hy | hy
        · exact hp y hy
        · simp at hy; omega))
      (polymodFrom_lt c hc 1 h1lt _ (by
        intro y hy; rcases List.mem_append.1 hy with hy | hy
        · exact hp' y hy
        · simp at hy; omega))
    apply this
    simpa [polymodFrom_append, polymodFrom_cons, polymodFrom_nil] using heq

end EV.Bech32
