/-
  EV.Proofs.BlindSelect — the output-selection logic of `Transaction::blind` (model:
  `EV.Blind.blind`): which outputs are blinded, which one is "the last", what ends up in the
  returned map.  No algebra here (scalars are any type with the operations the model uses).
-/
import EV.Model.Blind

namespace EV.Blind
open EV

variable {A R P K RP SP : Type} [Zero R]

/-- elementwise relation between two lists -/
def Forall2 {α β : Type} (r : α → β → Prop) : List α → List β → Prop
  | [], [] => True
  | a :: as, b :: bs => r a b ∧ Forall2 r as bs
  | _, _ => False

theorem Forall2.length_eq {α β : Type} {r : α → β → Prop} :
    ∀ {l₁ : List α} {l₂ : List β}, Forall2 r l₁ l₂ → l₁.length = l₂.length
  | [], [], _ => rfl
  | _ :: as, _ :: bs, h => by simp [Forall2.length_eq h.2]
  | [], _ :: _, h => h.elim
  | _ :: _, [], h => h.elim

theorem Forall2.imp {α β : Type} {r s : α → β → Prop} (hrs : ∀ a b, r a b → s a b) :
    ∀ {l₁ : List α} {l₂ : List β}, Forall2 r l₁ l₂ → Forall2 s l₁ l₂
  | [], [], _ => trivial
  | _ :: _, _ :: _, h => ⟨hrs _ _ h.1, Forall2.imp hrs h.2⟩
  | [], _ :: _, h => h.elim
  | _ :: _, [], h => h.elim

/-- number of outputs marked for blinding -/
def countMarked (outs : List (TxOut A P RP SP)) : Nat := (outs.filter TxOut.marked).length

@[simp] theorem countMarked_nil : countMarked ([] : List (TxOut A P RP SP)) = 0 := rfl
theorem countMarked_cons (o : TxOut A P RP SP) (outs : List (TxOut A P RP SP)) :
    countMarked (o :: outs) = (if o.marked = true then 1 else 0) + countMarked outs := by
  unfold countMarked
  by_cases h : o.marked = true <;> simp [h] <;> omega

theorem marked_eq (o : TxOut A P RP SP) : (o.isFee || !o.nonce.isConf) = !o.marked := by
  unfold TxOut.marked
  cases o.isFee <;> cases o.nonce.isConf <;> rfl

/-- how an output `o` of the unblinded transaction and the entry `e` at the same position of the
    result relate: an unmarked output is untouched, is not in the map, and is opened by
    (asset, value, 0, 0); a marked one is the result of `with_txout_secrets` on an opening with the
    original asset and value, with the output's own script, the receiver key from its nonce and the
    ephemeral key reported in the map -/
def Rel (B : BPrims A R P K RP SP) (spent : List (Secrets A R)) (o : TxOut A P RP SP)
    (e : Entry A R P RP SP) : Prop :=
  (o.marked = false ∧ e.out = o ∧ e.esk = none ∧
    ∃ a v, o.asset = .explicit a ∧ o.value = .explicit v ∧ e.sec = ⟨a, v, 0, 0⟩) ∨
  (o.marked = true ∧ ∃ a v pk esk, o.asset = .explicit a ∧ o.value = .explicit v ∧ o.nonce = .conf pk ∧
    e.esk = some esk ∧ e.sec.asset = a ∧ e.sec.value = v ∧
    withTxoutSecrets B o.script pk esk e.sec spent = .ok e.out)

omit [Zero R] in
/-- what `with_txout_secrets` returns when it succeeds -/
theorem withTxoutSecrets_ok {B : BPrims A R P K RP SP} {spk : Bytes} {pk : P} {esk : R}
    {sec : Secrets A R} {spent : List (Secrets A R)} {o : TxOut A P RP SP}
    (h : withTxoutSecrets B spk pk esk sec spent = .ok o) :
    ¬ (sec.value < Gen.c04RangeproofMinValue) ∧
    ∃ rp sp,
      B.surjProve sec.asset sec.abf (surjInputs B spent) = some sp ∧
      B.rangeProve (B.commit sec.value sec.vbf (B.genBlinded sec.asset sec.abf)) sec.value sec.vbf
        (sec.asset, sec.abf) spk (B.ecdh pk esk) (B.genBlinded sec.asset sec.abf) = some rp ∧
      o = { asset := .conf (B.genBlinded sec.asset sec.abf),
            value := .conf (B.commit sec.value sec.vbf (B.genBlinded sec.asset sec.abf)),
            nonce := .conf (B.pubOf esk), script := spk, rangeproof := some rp, surjproof := some sp } := by
  unfold withTxoutSecrets at h
  cases hs : B.surjProve sec.asset sec.abf (surjInputs B spent) with
  | none => simp [hs] at h
  | some sp =>
    simp only [hs] at h
    by_cases hz : sec.value < Gen.c04RangeproofMinValue
    · simp [hz] at h
    · simp only [hz, if_false] at h
      cases hr : B.rangeProve (B.commit sec.value sec.vbf (B.genBlinded sec.asset sec.abf)) sec.value sec.vbf
          (sec.asset, sec.abf) spk (B.ecdh pk esk) (B.genBlinded sec.asset sec.abf) with
      | none => simp [hr] at h
      | some rp =>
        simp only [hr] at h
        injection h with h
        exact ⟨hz, rp, sp, rfl, rfl, h.symm⟩

omit [Zero R] in
/-- and conversely it succeeds when both provers do and the value is not below the range-proof minimum -/
theorem withTxoutSecrets_succeeds {B : BPrims A R P K RP SP} (spk : Bytes) (pk : P) (esk : R)
    (sec : Secrets A R) (spent : List (Secrets A R))
    (hz : ¬ (sec.value < Gen.c04RangeproofMinValue))
    (hs : (B.surjProve sec.asset sec.abf (surjInputs B spent)).isSome)
    (hr : ∀ c k g, (B.rangeProve c sec.value sec.vbf (sec.asset, sec.abf) spk k g).isSome) :
    ∃ o, withTxoutSecrets B spk pk esk sec spent = .ok o := by
  unfold withTxoutSecrets
  cases hs' : B.surjProve sec.asset sec.abf (surjInputs B spent) with
  | none => simp [hs'] at hs
  | some sp =>
    simp only [hz, if_false]
    have := hr (B.commit sec.value sec.vbf (B.genBlinded sec.asset sec.abf)) (B.ecdh pk esk)
      (B.genBlinded sec.asset sec.abf)
    cases hr' : B.rangeProve (B.commit sec.value sec.vbf (B.genBlinded sec.asset sec.abf)) sec.value sec.vbf
        (sec.asset, sec.abf) spk (B.ecdh pk esk) (B.genBlinded sec.asset sec.abf) with
    | none => simp [hr'] at this
    | some rp => exact ⟨_, rfl⟩

/-- **the loop of `Transaction::blind`**: with `num_blinded + (marked outputs still to come) =
    num_to_blind`, the loop blinds every marked output but the final one, for which it takes the
    `last` branch exactly once with `num_blinded = num_to_blind - 1`; assembling the result with any
    last output gives entries related to the outputs position by position, whose openings are
    `out_secrets` with the last opening inserted. -/
theorem blindLoop_spec (B : BPrims A R P K RP SP) (spent : List (Secrets A R)) (rands : Nat → Rand R)
    (n : Nat) :
    ∀ (outs : List (TxOut A P RP SP)) (nb i : Nat) (slots : List (Slot A R P RP SP)),
      blindLoop B spent rands n nb outs = .ok slots → nb + countMarked outs = n →
      (countMarked outs = 0 →
        lastIndex i slots = none ∧
        ∀ li lo ls lesk,
          (assemble li lo ls lesk i slots).map Entry.sec = slotSecrets slots ∧
          Forall2 (Rel B spent) outs (assemble li lo ls lesk i slots)) ∧
      (0 < countMarked outs →
        ∃ li o, lastIndex i slots = some (li, o, n - 1) ∧ o ∈ outs ∧ o.marked = true ∧
          ∀ lo ls lesk, ∃ pre post,
            slotSecrets slots = pre ++ post ∧
            (assemble li lo ls lesk i slots).map Entry.sec = pre ++ ls :: post ∧
            (Rel B spent o ⟨lo, ls, some lesk⟩ →
              Forall2 (Rel B spent) outs (assemble li lo ls lesk i slots)))
  | [], nb, i, slots, h, _ => by
    simp only [blindLoop] at h
    injection h with h
    subst h
    simp [lastIndex, assemble, slotSecrets, Forall2]
  | o :: rest, nb, i, slots, h, hcount => by
    rw [countMarked_cons] at hcount
    rw [countMarked_cons]
    unfold blindLoop at h
    rw [marked_eq] at h
    by_cases hm : o.marked = true
    · -- a marked output
      simp only [hm, Bool.not_true, Bool.false_eq_true, if_false] at h
      simp only [hm, if_true] at hcount ⊢
      cases hn : o.nonce with
      | null => simp [hn] at h
      | explicit => simp [hn] at h
      | conf pk =>
        simp only [hn] at h
        by_cases hadr : addressable o.script = true
        · simp only [hadr, Bool.not_true, Bool.false_eq_true, if_false] at h
          by_cases hlt : nb + 1 < n
          · -- not the last one
            simp only [hlt, if_true] at h
            cases ha : o.asset with
            | null => simp [ha] at h
            | conf g => simp [ha] at h
            | explicit a =>
              cases hv : o.value with
              | null => simp [ha, hv] at h
              | conf c => simp [ha, hv] at h
              | explicit v =>
                simp only [ha, hv] at h
                cases hw : withTxoutSecrets B o.script pk (rands nb).esk
                    ⟨a, v, (rands nb).abf, (rands nb).vbf⟩ spent with
                | err e => simp [hw] at h
                | panic s => simp [hw] at h
                | ok o' =>
                  simp only [hw] at h
                  cases hr : blindLoop B spent rands n (nb + 1) rest with
                  | err e => simp [hr] at h
                  | panic s => simp [hr] at h
                  | ok r =>
                    simp only [hr] at h
                    injection h with h
                    subst h
                    have ih := blindLoop_spec B spent rands n rest (nb + 1) (i + 1) r hr (by omega)
                    have hpos : 0 < countMarked rest := by omega
                    obtain ⟨li, lo', hli, hmem, hmk, hall⟩ := ih.2 hpos
                    refine ⟨fun h0 => by omega, fun _ => ⟨li, lo', ?_, List.mem_cons_of_mem _ hmem, hmk, ?_⟩⟩
                    · simp [lastIndex, hli]
                    · intro lo ls lesk
                      obtain ⟨pre, post, h1, h2, h3⟩ := hall lo ls lesk
                      refine ⟨⟨a, v, (rands nb).abf, (rands nb).vbf⟩ :: pre, post, ?_, ?_, ?_⟩
                      · simp [slotSecrets, h1]
                      · simp [assemble, h2]
                      · intro hrel
                        simp only [assemble, Forall2]
                        refine ⟨Or.inr ⟨hm, a, v, pk, (rands nb).esk, ha, hv, hn, rfl, rfl, rfl, hw⟩, h3 hrel⟩
          · -- the last one
            simp only [hlt, if_false] at h
            cases hr : blindLoop B spent rands n (nb + 1) rest with
            | err e => simp [hr] at h
            | panic s => simp [hr] at h
            | ok r =>
              simp only [hr] at h
              injection h with h
              subst h
              have hzero : countMarked rest = 0 := by omega
              have hn1 : nb = n - 1 := by omega
              have ih := blindLoop_spec B spent rands n rest (nb + 1) (i + 1) r hr (by omega)
              obtain ⟨hnone, hall⟩ := ih.1 hzero
              refine ⟨fun h0 => by omega, fun _ => ⟨i, o, ?_, List.mem_cons_self, hm, ?_⟩⟩
              · simp [lastIndex, hnone, hn1]
              · intro lo ls lesk
                obtain ⟨h2, h3⟩ := hall i lo ls lesk
                refine ⟨[], slotSecrets r, by simp [slotSecrets], ?_, ?_⟩
                · simp [assemble, h2]
                · intro hrel
                  simp only [assemble, if_true, Forall2]
                  exact ⟨hrel, h3⟩
        · simp [hadr] at h
    · -- an unmarked output
      have hm' : o.marked = false := by simpa using hm
      simp only [hm', Bool.not_false, if_true] at h
      simp only [hm', Bool.false_eq_true, if_false, Nat.zero_add] at hcount ⊢
      cases ha : o.asset with
      | null => simp [ha] at h
      | conf g => simp [ha] at h
      | explicit a =>
        cases hv : o.value with
        | null => simp [ha, hv] at h
        | conf c => simp [ha, hv] at h
        | explicit v =>
          simp only [ha, hv] at h
          cases hr : blindLoop B spent rands n nb rest with
          | err e => simp [hr] at h
          | panic s => simp [hr] at h
          | ok r =>
            simp only [hr] at h
            injection h with h
            subst h
            have ih := blindLoop_spec B spent rands n rest nb (i + 1) r hr hcount
            have hrel : ∀ (e : Entry A R P RP SP), e = ⟨o, ⟨a, v, 0, 0⟩, none⟩ → Rel B spent o e := by
              intro e he
              subst he
              exact Or.inl ⟨hm', rfl, rfl, a, v, ha, hv, rfl⟩
            constructor
            · intro h0
              obtain ⟨hnone, hall⟩ := ih.1 h0
              refine ⟨by simp [lastIndex, hnone], fun li lo ls lesk => ?_⟩
              obtain ⟨h2, h3⟩ := hall li lo ls lesk
              exact ⟨by simp [assemble, slotSecrets, h2], by simp only [assemble, Forall2]; exact ⟨hrel _ rfl, h3⟩⟩
            · intro hpos
              obtain ⟨li, lo', hli, hmem, hmk, hall⟩ := ih.2 hpos
              refine ⟨li, lo', by simp [lastIndex, hli], List.mem_cons_of_mem _ hmem, hmk, fun lo ls lesk => ?_⟩
              obtain ⟨pre, post, h1, h2, h3⟩ := hall lo ls lesk
              refine ⟨⟨a, v, 0, 0⟩ :: pre, post, by simp [slotSecrets, h1], by simp [assemble, h2], fun hr' => ?_⟩
              simp only [assemble, Forall2]
              exact ⟨hrel _ rfl, h3 hr'⟩

/-- the loop does not fail when every output is explicit, every marked output has an address-shaped
    script and `with_txout_secrets` succeeds on every marked output but the last -/
theorem blindLoop_succeeds (B : BPrims A R P K RP SP) (spent : List (Secrets A R)) (rands : Nat → Rand R)
    (n : Nat) :
    ∀ (outs : List (TxOut A P RP SP)) (nb : Nat),
      (∀ o ∈ outs, o.allExplicit = true) →
      (∀ o ∈ outs, o.marked = true → addressable o.script = true) →
      (∀ o ∈ outs, o.marked = true → ∀ a v pk k, o.asset = .explicit a → o.value = .explicit v →
        o.nonce = .conf pk → ∃ o', withTxoutSecrets B o.script pk (rands k).esk
          ⟨a, v, (rands k).abf, (rands k).vbf⟩ spent = .ok o') →
      ∃ slots, blindLoop B spent rands n nb outs = .ok slots
  | [], nb, _, _, _ => ⟨[], rfl⟩
  | o :: rest, nb, hexp, hadr, hw => by
    have hexp' : ∀ o ∈ rest, o.allExplicit = true := fun x hx => hexp x (List.mem_cons_of_mem _ hx)
    have hadr' : ∀ o ∈ rest, o.marked = true → addressable o.script = true :=
      fun x hx => hadr x (List.mem_cons_of_mem _ hx)
    have hw' : ∀ o ∈ rest, o.marked = true → ∀ a v pk k, o.asset = .explicit a → o.value = .explicit v →
        o.nonce = .conf pk → ∃ o', withTxoutSecrets B o.script pk (rands k).esk
          ⟨a, v, (rands k).abf, (rands k).vbf⟩ spent = .ok o' :=
      fun x hx => hw x (List.mem_cons_of_mem _ hx)
    have he := hexp o List.mem_cons_self
    unfold TxOut.allExplicit at he
    obtain ⟨a, ha⟩ : ∃ a, o.asset = .explicit a := by
      cases h : o.asset <;> simp [h, CAsset.isExplicit] at he ⊢
    obtain ⟨v, hv⟩ : ∃ v, o.value = .explicit v := by
      cases h : o.value <;> simp [h, CValue.isExplicit] at he ⊢
    unfold blindLoop
    rw [marked_eq]
    by_cases hm : o.marked = true
    · simp only [hm, Bool.not_true, Bool.false_eq_true, if_false]
      obtain ⟨pk, hn⟩ : ∃ pk, o.nonce = .conf pk := by
        unfold TxOut.marked at hm
        cases h : o.nonce <;> simp [h, CNonce.isConf] at hm ⊢
      simp only [hn, hadr o List.mem_cons_self hm, Bool.not_true, Bool.false_eq_true, if_false]
      by_cases hlt : nb + 1 < n
      · simp only [hlt, if_true, ha, hv]
        obtain ⟨o', ho'⟩ := hw o List.mem_cons_self hm a v pk nb ha hv hn
        obtain ⟨r, hr⟩ := blindLoop_succeeds B spent rands n rest (nb + 1) hexp' hadr' hw'
        simp [ho', hr]
      · simp only [hlt, if_false]
        obtain ⟨r, hr⟩ := blindLoop_succeeds B spent rands n rest (nb + 1) hexp' hadr' hw'
        simp [hr]
    · have hm' : o.marked = false := by simpa using hm
      simp only [hm', Bool.not_false, if_true, ha, hv]
      obtain ⟨r, hr⟩ := blindLoop_succeeds B spent rands n rest nb hexp' hadr' hw'
      simp [hr]

/-- the returned map has one entry per marked output, keyed by its index, carrying the blinding
    factors of the opening at that position -/
theorem blindsOf_spec (B : BPrims A R P K RP SP) (spent : List (Secrets A R)) :
    ∀ (outs : List (TxOut A P RP SP)) (entries : List (Entry A R P RP SP)) (i : Nat),
      Forall2 (Rel B spent) outs entries →
      (blindsOf i entries).map (fun x => x.1) =
        ((outs.zipIdx i).filter (fun x => x.1.marked)).map (fun x => x.2)
  | [], [], i, _ => rfl
  | o :: os, e :: es, i, h => by
    have ih := blindsOf_spec B spent os es (i + 1) h.2
    rcases h.1 with ⟨hm, _, he, _⟩ | ⟨hm, a, v, pk, esk, _, _, _, he, _⟩
    · simp [blindsOf, he, List.zipIdx_cons, hm, ih]
    · simp [blindsOf, he, List.zipIdx_cons, hm, ih]
  | [], _ :: _, _, h => h.elim
  | _ :: _, [], _, h => h.elim

variable [Add R] [Mul R] [Neg R] [NatCast R]

/-- everything `Transaction::blind` guarantees about its result, before any algebra -/
theorem blind_spec (B : BPrims A R P K RP SP) (outputs : List (TxOut A P RP SP))
    (spent : List (Secrets A R)) (rands : Nat → Rand R) (entries : List (Entry A R P RP SP))
    (h : blind B outputs spent rands = .ok entries) :
    0 < countMarked outputs ∧
    Forall2 (Rel B spent) outputs entries ∧
    ∃ (a : A) (v : Nat) (abf : R) (pre post : List (Secrets A R)),
      entries.map Entry.sec = pre ++ ⟨a, v, abf, lastVbf v abf spent (pre ++ post)⟩ :: post := by
  unfold blind at h
  by_cases hexp : outputs.all TxOut.allExplicit = true
  · simp only [hexp, Bool.not_true, Bool.false_eq_true, if_false] at h
    cases hl : blindLoop B spent rands (outputs.filter TxOut.marked).length 0 outputs with
    | err e => simp [hl] at h
    | panic s => simp [hl] at h
    | ok slots =>
      simp only [hl] at h
      have spec := blindLoop_spec B spent rands (countMarked outputs) outputs 0 0 slots hl (by simp)
      by_cases hz : countMarked outputs = 0
      · have := (spec.1 hz).1
        simp [this] at h
      · have hpos : 0 < countMarked outputs := Nat.pos_of_ne_zero hz
        obtain ⟨li, o, hli, hmem, hmk, hall⟩ := spec.2 hpos
        simp only [hli] at h
        have hoe : o.allExplicit = true := (List.all_eq_true.1 hexp) o hmem
        unfold TxOut.allExplicit at hoe
        cases ha : o.asset with
        | null => simp [ha, CAsset.isExplicit] at hoe
        | conf g => simp [ha, CAsset.isExplicit] at hoe
        | explicit a =>
          cases hv : o.value with
          | null => simp [hv, CValue.isExplicit] at hoe
          | conf c => simp [hv, CValue.isExplicit] at hoe
          | explicit v =>
            cases hn : o.nonce with
            | null => unfold TxOut.marked at hmk; simp [hn, CNonce.isConf] at hmk
            | explicit => unfold TxOut.marked at hmk; simp [hn, CNonce.isConf] at hmk
            | conf pk =>
              simp only [ha, hv, hn] at h
              cases hw : withTxoutSecrets B o.script pk (rands (countMarked outputs - 1)).esk
                  ⟨a, v, (rands (countMarked outputs - 1)).abf,
                    lastVbf v (rands (countMarked outputs - 1)).abf spent (slotSecrets slots)⟩ spent with
              | err e => simp [hw] at h
              | panic s => simp [hw] at h
              | ok o' =>
                simp only [hw] at h
                injection h with h
                subst h
                obtain ⟨pre, post, h1, h2, h3⟩ := hall o'
                  ⟨a, v, (rands (countMarked outputs - 1)).abf,
                    lastVbf v (rands (countMarked outputs - 1)).abf spent (slotSecrets slots)⟩
                  (rands (countMarked outputs - 1)).esk
                refine ⟨hpos, h3 (Or.inr ⟨hmk, a, v, pk, _, ha, hv, hn, rfl, rfl, rfl, hw⟩), a, v,
                  (rands (countMarked outputs - 1)).abf, pre, post, ?_⟩
                rw [h2, h1]
  · simp [hexp] at h

/-- no output marked (non-fee output with a confidential nonce): `TooFewBlindingOutputs` -/
theorem blind_none_marked_err' (B : BPrims A R P K RP SP) (outputs : List (TxOut A P RP SP))
    (spent : List (Secrets A R)) (rands : Nat → Rand R)
    (hexp : ∀ o ∈ outputs, o.allExplicit = true) (hnone : ∀ o ∈ outputs, o.marked = false) :
    blind B outputs spent rands = .err eTooFewBlindingOutputs := by
  have hz : countMarked outputs = 0 := by
    unfold countMarked
    rw [List.length_eq_zero_iff, List.filter_eq_nil_iff]
    intro o ho
    simp [hnone o ho]
  obtain ⟨slots, hl⟩ := blindLoop_succeeds B spent rands (countMarked outputs) outputs 0 hexp
    (fun o ho hm => by simp [hnone o ho] at hm) (fun o ho hm => by simp [hnone o ho] at hm)
  have spec := blindLoop_spec B spent rands (countMarked outputs) outputs 0 0 slots hl (by simp)
  have hnone' := (spec.1 hz).1
  unfold blind
  have : outputs.all TxOut.allExplicit = true := List.all_eq_true.2 hexp
  simp only [this, Bool.not_true, Bool.false_eq_true, if_false]
  unfold countMarked at hl
  simp [hl, hnone']

/-- an output that is not fully explicit: `MustHaveAllExplicitTxOuts`, before anything else -/
theorem blind_not_all_explicit_err' (B : BPrims A R P K RP SP) (outputs : List (TxOut A P RP SP))
    (spent : List (Secrets A R)) (rands : Nat → Rand R)
    (o : TxOut A P RP SP) (ho : o ∈ outputs) (hne : o.allExplicit = false) :
    blind B outputs spent rands = .err eMustHaveAllExplicit := by
  unfold blind
  have : outputs.all TxOut.allExplicit = false := by
    rw [Bool.eq_false_iff]
    intro hall
    have := (List.all_eq_true.1 hall) o ho
    simp [hne] at this
  simp [this]

/-- `Transaction::blind` succeeds when every output is explicit, at least one is marked, marked
    outputs have address-shaped scripts and `with_txout_secrets` can produce its proofs for every
    marked output (whatever blinding factors are drawn or computed) -/
theorem blind_succeeds' (B : BPrims A R P K RP SP) (outputs : List (TxOut A P RP SP))
    (spent : List (Secrets A R)) (rands : Nat → Rand R)
    (hexp : ∀ o ∈ outputs, o.allExplicit = true)
    (hpos : 0 < countMarked outputs)
    (hadr : ∀ o ∈ outputs, o.marked = true → addressable o.script = true)
    (hw : ∀ o ∈ outputs, o.marked = true → ∀ a v pk esk abf vbf, o.asset = .explicit a →
      o.value = .explicit v → o.nonce = .conf pk →
      ∃ o', withTxoutSecrets B o.script pk esk ⟨a, v, abf, vbf⟩ spent = .ok o') :
    ∃ entries, blind B outputs spent rands = .ok entries := by
  obtain ⟨slots, hl⟩ := blindLoop_succeeds B spent rands (countMarked outputs) outputs 0 hexp hadr
    (fun o ho hm a v pk k ha hv hn => hw o ho hm a v pk _ _ _ ha hv hn)
  have spec := blindLoop_spec B spent rands (countMarked outputs) outputs 0 0 slots hl (by simp)
  obtain ⟨li, o, hli, hmem, hmk, _⟩ := spec.2 hpos
  unfold blind
  have hall : outputs.all TxOut.allExplicit = true := List.all_eq_true.2 hexp
  simp only [hall, Bool.not_true, Bool.false_eq_true, if_false]
  unfold countMarked at hl hli
  simp only [hl, hli]
  have hoe := hexp o hmem
  unfold TxOut.allExplicit at hoe
  obtain ⟨a, ha⟩ : ∃ a, o.asset = .explicit a := by
    cases h : o.asset <;> simp [h, CAsset.isExplicit] at hoe ⊢
  obtain ⟨v, hv⟩ : ∃ v, o.value = .explicit v := by
    cases h : o.value <;> simp [h, CValue.isExplicit] at hoe ⊢
  obtain ⟨pk, hn⟩ : ∃ pk, o.nonce = .conf pk := by
    unfold TxOut.marked at hmk
    cases h : o.nonce <;> simp [h, CNonce.isConf] at hmk ⊢
  simp only [ha, hv, hn]
  obtain ⟨o', ho'⟩ := hw o hmem hmk a v pk
    (rands ((outputs.filter TxOut.marked).length - 1)).esk
    (rands ((outputs.filter TxOut.marked).length - 1)).abf
    (lastVbf v (rands ((outputs.filter TxOut.marked).length - 1)).abf spent (slotSecrets slots)) ha hv hn
  simp [ho']

end EV.Blind
