/-
  EV.Proofs.PsetLockKind — with requirements typed as in Rust (`locktime::Height` is below
  `LOCK_TIME_THRESHOLD`, `locktime::Time` at or above it; the constant is regenerated from
  src/locktime.rs), the selected lock time is a block height exactly when every constraining
  input supports a height lock: height is preferred whenever it is possible.
-/
import EV.Proofs.PsetLocktime
import EV.Gen.Consts
namespace EV.Proofs.PsetLockKind
open EV EV.Proofs.PsetLocktime

/-- requirements as the Rust types guarantee them -/
def WellTyped (reqs : List LockReq) : Prop :=
  ∀ r ∈ reqs, (∀ t, r.1 = some t → EV.Gen.lockTimeThreshold ≤ t) ∧ (∀ h, r.2 = some h → h < EV.Gen.lockTimeThreshold)

theorem maxList_cons' (x : Nat) (l : List Nat) : maxList (x :: l) = max x (maxList l) :=
  maxList_cons x l

theorem maxList_nil : maxList [] = 0 := rfl

theorem le_maxList (l : List Nat) (x : Nat) (h : x ∈ l) : x ≤ maxList l := by
  induction l with
  | nil => cases h
  | cons y l ih =>
    rw [maxList_cons']
    cases h with
    | head => omega
    | tail _ h' =>
      have := ih h'
      omega

theorem maxList_lt (l : List Nat) (b : Nat) (hb : 0 < b) (h : ∀ x ∈ l, x < b) : maxList l < b := by
  induction l with
  | nil => rw [maxList_nil]; exact hb
  | cons y l ih =>
    rw [maxList_cons']
    have h1 : y < b := h y List.mem_cons_self
    have h2 : maxList l < b := ih (fun x hx => h x (List.mem_cons_of_mem _ hx))
    omega

/-- the maximum is attained -/
theorem maxList_mem (l : List Nat) (h : l ≠ []) : maxList l ∈ l := by
  induction l with
  | nil => exact absurd rfl h
  | cons y l ih =>
    rw [maxList_cons']
    cases l with
    | nil =>
      rw [maxList_nil]
      have : max y 0 = y := by omega
      rw [this]
      exact List.mem_cons_self
    | cons z l =>
      have hm := ih (List.cons_ne_nil z l)
      by_cases hle : y ≤ maxList (z :: l)
      · have : max y (maxList (z :: l)) = maxList (z :: l) := by omega
        rw [this]
        exact List.mem_cons_of_mem _ hm
      · have : max y (maxList (z :: l)) = y := by omega
        rw [this]
        exact List.mem_cons_self

/-! ### the conditions of `bip370` as statements about the members of the list -/

theorem cs_isEmpty_iff (reqs : List LockReq) :
    (reqs.filter constraining).isEmpty = true ↔ ∀ r ∈ reqs, constraining r = false := by
  rw [List.isEmpty_iff]
  constructor
  · intro he r hr
    cases hcr : constraining r with
    | false => rfl
    | true =>
      have : r ∈ reqs.filter constraining := List.mem_filter.mpr ⟨hr, hcr⟩
      rw [he] at this
      cases this
  · intro ha
    cases hf : reqs.filter constraining with
    | nil => rfl
    | cons r rs =>
      have hm : r ∈ reqs.filter constraining := by rw [hf]; exact List.mem_cons_self
      obtain ⟨hr, hcr⟩ := List.mem_filter.mp hm
      rw [ha r hr] at hcr
      cases hcr

theorem cs_all_iff (reqs : List LockReq) (p : LockReq → Bool) :
    (reqs.filter constraining).all p = true ↔ ∀ r ∈ reqs, constraining r = true → p r = true := by
  rw [List.all_eq_true]
  constructor
  · intro ha r hr hcr
    exact ha r (List.mem_filter.mpr ⟨hr, hcr⟩)
  · intro ha r hm
    obtain ⟨hr, hcr⟩ := List.mem_filter.mp hm
    exact ha r hr hcr

theorem mem_heights (reqs : List LockReq) (x : Nat) :
    x ∈ reqs.filterMap (·.2) ↔ ∃ r ∈ reqs, r.2 = some x := by
  rw [List.mem_filterMap]

theorem mem_times (reqs : List LockReq) (x : Nat) :
    x ∈ reqs.filterMap (·.1) ↔ ∃ r ∈ reqs, r.1 = some x := by
  rw [List.mem_filterMap]

theorem threshold_pos : 0 < EV.Gen.lockTimeThreshold := by decide

/-- the shape of a successful result -/
theorem ok_cases (fb : Option Nat) (reqs : List LockReq) (n : Nat) (h : locktimeOf fb reqs = .ok n) :
    ((∀ r ∈ reqs, constraining r = false) ∧ n = fb.getD 0) ∨
    ((∃ r ∈ reqs, constraining r = true) ∧ (∀ r ∈ reqs, constraining r = true → r.2.isSome = true) ∧
        n = maxList (reqs.filterMap (·.2))) ∨
    ((∃ r ∈ reqs, constraining r = true) ∧ (∃ r ∈ reqs, constraining r = true ∧ r.2.isSome = false) ∧
        (∀ r ∈ reqs, constraining r = true → r.1.isSome = true) ∧
        n = maxList (reqs.filterMap (·.1))) := by
  rw [locktimeOf_eq_bip370] at h
  simp only [bip370] at h
  have hex : ¬ (reqs.filter constraining).isEmpty = true → ∃ r ∈ reqs, constraining r = true := by
    intro hne
    cases hf : reqs.filter constraining with
    | nil => rw [hf] at hne; exact absurd rfl hne
    | cons r rs =>
      have hm : r ∈ reqs.filter constraining := by rw [hf]; exact List.mem_cons_self
      obtain ⟨hr, hcr⟩ := List.mem_filter.mp hm
      exact ⟨r, hr, hcr⟩
  split at h
  · rename_i he
    left
    refine ⟨(cs_isEmpty_iff reqs).mp he, ?_⟩
    cases h; rfl
  · rename_i hne
    split at h
    · rename_i hall
      right; left
      refine ⟨hex hne, (cs_all_iff reqs _).mp hall, ?_⟩
      cases h; rfl
    · rename_i hnall
      split at h
      · rename_i hallT
        right; right
        refine ⟨hex hne, ?_, (cs_all_iff reqs _).mp hallT, ?_⟩
        · apply Classical.byContradiction
          intro hno
          apply hnall
          apply (cs_all_iff reqs _).mpr
          intro r hr hcr
          cases hs : r.2.isSome with
          | true => rfl
          | false => exact absurd ⟨r, hr, hcr, hs⟩ hno
        · cases h; rfl
      · cases h

/-- when some input constrains the lock time, the result is below the threshold (a block height)
    iff every constraining input supports a height lock -/
theorem locktime_kind (fb : Option Nat) (reqs : List LockReq) (hw : WellTyped reqs)
    (hc : ∃ r ∈ reqs, constraining r = true) (n : Nat) (h : locktimeOf fb reqs = .ok n) :
    (n < EV.Gen.lockTimeThreshold ↔ ∀ r ∈ reqs, constraining r = true → r.2.isSome = true) := by
  rcases ok_cases fb reqs n h with ⟨hnone, _⟩ | ⟨_, hall, hn⟩ | ⟨_, ⟨r, hr, hcr, hs⟩, hallT, hn⟩
  · obtain ⟨r, hr, hcr⟩ := hc
    rw [hnone r hr] at hcr
    cases hcr
  · refine ⟨fun _ => hall, fun _ => ?_⟩
    rw [hn]
    apply maxList_lt _ _ threshold_pos
    intro x hx
    obtain ⟨r, hr, hrx⟩ := (mem_heights reqs x).mp hx
    exact (hw r hr).2 x hrx
  · constructor
    · intro hlt
      have h1 := hallT r hr hcr
      cases ht : r.1 with
      | none => rw [ht] at h1; cases h1
      | some t =>
        have hge := (hw r hr).1 t ht
        have hmem : t ∈ reqs.filterMap (·.1) := (mem_times reqs t).mpr ⟨r, hr, ht⟩
        have hle := le_maxList _ t hmem
        rw [← hn] at hle
        omega
    · intro hall
      rw [hall r hr hcr] at hs
      cases hs

/-- the selected lock time is one of the stated requirements of the selected kind (or the fallback) -/
theorem locktime_is_a_requirement (fb : Option Nat) (reqs : List LockReq)
    (hc : ∃ r ∈ reqs, constraining r = true) (n : Nat) (h : locktimeOf fb reqs = .ok n) :
    (∃ r ∈ reqs, r.2 = some n) ∨ (∃ r ∈ reqs, r.1 = some n) := by
  rcases ok_cases fb reqs n h with ⟨hnone, _⟩ | ⟨_, hall, hn⟩ | ⟨_, _, hallT, hn⟩
  · obtain ⟨r, hr, hcr⟩ := hc
    rw [hnone r hr] at hcr
    cases hcr
  · left
    obtain ⟨r, hr, hcr⟩ := hc
    have h1 := hall r hr hcr
    cases hx : r.2 with
    | none => rw [hx] at h1; cases h1
    | some x =>
      have hmem : x ∈ reqs.filterMap (·.2) := (mem_heights reqs x).mpr ⟨r, hr, hx⟩
      have hne : reqs.filterMap (·.2) ≠ [] := List.ne_nil_of_mem hmem
      have := maxList_mem _ hne
      rw [← hn] at this
      exact (mem_heights reqs n).mp this
  · right
    obtain ⟨r, hr, hcr⟩ := hc
    have h1 := hallT r hr hcr
    cases hx : r.1 with
    | none => rw [hx] at h1; cases h1
    | some x =>
      have hmem : x ∈ reqs.filterMap (·.1) := (mem_times reqs x).mpr ⟨r, hr, hx⟩
      have hne : reqs.filterMap (·.1) ≠ [] := List.ne_nil_of_mem hmem
      have := maxList_mem _ hne
      rw [← hn] at this
      exact (mem_times reqs n).mp this

/-- … and it satisfies every stated requirement of that kind -/
theorem locktime_satisfies (fb : Option Nat) (reqs : List LockReq) (n : Nat) (h : locktimeOf fb reqs = .ok n) :
    (∀ r ∈ reqs, constraining r = true → r.2.isSome = true) → ∀ r ∈ reqs, ∀ x, r.2 = some x → x ≤ n := by
  intro hall r hr x hx
  have hcr : constraining r = true := by
    simp only [constraining, hx, Option.isSome_some, Bool.or_true]
  rcases ok_cases fb reqs n h with ⟨hnone, _⟩ | ⟨_, _, hn⟩ | ⟨_, ⟨r', hr', hcr', hs'⟩, _, _⟩
  · rw [hnone r hr] at hcr
    cases hcr
  · rw [hn]
    exact le_maxList _ x ((mem_heights reqs x).mpr ⟨r, hr, hx⟩)
  · rw [hall r' hr' hcr'] at hs'
    cases hs'

end EV.Proofs.PsetLockKind
