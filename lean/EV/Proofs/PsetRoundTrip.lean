/-
  EV.Proofs.PsetRoundTrip — `extract_tx (from_tx tx) = tx` holds for EXACTLY the transactions
  described by `Rt` (characterisation found by running the real code on every candidate class):
  inputs: the index is the coinbase index without the pegin flag, or below 2^30 and not the
  flag/coinbase clash; a pegin witness only on a pegin input; without an issuance the issuance is
  the all-default one and there are no issuance range proofs.  Outputs: asset and value are not
  null, and the nonce is null or a (compressed) confidential nonce on an output that is at least
  partially blinded — `ecdh_pubkey` is the only carrier of the nonce in `extract_tx`, and
  `from_txout` fills it only for partially blinded outputs (recorded finding class F12bc).
-/
import EV.Model.Pset
import EV.Proofs.CodecTx
namespace EV.Proofs.PsetRoundTrip
open EV EV.Codec

/-- inputs that survive `from_txin` then `extract_tx` -/
def RtIn (i : TxIn) : Prop :=
  ((i.previousOutput.vout = 0xffffffff ∧ i.isPegin = false) ∨
   (i.previousOutput.vout < 2^30 ∧
     ¬ (i.previousOutput.vout = 2^30 - 1 ∧ i.isPegin = true ∧ i.hasIssuance = true))) ∧
  (i.isPegin = false → i.witness.peginWitness = []) ∧
  (i.hasIssuance = false →
    i.assetIssuance = AssetIssuance.null ∧ i.witness.amountRangeproof = none ∧
    i.witness.inflationKeysRangeproof = none)

/-- outputs that survive `from_txout` then `extract_tx` -/
def RtOut (o : TxOut) : Prop :=
  o.asset ≠ .null ∧ o.value ≠ .null ∧
  (o.nonce = .null ∨
   ∃ pk, o.nonce = .conf pk ∧ compressPk pk = pk ∧ PsetOutput.txOutPartiallyBlinded o = true)

def Rt (t : Tx) : Prop := (∀ i ∈ t.input, RtIn i) ∧ (∀ o ∈ t.output, RtOut o)

/-- a `u32` index -/
def IndexInRange (t : Tx) : Prop := ∀ i ∈ t.input, i.previousOutput.vout < 2^32

/-! ### helpers: inputs -/

theorem pairValue_roundtrip (v : Value) :
    PsetInput.pairValue (PsetInput.valueAmount v) (PsetInput.valueComm v) = v := by
  cases v <;> rfl

theorem fromTxIn_txid (i : TxIn) : (PsetInput.fromTxIn i).previousTxid = i.previousOutput.txid := by
  unfold PsetInput.fromTxIn
  cases i.isPegin <;> cases i.hasIssuance <;> rfl

theorem fromTxIn_idx (i : TxIn) : (PsetInput.fromTxIn i).previousOutputIndex = i.voutWord := by
  unfold PsetInput.fromTxIn TxIn.voutWord
  cases i.isPegin <;> cases i.hasIssuance <;> simp

theorem fromTxIn_scriptSig (i : TxIn) : (PsetInput.fromTxIn i).finalScriptSig = some i.scriptSig := by
  unfold PsetInput.fromTxIn
  cases i.isPegin <;> cases i.hasIssuance <;> rfl

theorem fromTxIn_sequence (i : TxIn) : (PsetInput.fromTxIn i).sequence = some i.sequence := by
  unfold PsetInput.fromTxIn
  cases i.isPegin <;> cases i.hasIssuance <;> rfl

theorem fromTxIn_scriptWitness (i : TxIn) :
    (PsetInput.fromTxIn i).finalScriptWitness = some i.witness.scriptWitness := by
  unfold PsetInput.fromTxIn
  cases i.isPegin <;> cases i.hasIssuance <;> rfl

theorem fromTxIn_peginWitness (i : TxIn) :
    (PsetInput.fromTxIn i).peginWitness = if i.isPegin then some i.witness.peginWitness else none := by
  unfold PsetInput.fromTxIn
  cases i.isPegin <;> cases i.hasIssuance <;> rfl

theorem fromTxIn_reqTime (i : TxIn) : (PsetInput.fromTxIn i).requiredTimeLocktime = none := by
  unfold PsetInput.fromTxIn
  cases i.isPegin <;> cases i.hasIssuance <;> rfl

theorem fromTxIn_reqHeight (i : TxIn) : (PsetInput.fromTxIn i).requiredHeightLocktime = none := by
  unfold PsetInput.fromTxIn
  cases i.isPegin <;> cases i.hasIssuance <;> rfl

theorem fromTxIn_valueRangeproof (i : TxIn) :
    (PsetInput.fromTxIn i).issuanceValueRangeproof =
      if i.hasIssuance then i.witness.amountRangeproof else none := by
  unfold PsetInput.fromTxIn
  cases i.isPegin <;> cases i.hasIssuance <;> rfl

theorem fromTxIn_keysRangeproof (i : TxIn) :
    (PsetInput.fromTxIn i).issuanceKeysRangeproof =
      if i.hasIssuance then i.witness.inflationKeysRangeproof else none := by
  unfold PsetInput.fromTxIn
  cases i.isPegin <;> cases i.hasIssuance <;> rfl

theorem fromTxIn_assetIssuance (i : TxIn) :
    (PsetInput.fromTxIn i).assetIssuance =
      if i.hasIssuance then i.assetIssuance else AssetIssuance.null := by
  unfold PsetInput.assetIssuance PsetInput.fromTxIn
  cases i.isPegin <;> cases i.hasIssuance <;>
    simp only [if_true, if_false, Bool.false_eq_true, pairValue_roundtrip, Option.getD_some,
      Option.getD_none] <;> rfl

theorem toTxIn_eq_iff (x : PsetInput) (i : TxIn) :
    x.toTxIn = i ↔
      x.previousTxid = i.previousOutput.txid ∧ x.plainIndex = i.previousOutput.vout ∧
      x.isPegin = i.isPegin ∧ x.finalScriptSig.getD [] = i.scriptSig ∧
      x.sequence.getD 0xffffffff = i.sequence ∧ x.assetIssuance = i.assetIssuance ∧
      x.issuanceValueRangeproof = i.witness.amountRangeproof ∧
      x.issuanceKeysRangeproof = i.witness.inflationKeysRangeproof ∧
      x.finalScriptWitness.getD [] = i.witness.scriptWitness ∧
      x.peginWitness.getD [] = i.witness.peginWitness := by
  obtain ⟨⟨txid, vout⟩, p, ss, sq, iss, ⟨a, k, sw, pw⟩⟩ := i
  simp only [PsetInput.toTxIn, TxIn.mk.injEq, OutPoint.mk.injEq, TxInWitness.mk.injEq, and_assoc]

open EV.Proofs.CodecTx in
/-- the index word: `plainIndex`/`isPegin` give back the index and the pegin flag exactly on the
    first component of `RtIn` -/
theorem index_iff (v : Nat) (p q : Bool) :
    ((if ((v ||| (if p then 2^30 else 0)) ||| (if q then 2^31 else 0)) = 0xffffffff
        then ((v ||| (if p then 2^30 else 0)) ||| (if q then 2^31 else 0))
        else ((v ||| (if p then 2^30 else 0)) ||| (if q then 2^31 else 0)) % 2^30) = v ∧
      (((v ||| (if p then 2^30 else 0)) ||| (if q then 2^31 else 0)) != 0xffffffff &&
        ((v ||| (if p then 2^30 else 0)) ||| (if q then 2^31 else 0)).testBit 30) = p) ↔
    ((v = 0xffffffff ∧ p = false) ∨ (v < 2^30 ∧ ¬ (v = 2^30 - 1 ∧ p = true ∧ q = true))) := by
  have h1 : (1073741824 - 1 : Nat) = 1073741823 := by decide
  rw [two_pow_30, two_pow_31, h1]
  generalize hw : ((v ||| (if p then 1073741824 else 0)) ||| (if q then 2147483648 else 0)) = w
  constructor
  · rintro ⟨ha, hb⟩
    by_cases hc : w = 4294967295
    · rw [if_pos hc] at ha
      left
      refine ⟨by omega, ?_⟩
      rw [← hb, hc]
      rfl
    · rw [if_neg hc] at ha
      have hv : v < 1073741824 := by
        rw [← ha]; exact Nat.mod_lt _ (by decide)
      right
      refine ⟨hv, ?_⟩
      rw [word_eq v hv p q] at hw
      have := (word_parts_lit v hv p q w hw.symm).2.2.2.2
      intro hcl
      exact hc (this.mpr hcl)
  · rintro (⟨hv, hp⟩ | ⟨hv, hn⟩)
    · subst hv; subst hp
      have : w = 4294967295 := by
        rw [← hw]
        cases q
        · decide
        · decide
      subst this
      refine ⟨by rw [if_pos rfl], ?_⟩
      rfl
    · rw [word_eq v hv p q] at hw
      obtain ⟨_, hm, hb30, _, hcl⟩ := word_parts_lit v hv p q w hw.symm
      have hc : w ≠ 4294967295 := fun hc => hn (hcl.mp hc)
      refine ⟨by rw [if_neg hc]; exact hm, ?_⟩
      rw [testBit_30, hb30]
      have : (w != 4294967295) = true := by
        simp only [bne_iff_ne, ne_eq]; exact hc
      rw [this]; rfl

theorem toTxIn_fromTxIn_iff (i : TxIn) (h : i.previousOutput.vout < 2^32) :
    (PsetInput.fromTxIn i).toTxIn = i ↔ RtIn i := by
  have _ := h
  have hidx := index_iff i.previousOutput.vout i.isPegin i.hasIssuance
  rw [toTxIn_eq_iff, fromTxIn_assetIssuance, fromTxIn_txid, fromTxIn_scriptSig, fromTxIn_sequence,
    fromTxIn_scriptWitness, fromTxIn_peginWitness, fromTxIn_valueRangeproof,
    fromTxIn_keysRangeproof]
  unfold PsetInput.plainIndex PsetInput.isPegin
  rw [fromTxIn_idx]
  unfold TxIn.voutWord RtIn
  constructor
  · rintro ⟨_, h2, h3, _, _, h6, h7, h8, _, h10⟩
    refine ⟨hidx.mp ⟨h2, h3⟩, ?_, ?_⟩
    · intro hp
      rw [hp] at h10
      exact h10.symm
    · intro hq
      rw [hq] at h6 h7 h8
      exact ⟨h6.symm, h7.symm, h8.symm⟩
  · rintro ⟨h1, h2, h3⟩
    obtain ⟨ha, hb⟩ := hidx.mpr h1
    refine ⟨rfl, ha, hb, rfl, rfl, ?_, ?_, ?_, rfl, ?_⟩
    · cases hq : i.hasIssuance
      · exact (h3 hq).1.symm
      · rfl
    · cases hq : i.hasIssuance
      · exact (h3 hq).2.1.symm
      · rfl
    · cases hq : i.hasIssuance
      · exact (h3 hq).2.2.symm
      · rfl
    · cases hp : i.isPegin
      · exact (h2 hp).symm
      · rfl

/-! ### helpers: outputs -/

theorem pairAsset_roundtrip (a : Asset) :
    PsetOutput.pairAsset (PsetOutput.assetId a) (PsetOutput.assetGen a) = a := by
  cases a <;> rfl

/-- what `extract` makes of a `from_txout` output -/
theorem extract_fromTxOut (o : TxOut) :
    (PsetOutput.fromTxOut o).extract =
      if o.asset = .null then .err "MissingOutputValue"
      else if o.value = .null then .err "MissingOutputAsset"
      else .ok { o with nonce := (PsetOutput.nonceOf
        (if PsetOutput.txOutPartiallyBlinded o then PsetOutput.noncePk o.nonce else none)) } := by
  obtain ⟨a, v, n, s, ⟨sp, rp⟩⟩ := o
  cases a <;> cases v <;>
    simp [PsetOutput.extract, PsetOutput.fromTxOut, PsetOutput.assetId, PsetOutput.assetGen,
      PsetInput.valueAmount, PsetInput.valueComm, PsetOutput.pairAsset, PsetInput.pairValue]

theorem nonce_iff (n : Nonce) (b : Bool) :
    PsetOutput.nonceOf (if b then PsetOutput.noncePk n else none) = n ↔
      (n = .null ∨ ∃ pk, n = .conf pk ∧ compressPk pk = pk ∧ b = true) := by
  cases n with
  | null => cases b <;> simp [PsetOutput.nonceOf, PsetOutput.noncePk]
  | explicit x => cases b <;> simp [PsetOutput.nonceOf, PsetOutput.noncePk]
  | conf pk => cases b <;> simp [PsetOutput.nonceOf, PsetOutput.noncePk]

theorem extract_fromTxOut_iff (o : TxOut) : (PsetOutput.fromTxOut o).extract = .ok o ↔ RtOut o := by
  rw [extract_fromTxOut]
  unfold RtOut
  by_cases ha : o.asset = .null
  · rw [if_pos ha]
    constructor
    · intro h; cases h
    · intro h; exact absurd ha h.1
  · rw [if_neg ha]
    by_cases hv : o.value = .null
    · rw [if_pos hv]
      constructor
      · intro h; cases h
      · intro h; exact absurd hv h.2.1
    · rw [if_neg hv]
      have hn := nonce_iff o.nonce (PsetOutput.txOutPartiallyBlinded o)
      obtain ⟨a, v, n, s, w⟩ := o
      simp only [Res.ok.injEq, TxOut.mk.injEq, true_and, and_true] at hn ⊢
      constructor
      · intro h; exact ⟨ha, hv, hn.mp h⟩
      · intro h; exact hn.mpr h.2.2

theorem extract_no_panic (o : PsetOutput) (s : String) : o.extract ≠ .panic s := by
  unfold PsetOutput.extract
  split
  · intro h; cases h
  · split
    · intro h; cases h
    · intro h; cases h

theorem extract_fromTxOut_no_panic (o : TxOut) (s : String) : (PsetOutput.fromTxOut o).extract ≠ .panic s := by
  exact extract_no_panic _ s

/-! ### lock time, sanity check -/

theorem foldl_lockStep_none {α : Type} (l : List α) (st : LockState × LockState) :
    List.foldl lockStep st (l.map (fun _ => ((none, none) : LockReq))) = st := by
  induction l generalizing st with
  | nil => rfl
  | cons x r ih =>
    rw [List.map_cons, List.foldl_cons]
    exact ih _

theorem lockReqs_fromTx (t : Tx) :
    (Pset.fromTx t).lockReqs = t.input.map (fun _ => ((none, none) : LockReq)) := by
  unfold Pset.lockReqs Pset.fromTx
  simp only [List.map_map]
  apply List.map_congr_left
  intro i _
  simp only [Function.comp, fromTxIn_reqTime, fromTxIn_reqHeight]

/-- inputs made by `from_txin` carry no lock-time requirement: the lock time is the fallback -/
theorem locktime_fromTx (t : Tx) : (Pset.fromTx t).locktime = .ok t.lockTime := by
  unfold Pset.locktime locktimeOf lockFold
  rw [lockReqs_fromTx, foldl_lockStep_none]
  rfl

theorem sanityCheck_fromTx (t : Tx) : (Pset.fromTx t).sanityCheck = .ok () := by
  unfold Pset.sanityCheck Pset.nInputs Pset.nOutputs Pset.fromTx
  simp only [List.length_map, ne_eq, not_true_eq_false, if_false]

theorem extractOutputs_cons (o : PsetOutput) (r : List PsetOutput) :
    Pset.extractOutputs (o :: r) =
      match o.extract with
      | .ok t =>
        match Pset.extractOutputs r with
        | .ok ts => .ok (t :: ts)
        | .err e => .err e
        | .panic s => .panic s
      | .err e => .err e
      | .panic s => .panic s := rfl

/-- the output loop succeeds with exactly the original outputs iff every output survives -/
theorem extractOutputs_fromTxOut_iff (l : List TxOut) :
    Pset.extractOutputs (l.map PsetOutput.fromTxOut) = .ok l ↔ ∀ o ∈ l, RtOut o := by
  induction l with
  | nil =>
    constructor
    · intro _ o ho; cases ho
    · intro _; rfl
  | cons o r ih =>
    rw [List.map_cons, extractOutputs_cons]
    have ho := extract_fromTxOut_iff o
    cases he : (PsetOutput.fromTxOut o).extract with
    | ok t =>
      rw [he] at ho
      cases hr : Pset.extractOutputs (r.map PsetOutput.fromTxOut) with
      | ok ts =>
        rw [hr] at ih
        simp only [Res.ok.injEq, List.cons.injEq, List.mem_cons, forall_eq_or_imp] at ho ih ⊢
        rw [ho, ih]
      | err e =>
        rw [hr] at ih
        simp only [List.mem_cons, forall_eq_or_imp]
        constructor
        · intro h; cases h
        · intro h; exact absurd (ih.mpr h.2) (by intro h'; cases h')
      | panic s =>
        rw [hr] at ih
        simp only [List.mem_cons, forall_eq_or_imp]
        constructor
        · intro h; cases h
        · intro h; exact absurd (ih.mpr h.2) (by intro h'; cases h')
    | err e =>
      rw [he] at ho
      simp only [List.mem_cons, forall_eq_or_imp]
      constructor
      · intro h; cases h
      · intro h; exact absurd (ho.mpr h.1) (by intro h'; cases h')
    | panic s =>
      rw [he] at ho
      simp only [List.mem_cons, forall_eq_or_imp]
      constructor
      · intro h; cases h
      · intro h; exact absurd (ho.mpr h.1) (by intro h'; cases h')

theorem extractOutputs_no_panic (l : List PsetOutput) (s : String) : Pset.extractOutputs l ≠ .panic s := by
  induction l generalizing s with
  | nil => intro h; cases h
  | cons o r ih =>
    rw [extractOutputs_cons]
    cases he : o.extract with
    | ok t =>
      cases hr : Pset.extractOutputs r with
      | ok ts => intro h; cases h
      | err e => intro h; cases h
      | panic s' => exact absurd hr (ih s')
    | err e => intro h; cases h
    | panic s' => exact absurd he (extract_no_panic o s')

theorem map_eq_self_iff {α : Type} (f : α → α) (l : List α) : l.map f = l ↔ ∀ x ∈ l, f x = x := by
  induction l with
  | nil =>
    constructor
    · intro _ x hx; cases hx
    · intro _; rfl
  | cons a r ih =>
    simp only [List.map_cons, List.cons.injEq, List.mem_cons, forall_eq_or_imp, ih]

/-- the exact characterisation -/
theorem extract_fromTx_iff (t : Tx) (h : IndexInRange t) : (Pset.fromTx t).extractTx = .ok t ↔ Rt t := by
  unfold Pset.extractTx
  rw [sanityCheck_fromTx, locktime_fromTx]
  have hin : (Pset.fromTx t).inputs.map PsetInput.toTxIn = t.input ↔ ∀ i ∈ t.input, RtIn i := by
    have : (Pset.fromTx t).inputs = t.input.map PsetInput.fromTxIn := rfl
    rw [this, List.map_map, map_eq_self_iff]
    constructor
    · intro hh i hi; exact (toTxIn_fromTxIn_iff i (h i hi)).mp (hh i hi)
    · intro hh i hi; exact (toTxIn_fromTxIn_iff i (h i hi)).mpr (hh i hi)
  have hout := extractOutputs_fromTxOut_iff t.output
  have hO : (Pset.fromTx t).outputs = t.output.map PsetOutput.fromTxOut := rfl
  have hV : (Pset.fromTx t).global.txVersion = t.version := rfl
  rw [hO, hV]
  unfold Rt
  cases hr : Pset.extractOutputs (t.output.map PsetOutput.fromTxOut) with
  | ok outs =>
    rw [hr] at hout
    obtain ⟨ver, lt, inp, outp⟩ := t
    simp only [Res.ok.injEq, Tx.mk.injEq, true_and] at hin hout ⊢
    rw [hin, hout]
  | err e =>
    rw [hr] at hout
    constructor
    · intro h'; cases h'
    · intro h'; exact absurd (hout.mpr h'.2) (by intro h''; cases h'')
  | panic s =>
    rw [hr] at hout
    constructor
    · intro h'; cases h'
    · intro h'; exact absurd (hout.mpr h'.2) (by intro h''; cases h'')

theorem extract_fromTx_no_panic (t : Tx) (s : String) : (Pset.fromTx t).extractTx ≠ .panic s := by
  unfold Pset.extractTx
  rw [sanityCheck_fromTx, locktime_fromTx]
  cases hr : Pset.extractOutputs (Pset.fromTx t).outputs with
  | ok outs => intro h; cases h
  | err e => intro h; cases h
  | panic s' => exact absurd hr (extractOutputs_no_panic _ s')

theorem compressPk_of_length (pk : Bytes) (h : pk.length = 33) : compressPk pk = pk := by
  unfold compressPk
  rw [if_neg (by omega)]

/-- a canonical transaction (`Tx.wf`, the domain of the codec laws of C01) survives as soon as the
    witness placement and the output conditions of the property's quantifier hold -/
theorem rt_of_wf (P : Prims) (t : Tx) (hw : t.wf P)
    (hpeg : ∀ i ∈ t.input, i.isPegin = false → i.witness.peginWitness = [])
    (hiss : ∀ i ∈ t.input, i.hasIssuance = false →
      i.witness.amountRangeproof = none ∧ i.witness.inflationKeysRangeproof = none)
    (hout : ∀ o ∈ t.output, o.asset ≠ .null ∧ o.value ≠ .null ∧
      (o.nonce = .null ∨ ∃ pk, o.nonce = .conf pk ∧ PsetOutput.txOutPartiallyBlinded o = true)) :
    Rt t ∧ IndexInRange t := by
  obtain ⟨_, _, _, _, hwi, hwo⟩ := hw
  refine ⟨⟨?_, ?_⟩, ?_⟩
  · intro i hi
    obtain ⟨⟨_, hidx, _, _, hissw⟩, _⟩ := hwi i hi
    refine ⟨?_, hpeg i hi, ?_⟩
    · rcases hidx with h1 | ⟨h1, h2, _⟩
      · exact Or.inr h1
      · exact Or.inl ⟨h1, h2⟩
    · intro hq
      rw [hq] at hissw
      exact ⟨hissw, hiss i hi hq⟩
  · intro o ho
    obtain ⟨ha, hv, hn⟩ := hout o ho
    refine ⟨ha, hv, ?_⟩
    rcases hn with hn | ⟨pk, hn, hb⟩
    · exact Or.inl hn
    · right
      refine ⟨pk, hn, ?_, hb⟩
      have hnw : o.nonce.wf P := (hwo o ho).1.2.2.1
      rw [hn] at hnw
      exact compressPk_of_length pk hnw.1
  · intro i hi
    obtain ⟨⟨_, hidx, _⟩, _⟩ := hwi i hi
    have e30 : (2:Nat)^30 = 1073741824 := by decide
    have e32 : (2:Nat)^32 = 4294967296 := by decide
    rw [e32]
    rw [e30] at hidx
    rcases hidx with h1 | h1
    · omega
    · omega

end EV.Proofs.PsetRoundTrip
