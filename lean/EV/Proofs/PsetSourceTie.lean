/-
  Ties the PSET model's field inventory to the Rust source: `EV.Gen.pset*Fields` / `pset*MergeOps` are
  re-extracted from `src/pset/map/{input,output,global}.rs` on every run (struct definitions and the bodies
  of `merge`); `EV.PsetFieldTable` is the table the model is generated from. All statements are closed
  and decided by evaluation, so a field added to a struct, removed from it, or no longer handled by `merge`
  makes this file fail to compile.
-/
import EV.Gen.Consts
import EV.Model.PsetFieldTable
namespace EV.Proofs.PsetSourceTie
open EV

/-- container kind of a model kind: `ob`/`on*`/`ol` are `Option`s, `kv` a `BTreeMap`, `b`/`n*` mandatory -/
def kindOf (k : String) : String :=
  if k == "kv" then "map" else if k == "ob" || k == "ol" || k.startsWith "on" then "opt" else "plain"

/-- merge operation of a model merge kind -/
def opOf (m : String) : Option String :=
  if m == "m" then some "first" else if m == "e" then some "extend" else if m == "x" then some "max" else none

def namesKinds (t : List (String × String × String)) : List (String × String) := t.map (fun (n, k, _) => (n, kindOf k))

def mergeOps (t : List (String × String × String)) : List (String × String) :=
  t.filterMap (fun (n, _, m) => (opOf m).map (fun o => (n, o)))

def sameSet (a b : List (String × String)) : Bool := a.all (b.contains ·) && b.all (a.contains ·)

/-- the model has exactly the fields of `pset::Input`, in the same order, with the same container kinds -/
theorem input_fields_match : namesKinds PsetFieldTable.input = Gen.psetInputFields := by decide +kernel
theorem output_fields_match : namesKinds PsetFieldTable.output = Gen.psetOutputFields := by decide +kernel

/-- `Input::merge` / `Output::merge` treat each field the way the model's merge does (as a set of
    (field, operation) pairs; the order of statements in `merge` is irrelevant because they touch
    pairwise different fields) -/
theorem input_merge_ops_match : sameSet (mergeOps PsetFieldTable.input) Gen.psetInputMergeOps = true := by decide +kernel
theorem output_merge_ops_match : sameSet (mergeOps PsetFieldTable.output) Gen.psetOutputMergeOps = true := by decide +kernel

/-- no field is handled twice by `merge` -/
theorem input_merge_ops_nodup : (Gen.psetInputMergeOps.map (·.1)).Nodup := by decide +kernel
theorem output_merge_ops_nodup : (Gen.psetOutputMergeOps.map (·.1)).Nodup := by decide +kernel

/-- directly on the source inventory: every `Option` and every map field of the structs is handled by
    `merge` ("merging never loses information" cannot silently stop covering a new field) -/
def covered (fields ops : List (String × String)) : Bool :=
  fields.all (fun (n, k) => k == "plain" || ops.any (fun (m, _) => m == n))

theorem input_merge_covers_source : covered Gen.psetInputFields Gen.psetInputMergeOps = true := by decide +kernel
theorem output_merge_covers_source : covered Gen.psetOutputFields Gen.psetOutputMergeOps = true := by decide +kernel

/-- the global map: inventory as modelled (`tx_data` flattened into `PsetGlobal`) -/
theorem global_fields_inventory :
    Gen.psetGlobalFields.map (·.1) = ["tx_data", "version", "xpub", "scalars", "elements_tx_modifiable_flag", "proprietary", "unknown"] ∧
    Gen.psetTxDataFields.map (·.1) = ["version", "fallback_locktime", "input_count", "output_count", "tx_modifiable"] := by decide +kernel

/-- `Global::merge` statements found by the extractor (the xpub reconciliation, the `tx_modifiable` OR and the
    fallback lock time are hand-written code, modelled in `PsetGlobal.merge` and tied by correspondence) -/
theorem global_merge_ops_inventory :
    sameSet Gen.psetGlobalMergeOps
      [("elements_tx_modifiable_flag", "first"), ("scalars", "extend"), ("proprietary", "extend"), ("unknown", "extend"), ("version", "max")] = true := by decide +kernel

end EV.Proofs.PsetSourceTie
