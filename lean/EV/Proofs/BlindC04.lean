/-
  EV.Proofs.BlindC04 — `Transaction::blind` over the algebraic model of the curve: the result
  balances, verifies, and can be unblinded.
-/
import EV.Proofs.BlindAlgebra

namespace EV.Blind
open EV

variable {A R M K RP SP : Type} [CommRing R] [AddCommGroup M] [Module R M]

/-- the blinder's primitives compute in the module: generators `tag a + abf•G`, commitments
    `v•g + vbf•G`, public keys `r•G`, shared secrets a function `kdf` of the ECDH point -/
structure AlgB (cv : Curve R M A) (kdf : M → K) (B : BPrims A R M K RP SP) : Prop where
  gen : ∀ a r, B.genBlinded a r = cv.gen a r
  commit : ∀ v r g, B.commit v r g = cv.pedersen v r g
  pub : ∀ r, B.pubOf r = r • cv.G
  ecdh : ∀ (pk : M) (r : R), B.ecdh pk r = kdf (r • pk)

/-- the verifier's primitives compute in the module, and the tally compares the two sums -/
structure AlgV (cv : Curve R M A) (V : VPrims A M RP SP) : Prop where
  gen : ∀ a, V.genUnblinded a = cv.tag a
  commit : ∀ v g, V.commitUnblinded v g = ((v : Nat) : R) • g
  sum : ∀ l r, V.sumEqual l r = true ↔ l.sum = r.sum

/-- the openings (asset, value, 0, 0) of the explicit outputs of a list -/
def explicitOpenings (outs : List (TxOut A M RP SP)) : List (Secrets A R) :=
  outs.filterMap (fun o =>
    match o.asset, o.value with
    | .explicit a, .explicit v => some ⟨a, v, 0, 0⟩
    | _, _ => none)

/-- the (generator, commitment) pair opened by `s` -/
def Curve.opening (cv : Curve R M A) (s : Secrets A R) : M × M := (cv.gen s.asset s.abf, cv.commit s)

section blind

omit [AddCommGroup M] [Module R M] in
/-- **C04, scalars**: after `blind`, the openings of all outputs have the same `Σ (v·abf + vbf)` as
    the spent outputs — for any number and position of marked outputs and any random choices -/
theorem blind_balances_scalar (B : BPrims A R M K RP SP) (outputs : List (TxOut A M RP SP))
    (spent : List (Secrets A R)) (rands : Nat → Rand R) (entries : List (Entry A R M RP SP))
    (h : blind B outputs spent rands = .ok entries) :
    sumTerms (entries.map Entry.sec) = sumTerms spent := by
  obtain ⟨_, _, a, v, abf, pre, post, hsec⟩ := blind_spec B outputs spent rands entries h
  rw [hsec]
  have := last_balances' a v abf spent (pre ++ post)
  simp only [sumTerms_append, sumTerms_cons] at this ⊢
  linear_combination this

omit [AddCommGroup M] [Module R M] in
/-- position by position, the openings after `blind` carry the explicit asset and amount of the
    original outputs -/
theorem rel_amt [DecidableEq A] (B : BPrims A R M K RP SP) (spent : List (Secrets A R)) :
    ∀ (outs : List (TxOut A M RP SP)) (entries : List (Entry A R M RP SP)),
      Forall2 (Rel B spent) outs entries →
      ∀ a, amt a (entries.map Entry.sec) = amt a (explicitOpenings outs : List (Secrets A R))
  | [], [], _, _ => rfl
  | o :: os, e :: es, h, a => by
    have ih := rel_amt B spent os es h.2 a
    rcases h.1 with ⟨_, _, _, a', v', ha, hv, hs⟩ | ⟨_, a', v', pk, esk, ha, hv, _, _, hsa, hsv, _⟩
    · simp [explicitOpenings, ha, hv, amt_cons, hs] at ih ⊢
      rw [ih]
    · simp [explicitOpenings, ha, hv, amt_cons, hsa, hsv] at ih ⊢
      rw [ih]
  | [], _ :: _, h, _ => h.elim
  | _ :: _, [], h, _ => h.elim

/-- **C04, commitments**: if the explicit amounts balance per asset (spent outputs and issuance
    pseudo-inputs against all outputs, fee included) then after `blind` the value commitments of the
    inputs and of the outputs have the same sum -/
theorem blind_balances_commit [DecidableEq A] (cv : Curve R M A) (B : BPrims A R M K RP SP)
    (outputs : List (TxOut A M RP SP)) (spent : List (Secrets A R)) (rands : Nat → Rand R)
    (entries : List (Entry A R M RP SP))
    (hbal : ∀ a, amt a spent = amt a (explicitOpenings outputs : List (Secrets A R)))
    (h : blind B outputs spent rands = .ok entries) :
    (spent.map cv.commit).sum = ((entries.map Entry.sec).map cv.commit).sum := by
  obtain ⟨_, hrel, _⟩ := blind_spec B outputs spent rands entries h
  apply cv.commit_balance
  · exact (blind_balances_scalar B outputs spent rands entries h).symm
  · intro a
    rw [hbal a, rel_amt B spent outputs entries hrel a]
end blind

/-! ### the blinded transaction verifies -/

theorem sum_filterMap_toList {α : Type} (f : α → Option M) (l : List α) :
    (l.filterMap f).sum = (l.map (fun x => (f x).toList.sum)).sum := by
  induction l with
  | nil => simp
  | cons x l ih =>
    cases hx : f x <;> simp [hx, ih]

section verifies

/-- what one entry contributes to the verifier's output side is the commitment its opening opens -/
theorem rel_outCommit (cv : Curve R M A) (kdf : M → K) (B : BPrims A R M K RP SP)
    (V : VPrims A M RP SP) (hB : AlgB cv kdf B) (hV : AlgV cv V) (spent : List (Secrets A R))
    (o : TxOut A M RP SP) (e : Entry A R M RP SP) (h : Rel B spent o e) :
    (outCommit? V e.out).toList.sum = cv.commit e.sec := by
  rcases h with ⟨_, heo, _, a, v, ha, hv, hs⟩ | ⟨_, a, v, pk, esk, _, _, _, _, _, _, hw⟩
  · rw [heo, hs]
    unfold outCommit? valueCommit
    by_cases h0 : v = 0
    · subst h0
      by_cases hu : isProvablyUnspendable o.script = true <;>
        simp [hv, hu, Curve.commit, Curve.pedersen]
    · simp [hv, ha, h0, assetGen, hV.gen, hV.commit, Curve.commit, Curve.pedersen, Curve.gen]
  · obtain ⟨_, rp, sp, _, _, ho⟩ := withTxoutSecrets_ok hw
    rw [ho]
    simp [outCommit?, valueCommit, hB.commit, hB.gen, Curve.commit]

theorem rel_outCommits (cv : Curve R M A) (kdf : M → K) (B : BPrims A R M K RP SP)
    (V : VPrims A M RP SP) (hB : AlgB cv kdf B) (hV : AlgV cv V) (spent : List (Secrets A R)) :
    ∀ (outs : List (TxOut A M RP SP)) (entries : List (Entry A R M RP SP)),
      Forall2 (Rel B spent) outs entries →
      (outCommitsOf V (entries.map Entry.out)).sum = ((entries.map Entry.sec).map cv.commit).sum
  | [], [], _ => by simp [outCommitsOf]
  | o :: os, e :: es, h => by
    have ih := rel_outCommits cv kdf B V hB hV spent os es h.2
    have h1 := rel_outCommit cv kdf B V hB hV spent o e h.1
    unfold outCommitsOf at ih ⊢
    rw [sum_filterMap_toList] at ih ⊢
    simp only [List.map_cons, List.sum_cons, List.map_map] at ih ⊢
    rw [← ih, ← h1]
  | [], _ :: _, h => h.elim
  | _ :: _, [], h => h.elim

/-- every output of the blinded transaction passes the verifier's per-output checks -/
theorem rel_outOk (cv : Curve R M A) (kdf : M → K) (B : BPrims A R M K RP SP)
    (V : VPrims A M RP SP) (hB : AlgB cv kdf B) (spent : List (Secrets A R))
    (hrange : ∀ c v vbf m spk k g rp, B.rangeProve c v vbf m spk k g = some rp →
      V.rangeVerify rp c spk g = true)
    (hsurj : ∀ a abf ins sp, B.surjProve a abf ins = some sp →
      V.surjVerify sp (B.genBlinded a abf) (ins.map (fun x => x.1)) = true)
    (o : TxOut A M RP SP) (e : Entry A R M RP SP) (h : Rel B spent o e)
    (hzero : o.marked = false → o.value = .explicit 0 → isProvablyUnspendable o.script = true) :
    OutOk V (spent.map (fun s => cv.gen s.asset s.abf)) e.out := by
  rcases h with ⟨hm, heo, _, a, v, ha, hv, _⟩ | ⟨_, a, v, pk, esk, _, _, _, _, _, _, hw⟩
  · rw [heo]
    refine ⟨by simp [hv], hzero hm, by simp [ha], by simp [hv], by simp [ha]⟩
  · obtain ⟨_, rp, sp, hsp, hrp, ho⟩ := withTxoutSecrets_ok hw
    rw [ho]
    refine ⟨by simp, by simp, by simp, ?_, ?_⟩
    · intro c hc
      simp only [CValue.conf.injEq] at hc
      subst hc
      exact ⟨_, rp, by simp [assetGen], rfl, hrange _ _ _ _ _ _ _ _ hrp⟩
    · intro g hg
      simp only [CAsset.conf.injEq] at hg
      subst hg
      refine ⟨sp, rfl, ?_⟩
      have := hsurj _ _ _ _ hsp
      have hdom : (surjInputs B spent).map (fun x => x.1) = spent.map (fun s => cv.gen s.asset s.abf) := by
        simp [surjInputs, hB.gen]
      rw [hdom] at this
      exact this

/-- **C04: the blinded transaction passes confidential amount verification.**
    Hypotheses: the primitives compute in the module (`AlgB`, `AlgV`); completeness of the two proof
    systems ("a proof produced by the prover for these public data is accepted for the same data");
    the caller supplies the true secrets of the spent outputs, i.e. the verifier's input loop on
    (inputs, spent outputs) yields exactly the generators and commitments that `spent` opens, in order
    (issuance pseudo-inputs included); the explicit amounts balance per asset; unmarked zero-value
    outputs sit on provably unspendable scripts. -/
theorem blind_verifies' [DecidableEq A] (cv : Curve R M A) (kdf : M → K) (B : BPrims A R M K RP SP)
    (V : VPrims A M RP SP) (hB : AlgB cv kdf B) (hV : AlgV cv V)
    (hrange : ∀ c v vbf m spk k g rp, B.rangeProve c v vbf m spk k g = some rp →
      V.rangeVerify rp c spk g = true)
    (hsurj : ∀ a abf ins sp, B.surjProve a abf ins = some sp →
      V.surjVerify sp (B.genBlinded a abf) (ins.map (fun x => x.1)) = true)
    (ins : List (TxIn A M)) (utxos outputs : List (TxOut A M RP SP)) (spent : List (Secrets A R))
    (rands : Nat → Rand R) (entries : List (Entry A R M RP SP))
    (hlen : utxos.length = ins.length)
    (htrue : inputPairs V 0 ins utxos = .ok (spent.map cv.opening))
    (hbal : ∀ a, amt a spent = amt a (explicitOpenings outputs : List (Secrets A R)))
    (hzero : ∀ o ∈ outputs, o.marked = false → o.value = .explicit 0 →
      isProvablyUnspendable o.script = true)
    (h : blind B outputs spent rands = .ok entries) :
    verify V ins (entries.map Entry.out) utxos = .ok := by
  obtain ⟨_, hrel, _⟩ := blind_spec B outputs spent rands entries h
  have hin := (inputPairs_ok_iff V 0 ins utxos _ hlen).1 htrue
  rw [verify_ok_iff']
  have hdom : domainOf V ins utxos = spent.map (fun s => cv.gen s.asset s.abf) := by
    simp [domainOf, ← hin.2, Curve.opening]
  have hinc : inCommitsOf V ins utxos = spent.map cv.commit := by
    simp [inCommitsOf, ← hin.2, Curve.opening]
  refine ⟨hlen, hin.1, ?_, ?_⟩
  · rw [hdom]
    -- per-output checks, position by position
    have : ∀ (outs : List (TxOut A M RP SP)) (es : List (Entry A R M RP SP)),
        Forall2 (Rel B spent) outs es →
        (∀ o ∈ outs, o.marked = false → o.value = .explicit 0 → isProvablyUnspendable o.script = true) →
        ∀ o' ∈ es.map Entry.out, OutOk V (spent.map (fun s => cv.gen s.asset s.abf)) o' := by
      intro outs
      induction outs with
      | nil =>
        intro es hes _ o' ho'
        cases es with
        | nil => simp at ho'
        | cons _ _ => exact hes.elim
      | cons o os ih =>
        intro es hes hz o' ho'
        cases es with
        | nil => exact hes.elim
        | cons e es =>
          simp only [List.map_cons, List.mem_cons] at ho'
          rcases ho' with rfl | ho'
          · exact rel_outOk cv kdf B V hB spent hrange hsurj o e hes.1 (hz o List.mem_cons_self)
          · exact ih es hes.2 (fun x hx => hz x (List.mem_cons_of_mem _ hx)) o' ho'
    exact this outputs entries hrel hzero
  · rw [hV.sum, hinc, rel_outCommits cv kdf B V hB hV spent outputs entries hrel]
    exact blind_balances_commit cv B outputs spent rands entries hbal h
end verifies

/-! ### unblinding -/

section unblind
variable [DecidableEq M]

/-- **C04: unblinding a blinded output with the receiver's key returns exactly the opening the
    blinder holds for it**, and that opening reproduces the output's commitments.
    `o` is the marked output of the unblinded transaction whose nonce is the receiver's public key
    `sk•G`; `e` is the entry at the same position after `blind`.  Assumed law of the range-proof
    system: rewinding a proof with the nonce key it was made with returns the committed value, its
    blinding factor and the embedded message. -/
theorem unblind_rel (cv : Curve R M A) (kdf : M → K) (B : BPrims A R M K RP SP) (hB : AlgB cv kdf B)
    (hrew : ∀ c v vbf a abf spk k g rp, B.rangeProve c v vbf (a, abf) spk k g = some rp →
      B.rewind rp c k spk g = some (v, vbf, a, abf))
    (spent : List (Secrets A R)) (o : TxOut A M RP SP) (e : Entry A R M RP SP)
    (h : Rel B spent o e) (hm : o.marked = true) (sk : R) (hpk : o.nonce = .conf (sk • cv.G)) :
    unblind B e.out sk = .ok e.sec ∧
    e.out.asset = .conf (cv.gen e.sec.asset e.sec.abf) ∧
    e.out.value = .conf (cv.commit e.sec) ∧
    (∃ a v, o.asset = .explicit a ∧ o.value = .explicit v ∧ e.sec.asset = a ∧ e.sec.value = v) ∧
    (∃ esk, e.esk = some esk ∧ e.out.nonce = .conf (esk • cv.G)) := by
  rcases h with ⟨hm', _⟩ | ⟨_, a, v, pk, esk, ha, hv, hn, hesk, hsa, hsv, hw⟩
  · simp [hm] at hm'
  · obtain ⟨_, rp, sp, _, hrp, ho⟩ := withTxoutSecrets_ok hw
    have hpk' : pk = sk • cv.G := by rw [hn] at hpk; simpa using hpk
    refine ⟨?_, by rw [ho]; simp [hB.gen], by rw [ho]; simp [hB.gen, hB.commit, Curve.commit],
      ⟨a, v, ha, hv, hsa, hsv⟩, ⟨esk, hesk, by rw [ho]; simp [hB.pub]⟩⟩
    rw [ho]
    unfold unblind
    simp only
    have hk : B.ecdh (B.pubOf esk) sk = B.ecdh pk esk := by
      rw [hB.ecdh, hB.ecdh, hB.pub, hpk', ecdh_symm]
    rw [hk, hrew _ _ _ _ _ _ _ _ _ hrp]
    simp
end unblind

/-! ### blinding succeeds -/

theorem exists_of_amt_pos {A R : Type} [DecidableEq A] (a : A) :
    ∀ (l : List (Secrets A R)), 0 < amt a l → ∃ s ∈ l, s.asset = a
  | [], h => by simp at h
  | s :: l, h => by
    rw [amt_cons] at h
    by_cases hs : s.asset = a
    · exact ⟨s, List.mem_cons_self, hs⟩
    · simp only [hs, if_false, Nat.zero_add] at h
      obtain ⟨x, hx, hxa⟩ := exists_of_amt_pos a l h
      exact ⟨x, List.mem_cons_of_mem _ hx, hxa⟩

theorem amt_pos_of_mem {A R : Type} [DecidableEq A] (a : A) (s : Secrets A R) :
    ∀ (l : List (Secrets A R)), s ∈ l → s.asset = a → 0 < s.value → 0 < amt a l
  | [], h, _, _ => by simp at h
  | x :: l, h, ha, hv => by
    rw [amt_cons]
    rcases List.mem_cons.1 h with rfl | h'
    · simp [ha]; omega
    · have := amt_pos_of_mem a s l h' ha hv
      omega

omit [AddCommGroup M] [Module R M] in
theorem mem_explicitOpenings (outs : List (TxOut A M RP SP)) (o : TxOut A M RP SP) (ho : o ∈ outs)
    (a : A) (v : Nat) (ha : o.asset = .explicit a) (hv : o.value = .explicit v) :
    (⟨a, v, 0, 0⟩ : Secrets A R) ∈ (explicitOpenings outs : List (Secrets A R)) := by
  unfold explicitOpenings
  rw [List.mem_filterMap]
  exact ⟨o, ho, by simp [ha, hv]⟩

omit [AddCommGroup M] [Module R M] in
/-- **C04: blinding succeeds** for any non-empty choice of marked outputs, when the amounts balance
    per asset, marked amounts are in the range the range-proof parameters admit, marked scripts are
    address-shaped and the two provers do not fail on provable statements -/
theorem blind_succeeds_alg [DecidableEq A] (B : BPrims A R M K RP SP)
    (outputs : List (TxOut A M RP SP)) (spent : List (Secrets A R)) (rands : Nat → Rand R)
    (hrangeTotal : ∀ c v vbf m spk k g, 1 ≤ v → v < 2 ^ 63 → (B.rangeProve c v vbf m spk k g).isSome)
    (hsurjTotal : ∀ a abf, (∃ s ∈ spent, s.asset = a) → (B.surjProve a abf (surjInputs B spent)).isSome)
    (hbal : ∀ a, amt a spent = amt a (explicitOpenings outputs : List (Secrets A R)))
    (hexp : ∀ o ∈ outputs, o.allExplicit = true)
    (hpos : ∃ o ∈ outputs, o.marked = true)
    (hadr : ∀ o ∈ outputs, o.marked = true → addressable o.script = true)
    (hval : ∀ o ∈ outputs, o.marked = true → ∀ v, o.value = .explicit v → 1 ≤ v ∧ v < 2 ^ 63) :
    ∃ entries, blind B outputs spent rands = .ok entries := by
  apply blind_succeeds' B outputs spent rands hexp ?_ hadr
  · intro o ho hm a v pk esk abf vbf ha hv hn
    obtain ⟨hv1, hv2⟩ := hval o ho hm v hv
    apply withTxoutSecrets_succeeds
    · show ¬ (v < Gen.c04RangeproofMinValue)
      unfold Gen.c04RangeproofMinValue; omega
    · apply hsurjTotal
      have hmem := mem_explicitOpenings (R := R) outputs o ho a v ha hv
      have hp := amt_pos_of_mem a _ _ hmem rfl (show 0 < v by omega)
      rw [← hbal a] at hp
      exact exists_of_amt_pos a spent hp
    · intro c k g
      exact hrangeTotal c v vbf _ _ k g hv1 hv2
  · obtain ⟨o, ho, hm⟩ := hpos
    unfold countMarked
    exact List.length_pos_of_mem (List.mem_filter.2 ⟨ho, hm⟩)

end EV.Blind
