/-
  EV.Proofs.SerdeUtils — round trips of the `serde_utils` helper modules (generic in the key / value codecs)
  and of the PSET key structs.
-/
import EV.Model.SerdeUtils
import EV.Proofs.Serde
namespace EV.Serde
open EV EV.Text

theorem amInsert_new {κ ν} [DecidableEq κ] (acc : List (κ × ν)) (k : κ) (v : ν) (h : k ∉ acc.map Prod.fst) :
    amInsert acc k v = acc ++ [(k, v)] := by
  induction acc with
  | nil => rfl
  | cons a r ih =>
    obtain ⟨k', v'⟩ := a
    simp only [List.map_cons, List.mem_cons, not_or] at h
    have hk : ¬ k' = k := fun e => h.1 e.symm
    simp [amInsert, hk, ih h.2]

theorem lossyM_map {α} (f : Fmt) (g : α → SVal × SVal) (l : List α) :
    lossyM f (l.map g) = l.map fun a => (lossy f (g a).1, lossy f (g a).2) := by
  induction l with
  | nil => simp [lossyM]
  | cons a r ih =>
    cases hg : g a with
    | mk x y => simp [lossyM, hg, ih]

/-- the `visit_map` loop rebuilds a map with pairwise distinct keys entry by entry -/
theorem collectMap_rt {κ ν} [DecidableEq κ] (f : Fmt) (tk : κ → SVal) (tv : ν → SVal) (pk : SVal → Res κ)
    (pv : SVal → Res ν) (m acc : List (κ × ν)) (hnd : ((acc ++ m).map Prod.fst).Nodup)
    (hk : ∀ e ∈ m, pk (lossy f (tk e.1)) = .ok e.1) (hv : ∀ e ∈ m, pv (lossy f (tv e.2)) = .ok e.2) :
    collectMap pk pv (lossyM f (m.map fun e => (tk e.1, tv e.2))) acc = .ok (acc ++ m) := by
  induction m generalizing acc with
  | nil => simp [lossyM, collectMap]
  | cons e r ih =>
    obtain ⟨k, v⟩ := e
    have h1 := hk (k, v) (by simp)
    have h2 := hv (k, v) (by simp)
    have hnew : k ∉ acc.map Prod.fst := by
      simp only [List.map_append, List.map_cons] at hnd
      have := (List.nodup_append.mp hnd).2.2
      intro hmem
      exact this k hmem k (by simp) rfl
    simp only [List.map_cons, lossyM, collectMap] at h1 h2 ⊢
    rw [h1, h2]
    simp only [amInsert_new acc k v hnew]
    have := ih (acc ++ [(k, v)]) (by simpa [List.append_assoc] using hnd)
      (fun e he => hk e (by simp [he])) (fun e he => hv e (by simp [he]))
    simpa [List.append_assoc] using this

/-- the `visit_seq` loop over two-element arrays does the same -/
theorem collectPairs_rt {κ ν} [DecidableEq κ] (f : Fmt) (tk : κ → SVal) (tv : ν → SVal) (pk : SVal → Res κ)
    (pv : SVal → Res ν) (m acc : List (κ × ν)) (hnd : ((acc ++ m).map Prod.fst).Nodup)
    (hk : ∀ e ∈ m, pk (lossy f (tk e.1)) = .ok e.1) (hv : ∀ e ∈ m, pv (lossy f (tv e.2)) = .ok e.2) :
    collectPairs pk pv (m.map fun e => SVal.seq [lossy f (tk e.1), lossy f (tv e.2)]) acc = .ok (acc ++ m) := by
  induction m generalizing acc with
  | nil => simp [collectPairs]
  | cons e r ih =>
    obtain ⟨k, v⟩ := e
    have h1 := hk (k, v) (by simp)
    have h2 := hv (k, v) (by simp)
    have hnew : k ∉ acc.map Prod.fst := by
      simp only [List.map_append, List.map_cons] at hnd
      have := (List.nodup_append.mp hnd).2.2
      intro hmem
      exact this k hmem k (by simp) rfl
    simp only [List.map_cons, collectPairs] at h1 h2 ⊢
    rw [h1, h2]
    simp only [amInsert_new acc k v hnew]
    have := ih (acc ++ [(k, v)]) (by simpa [List.append_assoc] using hnd)
      (fun e he => hk e (by simp [he])) (fun e he => hv e (by simp [he]))
    simpa [List.append_assoc] using this

/-! ### the four modules -/

theorem hexBytes_rt (h : Bool) (f : Fmt) (b : Bytes) : HexBytes.ofS h (lossy f (HexBytes.toS h b)) = .ok b := by
  cases h with
  | true => simp [HexBytes.toS, lossy_sStr, HexBytes.ofS, unhex_hexStr]
  | false => simp [HexBytes.toS, sVecU8, lossy, HexBytes.ofS, ofU8s_sU8s]

theorem byteValues_ofVal_rt (h : Bool) (f : Fmt) (b : Bytes) :
    ByteValues.ofVal h (lossy f (if h then sStr (hexStr b) else sVecU8 b)) = .ok b := by
  cases h with
  | true => simp [lossy_sStr, ByteValues.ofVal, unhex_hexStr]
  | false =>
    have := ofVecU8_rt f b
    simp only [sVecU8, lossy] at this
    simp only [Bool.false_eq_true, if_false, sVecU8, lossy, ByteValues.ofVal]
    exact this

/-- `btreemap_byte_values`: a map with pairwise distinct keys round-trips when its keys do -/
theorem byteValues_rt {κ} [DecidableEq κ] (h : Bool) (f : Fmt) (tk : κ → SVal) (pk : SVal → Res κ)
    (m : List (κ × Bytes)) (hnd : (m.map Prod.fst).Nodup) (hk : ∀ e ∈ m, pk (lossy f (tk e.1)) = .ok e.1) :
    ByteValues.ofS h pk (lossy f (ByteValues.toS h tk m)) = .ok m := by
  have := collectMap_rt f tk (fun b => if h then sStr (hexStr b) else sVecU8 b) pk (ByteValues.ofVal h) m []
    (by simpa using hnd) hk (fun e _ => byteValues_ofVal_rt h f e.2)
  simpa [ByteValues.toS, lossy, ByteValues.ofS] using this

/-- `btreemap_as_seq`: a sequence of pairs when human readable, a map otherwise -/
theorem asSeq_rt {κ ν} [DecidableEq κ] (h : Bool) (f : Fmt) (tk : κ → SVal) (tv : ν → SVal) (pk : SVal → Res κ)
    (pv : SVal → Res ν) (m : List (κ × ν)) (hnd : (m.map Prod.fst).Nodup)
    (hk : ∀ e ∈ m, pk (lossy f (tk e.1)) = .ok e.1) (hv : ∀ e ∈ m, pv (lossy f (tv e.2)) = .ok e.2) :
    AsSeq.ofS h pk pv (lossy f (AsSeq.toS h tk tv m)) = .ok m := by
  cases h with
  | true =>
    have := collectPairs_rt f tk tv pk pv m [] (by simpa using hnd) hk hv
    simp only [AsSeq.toS, if_true, lossy, lossyL_map', lossyL, AsSeq.ofS]
    simpa using this
  | false =>
    have := collectMap_rt f tk tv pk pv m [] (by simpa using hnd) hk hv
    simpa [AsSeq.toS, lossy, AsSeq.ofS] using this

/-- `btreemap_as_seq_byte_values` -/
theorem asSeqByteValues_rt {κ} [DecidableEq κ] (h : Bool) (f : Fmt) (tk : κ → SVal) (pk : SVal → Res κ)
    (m : List (κ × Bytes)) (hnd : (m.map Prod.fst).Nodup) (hk : ∀ e ∈ m, pk (lossy f (tk e.1)) = .ok e.1) :
    AsSeqByteValues.ofS h pk (lossy f (AsSeqByteValues.toS h tk m)) = .ok m := by
  cases h with
  | true =>
    have := collectPairs_rt f tk (HexBytes.toS true) pk (HexBytes.ofS true) m [] (by simpa using hnd) hk
      (fun e _ => hexBytes_rt true f e.2)
    simp only [AsSeqByteValues.toS, if_true, lossy, lossyL_map', lossyL, AsSeqByteValues.ofS]
    simpa using this
  | false =>
    have := collectMap_rt f tk sVecU8 pk ofVecU8 m [] (by simpa using hnd) hk (fun e _ => ofVecU8_rt f e.2)
    simpa [AsSeqByteValues.toS, lossy, AsSeqByteValues.ofS] using this

/-! ### the key structs -/

theorem rawKey_rt (h : Bool) (f : Fmt) (k : RawKey) (hv : RawKey.ok k) : RawKey.ofS h (lossy f (RawKey.toS h k)) = .ok k := by
  have e1 : ofNum 256 (lossy f (.num 8 k.typeValue)) = .ok k.typeValue := by simp [lossy, ofNum]; exact hv
  have e2 := hexBytes_rt h f k.key
  simp only [lossy] at e1
  simp [RawKey.toS, lossy, lossyF, RawKey.ofS, dField, dSlot, derivedKey, RawKey.names, List.idxOf?, List.findIdx?, List.findIdx?.go, e1, e2]

theorem propKey_rt (h : Bool) (f : Fmt) (k : PropKey) (hv : PropKey.ok k) : PropKey.ofS h (lossy f (PropKey.toS h k)) = .ok k := by
  have e1 := hexBytes_rt h f k.pfx
  have e2 : ofNum 256 (lossy f (.num 8 k.subtype)) = .ok k.subtype := by simp [lossy, ofNum]; exact hv
  have e3 := hexBytes_rt h f k.key
  simp only [lossy] at e2
  simp [PropKey.toS, lossy, lossyF, PropKey.ofS, dField, dSlot, derivedKey, PropKey.names, List.idxOf?, List.findIdx?, List.findIdx?.go, e1, e2, e3]


/-! ### the `tap_script_sigs` instance of `btreemap_as_seq` -/

theorem xOnly_rt (validX : Bytes → Bool) (h : Bool) (f : Fmt) (x : Bytes) (hl : x.length = 32) (hv : validX x = true) :
    ofXOnly validX h (lossy f (sXOnly h x)) = .ok x := by
  cases h with
  | true => simp [sXOnly, lossy_sStr, ofXOnly, unhex_hexStr, hl, hv]
  | false => simp [sXOnly, lossy, ofXOnly, ofU8s_sU8s, hl, hv]

theorem sigKey_rt (validX : Bytes → Bool) (h : Bool) (f : Fmt) (hc : compatible h f) (k : Bytes × Bytes)
    (h1 : k.1.length = 32) (h2 : validX k.1 = true) (h3 : k.2.length = 32) :
    ofSigKey validX h (lossy f (sSigKey h k)) = .ok k := by
  have e1 := xOnly_rt validX h f k.1 h1 h2
  have e2 := ofHash_rt kTapLeaf h f hc k.2 (by simp [kTapLeaf, h3])
  simp [sSigKey, lossy, lossyL, ofSigKey, e1, e2]

theorem sig64_rt (h : Bool) (f : Fmt) (hc : compatible h f) (s : Bytes) (hl : s.length = 64) :
    ofSig64 h (lossy f (sSig64 h s)) = .ok s := by
  cases h with
  | true => simp [sSig64, lossy_sStr, ofSig64, unhex_hexStr, hl]
  | false =>
    cases f with
    | json => exact absurd (hc rfl) (by decide)
    | cbor => simp [sSig64, lossy, ofSig64, hl]

theorem schnorrSig_rt (h : Bool) (f : Fmt) (hc : compatible h f) (s : SchnorrSigM) (hv : SchnorrSigM.ok s) :
    SchnorrSigM.ofS h (lossy f (SchnorrSigM.toS h s)) = .ok s := by
  obtain ⟨hl, hs⟩ := hv
  have e1 := sig64_rt h f hc s.sig hl
  cases hsh : schnorrShow s.hashTy with
  | none => rw [hsh] at hs; cases hs
  | some str =>
    have e2 : stringOfS schnorrParse (.str str) = .ok s.hashTy := by
      simp [stringOfS, schnorrParse_schnorrShow s.hashTy str hsh]
    simp [SchnorrSigM.toS, lossy, lossyF, SchnorrSigM.ofS, dField, dSlot, derivedKey, SchnorrSigM.names, List.idxOf?,
      List.findIdx?, List.findIdx?.go, hsh, e1, e2]

end EV.Serde
