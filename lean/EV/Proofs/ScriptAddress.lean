/-
  `fromScript` (Address::from_script, payload level) against the template patterns, and
  `scriptPubkey` (Address::script_pubkey) of standard payloads.
-/
import EV.Proofs.ScriptTemplates
import EV.Proofs.ScriptIter
namespace EV.Proofs.ScriptAddress
open EV EV.Script EV.Gen EV.Proofs.ScriptTemplates EV.Proofs.ScriptIter

/-! ## necessary conditions used to separate the branches -/

theorem isP2pkh_nec {s : Bytes} (h : isP2pkh s = true) : s.length = 25 ∧ at' s 0 = opDup := by
  simp only [isP2pkh, Bool.and_eq_true, beq_iff_eq] at h
  exact ⟨h.1.1.1.1.1, h.1.1.1.1.2⟩

theorem isP2sh_nec {s : Bytes} (h : isP2sh s = true) : s.length = 23 ∧ at' s 0 = opHash160 := by
  simp only [isP2sh, Bool.and_eq_true, beq_iff_eq] at h
  exact ⟨h.1.1.1, h.1.1.2⟩

theorem isV0P2wpkh_nec {s : Bytes} (h : isV0P2wpkh s = true) : s.length = 22 ∧ at' s 0 = opPushbytes0 := by
  simp only [isV0P2wpkh, Bool.and_eq_true, beq_iff_eq] at h
  exact ⟨h.1.1, h.1.2⟩

theorem isV0P2wsh_nec {s : Bytes} (h : isV0P2wsh s = true) : s.length = 34 ∧ at' s 0 = opPushbytes0 := by
  simp only [isV0P2wsh, Bool.and_eq_true, beq_iff_eq] at h
  exact ⟨h.1.1, h.1.2⟩

theorem not_true_of {b : Bool} (h : b = true → False) : b = false := by
  cases b with
  | false => rfl
  | true => exact absurd rfl h

theorem versionOpcode_of_byte (v : UInt8) (h1 : opPushnum1 ≤ v) (h16 : v ≤ opPushnum16) :
    1 ≤ v.toNat - 0x50 ∧ v.toNat - 0x50 ≤ 16 ∧ versionOpcode (v.toNat - 0x50) = v := by
  have a := UInt8.le_iff_toNat_le.mp h1
  have b := UInt8.le_iff_toNat_le.mp h16
  have e1 : opPushnum1.toNat = 0x51 := by decide
  have e16 : opPushnum16.toNat = 0x60 := by decide
  refine ⟨by omega, by omega, ?_⟩
  unfold versionOpcode
  have : ¬ (v.toNat - 0x50 = 0) := by omega
  rw [if_neg this, e1]
  have : 0x51 - 1 + (v.toNat - 0x50) = v.toNat := by omega
  rw [this, UInt8.ofNat_toNat]

theorem versionOpcode_byte {v : Nat} (h1 : 1 ≤ v) (h16 : v ≤ 16) :
    (versionOpcode v).toNat = 0x50 + v ∧ opPushnum1 ≤ versionOpcode v ∧ versionOpcode v ≤ opPushnum16 := by
  have e1 : opPushnum1.toNat = 0x51 := by decide
  have e16 : opPushnum16.toNat = 0x60 := by decide
  have hv : (versionOpcode v).toNat = 0x50 + v := by
    unfold versionOpcode
    have : ¬ v = 0 := by omega
    rw [if_neg this, e1, UInt8.toNat_ofNat']; omega
  exact ⟨hv, UInt8.le_iff_toNat_le.mpr (by omega), UInt8.le_iff_toNat_le.mpr (by omega)⟩

/-! ## `fromScript s = some p` ↔ `s` is the pattern of the standard payload `p` -/

theorem fromScript_some {s : Bytes} {p : Payload} (h : fromScript s = some p) :
    p.standard ∧ s = p.pattern := by
  unfold fromScript at h
  split at h
  · rename_i c
    obtain ⟨hh, hl, rfl⟩ := (isP2pkh_iff s).mp c
    simp only [Option.some.injEq] at h; subst h
    have e : ((p2pkhScript hh).drop 3).take 20 = hh := by
      simp only [p2pkhScript, List.cons_append, List.nil_append, List.drop_succ_cons, List.drop_zero]
      exact List.take_left' hl
    rw [e]; exact ⟨hl, rfl⟩
  · split at h
    · rename_i c
      obtain ⟨hh, hl, rfl⟩ := (isP2sh_iff s).mp c
      simp only [Option.some.injEq] at h; subst h
      have e : ((p2shScript hh).drop 2).take 20 = hh := by
        simp only [p2shScript, List.cons_append, List.nil_append, List.drop_succ_cons, List.drop_zero]
        exact List.take_left' hl
      rw [e]; exact ⟨hl, rfl⟩
    · split at h
      · rename_i c
        obtain ⟨prog, hl, rfl⟩ := (isV0P2wpkh_iff s).mp c
        simp only [Option.some.injEq] at h; subst h
        have e : ((witnessScript opPushbytes0 prog).drop 2).take 20 = prog := by
          rw [(witnessScript_facts _ prog (by omega)).2.2.2, ← hl, List.take_length]
        rw [e]
        exact ⟨Or.inl ⟨rfl, Or.inl hl⟩, by simp [Payload.pattern, versionOpcode]⟩
      · split at h
        · rename_i c
          obtain ⟨prog, hl, rfl⟩ := (isV0P2wsh_iff s).mp c
          simp only [Option.some.injEq] at h; subst h
          have e : ((witnessScript opPushbytes0 prog).drop 2).take 32 = prog := by
            rw [(witnessScript_facts _ prog (by omega)).2.2.2, ← hl, List.take_length]
          rw [e]
          exact ⟨Or.inl ⟨rfl, Or.inr hl⟩, by simp [Payload.pattern, versionOpcode]⟩
        · split at h
          · rename_i c
            obtain ⟨v, prog, ⟨hv1, hv16⟩, hl2, hl40, rfl⟩ := (isV1plusP2witprog_iff s).mp c
            simp only [Option.some.injEq] at h; subst h
            obtain ⟨_, f2, _, f4⟩ := witnessScript_facts v prog (by omega)
            obtain ⟨g1, g2, g3⟩ := versionOpcode_of_byte v hv1 hv16
            rw [f2, f4]
            exact ⟨Or.inr ⟨g1, g2, hl2, hl40⟩, by simp [Payload.pattern, g3]⟩
          · cases h

theorem fromScript_pattern {p : Payload} (h : p.standard) : fromScript p.pattern = some p := by
  have dup_ne : ∀ v : UInt8, v.toNat ≤ 0x60 → v ≠ opDup := by
    intro v hv e; subst e; revert hv; decide
  have hash_ne : ∀ v : UInt8, v.toNat ≤ 0x60 → v ≠ opHash160 := by
    intro v hv e; subst e; revert hv; decide
  cases p with
  | pubkeyHash hh =>
    have hl : hh.length = 20 := h
    have c : isP2pkh (p2pkhScript hh) = true := (isP2pkh_iff _).mpr ⟨hh, hl, rfl⟩
    have e : ((p2pkhScript hh).drop 3).take 20 = hh := by
      simp only [p2pkhScript, List.cons_append, List.nil_append, List.drop_succ_cons, List.drop_zero]
      exact List.take_left' hl
    simp only [Payload.pattern, fromScript, c, if_true, e]
  | scriptHash hh =>
    have hl : hh.length = 20 := h
    have c0 : isP2pkh (p2shScript hh) = false := not_true_of fun c => by
      have := (isP2pkh_nec c).1; simp [p2shScript, hl] at this
    have c : isP2sh (p2shScript hh) = true := (isP2sh_iff _).mpr ⟨hh, hl, rfl⟩
    have e : ((p2shScript hh).drop 2).take 20 = hh := by
      simp only [p2shScript, List.cons_append, List.nil_append, List.drop_succ_cons, List.drop_zero]
      exact List.take_left' hl
    simp [Payload.pattern, fromScript, c0, c, e]
  | witnessProgram v prog =>
    rcases h with ⟨rfl, hl⟩ | ⟨h1, h16, hl2, hl40⟩
    · have hlt : prog.length < 256 := by omega
      obtain ⟨f1, f2, f3, f4⟩ := witnessScript_facts opPushbytes0 prog hlt
      have c0 : isP2pkh (witnessScript opPushbytes0 prog) = false := not_true_of fun c => by
        have := (isP2pkh_nec c).1; omega
      have c1 : isP2sh (witnessScript opPushbytes0 prog) = false := not_true_of fun c => by
        have := (isP2sh_nec c).1; omega
      have ev : versionOpcode 0 = opPushbytes0 := by simp [versionOpcode]
      rcases hl with hl | hl
      · have c : isV0P2wpkh (witnessScript opPushbytes0 prog) = true := (isV0P2wpkh_iff _).mpr ⟨prog, hl, rfl⟩
        have e : ((witnessScript opPushbytes0 prog).drop 2).take 20 = prog := by
          rw [f4, ← hl, List.take_length]
        simp [Payload.pattern, ev, fromScript, c0, c1, c, e]
      · have c2 : isV0P2wpkh (witnessScript opPushbytes0 prog) = false := not_true_of fun c => by
          have := (isV0P2wpkh_nec c).1; omega
        have c : isV0P2wsh (witnessScript opPushbytes0 prog) = true := (isV0P2wsh_iff _).mpr ⟨prog, hl, rfl⟩
        have e : ((witnessScript opPushbytes0 prog).drop 2).take 32 = prog := by
          rw [f4, ← hl, List.take_length]
        simp [Payload.pattern, ev, fromScript, c0, c1, c2, c, e]
    · have hlt : prog.length < 256 := by omega
      obtain ⟨g1, g2, g3⟩ := versionOpcode_byte h1 h16
      generalize hvo : versionOpcode v = vo at g1 g2 g3
      obtain ⟨f1, f2, f3, f4⟩ := witnessScript_facts vo prog hlt
      have c0 : isP2pkh (witnessScript vo prog) = false := not_true_of fun c => by
        have := (isP2pkh_nec c).2; rw [f2] at this; exact dup_ne vo (by omega) this
      have c1 : isP2sh (witnessScript vo prog) = false := not_true_of fun c => by
        have := (isP2sh_nec c).2; rw [f2] at this; exact hash_ne vo (by omega) this
      have z : opPushbytes0.toNat = 0 := by decide
      have c2 : isV0P2wpkh (witnessScript vo prog) = false := not_true_of fun c => by
        have := (isV0P2wpkh_nec c).2; rw [f2] at this; rw [this, z] at g1; omega
      have c3 : isV0P2wsh (witnessScript vo prog) = false := not_true_of fun c => by
        have := (isV0P2wsh_nec c).2; rw [f2] at this; rw [this, z] at g1; omega
      have c : isV1plusP2witprog (witnessScript vo prog) = true :=
        (isV1plusP2witprog_iff _).mpr ⟨vo, prog, ⟨g2, g3⟩, hl2, hl40, rfl⟩
      have ev : vo.toNat - 0x50 = v := by omega
      simp [Payload.pattern, hvo, fromScript, c0, c1, c2, c3, c, f2, f4, ev]

/-! ## `scriptPubkey` of a standard payload is its pattern -/

theorem scriptPubkey_standard {p : Payload} (h : p.standard) : scriptPubkey p = some p.pattern := by
  have e20 : opPushbytes20 = UInt8.ofNat 20 := by decide
  cases p with
  | pubkeyHash hh =>
    have hl : hh.length = 20 := h
    have hp := pushHeader_small (n := hh.length) (by omega)
    rw [hl] at hp
    simp [scriptPubkey, Payload.ops, build, Builder.run, Builder.step, Builder.pushOpcode, Builder.pushSlice,
      Builder.new, hp, Payload.pattern, p2pkhScript, hl, e20]
  | scriptHash hh =>
    have hl : hh.length = 20 := h
    have hp := pushHeader_small (n := hh.length) (by omega)
    rw [hl] at hp
    simp [scriptPubkey, Payload.ops, build, Builder.run, Builder.step, Builder.pushOpcode, Builder.pushSlice,
      Builder.new, hp, Payload.pattern, p2shScript, hl, e20]
  | witnessProgram v prog =>
    have hlt : prog.length < 76 := by
      rcases h with ⟨_, hl | hl⟩ | ⟨_, _, _, _⟩ <;> omega
    have hp := pushHeader_small (n := prog.length) hlt
    rcases h with ⟨rfl, _⟩ | ⟨h1, h16, _, _⟩
    · simp [scriptPubkey, Payload.ops, build, Builder.run, Builder.step, Builder.pushInt, Builder.pushOpcode,
        Builder.pushSlice, Builder.new, hp, Payload.pattern, witnessScript, versionOpcode]
    · have hv0 : ¬ v = 0 := by omega
      have e1 : opPushnum1.toNat = 0x51 := by decide
      have eo : Builder.smallIntOpcode (v : Int) = versionOpcode v := by
        unfold Builder.smallIntOpcode versionOpcode
        rw [if_neg hv0, e1]
        congr 1
        simp only [Int.ofNat_eq_natCast]
        omega
      have hc' : 1 ≤ (v : Int) ∧ (v : Int) ≤ 16 := ⟨by omega, by omega⟩
      simp [scriptPubkey, Payload.ops, build, Builder.run, Builder.step, Builder.pushInt, hc', eo,
        Builder.pushOpcode, Builder.pushSlice, Builder.new, hp, Payload.pattern, witnessScript]


/-! ## `is_witness_program` versus `from_script` -/

theorem witnessScript_inj {v v' : UInt8} {p p' : Bytes} (h : witnessScript v p = witnessScript v' p') :
    v = v' ∧ p = p' := by
  simp only [witnessScript, List.cons_append, List.nil_append, List.cons.injEq] at h
  exact ⟨h.1, h.2.2⟩

/-- a witness program has an address unless it is version 0 with a program that is neither 20 nor 32
    bytes (there `is_witness_program` says yes and `from_script` has no branch) -/
theorem witness_program_fromScript {s : Bytes} (hw : isWitnessProgram s = true) :
    fromScript s = none ↔ (at' s 0 = opPushbytes0 ∧ s.length ≠ 22 ∧ s.length ≠ 34) := by
  obtain ⟨v, prog, hv, hl2, hl40, rfl⟩ := (isWitnessProgram_iff s).mp hw
  obtain ⟨f1, f2, _, _⟩ := witnessScript_facts v prog (by omega)
  have z : opPushbytes0 = 0 := by decide
  rw [f1, f2]
  rcases hv with rfl | ⟨hv1, hv16⟩
  · by_cases hstd : prog.length = 20 ∨ prog.length = 32
    · have hp : (Payload.witnessProgram 0 prog).standard := Or.inl ⟨rfl, hstd⟩
      have := fromScript_pattern hp
      simp only [Payload.pattern, versionOpcode, if_true, z] at this
      rw [this]
      constructor
      · intro h; cases h
      · rintro ⟨_, h1, h2⟩; omega
    · constructor
      · intro _; exact ⟨z.symm, by omega, by omega⟩
      · intro _
        cases hf : fromScript (witnessScript 0 prog) with
        | none => rfl
        | some p =>
          exfalso
          obtain ⟨hstd', hpat⟩ := fromScript_some hf
          cases p with
          | pubkeyHash hh =>
            have : at' (witnessScript 0 prog) 0 = opDup := by rw [hpat]; rfl
            rw [f2] at this; revert this; decide
          | scriptHash hh =>
            have : at' (witnessScript 0 prog) 0 = opHash160 := by rw [hpat]; rfl
            rw [f2] at this; revert this; decide
          | witnessProgram w prog' =>
            obtain ⟨ev, ep⟩ := witnessScript_inj hpat
            subst ep
            rcases hstd' with ⟨_, hl⟩ | ⟨h1, h16, _, _⟩
            · exact hstd hl
            · have := (versionOpcode_byte h1 h16).1
              rw [← ev] at this
              have z0 : (0 : UInt8).toNat = 0 := by decide
              omega
  · obtain ⟨g1, g2, g3⟩ := versionOpcode_of_byte v hv1 hv16
    have hp : (Payload.witnessProgram (v.toNat - 0x50) prog).standard := Or.inr ⟨g1, g2, hl2, hl40⟩
    have := fromScript_pattern hp
    simp only [Payload.pattern, g3] at this
    rw [this]
    constructor
    · intro h; cases h
    · rintro ⟨h0, _⟩
      exfalso
      have a := UInt8.le_iff_toNat_le.mp hv1
      have e1 : opPushnum1.toNat = 0x51 := by decide
      have z0 : opPushbytes0.toNat = 0 := by decide
      rw [h0, z0, e1] at a; omega

/-- every script that has an address is one of the three families -/
theorem fromScript_some_family {s : Bytes} {p : Payload} (h : fromScript s = some p) :
    isP2pkh s = true ∨ isP2sh s = true ∨ isWitnessProgram s = true := by
  obtain ⟨hstd, rfl⟩ := fromScript_some h
  cases p with
  | pubkeyHash hh => exact Or.inl ((isP2pkh_iff _).mpr ⟨hh, hstd, rfl⟩)
  | scriptHash hh => exact Or.inr (Or.inl ((isP2sh_iff _).mpr ⟨hh, hstd, rfl⟩))
  | witnessProgram v prog =>
    refine Or.inr (Or.inr ((isWitnessProgram_iff _).mpr ?_))
    rcases hstd with ⟨rfl, hl⟩ | ⟨h1, h16, hl2, hl40⟩
    · refine ⟨0, prog, Or.inl rfl, by omega, by omega, ?_⟩
      have z : opPushbytes0 = 0 := by decide
      simp [Payload.pattern, versionOpcode, z]
    · obtain ⟨_, g2, g3⟩ := versionOpcode_byte h1 h16
      exact ⟨versionOpcode v, prog, Or.inr ⟨g2, g3⟩, hl2, hl40, rfl⟩

/-- `Script::new_witness_program(ver, prog)` writes the same script as the address of that payload -/
theorem newWitnessProgram_eq (v : Nat) (prog : Bytes) (hv : v ≤ 16) :
    newWitnessProgram v prog = scriptPubkey (.witnessProgram v prog) := by
  have hv' : ¬ v > 16 := by omega
  simp only [newWitnessProgram, hv', if_false, scriptPubkey, Payload.ops, build, Builder.run, Builder.step]
  by_cases h0 : v = 0
  · subst h0
    have z : opPushbytes0 = UInt8.ofNat 0 := by decide
    simp [Builder.pushInt, z]
  · have hc : 1 ≤ (v : Int) ∧ (v : Int) ≤ 16 := ⟨by omega, by omega⟩
    have hpos : v > 0 := by omega
    have e1 : opPushnum1.toNat = 0x51 := by decide
    have eo : Builder.smallIntOpcode (v : Int) = UInt8.ofNat (v + 0x50) := by
      unfold Builder.smallIntOpcode
      rw [e1]; congr 1
      simp only [Int.ofNat_eq_natCast]; omega
    simp [Builder.pushInt, hc, hpos, eo]

end EV.Proofs.ScriptAddress
