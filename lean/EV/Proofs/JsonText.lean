/-
  EV.Proofs.JsonText — whitespace between the tokens of a JSON text is insignificant for the lexer
  of EV.Model.JsonText: a text rendered from a token list with arbitrary whitespace gaps lexes back
  to exactly that token list.
-/
import EV.Model.JsonText
set_option linter.unusedSimpArgs false
set_option linter.unusedVariables false
namespace EV.JsonText
open EV

/-- the source text of a token -/
def tokText : Tok → Bytes
  | .lbrace => [0x7b] | .rbrace => [0x7d] | .lbrack => [0x5b] | .rbrack => [0x5d]
  | .colon => [0x3a] | .comma => [0x2c]
  | .str raw => 0x22 :: (raw ++ [0x22])
  | .lit t => t

/-- scanning a raw string body never meets an unescaped quote and does not end inside an escape -/
def rawOk : Bool → Bytes → Bool
  | esc, [] => !esc
  | true, _ :: t => rawOk false t
  | false, b :: t => if b = 0x5c then rawOk true t else if b = 0x22 then false else rawOk false t

/-- a token the lexer can produce -/
def TokOk : Tok → Prop
  | .str raw => rawOk false raw = true
  | .lit t => t ≠ [] ∧ ∀ b ∈ t, isLitByte b = true
  | _ => True

def isLitTok : Tok → Bool | .lit _ => true | _ => false

def allWs (g : Bytes) : Prop := ∀ b ∈ g, isWs b = true

/-- `g₁ t₁ g₂ t₂ … gₙ tₙ trail` -/
def render : List (Bytes × Tok) → Bytes → Bytes
  | [], trail => trail
  | (g, t) :: rest, trail => g ++ (tokText t ++ render rest trail)

/-- the text ends here or continues with a byte that cannot continue a literal -/
def StartsDelim (bs : Bytes) : Prop := bs = [] ∨ ∃ b t, bs = b :: t ∧ isLitByte b = false

/-- gaps are whitespace, tokens are lexable, and a literal is not glued to a following literal -/
def WF : List (Bytes × Tok) → Bytes → Prop
  | [], trail => allWs trail
  | (g, t) :: rest, trail =>
    allWs g ∧ TokOk t ∧ (isLitTok t = true → StartsDelim (render rest trail)) ∧ WF rest trail

theorem lex_ws (g rest : Bytes) (h : allWs g) : lexGo .idle (g ++ rest) = lexGo .idle rest := by
  induction g with
  | nil => rfl
  | cons b t ih =>
    have hb : isWs b = true := h b (List.mem_cons_self)
    have ht : allWs t := fun x hx => h x (List.mem_cons_of_mem _ hx)
    simp only [List.cons_append, lexGo, hb, if_true, ih ht]

/-- leaving a literal at a delimiter: the literal is emitted and lexing resumes in `idle` -/
theorem lexGo_inLit_delim (acc : Bytes) (b : UInt8) (t : Bytes) (hb : isLitByte b = false) :
    lexGo (.inLit acc) (b :: t) = consTok (.lit acc) (lexGo .idle (b :: t)) := by
  simp only [lexGo]
  by_cases hw : isWs b = true
  · simp only [hw, if_true]
  · simp only [hw, Bool.false_eq_true, if_false]
    cases hp : punct b with
    | some p => rfl
    | none =>
      have hq : b = 0x22 := by
        simp only [isLitByte, hp, Option.isNone_none, Bool.and_true, Bool.and_eq_false_iff,
          Bool.not_eq_false', bne_eq_false_iff_eq] at hb
        rcases hb with hb | hb
        · exact absurd hb hw
        · exact hb
      simp only [hq, if_true]

theorem lex_lit (text : Bytes) : ∀ (acc rest : Bytes), (∀ b ∈ text, isLitByte b = true) → StartsDelim rest →
    lexGo (.inLit acc) (text ++ rest) = consTok (.lit (acc ++ text)) (lexGo .idle rest) := by
  induction text with
  | nil =>
    intro acc rest _ hd
    simp only [List.nil_append, List.append_nil]
    rcases hd with rfl | ⟨b, t, rfl, hb⟩
    · rfl
    · exact lexGo_inLit_delim acc b t hb
  | cons c text ih =>
    intro acc rest hl hd
    have hc : isLitByte c = true := hl c List.mem_cons_self
    have ht : ∀ b ∈ text, isLitByte b = true := fun x hx => hl x (List.mem_cons_of_mem _ hx)
    have hc' := hc
    simp only [isLitByte, Bool.and_eq_true, Bool.not_eq_true', Option.isNone_iff_eq_none, bne_iff_ne] at hc'
    obtain ⟨⟨hw, hp⟩, hq⟩ := hc'
    simp only [List.cons_append, lexGo, hw, Bool.false_eq_true, if_false, hp, hq]
    rw [ih (acc ++ [c]) rest ht hd, List.append_assoc]
    rfl

theorem lex_lit_start (c : UInt8) (text rest : Bytes) (hl : ∀ b ∈ c :: text, isLitByte b = true) (hd : StartsDelim rest) :
    lexGo .idle ((c :: text) ++ rest) = consTok (.lit (c :: text)) (lexGo .idle rest) := by
  have hc : isLitByte c = true := hl c List.mem_cons_self
  have ht : ∀ b ∈ text, isLitByte b = true := fun x hx => hl x (List.mem_cons_of_mem _ hx)
  have hc' := hc
  simp only [isLitByte, Bool.and_eq_true, Bool.not_eq_true', Option.isNone_iff_eq_none, bne_iff_ne] at hc'
  obtain ⟨⟨hw, hp⟩, hq⟩ := hc'
  simp only [List.cons_append, lexGo, hw, Bool.false_eq_true, if_false, hp, hq]
  rw [lex_lit text [c] rest ht hd]
  rfl

theorem lex_str (raw : Bytes) : ∀ (acc : Bytes) (esc : Bool) (rest : Bytes), rawOk esc raw = true →
    lexGo (.inStr acc esc) (raw ++ 0x22 :: rest) = consTok (.str (acc ++ raw)) (lexGo .idle rest) := by
  induction raw with
  | nil =>
    intro acc esc rest h
    cases esc with
    | true => simp [rawOk] at h
    | false => simp [lexGo]
  | cons b raw ih =>
    intro acc esc rest h
    cases esc with
    | true =>
      simp only [rawOk] at h
      simp only [List.cons_append, lexGo]
      rw [ih (acc ++ [b]) false rest h, List.append_assoc]; rfl
    | false =>
      simp only [rawOk] at h
      by_cases hb : b = 0x5c
      · simp only [hb, if_true] at h
        simp only [List.cons_append, lexGo, hb, if_true]
        rw [ih (acc ++ [0x5c]) true rest h, List.append_assoc]; rfl
      · simp only [hb, if_false] at h
        by_cases hq : b = 0x22
        · simp [hq] at h
        · simp only [hq, if_false] at h
          simp only [List.cons_append, lexGo, hb, hq, if_false]
          rw [ih (acc ++ [b]) false rest h, List.append_assoc]; rfl

theorem lex_punct (b : UInt8) (p : Tok) (rest : Bytes) (hp : punct b = some p) :
    lexGo .idle (b :: rest) = consTok p (lexGo .idle rest) := by
  have hw : isWs b = false := by
    simp only [punct] at hp
    simp only [isWs]
    split at hp <;> first | (rename_i h; subst h; decide) | skip
    split at hp <;> first | (rename_i h; subst h; decide) | skip
    split at hp <;> first | (rename_i h; subst h; decide) | skip
    split at hp <;> first | (rename_i h; subst h; decide) | skip
    split at hp <;> first | (rename_i h; subst h; decide) | skip
    split at hp <;> first | (rename_i h; subst h; decide) | skip
    cases hp
  simp only [lexGo, hw, Bool.false_eq_true, if_false, hp]

/-- one token followed by the rest of the text -/
theorem lex_tok (t : Tok) (rest : Bytes) (ht : TokOk t) (hd : isLitTok t = true → StartsDelim rest) :
    lexGo .idle (tokText t ++ rest) = consTok t (lexGo .idle rest) := by
  cases t with
  | lbrace => exact lex_punct _ _ _ (by decide)
  | rbrace => exact lex_punct _ _ _ (by decide)
  | lbrack => exact lex_punct _ _ _ (by decide)
  | rbrack => exact lex_punct _ _ _ (by decide)
  | colon => exact lex_punct _ _ _ (by decide)
  | comma => exact lex_punct _ _ _ (by decide)
  | str raw =>
    have h1 : isWs 0x22 = false := by decide
    have h2 : punct 0x22 = none := by decide
    simp only [tokText, List.cons_append, List.append_assoc, lexGo, h1, Bool.false_eq_true, if_false, h2, if_true]
    have := lex_str raw [] false rest ht
    simpa using this
  | lit text =>
    obtain ⟨hne, hl⟩ := ht
    cases text with
    | nil => exact absurd rfl hne
    | cons c text => exact lex_lit_start c text rest hl (hd rfl)

/-- Main lemma: whatever whitespace separates the tokens, the lexer returns the tokens. -/
theorem lex_render : ∀ (l : List (Bytes × Tok)) (trail : Bytes), WF l trail →
    lex (render l trail) = some (l.map Prod.snd)
  | [], trail, h => by
    have := lex_ws trail [] h
    simp only [List.append_nil] at this
    simp only [lex, render, this, lexGo, List.map_nil]
  | (g, t) :: rest, trail, h => by
    obtain ⟨hg, ht, hd, hr⟩ := h
    have ih := lex_render rest trail hr
    simp only [lex] at ih ⊢
    simp only [render, lex_ws g _ hg, lex_tok t _ ht hd, ih, consTok, Option.map_some, List.map_cons]

/-! ### a syntactic sufficient condition for `WF` -/

theorem startsDelim_of_ws (g rest : Bytes) (hg : allWs g) (hne : g ≠ []) : StartsDelim (g ++ rest) := by
  cases g with
  | nil => exact absurd rfl hne
  | cons b t =>
    refine Or.inr ⟨b, t ++ rest, rfl, ?_⟩
    have := hg b List.mem_cons_self
    simp [isLitByte, this]

theorem startsDelim_tokText (t : Tok) (rest : Bytes) (h : isLitTok t = false) : StartsDelim (tokText t ++ rest) := by
  cases t with
  | lit _ => simp [isLitTok] at h
  | str raw => exact Or.inr ⟨0x22, _, rfl, by decide⟩
  | lbrace => exact Or.inr ⟨_, _, rfl, by decide⟩
  | rbrace => exact Or.inr ⟨_, _, rfl, by decide⟩
  | lbrack => exact Or.inr ⟨_, _, rfl, by decide⟩
  | rbrack => exact Or.inr ⟨_, _, rfl, by decide⟩
  | colon => exact Or.inr ⟨_, _, rfl, by decide⟩
  | comma => exact Or.inr ⟨_, _, rfl, by decide⟩

theorem startsDelim_trail (trail : Bytes) (h : allWs trail) : StartsDelim trail := by
  cases trail with
  | nil => exact Or.inl rfl
  | cons b t => exact startsDelim_of_ws (b :: t) [] h (by simp) |> fun x => by simpa using x

/-- gaps are whitespace, tokens lexable, and two literals are never adjacent without whitespace
    between them (in a JSON document two literals are never adjacent at all) -/
def GapsOk : List (Bytes × Tok) → Prop
  | [] => True
  | [(g, t)] => allWs g ∧ TokOk t
  | (g, t) :: (g', t') :: rest =>
    allWs g ∧ TokOk t ∧ (isLitTok t = true → isLitTok t' = true → g' ≠ []) ∧ GapsOk ((g', t') :: rest)

theorem wf_of_gapsOk : ∀ (l : List (Bytes × Tok)) (trail : Bytes), GapsOk l → allWs trail → WF l trail
  | [], trail, _, ht => ht
  | [(g, t)], trail, h, ht => ⟨h.1, h.2, fun _ => startsDelim_trail trail ht, ht⟩
  | (g, t) :: (g', t') :: rest, trail, h, ht => by
    obtain ⟨hg, hok, hadj, hrest⟩ := h
    have ih := wf_of_gapsOk ((g', t') :: rest) trail hrest ht
    refine ⟨hg, hok, ?_, ih⟩
    intro hl
    simp only [render]
    by_cases hg' : g' = []
    · subst hg'
      have : isLitTok t' = false := by
        cases h' : isLitTok t' with
        | false => rfl
        | true => exact absurd rfl (hadj hl h')
      simpa using startsDelim_tokText t' (render rest trail) this
    · exact startsDelim_of_ws g' _ ih.1 hg'

end EV.JsonText
