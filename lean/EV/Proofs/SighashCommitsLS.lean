/-
  Injectivity of the legacy and segwit-v0 signing serialisations on canonical committed-field
  records (modulo collisions of the hash parameters), and canonicity of the records built from
  canonical transactions.
-/
import EV.Proofs.SighashDefs
import EV.Proofs.SighashCommitsLSAux
namespace EV.Sighash
open EV EV.Codec EV.Proofs.CodecPrim EV.Proofs.CodecTx

variable (P : Prims)

/-- the record the legacy algorithm signs is canonical when the transaction is -/
theorem specLegacyView_wf (hs : SizesPos P) (tx : Tx) (htx : tx.wf P) (idx : Nat) (script : Bytes) (ty : EcdsaTy)
    (hsc : script.length ≤ maxVecSize) (hr : InRange ty idx tx) :
    (specLegacyView tx idx script ty.asU32).wf P := by
  obtain ⟨t1, t2, t3, t4, t5, t6⟩ := htx
  have hinB : ∀ i ∈ tx.input, i.wfBody P := fun i hi => (t5 i hi).1
  have houtB : ∀ o ∈ tx.output, o.wfBody P := fun o ho => (t6 o ho).1
  have hlen_in : tx.input.length ≤ maxVecSize := Nat.le_trans (Nat.le_mul_of_pos_right _ hs.txIn) t3
  have hlen_out : tx.output.length ≤ maxVecSize := Nat.le_trans (Nat.le_mul_of_pos_right _ hs.txOut) t4
  refine ⟨t1, t2, asU32_lt ty, ?_, ?_, ?_, ?_⟩
  · simp only [specLegacyView, List.length_map, List.length_range]
    split
    · decide
    · exact hlen_in
  · simp only [specLegacyView, List.length_map, List.length_range, mask_single, mask_none]
    split
    · exact Nat.zero_le _
    · split
      · rename_i hsg
        have := hr.2 hsg
        omega
      · exact hlen_out
  · intro i hi
    simp only [specLegacyView, List.mem_map] at hi
    obtain ⟨n, _, rfl⟩ := hi
    refine ⟨?_, rfl⟩
    refine normIn_wf P _ (getD_txIn_wfBody P _ hinB _) _ ?_ _ ?_
    · split <;> split <;> first | exact Nat.zero_le _ | exact hsc
    · split <;> split <;> first | decide | exact (getD_txIn_wfBody P _ hinB _).2.2.2.1
  · intro o ho
    simp only [specLegacyView, List.mem_map] at ho
    obtain ⟨n, _, rfl⟩ := ho
    unfold specLegacyOutput
    split
    · exact ⟨txOutDefault_wfBody P, rfl⟩
    · exact ⟨getD_txOut_wfBody P _ houtB _, rfl⟩

/-- the legacy serialisation determines the record -/
theorem serLegacy_injective (a b : LegacyView) (ha : a.wf P) (hb : b.wf P) (h : serLegacy a = serLegacy b) : a = b := by
  obtain ⟨a1, a2, a3, a4, a5, a6, a7⟩ := ha
  obtain ⟨b1, b2, b3, b4, b5, b6, b7⟩ := hb
  simp only [serLegacy, List.append_assoc] at h
  have hin := PF.of_lawful (vecOf_lawful 1 (by decide) _ _ _ (txIn_lawful P))
  have hout := PF.of_lawful (vecOf_lawful 1 (by decide) _ _ _ (txOut_lawful P))
  obtain ⟨e1, h⟩ := le4_pf _ _ _ _ a1 b1 h
  obtain ⟨e2, h⟩ := hin _ _ _ _ ⟨by omega, a6⟩ ⟨by omega, b6⟩ h
  obtain ⟨e3, h⟩ := hout _ _ _ _ ⟨by omega, a7⟩ ⟨by omega, b7⟩ h
  obtain ⟨e4, h⟩ := le4_pf _ _ _ _ a2 b2 h
  have e5 := le4_pf.injective _ _ a3 b3 h
  cases a; cases b
  simp only at e1 e2 e3 e4 e5
  subst e1 e2 e3 e4 e5
  rfl

theorem specSegwitView_wf (tx : Tx) (htx : tx.wf P) (idx : Nat) (sc : Bytes) (v : Value) (ty : EcdsaTy)
    (hsc : sc.length ≤ maxVecSize) (hv : v.wf P) (vw : SegwitView)
    (h : specSegwitView tx idx sc v ty.asU32 = some vw) : vw.wf P := by
  obtain ⟨t1, t2, t3, t4, t5, t6⟩ := htx
  have hinB : ∀ i ∈ tx.input, i.wfBody P := fun i hi => (t5 i hi).1
  have houtB : ∀ o ∈ tx.output, o.wfBody P := fun o ho => (t6 o ho).1
  unfold specSegwitView at h
  cases hi : tx.input[idx]? with
  | none => rw [hi] at h; cases h
  | some txin =>
    rw [hi] at h
    simp only [Option.some.injEq] at h
    subst h
    have hw := hinB txin (List.mem_of_getElem? hi)
    refine ⟨t1, t2, asU32_lt ty, outpoint_wf_of_wfBody P _ hw, hsc, hv, hw.2.2.2.1,
      fun x hx => issuanceOf_wf P txin hw x hx, ?_, ?_, ?_, ?_, ?_, ?_, ?_⟩
    · intro l hl o ho
      dsimp only at hl
      split at hl
      · cases hl
      · cases hl
        obtain ⟨i, hi, rfl⟩ := List.mem_map.mp ho
        exact outpoint_wf_of_wfBody P _ (hinB i hi)
    · intro l hl o ho
      dsimp only at hl
      split at hl
      · cases hl
        obtain ⟨i, hi, rfl⟩ := List.mem_map.mp ho
        exact (hinB i hi).2.2.2.1
      · cases hl
    · dsimp only
      split
      · intro o ho
        obtain ⟨i, hi, rfl⟩ := List.mem_map.mp ho
        exact ⟨houtB i hi, rfl⟩
      · split
        · exact ⟨getD_txOut_wfBody P _ houtB _, rfl⟩
        · trivial
    · dsimp only
      cases ty <;> simp [EcdsaTy.asU32, Gen.ecdsaAll, Gen.ecdsaNone, Gen.ecdsaSingle, Gen.ecdsaAllPlusAnyoneCanPay,
        Gen.ecdsaNonePlusAnyoneCanPay, Gen.ecdsaSinglePlusAnyoneCanPay, SIGHASH_ANYONECANPAY]
    · dsimp only
      cases ty <;> simp [EcdsaTy.asU32, Gen.ecdsaAll, Gen.ecdsaNone, Gen.ecdsaSingle, Gen.ecdsaAllPlusAnyoneCanPay,
        Gen.ecdsaNonePlusAnyoneCanPay, Gen.ecdsaSinglePlusAnyoneCanPay, SIGHASH_ANYONECANPAY]
    · dsimp only
      cases ty <;> simp [EcdsaTy.asU32, Gen.ecdsaAll, Gen.ecdsaNone, Gen.ecdsaSingle, Gen.ecdsaAllPlusAnyoneCanPay,
        Gen.ecdsaNonePlusAnyoneCanPay, Gen.ecdsaSinglePlusAnyoneCanPay, SIGHASH_ANYONECANPAY, SIGHASH_SINGLE, SIGHASH_NONE]
    · dsimp only
      cases ty <;> simp [EcdsaTy.asU32, Gen.ecdsaAll, Gen.ecdsaNone, Gen.ecdsaSingle, Gen.ecdsaAllPlusAnyoneCanPay,
        Gen.ecdsaNonePlusAnyoneCanPay, Gen.ecdsaSinglePlusAnyoneCanPay, SIGHASH_SINGLE, SIGHASH_NONE]
      all_goals (by_cases hlt : idx < tx.output.length <;> simp [hlt])

/-- equality of everything BIP143 commits to.  The per-input issuances are committed only through
    their concatenation (`[0]` for "none"), which does not determine the list — see the comment at
    `serSegwit_injective` -/
def SegwitView.sameCommitted (a b : SegwitView) : Prop :=
  { a with issuances := none } = { b with issuances := none } ∧
  a.issuances.map (fun l => l.flatMap encIssuanceOpt) = b.issuances.map (fun l => l.flatMap encIssuanceOpt)

theorem SegwitView.sameCommitted_intro (a b : SegwitView) (h1 : a.version = b.version) (h2 : a.prevouts = b.prevouts)
    (h3 : a.sequences = b.sequences)
    (h4 : a.issuances.map (fun l => l.flatMap encIssuanceOpt) = b.issuances.map (fun l => l.flatMap encIssuanceOpt))
    (h5 : a.outpoint = b.outpoint) (h6 : a.scriptCode = b.scriptCode) (h7 : a.value = b.value)
    (h8 : a.sequence = b.sequence) (h9 : a.issuance = b.issuance) (h10 : a.outputs = b.outputs)
    (h11 : a.lockTime = b.lockTime) (h12 : a.hashType = b.hashType) : a.sameCommitted b := by
  refine ⟨?_, h4⟩
  cases a; cases b
  simp only at h1 h2 h3 h5 h6 h7 h8 h9 h10 h11 h12
  subst h1 h2 h3 h5 h6 h7 h8 h9 h10 h11 h12
  rfl

/-- equal output hashes under the same hash type: equal selections, unless a collision or a zero hash -/
theorem outputs_eq_of_outHash_eq (H : SigHashes) (hinj : ∀ x y, H.sha256d x = H.sha256d y → x = y)
    (hnz : ∀ x, H.sha256d x ≠ zero32) (a b : SegwitView) (ha : a.wf P) (hb : b.wf P)
    (ht : a.hashType = b.hashType) (h : outHash H a.outputs = outHash H b.outputs) : a.outputs = b.outputs := by
  obtain ⟨_, _, _, _, _, _, _, _, _, _, a11, _, _, _, a15⟩ := ha
  obtain ⟨_, _, _, _, _, _, _, _, _, _, b11, _, _, _, b15⟩ := hb
  rw [ht] at a15
  have hpf := PF.of_lawful (txOut_lawful P)
  cases hao : a.outputs with
  | all la =>
    rw [hao] at a15 a11 h
    cases hbo : b.outputs with
    | all lb =>
      rw [hbo] at b11 h
      simp only [outHash] at h
      have := flatMap_injective hpf (fun o ho => txOut_enc_ne_nil P o ho.1) la lb a11 b11 (hinj _ _ h)
      rw [this]
    | single ob =>
      rw [hbo] at b15
      exact absurd b15 a15.1
    | none =>
      rw [hbo] at b15
      rcases b15 with b15 | b15
      · exact absurd b15 a15.1
      · exact absurd b15 a15.2
  | single oa =>
    rw [hao] at a15 a11 h
    cases hbo : b.outputs with
    | all lb =>
      rw [hbo] at b15
      exact absurd a15 b15.1
    | single ob =>
      rw [hbo] at b11 h
      simp only [outHash] at h
      rw [hpf.injective oa ob a11 b11 (hinj _ _ h)]
    | none =>
      rw [hbo] at h
      exact absurd h (hnz _)
  | none =>
    rw [hao] at a15 h
    cases hbo : b.outputs with
    | all lb =>
      rw [hbo] at b15
      rcases a15 with a15 | a15
      · exact absurd a15 b15.1
      · exact absurd a15 b15.2
    | single ob =>
      rw [hbo] at h
      exact absurd h.symm (hnz _)
    | none => rfl

/-- the BIP143 serialisation determines the record, or a SHA-256d collision is exhibited, or an input
    that hashes to 32 zero bytes (the zero hash stands for "SIGHASH_SINGLE without output").
    NB: `hashIssuance` hashes `00` for an input without issuance and the raw issuance otherwise, and
    segwit v0 commits to no per-input issuance flag; that concatenation is not uniquely decodable
    (e.g. `[I, none×8]` and `[none×8, I']` can serialize identically), hence only the concatenation
    is claimed. -/
theorem serSegwit_injective (H : SigHashes) (hl : HashLen H) (a b : SegwitView) (ha : a.wf P) (hb : b.wf P)
    (h : serSegwit H a = serSegwit H b) :
    a.sameCommitted b ∨ Collision H.sha256d ∨ ZeroPreimage H.sha256d := by
  by_cases hc : Collision H.sha256d
  · exact Or.inr (Or.inl hc)
  by_cases hz : ZeroPreimage H.sha256d
  · exact Or.inr (Or.inr hz)
  left
  have hinj : ∀ x y, H.sha256d x = H.sha256d y → x = y := by
    intro x y hxy
    by_cases hne : x = y
    · exact hne
    · exact absurd ⟨x, y, hne, hxy⟩ hc
  have hnz : ∀ x, H.sha256d x ≠ zero32 := fun x hx => hz ⟨x, hx⟩
  have hwa := ha
  have hwb := hb
  obtain ⟨a1, a2, a3, a4, a5, a6, a7, a8, a9, a10, a11, a12, a13, a14, a15⟩ := ha
  obtain ⟨b1, b2, b3, b4, b5, b6, b7, b8, b9, b10, b11, b12, b13, b14, b15⟩ := hb
  rw [serSegwit_eq, serSegwit_eq] at h
  obtain ⟨e1, h⟩ := le4_pf _ _ _ _ a1 b1 h
  obtain ⟨e2, h⟩ := append_peel (by rw [optHash_length hl, optHash_length hl]) h
  obtain ⟨e3, h⟩ := append_peel (by rw [optHash_length hl, optHash_length hl]) h
  obtain ⟨e4, h⟩ := append_peel (by rw [optHash_length hl, optHash_length hl]) h
  obtain ⟨e5, h⟩ := PF.of_lawful outpoint_lawful _ _ _ _ a4 b4 h
  obtain ⟨e6, h⟩ := PF.of_lawful bytesVec_lawful _ _ _ _ a5 b5 h
  obtain ⟨e7, h⟩ := PF.of_lawful (value_lawful P) _ _ _ _ a6 b6 h
  obtain ⟨e8, h⟩ := le4_pf _ _ _ _ a7 b7 h
  obtain ⟨e9, h⟩ := List.append_inj' h (by simp only [List.length_append, outHash_length hl, encLe_length])
  obtain ⟨e10, h⟩ := append_peel (by rw [outHash_length hl, outHash_length hl]) h
  obtain ⟨e11, h⟩ := le4_pf _ _ _ _ a2 b2 h
  have e12 := le4_pf.injective _ _ a3 b3 h
  have s1 : a.prevouts.isSome = b.prevouts.isSome := by rw [a12, b12, e12]
  have s2 : a.issuances.isSome = b.issuances.isSome := by rw [a13, b13, e12]
  have s3 : a.sequences.isSome = b.sequences.isSome := by rw [a14, b14, e12]
  refine SegwitView.sameCommitted_intro a b e1 ?_ ?_ (optHash_inj hinj _ _ _ s2 e4) e5 e6 e7 e8
    (issPart_inj P _ _ a8 b8 e9) (outputs_eq_of_outHash_eq P H hinj hnz a b hwa hwb e12 e10) e11 e12
  · exact opt_flatMap_inj (PF.of_lawful outpoint_lawful) outpoint_enc_ne_nil _ _ a9 b9 (optHash_inj hinj _ _ _ s1 e2)
  · exact opt_flatMap_inj le4_pf (fun n _ => encLe4_ne_nil n) _ _ a10 b10 (optHash_inj hinj _ _ _ s3 e3)

end EV.Sighash
