/-
  EV.Proofs.Detect — lifting the two finite tables to all symbol strings:
  an error pattern with one or two non-zero symbols never has residue 0 (length ≤ 1023), and never
  has residue `C` (length ≤ N+1) when `Table2 c C N` holds.
-/
import EV.Proofs.PolymodTable
namespace EV.Bech32
namespace Code

/-- number of non-zero symbols of an error pattern -/
def weight : List Nat → Nat
  | [] => 0
  | x :: xs => (if x = 0 then 0 else 1) + weight xs

/-- number of positions at which two strings differ (compared up to the shorter length) -/
def diffCount : List Nat → List Nat → Nat
  | a :: as, b :: bs => (if a = b then 0 else 1) + diffCount as bs
  | _, _ => 0

theorem xor_eq_zero (a b : Nat) : a ^^^ b = 0 ↔ a = b := by
  constructor
  · intro h
    have : a ^^^ (a ^^^ b) = b := by rw [← Nat.xor_assoc, Nat.xor_self, Nat.zero_xor]
    rw [h, Nat.xor_zero] at this
    exact this
  · rintro rfl; exact Nat.xor_self a

theorem weight_xorList (a b : List Nat) : weight (xorList a b) = diffCount a b := by
  induction a generalizing b with
  | nil => simp [xorList, weight, diffCount]
  | cons x a ih =>
    cases b with
    | nil => simp [xorList, weight, diffCount]
    | cons y b =>
      simp only [xorList, weight, diffCount, ih, xor_eq_zero]

/-- a run of zero symbols is `T^n` -/
theorem polymodFrom_weight_zero (c : Code) (s : Nat) (w : List Nat) (h : weight w = 0) :
    c.polymodFrom s w = c.Tpow w.length s := by
  induction w generalizing s with
  | nil => rfl
  | cons x w ih =>
    simp only [weight] at h
    have hx : x = 0 := by
      by_cases hx : x = 0
      · exact hx
      · simp [hx] at h
    have hw : weight w = 0 := by omega
    subst hx
    rw [polymodFrom_cons, ih _ hw, List.length_cons, Tpow_succ']
    rfl

section
variable (c : Code) (hc : c.Good) (hb : c.LowBij)
include hc hb

/-- after one error `e` and `d` clean symbols, at most one further error: residue ≠ 0 -/
theorem tail_ne_zero (ht : c.Table1) (w : List Nat) (hw : ∀ x ∈ w, x < 32) (hwt : weight w ≤ 1)
    (e d : Nat) (he0 : 0 < e) (he : e < 32) (hlen : d + w.length ≤ 1022) :
    c.polymodFrom (c.Tpow d e) w ≠ 0 := by
  have hl5 : (32 : Nat) ≤ 2 ^ (5 * c.len) := by
    have := hc.len_pos
    calc (32 : Nat) = 2 ^ 5 := rfl
      _ ≤ 2 ^ (5 * c.len) := Nat.pow_le_pow_right (by decide) (by omega)
  induction w generalizing d with
  | nil => exact Tpow_ne_zero c hc hb d e (by omega) (by omega)
  | cons x w ih =>
    have hx : x < 32 := hw x (by simp)
    have hw' : ∀ y ∈ w, y < 32 := fun y hy => hw y (by simp [hy])
    simp only [List.length_cons] at hlen
    rw [polymodFrom_cons, step_eq_T_xor c _ x hx]
    by_cases hx0 : x = 0
    · subst hx0
      rw [Nat.xor_zero]
      have hwt' : weight w ≤ 1 := by simpa [weight] using hwt
      exact ih hw' hwt' (d + 1) (by omega)
    · have hwt' : weight w = 0 := by simp [weight, hx0] at hwt; omega
      rw [polymodFrom_weight_zero c _ w hwt']
      have hT : 32 ≤ c.Tpow (d + 1) e := ht e (d + 1) he0 he (by omega) (by omega)
      have hne : c.T (c.Tpow d e) ^^^ x ≠ 0 := by
        intro h0
        have := (xor_eq_zero _ _).1 h0
        simp only [Tpow] at hT
        omega
      exact Tpow_ne_zero c hc hb _ _
        (Nat.xor_lt_two_pow (T_lt c hc _) (by omega)) hne

/-- one or two symbol errors within 1023 symbols: the residue of the error pattern is not 0 -/
theorem pattern_ne_zero (ht : c.Table1) (w : List Nat) (hw : ∀ x ∈ w, x < 32)
    (h1 : 1 ≤ weight w) (h2 : weight w ≤ 2) (hlen : w.length ≤ 1023) :
    c.polymodFrom 0 w ≠ 0 := by
  induction w with
  | nil => simp [weight] at h1
  | cons x w ih =>
    have hx : x < 32 := hw x (by simp)
    have hw' : ∀ y ∈ w, y < 32 := fun y hy => hw y (by simp [hy])
    simp only [List.length_cons] at hlen
    rw [polymodFrom_cons, step_zero_sym]
    by_cases hx0 : x = 0
    · subst hx0
      exact ih hw' (by simpa [weight] using h1) (by simpa [weight] using h2) (by omega)
    · have hwt' : weight w ≤ 1 := by simp [weight, hx0] at h2; omega
      exact tail_ne_zero c hc hb ht w hw' hwt' x 0 (by omega) hx (by omega)



/-- two strings of equal length that differ in one or two symbols have different residues -/
theorem residues_differ (ht : c.Table1) (w w' : List Nat) (hlen : w.length = w'.length)
    (hw : ∀ x ∈ w, x < 32) (hw' : ∀ x ∈ w', x < 32)
    (h1 : 1 ≤ diffCount w w') (h2 : diffCount w w' ≤ 2) (hl : w.length ≤ 1023) :
    c.polymod w ≠ c.polymod w' := by
  intro heq
  have hlin := polymod_linear c 1 1 w w' hlen hw hw'
  rw [Nat.xor_self] at hlin
  have : c.polymodFrom 1 w ^^^ c.polymodFrom 1 w' = 0 := by
    show c.polymod w ^^^ c.polymod w' = 0
    rw [heq, Nat.xor_self]
  rw [this] at hlin
  refine pattern_ne_zero c hc hb ht (xorList w w') (xorList_lt w w' hw hw') ?_ ?_ ?_ hlin
  · rw [weight_xorList]; exact h1
  · rw [weight_xorList]; exact h2
  · rw [xorList_length w w' hlen]; exact hl


end

section
variable (c : Code)

theorem tail_ne_C (C N : Nat) (ht : c.Table2 C N) (w : List Nat) (hw : ∀ x ∈ w, x < 32) (hwt : weight w ≤ 1)
    (e d : Nat) (he0 : 0 < e) (he : e < 32) (hlen : d + w.length ≤ N) :
    c.polymodFrom (c.Tpow d e) w ≠ C := by
  induction w generalizing d with
  | nil =>
    have := ht e 0 d 0 he0 he (by decide) (by simpa using hlen)
    simpa [Tpow, polymodFrom_nil] using this
  | cons x w ih =>
    have hx : x < 32 := hw x (by simp)
    have hw' : ∀ y ∈ w, y < 32 := fun y hy => hw y (by simp [hy])
    simp only [List.length_cons] at hlen
    rw [polymodFrom_cons, step_eq_T_xor c _ x hx]
    by_cases hx0 : x = 0
    · subst hx0
      rw [Nat.xor_zero]
      have hwt' : weight w ≤ 1 := by simpa [weight] using hwt
      exact ih hw' hwt' (d + 1) (by omega)
    · have hwt' : weight w = 0 := by simp [weight, hx0] at hwt; omega
      rw [polymodFrom_weight_zero c _ w hwt']
      exact ht e x (d + 1) w.length he0 he hx (by omega)


/-- one or two symbol errors within `N+1` symbols: the residue of the error pattern is not `C` -/
theorem pattern_ne_C (C N : Nat) (ht : c.Table2 C N) (w : List Nat) (hw : ∀ x ∈ w, x < 32)
    (h1 : 1 ≤ weight w) (h2 : weight w ≤ 2) (hlen : w.length ≤ N + 1) :
    c.polymodFrom 0 w ≠ C := by
  induction w with
  | nil => simp [weight] at h1
  | cons x w ih =>
    have hx : x < 32 := hw x (by simp)
    have hw' : ∀ y ∈ w, y < 32 := fun y hy => hw y (by simp [hy])
    simp only [List.length_cons] at hlen
    rw [polymodFrom_cons, step_zero_sym]
    by_cases hx0 : x = 0
    · subst hx0
      exact ih hw' (by simpa [weight] using h1) (by simpa [weight] using h2) (by omega)
    · have hwt' : weight w ≤ 1 := by simp [weight, hx0] at h2; omega
      exact tail_ne_C c C N ht w hw' hwt' x 0 (by omega) hx (by omega)


/-- …and their residues never differ by `C` -/
theorem residues_not_C_apart (C N : Nat) (ht : c.Table2 C N) (w w' : List Nat) (hlen : w.length = w'.length)
    (hw : ∀ x ∈ w, x < 32) (hw' : ∀ x ∈ w', x < 32)
    (h1 : 1 ≤ diffCount w w') (h2 : diffCount w w' ≤ 2) (hl : w.length ≤ N + 1) :
    c.polymod w ^^^ c.polymod w' ≠ C := by
  intro heq
  have hlin := polymod_linear c 1 1 w w' hlen hw hw'
  rw [Nat.xor_self] at hlin
  have : c.polymodFrom 1 w ^^^ c.polymodFrom 1 w' = C := heq
  rw [this] at hlin
  refine pattern_ne_C c C N ht (xorList w w') (xorList_lt w w' hw hw') ?_ ?_ ?_ hlin
  · rw [weight_xorList]; exact h1
  · rw [weight_xorList]; exact h2
  · rw [xorList_length w w' hlen]; exact hl


end
end Code
end EV.Bech32
