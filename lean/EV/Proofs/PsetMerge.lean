/-
  EV.Proofs.PsetMerge — laws of `merge` (EV.Model.Pset): nothing present in an operand is lost,
  sortedness of the maps is preserved, `Input::merge`/`Output::merge` are associative and, on
  operands that agree wherever both define a value (`Compat`), commutative; the xpub key-source
  reconciliation as a decision table, never panicking; `Global::merge` and the whole-PSET merge.
  The per-field proofs are generated from the table in tools/gen_pset_fields.py (`lean-proofs`).
-/
import EV.Model.Pset
import EV.Proofs.PsetMap
import EV.Proofs.PsetId
namespace EV
open Codec

theorem optAgree_mergeOpt {α} {x y z : Option α} (h1 : OptAgree x z) (h2 : OptAgree y z) : OptAgree (mergeOpt x y) z := by
  intro u v hu hv
  cases x with
  | some a => simp only [mergeOpt] at hu; exact h1 u v hu hv
  | none => simp only [mergeOpt] at hu; exact h2 u v hu hv

theorem PsetInput.merge_keeps (x y : PsetInput) (hy : y.Sorted) : PsetInput.Keeps x y (x.merge y) where
  nonWitnessUtxo := mergeOpt_isSome _ _
  witnessUtxo := mergeOpt_isSome _ _
  partialSigs := fun k h => (KV.mem_keys_extend _ _ (hy.1) k).2 h
  sighashType := mergeOpt_isSome _ _
  redeemScript := mergeOpt_isSome _ _
  witnessScript := mergeOpt_isSome _ _
  bip32Derivation := fun k h => (KV.mem_keys_extend _ _ (hy.2.1) k).2 h
  finalScriptSig := mergeOpt_isSome _ _
  finalScriptWitness := mergeOpt_isSome _ _
  ripemd160Preimages := fun k h => (KV.mem_keys_extend _ _ (hy.2.2.1) k).2 h
  sha256Preimages := fun k h => (KV.mem_keys_extend _ _ (hy.2.2.2.1) k).2 h
  hash160Preimages := fun k h => (KV.mem_keys_extend _ _ (hy.2.2.2.2.1) k).2 h
  hash256Preimages := fun k h => (KV.mem_keys_extend _ _ (hy.2.2.2.2.2.1) k).2 h
  previousTxid := rfl
  previousOutputIndex := rfl
  sequence := mergeOpt_isSome _ _
  requiredTimeLocktime := maxOpt_isSome _ _
  requiredHeightLocktime := maxOpt_isSome _ _
  tapKeySig := mergeOpt_isSome _ _
  tapScriptSigs := fun k h => (KV.mem_keys_extend _ _ (hy.2.2.2.2.2.2.1) k).2 h
  tapScripts := fun k h => (KV.mem_keys_extend _ _ (hy.2.2.2.2.2.2.2.1) k).2 h
  tapKeyOrigins := fun k h => (KV.mem_keys_extend _ _ (hy.2.2.2.2.2.2.2.2.1) k).2 h
  tapInternalKey := mergeOpt_isSome _ _
  tapMerkleRoot := mergeOpt_isSome _ _
  issuanceValueAmount := mergeOpt_isSome _ _
  issuanceValueComm := mergeOpt_isSome _ _
  issuanceValueRangeproof := mergeOpt_isSome _ _
  issuanceKeysRangeproof := mergeOpt_isSome _ _
  peginTx := mergeOpt_isSome _ _
  peginTxoutProof := mergeOpt_isSome _ _
  peginGenesisHash := mergeOpt_isSome _ _
  peginClaimScript := mergeOpt_isSome _ _
  peginValue := mergeOpt_isSome _ _
  peginWitness := mergeOpt_isSome _ _
  issuanceInflationKeys := mergeOpt_isSome _ _
  issuanceInflationKeysComm := mergeOpt_isSome _ _
  issuanceBlindingNonce := mergeOpt_isSome _ _
  issuanceAssetEntropy := mergeOpt_isSome _ _
  inUtxoRangeproof := mergeOpt_isSome _ _
  inIssuanceBlindValueProof := mergeOpt_isSome _ _
  inIssuanceBlindInflationKeysProof := mergeOpt_isSome _ _
  amount := mergeOpt_isSome _ _
  blindValueProof := mergeOpt_isSome _ _
  asset := mergeOpt_isSome _ _
  blindAssetProof := mergeOpt_isSome _ _
  blindedIssuance := mergeOpt_isSome _ _
  proprietary := fun k h => (KV.mem_keys_extend _ _ (hy.2.2.2.2.2.2.2.2.2.1) k).2 h
  unknown := fun k h => (KV.mem_keys_extend _ _ (hy.2.2.2.2.2.2.2.2.2.2) k).2 h

theorem PsetInput.merge_sorted (x y : PsetInput) (hx : x.Sorted) : (x.merge y).Sorted :=
  ⟨KV.sorted_extend _ _ (hx.1), KV.sorted_extend _ _ (hx.2.1), KV.sorted_extend _ _ (hx.2.2.1), KV.sorted_extend _ _ (hx.2.2.2.1), KV.sorted_extend _ _ (hx.2.2.2.2.1), KV.sorted_extend _ _ (hx.2.2.2.2.2.1), KV.sorted_extend _ _ (hx.2.2.2.2.2.2.1), KV.sorted_extend _ _ (hx.2.2.2.2.2.2.2.1), KV.sorted_extend _ _ (hx.2.2.2.2.2.2.2.2.1), KV.sorted_extend _ _ (hx.2.2.2.2.2.2.2.2.2.1), KV.sorted_extend _ _ (hx.2.2.2.2.2.2.2.2.2.2)⟩

theorem PsetInput.merge_comm (x y : PsetInput) (hx : x.Sorted) (hy : y.Sorted) (hc : PsetInput.Compat x y) : x.merge y = y.merge x := by
  apply PsetInput.ext
  case nonWitnessUtxo => exact mergeOpt_comm hc.nonWitnessUtxo
  case witnessUtxo => exact mergeOpt_comm hc.witnessUtxo
  case partialSigs => exact KV.extend_comm (hx.1) (hy.1) hc.partialSigs
  case sighashType => exact mergeOpt_comm hc.sighashType
  case redeemScript => exact mergeOpt_comm hc.redeemScript
  case witnessScript => exact mergeOpt_comm hc.witnessScript
  case bip32Derivation => exact KV.extend_comm (hx.2.1) (hy.2.1) hc.bip32Derivation
  case finalScriptSig => exact mergeOpt_comm hc.finalScriptSig
  case finalScriptWitness => exact mergeOpt_comm hc.finalScriptWitness
  case ripemd160Preimages => exact KV.extend_comm (hx.2.2.1) (hy.2.2.1) hc.ripemd160Preimages
  case sha256Preimages => exact KV.extend_comm (hx.2.2.2.1) (hy.2.2.2.1) hc.sha256Preimages
  case hash160Preimages => exact KV.extend_comm (hx.2.2.2.2.1) (hy.2.2.2.2.1) hc.hash160Preimages
  case hash256Preimages => exact KV.extend_comm (hx.2.2.2.2.2.1) (hy.2.2.2.2.2.1) hc.hash256Preimages
  case previousTxid => exact hc.previousTxid
  case previousOutputIndex => exact hc.previousOutputIndex
  case sequence => exact mergeOpt_comm hc.sequence
  case requiredTimeLocktime => exact maxOpt_comm _ _
  case requiredHeightLocktime => exact maxOpt_comm _ _
  case tapKeySig => exact mergeOpt_comm hc.tapKeySig
  case tapScriptSigs => exact KV.extend_comm (hx.2.2.2.2.2.2.1) (hy.2.2.2.2.2.2.1) hc.tapScriptSigs
  case tapScripts => exact KV.extend_comm (hx.2.2.2.2.2.2.2.1) (hy.2.2.2.2.2.2.2.1) hc.tapScripts
  case tapKeyOrigins => exact KV.extend_comm (hx.2.2.2.2.2.2.2.2.1) (hy.2.2.2.2.2.2.2.2.1) hc.tapKeyOrigins
  case tapInternalKey => exact mergeOpt_comm hc.tapInternalKey
  case tapMerkleRoot => exact mergeOpt_comm hc.tapMerkleRoot
  case issuanceValueAmount => simp only [PsetInput.merge]; rw [hc.issuanceValueAmount]
  case issuanceValueComm => simp only [PsetInput.merge]; rw [hc.issuanceValueComm]
  case issuanceValueRangeproof => exact mergeOpt_comm hc.issuanceValueRangeproof
  case issuanceKeysRangeproof => exact mergeOpt_comm hc.issuanceKeysRangeproof
  case peginTx => exact mergeOpt_comm hc.peginTx
  case peginTxoutProof => exact mergeOpt_comm hc.peginTxoutProof
  case peginGenesisHash => exact mergeOpt_comm hc.peginGenesisHash
  case peginClaimScript => exact mergeOpt_comm hc.peginClaimScript
  case peginValue => exact mergeOpt_comm hc.peginValue
  case peginWitness => exact mergeOpt_comm hc.peginWitness
  case issuanceInflationKeys => simp only [PsetInput.merge]; rw [hc.issuanceInflationKeys]
  case issuanceInflationKeysComm => simp only [PsetInput.merge]; rw [hc.issuanceInflationKeysComm]
  case issuanceBlindingNonce => simp only [PsetInput.merge]; rw [hc.issuanceBlindingNonce]
  case issuanceAssetEntropy => simp only [PsetInput.merge]; rw [hc.issuanceAssetEntropy]
  case inUtxoRangeproof => exact mergeOpt_comm hc.inUtxoRangeproof
  case inIssuanceBlindValueProof => exact mergeOpt_comm hc.inIssuanceBlindValueProof
  case inIssuanceBlindInflationKeysProof => exact mergeOpt_comm hc.inIssuanceBlindInflationKeysProof
  case amount => exact mergeOpt_comm hc.amount
  case blindValueProof => exact mergeOpt_comm hc.blindValueProof
  case asset => exact mergeOpt_comm hc.asset
  case blindAssetProof => exact mergeOpt_comm hc.blindAssetProof
  case blindedIssuance => exact mergeOpt_comm hc.blindedIssuance
  case proprietary => exact KV.extend_comm (hx.2.2.2.2.2.2.2.2.2.1) (hy.2.2.2.2.2.2.2.2.2.1) hc.proprietary
  case unknown => exact KV.extend_comm (hx.2.2.2.2.2.2.2.2.2.2) (hy.2.2.2.2.2.2.2.2.2.2) hc.unknown

theorem PsetInput.merge_assoc (x y z : PsetInput) (hx : x.Sorted) (hy : y.Sorted) (hz : z.Sorted) : (x.merge y).merge z = x.merge (y.merge z) := by
  apply PsetInput.ext
  case nonWitnessUtxo => exact mergeOpt_assoc _ _ _
  case witnessUtxo => exact mergeOpt_assoc _ _ _
  case partialSigs => exact KV.extend_assoc (hx.1) (hy.1) (hz.1)
  case sighashType => exact mergeOpt_assoc _ _ _
  case redeemScript => exact mergeOpt_assoc _ _ _
  case witnessScript => exact mergeOpt_assoc _ _ _
  case bip32Derivation => exact KV.extend_assoc (hx.2.1) (hy.2.1) (hz.2.1)
  case finalScriptSig => exact mergeOpt_assoc _ _ _
  case finalScriptWitness => exact mergeOpt_assoc _ _ _
  case ripemd160Preimages => exact KV.extend_assoc (hx.2.2.1) (hy.2.2.1) (hz.2.2.1)
  case sha256Preimages => exact KV.extend_assoc (hx.2.2.2.1) (hy.2.2.2.1) (hz.2.2.2.1)
  case hash160Preimages => exact KV.extend_assoc (hx.2.2.2.2.1) (hy.2.2.2.2.1) (hz.2.2.2.2.1)
  case hash256Preimages => exact KV.extend_assoc (hx.2.2.2.2.2.1) (hy.2.2.2.2.2.1) (hz.2.2.2.2.2.1)
  case previousTxid => rfl
  case previousOutputIndex => rfl
  case sequence => exact mergeOpt_assoc _ _ _
  case requiredTimeLocktime => exact maxOpt_assoc _ _ _
  case requiredHeightLocktime => exact maxOpt_assoc _ _ _
  case tapKeySig => exact mergeOpt_assoc _ _ _
  case tapScriptSigs => exact KV.extend_assoc (hx.2.2.2.2.2.2.1) (hy.2.2.2.2.2.2.1) (hz.2.2.2.2.2.2.1)
  case tapScripts => exact KV.extend_assoc (hx.2.2.2.2.2.2.2.1) (hy.2.2.2.2.2.2.2.1) (hz.2.2.2.2.2.2.2.1)
  case tapKeyOrigins => exact KV.extend_assoc (hx.2.2.2.2.2.2.2.2.1) (hy.2.2.2.2.2.2.2.2.1) (hz.2.2.2.2.2.2.2.2.1)
  case tapInternalKey => exact mergeOpt_assoc _ _ _
  case tapMerkleRoot => exact mergeOpt_assoc _ _ _
  case issuanceValueAmount => exact mergeOpt_assoc _ _ _
  case issuanceValueComm => exact mergeOpt_assoc _ _ _
  case issuanceValueRangeproof => exact mergeOpt_assoc _ _ _
  case issuanceKeysRangeproof => exact mergeOpt_assoc _ _ _
  case peginTx => exact mergeOpt_assoc _ _ _
  case peginTxoutProof => exact mergeOpt_assoc _ _ _
  case peginGenesisHash => exact mergeOpt_assoc _ _ _
  case peginClaimScript => exact mergeOpt_assoc _ _ _
  case peginValue => exact mergeOpt_assoc _ _ _
  case peginWitness => exact mergeOpt_assoc _ _ _
  case issuanceInflationKeys => exact mergeOpt_assoc _ _ _
  case issuanceInflationKeysComm => exact mergeOpt_assoc _ _ _
  case issuanceBlindingNonce => exact mergeOpt_assoc _ _ _
  case issuanceAssetEntropy => exact mergeOpt_assoc _ _ _
  case inUtxoRangeproof => exact mergeOpt_assoc _ _ _
  case inIssuanceBlindValueProof => exact mergeOpt_assoc _ _ _
  case inIssuanceBlindInflationKeysProof => exact mergeOpt_assoc _ _ _
  case amount => exact mergeOpt_assoc _ _ _
  case blindValueProof => exact mergeOpt_assoc _ _ _
  case asset => exact mergeOpt_assoc _ _ _
  case blindAssetProof => exact mergeOpt_assoc _ _ _
  case blindedIssuance => exact mergeOpt_assoc _ _ _
  case proprietary => exact KV.extend_assoc (hx.2.2.2.2.2.2.2.2.2.1) (hy.2.2.2.2.2.2.2.2.2.1) (hz.2.2.2.2.2.2.2.2.2.1)
  case unknown => exact KV.extend_assoc (hx.2.2.2.2.2.2.2.2.2.2) (hy.2.2.2.2.2.2.2.2.2.2) (hz.2.2.2.2.2.2.2.2.2.2)

theorem PsetInput.merge_compat (x y z : PsetInput) (hy : y.Sorted) (h1 : PsetInput.Compat x z) (h2 : PsetInput.Compat y z) : PsetInput.Compat (x.merge y) z where
  nonWitnessUtxo := optAgree_mergeOpt h1.nonWitnessUtxo h2.nonWitnessUtxo
  witnessUtxo := optAgree_mergeOpt h1.witnessUtxo h2.witnessUtxo
  partialSigs := KV.agree_extend (hy.1) h1.partialSigs h2.partialSigs
  sighashType := optAgree_mergeOpt h1.sighashType h2.sighashType
  redeemScript := optAgree_mergeOpt h1.redeemScript h2.redeemScript
  witnessScript := optAgree_mergeOpt h1.witnessScript h2.witnessScript
  bip32Derivation := KV.agree_extend (hy.2.1) h1.bip32Derivation h2.bip32Derivation
  finalScriptSig := optAgree_mergeOpt h1.finalScriptSig h2.finalScriptSig
  finalScriptWitness := optAgree_mergeOpt h1.finalScriptWitness h2.finalScriptWitness
  ripemd160Preimages := KV.agree_extend (hy.2.2.1) h1.ripemd160Preimages h2.ripemd160Preimages
  sha256Preimages := KV.agree_extend (hy.2.2.2.1) h1.sha256Preimages h2.sha256Preimages
  hash160Preimages := KV.agree_extend (hy.2.2.2.2.1) h1.hash160Preimages h2.hash160Preimages
  hash256Preimages := KV.agree_extend (hy.2.2.2.2.2.1) h1.hash256Preimages h2.hash256Preimages
  previousTxid := h1.previousTxid
  previousOutputIndex := h1.previousOutputIndex
  sequence := optAgree_mergeOpt h1.sequence h2.sequence
  requiredTimeLocktime := by simp only [PsetInput.merge]; rw [h1.requiredTimeLocktime, h2.requiredTimeLocktime, maxOpt_self]
  requiredHeightLocktime := by simp only [PsetInput.merge]; rw [h1.requiredHeightLocktime, h2.requiredHeightLocktime, maxOpt_self]
  tapKeySig := optAgree_mergeOpt h1.tapKeySig h2.tapKeySig
  tapScriptSigs := KV.agree_extend (hy.2.2.2.2.2.2.1) h1.tapScriptSigs h2.tapScriptSigs
  tapScripts := KV.agree_extend (hy.2.2.2.2.2.2.2.1) h1.tapScripts h2.tapScripts
  tapKeyOrigins := KV.agree_extend (hy.2.2.2.2.2.2.2.2.1) h1.tapKeyOrigins h2.tapKeyOrigins
  tapInternalKey := optAgree_mergeOpt h1.tapInternalKey h2.tapInternalKey
  tapMerkleRoot := optAgree_mergeOpt h1.tapMerkleRoot h2.tapMerkleRoot
  issuanceValueAmount := by simp only [PsetInput.merge]; rw [h1.issuanceValueAmount, h2.issuanceValueAmount, mergeOpt_self]
  issuanceValueComm := by simp only [PsetInput.merge]; rw [h1.issuanceValueComm, h2.issuanceValueComm, mergeOpt_self]
  issuanceValueRangeproof := optAgree_mergeOpt h1.issuanceValueRangeproof h2.issuanceValueRangeproof
  issuanceKeysRangeproof := optAgree_mergeOpt h1.issuanceKeysRangeproof h2.issuanceKeysRangeproof
  peginTx := optAgree_mergeOpt h1.peginTx h2.peginTx
  peginTxoutProof := optAgree_mergeOpt h1.peginTxoutProof h2.peginTxoutProof
  peginGenesisHash := optAgree_mergeOpt h1.peginGenesisHash h2.peginGenesisHash
  peginClaimScript := optAgree_mergeOpt h1.peginClaimScript h2.peginClaimScript
  peginValue := optAgree_mergeOpt h1.peginValue h2.peginValue
  peginWitness := optAgree_mergeOpt h1.peginWitness h2.peginWitness
  issuanceInflationKeys := by simp only [PsetInput.merge]; rw [h1.issuanceInflationKeys, h2.issuanceInflationKeys, mergeOpt_self]
  issuanceInflationKeysComm := by simp only [PsetInput.merge]; rw [h1.issuanceInflationKeysComm, h2.issuanceInflationKeysComm, mergeOpt_self]
  issuanceBlindingNonce := by simp only [PsetInput.merge]; rw [h1.issuanceBlindingNonce, h2.issuanceBlindingNonce, mergeOpt_self]
  issuanceAssetEntropy := by simp only [PsetInput.merge]; rw [h1.issuanceAssetEntropy, h2.issuanceAssetEntropy, mergeOpt_self]
  inUtxoRangeproof := optAgree_mergeOpt h1.inUtxoRangeproof h2.inUtxoRangeproof
  inIssuanceBlindValueProof := optAgree_mergeOpt h1.inIssuanceBlindValueProof h2.inIssuanceBlindValueProof
  inIssuanceBlindInflationKeysProof := optAgree_mergeOpt h1.inIssuanceBlindInflationKeysProof h2.inIssuanceBlindInflationKeysProof
  amount := optAgree_mergeOpt h1.amount h2.amount
  blindValueProof := optAgree_mergeOpt h1.blindValueProof h2.blindValueProof
  asset := optAgree_mergeOpt h1.asset h2.asset
  blindAssetProof := optAgree_mergeOpt h1.blindAssetProof h2.blindAssetProof
  blindedIssuance := optAgree_mergeOpt h1.blindedIssuance h2.blindedIssuance
  proprietary := KV.agree_extend (hy.2.2.2.2.2.2.2.2.2.1) h1.proprietary h2.proprietary
  unknown := KV.agree_extend (hy.2.2.2.2.2.2.2.2.2.2) h1.unknown h2.unknown

theorem PsetOutput.merge_keeps (x y : PsetOutput) (hy : y.Sorted) : PsetOutput.Keeps x y (x.merge y) where
  redeemScript := mergeOpt_isSome _ _
  witnessScript := mergeOpt_isSome _ _
  bip32Derivation := fun k h => (KV.mem_keys_extend _ _ (hy.1) k).2 h
  tapInternalKey := mergeOpt_isSome _ _
  tapTree := mergeOpt_isSome _ _
  tapKeyOrigins := fun k h => (KV.mem_keys_extend _ _ (hy.2.1) k).2 h
  amount := mergeOpt_isSome _ _
  amountComm := mergeOpt_isSome _ _
  scriptPubkey := rfl
  asset := mergeOpt_isSome _ _
  assetComm := mergeOpt_isSome _ _
  valueRangeproof := mergeOpt_isSome _ _
  assetSurjectionProof := mergeOpt_isSome _ _
  blindingKey := mergeOpt_isSome _ _
  ecdhPubkey := mergeOpt_isSome _ _
  blinderIndex := mergeOpt_isSome _ _
  blindValueProof := mergeOpt_isSome _ _
  blindAssetProof := mergeOpt_isSome _ _
  proprietary := fun k h => (KV.mem_keys_extend _ _ (hy.2.2.1) k).2 h
  unknown := fun k h => (KV.mem_keys_extend _ _ (hy.2.2.2) k).2 h

theorem PsetOutput.merge_sorted (x y : PsetOutput) (hx : x.Sorted) : (x.merge y).Sorted :=
  ⟨KV.sorted_extend _ _ (hx.1), KV.sorted_extend _ _ (hx.2.1), KV.sorted_extend _ _ (hx.2.2.1), KV.sorted_extend _ _ (hx.2.2.2)⟩

theorem PsetOutput.merge_comm (x y : PsetOutput) (hx : x.Sorted) (hy : y.Sorted) (hc : PsetOutput.Compat x y) : x.merge y = y.merge x := by
  apply PsetOutput.ext
  case redeemScript => exact mergeOpt_comm hc.redeemScript
  case witnessScript => exact mergeOpt_comm hc.witnessScript
  case bip32Derivation => exact KV.extend_comm (hx.1) (hy.1) hc.bip32Derivation
  case tapInternalKey => exact mergeOpt_comm hc.tapInternalKey
  case tapTree => exact mergeOpt_comm hc.tapTree
  case tapKeyOrigins => exact KV.extend_comm (hx.2.1) (hy.2.1) hc.tapKeyOrigins
  case amount => simp only [PsetOutput.merge]; rw [hc.amount]
  case amountComm => simp only [PsetOutput.merge]; rw [hc.amountComm]
  case scriptPubkey => exact hc.scriptPubkey
  case asset => simp only [PsetOutput.merge]; rw [hc.asset]
  case assetComm => simp only [PsetOutput.merge]; rw [hc.assetComm]
  case valueRangeproof => exact mergeOpt_comm hc.valueRangeproof
  case assetSurjectionProof => exact mergeOpt_comm hc.assetSurjectionProof
  case blindingKey => exact mergeOpt_comm hc.blindingKey
  case ecdhPubkey => simp only [PsetOutput.merge]; rw [hc.ecdhPubkey]
  case blinderIndex => exact mergeOpt_comm hc.blinderIndex
  case blindValueProof => exact mergeOpt_comm hc.blindValueProof
  case blindAssetProof => exact mergeOpt_comm hc.blindAssetProof
  case proprietary => exact KV.extend_comm (hx.2.2.1) (hy.2.2.1) hc.proprietary
  case unknown => exact KV.extend_comm (hx.2.2.2) (hy.2.2.2) hc.unknown

theorem PsetOutput.merge_assoc (x y z : PsetOutput) (hx : x.Sorted) (hy : y.Sorted) (hz : z.Sorted) : (x.merge y).merge z = x.merge (y.merge z) := by
  apply PsetOutput.ext
  case redeemScript => exact mergeOpt_assoc _ _ _
  case witnessScript => exact mergeOpt_assoc _ _ _
  case bip32Derivation => exact KV.extend_assoc (hx.1) (hy.1) (hz.1)
  case tapInternalKey => exact mergeOpt_assoc _ _ _
  case tapTree => exact mergeOpt_assoc _ _ _
  case tapKeyOrigins => exact KV.extend_assoc (hx.2.1) (hy.2.1) (hz.2.1)
  case amount => exact mergeOpt_assoc _ _ _
  case amountComm => exact mergeOpt_assoc _ _ _
  case scriptPubkey => rfl
  case asset => exact mergeOpt_assoc _ _ _
  case assetComm => exact mergeOpt_assoc _ _ _
  case valueRangeproof => exact mergeOpt_assoc _ _ _
  case assetSurjectionProof => exact mergeOpt_assoc _ _ _
  case blindingKey => exact mergeOpt_assoc _ _ _
  case ecdhPubkey => exact mergeOpt_assoc _ _ _
  case blinderIndex => exact mergeOpt_assoc _ _ _
  case blindValueProof => exact mergeOpt_assoc _ _ _
  case blindAssetProof => exact mergeOpt_assoc _ _ _
  case proprietary => exact KV.extend_assoc (hx.2.2.1) (hy.2.2.1) (hz.2.2.1)
  case unknown => exact KV.extend_assoc (hx.2.2.2) (hy.2.2.2) (hz.2.2.2)

theorem PsetOutput.merge_compat (x y z : PsetOutput) (hy : y.Sorted) (h1 : PsetOutput.Compat x z) (h2 : PsetOutput.Compat y z) : PsetOutput.Compat (x.merge y) z where
  redeemScript := optAgree_mergeOpt h1.redeemScript h2.redeemScript
  witnessScript := optAgree_mergeOpt h1.witnessScript h2.witnessScript
  bip32Derivation := KV.agree_extend (hy.1) h1.bip32Derivation h2.bip32Derivation
  tapInternalKey := optAgree_mergeOpt h1.tapInternalKey h2.tapInternalKey
  tapTree := optAgree_mergeOpt h1.tapTree h2.tapTree
  tapKeyOrigins := KV.agree_extend (hy.2.1) h1.tapKeyOrigins h2.tapKeyOrigins
  amount := by simp only [PsetOutput.merge]; rw [h1.amount, h2.amount, mergeOpt_self]
  amountComm := by simp only [PsetOutput.merge]; rw [h1.amountComm, h2.amountComm, mergeOpt_self]
  scriptPubkey := h1.scriptPubkey
  asset := by simp only [PsetOutput.merge]; rw [h1.asset, h2.asset, mergeOpt_self]
  assetComm := by simp only [PsetOutput.merge]; rw [h1.assetComm, h2.assetComm, mergeOpt_self]
  valueRangeproof := optAgree_mergeOpt h1.valueRangeproof h2.valueRangeproof
  assetSurjectionProof := optAgree_mergeOpt h1.assetSurjectionProof h2.assetSurjectionProof
  blindingKey := optAgree_mergeOpt h1.blindingKey h2.blindingKey
  ecdhPubkey := by simp only [PsetOutput.merge]; rw [h1.ecdhPubkey, h2.ecdhPubkey, mergeOpt_self]
  blinderIndex := optAgree_mergeOpt h1.blinderIndex h2.blinderIndex
  blindValueProof := optAgree_mergeOpt h1.blindValueProof h2.blindValueProof
  blindAssetProof := optAgree_mergeOpt h1.blindAssetProof h2.blindAssetProof
  proprietary := KV.agree_extend (hy.2.2.1) h1.proprietary h2.proprietary
  unknown := KV.agree_extend (hy.2.2.2) h1.unknown h2.unknown

/-! ### xpub key sources -/

/-- `s` is a proper suffix of `l` -/
def ProperSuffix (s l : List Nat) : Prop := ∃ pre, pre ≠ [] ∧ l = pre ++ s

instance (s l : List Nat) : Decidable (ProperSuffix s l) :=
  decidable_of_iff (s.length < l.length ∧ l.drop (l.length - s.length) = s) (by
    constructor
    · rintro ⟨hlt, hd⟩
      refine ⟨l.take (l.length - s.length), ?_, ?_⟩
      · intro h
        have := congrArg List.length h
        simp only [List.length_take, List.length_nil] at this
        omega
      · conv => lhs; rw [← List.take_append_drop (l.length - s.length) l]
        rw [hd]
    · rintro ⟨pre, hne, rfl⟩
      have hp : 0 < pre.length := List.length_pos_iff.mpr hne
      refine ⟨by simp only [List.length_append]; omega, ?_⟩
      have : (pre ++ s).length - s.length = pre.length := by simp only [List.length_append]; omega
      rw [this, List.drop_left])

theorem properSuffix_iff (s l : List Nat) :
    ProperSuffix s l ↔ (s.length < l.length ∧ l.drop (l.length - s.length) = s) := by
  constructor
  · rintro ⟨pre, hne, rfl⟩
    have hp : 0 < pre.length := List.length_pos_iff.mpr hne
    refine ⟨by simp only [List.length_append]; omega, ?_⟩
    have : (pre ++ s).length - s.length = pre.length := by simp only [List.length_append]; omega
    rw [this, List.drop_left]
  · rintro ⟨hlt, hd⟩
    refine ⟨l.take (l.length - s.length), ?_, ?_⟩
    · intro h
      have := congrArg List.length h
      simp only [List.length_take, List.length_nil] at this
      omega
    · conv => lhs; rw [← List.take_append_drop (l.length - s.length) l]
      rw [hd]

/-- the guarded index arithmetic never panics and computes "proper suffix" -/
theorem properSuffix_eq (s l : List Nat) : properSuffix s l = .ok (decide (ProperSuffix s l)) := by
  unfold properSuffix subUsize sliceFrom
  by_cases hlt : s.length < l.length
  · have h1 : ¬ l.length < s.length := by omega
    have h2 : ¬ l.length - s.length > l.length := by omega
    simp only [hlt, if_true, h1, if_false, h2, Res.ok.injEq]
    by_cases hd : s = l.drop (l.length - s.length)
    · have : ProperSuffix s l := (properSuffix_iff s l).2 ⟨hlt, hd.symm⟩
      rw [decide_eq_true this]
      exact decide_eq_true hd
    · have : ¬ ProperSuffix s l := fun h => hd ((properSuffix_iff s l).1 h).2.symm
      rw [decide_eq_false this]
      exact decide_eq_false hd
  · have : ¬ ProperSuffix s l := fun h => hlt ((properSuffix_iff s l).1 h).1
    simp only [hlt, if_false, this, decide_false]

/-- **decision table of the xpub key-source reconciliation** (`mine` is the entry of `self`,
    `theirs` the entry of `other`): equal ⇒ keep; other's path a proper suffix of ours ⇒ keep ours
    (the longer); our path a proper suffix of theirs ⇒ take theirs with its fingerprint; anything
    else (equal path with different fingerprint, equal length but different, unrelated) ⇒
    `MergeConflict`.  In particular it never panics. -/
theorem xpubReconcile_table (mine theirs : KeySource) :
    xpubReconcile mine theirs =
      if theirs = mine then .ok mine
      else if ProperSuffix theirs.path mine.path then .ok mine
      else if ProperSuffix mine.path theirs.path then .ok theirs
      else .err "MergeConflict" := by
  unfold xpubReconcile
  rw [properSuffix_eq, properSuffix_eq]
  by_cases he : theirs = mine
  · subst he; simp
  · have : ¬ (theirs.path = mine.path ∧ theirs.fp = mine.fp) := by
      rintro ⟨h1, h2⟩
      apply he
      cases theirs; cases mine
      simp only at h1 h2
      subst h1; subst h2; rfl
    simp only [this, if_false, he]
    by_cases h1 : ProperSuffix theirs.path mine.path
    · simp only [h1, decide_true, if_true]
    · simp only [h1, decide_false, if_false]
      by_cases h2 : ProperSuffix mine.path theirs.path
      · simp only [h2, decide_true, if_true]
      · simp only [h2, decide_false, if_false]

theorem xpubReconcile_no_panic (mine theirs : KeySource) (s : String) : xpubReconcile mine theirs ≠ .panic s := by
  rw [xpubReconcile_table]
  split
  · simp
  · split
    · simp
    · split <;> simp

theorem properSuffix_length {s l : List Nat} (h : ProperSuffix s l) : s.length < l.length :=
  ((properSuffix_iff s l).1 h).1

/-- the rows of the table in the vocabulary of the property -/
theorem xpubReconcile_cases (mine theirs : KeySource) :
    (theirs = mine → xpubReconcile mine theirs = .ok mine) ∧
    (ProperSuffix theirs.path mine.path → xpubReconcile mine theirs = .ok mine) ∧
    (ProperSuffix mine.path theirs.path → xpubReconcile mine theirs = .ok theirs) ∧
    (theirs.path = mine.path → theirs.fp ≠ mine.fp → xpubReconcile mine theirs = .err "MergeConflict") ∧
    (theirs.path.length = mine.path.length → theirs.path ≠ mine.path → xpubReconcile mine theirs = .err "MergeConflict") ∧
    (theirs ≠ mine → ¬ ProperSuffix theirs.path mine.path → ¬ ProperSuffix mine.path theirs.path →
      xpubReconcile mine theirs = .err "MergeConflict") := by
  rw [xpubReconcile_table]
  refine ⟨?_, ?_, ?_, ?_, ?_, ?_⟩
  · intro h; simp only [h, if_true]
  · intro h
    by_cases he : theirs = mine
    · simp only [he, if_true]
    · simp only [he, if_false, h, if_true]
  · intro h
    have hlen := properSuffix_length h
    have he : theirs ≠ mine := by intro he; rw [he] at hlen; omega
    have h1 : ¬ ProperSuffix theirs.path mine.path := fun h1 => by have := properSuffix_length h1; omega
    simp only [he, if_false, h1, h, if_true]
  · intro hp hf
    have he : theirs ≠ mine := fun he => hf (by rw [he])
    have h1 : ¬ ProperSuffix theirs.path mine.path := fun h1 => by have := properSuffix_length h1; rw [hp] at this; omega
    have h2 : ¬ ProperSuffix mine.path theirs.path := fun h2 => by have := properSuffix_length h2; rw [hp] at this; omega
    simp only [he, if_false, h1, h2]
  · intro hl hp
    have he : theirs ≠ mine := fun he => hp (by rw [he])
    have h1 : ¬ ProperSuffix theirs.path mine.path := fun h1 => by have := properSuffix_length h1; omega
    have h2 : ¬ ProperSuffix mine.path theirs.path := fun h2 => by have := properSuffix_length h2; omega
    simp only [he, if_false, h1, h2]
  · intro he h1 h2
    simp only [he, if_false, h1, h2]

theorem mergeXpub_no_panic (self other : List (Bytes × KeySource)) (s : String) : mergeXpub self other ≠ .panic s := by
  induction other generalizing self with
  | nil => simp [mergeXpub]
  | cons kv r ih =>
    obtain ⟨k, theirs⟩ := kv
    simp only [mergeXpub]
    cases hl : KV.lookup k self with
    | none => exact ih _
    | some mine =>
      simp only
      cases hr : xpubReconcile mine theirs with
      | ok ks => exact ih _
      | err e => simp
      | panic s' => exact absurd hr (xpubReconcile_no_panic _ _ _)

/-- with agreeing key sources the xpub loop is a plain `extend` -/
theorem mergeXpub_of_agree (self other : List (Bytes × KeySource)) (ho : KV.Sorted other)
    (h : KV.Agree self other) : mergeXpub self other = .ok (KV.extend self other) := by
  induction other generalizing self with
  | nil => rfl
  | cons kv r ih =>
    obtain ⟨k, theirs⟩ := kv
    have hr : KV.Sorted r := ((KV.sorted_cons _ _ _).1 ho).2
    have hk : KV.lookup k r = none := KV.lookup_tail_none ho
    have hstep : ∀ v, KV.Agree (KV.insert k v self) r := by
      intro v k' u w h1 h2
      rw [KV.lookup_insert] at h1
      by_cases hkk : k' = k
      · subst hkk; rw [hk] at h2; cases h2
      · simp only [hkk, if_false] at h1
        apply h k' u w h1
        simp only [KV.lookup, hkk, if_false]
        exact h2
    simp only [mergeXpub, KV.extend_cons]
    cases hl : KV.lookup k self with
    | none => exact ih _ hr (hstep theirs)
    | some mine =>
      have hm : mine = theirs := h k mine theirs hl (by simp [KV.lookup])
      subst hm
      have : xpubReconcile mine mine = .ok mine := (xpubReconcile_cases mine mine).1 rfl
      simp only [this]
      exact ih _ hr (hstep mine)

/-! ### `Global::merge` -/

namespace PsetGlobal

/-- global fields agree wherever both define a value; the transaction data coincide -/
structure Compat (x y : PsetGlobal) : Prop where
  txVersion : x.txVersion = y.txVersion
  fallbackLocktime : x.fallbackLocktime = y.fallbackLocktime
  inputCount : x.inputCount = y.inputCount
  outputCount : x.outputCount = y.outputCount
  xpub : KV.Agree x.xpub y.xpub
  elementsTxModifiableFlag : OptAgree x.elementsTxModifiableFlag y.elementsTxModifiableFlag
  proprietary : KV.Agree x.proprietary y.proprietary
  unknown : KV.Agree x.unknown y.unknown

/-- nothing present in `x` or `y` is absent from `z` -/
structure Keeps (x y z : PsetGlobal) : Prop where
  txVersion : z.txVersion = x.txVersion
  fallbackLocktime : (x.fallbackLocktime.isSome ∨ y.fallbackLocktime.isSome) → z.fallbackLocktime.isSome
  inputCount : z.inputCount = x.inputCount
  outputCount : z.outputCount = x.outputCount
  txModifiable : z.txModifiable = some ((x.txModifiable.getD 0) ||| (y.txModifiable.getD 0))
  version : x.version ≤ z.version ∧ y.version ≤ z.version ∧ (z.version = x.version ∨ z.version = y.version)
  xpub : ∀ k, (k ∈ KV.keys x.xpub ∨ k ∈ KV.keys y.xpub) → k ∈ KV.keys z.xpub
  scalars : ∀ s, (s ∈ x.scalars ∨ s ∈ y.scalars) ↔ s ∈ z.scalars
  elementsTxModifiableFlag : (x.elementsTxModifiableFlag.isSome ∨ y.elementsTxModifiableFlag.isSome) → z.elementsTxModifiableFlag.isSome
  proprietary : ∀ k, (k ∈ KV.keys x.proprietary ∨ k ∈ KV.keys y.proprietary) → k ∈ KV.keys z.proprietary
  unknown : ∀ k, (k ∈ KV.keys x.unknown ∨ k ∈ KV.keys y.unknown) → k ∈ KV.keys z.unknown

theorem merge_no_panic (x y : PsetGlobal) (s : String) : x.merge y ≠ .panic s := by
  simp only [merge]
  cases h : mergeXpub x.xpub y.xpub with
  | ok xp => simp
  | err e => simp
  | panic s' => exact absurd h (mergeXpub_no_panic _ _ _)

/-- keys of the xpub map are kept whenever the loop succeeds -/
theorem mergeXpub_keys (self other res : List (Bytes × KeySource)) (h : mergeXpub self other = .ok res) (k : Bytes) :
    (k ∈ KV.keys self ∨ k ∈ KV.keys other) → k ∈ KV.keys res := by
  induction other generalizing self with
  | nil =>
    simp only [mergeXpub, Res.ok.injEq] at h
    subst h
    intro hk
    rcases hk with hk | hk
    · exact hk
    · simp [KV.keys] at hk
  | cons kv r ih =>
    obtain ⟨k0, theirs⟩ := kv
    simp only [mergeXpub] at h
    have key : ∀ v, mergeXpub (KV.insert k0 v self) r = .ok res →
        (k ∈ KV.keys self ∨ k ∈ KV.keys ((k0, theirs) :: r)) → k ∈ KV.keys res := by
      intro v hv hk
      apply ih _ hv
      rcases hk with hk | hk
      · left; exact (KV.mem_keys_insert _ _ _ _).2 (Or.inr hk)
      · simp only [KV.keys, List.map_cons, List.mem_cons] at hk
        rcases hk with hk | hk
        · left; exact (KV.mem_keys_insert _ _ _ _).2 (Or.inl hk)
        · right; exact hk
    cases hl : KV.lookup k0 self with
    | none => rw [hl] at h; exact key _ h
    | some mine =>
      rw [hl] at h
      simp only at h
      cases hr : xpubReconcile mine theirs with
      | ok ks => rw [hr] at h; exact key _ h
      | err e => rw [hr] at h; cases h
      | panic s => rw [hr] at h; cases h

theorem mergeXpub_sorted (self other res : List (Bytes × KeySource)) (hs : KV.Sorted self)
    (h : mergeXpub self other = .ok res) : KV.Sorted res := by
  induction other generalizing self with
  | nil => simp only [mergeXpub, Res.ok.injEq] at h; subst h; exact hs
  | cons kv r ih =>
    obtain ⟨k0, theirs⟩ := kv
    simp only [mergeXpub] at h
    cases hl : KV.lookup k0 self with
    | none => rw [hl] at h; exact ih _ (KV.sorted_insert _ _ _ hs) h
    | some mine =>
      rw [hl] at h
      simp only at h
      cases hr : xpubReconcile mine theirs with
      | ok ks => rw [hr] at h; exact ih _ (KV.sorted_insert _ _ _ hs) h
      | err e => rw [hr] at h; cases h
      | panic s => rw [hr] at h; cases h

theorem merge_keeps (x y z : PsetGlobal) (hy : y.Sorted) (h : x.merge y = .ok z) : Keeps x y z := by
  simp only [merge] at h
  cases hx : mergeXpub x.xpub y.xpub with
  | err e => rw [hx] at h; cases h
  | panic s => rw [hx] at h; cases h
  | ok xp =>
    rw [hx] at h
    simp only [Res.ok.injEq] at h
    subst h
    refine ⟨rfl, mergeOpt_isSome _ _, rfl, rfl, rfl, ?_, ?_, ?_, mergeOpt_isSome _ _, ?_, ?_⟩
    · show x.version ≤ (if x.version ≤ y.version then y.version else x.version) ∧
        y.version ≤ (if x.version ≤ y.version then y.version else x.version) ∧
        ((if x.version ≤ y.version then y.version else x.version) = x.version ∨
         (if x.version ≤ y.version then y.version else x.version) = y.version)
      split <;> omega
    · exact fun k => mergeXpub_keys _ _ _ hx k
    · intro s
      simp only [mem_sortDedup, List.mem_append]
    · exact fun k hk => (KV.mem_keys_extend _ _ hy.2.1 k).2 hk
    · exact fun k hk => (KV.mem_keys_extend _ _ hy.2.2 k).2 hk

theorem merge_sorted (x y z : PsetGlobal) (hx : x.Sorted) (h : x.merge y = .ok z) : z.Sorted := by
  simp only [merge] at h
  cases hxp : mergeXpub x.xpub y.xpub with
  | err e => rw [hxp] at h; cases h
  | panic s => rw [hxp] at h; cases h
  | ok xp =>
    rw [hxp] at h
    simp only [Res.ok.injEq] at h
    subst h
    exact ⟨mergeXpub_sorted _ _ _ hx.1 hxp, KV.sorted_extend _ _ hx.2.1, KV.sorted_extend _ _ hx.2.2⟩

/-- with agreeing xpub sources `Global::merge` succeeds, with this value -/
theorem merge_of_agree (x y : PsetGlobal) (hy : KV.Sorted y.xpub) (h : KV.Agree x.xpub y.xpub) :
    x.merge y = .ok { x with
      txModifiable := some ((x.txModifiable.getD 0) ||| (y.txModifiable.getD 0))
      fallbackLocktime := mergeOpt x.fallbackLocktime y.fallbackLocktime
      version := if x.version ≤ y.version then y.version else x.version
      xpub := KV.extend x.xpub y.xpub
      scalars := sortDedup (x.scalars ++ y.scalars)
      elementsTxModifiableFlag := mergeOpt x.elementsTxModifiableFlag y.elementsTxModifiableFlag
      proprietary := KV.extend x.proprietary y.proprietary
      unknown := KV.extend x.unknown y.unknown } := by
  simp only [merge, mergeXpub_of_agree _ _ hy h]

theorem max_if_comm (a b : Nat) : (if a ≤ b then b else a) = (if b ≤ a then a else b) := by
  by_cases h1 : a ≤ b <;> by_cases h2 : b ≤ a <;> simp only [h1, h2, if_true, if_false] <;> omega

theorem max_if_assoc (a b c : Nat) :
    (if (if a ≤ b then b else a) ≤ c then c else (if a ≤ b then b else a)) =
    (if a ≤ (if b ≤ c then c else b) then (if b ≤ c then c else b) else a) := by
  by_cases h1 : a ≤ b <;> by_cases h2 : b ≤ c <;> by_cases h3 : a ≤ c <;>
    simp only [h1, h2, h3, if_true, if_false] <;> (try omega) <;>
    (first | (have : ¬ b ≤ c := h2; split <;> omega) | (split <;> omega) | omega)

theorem merge_comm (x y : PsetGlobal) (hx : x.Sorted) (hy : y.Sorted) (hc : Compat x y) : x.merge y = y.merge x := by
  rw [merge_of_agree x y hy.1 hc.xpub, merge_of_agree y x hx.1 (KV.agree_symm hc.xpub)]
  congr 1
  apply PsetGlobal.ext <;> simp only
  · exact hc.txVersion
  · rw [hc.fallbackLocktime]
  · exact hc.inputCount
  · exact hc.outputCount
  · rw [Nat.or_comm]
  · exact max_if_comm _ _
  · exact KV.extend_comm hx.1 hy.1 hc.xpub
  · exact sortDedup_comm _ _
  · exact mergeOpt_comm hc.elementsTxModifiableFlag
  · exact KV.extend_comm hx.2.1 hy.2.1 hc.proprietary
  · exact KV.extend_comm hx.2.2 hy.2.2 hc.unknown

/-- associativity, for operands whose xpub key sources agree pairwise -/
theorem merge_assoc (x y z xy yz : PsetGlobal) (hx : x.Sorted) (hy : y.Sorted) (hz : z.Sorted)
    (hxy : KV.Agree x.xpub y.xpub) (hyz : KV.Agree y.xpub z.xpub) (hxz : KV.Agree x.xpub z.xpub)
    (h1 : x.merge y = .ok xy) (h2 : y.merge z = .ok yz) : xy.merge z = x.merge yz := by
  rw [merge_of_agree x y hy.1 hxy] at h1
  rw [merge_of_agree y z hz.1 hyz] at h2
  simp only [Res.ok.injEq] at h1 h2
  subst h1; subst h2
  have a1 : KV.Agree (KV.extend x.xpub y.xpub) z.xpub := KV.agree_extend hy.1 hxz hyz
  have a2 : KV.Agree x.xpub (KV.extend y.xpub z.xpub) :=
    KV.agree_symm (KV.agree_extend hz.1 (KV.agree_symm hxy) (KV.agree_symm hxz))
  rw [merge_of_agree _ z hz.1 a1, merge_of_agree x _ (KV.sorted_extend _ _ hy.1) a2]
  congr 1
  apply PsetGlobal.ext <;> simp only [Option.getD_some]
  · exact mergeOpt_assoc _ _ _
  · rw [Nat.or_assoc]
  · exact max_if_assoc _ _ _
  · exact KV.extend_assoc hx.1 hy.1 hz.1
  · exact sortDedup_assoc _ _ _
  · exact mergeOpt_assoc _ _ _
  · exact KV.extend_assoc hx.2.1 hy.2.1 hz.2.1
  · exact KV.extend_assoc hx.2.2 hy.2.2 hz.2.2

end PsetGlobal
end EV
