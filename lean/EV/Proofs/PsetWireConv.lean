/-
  Conversion laws between record fields and slots (EV.Model.PsetWire `Slot.ofOpt` … and the
  generated `toSlots` / `ofSlots` of EV.Model.PsetTables): both directions, per kind of field.
  Used by the generated record proofs (EV.Proofs.PsetWireRec).
-/
import EV.Model.PsetSer
import EV.Proofs.PsetWireCodec
namespace EV.Proofs.PsetWireConv
open EV EV.Codec EV.PsetWire EV.Proofs.CodecPrim EV.Proofs.PsetWireMap EV.Proofs.PsetWireCodec

/-- `TxInWitness.wfStack`: what `Vec<Vec<u8>>` can decode -/
abbrev WfStack (l : List Bytes) : Prop := l.length * 24 ≤ maxVecSize ∧ ∀ b ∈ l, b.length ≤ maxVecSize

/-- a `KeySource` as the Rust types hold it: 4-byte fingerprint, `u32` child numbers -/
def WfKeySource (k : KeySource) : Prop := k.fp.length = 4 ∧ ∀ p ∈ k.path, p < 256 ^ 4

def OptShape (s : Slot) : Prop := s.length ≤ 1 ∧ ∀ kv ∈ s, kv.1 = []

/-! ### record → slot → record -/

theorem toOpt_ofOpt (o : Option Bytes) : Slot.toOpt (Slot.ofOpt o) = o := by cases o <;> rfl

theorem toOptN_ofOptN (w : Nat) (o : Option Nat) (h : ∀ n, o = some n → n < 256 ^ w) :
    Slot.toOptN (Slot.ofOptN w o) = o := by
  cases o with
  | none => rfl
  | some n =>
    simp only [Slot.ofOptN, Slot.toOptN, Option.map_some, toOpt_ofOpt, leNat_leBytes w n (h n rfl)]

theorem stackOf_enc (l : List Bytes) (h : WfStack l) : Slot.stackOf (encBytesVecVec l) = l := by
  have := bytesVecVec_lawful.complete l [] h
  rw [List.append_nil] at this
  simp only [Slot.stackOf, this]

theorem toOptL_ofOptL (o : Option (List Bytes)) (h : ∀ l, o = some l → WfStack l) :
    Slot.toOptL (Slot.ofOptL o) = o := by
  cases o with
  | none => rfl
  | some l => simp only [Slot.ofOptL, Slot.toOptL, Option.map_some, toOpt_ofOpt, stackOf_enc l (h l rfl)]

theorem mand_b (b : Bytes) : (Slot.toOpt (Slot.ofOpt (some b))).getD [] = b := rfl

theorem mand_n (w n : Nat) (h : n < 256 ^ w) : (Slot.toOptN (Slot.ofOptN w (some n))).getD 0 = n := by
  simp only [Slot.ofOptN, Slot.toOptN, Option.map_some, toOpt_ofOpt, Option.getD_some, leNat_leBytes w n h]

theorem countOf_enc (n : Nat) (h : n < 2 ^ 64) : countOf ((Slot.toOpt (Slot.ofOpt (some (encVarint n)))).getD []) = n := by
  have := varint_lawful.complete n [] h
  rw [List.append_nil] at this
  simp only [mand_b, countOf, this]

theorem toOptN_ofOptN_some (w n : Nat) (h : n < 256 ^ w) : Slot.toOptN (Slot.ofOptN w (some n)) = some n :=
  toOptN_ofOptN w (some n) (by intro m e; cases e; exact h)

theorem countOf_encVarint (n : Nat) (h : n < 2 ^ 64) : countOf (encVarint n) = n := by
  have := varint_lawful.complete n [] h
  rw [List.append_nil] at this
  simp only [countOf, this]

theorem toKeys_ofKeys (l : List Bytes) : Slot.toKeys (Slot.ofKeys l) = l := by
  simp only [Slot.toKeys, Slot.ofKeys, List.map_map]
  induction l with
  | nil => rfl
  | cons a r ih => simp only [List.map_cons, Function.comp, ih]

theorem chunk4_flat (l : List Nat) (h : ∀ p ∈ l, p < 256 ^ 4) :
    (chunk4 l.length (l.flatMap (leBytes 4))).map leNat = l := by
  induction l with
  | nil => rfl
  | cons p r ih =>
    have hp := h p (List.mem_cons_self ..)
    have hr : ∀ q ∈ r, q < 256 ^ 4 := fun q hq => h q (List.mem_cons_of_mem _ hq)
    have hl : (leBytes 4 p).length = 4 := leBytes_length 4 p
    simp only [List.length_cons, List.flatMap_cons, chunk4, List.map_cons]
    rw [List.take_left' hl, List.drop_left' hl, leNat_leBytes 4 p hp, ih hr]

theorem flatMap_leBytes_length (l : List Nat) : (l.flatMap (leBytes 4)).length = 4 * l.length := by
  induction l with
  | nil => rfl
  | cons p r ih => simp only [List.flatMap_cons, List.length_append, leBytes_length, ih, List.length_cons]; omega

theorem keySourceOf_enc (k : KeySource) (h : WfKeySource k) : keySourceOf (encKeySource k) = k := by
  obtain ⟨fp, path⟩ := k
  obtain ⟨h1, h2⟩ := h
  simp only at h1 h2
  simp only [keySourceOf, encKeySource, List.take_left' h1, List.drop_left' h1, List.length_append, h1,
    flatMap_leBytes_length, Nat.add_sub_cancel_left, Nat.mul_div_cancel_left _ (by decide : 0 < 4), chunk4_flat path h2]

theorem xpub_there (x : List (Bytes × KeySource)) (h : ∀ kv ∈ x, WfKeySource kv.2) :
    (x.map (fun kv => (kv.1, encKeySource kv.2))).map (fun kv => (kv.1, keySourceOf kv.2)) = x := by
  induction x with
  | nil => rfl
  | cons a r ih =>
    obtain ⟨k, ks⟩ := a
    simp only [List.map_cons, keySourceOf_enc ks (h (k, ks) (List.mem_cons_self ..)),
      ih (fun kv hkv => h kv (List.mem_cons_of_mem _ hkv))]

/-! ### slot → record → slot -/

theorem ofOpt_toOpt (s : Slot) (h : OptShape s) : Slot.ofOpt (Slot.toOpt s) = s := by
  obtain ⟨h1, h2⟩ := h
  cases s with
  | nil => rfl
  | cons kv r =>
    cases r with
    | nil =>
      obtain ⟨k, v⟩ := kv
      have : k = [] := h2 (k, v) (List.mem_cons_self ..)
      subst this
      rfl
    | cons a b => simp only [List.length_cons] at h1; omega

theorem ofOptN_toOptN (w : Nat) (s : Slot) (h : OptShape s) (hv : ∀ kv ∈ s, kv.2.length = w) :
    Slot.ofOptN w (Slot.toOptN s) = s ∧ ∀ n, Slot.toOptN s = some n → n < 256 ^ w := by
  obtain ⟨h1, h2⟩ := h
  cases s with
  | nil => exact ⟨rfl, by intro n hn; cases hn⟩
  | cons kv r =>
    cases r with
    | nil =>
      obtain ⟨k, v⟩ := kv
      have : k = [] := h2 (k, v) (List.mem_cons_self ..)
      subst this
      have hl : v.length = w := hv ([], v) (List.mem_cons_self ..)
      refine ⟨?_, ?_⟩
      · simp only [Slot.toOptN, Slot.toOpt, Option.map_some, Slot.ofOptN, Slot.ofOpt]
        rw [← hl, leBytes_leNat]
      · intro n hn
        simp only [Slot.toOptN, Slot.toOpt, Option.map_some, Option.some.injEq] at hn
        subst hn
        rw [← hl]
        exact leNat_lt v
    | cons a b => simp only [List.length_cons] at h1; omega

theorem stackOk_sound (b : Bytes) (h : stackOk b = true) : encBytesVecVec (Slot.stackOf b) = b ∧ WfStack (Slot.stackOf b) := by
  unfold stackOk at h
  cases hd : bytesVecVec b with
  | ok q =>
    obtain ⟨l, r⟩ := q
    rw [hd] at h
    cases r with
    | nil =>
      obtain ⟨e, hw⟩ := bytesVecVec_lawful.sound _ _ _ hd
      rw [List.append_nil] at e
      simp only [Slot.stackOf, hd]
      exact ⟨e.symm, hw⟩
    | cons a c => simp at h
  | err e => rw [hd] at h; simp at h
  | panic m => rw [hd] at h; simp at h

theorem ofOptL_toOptL (s : Slot) (h : OptShape s) (hv : ∀ kv ∈ s, stackOk kv.2 = true) :
    Slot.ofOptL (Slot.toOptL s) = s ∧ ∀ l, Slot.toOptL s = some l → WfStack l := by
  obtain ⟨h1, h2⟩ := h
  cases s with
  | nil => exact ⟨rfl, by intro n hn; cases hn⟩
  | cons kv r =>
    cases r with
    | nil =>
      obtain ⟨k, v⟩ := kv
      have : k = [] := h2 (k, v) (List.mem_cons_self ..)
      subst this
      obtain ⟨e, hw⟩ := stackOk_sound v (hv ([], v) (List.mem_cons_self ..))
      refine ⟨?_, ?_⟩
      · simp only [Slot.toOptL, Slot.toOpt, Option.map_some, Slot.ofOptL, Slot.ofOpt, e]
      · intro l hl
        simp only [Slot.toOptL, Slot.toOpt, Option.map_some, Option.some.injEq] at hl
        subst hl
        exact hw
    | cons a b => simp only [List.length_cons] at h1; omega

theorem ofOpt_mand (s : Slot) (h : OptShape s) (hne : s ≠ []) : Slot.ofOpt (some ((Slot.toOpt s).getD [])) = s := by
  have := ofOpt_toOpt s h
  cases s with
  | nil => exact absurd rfl hne
  | cons kv r => simpa [Slot.toOpt] using this

theorem ofOptN_mand (w : Nat) (s : Slot) (h : OptShape s) (hv : ∀ kv ∈ s, kv.2.length = w) (hne : s ≠ []) :
    Slot.ofOptN w (some ((Slot.toOptN s).getD 0)) = s ∧ (Slot.toOptN s).getD 0 < 256 ^ w := by
  obtain ⟨e, hb⟩ := ofOptN_toOptN w s h hv
  cases s with
  | nil => exact absurd rfl hne
  | cons kv r =>
    have hs : Slot.toOptN (kv :: r) = some (leNat kv.2) := rfl
    rw [hs] at e
    rw [hs]
    exact ⟨e, hb _ hs⟩

theorem count_sound (v : Bytes) (h : countNorm [] v = some v) : encVarint (countOf v) = v ∧ countOf v < 2 ^ 64 := by
  unfold countNorm at h
  cases hv : varint v with
  | ok q =>
    obtain ⟨n, r⟩ := q
    rw [hv] at h
    simp only [Option.some.injEq] at h
    obtain ⟨_, hn⟩ := varint_lawful.sound _ _ _ hv
    simp only [countOf, hv]
    exact ⟨h, hn⟩
  | err e => rw [hv] at h; cases h
  | panic m => rw [hv] at h; cases h

theorem ofOpt_count (s : Slot) (h : OptShape s) (hv : ∀ kv ∈ s, countNorm kv.1 kv.2 = some kv.2) (hne : s ≠ []) :
    Slot.ofOpt (some (encVarint (countOf ((Slot.toOpt s).getD [])))) = s ∧ countOf ((Slot.toOpt s).getD []) < 2 ^ 64 := by
  obtain ⟨h1, h2⟩ := h
  cases s with
  | nil => exact absurd rfl hne
  | cons kv r =>
    cases r with
    | nil =>
      obtain ⟨k, v⟩ := kv
      have : k = [] := h2 (k, v) (List.mem_cons_self ..)
      subst this
      obtain ⟨e, hb⟩ := count_sound v (hv ([], v) (List.mem_cons_self ..))
      simp only [Slot.toOpt, Option.getD_some, Slot.ofOpt, e]
      exact ⟨trivial, hb⟩
    | cons a b => simp only [List.length_cons] at h1; omega

theorem chunk4_back : ∀ (n : Nat) (b : Bytes), b.length = 4 * n →
    (chunk4 n b).flatMap (fun c => leBytes 4 (leNat c)) = b ∧ ∀ c ∈ chunk4 n b, leNat c < 256 ^ 4 := by
  intro n
  induction n with
  | zero =>
    intro b hb
    have : b = [] := List.eq_nil_of_length_eq_zero (by omega)
    subst this
    exact ⟨rfl, by intro c hc; cases hc⟩
  | succ m ih =>
    intro b hb
    have hl : (b.take 4).length = 4 := by simp only [List.length_take]; omega
    obtain ⟨e, hbnd⟩ := ih (b.drop 4) (by simp only [List.length_drop]; omega)
    refine ⟨?_, ?_⟩
    · simp only [chunk4, List.flatMap_cons, e]
      have := leBytes_leNat (b.take 4)
      rw [hl] at this
      rw [this, List.take_append_drop]
    · intro c hc
      simp only [chunk4, List.mem_cons] at hc
      rcases hc with rfl | hc
      · have := leNat_lt (b.take 4)
        rw [hl] at this
        exact this
      · exact hbnd c hc

theorem keySource_sound (v : Bytes) (h : keySourceOk v = true) :
    encKeySource (keySourceOf v) = v ∧ WfKeySource (keySourceOf v) := by
  simp only [keySourceOk, Bool.and_eq_true, decide_eq_true_eq, beq_iff_eq] at h
  obtain ⟨h4, hm⟩ := h
  have hlen : (v.drop 4).length = 4 * ((v.length - 4) / 4) := by
    simp only [List.length_drop]; omega
  obtain ⟨e, hb⟩ := chunk4_back _ _ hlen
  refine ⟨?_, ?_, ?_⟩
  · simp only [encKeySource, keySourceOf, List.flatMap_map, e, List.take_append_drop]
  · simp only [keySourceOf, List.length_take]; omega
  · intro p hp
    simp only [keySourceOf, List.mem_map] at hp
    obtain ⟨c, hc, rfl⟩ := hp
    exact hb c hc

theorem xpub_back (s : Slot) (hv : ∀ kv ∈ s, keySourceOk kv.2 = true) :
    (s.map (fun kv => (kv.1, keySourceOf kv.2))).map (fun kv => (kv.1, encKeySource kv.2)) = s ∧
      ∀ kv ∈ s.map (fun kv => (kv.1, keySourceOf kv.2)), WfKeySource kv.2 := by
  induction s with
  | nil => exact ⟨rfl, by intro kv h; cases h⟩
  | cons a r ih =>
    obtain ⟨k, v⟩ := a
    obtain ⟨e, hb⟩ := ih (fun kv hkv => hv kv (List.mem_cons_of_mem _ hkv))
    obtain ⟨e1, h1⟩ := keySource_sound v (hv (k, v) (List.mem_cons_self ..))
    refine ⟨?_, ?_⟩
    · simp only [List.map_cons, e1, e]
    · intro kv hkv
      simp only [List.map_cons, List.mem_cons] at hkv
      rcases hkv with rfl | hkv
      · exact h1
      · exact hb kv hkv

theorem keys_back (s : Slot) (hv : ∀ kv ∈ s, kv.2 = []) : Slot.ofKeys (Slot.toKeys s) = s := by
  induction s with
  | nil => rfl
  | cons a r ih =>
    obtain ⟨k, v⟩ := a
    have : v = [] := hv (k, v) (List.mem_cons_self ..)
    subst this
    have := ih (fun kv hkv => hv kv (List.mem_cons_of_mem _ hkv))
    simp only [Slot.ofKeys, Slot.toKeys, List.map_cons, List.map_map] at this ⊢
    rw [this]

/-! ### what `WfSlot` says about a slot of a given field shape -/

theorem opt_shape {T : List Field} {n : String} {t : Tag} {c : VCodec} {s : Slot} (h : WfSlot T (fOpt n t c) s) :
    OptShape s := h.shape
theorem opt_val {T : List Field} {n : String} {t : Tag} {c : VCodec} {s : Slot} (h : WfSlot T (fOpt n t c) s) :
    ∀ kv ∈ s, c kv.1 kv.2 = some kv.2 := fun kv hkv => (h.entries kv hkv).2.2.2
theorem optLast_shape {T : List Field} {n : String} {t : Tag} {c : VCodec} {s : Slot} (h : WfSlot T (fOptLast n t c) s) :
    OptShape s := h.shape
theorem optLast_val {T : List Field} {n : String} {t : Tag} {c : VCodec} {s : Slot} (h : WfSlot T (fOptLast n t c) s) :
    ∀ kv ∈ s, c kv.1 kv.2 = some kv.2 := fun kv hkv => (h.entries kv hkv).2.2.2
theorem map_val {T : List Field} {n : String} {t : Tag} {vk : Bytes → Bool} {c : VCodec} {lt : Bytes → Bytes → Bool} {s : Slot}
    (h : WfSlot T (fMap n t vk c lt) s) : ∀ kv ∈ s, c kv.1 kv.2 = some kv.2 := fun kv hkv => (h.entries kv hkv).2.2.2
theorem keyList_val {T : List Field} {n : String} {t : Tag} {vk : Bytes → Bool} {s : Slot}
    (h : WfSlot T (fKeyList n t vk) s) : ∀ kv ∈ s, kv.2 = [] := by
  intro kv hkv
  have := (h.entries kv hkv).2.2.2
  have h2 := accept_some (k := kv.1) (this : cEmpty kv.1 kv.2 = some kv.2)
  simpa using h2.1

theorem cLen_len {w : Nat} {k v x : Bytes} (h : cLen w k v = some x) : v.length = w := by
  have := (accept_some h).1
  simpa using this
theorem cHeight_len {k v x : Bytes} (h : cHeight k v = some x) : v.length = 4 := by
  have := (accept_some h).1
  simp only [Bool.and_eq_true, beq_iff_eq] at this
  exact this.1
theorem cTime_len {k v x : Bytes} (h : cTime k v = some x) : v.length = 4 := by
  have := (accept_some h).1
  simp only [Bool.and_eq_true, beq_iff_eq] at this
  exact this.1
theorem stack_ok {k v x : Bytes} (h : accept stackOk k v = some x) : stackOk v = true := (accept_some h).1
theorem ks_ok {k v x : Bytes} (h : accept keySourceOk k v = some x) : keySourceOk v = true := (accept_some h).1

/-- the slot at a position of a literal state is not missing -/
theorem not_missing_of {st : List Slot} {i : Nat} {s : Slot} (h : slotMissing st i = false) (hs : st[i]? = some s) : s ≠ [] := by
  intro e
  subst e
  unfold slotMissing at h
  rw [List.getD_eq_getElem?_getD, hs] at h
  simp at h

end EV.Proofs.PsetWireConv
