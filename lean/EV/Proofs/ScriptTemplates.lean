/-
  Template predicates as byte patterns (structural, for all byte strings), `fromScript` against the
  patterns, `scriptPubkey` of standard payloads.
-/
import EV.Model.ScriptSpec
namespace EV.Proofs.ScriptTemplates
open EV EV.Script EV.Gen

/-! ## list helpers -/

theorem getD_append_length {α} (h : List α) (x : α) (t : List α) (d : α) : (h ++ x :: t).getD h.length d = x := by
  induction h with
  | nil => rfl
  | cons a h ih => simp

theorem getD_append_length_succ {α} (h : List α) (x y : α) (t : List α) (d : α) :
    (h ++ x :: y :: t).getD (h.length + 1) d = y := by
  induction h with
  | nil => rfl
  | cons a h ih => simp

theorem drop_one_left {α} (n : Nat) : ∀ (l : List α) (d : α), l.length = n + 1 → l.drop n = [l.getD n d] := by
  induction n with
  | zero =>
    intro l d h
    match l, h with
    | [x], _ => rfl
  | succ n ih =>
    intro l d h
    match l, h with
    | x :: l', h => simpa using ih l' d (by simpa using h)

theorem drop_two_left {α} (n : Nat) : ∀ (l : List α) (d : α), l.length = n + 2 →
    l.drop n = [l.getD n d, l.getD (n + 1) d] := by
  induction n with
  | zero =>
    intro l d h
    match l, h with
    | [x, y], _ => rfl
  | succ n ih =>
    intro l d h
    match l, h with
    | x :: l', h => simpa using ih l' d (by simpa using h)

theorem u8_ofNat_length_toNat (b : UInt8) (l : Bytes) (h : l.length = b.toNat) : UInt8.ofNat l.length = b := by
  rw [h, UInt8.ofNat_toNat]

/-! ## predicates ↔ patterns -/

theorem isP2sh_iff (s : Bytes) : isP2sh s = true ↔ ∃ h, h.length = 20 ∧ s = p2shScript h := by
  constructor
  · intro hp
    simp only [isP2sh, Bool.and_eq_true, beq_iff_eq, at'] at hp
    obtain ⟨⟨⟨hl, h0⟩, h1⟩, h22⟩ := hp
    match s, hl, h0, h1, h22 with
    | a :: b :: rest, hl, h0, h1, h22 =>
      simp only [List.getD_cons_zero, List.getD_cons_succ] at h0 h1 h22
      have hr : rest.length = 20 + 1 := by simpa using hl
      have hd := drop_one_left 20 rest 0 hr
      refine ⟨rest.take 20, by simp [hr], ?_⟩
      subst h0 h1
      simp only [p2shScript, List.cons_append, List.nil_append, List.cons.injEq, true_and]
      rw [← h22, ← hd, List.take_append_drop]
  · rintro ⟨h, hl, rfl⟩
    have e : (opHash160 :: opPushbytes20 :: (h ++ [opEqual])).getD 22 0 = opEqual := by
      have := getD_append_length h opEqual [] (0 : UInt8)
      rw [hl] at this
      simpa using this
    simp only [isP2sh, p2shScript, at', Bool.and_eq_true, beq_iff_eq]
    simp only [List.cons_append, List.nil_append, List.getD_cons_zero, List.getD_cons_succ]
    refine ⟨⟨⟨by simp [hl], trivial⟩, trivial⟩, ?_⟩
    simpa using e

theorem isP2pkh_iff (s : Bytes) : isP2pkh s = true ↔ ∃ h, h.length = 20 ∧ s = p2pkhScript h := by
  constructor
  · intro hp
    simp only [isP2pkh, Bool.and_eq_true, beq_iff_eq, at'] at hp
    obtain ⟨⟨⟨⟨⟨hl, h0⟩, h1⟩, h2⟩, h23⟩, h24⟩ := hp
    match s, hl, h0, h1, h2, h23, h24 with
    | a :: b :: c :: rest, hl, h0, h1, h2, h23, h24 =>
      simp only [List.getD_cons_zero, List.getD_cons_succ] at h0 h1 h2 h23 h24
      have hr : rest.length = 20 + 2 := by simpa using hl
      have hd := drop_two_left 20 rest 0 hr
      refine ⟨rest.take 20, by simp [hr], ?_⟩
      subst h0 h1 h2
      simp only [p2pkhScript, List.cons_append, List.nil_append, List.cons.injEq, true_and]
      rw [← h23, ← h24, ← hd, List.take_append_drop]
  · rintro ⟨h, hl, rfl⟩
    have e1 := getD_append_length h opEqualverify [opChecksig] (0 : UInt8)
    have e2 := getD_append_length_succ h opEqualverify opChecksig [] (0 : UInt8)
    rw [hl] at e1 e2
    simp only [isP2pkh, p2pkhScript, at', Bool.and_eq_true, beq_iff_eq]
    simp only [List.cons_append, List.nil_append, List.getD_cons_zero, List.getD_cons_succ]
    exact ⟨⟨⟨⟨⟨by simp [hl], trivial⟩, trivial⟩, trivial⟩, e1⟩, e2⟩

/-- generic shape: a script whose second byte is the length of everything after it -/
theorem witness_shape (s : Bytes) (h1 : 1 < s.length) (h2 : s.length = (at' s 1).toNat + 2) :
    ∃ prog, prog.length = (at' s 1).toNat ∧ s = witnessScript (at' s 0) prog := by
  match s, h1, h2 with
  | a :: b :: rest, _, h2 =>
    simp only [at', List.getD_cons_zero, List.getD_cons_succ, List.length_cons] at h2 ⊢
    have hr : rest.length = b.toNat := by omega
    exact ⟨rest, hr, by simp [witnessScript, u8_ofNat_length_toNat b rest hr]⟩

theorem witnessScript_facts (v : UInt8) (prog : Bytes) (h : prog.length < 256) :
    (witnessScript v prog).length = prog.length + 2 ∧ at' (witnessScript v prog) 0 = v ∧
    (at' (witnessScript v prog) 1).toNat = prog.length ∧ (witnessScript v prog).drop 2 = prog := by
  refine ⟨by simp [witnessScript], by simp [witnessScript, at'], ?_, by simp [witnessScript]⟩
  simp only [witnessScript, at', List.cons_append, List.nil_append, List.getD_cons_succ, List.getD_cons_zero]
  rw [UInt8.toNat_ofNat']; omega

theorem isWitnessProgram_iff (s : Bytes) : isWitnessProgram s = true ↔
    ∃ v prog, (v = 0 ∨ (opPushnum1 ≤ v ∧ v ≤ opPushnum16)) ∧ 2 ≤ prog.length ∧ prog.length ≤ 40 ∧
      s = witnessScript v prog := by
  have e2 : opPushbytes2.toNat = 2 := by decide
  have e40 : opPushbytes40.toNat = 40 := by decide
  constructor
  · intro hp
    simp only [isWitnessProgram, Bool.and_eq_true, Bool.or_eq_true, beq_iff_eq, decide_eq_true_eq, ge_iff_le] at hp
    obtain ⟨⟨⟨⟨⟨hl4, hl42⟩, hv⟩, hb2⟩, hb40⟩, hlen⟩ := hp
    have hb2' := UInt8.le_iff_toNat_le.mp hb2
    have hb40' := UInt8.le_iff_toNat_le.mp hb40
    obtain ⟨prog, hpl, hs⟩ := witness_shape s (by omega) (by omega)
    exact ⟨at' s 0, prog, hv, by omega, by omega, hs⟩
  · rintro ⟨v, prog, hv, hl2, hl40, rfl⟩
    obtain ⟨f1, f2, f3, _⟩ := witnessScript_facts v prog (by omega)
    simp only [isWitnessProgram, Bool.and_eq_true, Bool.or_eq_true, beq_iff_eq, decide_eq_true_eq, ge_iff_le]
    refine ⟨⟨⟨⟨⟨by omega, by omega⟩, by rw [f2]; exact hv⟩, ?_⟩, ?_⟩, by omega⟩
    · apply UInt8.le_iff_toNat_le.mpr; omega
    · apply UInt8.le_iff_toNat_le.mpr; omega

theorem isV1plusP2witprog_iff (s : Bytes) : isV1plusP2witprog s = true ↔
    ∃ v prog, (opPushnum1 ≤ v ∧ v ≤ opPushnum16) ∧ 2 ≤ prog.length ∧ prog.length ≤ 40 ∧
      s = witnessScript v prog := by
  have e2 : opPushbytes2.toNat = 2 := by decide
  have e40 : opPushbytes40.toNat = 40 := by decide
  constructor
  · intro hp
    simp only [isV1plusP2witprog, Bool.and_eq_true, beq_iff_eq, decide_eq_true_eq, ge_iff_le, gt_iff_lt] at hp
    obtain ⟨⟨⟨⟨⟨hl1, hlen⟩, hv1⟩, hv16⟩, hb2⟩, hb40⟩ := hp
    have hb2' := UInt8.le_iff_toNat_le.mp hb2
    have hb40' := UInt8.le_iff_toNat_le.mp hb40
    obtain ⟨prog, hpl, hs⟩ := witness_shape s hl1 hlen
    exact ⟨at' s 0, prog, ⟨hv1, hv16⟩, by omega, by omega, hs⟩
  · rintro ⟨v, prog, hv, hl2, hl40, rfl⟩
    obtain ⟨f1, f2, f3, _⟩ := witnessScript_facts v prog (by omega)
    simp only [isV1plusP2witprog, Bool.and_eq_true, beq_iff_eq, decide_eq_true_eq, ge_iff_le, gt_iff_lt]
    refine ⟨⟨⟨⟨⟨by omega, by omega⟩, by rw [f2]; exact hv.1⟩, by rw [f2]; exact hv.2⟩, ?_⟩, ?_⟩
    · apply UInt8.le_iff_toNat_le.mpr; omega
    · apply UInt8.le_iff_toNat_le.mpr; omega

/-- the three fixed-size witness templates share one proof -/
theorem fixed_witness_iff (s : Bytes) (n : Nat) (v lenOp : UInt8) (hn : lenOp.toNat = n) :
    (s.length == n + 2 && at' s 0 == v && at' s 1 == lenOp) = true ↔
      ∃ prog, prog.length = n ∧ s = witnessScript v prog := by
  have hlt : n < 256 := by have := UInt8.toNat_lt lenOp; omega
  constructor
  · intro hp
    simp only [Bool.and_eq_true, beq_iff_eq] at hp
    obtain ⟨⟨hl, h0⟩, h1⟩ := hp
    obtain ⟨prog, hpl, hs⟩ := witness_shape s (by omega) (by rw [h1, hn]; exact hl)
    rw [h0] at hs; rw [h1, hn] at hpl
    exact ⟨prog, hpl, hs⟩
  · rintro ⟨prog, hl, rfl⟩
    obtain ⟨f1, f2, f3, _⟩ := witnessScript_facts v prog (by omega)
    simp only [Bool.and_eq_true, beq_iff_eq]
    refine ⟨⟨by omega, f2⟩, ?_⟩
    apply UInt8.toNat_inj.mp; omega

theorem isV0P2wpkh_iff (s : Bytes) : isV0P2wpkh s = true ↔
    ∃ prog, prog.length = 20 ∧ s = witnessScript opPushbytes0 prog :=
  fixed_witness_iff s 20 opPushbytes0 opPushbytes20 (by decide)

theorem isV0P2wsh_iff (s : Bytes) : isV0P2wsh s = true ↔
    ∃ prog, prog.length = 32 ∧ s = witnessScript opPushbytes0 prog :=
  fixed_witness_iff s 32 opPushbytes0 opPushbytes32 (by decide)

theorem isV1P2tr_iff (s : Bytes) : isV1P2tr s = true ↔
    ∃ prog, prog.length = 32 ∧ s = witnessScript opPushnum1 prog :=
  fixed_witness_iff s 32 opPushnum1 opPushbytes32 (by decide)

theorem isOpReturn_iff (s : Bytes) : isOpReturn s = true ↔ ∃ rest, s = opReturn :: rest := by
  cases s with
  | nil => simp [isOpReturn]
  | cons a rest => simp [isOpReturn, at']

theorem isProvablyUnspendable_iff (s : Bytes) : isProvablyUnspendable s = true ↔
    (∃ rest, s = opReturn :: rest) ∨ maxScriptSize < s.length ∨ s = [] := by
  cases s with
  | nil => simp [isProvablyUnspendable]
  | cons a rest => simp [isProvablyUnspendable, at']

theorem isP2pk_iff (s : Bytes) : isP2pk s = true ↔
    ∃ key, (key.length = 65 ∨ key.length = 33) ∧ s = [UInt8.ofNat key.length] ++ key ++ [opChecksig] := by
  have one (n : Nat) (lenOp : UInt8) (hn : lenOp.toNat = n) :
      (s.length == n + 2 && at' s 0 == lenOp && at' s (n + 1) == opChecksig) = true ↔
        ∃ key, key.length = n ∧ s = [UInt8.ofNat key.length] ++ key ++ [opChecksig] := by
    constructor
    · intro hp
      simp only [Bool.and_eq_true, beq_iff_eq, at'] at hp
      obtain ⟨⟨hl, h0⟩, hlast⟩ := hp
      match s, hl, h0, hlast with
      | a :: rest, hl, h0, hlast =>
        simp only [List.getD_cons_zero, List.getD_cons_succ] at h0 hlast
        have hr : rest.length = n + 1 := by simpa using hl
        have hd := drop_one_left n rest 0 hr
        refine ⟨rest.take n, by simp [hr], ?_⟩
        have hk : (rest.take n).length = n := by simp [hr]
        rw [hk, ← hn, UInt8.ofNat_toNat, hn]
        subst h0
        simp only [List.cons_append, List.nil_append, List.cons.injEq, true_and]
        rw [← hlast, ← hd, List.take_append_drop]
    · rintro ⟨key, hl, rfl⟩
      have e := getD_append_length key opChecksig [] (0 : UInt8)
      rw [hl] at e
      simp only [Bool.and_eq_true, beq_iff_eq, at']
      simp only [List.cons_append, List.nil_append, List.getD_cons_zero, List.getD_cons_succ]
      refine ⟨⟨by simp [hl], ?_⟩, e⟩
      rw [hl, ← hn, UInt8.ofNat_toNat]
  have h65 := one 65 opPushbytes65 (by decide)
  have h33 := one 33 opPushbytes33 (by decide)
  unfold isP2pk
  rw [Bool.or_eq_true, h65, h33]
  constructor
  · rintro (⟨k, hk, e⟩ | ⟨k, hk, e⟩)
    · exact ⟨k, Or.inl hk, e⟩
    · exact ⟨k, Or.inr hk, e⟩
  · rintro ⟨k, hk | hk, e⟩
    · exact Or.inl ⟨k, hk, e⟩
    · exact Or.inr ⟨k, hk, e⟩

end EV.Proofs.ScriptTemplates
