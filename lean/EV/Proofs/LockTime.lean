/-
  EV.Proofs.LockTime — lemmas about EV.Model.LockTime (`LockTime`, `Height`, `Time` of src/locktime.rs,
  `Sequence` of src/transaction.rs) and the bridge from the BIP370 lock-time selection
  (`EV.locktimeOf`, EV.Proofs.PsetLocktime / PsetLockKind) to `LockTime::is_satisfied_by`.
  Statements with docstrings are in EV/Props/C08.lean, section "lock times and sequence numbers".
-/
import EV.Model.LockTime
import EV.Proofs.PsetLockKind
import EV.Proofs.Text
namespace EV.Proofs.LockTime
open EV EV.Lock EV.Proofs.PsetLocktime EV.Proofs.PsetLockKind

/-! ### the regenerated constants have the consensus values -/

theorem threshold_eq : Gen.lockTimeThreshold = 500000000 := by decide
theorem disableMask_eq : Sequence.lockTimeDisableFlagMask = 2^31 := by decide
theorem typeMask_eq : Sequence.lockTypeMask = 2^22 := by decide
theorem floorGran_eq : Gen.sequenceFloorGranularity = 512 := by decide
theorem ceilGran_eq : Gen.sequenceCeilGranularity = 512 := by decide
theorem seqMax_eq : Sequence.max = ⟨0xffffffff⟩ := by decide
theorem seqMinNoRbf_eq : Sequence.minNoRbf = ⟨0xfffffffe⟩ := by decide
theorem zero_eq : LockTime.zero = .blocks ⟨0⟩ := by decide

/-! ### LockTime -/

theorem fromConsensus_eq (n : Nat) :
    LockTime.fromConsensus n = .ok (if n < Gen.lockTimeThreshold then .blocks ⟨n⟩ else .seconds ⟨n⟩) := by
  by_cases h : n < Gen.lockTimeThreshold
  · simp [LockTime.fromConsensus, Lock.isBlockHeight, Height.fromConsensus, h]
  · have h' : Gen.lockTimeThreshold ≤ n := Nat.le_of_not_lt h
    simp [LockTime.fromConsensus, Lock.isBlockHeight, Lock.isBlockTime, Time.fromConsensus, h, h']

theorem fromConsensus_blocks (n : Nat) (h : n < Gen.lockTimeThreshold) :
    LockTime.fromConsensus n = .ok (.blocks ⟨n⟩) := by
  rw [fromConsensus_eq, if_pos h]

theorem fromConsensus_seconds (n : Nat) (h : Gen.lockTimeThreshold ≤ n) :
    LockTime.fromConsensus n = .ok (.seconds ⟨n⟩) := by
  rw [fromConsensus_eq, if_neg (Nat.not_lt.mpr h)]

theorem fromConsensus_ok (n : Nat) (l : LockTime) (h : LockTime.fromConsensus n = .ok l) :
    l = if n < Gen.lockTimeThreshold then .blocks ⟨n⟩ else .seconds ⟨n⟩ := by
  rw [fromConsensus_eq] at h
  cases h; rfl

theorem toConsensus_fromConsensus (n : Nat) (l : LockTime) (h : LockTime.fromConsensus n = .ok l) :
    l.toConsensusU32 = n := by
  rw [fromConsensus_ok n l h]
  split <;> rfl

theorem fromConsensus_toConsensus (l : LockTime) (hv : l.Valid) :
    LockTime.fromConsensus l.toConsensusU32 = .ok l := by
  cases l with
  | blocks h => exact fromConsensus_blocks h.n hv
  | seconds t => exact fromConsensus_seconds t.n hv.1

theorem fromConsensus_valid (n : Nat) (h32 : n < 2^32) (l : LockTime) (h : LockTime.fromConsensus n = .ok l) :
    l.Valid := by
  rw [fromConsensus_ok n l h]
  split
  · rename_i hlt; exact hlt
  · rename_i hge; exact ⟨Nat.le_of_not_lt hge, h32⟩

theorem valid_lt_u32 (l : LockTime) (hv : l.Valid) : l.toConsensusU32 < 2^32 := by
  cases l with
  | blocks h =>
    have : h.n < Gen.lockTimeThreshold := hv
    have := threshold_eq
    show h.n < 2^32
    omega
  | seconds t => exact hv.2

theorem fromHeight_eq (n : Nat) :
    LockTime.fromHeight n = if n < Gen.lockTimeThreshold then .ok (.blocks ⟨n⟩) else .err "Conversion(invalid_height)" := by
  by_cases h : n < Gen.lockTimeThreshold <;>
    simp [LockTime.fromHeight, Height.fromConsensus, Lock.isBlockHeight, h]

theorem fromTime_eq (n : Nat) :
    LockTime.fromTime n = if Gen.lockTimeThreshold ≤ n then .ok (.seconds ⟨n⟩) else .err "Conversion(invalid_time)" := by
  by_cases h : Gen.lockTimeThreshold ≤ n <;>
    simp [LockTime.fromTime, Time.fromConsensus, Lock.isBlockTime, h]

theorem cmpNat_le (a b : Nat) : (cmpNat a b = .lt ∨ cmpNat a b = .eq) ↔ a ≤ b := by
  unfold cmpNat
  by_cases h1 : a < b
  · simp [h1]; omega
  · by_cases h2 : a = b
    · simp [h2]
    · simp [h1, h2]; omega

theorem cmpNat_eq (a b : Nat) : cmpNat a b = .eq ↔ a = b := by
  unfold cmpNat
  by_cases h1 : a < b
  · simp [h1]; omega
  · by_cases h2 : a = b <;> simp [h1, h2]

theorem cmpNat_lt (a b : Nat) : cmpNat a b = .lt ↔ a < b := by
  unfold cmpNat
  by_cases h1 : a < b
  · simp [h1]
  · by_cases h2 : a = b <;> simp [h1, h2]

theorem cmpNat_gt (a b : Nat) : cmpNat a b = .gt ↔ b < a := by
  unfold cmpNat
  by_cases h1 : a < b
  · simp [h1]; omega
  · by_cases h2 : a = b
    · simp [h2]
    · simp [h1, h2]; omega

/-- `a <= b` of `PartialOrd for LockTime`: same unit and the values in order -/
theorem le_iff (a b : LockTime) :
    a.le b = true ↔ a.isSameUnit b = true ∧ a.toConsensusU32 ≤ b.toConsensusU32 := by
  cases a <;> cases b <;>
    simp [LockTime.le, LockTime.partialCmp, LockTime.isSameUnit, LockTime.toConsensusU32, Height.cmp, Time.cmp,
      Height.toConsensusU32, Time.toConsensusU32, cmpNat_le]

theorem partialCmp_none_iff (a b : LockTime) : a.partialCmp b = none ↔ a.isSameUnit b = false := by
  cases a <;> cases b <;> simp [LockTime.partialCmp, LockTime.isSameUnit]

theorem isSatisfiedBy_eq (l : LockTime) (H : Height) (T : Time) :
    l.isSatisfiedBy H T = match l with
      | .blocks n => decide (n.n ≤ H.n)
      | .seconds n => decide (n.n ≤ T.n) := by
  cases l <;> rfl

/-- a smaller lock time of the same unit is satisfied whenever the larger one is -/
theorem isSatisfiedBy_of_le (q l : LockTime) (H : Height) (T : Time) (hle : q.le l = true)
    (hs : l.isSatisfiedBy H T = true) : q.isSatisfiedBy H T = true := by
  obtain ⟨hu, hv⟩ := (le_iff q l).mp hle
  cases q <;> cases l <;>
    simp_all [LockTime.isSameUnit, LockTime.isSatisfiedBy, LockTime.toConsensusU32, Height.le, Time.le,
      Height.toConsensusU32, Time.toConsensusU32]
  all_goals omega

/-! ### text -/

theorem lockTime_fromStr_display (l : LockTime) (hv : l.Valid) : LockTime.fromStr (l.display false) = .ok l := by
  have h32 := valid_lt_u32 l hv
  have hd : l.display false = Text.showNat l.toConsensusU32 := by cases l <;> rfl
  rw [hd]
  simp only [LockTime.fromStr, Text.parseU32_showNat _ h32]
  exact fromConsensus_toConsensus l hv

theorem height_fromStr_display (h : Height) (hv : h.Valid) : Height.fromStr h.display = .ok h := by
  have h32 : h.n < 2^32 := by
    have : h.n < Gen.lockTimeThreshold := hv
    have := threshold_eq
    omega
  have hv' : h.n < Gen.lockTimeThreshold := hv
  simp [Height.fromStr, Height.display, Text.parseU32_showNat _ h32, Height.fromConsensus, Lock.isBlockHeight, hv']

theorem time_fromStr_display (t : Time) (hv : t.Valid) : Time.fromStr t.display = .ok t := by
  have hv' : Gen.lockTimeThreshold ≤ t.n := hv.1
  simp [Time.fromStr, Time.display, Text.parseU32_showNat _ hv.2, Time.fromConsensus, Lock.isBlockTime, hv']

theorem sequence_fromStr_display (s : Sequence) (hv : s.Valid) : Sequence.fromStr s.display = .ok s := by
  simp [Sequence.fromStr, Sequence.display, Text.parseU32_showNat _ hv]

/-! ### bits -/

theorem and_two_pow_eq_zero (n i : Nat) : n &&& 2^i = 0 ↔ n.testBit i = false := by
  constructor
  · intro h
    have h2 : (n &&& 2^i).testBit i = false := by rw [h]; exact Nat.zero_testBit i
    rw [Nat.testBit_and, Nat.testBit_two_pow] at h2
    simpa using h2
  · intro h
    apply Nat.eq_of_testBit_eq
    intro j
    rw [Nat.testBit_and, Nat.testBit_two_pow, Nat.zero_testBit]
    by_cases hij : i = j
    · subst hij; simp [h]
    · simp [hij]

theorem and_two_pow_pos (n i : Nat) : n &&& 2^i > 0 ↔ n.testBit i = true := by
  have := and_two_pow_eq_zero n i
  constructor
  · intro h
    cases hb : n.testBit i with
    | true => rfl
    | false => have := this.mpr hb; omega
  · intro h
    cases hz : n &&& 2^i with
    | zero => have := this.mp hz; rw [h] at this; cases this
    | succ k => omega

theorem isRelativeLockTime_iff (s : Sequence) : s.isRelativeLockTime = true ↔ s.n.testBit 31 = false := by
  simp only [Sequence.isRelativeLockTime, disableMask_eq, beq_iff_eq]
  exact and_two_pow_eq_zero s.n 31

theorem isHeightLocked_iff (s : Sequence) :
    s.isHeightLocked = true ↔ s.n.testBit 31 = false ∧ s.n.testBit 22 = false := by
  simp only [Sequence.isHeightLocked, Bool.and_eq_true, isRelativeLockTime_iff, typeMask_eq, beq_iff_eq]
  rw [and_two_pow_eq_zero]

theorem isTimeLocked_iff (s : Sequence) :
    s.isTimeLocked = true ↔ s.n.testBit 31 = false ∧ s.n.testBit 22 = true := by
  simp only [Sequence.isTimeLocked, Bool.and_eq_true, isRelativeLockTime_iff, typeMask_eq, decide_eq_true_eq]
  rw [and_two_pow_pos]

theorem from512_n (i : Nat) (hi : i < 2^16) : (Sequence.from512SecondIntervals i).n = i + 2^22 := by
  simp only [Sequence.from512SecondIntervals, typeMask_eq]
  have h : i < 2^22 := by omega
  have := Nat.two_pow_add_eq_or_of_lt h 1
  rw [Nat.mul_one] at this
  rw [Nat.or_comm]
  omega

theorem testBit_of_lt (n i j : Nat) (h : n < 2^i) (hij : i ≤ j) : n.testBit j = false := by
  apply Nat.testBit_lt_two_pow
  exact Nat.lt_of_lt_of_le h (Nat.pow_le_pow_right (by decide) hij)

theorem from512_bits (i : Nat) (hi : i < 2^16) :
    (Sequence.from512SecondIntervals i).n.testBit 31 = false ∧ (Sequence.from512SecondIntervals i).n.testBit 22 = true ∧
    (Sequence.from512SecondIntervals i).n % 2^16 = i := by
  simp only [Sequence.from512SecondIntervals, typeMask_eq, Nat.testBit_or, Nat.testBit_two_pow, Nat.or_mod_two_pow]
  refine ⟨?_, ?_, ?_⟩
  · rw [testBit_of_lt i 16 31 hi (by decide)]; decide
  · simp
  · have h1 : (2:Nat)^22 % 2^16 = 0 := by decide
    rw [h1, Nat.or_zero]
    exact Nat.mod_eq_of_lt hi

theorem fromHeight_bits (h : Nat) (hh : h < 2^16) :
    (Sequence.fromHeight h).n.testBit 31 = false ∧ (Sequence.fromHeight h).n.testBit 22 = false := by
  simp only [Sequence.fromHeight]
  exact ⟨testBit_of_lt h 16 31 hh (by decide), testBit_of_lt h 16 22 hh (by decide)⟩

theorem fromSecondsFloor_eq (s : Nat) :
    Sequence.fromSecondsFloor s =
      if s < 2^16 * 512 then .ok (Sequence.from512SecondIntervals (s / 512)) else .err "IntegerOverflow" := by
  simp only [Sequence.fromSecondsFloor, Sequence.u16TryFrom, floorGran_eq]
  by_cases h : s < 2^16 * 512
  · have : s / 512 < 2^16 := by omega
    simp [h, this]
  · have : ¬ s / 512 < 2^16 := by omega
    simp [h, this]

theorem divCeil_512 (s : Nat) : Sequence.divCeil s 512 = (s + 511) / 512 := by
  unfold Sequence.divCeil
  split <;> omega

theorem fromSecondsCeil_eq (s : Nat) :
    Sequence.fromSecondsCeil s =
      if s ≤ (2^16 - 1) * 512 then .ok (Sequence.from512SecondIntervals ((s + 511) / 512)) else .err "IntegerOverflow" := by
  simp only [Sequence.fromSecondsCeil, Sequence.u16TryFrom, ceilGran_eq, divCeil_512]
  by_cases h : s ≤ (2^16 - 1) * 512
  · have : (s + 511) / 512 < 2^16 := by omega
    simp [h, this]
  · have : ¬ (s + 511) / 512 < 2^16 := by omega
    simp [h, this]

theorem floor_bracket (s x : Nat) (hm : x % 2^16 = s / 512) :
    x % 2^16 * 512 ≤ s ∧ s < (x % 2^16 + 1) * 512 := by omega

theorem ceil_bracket (s x : Nat) (hm : x % 2^16 = (s + 511) / 512) :
    s ≤ x % 2^16 * 512 ∧ x % 2^16 * 512 < s + 512 := by omega

theorem floor_ceil_bracket (s x y : Nat) (hx : x % 2^16 = s / 512) (hy : y % 2^16 = (s + 511) / 512) :
    x % 2^16 * 512 ≤ s ∧ s ≤ y % 2^16 * 512 ∧ x % 2^16 ≤ y % 2^16 ∧ y % 2^16 ≤ x % 2^16 + 1 := by omega

theorem floor_eq_ceil_iff (s : Nat) : s / 512 + 2^22 = (s + 511) / 512 + 2^22 ↔ s % 512 = 0 := by omega

/-! ### bridge: the BIP370 selection viewed as a `LockTime` -/

theorem mem_reqLocks (r : LockReq) (q : LockTime) :
    q ∈ reqLocks r ↔ (∃ t, r.1 = some t ∧ q = .seconds ⟨t⟩) ∨ (∃ h, r.2 = some h ∧ q = .blocks ⟨h⟩) := by
  obtain ⟨a, b⟩ := r
  cases a <;> cases b <;> simp [reqLocks, LockTime.ofTime, LockTime.ofHeight]

theorem le_blocks (x n : Nat) (h : x ≤ n) : (LockTime.blocks ⟨x⟩).le (.blocks ⟨n⟩) = true :=
  (le_iff _ _).mpr ⟨rfl, h⟩

theorem le_seconds (x n : Nat) (h : x ≤ n) : (LockTime.seconds ⟨x⟩).le (.seconds ⟨n⟩) = true :=
  (le_iff _ _).mpr ⟨rfl, h⟩

/-- the selected lock time, viewed as a `LockTime`: every constraining input states a requirement of its
    unit, it dominates every requirement of its unit, and it is one of them -/
theorem bridge_core (fb : Option Nat) (reqs : List LockReq) (hw : WellTyped reqs)
    (hc : ∃ r ∈ reqs, constraining r = true) (n : Nat) (h : locktimeOf fb reqs = .ok n) :
    ∃ l, LockTime.fromConsensus n = .ok l ∧
      (l.isBlockHeight = true ↔ ∀ r ∈ reqs, constraining r = true → r.2.isSome = true) ∧
      (∀ r ∈ reqs, constraining r = true → ∃ q ∈ reqLocks r, q.isSameUnit l = true) ∧
      (∀ r ∈ reqs, ∀ q ∈ reqLocks r, q.isSameUnit l = true → q.le l = true) ∧
      (∃ r ∈ reqs, l ∈ reqLocks r) := by
  have hkind := locktime_kind fb reqs hw hc n h
  rcases ok_cases fb reqs n h with ⟨hnone, _⟩ | ⟨_, hall, hn⟩ | ⟨_, ⟨r0, hr0, hcr0, hs0⟩, hallT, hn⟩
  · obtain ⟨r, hr, hcr⟩ := hc
    rw [hnone r hr] at hcr
    cases hcr
  · -- height
    have hlt : n < Gen.lockTimeThreshold := hkind.mpr hall
    refine ⟨.blocks ⟨n⟩, fromConsensus_blocks n hlt, ⟨fun _ => hall, fun _ => rfl⟩, ?_, ?_, ?_⟩
    · intro r hr hcr
      have h1 := hall r hr hcr
      cases hx : r.2 with
      | none => rw [hx] at h1; cases h1
      | some x => exact ⟨.blocks ⟨x⟩, (mem_reqLocks r _).mpr (Or.inr ⟨x, hx, rfl⟩), rfl⟩
    · intro r hr q hq hu
      rcases (mem_reqLocks r q).mp hq with ⟨t, _, rfl⟩ | ⟨x, hx, rfl⟩
      · cases hu
      · apply le_blocks
        rw [hn]
        exact le_maxList _ x ((mem_heights reqs x).mpr ⟨r, hr, hx⟩)
    · obtain ⟨r, hr, hcr⟩ := hc
      have h1 := hall r hr hcr
      cases hx : r.2 with
      | none => rw [hx] at h1; cases h1
      | some x =>
        have hmem : x ∈ reqs.filterMap (·.2) := (mem_heights reqs x).mpr ⟨r, hr, hx⟩
        have hm := maxList_mem _ (List.ne_nil_of_mem hmem)
        rw [← hn] at hm
        obtain ⟨r', hr', hx'⟩ := (mem_heights reqs n).mp hm
        exact ⟨r', hr', (mem_reqLocks r' _).mpr (Or.inr ⟨n, hx', rfl⟩)⟩
  · -- time
    have hnall : ¬ ∀ r ∈ reqs, constraining r = true → r.2.isSome = true := by
      intro hall
      rw [hall r0 hr0 hcr0] at hs0
      cases hs0
    have hge : Gen.lockTimeThreshold ≤ n := by
      apply Nat.le_of_not_lt
      intro hlt
      exact hnall (hkind.mp hlt)
    refine ⟨.seconds ⟨n⟩, fromConsensus_seconds n hge, ⟨fun hb => (by cases hb), fun hall => absurd hall hnall⟩, ?_, ?_, ?_⟩
    · intro r hr hcr
      have h1 := hallT r hr hcr
      cases hx : r.1 with
      | none => rw [hx] at h1; cases h1
      | some x => exact ⟨.seconds ⟨x⟩, (mem_reqLocks r _).mpr (Or.inl ⟨x, hx, rfl⟩), rfl⟩
    · intro r hr q hq hu
      rcases (mem_reqLocks r q).mp hq with ⟨x, hx, rfl⟩ | ⟨x, _, rfl⟩
      · apply le_seconds
        rw [hn]
        exact le_maxList _ x ((mem_times reqs x).mpr ⟨r, hr, hx⟩)
      · cases hu
    · have h1 := hallT r0 hr0 hcr0
      cases hx : r0.1 with
      | none => rw [hx] at h1; cases h1
      | some x =>
        have hmem : x ∈ reqs.filterMap (·.1) := (mem_times reqs x).mpr ⟨r0, hr0, hx⟩
        have hm := maxList_mem _ (List.ne_nil_of_mem hmem)
        rw [← hn] at hm
        obtain ⟨r', hr', hx'⟩ := (mem_times reqs n).mp hm
        exact ⟨r', hr', (mem_reqLocks r' _).mpr (Or.inl ⟨n, hx', rfl⟩)⟩

/-- the error case exactly: some input supports only a time lock and some input only a height lock -/
theorem conflict_iff (fb : Option Nat) (reqs : List LockReq) :
    locktimeOf fb reqs = .err "LocktimeConflict" ↔
      (∃ r ∈ reqs, r.1.isSome = true ∧ r.2.isSome = false) ∧ (∃ r ∈ reqs, r.2.isSome = true ∧ r.1.isSome = false) := by
  rw [locktimeOf_eq_bip370]
  simp only [bip370]
  have hA : (reqs.filter constraining).all (fun r => r.2.isSome) = true ↔
      ¬ ∃ r ∈ reqs, r.1.isSome = true ∧ r.2.isSome = false := by
    rw [cs_all_iff]
    constructor
    · intro ha ⟨r, hr, h1, h2⟩
      have := ha r hr (by simp [constraining, h1])
      rw [h2] at this; cases this
    · intro hn r hr hcr
      cases h2 : r.2.isSome with
      | true => rfl
      | false =>
        exfalso
        apply hn
        refine ⟨r, hr, ?_, h2⟩
        simpa [constraining, h2] using hcr
  have hB : (reqs.filter constraining).all (fun r => r.1.isSome) = true ↔
      ¬ ∃ r ∈ reqs, r.2.isSome = true ∧ r.1.isSome = false := by
    rw [cs_all_iff]
    constructor
    · intro ha ⟨r, hr, h1, h2⟩
      have := ha r hr (by simp [constraining, h1])
      rw [h2] at this; cases this
    · intro hn r hr hcr
      cases h2 : r.1.isSome with
      | true => rfl
      | false =>
        exfalso
        apply hn
        refine ⟨r, hr, ?_, h2⟩
        simpa [constraining, h2] using hcr
  have hE : (reqs.filter constraining).isEmpty = true → ¬ ∃ r ∈ reqs, r.1.isSome = true ∧ r.2.isSome = false := by
    intro he ⟨r, hr, h1, _⟩
    have := (cs_isEmpty_iff reqs).mp he r hr
    simp [constraining, h1] at this
  split
  · rename_i he
    constructor
    · intro c; cases c
    · intro ⟨h1, _⟩; exact absurd h1 (hE he)
  · split
    · rename_i ha
      constructor
      · intro c; cases c
      · intro ⟨h1, _⟩; exact absurd h1 (hA.mp ha)
    · rename_i hna
      split
      · rename_i hb
        constructor
        · intro c; cases c
        · intro ⟨_, h2⟩; exact absurd h2 (hB.mp hb)
      · rename_i hnb
        constructor
        · intro _
          constructor
          · apply Classical.byContradiction
            intro hn; exact hna (hA.mpr hn)
          · apply Classical.byContradiction
            intro hn; exact hnb (hB.mpr hn)
        · intro _; rfl

/-- the fallback case exactly -/
theorem fallback_iff (fb : Option Nat) (reqs : List LockReq) (hno : ∀ r ∈ reqs, constraining r = false) :
    locktimeOf fb reqs = .ok (fb.getD 0) := by
  rw [locktimeOf_eq_bip370]
  simp only [bip370]
  rw [if_pos ((cs_isEmpty_iff reqs).mpr hno)]

/-! ### the typed lock-time function agrees with the untyped model -/

theorem zero_toConsensus : LockTime.zero.toConsensusU32 = 0 := by decide
theorem toConsensus_blocks (h : Height) : (LockTime.blocks h).toConsensusU32 = h.n := rfl
theorem toConsensus_seconds (t : Time) : (LockTime.seconds t).toConsensusU32 = t.n := rfl

theorem locktimeTyped_erase (fb : Option LockTime) (reqs : List TypedReq) :
    (locktimeTyped fb reqs).map LockTime.toConsensusU32 =
      locktimeOf (fb.map LockTime.toConsensusU32) (reqs.map TypedReq.erase) := by
  simp only [locktimeTyped, locktimeOf]
  generalize lockFold (reqs.map TypedReq.erase) = st
  obtain ⟨a, b⟩ := st
  cases a <;> cases b <;> cases fb <;>
    simp [lockFinal, lockFinalTyped, Res.map, Res.bind, zero_toConsensus, LockTime.ofHeight, LockTime.ofTime,
      toConsensus_blocks, toConsensus_seconds]

/-- requirements as the Rust types guarantee them -/
def TypedValid (reqs : List TypedReq) : Prop :=
  ∀ r ∈ reqs, (∀ t, r.1 = some t → t.Valid) ∧ (∀ h, r.2 = some h → h.Valid)

theorem wellTyped_erase (reqs : List TypedReq) (hv : TypedValid reqs) : WellTyped (reqs.map TypedReq.erase) := by
  intro r hr
  obtain ⟨r', hr', rfl⟩ := List.mem_map.mp hr
  obtain ⟨h1, h2⟩ := hv r' hr'
  constructor
  · intro t ht
    simp only [TypedReq.erase, Option.map_eq_some_iff] at ht
    obtain ⟨t', ht', rfl⟩ := ht
    exact (h1 t' ht').1
  · intro h hh
    simp only [TypedReq.erase, Option.map_eq_some_iff] at hh
    obtain ⟨h', hh', rfl⟩ := hh
    exact h2 h' hh'

theorem zero_valid : LockTime.zero.Valid := by decide

/-- the result of the typed function is a value of the type -/
theorem locktimeTyped_valid (fb : Option LockTime) (reqs : List TypedReq) (hfb : ∀ l, fb = some l → l.Valid)
    (hv : TypedValid reqs) (l : LockTime) (h : locktimeTyped fb reqs = .ok l) : l.Valid := by
  simp only [locktimeTyped, lockFold_eq] at h
  have hT : ∀ x, x ∈ (reqs.map TypedReq.erase).filterMap (·.1) → Gen.lockTimeThreshold ≤ x ∧ x < 2^32 := by
    intro x hx
    obtain ⟨r, hr, hrx⟩ := (mem_times _ x).mp hx
    obtain ⟨r', hr', rfl⟩ := List.mem_map.mp hr
    simp only [TypedReq.erase, Option.map_eq_some_iff] at hrx
    obtain ⟨t, ht, rfl⟩ := hrx
    exact (hv r' hr').1 t ht
  have hH : ∀ x, x ∈ (reqs.map TypedReq.erase).filterMap (·.2) → x < Gen.lockTimeThreshold := by
    intro x hx
    obtain ⟨r, hr, hrx⟩ := (mem_heights _ x).mp hx
    obtain ⟨r', hr', rfl⟩ := List.mem_map.mp hr
    simp only [TypedReq.erase, Option.map_eq_some_iff] at hrx
    obtain ⟨t, ht, rfl⟩ := hrx
    exact (hv r' hr').2 t ht
  generalize (reqs.map TypedReq.erase).any pH = eH at h
  generalize (reqs.map TypedReq.erase).any pT = eT at h
  generalize (reqs.map TypedReq.erase).filterMap (·.1) = Ts at h hT
  generalize (reqs.map TypedReq.erase).filterMap (·.2) = Hs at h hH
  rcases kind_cases eT Hs with ⟨_, k2⟩ | ⟨_, _, k2⟩ | ⟨_, hne2, k2⟩ <;>
    rcases kind_cases eH Ts with ⟨_, k1⟩ | ⟨_, _, k1⟩ | ⟨_, hne1, k1⟩ <;>
    rw [k1, k2] at h <;> simp only [lockFinalTyped] at h
  all_goals
    cases h <;> first
      | exact hH (maxList Hs) (maxList_mem _ hne2)
      | exact hT (maxList Ts) (maxList_mem _ hne1)
      | (cases fb with
         | none => exact zero_valid
         | some l => exact hfb l rfl)

end EV.Proofs.LockTime
