/-
  Infrastructure for `SighashCommitsT`: prefix-free encoders, injectivity of concatenated
  encodings, and the pieces of the taproot signing serialisation.
-/
import EV.Proofs.SighashDefs
namespace EV.Sighash.TapAux
open EV EV.Codec EV.Proofs.CodecPrim EV.Proofs.CodecTx

/-! ### prefix-free encoders -/

/-- equal concatenations split equally -/
def PF {α : Type} (e : α → Bytes) (wf : α → Prop) : Prop :=
  ∀ a b r₁ r₂, wf a → wf b → e a ++ r₁ = e b ++ r₂ → a = b ∧ r₁ = r₂

theorem PF.of_lawful {α : Type} {d : Dec α} {e : α → Bytes} {wf : α → Prop} (h : Lawful d e wf) :
    PF e wf :=
  fun a b r₁ r₂ ha hb heq => enc_prefix_free h a b r₁ r₂ ha hb heq

theorem PF.mono {α : Type} {e : α → Bytes} {wf wf' : α → Prop} (h : PF e wf)
    (hw : ∀ a, wf' a → wf a) : PF e wf' :=
  fun a b r₁ r₂ ha hb heq => h a b r₁ r₂ (hw a ha) (hw b hb) heq

theorem PF.inj {α : Type} {e : α → Bytes} {wf : α → Prop} (h : PF e wf) {a b : α}
    (ha : wf a) (hb : wf b) (heq : e a = e b) : a = b :=
  (h a b [] [] ha hb (by rw [heq])).1

theorem PF.pair {α β : Type} {e₁ : α → Bytes} {e₂ : β → Bytes} {wf₁ : α → Prop} {wf₂ : β → Prop}
    (h₁ : PF e₁ wf₁) (h₂ : PF e₂ wf₂) :
    PF (fun p : α × β => e₁ p.1 ++ e₂ p.2) (fun p => wf₁ p.1 ∧ wf₂ p.2) := by
  intro a b r₁ r₂ ha hb heq
  simp only [List.append_assoc] at heq
  obtain ⟨h1, heq⟩ := h₁ _ _ _ _ ha.1 hb.1 heq
  obtain ⟨h2, heq⟩ := h₂ _ _ _ _ ha.2 hb.2 heq
  exact ⟨Prod.ext h1 h2, heq⟩

theorem flatMap_injective {α : Type} {e : α → Bytes} {wf : α → Prop} (h : PF e wf)
    (hne : ∀ a, wf a → e a ≠ []) :
    ∀ (l l' : List α), (∀ a ∈ l, wf a) → (∀ b ∈ l', wf b) → l.flatMap e = l'.flatMap e → l = l'
  | [], [], _, _, _ => rfl
  | [], b :: l', _, hb, heq => by
    simp only [List.flatMap_nil, List.flatMap_cons] at heq
    have h1 := hne b (hb b List.mem_cons_self)
    have h2 := (List.append_eq_nil_iff.mp heq.symm).1
    exact absurd h2 h1
  | a :: l, [], ha, _, heq => by
    simp only [List.flatMap_nil, List.flatMap_cons] at heq
    have h1 := hne a (ha a List.mem_cons_self)
    have h2 := (List.append_eq_nil_iff.mp heq).1
    exact absurd h2 h1
  | a :: l, b :: l', ha, hb, heq => by
    simp only [List.flatMap_cons] at heq
    obtain ⟨h1, h2⟩ := h a b _ _ (ha a List.mem_cons_self) (hb b List.mem_cons_self) heq
    have := flatMap_injective h hne l l' (fun x hx => ha x (List.mem_cons_of_mem _ hx))
      (fun x hx => hb x (List.mem_cons_of_mem _ hx)) h2
    rw [h1, this]

theorem ne_nil_of_length_pos {l : Bytes} (h : 0 < l.length) : l ≠ [] := by
  intro h'; rw [h'] at h; exact absurd h (by decide)

/-! ### the primitive encoders used by the taproot message -/

theorem pf_le4 : PF (encLe 4) (fun n => n < 2^32) :=
  (PF.of_lawful (le_lawful 4)).mono (fun _ h => h)

theorem encLe4_ne_nil (n : Nat) : encLe 4 n ≠ [] :=
  ne_nil_of_length_pos (by rw [encLe, leBytes_length]; decide)

theorem pf_bytesVec : PF encBytesVec (fun b => b.length ≤ maxVecSize) := PF.of_lawful bytesVec_lawful

theorem varintSize_pos (n : Nat) : 0 < varintSize n := by
  unfold varintSize; split
  · decide
  · split
    · decide
    · split <;> decide

theorem encBytesVec_ne_nil (b : Bytes) : encBytesVec b ≠ [] :=
  ne_nil_of_length_pos (by rw [encBytesVec_length]; have := varintSize_pos b.length; omega)

theorem pf_outpoint : PF OutPoint.enc OutPoint.wf := PF.of_lawful outpoint_lawful

theorem outpoint_ne_nil (o : OutPoint) : o.enc ≠ [] :=
  ne_nil_of_length_pos (by
    simp only [OutPoint.enc, List.length_append, encLe, leBytes_length]; omega)

variable (P : Prims)

theorem pf_asset : PF Asset.enc (Asset.wf P) := PF.of_lawful (asset_lawful P)
theorem pf_value : PF Value.enc (Value.wf P) := PF.of_lawful (value_lawful P)
theorem pf_issuance : PF AssetIssuance.enc (AssetIssuance.wf P) := PF.of_lawful (issuance_lawful P)
theorem pf_optProof : PF encOptProof (wfOptProof P.rangeproof) := PF.of_lawful (optProof_lawful P.rangeproof)

theorem pf_assetValue :
    PF (fun p : Asset × Value => p.1.enc ++ p.2.enc) (fun p => p.1.wf P ∧ p.2.wf P) :=
  PF.pair (pf_asset P) (pf_value P)

theorem asset_ne_nil (a : Asset) (h : a.wf P) : a.enc ≠ [] :=
  ne_nil_of_length_pos (by rw [asset_enc_length P a h]; cases a <;> simp [Asset.encodedLength])

theorem pf_proofs : PF encProofs (wfProofs P) := PF.pair (pf_optProof P) (pf_optProof P)

theorem encOptProof_ne_nil (o : Option Bytes) : encOptProof o ≠ [] := by
  cases o <;> exact encBytesVec_ne_nil _

theorem encProofs_ne_nil (p : Option Bytes × Option Bytes) : encProofs p ≠ [] := by
  intro h
  exact encOptProof_ne_nil p.1 (List.append_eq_nil_iff.mp h).1

/-- optional issuances are decodable once the present/absent pattern is known -/
theorem issuances_injective :
    ∀ (l l' : List (Option AssetIssuance)), l.map Option.isSome = l'.map Option.isSome →
      (∀ i, some i ∈ l → i.wf P) → (∀ i, some i ∈ l' → i.wf P) →
      l.flatMap encIssuanceOpt = l'.flatMap encIssuanceOpt → l = l'
  | [], [], _, _, _, _ => rfl
  | [], _ :: _, hs, _, _, _ => by simp at hs
  | _ :: _, [], hs, _, _, _ => by simp at hs
  | a :: l, b :: l', hs, ha, hb, heq => by
    simp only [List.map_cons, List.cons.injEq] at hs
    simp only [List.flatMap_cons] at heq
    have ih := issuances_injective l l' hs.2 (fun i hi => ha i (List.mem_cons_of_mem _ hi))
      (fun i hi => hb i (List.mem_cons_of_mem _ hi))
    cases a with
    | none =>
      cases b with
      | none =>
        simp only [encIssuanceOpt] at heq
        rw [ih (List.append_cancel_left heq)]
      | some y => simp at hs
    | some x =>
      cases b with
      | none => simp at hs
      | some y =>
        simp only [encIssuanceOpt] at heq
        obtain ⟨h1, h2⟩ := pf_issuance P x y _ _ (ha x List.mem_cons_self) (hb y List.mem_cons_self) heq
        rw [h1, ih h2]

/-! ### outputs with their witnesses -/

theorem pf_txOutBody :
    PF TxOut.enc (fun o => o.wfBody P ∧ o.witness = TxOutWitness.empty) := PF.of_lawful (txOut_lawful P)
theorem pf_txOutWitness : PF TxOutWitness.enc (TxOutWitness.wf P) := PF.of_lawful (txOutWitness_lawful P)

theorem txOut_enc_ne_nil (o : TxOut) (h : o.wf P) : o.enc ≠ [] := by
  intro h'
  simp only [TxOut.enc, List.append_assoc] at h'
  exact asset_ne_nil P o.asset h.1.1 (List.append_eq_nil_iff.mp h').1

/-- body and witness encodings together determine an output -/
theorem txOut_pf2 (o o' : TxOut) (ho : o.wf P) (ho' : o'.wf P) (r r' s s' : Bytes)
    (h1 : o.enc ++ r = o'.enc ++ r') (h2 : o.witness.enc ++ s = o'.witness.enc ++ s') :
    o = o' ∧ r = r' ∧ s = s' := by
  have e1 := pf_txOutBody P { o with witness := TxOutWitness.empty } { o' with witness := TxOutWitness.empty }
    r r' ⟨ho.1, rfl⟩ ⟨ho'.1, rfl⟩ h1
  have e2 := pf_txOutWitness P _ _ _ _ ho.2 ho'.2 h2
  refine ⟨?_, e1.2, e2.2⟩
  obtain ⟨a, v, n, sc, w⟩ := o
  obtain ⟨a', v', n', sc', w'⟩ := o'
  have e1 := e1.1
  simp only [TxOut.mk.injEq] at e1 ⊢
  exact ⟨e1.1, e1.2.1, e1.2.2.1, e1.2.2.2.1, e2.1⟩

theorem outsAll_inj :
    ∀ (l l' : List TxOut), (∀ o ∈ l, o.wf P) → (∀ o ∈ l', o.wf P) →
      l.flatMap TxOut.enc = l'.flatMap TxOut.enc →
      l.flatMap (fun o => o.witness.enc) = l'.flatMap (fun o => o.witness.enc) → l = l'
  | [], [], _, _, _, _ => rfl
  | [], b :: l', _, hb, heq, _ => by
    simp only [List.flatMap_nil, List.flatMap_cons] at heq
    exact absurd (List.append_eq_nil_iff.mp heq.symm).1 (txOut_enc_ne_nil P b (hb b List.mem_cons_self))
  | a :: l, [], ha, _, heq, _ => by
    simp only [List.flatMap_nil, List.flatMap_cons] at heq
    exact absurd (List.append_eq_nil_iff.mp heq).1 (txOut_enc_ne_nil P a (ha a List.mem_cons_self))
  | a :: l, b :: l', ha, hb, heq, hw => by
    simp only [List.flatMap_cons] at heq hw
    obtain ⟨h1, h2, h3⟩ := txOut_pf2 P a b (ha a List.mem_cons_self) (hb b List.mem_cons_self) _ _ _ _ heq hw
    have := outsAll_inj l l' (fun x hx => ha x (List.mem_cons_of_mem _ hx))
      (fun x hx => hb x (List.mem_cons_of_mem _ hx)) h2 h3
    rw [h1, this]

/-! ### small finite facts -/

theorem flagByte_inj : ∀ x y : Bool × Bool, flagByte x = flagByte y → x = y := by
  have h : ∀ a b c d : Bool, flagByte (a, b) = flagByte (c, d) → a = c ∧ b = d := by decide
  rintro ⟨a, b⟩ ⟨c, d⟩ hxy
  obtain ⟨h1, h2⟩ := h a b c d hxy
  rw [h1, h2]

theorem spendByte_inj : ∀ p q p' q' : Bool,
    UInt8.ofNat ((if p then 1 else 0) * 2 + (if q then 1 else 0)) =
      UInt8.ofNat ((if p' then 1 else 0) * 2 + (if q' then 1 else 0)) → p = p' ∧ q = q' := by
  decide

theorem u8ofNat_inj {x y : Nat} (hx : x < 256) (hy : y < 256) (h : UInt8.ofNat x = UInt8.ofNat y) : x = y := by
  have := congrArg UInt8.toNat h
  simp only [UInt8.toNat_ofNat'] at this
  omega

end EV.Sighash.TapAux
