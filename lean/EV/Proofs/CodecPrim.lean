/-
  Laws of the consensus-encoding primitives (EV.Model.Codec).
  For a decoder `d : Dec α`, encoder `e : α → Bytes` and canonicity predicate `wf`:
    sound    : d bs = .ok (v, rest) → bs = e v ++ rest ∧ wf v
    complete : wf v → d (e v ++ r) = .ok (v, r)
    total    : d bs ≠ .panic s
-/
import EV.Model.Codec
namespace EV.Proofs.CodecPrim
open EV EV.Codec

/-- the three laws bundled -/
structure Lawful {α : Type} (d : Dec α) (e : α → Bytes) (wf : α → Prop) : Prop where
  sound : ∀ bs v rest, d bs = .ok (v, rest) → bs = e v ++ rest ∧ wf v
  complete : ∀ v r, wf v → d (e v ++ r) = .ok (v, r)
  total : ∀ bs s, d bs ≠ .panic s

theorem leNat_leBytes (k n : Nat) (h : n < 256 ^ k) : leNat (leBytes k n) = n := by
  sorry

theorem leBytes_leNat (b : Bytes) : leBytes b.length (leNat b) = b := by
  sorry

theorem leNat_lt (b : Bytes) : leNat b < 256 ^ b.length := by
  sorry

theorem leBytes_length (k n : Nat) : (leBytes k n).length = k := by
  sorry

theorem beNat_beBytes (k n : Nat) (h : n < 256 ^ k) : beNat (beBytes k n) = n := by
  sorry

theorem beBytes_beNat (b : Bytes) : beBytes b.length (beNat b) = b := by
  sorry

theorem beNat_lt (b : Bytes) : beNat b < 256 ^ b.length := by
  sorry

theorem beBytes_length (k n : Nat) : (beBytes k n).length = k := by
  sorry

/-- fixed-size byte arrays `[u8; n]` -/
theorem take_lawful (n : Nat) : Lawful (take n) (fun b => b) (fun b => b.length = n) := by
  sorry

/-- `u8` -/
theorem u8_lawful : Lawful u8 (fun n => [UInt8.ofNat n]) (fun n => n < 256) := by
  sorry

/-- little-endian `u16/u32/u64` -/
theorem le_lawful (k : Nat) : Lawful (le k) (encLe k) (fun n => n < 256 ^ k) := by
  sorry

theorem encVarint_length (n : Nat) : (encVarint n).length = varintSize n := by
  sorry

/-- compact-size integers: only the minimal form is accepted -/
theorem varint_lawful : Lawful varint encVarint (fun n => n < 2^64) := by
  sorry

/-- `Vec<u8>` with the allocation guard -/
theorem bytesVec_lawful : Lawful bytesVec encBytesVec (fun b => b.length ≤ maxVecSize) := by
  sorry

theorem encBytesVec_length (b : Bytes) : (encBytesVec b).length = varintSize b.length + b.length := by
  sorry

/-- exactly `n` items -/
theorem repeatN_sound {α} (d : Dec α) (e : α → Bytes) (wf : α → Prop) (h : Lawful d e wf) :
    ∀ n bs vs rest, repeatN d n bs = .ok (vs, rest) →
      bs = vs.flatMap e ++ rest ∧ vs.length = n ∧ ∀ v ∈ vs, wf v := by
  sorry

theorem repeatN_complete {α} (d : Dec α) (e : α → Bytes) (wf : α → Prop) (h : Lawful d e wf) :
    ∀ vs r, (∀ v ∈ vs, wf v) → repeatN d vs.length (vs.flatMap e ++ r) = .ok (vs, r) := by
  sorry

theorem repeatN_total {α} (d : Dec α) (ht : ∀ bs s, d bs ≠ .panic s) :
    ∀ n bs s, repeatN d n bs ≠ .panic s := by
  sorry

/-- `Vec<T>`: count guard `len * size_of::<T>() ≤ MAX_VEC_SIZE` (`memSize > 0`) -/
theorem vecOf_lawful {α} (memSize : Nat) (hm : 0 < memSize) (d : Dec α) (e : α → Bytes) (wf : α → Prop)
    (h : Lawful d e wf) :
    Lawful (vecOf memSize d) (encVec e) (fun l => l.length * memSize ≤ maxVecSize ∧ ∀ v ∈ l, wf v) := by
  sorry

/-- `Vec<Vec<u8>>` -/
theorem bytesVecVec_lawful :
    Lawful bytesVecVec encBytesVecVec
      (fun l => l.length * 24 ≤ maxVecSize ∧ ∀ b ∈ l, b.length ≤ maxVecSize) := by
  sorry

/-- injectivity of an encoder that has a complete decoder (used for ids: C02) -/
theorem enc_injective_of_complete {α} {d : Dec α} {e : α → Bytes} {wf : α → Prop}
    (h : Lawful d e wf) (a b : α) (ha : wf a) (hb : wf b) (heq : e a = e b) : a = b := by
  sorry

/-- prefix-freeness: equal concatenations split equally -/
theorem enc_prefix_free {α} {d : Dec α} {e : α → Bytes} {wf : α → Prop}
    (h : Lawful d e wf) (a b : α) (r₁ r₂ : Bytes) (ha : wf a) (hb : wf b)
    (heq : e a ++ r₁ = e b ++ r₂) : a = b ∧ r₁ = r₂ := by
  sorry

end EV.Proofs.CodecPrim
