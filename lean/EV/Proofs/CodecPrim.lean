/-
  Laws of the consensus-encoding primitives (EV.Model.Codec).
  For a decoder `d : Dec α`, encoder `e : α → Bytes` and canonicity predicate `wf`:
    sound    : d bs = .ok (v, rest) → bs = e v ++ rest ∧ wf v
    complete : wf v → d (e v ++ r) = .ok (v, r)
    total    : d bs ≠ .panic s
-/
import EV.Model.Codec
namespace EV.Proofs.CodecPrim
open EV EV.Codec

/-- the three laws bundled -/
structure Lawful {α : Type} (d : Dec α) (e : α → Bytes) (wf : α → Prop) : Prop where
  sound : ∀ bs v rest, d bs = .ok (v, rest) → bs = e v ++ rest ∧ wf v
  complete : ∀ v r, wf v → d (e v ++ r) = .ok (v, r)
  total : ∀ bs s, d bs ≠ .panic s

theorem leNat_leBytes (k n : Nat) (h : n < 256 ^ k) : leNat (leBytes k n) = n := by
  induction k generalizing n with
  | zero => simp at h; subst h; rfl
  | succ k ih =>
    have h2 : n / 256 < 256 ^ k := by
      apply Nat.div_lt_of_lt_mul
      rw [Nat.pow_succ] at h; omega
    simp only [leBytes, leNat, ih _ h2, UInt8.toNat_ofNat']
    omega

theorem leBytes_leNat (b : Bytes) : leBytes b.length (leNat b) = b := by
  induction b with
  | nil => rfl
  | cons x rest ih =>
    have hx := UInt8.toNat_lt x
    have h1 : (x.toNat + 256 * leNat rest) % 256 = x.toNat := by omega
    have h2 : (x.toNat + 256 * leNat rest) / 256 = leNat rest := by omega
    simp only [List.length_cons, leBytes, leNat, h1, h2, ih, UInt8.ofNat_toNat]

theorem leNat_lt (b : Bytes) : leNat b < 256 ^ b.length := by
  induction b with
  | nil => simp [leNat]
  | cons x rest ih =>
    have hx := UInt8.toNat_lt x
    simp only [List.length_cons, leNat, Nat.pow_succ]
    omega

theorem leBytes_length (k n : Nat) : (leBytes k n).length = k := by
  induction k generalizing n with
  | zero => rfl
  | succ k ih => simp [leBytes, ih]

theorem beNat_beBytes (k n : Nat) (h : n < 256 ^ k) : beNat (beBytes k n) = n := by
  simp [beNat, beBytes, leNat_leBytes k n h]

theorem beBytes_beNat (b : Bytes) : beBytes b.length (beNat b) = b := by
  have := leBytes_leNat b.reverse
  rw [List.length_reverse] at this
  simp [beNat, beBytes, this]

theorem beNat_lt (b : Bytes) : beNat b < 256 ^ b.length := by
  have := leNat_lt b.reverse
  rw [List.length_reverse] at this
  exact this

theorem beBytes_length (k n : Nat) : (beBytes k n).length = k := by
  simp [beBytes, leBytes_length]

/-- fixed-size byte arrays `[u8; n]` -/
theorem take_lawful (n : Nat) : Lawful (take n) (fun b => b) (fun b => b.length = n) := by
  refine ⟨?_, ?_, ?_⟩
  · intro bs v rest h
    simp only [take] at h
    split at h
    · cases h
    · rename_i hlt
      simp only [Res.ok.injEq, Prod.mk.injEq] at h
      obtain ⟨rfl, rfl⟩ := h
      refine ⟨(List.take_append_drop n bs).symm, ?_⟩
      simp only [List.length_take]; omega
  · intro v r hv
    subst hv
    simp [take]
  · intro bs s h
    simp only [take] at h
    split at h <;> cases h

/-- `u8` -/
theorem u8_lawful : Lawful u8 (fun n => [UInt8.ofNat n]) (fun n => n < 256) := by
  refine ⟨?_, ?_, ?_⟩
  · intro bs v rest h
    cases bs with
    | nil => cases h
    | cons b t =>
      simp only [u8, Res.ok.injEq, Prod.mk.injEq] at h
      obtain ⟨rfl, rfl⟩ := h
      exact ⟨by simp, UInt8.toNat_lt b⟩
  · intro v r hv
    simp only [u8, List.singleton_append, UInt8.toNat_ofNat']
    rw [Nat.mod_eq_of_lt hv]
  · intro bs s h
    cases bs <;> cases h

/-- little-endian `u16/u32/u64` -/
theorem le_lawful (k : Nat) : Lawful (le k) (encLe k) (fun n => n < 256 ^ k) := by
  refine ⟨?_, ?_, ?_⟩
  · intro bs v rest h
    simp only [le] at h
    cases ht : take k bs with
    | ok p =>
      obtain ⟨b, r⟩ := p
      rw [ht] at h
      simp only [Res.ok.injEq, Prod.mk.injEq] at h
      obtain ⟨rfl, rfl⟩ := h
      obtain ⟨h1, h2⟩ := (take_lawful k).sound _ _ _ ht
      have h3 := leBytes_leNat b
      have h4 := leNat_lt b
      rw [h2] at h3 h4
      exact ⟨by simp only [encLe, h3]; exact h1, h4⟩
    | err e => rw [ht] at h; cases h
    | panic s => rw [ht] at h; cases h
  · intro v r hv
    have := (take_lawful k).complete (leBytes k v) r (leBytes_length k v)
    simp only [le, encLe, this, leNat_leBytes k v hv]
  · intro bs s h
    simp only [le] at h
    cases ht : take k bs with
    | ok p => rw [ht] at h; cases h
    | err e => rw [ht] at h; cases h
    | panic s' => exact (take_lawful k).total _ _ ht

theorem encVarint_length (n : Nat) : (encVarint n).length = varintSize n := by
  simp only [encVarint, varintSize]
  split
  · rfl
  · split
    · simp [leBytes_length]
    · split <;> simp [leBytes_length]

private theorem ne_toNat {b c : UInt8} (h : b ≠ c) : b.toNat ≠ c.toNat :=
  fun hh => h (UInt8.toNat_inj.mp hh)

private theorem le_sound' {k : Nat} {t : Bytes} {x : Nat} {r : Bytes} (h : le k t = .ok (x, r)) :
    t = leBytes k x ++ r ∧ x < 256 ^ k := (le_lawful k).sound _ _ _ h

private theorem le_complete' (k v : Nat) (r : Bytes) (h : v < 256 ^ k) :
    le k (leBytes k v ++ r) = .ok (v, r) := (le_lawful k).complete v r h

/-- compact-size integers: only the minimal form is accepted -/
theorem varint_lawful : Lawful varint encVarint (fun n => n < 2^64) := by
  refine ⟨?_, ?_, ?_⟩
  · intro bs v rest h
    cases bs with
    | nil => cases h
    | cons b t =>
      simp only [varint] at h
      split at h
      · rename_i hb
        subst hb
        cases hl : le 8 t with
        | ok p =>
          obtain ⟨x, r⟩ := p
          rw [hl] at h
          simp only at h
          split at h
          · cases h
          · rename_i hx
            simp only [Res.ok.injEq, Prod.mk.injEq] at h
            obtain ⟨rfl, rfl⟩ := h
            obtain ⟨h1, h2⟩ := le_sound' hl
            have e1 : ¬ x ≤ 0xFC := by omega
            have e2 : ¬ x ≤ 0xFFFF := by omega
            have e3 : ¬ x ≤ 0xFFFFFFFF := by omega
            simp only [encVarint, if_neg e1, if_neg e2, if_neg e3, List.cons_append]
            exact ⟨by rw [← h1], by omega⟩
        | err e => rw [hl] at h; cases h
        | panic s => rw [hl] at h; cases h
      · split at h
        · rename_i hb
          subst hb
          cases hl : le 4 t with
          | ok p =>
            obtain ⟨x, r⟩ := p
            rw [hl] at h
            simp only at h
            split at h
            · cases h
            · rename_i hx
              simp only [Res.ok.injEq, Prod.mk.injEq] at h
              obtain ⟨rfl, rfl⟩ := h
              obtain ⟨h1, h2⟩ := le_sound' hl
              have e1 : ¬ x ≤ 0xFC := by omega
              have e2 : ¬ x ≤ 0xFFFF := by omega
              have e3 : x ≤ 0xFFFFFFFF := by omega
              simp only [encVarint, if_neg e1, if_neg e2, if_pos e3, List.cons_append]
              exact ⟨by rw [← h1], by omega⟩
          | err e => rw [hl] at h; cases h
          | panic s => rw [hl] at h; cases h
        · split at h
          · rename_i hb
            subst hb
            cases hl : le 2 t with
            | ok p =>
              obtain ⟨x, r⟩ := p
              rw [hl] at h
              simp only at h
              split at h
              · cases h
              · rename_i hx
                simp only [Res.ok.injEq, Prod.mk.injEq] at h
                obtain ⟨rfl, rfl⟩ := h
                obtain ⟨h1, h2⟩ := le_sound' hl
                have e1 : ¬ x ≤ 0xFC := by omega
                have e2 : x ≤ 0xFFFF := by omega
                simp only [encVarint, if_neg e1, if_pos e2, List.cons_append]
                exact ⟨by rw [← h1], by omega⟩
            | err e => rw [hl] at h; cases h
            | panic s => rw [hl] at h; cases h
          · rename_i h1 h2 h3
            simp only [Res.ok.injEq, Prod.mk.injEq] at h
            obtain ⟨rfl, rfl⟩ := h
            have n1 : b.toNat ≠ 255 := ne_toNat h1
            have n2 : b.toNat ≠ 254 := ne_toNat h2
            have n3 : b.toNat ≠ 253 := ne_toNat h3
            have hb := UInt8.toNat_lt b
            have e1 : b.toNat ≤ 0xFC := by omega
            simp only [encVarint, if_pos e1, UInt8.ofNat_toNat, List.cons_append, List.nil_append]
            exact ⟨trivial, by omega⟩
  · intro v r hv
    simp only [encVarint]
    split
    · rename_i e1
      have hm : (UInt8.ofNat v).toNat = v := by
        rw [UInt8.toNat_ofNat']; omega
      have n1 : UInt8.ofNat v ≠ 0xFF := by
        intro hh; have := congrArg UInt8.toNat hh; rw [hm] at this
        have : v = 255 := this
        omega
      have n2 : UInt8.ofNat v ≠ 0xFE := by
        intro hh; have := congrArg UInt8.toNat hh; rw [hm] at this
        have : v = 254 := this
        omega
      have n3 : UInt8.ofNat v ≠ 0xFD := by
        intro hh; have := congrArg UInt8.toNat hh; rw [hm] at this
        have : v = 253 := this
        omega
      simp only [varint, List.cons_append, List.nil_append, if_neg n1, if_neg n2, if_neg n3, hm]
    · split
      · rename_i e1 e2
        have hc := le_complete' 2 v r (by omega)
        have d1 : ¬ ((0xFD : UInt8) = 0xFF) := by decide
        have d2 : ¬ ((0xFD : UInt8) = 0xFE) := by decide
        have hx : ¬ v < 0xFD := by omega
        simp only [varint, List.cons_append, if_neg d1, if_neg d2, if_true, hc, if_neg hx]
      · split
        · rename_i e1 e2 e3
          have hc := le_complete' 4 v r (by omega)
          have d1 : ¬ ((0xFE : UInt8) = 0xFF) := by decide
          have hx : ¬ v < 0x10000 := by omega
          simp only [varint, List.cons_append, if_neg d1, if_true, hc, if_neg hx]
        · rename_i e1 e2 e3
          have hc := le_complete' 8 v r (by omega)
          have hx : ¬ v < 0x100000000 := by omega
          simp only [varint, List.cons_append, if_true, hc, if_neg hx]
  · intro bs s h
    cases bs with
    | nil => cases h
    | cons b t =>
      simp only [varint] at h
      split at h
      · cases hl : le 8 t with
        | ok p =>
          obtain ⟨x, r⟩ := p
          rw [hl] at h
          simp only at h
          split at h <;> cases h
        | err e => rw [hl] at h; cases h
        | panic s' => exact (le_lawful 8).total _ _ hl
      · split at h
        · cases hl : le 4 t with
          | ok p =>
            obtain ⟨x, r⟩ := p
            rw [hl] at h
            simp only at h
            split at h <;> cases h
          | err e => rw [hl] at h; cases h
          | panic s' => exact (le_lawful 4).total _ _ hl
        · split at h
          · cases hl : le 2 t with
            | ok p =>
              obtain ⟨x, r⟩ := p
              rw [hl] at h
              simp only at h
              split at h <;> cases h
            | err e => rw [hl] at h; cases h
            | panic s' => exact (le_lawful 2).total _ _ hl
          · cases h

/-- `Vec<u8>` with the allocation guard -/
theorem bytesVec_lawful : Lawful bytesVec encBytesVec (fun b => b.length ≤ maxVecSize) := by
  refine ⟨?_, ?_, ?_⟩
  · intro bs v rest h
    simp only [bytesVec] at h
    cases hv : varint bs with
    | ok p =>
      obtain ⟨n, r1⟩ := p
      rw [hv] at h
      simp only at h
      split at h
      · cases h
      · rename_i hn
        obtain ⟨h1, _⟩ := varint_lawful.sound _ _ _ hv
        obtain ⟨h2, h3⟩ := (take_lawful n).sound _ _ _ h
        subst h3
        simp only [encBytesVec, List.append_assoc]
        exact ⟨by rw [h1, h2], by omega⟩
    | err e => rw [hv] at h; cases h
    | panic s => rw [hv] at h; cases h
  · intro v r hv
    have hlt : v.length < 2 ^ 64 := by
      simp only [maxVecSize] at hv; omega
    have hc := varint_lawful.complete v.length (v ++ r) hlt
    have hn : ¬ v.length > maxVecSize := by omega
    simp only [bytesVec, encBytesVec, List.append_assoc, hc, if_neg hn]
    exact (take_lawful v.length).complete v r rfl
  · intro bs s h
    simp only [bytesVec] at h
    cases hv : varint bs with
    | ok p =>
      obtain ⟨n, r1⟩ := p
      rw [hv] at h
      simp only at h
      split at h
      · cases h
      · exact (take_lawful n).total _ _ h
    | err e => rw [hv] at h; cases h
    | panic s' => exact varint_lawful.total _ _ hv

theorem encBytesVec_length (b : Bytes) : (encBytesVec b).length = varintSize b.length + b.length := by
  simp [encBytesVec, encVarint_length]

/-- exactly `n` items -/
theorem repeatN_sound {α} (d : Dec α) (e : α → Bytes) (wf : α → Prop) (h : Lawful d e wf) :
    ∀ n bs vs rest, repeatN d n bs = .ok (vs, rest) →
      bs = vs.flatMap e ++ rest ∧ vs.length = n ∧ ∀ v ∈ vs, wf v := by
  intro n
  induction n with
  | zero =>
    intro bs vs rest hr
    simp only [repeatN, Res.ok.injEq, Prod.mk.injEq] at hr
    obtain ⟨rfl, rfl⟩ := hr
    simp
  | succ n ih =>
    intro bs vs rest hr
    simp only [repeatN] at hr
    cases hd : d bs with
    | ok p =>
      obtain ⟨a, r1⟩ := p
      rw [hd] at hr
      simp only at hr
      cases hrr : repeatN d n r1 with
      | ok q =>
        obtain ⟨as, r2⟩ := q
        rw [hrr] at hr
        simp only [Res.ok.injEq, Prod.mk.injEq] at hr
        obtain ⟨rfl, rfl⟩ := hr
        obtain ⟨h1, h2⟩ := h.sound _ _ _ hd
        obtain ⟨h3, h4, h5⟩ := ih _ _ _ hrr
        refine ⟨?_, by simp [h4], ?_⟩
        · simp only [List.flatMap_cons, List.append_assoc]
          rw [← h3, ← h1]
        · intro v hv
          rcases List.mem_cons.mp hv with rfl | hv
          · exact h2
          · exact h5 v hv
      | err e => rw [hrr] at hr; cases hr
      | panic s => rw [hrr] at hr; cases hr
    | err e => rw [hd] at hr; cases hr
    | panic s => rw [hd] at hr; cases hr

theorem repeatN_complete {α} (d : Dec α) (e : α → Bytes) (wf : α → Prop) (h : Lawful d e wf) :
    ∀ vs r, (∀ v ∈ vs, wf v) → repeatN d vs.length (vs.flatMap e ++ r) = .ok (vs, r) := by
  intro vs
  induction vs with
  | nil => intro r _; simp [repeatN]
  | cons a as ih =>
    intro r hw
    have h1 := h.complete a (as.flatMap e ++ r) (hw a (List.mem_cons_self))
    have h2 := ih r (fun v hv => hw v (List.mem_cons_of_mem _ hv))
    simp only [List.length_cons, List.flatMap_cons, List.append_assoc, repeatN, h1, h2]

theorem repeatN_total {α} (d : Dec α) (ht : ∀ bs s, d bs ≠ .panic s) :
    ∀ n bs s, repeatN d n bs ≠ .panic s := by
  intro n
  induction n with
  | zero => intro bs s hr; cases hr
  | succ n ih =>
    intro bs s hr
    simp only [repeatN] at hr
    cases hd : d bs with
    | ok p =>
      obtain ⟨a, r1⟩ := p
      rw [hd] at hr
      simp only at hr
      cases hrr : repeatN d n r1 with
      | ok q => rw [hrr] at hr; cases hr
      | err e => rw [hrr] at hr; cases hr
      | panic s' => exact ih _ _ hrr
    | err e => rw [hd] at hr; cases hr
    | panic s' => exact ht _ _ hd

/-- `Vec<T>`: count guard `len * size_of::<T>() ≤ MAX_VEC_SIZE` (`memSize > 0`) -/
theorem vecOf_lawful {α} (memSize : Nat) (hm : 0 < memSize) (d : Dec α) (e : α → Bytes) (wf : α → Prop)
    (h : Lawful d e wf) :
    Lawful (vecOf memSize d) (encVec e) (fun l => l.length * memSize ≤ maxVecSize ∧ ∀ v ∈ l, wf v) := by
  refine ⟨?_, ?_, ?_⟩
  · intro bs v rest hr
    simp only [vecOf] at hr
    cases hv : varint bs with
    | ok p =>
      obtain ⟨n, r1⟩ := p
      rw [hv] at hr
      simp only at hr
      split at hr
      · cases hr
      · split at hr
        · cases hr
        · rename_i hn1 hn2
          obtain ⟨h1, _⟩ := varint_lawful.sound _ _ _ hv
          obtain ⟨h2, h3, h4⟩ := repeatN_sound d e wf h _ _ _ _ hr
          subst h3
          simp only [encVec, List.append_assoc]
          exact ⟨by rw [h1, h2], by omega, h4⟩
    | err e => rw [hv] at hr; cases hr
    | panic s => rw [hv] at hr; cases hr
  · intro v r ⟨hlen, hw⟩
    have hle : v.length ≤ v.length * memSize := Nat.le_mul_of_pos_right _ hm
    have hmax : maxVecSize < 2 ^ 64 := by simp [maxVecSize]
    have hlt : v.length < 2 ^ 64 := by omega
    have hc := varint_lawful.complete v.length (v.flatMap e ++ r) hlt
    have hn1 : ¬ v.length * memSize ≥ 2 ^ 64 := by omega
    have hn2 : ¬ v.length * memSize > maxVecSize := by omega
    simp only [vecOf, encVec, List.append_assoc, hc, if_neg hn1, if_neg hn2]
    exact repeatN_complete d e wf h v r hw
  · intro bs s hr
    simp only [vecOf] at hr
    cases hv : varint bs with
    | ok p =>
      obtain ⟨n, r1⟩ := p
      rw [hv] at hr
      simp only at hr
      split at hr
      · cases hr
      · split at hr
        · cases hr
        · exact repeatN_total d h.total _ _ _ hr
    | err e => rw [hv] at hr; cases hr
    | panic s' => exact varint_lawful.total _ _ hv

/-- `Vec<Vec<u8>>` -/
theorem bytesVecVec_lawful :
    Lawful bytesVecVec encBytesVecVec
      (fun l => l.length * 24 ≤ maxVecSize ∧ ∀ b ∈ l, b.length ≤ maxVecSize) :=
  vecOf_lawful 24 (by decide) bytesVec encBytesVec _ bytesVec_lawful

/-- injectivity of an encoder that has a complete decoder (used for ids: C02) -/
theorem enc_injective_of_complete {α} {d : Dec α} {e : α → Bytes} {wf : α → Prop}
    (h : Lawful d e wf) (a b : α) (ha : wf a) (hb : wf b) (heq : e a = e b) : a = b := by
  have h1 := h.complete a [] ha
  have h2 := h.complete b [] hb
  rw [heq, h2] at h1
  simp only [Res.ok.injEq, Prod.mk.injEq] at h1
  exact h1.1.symm

/-- prefix-freeness: equal concatenations split equally -/
theorem enc_prefix_free {α} {d : Dec α} {e : α → Bytes} {wf : α → Prop}
    (h : Lawful d e wf) (a b : α) (r₁ r₂ : Bytes) (ha : wf a) (hb : wf b)
    (heq : e a ++ r₁ = e b ++ r₂) : a = b ∧ r₁ = r₂ := by
  have h1 := h.complete a r₁ ha
  have h2 := h.complete b r₂ hb
  rw [heq, h2] at h1
  simp only [Res.ok.injEq, Prod.mk.injEq] at h1
  exact ⟨h1.1.symm, h1.2.symm⟩

end EV.Proofs.CodecPrim
