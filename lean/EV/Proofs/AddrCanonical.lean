/-
  EV.Proofs.AddrCanonical — what a successful parse implies: the address is standard (shape), its
  display is the canonical (lower-case) form of the parsed string, the checksum variant is the one
  its version requires, and a string parses under at most one network.
-/
import EV.Proofs.AddrRoundtrip
namespace EV.Addr
open EV.Bech32 EV.Base58

/-! ### inversion of the two payload decoders -/

theorem fromBech32_inv (P : Prims) (s : Text) (blinded : Bool) (p : Gen.AddrParamsB) (a : Address)
    (h : fromBech32 P s blinded p = .ok a) :
    ∃ seg, segwitNew (if blinded then blechFlavor else crateFlavor) s = .ok seg ∧ a.params = p ∧
      ((blinded = false ∧ a.payload = .wit seg.version seg.bytes ∧ a.blinder = none) ∨
       (blinded = true ∧ 33 ≤ seg.bytes.length ∧ P.validPk (seg.bytes.take 33) = true ∧
        a.payload = .wit seg.version (seg.bytes.drop 33) ∧ a.blinder = some (seg.bytes.take 33))) := by
  unfold fromBech32 at h
  split at h
  · simp at h
  · simp at h
  · rename_i seg hseg
    refine ⟨seg, hseg, ?_⟩
    dsimp only at h
    cases blinded with
    | false =>
      simp only [Bool.false_eq_true, if_false, Res.ok.injEq] at h
      subst h
      exact ⟨rfl, Or.inl ⟨rfl, rfl, rfl⟩⟩
    | true =>
      simp only [if_true] at h
      split at h
      · simp at h
      · rename_i hlen
        split at h
        · simp at h
        · rename_i hpk
          simp only [Res.ok.injEq] at h
          subst h
          exact ⟨rfl, Or.inr ⟨rfl, by omega, by simpa using hpk, rfl, rfl⟩⟩

/-- the bytes `display` feeds to base58check -/
def base58Payload (a : Address) (h : List Nat) (pre : Nat) : List Nat :=
  match a.blinder with
  | some pk => a.params.blinded :: pre :: (pk ++ h)
  | none => pre :: h

theorem fromBase58_inv (P : Prims) (data : List Nat) (p : Gen.AddrParamsB) (a : Address)
    (h : fromBase58 P data p = .ok a) :
    a.params = p ∧ a.payload.isSegwit = false ∧
    (∃ b0 rest, data = b0 :: rest ∧ (b0 = p.p2pkh ∨ b0 = p.p2sh ∨ b0 = p.blinded)) ∧
    (∃ hash pre, (a.payload = .pkh hash ∧ pre = p.p2pkh ∨ a.payload = .sh hash ∧ pre = p.p2sh) ∧
      hash.length = 20 ∧ data = base58Payload a hash pre ∧
      (∀ pk, a.blinder = some pk → pk.length = 33 ∧ P.validPk pk = true)) := by
  unfold fromBase58 at h
  split at h
  · simp at h
  · rename_i b0 rest
    split at h
    · rename_i hb0
      split at h
      · simp at h
      · rename_i pre pkh
        split at h
        · simp at h
        · rename_i hlen
          dsimp only at h
          split at h
          · simp at h
          · rename_i hpk
            have hlen' : pkh.length = 53 := by simpa using hlen
            have hpk' : P.validPk (pkh.take 33) = true := by simpa using hpk
            have hsplit : pkh.take 33 ++ pkh.drop 33 = pkh := List.take_append_drop 33 pkh
            split at h
            · rename_i hpre
              simp only [Res.ok.injEq] at h; subst h
              refine ⟨rfl, rfl, ⟨b0, _, rfl, Or.inr (Or.inr hb0)⟩, pkh.drop 33, p.p2pkh, Or.inl ⟨rfl, rfl⟩, ?_, ?_, ?_⟩
              · simp [hlen']
              · simp [base58Payload, hsplit, hb0, hpre]
              · intro pk hpk2; simp only [Option.some.injEq] at hpk2; subst hpk2
                exact ⟨by simp [hlen'], hpk'⟩
            · split at h
              · rename_i hpre
                simp only [Res.ok.injEq] at h; subst h
                refine ⟨rfl, rfl, ⟨b0, _, rfl, Or.inr (Or.inr hb0)⟩, pkh.drop 33, p.p2sh, Or.inr ⟨rfl, rfl⟩, ?_, ?_, ?_⟩
                · simp [hlen']
                · simp [base58Payload, hsplit, hb0, hpre]
                · intro pk hpk2; simp only [Option.some.injEq] at hpk2; subst hpk2
                  exact ⟨by simp [hlen'], hpk'⟩
              · simp at h
    · split at h
      · simp at h
      · rename_i hlen
        have hlen' : rest.length = 20 := by simpa using hlen
        split at h
        · rename_i hpre
          simp only [Res.ok.injEq] at h; subst h
          exact ⟨rfl, rfl, ⟨b0, _, rfl, Or.inl hpre⟩, rest, p.p2pkh, Or.inl ⟨rfl, rfl⟩, hlen',
            by simp [base58Payload, hpre], by intro pk hpk; simp at hpk⟩
        · split at h
          · rename_i hpre
            simp only [Res.ok.injEq] at h; subst h
            exact ⟨rfl, rfl, ⟨b0, _, rfl, Or.inr (Or.inl hpre)⟩, rest, p.p2sh, Or.inr ⟨rfl, rfl⟩, hlen',
              by simp [base58Payload, hpre], by intro pk hpk; simp at hpk⟩
          · simp at h

/-! ### how `from_str` / `parse_with_params` reach a payload decoder -/

/-- the two successful routes through the parser -/
inductive Route (P : Prims) (s : Text) (p : Gen.AddrParamsB) (a : Address) : Prop where
  | segwit (blinded : Bool)
      (hm : lower (if blinded then p.blechHrp else p.bechHrp) = lower (findPrefix s))
      (h : fromBech32 P s blinded p = .ok a)
  | base58 (data : List Nat) (hd : decodeCheck P.sha256d s = some data) (h : fromBase58 P data p = .ok a)
      (hno : matchPrefix (findPrefix s) p.bechHrp = false ∧ matchPrefix (findPrefix s) p.blechHrp = false)

theorem fromBech32_params (P : Prims) (s : Text) (bl : Bool) (p : Gen.AddrParamsB) (a : Address)
    (h : fromBech32 P s bl p = .ok a) : a.params = p := by
  obtain ⟨_, _, hp, _⟩ := fromBech32_inv P s bl p a h
  exact hp

theorem route_of_fromStr (P : Prims) (s : Text) (a : Address) (h : fromStr P s = .ok a) :
    a.params ∈ Gen.allParamsB ∧ Route P s a.params a := by
  unfold fromStr at h
  split at h
  · rename_i r hr
    obtain ⟨p, hp, hcase⟩ := dispatchBech_some P s _ _ _ hr
    rw [order_eq_all] at hp
    rcases hcase with ⟨hm, rfl⟩ | ⟨hm, rfl⟩
    · have := fromBech32_params P s false p a h
      subst this
      exact ⟨hp, Route.segwit false hm h⟩
    · have := fromBech32_params P s true p a h
      subst this
      exact ⟨hp, Route.segwit true hm h⟩
  · rename_i hnone
    split at h
    · simp at h
    · split at h
      · simp at h
      · rename_i data hdec
        split at h
        · simp at h
        · rename_i b0 rest
          obtain ⟨p, hp, _, hfb⟩ := dispatchBase58_ok P _ _ _ _ h
          have hpa := (fromBase58_inv P _ p a hfb).1
          subst hpa
          rw [order_eq_all] at hp
          exact ⟨hp, Route.base58 _ hdec hfb (dispatchBech_none P s _ _ hnone _ (by rw [order_eq_all]; exact hp))⟩

theorem route_of_parseWithParams (P : Prims) (s : Text) (p : Gen.AddrParamsB) (a : Address)
    (h : parseWithParams P s p = .ok a) : a.params = p ∧ Route P s p a := by
  unfold parseWithParams at h
  dsimp only at h
  split at h
  · rename_i hm
    cases hbl : matchPrefix (findPrefix s) p.blechHrp with
    | true =>
      rw [hbl] at h
      exact ⟨fromBech32_params P s true p a h, Route.segwit true ((matchPrefix_iff _ _).1 hbl) h⟩
    | false =>
      rw [hbl] at h hm
      simp only [Bool.or_false] at hm
      exact ⟨fromBech32_params P s false p a h, Route.segwit false ((matchPrefix_iff _ _).1 hm) h⟩
  · rename_i hm
    simp only [Bool.or_eq_true, not_or, Bool.not_eq_true] at hm
    split at h
    · simp at h
    · split at h
      · simp at h
      · rename_i data hdec
        exact ⟨(fromBase58_inv P _ p a h).1, Route.base58 data hdec h hm⟩

/-! ### shape -/

theorem encode_congr_lower (v : Variant) (h1 h2 : Text) (ver : Nat) (fes : List Nat) (h : lower h1 = lower h2) :
    Bech32.encode v h1 ver fes = Bech32.encode v h2 ver fes := by
  have hx : ∀ h : Text, hrpExpand h = (lower h).map (· / 32) ++ 0 :: (lower h).map (· % 32) := by
    intro h; simp [hrpExpand, lower, List.map_map, Function.comp_def]
  simp only [Bech32.encode, hx, h]

theorem validateLength_crate (ver n : Nat) (h : validateLength crateFlavor ver n = true) :
    2 ≤ n ∧ n ≤ 40 ∧ (ver = 0 → n = 20 ∨ n = 32) := by
  unfold validateLength at h
  simp only [crateFlavor] at h
  by_cases h1 : n < 2
  · simp [h1] at h
  · by_cases h2 : n > 40
    · simp [h1, h2] at h
    · refine ⟨by omega, by omega, ?_⟩
      intro h0
      by_cases ha : n = 20
      · exact Or.inl ha
      · by_cases hb : n = 32
        · exact Or.inr hb
        · simp [h1, h2, h0, ha, hb] at h

theorem validateLength_blech (ver n : Nat) (h : validateLength blechFlavor ver n = true) :
    35 ≤ n ∧ n ≤ 73 ∧ (ver = 0 → n = 53 ∨ n = 65) := by
  unfold validateLength at h
  simp only [blechFlavor] at h
  by_cases h1 : n < 2 + 33
  · simp [h1] at h
  · by_cases h2 : n > 40 + 33
    · simp [h1, h2] at h
    · refine ⟨by omega, by omega, ?_⟩
      intro h0
      by_cases ha : n = 53
      · exact Or.inl ha
      · by_cases hb : n = 65
        · exact Or.inr hb
        · simp [h1, h2, h0, ha, hb] at h

/-- what a successful `from_bech32` delivers: a standard address whose display is the lower-cased input -/
theorem fromBech32_sound (P : Prims) (s : Text) (bl : Bool) (p : Gen.AddrParamsB) (hp : p ∈ Gen.allParamsB)
    (a : Address) (hm : lower (if bl then p.blechHrp else p.bechHrp) = lower (findPrefix s))
    (h : fromBech32 P s bl p = .ok a) :
    WF P a ∧ display P a = lower s ∧ a.payload.isSegwit = true := by
  obtain ⟨seg, hseg, hpar, hcase⟩ := fromBech32_inv P s bl p a h
  obtain ⟨p', pl, blr⟩ := a
  simp only at hpar hcase
  subst hpar
  have hfl : IsFlavor (if bl then blechFlavor else crateFlavor) := by
    cases bl
    · exact Or.inl rfl
    · exact Or.inr rfl
  obtain ⟨hlow, hver, hfes, hpad, hvl, d, hsd, hd49⟩ := encode_of_segwitNew _ hfl s seg hseg
  have hpre : findPrefix s = seg.hrp := by rw [hsd]; exact findPrefix_split _ _ hd49
  rw [hpre] at hm
  have hblen : seg.bytes.length = seg.fes.length * 5 / 8 := fesToBytes_length _
  have hbback : bytesToFes seg.bytes = seg.fes := bytesToFes_fesToBytes seg.fes hfes hpad
  have hbytes : bytesOk seg.bytes := fesToBytes_lt _
  rcases hcase with ⟨hb, hpl, hbr⟩ | ⟨hb, hlen33, hvpk, hpl, hbr⟩
  · subst hb; subst hpl; subst hbr
    simp only [Bool.false_eq_true, if_false] at hvl hlow hm
    rw [← hblen] at hvl
    obtain ⟨h2, h40, hv0⟩ := validateLength_crate _ _ hvl
    refine ⟨⟨hp, ⟨hver, h2, h40, hv0, hbytes⟩, trivial⟩, ?_, rfl⟩
    simp only [display, hbback, hlow]
    exact encode_congr_lower _ _ _ _ _ hm
  · subst hb; subst hpl; subst hbr
    simp only [if_true] at hvl hlow hm
    rw [← hblen] at hvl
    obtain ⟨h35, h73, hv0⟩ := validateLength_blech _ _ hvl
    have hsplit : seg.bytes.take 33 ++ seg.bytes.drop 33 = seg.bytes := List.take_append_drop 33 _
    refine ⟨⟨hp, ⟨hver, by simp; omega, by simp; omega, ?_, ?_⟩, ⟨by simp; omega, hvpk, ?_⟩⟩, ?_, rfl⟩
    · intro h0
      have := hv0 h0
      simp only [List.length_drop]
      omega
    · intro b hb; exact hbytes b (List.mem_of_mem_drop hb)
    · intro b hb; exact hbytes b (List.mem_of_mem_take hb)
    · simp only [display, hsplit, hbback, hlow]
      exact encode_congr_lower _ _ _ _ _ hm

/-- what a successful `from_base58` after `decode_check` delivers -/
theorem fromBase58_sound (P : Prims) (s : Text) (data : List Nat) (p : Gen.AddrParamsB) (hp : p ∈ Gen.allParamsB)
    (a : Address) (hd : decodeCheck P.sha256d s = some data) (h : fromBase58 P data p = .ok a) :
    WF P a ∧ display P a = s ∧ a.payload.isSegwit = false := by
  obtain ⟨hpar, hseg, _, hash, pre, hkind, hlen, hdata, hblind⟩ := fromBase58_inv P data p a h
  have hlt := decodeCheck_lt _ _ _ hd
  have henc := encodeCheck_decodeCheck _ _ _ hd
  obtain ⟨p', pl, blr⟩ := a
  simp only at hpar hkind hdata hblind hseg
  subst hpar
  have hhash : bytesOk hash := by
    intro b hb
    apply hlt b
    rw [hdata]
    simp only [base58Payload]
    cases blr <;> simp [hb]
  have hbl : BlinderOk P blr := by
    cases blr with
    | none => trivial
    | some pk =>
      obtain ⟨h33, hv⟩ := hblind pk rfl
      refine ⟨h33, hv, ?_⟩
      intro b hb
      apply hlt b
      rw [hdata]
      simp [base58Payload, hb]
  rcases hkind with ⟨rfl, rfl⟩ | ⟨rfl, rfl⟩
  · refine ⟨⟨hp, ⟨hlen, hhash⟩, hbl⟩, ?_, rfl⟩
    rw [← henc, hdata]
    cases blr <;> simp [display, base58Payload]
  · refine ⟨⟨hp, ⟨hlen, hhash⟩, hbl⟩, ?_, rfl⟩
    rw [← henc, hdata]
    cases blr <;> simp [display, base58Payload]

/-- every route ends in a standard address whose display is the canonical form of the input -/
theorem route_sound (P : Prims) (s : Text) (p : Gen.AddrParamsB) (hp : p ∈ Gen.allParamsB) (a : Address)
    (r : Route P s p a) :
    WF P a ∧ display P a = (if a.payload.isSegwit then lower s else s) := by
  cases r with
  | segwit bl hm h =>
    obtain ⟨hwf, hd, hs⟩ := fromBech32_sound P s bl p hp a hm h
    exact ⟨hwf, by rw [hs]; simpa using hd⟩
  | base58 data hd h _ =>
    obtain ⟨hwf, hdisp, hs⟩ := fromBase58_sound P s data p hp a hd h
    exact ⟨hwf, by rw [hs]; simpa using hdisp⟩

/-! ### at most one network -/

/-- the residual case no proof can exclude without evaluating the hash: the same string is accepted
    by a segwit decoder AND is a valid base58check string (32-bit SHA-256d checksum coincidence) -/
def MixedForms (P : Prims) (s : Text) : Prop :=
  (∃ f seg, IsFlavor f ∧ segwitNew f s = .ok seg) ∧ (∃ data, decodeCheck P.sha256d s = some data)

theorem hrp_owner (p q : Gen.AddrParamsB) (hp : p ∈ Gen.allParamsB) (hq : q ∈ Gen.allParamsB)
    (h1 : Text) (hh1 : h1 ∈ hrps p) (hh2 : h1 ∈ hrps q) : p = q := by
  simp only [hrps, List.mem_cons, List.mem_nil_iff, or_false] at hh1 hh2
  rcases mem_all p hp with rfl | rfl | rfl <;> rcases mem_all q hq with rfl | rfl | rfl <;>
    first
    | rfl
    | (exfalso; rcases hh1 with rfl | rfl <;> revert hh2 <;> decide)

theorem prefix_owner (p q : Gen.AddrParamsB) (hp : p ∈ Gen.allParamsB) (hq : q ∈ Gen.allParamsB)
    (b : Nat) (h1 : b ∈ prefixBytes p) (h2 : b ∈ prefixBytes q) : p = q := by
  simp only [prefixBytes, List.mem_cons, List.mem_nil_iff, or_false] at h1 h2
  rcases mem_all p hp with rfl | rfl | rfl <;> rcases mem_all q hq with rfl | rfl | rfl <;>
    first
    | rfl
    | (exfalso; rcases h1 with rfl | rfl | rfl <;> revert h2 <;> decide)

theorem routes_same_network (P : Prims) (s : Text) (p q : Gen.AddrParamsB) (hp : p ∈ Gen.allParamsB)
    (hq : q ∈ Gen.allParamsB) (a b : Address) (ra : Route P s p a) (rb : Route P s q b) :
    p = q ∨ MixedForms P s := by
  have hlow : ∀ r ∈ Gen.allParamsB, ∀ h ∈ hrps r, lower h = h := by
    intro r hr h hh
    exact hrpOk_lower h (hrps_ok h (List.mem_flatMap.2 ⟨r, hr, hh⟩)).1
  have flv : ∀ bl : Bool, IsFlavor (if bl then blechFlavor else crateFlavor) := by
    intro bl; cases bl
    · exact Or.inl rfl
    · exact Or.inr rfl
  cases ra with
  | segwit bl1 hm1 h1 =>
    cases rb with
    | segwit bl2 hm2 h2 =>
      left
      have hmem1 : (if bl1 then p.blechHrp else p.bechHrp) ∈ hrps p := by cases bl1 <;> simp [hrps]
      have hmem2 : (if bl2 then q.blechHrp else q.bechHrp) ∈ hrps q := by cases bl2 <;> simp [hrps]
      have heq : (if bl1 then p.blechHrp else p.bechHrp) = (if bl2 then q.blechHrp else q.bechHrp) := by
        rw [← hlow p hp _ hmem1, ← hlow q hq _ hmem2, hm1, hm2]
      exact hrp_owner p q hp hq _ hmem1 (heq ▸ hmem2)
    | base58 data hd h2 _ =>
      right
      obtain ⟨seg, hseg, _⟩ := fromBech32_inv P s bl1 p a h1
      exact ⟨⟨_, seg, flv bl1, hseg⟩, ⟨data, hd⟩⟩
  | base58 data hd h1 _ =>
    cases rb with
    | segwit bl2 hm2 h2 =>
      right
      obtain ⟨seg, hseg, _⟩ := fromBech32_inv P s bl2 q b h2
      exact ⟨⟨_, seg, flv bl2, hseg⟩, ⟨data, hd⟩⟩
    | base58 data2 hd2 h2 _ =>
      left
      rw [hd] at hd2
      simp only [Option.some.injEq] at hd2
      subst hd2
      obtain ⟨_, _, ⟨b0, rest, hdat, hb0⟩, _⟩ := fromBase58_inv P data p a h1
      obtain ⟨_, _, ⟨b0', rest', hdat', hb0'⟩, _⟩ := fromBase58_inv P data q b h2
      rw [hdat] at hdat'
      simp only [List.cons.injEq] at hdat'
      obtain ⟨rfl, _⟩ := hdat'
      apply prefix_owner p q hp hq b0
      · simp only [prefixBytes, List.mem_cons, List.mem_nil_iff, or_false]; exact hb0
      · simp only [prefixBytes, List.mem_cons, List.mem_nil_iff, or_false]; exact hb0'

/-! ### the checksum variant is the one the version requires -/

theorem parsed_variant_of_route (P : Prims) (s : Text) (p : Gen.AddrParamsB) (a : Address) (r : Route P s p a)
    (ver : Nat) (prog : List Nat) (hpl : a.payload = .wit ver prog) :
    ∃ h d, s = h ++ 49 :: d ∧ (∀ c ∈ d, (fromChar c).isSome = true) ∧
      (a.blinder.isSome = true →
        verify (blechFlavor.variant ver) h (d.map sym) = true ∧ blechFlavor.variant ver = (if ver = 0 then blech32 else blech32m)) ∧
      (a.blinder.isSome = false →
        verify (crateFlavor.variant ver) h (d.map sym) = true ∧ crateFlavor.variant ver = (if ver = 0 then bech32 else bech32m)) := by
  cases r with
  | base58 data hd h _ =>
    have := (fromBase58_inv P data p a h).2.1
    rw [hpl] at this
    simp [Payload.isSegwit] at this
  | segwit bl hm h =>
    obtain ⟨seg, hseg, _, hcase⟩ := fromBech32_inv P s bl p a h
    obtain ⟨hrp, c0, rest, _, hun, _, hck, hvs⟩ := segwitNew_inv _ s seg hseg
    obtain ⟨hsplit, _, hal⟩ := uncheckedNew_inv _ _ _ hun
    obtain ⟨hsd, _⟩ := splitLast_spec _ _ _ hsplit
    obtain ⟨hcl, hverify⟩ := validateChecksum_inv _ _ _ _ _ hck
    obtain ⟨c1, rest1, htake, _, _, _, hr⟩ := validateSegwit_inv _ _ _ _ _ hvs
    -- the version symbol of the result is the first data character
    have hpos : 0 < (c0 :: rest).length - (Flavor.variant (if bl then blechFlavor else crateFlavor) (sym c0)).code.len := by
      cases hk : (c0 :: rest).length - (Flavor.variant (if bl then blechFlavor else crateFlavor) (sym c0)).code.len with
      | zero => rw [hk] at htake; simp at htake
      | succ k => omega
    have hc : c1 = c0 := by
      obtain ⟨k, hk⟩ : ∃ k, (c0 :: rest).length - (Flavor.variant (if bl then blechFlavor else crateFlavor) (sym c0)).code.len = k + 1 :=
        ⟨_, (Nat.succ_pred_eq_of_pos hpos).symm⟩
      rw [hk, List.take_succ_cons] at htake
      simp only [List.cons.injEq] at htake
      exact htake.1.symm
    have hsv : seg.version = sym c0 := by rw [hr, hc]
    refine ⟨hrp, c0 :: rest, hsd, hal, ?_, ?_⟩
    · intro hb
      rcases hcase with ⟨hbl, _, hbr⟩ | ⟨hbl, _, _, hpl', _⟩
      · rw [hbr] at hb; simp at hb
      · subst hbl
        rw [hpl] at hpl'
        simp only [Payload.wit.injEq] at hpl'
        rw [hpl'.1, hsv]
        exact ⟨by simpa using hverify, rfl⟩
    · intro hb
      rcases hcase with ⟨hbl, hpl', _⟩ | ⟨hbl, _, _, _, hbr⟩
      · subst hbl
        rw [hpl] at hpl'
        simp only [Payload.wit.injEq] at hpl'
        rw [hpl'.1, hsv]
        exact ⟨by simpa using hverify, rfl⟩
      · rw [hbr] at hb; simp at hb

end EV.Addr
