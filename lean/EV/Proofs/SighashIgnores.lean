/-
  `*_ignores`: each signing message depends only on the fields named by the explicit predicates
  `legacyAgree` / `segwitAgree` / `taprootAgree` (EV/Proofs/SighashDefs.lean).
-/
import EV.Proofs.SighashRefine
namespace EV.Sighash
open EV EV.Codec

namespace Ignores

/-- pointwise consequence of equal maps -/
theorem getD_of_map_eq {α β} (g : α → β) (la lb : List α) (h : la.map g = lb.map g) (k : Nat) (d : α) :
    g (la.getD k d) = g (lb.getD k d) := by
  have := congrArg (fun l => l[k]?) h
  simp only [List.getElem?_map] at this
  simp only [List.getD_eq_getElem?_getD]
  cases ha : la[k]? <;> cases hb : lb[k]? <;> simp_all

theorem getD_of_getElem?_map_eq {α β} (g : α → β) (la lb : List α) (k : Nat) (d : α)
    (h : (la[k]?).map g = (lb[k]?).map g) : g (la.getD k d) = g (lb.getD k d) := by
  simp only [List.getD_eq_getElem?_getD]
  cases ha : la[k]? <;> cases hb : lb[k]? <;> simp_all

theorem length_of_map_eq {α β} (g : α → β) (la lb : List α) (h : la.map g = lb.map g) : la.length = lb.length := by
  have := congrArg List.length h
  simpa using this

theorem isSome_of_getElem?_map_eq {α β} (g : α → β) (la lb : List α) (k : Nat)
    (h : (la[k]?).map g = (lb[k]?).map g) : (k < la.length ↔ k < lb.length) := by
  cases ha : la[k]? with
  | none =>
    cases hb : lb[k]? with
    | none =>
      have := List.getElem?_eq_none_iff.mp ha; have := List.getElem?_eq_none_iff.mp hb; omega
    | some y => rw [ha, hb] at h; cases h
  | some x =>
    cases hb : lb[k]? with
    | none => rw [ha, hb] at h; cases h
    | some y =>
      have h1 : k < la.length := by
        rcases List.getElem?_eq_some_iff.mp ha with ⟨w, _⟩; exact w
      have h2 : k < lb.length := by
        rcases List.getElem?_eq_some_iff.mp hb with ⟨w, _⟩; exact w
      exact ⟨fun _ => h2, fun _ => h1⟩

theorem ig_ecdsa_acp_iff (ty : EcdsaTy) : (ty.asU32 &&& SIGHASH_ANYONECANPAY ≠ 0) ↔ ty.acp = true := by
  cases ty <;> decide
theorem ig_ecdsa_single_iff (ty : EcdsaTy) : (ty.asU32 &&& 0x1f = SIGHASH_SINGLE) ↔ ty.base = .single := by
  cases ty <;> decide
theorem ig_ecdsa_none_iff (ty : EcdsaTy) : (ty.asU32 &&& 0x1f = SIGHASH_NONE) ↔ ty.base = .none := by
  cases ty <;> decide

end Ignores
open Ignores

/-- the record the legacy algorithm signs is the same for two transactions that agree on the
    committed fields -/
theorem legacyView_of_agree (ty : EcdsaTy) (idx : Nat) (a b : Tx) (script : Bytes)
    (h : legacyAgree ty idx a b) :
    specLegacyView a idx script ty.asU32 = specLegacyView b idx script ty.asU32 := by
  obtain ⟨hv, hl, hme, hins, hseq, houts⟩ := h
  have hme1 : inCore (a.input.getD idx default) = inCore (b.input.getD idx default) := by
    have := getD_of_getElem?_map_eq (fun i => (inCore i, i.sequence)) a.input b.input idx default hme
    exact congrArg Prod.fst this
  have hme2 : (a.input.getD idx default).sequence = (b.input.getD idx default).sequence := by
    have := getD_of_getElem?_map_eq (fun i => (inCore i, i.sequence)) a.input b.input idx default hme
    exact congrArg Prod.snd this
  simp only [specLegacyView, hv, hl]
  congr 1
  · -- inputs
    by_cases hacp : ty.acp = true
    · have e : (ty.asU32 &&& SIGHASH_ANYONECANPAY ≠ 0) := (ig_ecdsa_acp_iff ty).2 hacp
      rw [if_pos e, if_pos e]
      apply List.map_congr_left
      intro k _
      simp only [specLegacyInput]
      rw [if_pos e]
      simp only [inCore, Prod.mk.injEq] at hme1
      obtain ⟨h1, h2, h3⟩ := hme1
      simp only [h1, h2, h3, hme2]
    · have hacp' : ty.acp = false := by simpa using hacp
      have e : ¬ (ty.asU32 &&& SIGHASH_ANYONECANPAY ≠ 0) := fun x => hacp ((ig_ecdsa_acp_iff ty).1 x)
      have hlen := length_of_map_eq _ _ _ (hins hacp')
      rw [if_neg e, if_neg e, hlen]
      apply List.map_congr_left
      intro k _
      simp only [specLegacyInput]
      rw [if_neg e]
      have hk := getD_of_map_eq inCore a.input b.input (hins hacp') k default
      simp only [inCore, Prod.mk.injEq] at hk
      obtain ⟨h1, h2, h3⟩ := hk
      have hs : (if k ≠ idx ∧ (ty.asU32 &&& 0x1f = SIGHASH_SINGLE ∨ ty.asU32 &&& 0x1f = SIGHASH_NONE) then 0
                  else (a.input.getD k default).sequence) =
                (if k ≠ idx ∧ (ty.asU32 &&& 0x1f = SIGHASH_SINGLE ∨ ty.asU32 &&& 0x1f = SIGHASH_NONE) then 0
                  else (b.input.getD k default).sequence) := by
        by_cases hk' : k = idx
        · subst hk'; simp only [ne_eq, not_true_eq_false, false_and, if_false]; exact hme2
        · by_cases hb : ty.base = .all
          · have := getD_of_map_eq (fun i => i.sequence) a.input b.input (hseq hacp' hb) k default
            simp only [this]
          · have : (ty.asU32 &&& 0x1f = SIGHASH_SINGLE ∨ ty.asU32 &&& 0x1f = SIGHASH_NONE) := by
              rw [ig_ecdsa_single_iff, ig_ecdsa_none_iff]
              cases hbb : ty.base <;> simp_all
            simp [hk', this]
      simp only [h1, h2, h3, hs]
  · -- outputs
    cases hb : ty.base with
    | all =>
      have e1 : ¬ (ty.asU32 &&& 0x1f = SIGHASH_NONE) := by rw [ig_ecdsa_none_iff, hb]; decide
      have e2 : ¬ (ty.asU32 &&& 0x1f = SIGHASH_SINGLE) := by rw [ig_ecdsa_single_iff, hb]; decide
      rw [hb] at houts
      simp only at houts
      have hlen := length_of_map_eq _ _ _ houts
      rw [if_neg e1, if_neg e1, if_neg e2, if_neg e2, hlen]
      apply List.map_congr_left
      intro k _
      simp only [specLegacyOutput]
      rw [if_neg (fun x => e2 x.1), if_neg (fun x => e2 x.1)]
      exact getD_of_map_eq outBody a.output b.output houts k default
    | none =>
      have e1 : (ty.asU32 &&& 0x1f = SIGHASH_NONE) := by rw [ig_ecdsa_none_iff, hb]
      rw [if_pos e1, if_pos e1]
      rfl
    | single =>
      have e1 : ¬ (ty.asU32 &&& 0x1f = SIGHASH_NONE) := by rw [ig_ecdsa_none_iff, hb]; decide
      have e2 : (ty.asU32 &&& 0x1f = SIGHASH_SINGLE) := by rw [ig_ecdsa_single_iff, hb]
      rw [hb] at houts
      simp only at houts
      rw [if_neg e1, if_neg e1, if_pos e2, if_pos e2]
      apply List.map_congr_left
      intro k _
      simp only [specLegacyOutput]
      by_cases hk : k = idx
      · subst hk
        rw [if_neg (fun x => x.2 rfl), if_neg (fun x => x.2 rfl)]
        exact getD_of_getElem?_map_eq outBody a.output b.output k default houts
      · rw [if_pos ⟨e2, hk⟩, if_pos ⟨e2, hk⟩]

/-- LEGACY: the message is invariant under every change that keeps `legacyAgree` -/
theorem legacy_ignores' (ty : EcdsaTy) (idx : Nat) (script : Bytes) (a b : Tx) (h : legacyAgree ty idx a b) :
    msgLegacy a idx script ty = msgLegacy b idx script ty := by
  have hin : idx < a.input.length ↔ idx < b.input.length :=
    isSome_of_getElem?_map_eq _ _ _ _ h.2.2.1
  by_cases ha : idx < a.input.length
  · have hb := hin.1 ha
    by_cases hs : ty.base = .single ∧ idx ≥ a.output.length
    · -- the constant on both sides
      have hout := h.2.2.2.2.2
      rw [hs.1] at hout
      simp only at hout
      have := isSome_of_getElem?_map_eq _ _ _ _ hout
      have hs' : ty.base = .single ∧ idx ≥ b.output.length := ⟨hs.1, by omega⟩
      simp only [msgLegacy, ha, hb, not_true_eq_false, if_false, hs, hs', and_self, if_true]
    · have hout := h.2.2.2.2.2
      have hs' : ¬ (ty.base = .single ∧ idx ≥ b.output.length) := by
        intro hh
        rw [hh.1] at hout
        simp only at hout
        have := isSome_of_getElem?_map_eq _ _ _ _ hout
        exact hs ⟨hh.1, by omega⟩
      have ra : InRange ty idx a := ⟨ha, fun hb' => by
        have : ¬ idx ≥ a.output.length := fun x => hs ⟨hb', x⟩
        omega⟩
      have rb : InRange ty idx b := ⟨hb, fun hb' => by
        have : ¬ idx ≥ b.output.length := fun x => hs' ⟨hb', x⟩
        omega⟩
      rw [legacy_refines a idx script ty ra, legacy_refines b idx script ty rb, legacyView_of_agree ty idx a b script h]
  · have hb : ¬ idx < b.input.length := fun x => ha (hin.2 x)
    simp only [msgLegacy, ha, hb, not_false_eq_true, if_true]


namespace Ignores

theorem ig_issuanceOrZero_eq (i : TxIn) : issuanceOrZero i = encIssuanceOpt (issuanceOf i) := by
  by_cases h : i.assetIssuance.isNull = true <;> simp [issuanceOrZero, issuanceOf, TxIn.hasIssuance, h, encIssuanceOpt]

theorem issuancePart_eq (i : TxIn) :
    (if i.hasIssuance then i.assetIssuance.enc else []) =
      (match issuanceOf i with | some x => x.enc | none => []) := by
  by_cases h : i.assetIssuance.isNull = true <;> simp [issuanceOf, TxIn.hasIssuance, h]

theorem preOutpoints_congr {β} (g : TxIn → β) (p : β → OutPoint) (hp : ∀ i, p (g i) = i.previousOutput)
    (a b : Tx) (h : a.input.map g = b.input.map g) : preOutpoints a = preOutpoints b := by
  have e : ∀ t : Tx, preOutpoints t = (t.input.map g).flatMap (fun c => (p c).enc) := by
    intro t; simp only [preOutpoints, List.flatMap_map, hp]
  rw [e a, e b, h]

theorem preIssuances_congr {β} (g : TxIn → β) (p : β → Option AssetIssuance) (hp : ∀ i, p (g i) = issuanceOf i)
    (a b : Tx) (h : a.input.map g = b.input.map g) : preIssuances a = preIssuances b := by
  have e : ∀ t : Tx, preIssuances t = (t.input.map g).flatMap (fun c => encIssuanceOpt (p c)) := by
    intro t; simp only [preIssuances, List.flatMap_map, hp]
    congr 1; funext i; exact ig_issuanceOrZero_eq i
  rw [e a, e b, h]

theorem preSequences_congr {β} (g : TxIn → β) (p : β → Nat) (hp : ∀ i, p (g i) = i.sequence)
    (a b : Tx) (h : a.input.map g = b.input.map g) : preSequences a = preSequences b := by
  have e : ∀ t : Tx, preSequences t = (t.input.map g).flatMap (fun c => encLe 4 (p c)) := by
    intro t; simp only [preSequences, List.flatMap_map, hp]
  rw [e a, e b, h]

theorem preOutputs_congr (a b : Tx) (h : a.output.map outBody = b.output.map outBody) : preOutputs a = preOutputs b := by
  have e : ∀ t : Tx, preOutputs t = (t.output.map outBody).flatMap TxOut.enc := by
    intro t; simp only [preOutputs, List.flatMap_map]; rfl
  rw [e a, e b, h]

theorem outBody_enc (o o' : TxOut) (h : outBody o = outBody o') : o.enc = o'.enc := by
  have : (outBody o).enc = (outBody o').enc := by rw [h]
  exact this

end Ignores
open Ignores

/-- SEGWIT v0: the message is invariant under every change that keeps `segwitAgree` -/
theorem segwit_ignores' (H : SigHashes) (ty : EcdsaTy) (idx : Nat) (sc : Bytes) (v : Value) (a b : Tx)
    (h : segwitAgree ty idx a b) : msgSegwit H a idx sc v ty = msgSegwit H b idx sc v ty := by
  obtain ⟨hv, hl, hme, hins, hseq, houts⟩ := h
  have hP : ty.acp = false → preOutpoints a = preOutpoints b := fun x =>
    preOutpoints_congr _ (fun c => c.1) (fun _ => rfl) a b (hins x)
  have hI : ty.acp = false → preIssuances a = preIssuances b := fun x =>
    preIssuances_congr _ (fun c => c.2) (fun _ => rfl) a b (hins x)
  have hS : ty.acp = false → ty.base = .all → preSequences a = preSequences b := fun x y =>
    preSequences_congr _ (fun c => c) (fun _ => rfl) a b (hseq x y)
  have hO : ty.base = .all → preOutputs a = preOutputs b := fun x => by
    rw [x] at houts; exact preOutputs_congr a b houts
  have hSi : ty.base = .single →
      (if ty.base = .single ∧ idx < a.output.length then
        match a.output[idx]? with
        | some o => H.sha256d o.enc
        | none => zero32
       else zero32) =
      (if ty.base = .single ∧ idx < b.output.length then
        match b.output[idx]? with
        | some o => H.sha256d o.enc
        | none => zero32
       else zero32) := by
    intro x
    rw [x] at houts
    simp only at houts
    have hlt := isSome_of_getElem?_map_eq _ _ _ _ houts
    cases ha : a.output[idx]? with
    | none =>
      cases hb : b.output[idx]? with
      | none => simp
      | some y => rw [ha, hb] at houts; cases houts
    | some y =>
      cases hb : b.output[idx]? with
      | none => rw [ha, hb] at houts; cases houts
      | some y' =>
        rw [ha, hb] at houts
        simp only [Option.map_some, Option.some.injEq] at houts
        have := outBody_enc _ _ houts
        have h1 : idx < a.output.length := by
          rcases List.getElem?_eq_some_iff.mp ha with ⟨w, _⟩; exact w
        have h2 : idx < b.output.length := hlt.1 h1
        simp only [x, h1, h2, and_self, if_true, this]
  unfold msgSegwit
  cases ha : a.input[idx]? with
  | none =>
    cases hb : b.input[idx]? with
    | none => rfl
    | some y => rw [ha, hb] at hme; cases hme
  | some x =>
    cases hb : b.input[idx]? with
    | none => rw [ha, hb] at hme; cases hme
    | some y =>
      rw [ha, hb] at hme
      simp only [Option.map_some, Option.some.injEq, Prod.mk.injEq] at hme
      obtain ⟨h1, h2, h3⟩ := hme
      simp only [issuancePart_eq, h1, h2, h3, hv, hl]
      cases ty <;>
        simp_all [EcdsaTy.acp, EcdsaTy.base, commonOf, segwitOf]
      all_goals exact hSi


namespace Ignores

/-- the flag byte is a function of the pegin flag and the presence of an issuance -/
def flagOfCore (c : OutPoint × Bool × Option AssetIssuance) : UInt8 :=
  UInt8.ofNat (((if c.2.1 then 1 else 0) <<< Gen.outpointFlagPeginShift) |||
               ((if c.2.2.isSome then 1 else 0) <<< Gen.outpointFlagIssuanceShift))

theorem hasIssuance_eq (i : TxIn) : i.hasIssuance = (issuanceOf i).isSome := by
  by_cases h : i.assetIssuance.isNull = true <;> simp [issuanceOf, TxIn.hasIssuance, h]

theorem ig_outpointFlag_eq (i : TxIn) : outpointFlag i = flagOfCore (inCore i) := by
  simp only [outpointFlag, flagOfCore, inCore, hasIssuance_eq]
  by_cases hp : i.isPegin = true <;> by_cases hq : (issuanceOf i).isSome = true <;> simp [hp, hq]

theorem ig_issuanceProofs_eq (i : TxIn) : issuanceProofs i = encProofs (proofsOf i) := rfl

theorem preOutpointFlags_congr {β} (g : TxIn → β) (p : β → OutPoint × Bool × Option AssetIssuance)
    (hp : ∀ i, p (g i) = inCore i) (a b : Tx) (h : a.input.map g = b.input.map g) :
    preOutpointFlags a = preOutpointFlags b := by
  have e : ∀ t : Tx, preOutpointFlags t = (t.input.map g).map (fun c => flagOfCore (p c)) := by
    intro t; simp only [preOutpointFlags, List.map_map]
    congr 1; funext i; simp only [Function.comp, hp, ig_outpointFlag_eq]
  rw [e a, e b, h]

theorem preIssuanceRangeproofs_congr {β} (g : TxIn → β) (p : β → Option Bytes × Option Bytes)
    (hp : ∀ i, p (g i) = proofsOf i) (a b : Tx) (h : a.input.map g = b.input.map g) :
    preIssuanceRangeproofs a = preIssuanceRangeproofs b := by
  have e : ∀ t : Tx, preIssuanceRangeproofs t = (t.input.map g).flatMap (fun c => encProofs (p c)) := by
    intro t; simp only [preIssuanceRangeproofs, List.flatMap_map, hp]
    congr 1
  rw [e a, e b, h]

theorem preAssetAmounts_congr (ps ps' : List TxOut) (h : ps.map spentCore = ps'.map spentCore) :
    preAssetAmounts ps = preAssetAmounts ps' := by
  have e : ∀ l : List TxOut, preAssetAmounts l = (l.map spentCore).flatMap (fun c => c.1.enc ++ c.2.1.enc) := by
    intro l; simp only [preAssetAmounts, List.flatMap_map, spentCore]
  rw [e ps, e ps', h]

theorem preScriptPubkeys_congr (ps ps' : List TxOut) (h : ps.map spentCore = ps'.map spentCore) :
    preScriptPubkeys ps = preScriptPubkeys ps' := by
  have e : ∀ l : List TxOut, preScriptPubkeys l = (l.map spentCore).flatMap (fun c => encBytesVec c.2.2) := by
    intro l; simp only [preScriptPubkeys, List.flatMap_map, spentCore]
  rw [e ps, e ps', h]

/-- "data about this input" as a function of the committed parts only -/
def thisSer (H : SigHashes) (c : OutPoint × Bool × Nat × Option (AssetIssuance × Option Bytes × Option Bytes))
    (s : Asset × Value × Bytes) : Bytes :=
  [flagOfCore (c.1, c.2.1, c.2.2.2.map (fun x => x.1))] ++ c.1.enc ++ s.1.enc ++ s.2.1.enc ++ encBytesVec s.2.2 ++
  encLe 4 c.2.2.1 ++
  (match c.2.2.2 with
   | some (i, p) => i.enc ++ H.sha256 (encProofs p)
   | none => [0])

theorem ig_tapThisInput_eq (H : SigHashes) (x : TxIn) (p : TxOut) :
    tapThisInput H x p = thisSer H (thisCore x) (spentCore p) := by
  simp only [tapThisInput, thisSer, thisCore, spentCore, ig_outpointFlag_eq, inCore, hasIssuance_eq, ig_issuanceProofs_eq]
  by_cases h : x.assetIssuance.isNull = true <;> simp [issuanceOf, h]

end Ignores
open Ignores

/-- TAPROOT: the message (and every error) is invariant under every change that keeps `taprootAgree` -/
theorem taproot_ignores' (H : SigHashes) (ty : SchnorrTy) (idx : Nat) (annex : Option Bytes)
    (leaf : Option (Bytes × Nat)) (g : Bytes) (a b : Tx) (pa pb : Prevouts)
    (h : taprootAgree ty idx a b pa pb) :
    msgTaproot H a idx pa annex leaf ty g = msgTaproot H b idx pb annex leaf ty g := by
  obtain ⟨hv, hl, hchk, hins, houts⟩ := h
  have e1 : tapInsPart H a pa ty = tapInsPart H b pb ty := by
    simp only [tapInsPart]
    by_cases hacp : ty.acp = true
    · simp only [hacp, if_true]
    · simp only [hacp, if_false] at hins ⊢
      obtain ⟨hin, hps⟩ := hins
      cases pa with
      | one j p =>
        cases pb with
        | one j' p' => rfl
        | all ps' => simp [Prevouts.getAll, Res.map, Res.bind] at hps
      | all ps =>
        cases pb with
        | one j' p' => simp [Prevouts.getAll, Res.map, Res.bind] at hps
        | all ps' =>
          simp only [Prevouts.getAll, Res.map, Res.bind, Res.ok.injEq] at hps
          simp only [Prevouts.getAll, Res.bind, tapAllInputs, taprootOf, commonOf]
          rw [preOutpointFlags_congr allCore (fun c => c.1) (fun _ => rfl) a b hin,
            preOutpoints_congr allCore (fun c => c.1.1) (fun _ => rfl) a b hin,
            preAssetAmounts_congr ps ps' hps, preScriptPubkeys_congr ps ps' hps,
            preSequences_congr allCore (fun c => c.2.1) (fun _ => rfl) a b hin,
            preIssuances_congr allCore (fun c => c.1.2.2) (fun _ => rfl) a b hin,
            preIssuanceRangeproofs_congr allCore (fun c => c.2.2) (fun _ => rfl) a b hin]
  have e2 : tapOutsPart H a ty = tapOutsPart H b ty := by
    simp only [tapOutsPart]
    by_cases h1 : ty.isSingle = true
    · simp [h1]
    · by_cases h2 : ty.isNone = true
      · simp [h2]
      · simp only [h1, h2, Bool.false_eq_true, if_false] at houts
        simp only [preOutputs, preOutputWitnesses, houts]
  have e3 : tapThisPart H a idx pa ty = tapThisPart H b idx pb ty := by
    simp only [tapThisPart]
    by_cases hacp : ty.acp = true
    · simp only [hacp, if_true] at hins ⊢
      obtain ⟨hme, hget⟩ := hins
      cases ha : a.input[idx]? with
      | none =>
        cases hb : b.input[idx]? with
        | none => rfl
        | some y => rw [ha, hb] at hme; cases hme
      | some x =>
        cases hb : b.input[idx]? with
        | none => rw [ha, hb] at hme; cases hme
        | some y =>
          rw [ha, hb] at hme
          simp only [Option.map_some, Option.some.injEq] at hme
          have hlt : idx < a.input.length := by
            rcases List.getElem?_eq_some_iff.mp ha with ⟨w, _⟩; exact w
          have hg := hget hlt
          simp only [ig_tapThisInput_eq, hme]
          cases hga : pa.get idx <;> cases hgb : pb.get idx <;> simp_all [Res.map, Res.bind]
    · simp only [hacp, Bool.false_eq_true, if_false]
  have e4 : tapSinglePart H a idx ty = tapSinglePart H b idx ty := by
    simp only [tapSinglePart]
    by_cases h1 : ty.isSingle = true
    · simp only [h1, if_true] at houts ⊢
      rw [houts]
    · simp only [h1, Bool.false_eq_true, if_false]
  have e5 : tapHead a ty g = tapHead b ty g := by
    simp only [tapHead, hv, hl]
  simp only [msgTaproot, hchk, e1, e2, e3, e4, e5]

end EV.Sighash
