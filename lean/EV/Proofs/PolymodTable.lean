/-
  EV.Proofs.PolymodTable — the two finite facts about a BCH code that the error-detection theorems
  rest on, in a form that ONE `decide +kernel` evaluation per code establishes:

  * `Table1 c`    : for every non-zero symbol `e` and distance `1 ≤ d ≤ 1022`, `T^d e` is not a bare
                    symbol (`≥ 32`);
  * `Table2 c C N`: for every non-zero symbol `e`, symbol `x`, and `d + k ≤ N`,
                    `T^k (T^d e ⊕ x) ≠ C` (used with `C = target ⊕ target'`).

  The kernel does not evaluate 31 orbits: by XOR-linearity `T^d e` is the XOR of the orbits of the
  basis symbols 1, 2, 4, 8, 16 selected by the bits of `e`, so five orbits are advanced in lock step
  (with a straight-line step function on raw `Nat` operations) and "all 31 non-empty XOR combinations
  (⊕ v) are ≥ 32" is decided by one product of 31 shifted numbers being non-zero.
-/
import EV.Proofs.Polymod
namespace EV.Bech32
namespace Code

/-! ### statements -/

def Table1 (c : Code) : Prop :=
  ∀ e d, 0 < e → e < 32 → 1 ≤ d → d ≤ 1022 → 32 ≤ c.Tpow d e

def Table2 (c : Code) (C N : Nat) : Prop :=
  ∀ e x d k, 0 < e → e < 32 → x < 32 → d + k ≤ N → c.Tpow k (c.Tpow d e ^^^ x) ≠ C

/-! ### straight-line zero-input step -/

/-- `T` for the generator table `[g0,…,g4]`, `m = 2^(5(len-1))`, `k = 5(len-1)`; raw kernel-accelerated
    operations only -/
def fT (g0 g1 g2 g3 g4 m k r : Nat) : Nat :=
  Nat.xor (Nat.shiftLeft (Nat.mod r m) 5)
    (Nat.xor (Nat.mul (Nat.land (Nat.shiftRight r k) 1) g0)
    (Nat.xor (Nat.mul (Nat.land (Nat.shiftRight r (Nat.add k 1)) 1) g1)
    (Nat.xor (Nat.mul (Nat.land (Nat.shiftRight r (Nat.add k 2)) 1) g2)
    (Nat.xor (Nat.mul (Nat.land (Nat.shiftRight r (Nat.add k 3)) 1) g3)
             (Nat.mul (Nat.land (Nat.shiftRight r (Nat.add k 4)) 1) g4)))))

theorem bitmul (x i g : Nat) : (x >>> i &&& 1) * g = if x.testBit i then g else 0 := by
  rw [Nat.and_one_is_mod, Nat.testBit, Nat.and_comm, Nat.and_one_is_mod]
  rcases Nat.mod_two_eq_zero_or_one (x >>> i) with h | h <;> simp [h]

theorem top_testBit (c : Code) (r i : Nat) (hi : i < 5) :
    (c.top r).testBit i = r.testBit (5 * (c.len - 1) + i) := by
  have : (32 : Nat) = 2 ^ 5 := rfl
  simp only [top]
  rw [this, Nat.testBit_mod_two_pow, Nat.testBit_shiftRight]
  simp [hi]

theorem fT_eq (c : Code) (g0 g1 g2 g3 g4 : Nat) (hg : c.gens = [g0, g1, g2, g3, g4]) (r : Nat) :
    fT g0 g1 g2 g3 g4 (2 ^ (5 * (c.len - 1))) (5 * (c.len - 1)) r = c.T r := by
  simp only [T, step, hg, sel, Nat.or_zero, Nat.xor_zero, Nat.zero_add,
    top_testBit c r 0 (by decide), top_testBit c r 1 (by decide), top_testBit c r 2 (by decide),
    top_testBit c r 3 (by decide), top_testBit c r 4 (by decide), Nat.add_zero]
  simp only [← bitmul]
  rfl

/-! ### "all XOR combinations are ≥ 32" as a product -/

/-- product over ALL subsets `S` of the list of `(x ⊕ ⨁S) >>> 5` -/
def pAll : List Nat → Nat → Nat
  | [], x => Nat.shiftRight x 5
  | a :: as, x => Nat.mul (pAll as x) (pAll as (Nat.xor x a))

/-- product over the NON-EMPTY subsets -/
def pNZ : List Nat → Nat → Nat
  | [], _ => 1
  | a :: as, x => Nat.mul (pNZ as x) (pAll as (Nat.xor x a))

theorem hi_ne_zero (x : Nat) (h : Nat.shiftRight x 5 ≠ 0) : 32 ≤ x := by
  have : Nat.shiftRight x 5 = x / 32 := Nat.shiftRight_eq_div_pow x 5
  rw [this] at h
  omega

theorem pAll_spec (l : List Nat) (x i t : Nat) (h : pAll l x ≠ 0) : 32 ≤ x ^^^ sel l i t := by
  induction l generalizing x i with
  | nil => simpa [sel] using hi_ne_zero x h
  | cons a as ih =>
    simp only [pAll] at h
    have h1 : pAll as x ≠ 0 := fun h0 => h (by show pAll as x * _ = 0; rw [h0, Nat.zero_mul])
    have h2 : pAll as (x ^^^ a) ≠ 0 := fun h0 => h (by
      show _ * pAll as (Nat.xor x a) = 0
      have : pAll as (Nat.xor x a) = 0 := h0
      rw [this, Nat.mul_zero])
    simp only [sel]
    split
    · rw [← Nat.xor_assoc]; exact ih _ _ h2
    · rw [Nat.zero_xor]; exact ih _ _ h1

theorem pNZ_spec (l : List Nat) (x i t : Nat) (h : pNZ l x ≠ 0)
    (ht : ∃ j, j < l.length ∧ t.testBit (i + j) = true) : 32 ≤ x ^^^ sel l i t := by
  induction l generalizing x i with
  | nil => obtain ⟨j, hj, _⟩ := ht; simp at hj
  | cons a as ih =>
    simp only [pNZ] at h
    have h1 : pNZ as x ≠ 0 := fun h0 => h (by show pNZ as x * _ = 0; rw [h0, Nat.zero_mul])
    have h2 : pAll as (x ^^^ a) ≠ 0 := fun h0 => h (by
      show _ * pAll as (Nat.xor x a) = 0
      have : pAll as (Nat.xor x a) = 0 := h0
      rw [this, Nat.mul_zero])
    simp only [sel]
    split
    · rw [← Nat.xor_assoc]; exact pAll_spec _ _ _ _ h2
    · rename_i hbit
      rw [Nat.zero_xor]
      apply ih _ _ h1
      obtain ⟨j, hj, hjt⟩ := ht
      cases j with
      | zero => simp [hbit] at hjt
      | succ j =>
        refine ⟨j, by simpa using hj, ?_⟩
        rw [← hjt]; congr 1; omega

/-- straight-line `pAll` for 1–4 vectors and `pNZ` for 5 -/
def f1 (a x : Nat) : Nat := Nat.mul (Nat.shiftRight x 5) (Nat.shiftRight (Nat.xor x a) 5)
def f2 (a b x : Nat) : Nat := Nat.mul (f1 b x) (f1 b (Nat.xor x a))
def f3 (a b c x : Nat) : Nat := Nat.mul (f2 b c x) (f2 b c (Nat.xor x a))
def f4 (a b c d x : Nat) : Nat := Nat.mul (f3 b c d x) (f3 b c d (Nat.xor x a))
def nz5 (a b c d e x : Nat) : Nat :=
  Nat.mul (Nat.mul (Nat.mul (Nat.mul (Nat.shiftRight (Nat.xor x e) 5) (f1 e (Nat.xor x d)))
    (f2 d e (Nat.xor x c))) (f3 c d e (Nat.xor x b))) (f4 b c d e (Nat.xor x a))

theorem nz5_eq (a b c d e x : Nat) : nz5 a b c d e x = pNZ [a, b, c, d, e] x := by
  simp only [nz5, pNZ, pAll, f1, f2, f3, f4]
  rw [show Nat.mul 1 (Nat.shiftRight (Nat.xor x e) 5) = Nat.shiftRight (Nat.xor x e) 5 from Nat.one_mul _]

/-- a non-zero symbol has one of its five low bits set -/
theorem sym_has_bit : ∀ e, e < 32 → 0 < e → ∃ j, j < 5 ∧ e.testBit (0 + j) = true := by
  decide

theorem nz5_spec (a b c d e x t : Nat) (h : nz5 a b c d e x ≠ 0) (ht : 0 < t) (ht' : t < 32) :
    32 ≤ x ^^^ sel [a, b, c, d, e] 0 t := by
  rw [nz5_eq] at h
  exact pNZ_spec _ _ _ _ h (sym_has_bit t ht' ht)

/-! ### orbits of the basis symbols -/

theorem sel_basis : ∀ e, e < 32 → sel [1, 2, 4, 8, 16] 0 e = e := by decide

theorem Tpow_sel (c : Code) (d : Nat) (l : List Nat) (i t : Nat) :
    c.Tpow d (sel l i t) = sel (l.map (c.Tpow d)) i t := by
  induction l generalizing i with
  | nil => simp [sel, Tpow_zero]
  | cons g gs ih =>
    simp only [sel, List.map_cons, Tpow_xor, ih]
    split <;> simp [Tpow_zero]

/-- `T^d e` from the five basis orbits -/
theorem Tpow_basis (c : Code) (d e : Nat) (he : e < 32) :
    c.Tpow d e = sel [c.Tpow d 1, c.Tpow d 2, c.Tpow d 4, c.Tpow d 8, c.Tpow d 16] 0 e := by
  have := Tpow_sel c d [1, 2, 4, 8, 16] 0 e
  rw [sel_basis e he] at this
  simpa using this

/-- evaluate `x` to a numeral before continuing (call-by-value inside the kernel) -/
def force (x : Nat) (f : Nat → Bool) : Bool :=
  match x with
  | 0 => f 0
  | Nat.succ s => f (Nat.succ s)

theorem force_eq (x : Nat) (f : Nat → Bool) : force x f = f x := by
  cases x <;> rfl

/-! ### table 1 -/

/-- `n` lock-step advances of the five orbits, each followed by the 31-combination test -/
def tab1 (g0 g1 g2 g3 g4 m k : Nat) : Nat → Nat → Nat → Nat → Nat → Nat → Bool
  | 0, _, _, _, _, _ => true
  | n + 1, a0, a1, a2, a3, a4 =>
    force (fT g0 g1 g2 g3 g4 m k a0) fun b0 =>
    force (fT g0 g1 g2 g3 g4 m k a1) fun b1 =>
    force (fT g0 g1 g2 g3 g4 m k a2) fun b2 =>
    force (fT g0 g1 g2 g3 g4 m k a3) fun b3 =>
    force (fT g0 g1 g2 g3 g4 m k a4) fun b4 =>
      (nz5 b0 b1 b2 b3 b4 0 != 0) && tab1 g0 g1 g2 g3 g4 m k n b0 b1 b2 b3 b4

def table1Ok (c : Code) : Bool :=
  match c.gens with
  | [g0, g1, g2, g3, g4] => tab1 g0 g1 g2 g3 g4 (2 ^ (5 * (c.len - 1))) (5 * (c.len - 1)) 1022 1 2 4 8 16
  | _ => false

theorem tab1_sound (c : Code) (g0 g1 g2 g3 g4 : Nat) (hg : c.gens = [g0, g1, g2, g3, g4])
    (n a0 a1 a2 a3 a4 : Nat)
    (h : tab1 g0 g1 g2 g3 g4 (2 ^ (5 * (c.len - 1))) (5 * (c.len - 1)) n a0 a1 a2 a3 a4 = true) :
    ∀ d, 1 ≤ d → d ≤ n →
      nz5 (c.Tpow d a0) (c.Tpow d a1) (c.Tpow d a2) (c.Tpow d a3) (c.Tpow d a4) 0 ≠ 0 := by
  induction n generalizing a0 a1 a2 a3 a4 with
  | zero => intro d h1 h2; omega
  | succ n ih =>
    simp only [tab1, force_eq, fT_eq c g0 g1 g2 g3 g4 hg, Bool.and_eq_true, bne_iff_ne] at h
    intro d h1 h2
    rcases Nat.lt_or_ge 1 d with hd | hd
    · obtain ⟨d', rfl⟩ : ∃ d', d = d' + 1 := ⟨d - 1, by omega⟩
      have := ih _ _ _ _ _ h.2 d' (by omega) (by omega)
      simpa only [Tpow_succ'] using this
    · have : d = 1 := by omega
      subst this
      exact h.1

theorem table1_of_ok (c : Code) (h : table1Ok c = true) : c.Table1 := by
  unfold table1Ok at h
  split at h
  · rename_i g0 g1 g2 g3 g4 hg
    intro e d he0 he hd1 hd2
    have := tab1_sound c g0 g1 g2 g3 g4 hg _ _ _ _ _ _ h d hd1 hd2
    have := nz5_spec _ _ _ _ _ _ e this he0 he
    rw [Nat.zero_xor, ← Tpow_basis c d e he] at this
    exact this
  · exact absurd h (by simp)

/-! ### table 2 -/

/-- reversed forward orbit `[T^n s, …, T s, s]` (prepended to `acc`) -/
def orbitRev (g0 g1 g2 g3 g4 m k : Nat) : Nat → Nat → List Nat → List Nat
  | 0, s, acc => s :: acc
  | n + 1, s, acc =>
    match fT g0 g1 g2 g3 g4 m k s with
    | 0 => orbitRev g0 g1 g2 g3 g4 m k n 0 (s :: acc)
    | Nat.succ s' => orbitRev g0 g1 g2 g3 g4 m k n (Nat.succ s') (s :: acc)

/-- `bs = [b₀, b₁, …]` with `b₀ = C`, `T b_{j+1} = b_j`, all below `lim` -/
def chainOk (g0 g1 g2 g3 g4 m k lim : Nat) (prev : Nat) : List Nat → Bool
  | [] => true
  | b :: bs => Nat.beq (fT g0 g1 g2 g3 g4 m k b) prev && Nat.blt b lim && chainOk g0 g1 g2 g3 g4 m k lim b bs

/-- for the first `n` entries `b` of the list: all 31 combinations of the `a`s XOR `b` are ≥ 32 -/
def inner (a0 a1 a2 a3 a4 : Nat) : Nat → List Nat → Bool
  | 0, _ => true
  | _ + 1, [] => false
  | n + 1, b :: bs => (nz5 a0 a1 a2 a3 a4 b != 0) && inner a0 a1 a2 a3 a4 n bs

def tab2 (g0 g1 g2 g3 g4 m k : Nat) (bs : List Nat) : Nat → Nat → Nat → Nat → Nat → Nat → Bool
  | 0, _, _, _, _, _ => true
  | n + 1, a0, a1, a2, a3, a4 =>
    inner a0 a1 a2 a3 a4 (n + 1) bs &&
    force (fT g0 g1 g2 g3 g4 m k a0) fun b0 =>
    force (fT g0 g1 g2 g3 g4 m k a1) fun b1 =>
    force (fT g0 g1 g2 g3 g4 m k a2) fun b2 =>
    force (fT g0 g1 g2 g3 g4 m k a3) fun b3 =>
    force (fT g0 g1 g2 g3 g4 m k a4) fun b4 =>
      tab2 g0 g1 g2 g3 g4 m k bs n b0 b1 b2 b3 b4

/-- `ord` = number of forward steps used to obtain the backward orbit of `C` (1023 for both codes) -/
def table2Ok (c : Code) (C N ord : Nat) : Bool :=
  match c.gens with
  | [g0, g1, g2, g3, g4] =>
    let m := 2 ^ (5 * (c.len - 1))
    let k := 5 * (c.len - 1)
    match orbitRev g0 g1 g2 g3 g4 m k ord C [] with
    | [] => false
    | b0 :: bs =>
      Nat.beq b0 C && Nat.blt b0 (2 ^ (5 * c.len)) && chainOk g0 g1 g2 g3 g4 m k (2 ^ (5 * c.len)) b0 bs &&
      tab2 g0 g1 g2 g3 g4 m k (b0 :: bs) (N + 1) 1 2 4 8 16
  | _ => false

/-- what `chainOk` establishes: the `j`-th entry is a preimage of `C` under `T^j` -/
theorem chain_sound (c : Code) (g0 g1 g2 g3 g4 : Nat) (hg : c.gens = [g0, g1, g2, g3, g4]) (lim : Nat)
    (bs : List Nat) (prev C j0 : Nat) (hprev : c.Tpow j0 prev = C)
    (h : chainOk g0 g1 g2 g3 g4 (2 ^ (5 * (c.len - 1))) (5 * (c.len - 1)) lim prev bs = true) :
    ∀ j b, bs[j]? = some b → c.Tpow (j0 + 1 + j) b = C ∧ b < lim := by
  induction bs generalizing prev j0 with
  | nil => intro j b hb; simp at hb
  | cons x bs ih =>
    simp only [chainOk, fT_eq c g0 g1 g2 g3 g4 hg, Bool.and_eq_true, Nat.blt_eq] at h
    obtain ⟨⟨h1, h2⟩, h3⟩ := h
    have h1 := Nat.eq_of_beq_eq_true h1
    have hx : c.Tpow (j0 + 1) x = C := by rw [Tpow_succ', h1, hprev]
    intro j b hb
    cases j with
    | zero => simp at hb; subst hb; exact ⟨hx, h2⟩
    | succ j =>
      simp only [List.getElem?_cons_succ] at hb
      have := ih x (j0 + 1) hx h3 j b hb
      rw [show j0 + 1 + (j + 1) = j0 + 1 + 1 + j by omega]
      exact this

theorem inner_sound (a0 a1 a2 a3 a4 n : Nat) (bs : List Nat) (h : inner a0 a1 a2 a3 a4 n bs = true) :
    ∀ j, j < n → ∃ b, bs[j]? = some b ∧ nz5 a0 a1 a2 a3 a4 b ≠ 0 := by
  induction n generalizing bs with
  | zero => intro j hj; omega
  | succ n ih =>
    cases bs with
    | nil => simp [inner] at h
    | cons b bs =>
      simp only [inner, Bool.and_eq_true, bne_iff_ne] at h
      intro j hj
      cases j with
      | zero => exact ⟨b, by simp, h.1⟩
      | succ j =>
        obtain ⟨b', hb', hnz⟩ := ih bs h.2 j (by omega)
        exact ⟨b', by simpa using hb', hnz⟩

theorem tab2_sound (c : Code) (g0 g1 g2 g3 g4 : Nat) (hg : c.gens = [g0, g1, g2, g3, g4]) (bs : List Nat)
    (n a0 a1 a2 a3 a4 : Nat)
    (h : tab2 g0 g1 g2 g3 g4 (2 ^ (5 * (c.len - 1))) (5 * (c.len - 1)) bs n a0 a1 a2 a3 a4 = true) :
    ∀ d j, d + j < n → ∃ b, bs[j]? = some b ∧
      nz5 (c.Tpow d a0) (c.Tpow d a1) (c.Tpow d a2) (c.Tpow d a3) (c.Tpow d a4) b ≠ 0 := by
  induction n generalizing a0 a1 a2 a3 a4 with
  | zero => intro d j h; omega
  | succ n ih =>
    simp only [tab2, force_eq, fT_eq c g0 g1 g2 g3 g4 hg, Bool.and_eq_true] at h
    intro d j hdj
    cases d with
    | zero => exact inner_sound _ _ _ _ _ _ _ h.1 j (by omega)
    | succ d =>
      have := ih _ _ _ _ _ h.2 d j (by omega)
      simpa only [Tpow_succ'] using this

/-- `T^k` is injective on residues in range -/
theorem Tpow_injective (c : Code) (hc : c.Good) (hb : c.LowBij) (k a b : Nat)
    (ha : a < 2 ^ (5 * c.len)) (hb' : b < 2 ^ (5 * c.len)) (h : c.Tpow k a = c.Tpow k b) : a = b := by
  induction k with
  | zero => exact h
  | succ k ih =>
    simp only [Tpow] at h
    apply ih
    exact step_injective c hc hb 0 _ _ (by decide) (Tpow_lt c hc k a ha) (Tpow_lt c hc k b hb') h

theorem table2_of_ok (c : Code) (hc : c.Good) (hb : c.LowBij) (C N ord : Nat)
    (h : table2Ok c C N ord = true) : c.Table2 C N := by
  unfold table2Ok at h
  split at h
  · rename_i g0 g1 g2 g3 g4 hg
    simp only at h
    split at h
    · exact absurd h (by simp)
    · rename_i b0 bs _
      simp only [Bool.and_eq_true, Nat.blt_eq] at h
      obtain ⟨⟨⟨hb0, hb0lt⟩, hchain⟩, htab⟩ := h
      have hb0 := Nat.eq_of_beq_eq_true hb0
      subst hb0
      have hch := chain_sound c g0 g1 g2 g3 g4 hg _ bs b0 b0 0 rfl hchain
      intro e x d k he0 he hx hdk
      obtain ⟨b, hbk, hnz⟩ := tab2_sound c g0 g1 g2 g3 g4 hg _ _ _ _ _ _ _ htab d k (by omega)
      have hge := nz5_spec _ _ _ _ _ _ e hnz he0 he
      rw [← Tpow_basis c d e he] at hge
      -- b is a preimage of b0 under T^k, in range
      have hbpre : c.Tpow k b = b0 ∧ b < 2 ^ (5 * c.len) := by
        cases k with
        | zero => simp at hbk; subst hbk; exact ⟨rfl, hb0lt⟩
        | succ k =>
          simp only [List.getElem?_cons_succ] at hbk
          have := hch k b hbk
          rw [show 0 + 1 + k = k + 1 by omega] at this
          exact this
      intro hcontra
      have hl5 : (32 : Nat) ≤ 2 ^ (5 * c.len) := by
        have := hc.len_pos
        calc (32 : Nat) = 2 ^ 5 := rfl
          _ ≤ 2 ^ (5 * c.len) := Nat.pow_le_pow_right (by decide) (by omega)
      have hylt : c.Tpow d e ^^^ x < 2 ^ (5 * c.len) :=
        Nat.xor_lt_two_pow (Tpow_lt c hc d e (by omega)) (by omega)
      have heq := Tpow_injective c hc hb k _ _ hylt hbpre.2 (hcontra.trans hbpre.1.symm)
      -- b ⊕ T^d e = x < 32, contradiction
      have : b ^^^ c.Tpow d e = x := by
        rw [← heq, Nat.xor_comm (c.Tpow d e) x, Nat.xor_assoc, Nat.xor_self, Nat.xor_zero]
      omega
  · exact absurd h (by simp)

end Code
end EV.Bech32
