/-
  EV.Proofs.Issuance — helper lemmas for C11: the id layout, agreement of the three
  representations (TxIn, PSET input, extracted TxIn), commitment.
-/
import EV.Model.Issuance
import EV.Props.C19
import EV.Proofs.CodecTx
set_option linter.unusedSimpArgs false
set_option linter.unusedVariables false
namespace EV.Proofs.Issuance
open EV EV.Codec EV.Issuance EV.Proofs.CodecPrim EV.Proofs.CodecTx

variable (H : Hashes)

/-! ### leaf constants (regenerated from src/issuance.rs) -/

theorem assetLeaf_eq : assetLeaf = List.replicate 32 0 := by decide
theorem tokenLeaf_explicit : tokenLeaf false = 1 :: List.replicate 31 0 := by decide
theorem tokenLeaf_confidential : tokenLeaf true = 2 :: List.replicate 31 0 := by decide
theorem tokenLeaf_eq (c : Bool) : tokenLeaf c = (if c then 2 else 1) :: List.replicate 31 0 := by
  cases c
  · exact tokenLeaf_explicit
  · exact tokenLeaf_confidential
theorem assetLeaf_ne_tokenLeaf (c : Bool) : assetLeaf ≠ tokenLeaf c := by cases c <;> decide
theorem tokenLeaf_inj : tokenLeaf false ≠ tokenLeaf true := by decide

/-! ### layout -/

theorem fmr_two (a b : Bytes) : H.fmr [a, b] = some (H.comb a b) := EV.Props.C19.fmr_two H a b

theorem entropy_eq (o : OutPoint) (c : Bytes) :
    generateAssetEntropy H o c = some (H.comb (H.sha256d (o.txid ++ encLe 4 o.vout)) c) := by
  simp only [generateAssetEntropy, fmr_two, OutPoint.enc]

theorem fromEntropy_eq (e : Bytes) : fromEntropy H e = some (H.comb e assetLeaf) := by
  simp only [fromEntropy, fmr_two]

theorem token_eq (e : Bytes) (c : Bool) : reissuanceTokenFromEntropy H e c = some (H.comb e (tokenLeaf c)) := by
  simp only [reissuanceTokenFromEntropy, fmr_two]

theorem idsOfEntropy_some (e : Bytes) (c : Bool) :
    idsOfEntropy H (some e) c = some (H.comb e assetLeaf, H.comb e (tokenLeaf c)) := by
  simp only [idsOfEntropy, fromEntropy_eq, token_eq]

/-- the entropy `TxIn::issuance_ids` / `Input::issuance_ids` derive -/
def entropyOf (o : OutPoint) (nonce entropy : Bytes) : Bytes :=
  if nonce = zero32 then H.comb (H.sha256d (o.txid ++ encLe 4 o.vout)) entropy else entropy

theorem txin_ids_eq (i : TxIn) :
    i.issuanceIds H =
      some (H.comb (entropyOf H i.previousOutput i.assetIssuance.nonce i.assetIssuance.entropy) assetLeaf,
            H.comb (entropyOf H i.previousOutput i.assetIssuance.nonce i.assetIssuance.entropy)
              (tokenLeaf i.assetIssuance.amount.isConf)) := by
  simp only [TxIn.issuanceIds, entropyOf]
  by_cases h : i.assetIssuance.nonce = zero32
  · simp only [h, if_true, entropy_eq, idsOfEntropy_some]
  · simp only [h, if_false, idsOfEntropy_some]

theorem pset_ids_eq (p : IssPsetInput) :
    p.issuanceIds H =
      some (H.comb (entropyOf H ⟨p.previousTxid, IssPsetInput.plainIndex p.previousOutputIndex⟩
                (p.issuanceBlindingNonce.getD zero32) (p.issuanceAssetEntropy.getD zero32)) assetLeaf,
            H.comb (entropyOf H ⟨p.previousTxid, IssPsetInput.plainIndex p.previousOutputIndex⟩
                (p.issuanceBlindingNonce.getD zero32) (p.issuanceAssetEntropy.getD zero32))
              (tokenLeaf p.issuanceValueComm.isSome)) := by
  simp only [IssPsetInput.issuanceIds, entropyOf]
  by_cases h : p.issuanceBlindingNonce.getD zero32 = zero32
  · simp only [h, if_true, entropy_eq, idsOfEntropy_some]
  · simp only [h, if_false, idsOfEntropy_some]

/-! ### the index word of `from_txin` -/

theorem fromTxin_index (t : TxIn) :
    (IssPsetInput.fromTxin t).previousOutputIndex =
      (t.previousOutput.vout ||| (if t.isPegin then 2^30 else 0)) ||| (if t.hasIssuance then 2^31 else 0) := by
  simp only [IssPsetInput.fromTxin, IssPsetInput.fromPrevout]
  cases t.isPegin <;> cases t.hasIssuance <;> simp

theorem fromTxin_txid (t : TxIn) : (IssPsetInput.fromTxin t).previousTxid = t.previousOutput.txid := by
  simp only [IssPsetInput.fromTxin, IssPsetInput.fromPrevout]
  cases t.isPegin <;> cases t.hasIssuance <;> simp

/-- index hypothesis: a real index (below 2^30; 2^30-1 with both flags is not representable), or the
    coinbase index -/
def IndexOk (v : Nat) (p q : Bool) : Prop :=
  (v < 2^30 ∧ ¬ (v = 2^30 - 1 ∧ p = true ∧ q = true)) ∨ v = 0xffffffff

theorem or_flags_coinbase (p q : Bool) :
    ((0xffffffff : Nat) ||| (if p then 2^30 else 0)) ||| (if q then 2^31 else 0) = 0xffffffff := by
  cases p <;> cases q <;> decide

theorem plainIndex_word (v : Nat) (p q : Bool) (h : IndexOk v p q) :
    IssPsetInput.plainIndex ((v ||| (if p then 2^30 else 0)) ||| (if q then 2^31 else 0)) = v := by
  rcases h with ⟨hv, hne⟩ | hc
  · obtain ⟨_, hmod, _, _, hcb⟩ := word_parts v hv p q _ rfl
    simp only [IssPsetInput.plainIndex]
    have : ¬ ((v ||| (if p then 2^30 else 0)) ||| (if q then 2^31 else 0)) = 0xffffffff := fun e => hne (hcb.1 e)
    rw [if_neg this, hmod]
  · subst hc
    rw [or_flags_coinbase]
    rfl

theorem isPegin_word (v : Nat) (p q : Bool) (hv : v < 2^30) (hne : ¬ (v = 2^30 - 1 ∧ p = true ∧ q = true)) :
    (((v ||| (if p then 2^30 else 0)) ||| (if q then 2^31 else 0)) != 0xffffffff &&
      ((v ||| (if p then 2^30 else 0)) ||| (if q then 2^31 else 0)).testBit 30) = p := by
  obtain ⟨_, _, h30, _, hcb⟩ := word_parts v hv p q _ rfl
  have : ¬ ((v ||| (if p then 2^30 else 0)) ||| (if q then 2^31 else 0)) = 0xffffffff := fun e => hne (hcb.1 e)
  rw [h30]
  simp [this]

/-! ### the issuance fields of `from_txin` -/

/-- the in-memory issuance of an input *without* issuance is the all-default one -/
def IssuanceOk (i : TxIn) : Prop :=
  i.hasIssuance = true ∨ (i.assetIssuance.nonce = zero32 ∧ i.assetIssuance.entropy = zero32)

theorem isNull_iff (v : Value) : v.isNull = true ↔ v = .null := by
  cases v <;> simp [Value.isNull]

theorem valueOf_split (v : Value) :
    IssPsetInput.valueOf (match v with | .explicit x => some x | _ => none) (match v with | .conf c => some c | _ => none) = v := by
  cases v <;> rfl

theorem fromTxin_nonce (t : TxIn) (h : IssuanceOk t) :
    (IssPsetInput.fromTxin t).issuanceBlindingNonce.getD zero32 = t.assetIssuance.nonce := by
  simp only [IssPsetInput.fromTxin, IssPsetInput.fromPrevout]
  rcases h with h | ⟨h1, _⟩
  · cases t.isPegin <;> simp [h]
  · cases t.isPegin <;> cases t.hasIssuance <;> simp [h1]

theorem fromTxin_entropy (t : TxIn) (h : IssuanceOk t) :
    (IssPsetInput.fromTxin t).issuanceAssetEntropy.getD zero32 = t.assetIssuance.entropy := by
  simp only [IssPsetInput.fromTxin, IssPsetInput.fromPrevout]
  rcases h with h | ⟨_, h2⟩
  · cases t.isPegin <;> simp [h]
  · cases t.isPegin <;> cases t.hasIssuance <;> simp [h2]

theorem amounts_null_of_not_hasIssuance (t : TxIn) (h : t.hasIssuance = false) :
    t.assetIssuance.amount = .null ∧ t.assetIssuance.inflationKeys = .null := by
  simp only [TxIn.hasIssuance, AssetIssuance.isNull, Bool.not_eq_false', Bool.and_eq_true] at h
  exact ⟨(isNull_iff _).1 h.1, (isNull_iff _).1 h.2⟩

theorem fromTxin_comm_isSome (t : TxIn) :
    (IssPsetInput.fromTxin t).issuanceValueComm.isSome = t.assetIssuance.amount.isConf := by
  simp only [IssPsetInput.fromTxin, IssPsetInput.fromPrevout]
  cases hq : t.hasIssuance
  · have := (amounts_null_of_not_hasIssuance t hq).1
    cases t.isPegin <;> simp [this, Value.isConf]
  · cases t.isPegin <;> cases t.assetIssuance.amount <;> simp [Value.isConf]

theorem fromTxin_amount (t : TxIn) :
    IssPsetInput.valueOf (IssPsetInput.fromTxin t).issuanceValueAmount (IssPsetInput.fromTxin t).issuanceValueComm
      = t.assetIssuance.amount := by
  simp only [IssPsetInput.fromTxin, IssPsetInput.fromPrevout]
  cases hq : t.hasIssuance
  · have := (amounts_null_of_not_hasIssuance t hq).1
    cases t.isPegin <;> simp [this, IssPsetInput.valueOf]
  · cases t.isPegin <;> simp <;> cases t.assetIssuance.amount <;> rfl

theorem fromTxin_keys (t : TxIn) :
    IssPsetInput.valueOf (IssPsetInput.fromTxin t).issuanceInflationKeys (IssPsetInput.fromTxin t).issuanceInflationKeysComm
      = t.assetIssuance.inflationKeys := by
  simp only [IssPsetInput.fromTxin, IssPsetInput.fromPrevout]
  cases hq : t.hasIssuance
  · have := (amounts_null_of_not_hasIssuance t hq).2
    cases t.isPegin <;> simp [this, IssPsetInput.valueOf]
  · cases t.isPegin <;> simp <;> cases t.assetIssuance.inflationKeys <;> rfl

/-- `asset_issuance()` of the PSET input built from a TxIn gives the TxIn's issuance back -/
theorem assetIssuance_fromTxin (t : TxIn) (h : IssuanceOk t) :
    (IssPsetInput.fromTxin t).assetIssuance = t.assetIssuance := by
  have h1 := fromTxin_nonce t h
  have h2 := fromTxin_entropy t h
  have h3 := fromTxin_amount t
  have h4 := fromTxin_keys t
  simp only [IssPsetInput.assetIssuance, h1, h2, h3, h4]

theorem plainIndex_fromTxin (t : TxIn) (h : IndexOk t.previousOutput.vout t.isPegin t.hasIssuance) :
    IssPsetInput.plainIndex (IssPsetInput.fromTxin t).previousOutputIndex = t.previousOutput.vout := by
  rw [fromTxin_index]; exact plainIndex_word _ _ _ h

/-- the outpoint and the issuance survive TxIn → PSET input → extracted TxIn -/
theorem extract_fromTxin_core (t : TxIn) (h : IndexOk t.previousOutput.vout t.isPegin t.hasIssuance) (hi : IssuanceOk t) :
    (IssPsetInput.extractIn (IssPsetInput.fromTxin t)).previousOutput = t.previousOutput ∧
    (IssPsetInput.extractIn (IssPsetInput.fromTxin t)).assetIssuance = t.assetIssuance := by
  refine ⟨?_, assetIssuance_fromTxin t hi⟩
  simp only [IssPsetInput.extractIn, plainIndex_fromTxin t h, fromTxin_txid]

theorem txin_ids_congr (a b : TxIn) (h1 : a.previousOutput = b.previousOutput) (h2 : a.assetIssuance = b.assetIssuance) :
    a.issuanceIds H = b.issuanceIds H := by
  simp only [TxIn.issuanceIds, h1, h2]

theorem ids_agree_pset (t : TxIn) (h : IndexOk t.previousOutput.vout t.isPegin t.hasIssuance) (hi : IssuanceOk t) :
    (IssPsetInput.fromTxin t).issuanceIds H = t.issuanceIds H := by
  rw [pset_ids_eq, txin_ids_eq, fromTxin_nonce t hi, fromTxin_entropy t hi, fromTxin_comm_isSome,
    plainIndex_fromTxin t h, fromTxin_txid]

theorem ids_agree_extract (t : TxIn) (h : IndexOk t.previousOutput.vout t.isPegin t.hasIssuance) (hi : IssuanceOk t) :
    (IssPsetInput.extractIn (IssPsetInput.fromTxin t)).issuanceIds H = t.issuanceIds H := by
  obtain ⟨h1, h2⟩ := extract_fromTxin_core t h hi
  exact txin_ids_congr H _ _ h1 h2

/-- the pegin flag survives too, when the coinbase index does not carry it -/
theorem extract_fromTxin_isPegin (t : TxIn)
    (h : (t.previousOutput.vout < 2^30 ∧ ¬ (t.previousOutput.vout = 2^30 - 1 ∧ t.isPegin = true ∧ t.hasIssuance = true)) ∨
         (t.previousOutput.vout = 0xffffffff ∧ t.isPegin = false)) :
    (IssPsetInput.extractIn (IssPsetInput.fromTxin t)).isPegin = t.isPegin := by
  simp only [IssPsetInput.extractIn, IssPsetInput.isPegin, fromTxin_index]
  rcases h with ⟨hv, hne⟩ | ⟨hc, hp⟩
  · exact isPegin_word _ _ _ hv hne
  · rw [hc, or_flags_coinbase, hp]; rfl

/-- an input without issuance: `from_txin` ignores whatever nonce / entropy it carries -/
theorem fromTxin_no_issuance (t : TxIn) (hq : t.hasIssuance = false) :
    IssPsetInput.fromTxin t = IssPsetInput.fromTxin { t with assetIssuance := AssetIssuance.null } := by
  have hq' : ({ t with assetIssuance := AssetIssuance.null } : TxIn).hasIssuance = false := rfl
  simp only [IssPsetInput.fromTxin, hq, hq']
  rfl

/-! ### canonical wire inputs satisfy the hypotheses -/

theorem null_issuance_fields : AssetIssuance.null.nonce = zero32 ∧ AssetIssuance.null.entropy = zero32 := ⟨rfl, rfl⟩

theorem hyps_of_wfBody (P : Prims) (t : TxIn) (h : t.wfBody P) :
    IndexOk t.previousOutput.vout t.isPegin t.hasIssuance ∧ IssuanceOk t := by
  obtain ⟨_, hv, _, _, hiss⟩ := h
  refine ⟨?_, ?_⟩
  · rcases hv with hv | ⟨hv, _, _⟩
    · exact Or.inl hv
    · exact Or.inr hv
  · cases hq : t.hasIssuance
    · right
      simp only [hq, Bool.false_eq_true, if_false] at hiss
      rw [hiss]; exact null_issuance_fields
    · left; exact hq

/-! ### commitment -/

def Coll1 (f : Bytes → Bytes) : Prop := ∃ x y, x ≠ y ∧ f x = f y
def Coll2 (g : Bytes → Bytes → Bytes) : Prop := ∃ a b c d, (a, b) ≠ (c, d) ∧ g a b = g c d

theorem comb_inj (a b c d : Bytes) (h : H.comb a b = H.comb c d) : (a = c ∧ b = d) ∨ Coll2 H.comb := by
  by_cases e : (a, b) = (c, d)
  · simp only [Prod.mk.injEq] at e; exact Or.inl e
  · exact Or.inr ⟨a, b, c, d, e, h⟩

theorem outpoint_enc_inj (o o' : OutPoint) (ho : o.wf) (ho' : o'.wf) (h : o.enc = o'.enc) : o = o' := by
  have c1 := outpoint_lawful.complete o [] ho
  have c2 := outpoint_lawful.complete o' [] ho'
  rw [h, c2] at c1
  injection c1 with c1
  injection c1 with c1
  exact c1.symm

theorem entropy_commits (o o' : OutPoint) (c c' : Bytes) (ho : o.wf) (ho' : o'.wf)
    (h : generateAssetEntropy H o c = generateAssetEntropy H o' c') :
    (o = o' ∧ c = c') ∨ Coll1 H.sha256d ∨ Coll2 H.comb := by
  rw [entropy_eq, entropy_eq] at h
  rcases comb_inj H _ _ _ _ (Option.some.inj h) with ⟨h1, h2⟩ | hc
  · by_cases e : o.enc = o'.enc
    · exact Or.inl ⟨outpoint_enc_inj o o' ho ho' e, h2⟩
    · exact Or.inr (Or.inl ⟨o.enc, o'.enc, e, h1⟩)
  · exact Or.inr (Or.inr hc)

theorem assetId_commits (e e' : Bytes) (h : fromEntropy H e = fromEntropy H e') : e = e' ∨ Coll2 H.comb := by
  rw [fromEntropy_eq, fromEntropy_eq] at h
  rcases comb_inj H _ _ _ _ (Option.some.inj h) with ⟨h1, _⟩ | hc
  · exact Or.inl h1
  · exact Or.inr hc

theorem tokenId_commits (e e' : Bytes) (c c' : Bool)
    (h : reissuanceTokenFromEntropy H e c = reissuanceTokenFromEntropy H e' c') : (e = e' ∧ c = c') ∨ Coll2 H.comb := by
  rw [token_eq, token_eq] at h
  rcases comb_inj H _ _ _ _ (Option.some.inj h) with ⟨h1, h2⟩ | hc
  · refine Or.inl ⟨h1, ?_⟩
    cases c <;> cases c' <;> first | rfl | exact absurd h2 tokenLeaf_inj | exact absurd h2.symm tokenLeaf_inj
  · exact Or.inr hc

theorem asset_ne_token (e e' : Bytes) (c : Bool)
    (h : fromEntropy H e = reissuanceTokenFromEntropy H e' c) : Coll2 H.comb := by
  rw [fromEntropy_eq, token_eq] at h
  rcases comb_inj H _ _ _ _ (Option.some.inj h) with ⟨_, h2⟩ | hc
  · exact absurd h2 (assetLeaf_ne_tokenLeaf c)
  · exact hc

end EV.Proofs.Issuance
