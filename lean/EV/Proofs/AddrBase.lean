/-
  EV.Proofs.AddrBase — facts about the network table (`EV.Gen`), prefix matching and the two
  dispatch loops of `Address::from_str`, shared by the round-trip / canonical-form / one-network proofs.
-/
import EV.Model.Address
import EV.Proofs.SegwitCodec
import EV.Proofs.Base58
import EV.Proofs.Regroup
namespace EV.Addr
open EV.Bech32 EV.Base58

/-! ### the network table -/

/-- `from_str` tries exactly the three networks -/
theorem order_eq_all : Gen.fromStrOrder = Gen.allParamsB := by decide

theorem mem_all (p : Gen.AddrParamsB) (h : p ∈ Gen.allParamsB) :
    p = Gen.paramsLiquidB ∨ p = Gen.paramsElementsB ∨ p = Gen.paramsLiquidTestnetB := by
  simpa [Gen.allParamsB] using h

/-- the nine version bytes are pairwise different, in range and non-zero -/
def prefixBytes (p : Gen.AddrParamsB) : List Nat := [p.p2pkh, p.p2sh, p.blinded]

theorem prefix_bytes_distinct :
    ((Gen.allParamsB.flatMap prefixBytes).Nodup) ∧ ∀ b ∈ Gen.allParamsB.flatMap prefixBytes, 0 < b ∧ b < 256 := by
  decide

/-- the six human-readable parts are pairwise different, lower case, well-formed -/
def hrps (p : Gen.AddrParamsB) : List Text := [p.bechHrp, p.blechHrp]

theorem hrps_distinct : (Gen.allParamsB.flatMap hrps).Nodup := by decide

instance (h : Text) : Decidable (HrpOk h) := by unfold HrpOk; exact inferInstance

theorem hrps_ok : ∀ h ∈ Gen.allParamsB.flatMap hrps, HrpOk h ∧ h.length ≤ 3 ∧ 2 ≤ h.length := by decide

theorem hrpOk_lower (h : Text) (hh : HrpOk h) : lower h = h := by
  unfold lower
  have : ∀ b ∈ h, lowerByte b = b := by
    intro b hb
    have := (hh.2.2 b hb).2.2.1
    simp [lowerByte, this]
  calc h.map lowerByte = h.map id := List.map_congr_left this
    _ = h := List.map_id h

/-! ### prefix matching -/

theorem matchPrefix_eq (pre hrp X : Text) (h1 : lower pre = X) (h2 : pre.length = X.length) :
    matchPrefix pre hrp = (hrp.length == X.length && lower hrp == X) := by
  simp [matchPrefix, h1, h2]

theorem matchPrefix_iff (pre hrp : Text) :
    matchPrefix pre hrp = true ↔ lower hrp = lower pre := by
  simp only [matchPrefix, Bool.and_eq_true, beq_iff_eq]
  constructor
  · exact fun h => h.2
  · intro h
    refine ⟨?_, h⟩
    have := congrArg List.length h
    simpa [lower] using this

theorem matchPrefix_beq (pre hrp : Text) : matchPrefix pre hrp = (lower hrp == lower pre) := by
  rw [Bool.eq_iff_iff, matchPrefix_iff]
  simp

/-- the dispatch loop as a pure table lookup -/
def firstMatch (X : Text) : List Gen.AddrParamsB → Option (Bool × Gen.AddrParamsB)
  | [] => none
  | n :: ns =>
    if lower n.bechHrp == X then some (false, n)
    else if lower n.blechHrp == X then some (true, n)
    else firstMatch X ns

theorem dispatchBech_eq (P : Prims) (s pre : Text) (nets : List Gen.AddrParamsB) :
    dispatchBech P s pre nets = (firstMatch (lower pre) nets).map (fun bp => fromBech32 P s bp.1 bp.2) := by
  induction nets with
  | nil => rfl
  | cons n ns ih =>
    simp only [dispatchBech, firstMatch, matchPrefix_beq, ih]
    split
    · rfl
    · split <;> rfl

/-- the bech32 dispatch loop, when the prefix is (a case variant of) a network's unblinded hrp -/
theorem dispatchBech_bech (P : Prims) (s pre : Text) (p : Gen.AddrParamsB) (hp : p ∈ Gen.allParamsB)
    (h1 : lower pre = p.bechHrp) :
    dispatchBech P s pre Gen.fromStrOrder = some (fromBech32 P s false p) := by
  rw [dispatchBech_eq, h1]
  rcases mem_all p hp with rfl | rfl | rfl
  · have : firstMatch Gen.paramsLiquidB.bechHrp Gen.fromStrOrder = some (false, Gen.paramsLiquidB) := rfl
    rw [this]; rfl
  · have : firstMatch Gen.paramsElementsB.bechHrp Gen.fromStrOrder = some (false, Gen.paramsElementsB) := rfl
    rw [this]; rfl
  · have : firstMatch Gen.paramsLiquidTestnetB.bechHrp Gen.fromStrOrder = some (false, Gen.paramsLiquidTestnetB) := rfl
    rw [this]; rfl

theorem dispatchBech_blech (P : Prims) (s pre : Text) (p : Gen.AddrParamsB) (hp : p ∈ Gen.allParamsB)
    (h1 : lower pre = p.blechHrp) :
    dispatchBech P s pre Gen.fromStrOrder = some (fromBech32 P s true p) := by
  rw [dispatchBech_eq, h1]
  rcases mem_all p hp with rfl | rfl | rfl
  · have : firstMatch Gen.paramsLiquidB.blechHrp Gen.fromStrOrder = some (true, Gen.paramsLiquidB) := rfl
    rw [this]; rfl
  · have : firstMatch Gen.paramsElementsB.blechHrp Gen.fromStrOrder = some (true, Gen.paramsElementsB) := rfl
    rw [this]; rfl
  · have : firstMatch Gen.paramsLiquidTestnetB.blechHrp Gen.fromStrOrder = some (true, Gen.paramsLiquidTestnetB) := rfl
    rw [this]; rfl

/-- what a hit of the dispatch loop means -/
theorem dispatchBech_some (P : Prims) (s pre : Text) (nets : List Gen.AddrParamsB) (r : Res Address)
    (h : dispatchBech P s pre nets = some r) :
    ∃ p ∈ nets, (lower p.bechHrp = lower pre ∧ r = fromBech32 P s false p) ∨
                (lower p.blechHrp = lower pre ∧ r = fromBech32 P s true p) := by
  induction nets with
  | nil => simp [dispatchBech] at h
  | cons n nets ih =>
    simp only [dispatchBech] at h
    split at h
    · rename_i hm
      simp only [Option.some.injEq] at h
      exact ⟨n, by simp, Or.inl ⟨(matchPrefix_iff _ _).1 hm, h.symm⟩⟩
    · split at h
      · rename_i hm
        simp only [Option.some.injEq] at h
        exact ⟨n, by simp, Or.inr ⟨(matchPrefix_iff _ _).1 hm, h.symm⟩⟩
      · obtain ⟨p, hp, hr⟩ := ih h
        exact ⟨p, by simp [hp], hr⟩

theorem dispatchBech_none (P : Prims) (s pre : Text) (nets : List Gen.AddrParamsB)
    (h : dispatchBech P s pre nets = none) :
    ∀ p ∈ nets, matchPrefix pre p.bechHrp = false ∧ matchPrefix pre p.blechHrp = false := by
  induction nets with
  | nil => simp
  | cons n nets ih =>
    simp only [dispatchBech] at h
    split at h
    · simp at h
    · split at h
      · simp at h
      · rename_i h1 h2
        intro p hp
        simp only [List.mem_cons] at hp
        rcases hp with rfl | hp
        · exact ⟨by simpa using h1, by simpa using h2⟩
        · exact ih h p hp

/-- no prefix match at all ⇒ the loop falls through -/
theorem dispatchBech_none_of (P : Prims) (s pre : Text) (nets : List Gen.AddrParamsB)
    (h : ∀ p ∈ nets, matchPrefix pre p.bechHrp = false ∧ matchPrefix pre p.blechHrp = false) :
    dispatchBech P s pre nets = none := by
  induction nets with
  | nil => rfl
  | cons n nets ih =>
    have hn := h n (by simp)
    simp only [dispatchBech, hn.1, hn.2]
    exact ih (fun p hp => h p (by simp [hp]))

/-- the base58 dispatch loop finds the network that owns the first byte -/
theorem dispatchBase58_hit (P : Prims) (data : List Nat) (b0 : Nat) (p : Gen.AddrParamsB)
    (hp : p ∈ Gen.allParamsB) (hb : b0 = p.p2pkh ∨ b0 = p.p2sh ∨ b0 = p.blinded) :
    dispatchBase58 P data b0 Gen.fromStrOrder = fromBase58 P data p := by
  rcases mem_all p hp with rfl | rfl | rfl <;> rcases hb with rfl | rfl | rfl <;>
    simp [Gen.fromStrOrder, dispatchBase58, Gen.paramsLiquidB, Gen.paramsElementsB, Gen.paramsLiquidTestnetB]

theorem dispatchBase58_ok (P : Prims) (data : List Nat) (b0 : Nat) (nets : List Gen.AddrParamsB) (a : Address)
    (h : dispatchBase58 P data b0 nets = .ok a) :
    ∃ p ∈ nets, (b0 = p.p2pkh ∨ b0 = p.p2sh ∨ b0 = p.blinded) ∧ fromBase58 P data p = .ok a := by
  induction nets with
  | nil => simp [dispatchBase58] at h
  | cons n nets ih =>
    simp only [dispatchBase58] at h
    split at h
    · rename_i hm
      simp only [Bool.or_eq_true, decide_eq_true_eq] at hm
      exact ⟨n, by simp, by rcases hm with (h1 | h1) | h1 <;> simp [h1], h⟩
    · obtain ⟨p, hp, hr⟩ := ih h
      exact ⟨p, by simp [hp], hr⟩

/-! ### `find_prefix` -/

theorem findPrefix_split (h d : Text) (hd : ∀ c ∈ d, c ≠ 49) : findPrefix (h ++ 49 :: d) = h := by
  simp [findPrefix, splitLast_append h d hd]

/-- a non-empty prefix starts with the first character of the string -/
theorem findPrefix_head (s : Text) (c : Nat) (t : Text) (h : findPrefix s = c :: t) : ∃ st, s = c :: st := by
  unfold findPrefix at h
  split at h
  · rename_i hh d hs
    obtain ⟨rfl, _⟩ := splitLast_spec _ _ _ hs
    subst h
    exact ⟨_, rfl⟩
  · exact ⟨t, h⟩

/-- a string whose first character is not (a case variant of) `e`, `l` or `t` matches no network hrp -/
theorem no_match_of_head (P : Prims) (s : Text) (c : Nat) (st : Text) (hs : s = c :: st)
    (hc : lowerByte c ≠ 101 ∧ lowerByte c ≠ 108 ∧ lowerByte c ≠ 116) :
    dispatchBech P s (findPrefix s) Gen.fromStrOrder = none := by
  apply dispatchBech_none_of
  have hheads0 : ∀ h ∈ Gen.allParamsB.flatMap hrps,
      h.head? = some 101 ∨ h.head? = some 108 ∨ h.head? = some 116 := by decide
  have hheads : ∀ h ∈ Gen.allParamsB.flatMap hrps, ∃ x t, h = x :: t ∧ (x = 101 ∨ x = 108 ∨ x = 116) := by
    intro h hh
    have := hheads0 h hh
    cases h with
    | nil => simp at this
    | cons x t => exact ⟨x, t, rfl, by simpa using this⟩
  intro p hp
  rw [order_eq_all] at hp
  have key : ∀ h ∈ hrps p, matchPrefix (findPrefix s) h = false := by
    intro h hh
    obtain ⟨x, t, rfl, hx⟩ := hheads h (List.mem_flatMap.2 ⟨p, hp, hh⟩)
    cases hm : matchPrefix (findPrefix s) (x :: t) with
    | false => rfl
    | true =>
      exfalso
      have heq := (matchPrefix_iff _ _).1 hm
      cases hf : findPrefix s with
      | nil => rw [hf] at heq; simp [lower] at heq
      | cons c' t' =>
        obtain ⟨st', hs'⟩ := findPrefix_head s c' t' hf
        rw [hs] at hs'
        simp only [List.cons.injEq] at hs'
        rw [hf] at heq
        simp only [lower, List.map_cons, List.cons.injEq] at heq
        have : lowerByte c = lowerByte x := by rw [hs'.1]; exact heq.1.symm
        rcases hx with rfl | rfl | rfl
        · exact hc.1 (by rw [this]; decide)
        · exact hc.2.1 (by rw [this]; decide)
        · exact hc.2.2 (by rw [this]; decide)
  exact ⟨key _ (by simp [hrps]), key _ (by simp [hrps])⟩

end EV.Addr
