/-
  EV.Proofs.PeggedAsset — helper lemmas for the pegged-asset section of C11 (EV.Model.PeggedAsset):
  closed form of the derivation, what it commits to, the relation to the genesis asset transaction,
  text forms of `AssetId`.
-/
import EV.Model.PeggedAsset
import EV.Proofs.Issuance
import EV.Proofs.Genesis
import EV.Proofs.Text
namespace EV.Proofs.PeggedAsset
open EV EV.Codec EV.Genesis EV.PeggedAsset EV.Proofs.Issuance

/-! ### constants (regenerated from src/issuance.rs and the bitcoin crate) -/

theorem vout_zero : Gen.peggedAssetVout = 0 := by decide
theorem vout_genesis : Gen.genesisAssetVout = Gen.peggedAssetVout := by decide
theorem le_vout : encLe 4 Gen.peggedAssetVout = [0, 0, 0, 0] := by decide
theorem parent_is_regtest : parentChainHash = regtestChainHash := by decide
theorem ids_distinct : networkIdLiquidBtc ≠ networkIdLiquidtestnetBtc := by decide
theorem liquidv1_named : NetworkParams.liquidv1.networkId = networkIdLiquidBtc := by decide
theorem liquidtestnet_named : NetworkParams.liquidtestnet.networkId = networkIdLiquidtestnetBtc := by decide
theorem regtest_ne_zero : regtestChainHash ≠ List.replicate 32 0 := by decide
theorem parent_ne_zero : parentChainHash ≠ List.replicate 32 0 := by decide
theorem const_lengths :
    liquidBtc.length = 32 ∧ liquidtestnetBtc.length = 32 ∧ regtestChainHash.length = 32 ∧
    bitcoinChainHash.length = 32 ∧ testnetChainHash.length = 32 := by decide
theorem consts_distinct : liquidBtc ≠ liquidtestnetBtc := by decide

variable (G : GHashes)

/-! ### closed form -/

/-- the asset id derived from a commitment `c` with `x` in the contract-hash position -/
def derived (H : Hashes) (c x : Bytes) : Bytes :=
  H.comb (H.comb (H.sha256d (c ++ encLe 4 Gen.peggedAssetVout)) x) Issuance.assetLeaf

theorem derive_eq (p : NetworkParams) (x : Bytes) :
    forParamsAndParent G p x = some (derived G.toHashes (commit G.sha256 p) x) := by
  simp only [forParamsAndParent, entropy_eq, fromEntropy_eq, derived]

theorem derive_is_newIssuance (p : NetworkParams) (x : Bytes) :
    forParamsAndParent G p x = Issuance.newIssuance G.toHashes ⟨commit G.sha256 p, Gen.peggedAssetVout⟩ x := by
  rfl

theorem named_first (p : NetworkParams) (h : p.networkId = networkIdLiquidBtc) :
    forNetworkParams G p = some liquidBtc := by
  simp only [forNetworkParams, h, if_true]

theorem named_second (p : NetworkParams) (h : p.networkId = networkIdLiquidtestnetBtc) :
    forNetworkParams G p = some liquidtestnetBtc := by
  have h1 : ¬ networkIdLiquidtestnetBtc = networkIdLiquidBtc := fun e => ids_distinct e.symm
  simp only [forNetworkParams, h, h1, if_false, if_true]

theorem custom_eq (p : NetworkParams) (h : ¬ IsNamed p) :
    forNetworkParams G p = forParamsAndParent G p parentChainHash := by
  have h1 : ¬ p.networkId = networkIdLiquidBtc := fun e => h (Or.inl e)
  have h2 : ¬ p.networkId = networkIdLiquidtestnetBtc := fun e => h (Or.inr e)
  simp only [forNetworkParams, h1, h2, if_false]

theorem total (p : NetworkParams) : ∃ a, forNetworkParams G p = some a := by
  by_cases h1 : p.networkId = networkIdLiquidBtc
  · exact ⟨_, named_first G p h1⟩
  · by_cases h2 : p.networkId = networkIdLiquidtestnetBtc
    · exact ⟨_, named_second G p h2⟩
    · exact ⟨_, (custom_eq G p (fun h => h.elim h1 h2)).trans (derive_eq G p _)⟩

/-! ### commitment -/

theorem derived_inj (H : Hashes) (c c' x x' : Bytes) (h : derived H c x = derived H c' x') :
    (c = c' ∧ x = x') ∨ Coll1 H.sha256d ∨ Coll2 H.comb := by
  simp only [derived] at h
  rcases comb_inj H _ _ _ _ h with ⟨h1, _⟩ | hc
  · rcases comb_inj H _ _ _ _ h1 with ⟨h2, h3⟩ | hc
    · by_cases e : c = c'
      · exact Or.inl ⟨e, h3⟩
      · refine Or.inr (Or.inl ⟨_, _, ?_, h2⟩)
        intro he
        exact e (List.append_cancel_right he)
    · exact Or.inr (Or.inr hc)
  · exact Or.inr (Or.inr hc)

/-- same commitment, different contract-hash position: only the compression function is involved -/
theorem derived_same_commit (H : Hashes) (c x x' : Bytes) (h : derived H c x = derived H c x') :
    x = x' ∨ Coll2 H.comb := by
  simp only [derived] at h
  rcases comb_inj H _ _ _ _ h with ⟨h1, _⟩ | hc
  · rcases comb_inj H _ _ _ _ h1 with ⟨_, h3⟩ | hc
    · exact Or.inl h3
    · exact Or.inr hc
  · exact Or.inr hc

theorem derive_commits (p q : NetworkParams) (x x' : Bytes)
    (h : forParamsAndParent G p x = forParamsAndParent G q x') :
    (commit G.sha256 p = commit G.sha256 q ∧ x = x') ∨ Coll1 G.sha256d ∨ Coll2 G.comb := by
  rw [derive_eq, derive_eq] at h
  exact derived_inj G.toHashes _ _ _ _ (Option.some.inj h)

/-! ### the genesis asset transaction -/

/-- the asset id of `liquid_genesis_asset_tx` is the derivation with the ZERO contract hash -/
theorem genesisAssetId_eq_derived (H : Hashes) (c : Bytes) :
    EV.Proofs.Genesis.genesisAssetId H c = derived H c (List.replicate 32 0) := by
  simp only [EV.Proofs.Genesis.genesisAssetId, derived, EV.Proofs.Genesis.rep32_zero, vout_genesis]

theorem genesis_ne_derive (p : NetworkParams) (x : Bytes) (hx : x ≠ List.replicate 32 0)
    (h : forParamsAndParent G p x = some (EV.Proofs.Genesis.genesisAssetId G.toHashes (commit G.sha256 p))) :
    Coll2 G.comb := by
  rw [derive_eq, genesisAssetId_eq_derived] at h
  rcases derived_same_commit G.toHashes _ _ _ (Option.some.inj h) with e | hc
  · exact absurd e hx
  · exact hc

/-! ### text -/

theorem display_eq (a : Bytes) : display a = Text.hexStr a.reverse := rfl

theorem fromStr_display (a : Bytes) (h : a.length = 32) : fromStr (display a) = .ok a :=
  Text.hashParse_hashShow kind a h

theorem nib_upper_fin : ∀ n : Fin 16, Hex.nib (upperChar (Hex.digit n.val)) = some n.val := by decide

theorem nib_upper (n : Nat) (h : n < 16) : Hex.nib (upperChar (Hex.digit n)) = some n := nib_upper_fin ⟨n, h⟩

theorem decodeChars_upper (bs : Bytes) : Hex.decodeChars ((Text.hexStr bs).map upperChar) = some bs := by
  induction bs with
  | nil => rfl
  | cons b rest ih =>
    have h1 : b.toNat / 16 < 16 := by have := b.toNat_lt; omega
    have h2 : b.toNat % 16 < 16 := Nat.mod_lt _ (by decide)
    have hb : UInt8.ofNat (b.toNat / 16 * 16 + b.toNat % 16) = b := by
      have : b.toNat / 16 * 16 + b.toNat % 16 = b.toNat := by omega
      rw [this]; exact UInt8.ofNat_toNat
    simp only [Text.hexStr, List.flatMap_cons, Hex.ofByte, List.cons_append, List.nil_append, List.map_cons] at ih ⊢
    simp only [Hex.decodeChars, nib_upper _ h1, nib_upper _ h2, ih, hb]

theorem fromStr_upperHex (a : Bytes) (h : a.length = 32) : fromStr (upperHex a) = .ok a := by
  have hl : ((Text.hexStr a.reverse).map upperChar).length = 2 * 32 := by
    rw [List.length_map, Text.hexStr_length, List.length_reverse, h]
  simp only [fromStr, upperHex, display, Text.hashParse, Text.hashShow, kind, if_true, Text.unhexN, hl,
    ne_eq, not_true_eq_false, if_false, Text.unhex, decodeChars_upper, List.reverse_reverse]

/-- a successful decode consumed two characters per byte -/
theorem decodeChars_length : ∀ (n : Nat) (cs : List Char) (b : Bytes), cs.length ≤ n →
    Hex.decodeChars cs = some b → cs.length = 2 * b.length
  | _, [], b, _, h => by simp only [Hex.decodeChars, Option.some.injEq] at h; subst h; rfl
  | _, [_], _, _, h => by simp [Hex.decodeChars] at h
  | 0, _ :: _ :: _, _, hn, _ => by simp at hn
  | n + 1, x :: y :: rest, b, hn, h => by
    simp only [Hex.decodeChars] at h
    split at h
    · rename_i r _ _ hr
      simp only [Option.some.injEq] at h
      subst h
      have := decodeChars_length n rest r (by simp only [List.length_cons] at hn; omega) hr
      simp only [List.length_cons]
      omega
    · cases h

theorem fromStr_ok (s : Text.Str) (a : Bytes) (h : fromStr s = .ok a) : s.length = 64 ∧ a.length = 32 := by
  simp only [fromStr, Text.hashParse, kind, if_true, Text.unhexN] at h
  by_cases hl : s.length = 2 * 32
  · simp only [hl, ne_eq, not_true_eq_false, if_false, Text.unhex] at h
    cases hd : Hex.decodeChars s with
    | none => simp [hd] at h
    | some b =>
      simp only [hd, Res.ok.injEq] at h
      have := decodeChars_length s.length s b (Nat.le_refl _) hd
      subst h
      refine ⟨hl, ?_⟩
      rw [List.length_reverse]; omega
  · simp only [ne_eq, hl, not_false_eq_true, if_true] at h
    cases h

end EV.Proofs.PeggedAsset
